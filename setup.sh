#!/bin/bash
# Offline setup after a fresh restore: build every engine of the harness (plain, and -race where a check
# needs it) from files on disk only. Touches nothing outside /verif and the Go build cache.
set -eu
cd "$(dirname "$0")"
export GOFLAGS=-mod=mod GOPROXY=off
mkdir -p .build logs evidence
[ -f harness/go.sum ] || cp -f /repo/go/go.sum harness/go.sum
for d in harness/cmd/*/; do
  e=$(basename "$d")
  ( cd harness && go build -trimpath -tags verif -o "../.build/$e" "./cmd/$e" )
  for p in $(.build/$e list); do
    if [ "$(.build/$e needs-race "$p")" = yes ]; then
      ( cd harness && go build -trimpath -tags verif -race -o "../.build/$e-race" "./cmd/$e" ); break
    fi
  done
  echo "built $e: $(.build/$e list | tr '\n' ' ')"
done
echo "setup ok"
