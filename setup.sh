#!/bin/bash
# Offline setup after a fresh restore: build the harness (plain and -race) from files on disk only.
set -eu
cd "$(dirname "$0")"
export GOFLAGS=-mod=mod GOPROXY=off
mkdir -p .build logs evidence
cp -f /repo/go/go.sum harness/go.sum
( cd harness && go build -tags verif -o ../.build/vh ./cmd/vh )
( cd harness && go build -tags verif -race -o ../.build/vh-race ./cmd/vh )
.build/vh list >/dev/null
echo "setup ok: $(.build/vh list | wc -l) checks registered"
