#!/bin/bash
# ./seed_verify.sh <seed-id> <package dir under go/> <test regexp> [demo file name]
# Confirms a seeded change: on a scratch copy of /repo/go the demonstration PASSES without the patch and FAILS with it.
set -u
ID="$1"; PKG="$2"; RUN="$3"; DEMO="${4:-zz_seed_demo_test.go}"
S=/var/tmp/verif-seedv-$$; trap 'rm -rf "$S"' EXIT
mkdir -p "$S" && cp -r /repo/go "$S/go" && cp "/verif/seeded/$ID/$DEMO" "$S/go/$PKG/$(basename "$DEMO")"
export GOFLAGS=-mod=mod GOPROXY=off
cd "$S/go"
go test -count=1 -timeout 60m -run "$RUN" "./$PKG/" > "$S/without.log" 2>&1; W=$?
( cd "$S" && patch -p1 --no-backup-if-mismatch < "/verif/seeded/$ID/patch.diff" ) > /dev/null || { echo "$ID: patch failed"; exit 3; }
go build ./... > "$S/build.log" 2>&1; B=$?
go test -count=1 -timeout 60m -run "$RUN" "./$PKG/" > "$S/with.log" 2>&1; X=$?
echo "$ID: demo without patch exit=$W (want 0); build with patch exit=$B (want 0); demo with patch exit=$X (want !=0)"
tail -3 "$S/with.log" | cut -c1-200
