#!/bin/bash
# ./sweep.sh <seed> [tier]   — run every claimed check once at the given seed; summary in logs/sweep-<seed>.txt
cd "$(dirname "$0")"; SEED="${1:-1}"; TIER="${2:-quick}"; OUT="logs/sweep-$SEED-$TIER.txt"; mkdir -p logs; : > "$OUT"
for p in $(python3 -c "import json; print(' '.join(c['property_id'] for c in json.load(open('MANIFEST.json'))['checks']))"); do
  s=$(date +%s); VERIF_SEED=$SEED ./check $p $TIER > "logs/sweep-$SEED-$p.out" 2>&1; rc=$?; e=$(date +%s)
  echo "$p exit=$rc wall=$((e-s))s $(grep -c '^VIOLATION' logs/sweep-$SEED-$p.out) violations, $(grep -c '^KNOWN-FINDING' logs/sweep-$SEED-$p.out) known, $(grep -c '^INCONCLUSIVE' logs/sweep-$SEED-$p.out) inconclusive" >> "$OUT"
done
python3-vt - <<'PY' >> "$OUT" 2>&1
import json,glob,jsonschema
sch=json.load(open('/root/.vp/EVIDENCE.schema.json')); bad=0
for f in sorted(glob.glob('/verif/evidence/*.json')):
    try: jsonschema.validate(json.load(open(f)), sch)
    except Exception as e: bad+=1; print('INVALID EVIDENCE', f, str(e)[:200])
print('evidence files invalid:', bad)
PY
echo "sweep done" >> "$OUT"
