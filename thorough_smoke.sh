#!/bin/bash
# ./thorough_smoke.sh <ids...> — run the thorough tier of the given checks one after the other (summary on stdout)
cd "$(dirname "$0")"; mkdir -p logs
for p in "$@"; do
  s=$(date +%s); VERIF_SEED=${VERIF_SEED:-1} ./check $p thorough > "logs/thorough-$p.out" 2>&1; rc=$?; e=$(date +%s)
  echo "$p exit=$rc wall=$((e-s))s $(grep -c '^VIOLATION' logs/thorough-$p.out) violations, $(grep -c '^KNOWN-FINDING' logs/thorough-$p.out) known, $(grep -c '^INCONCLUSIVE' logs/thorough-$p.out) inconclusive"
done
