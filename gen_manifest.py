#!/usr/bin/env python3
"""Regenerates MANIFEST.json from harness/engines/*/meta.json (one entry per claimed property) and properties.jsonl.
Every property without an entry in checks_meta.json is listed under not_applicable with its reason from
not_claimed.json (default: not built yet)."""
import json, subprocess, sys, os
root = os.path.dirname(os.path.abspath(__file__))
props = [json.loads(l) for l in open(os.path.join(root, 'properties.jsonl'))]
import glob
meta = {}
for f in sorted(glob.glob(os.path.join(root, 'harness/engines/*/meta.json'))):
    eng = os.path.basename(os.path.dirname(f))
    for k, v in json.load(open(f)).items():
        v.setdefault('engine', eng)
        meta[k] = v
try:
    not_claimed = json.load(open(os.path.join(root, 'not_claimed.json')))
except FileNotFoundError:
    not_claimed = {}
hook_commits = [l.strip() for l in open(os.path.join(root, 'MANIFEST.hooks')) if l.strip() and not l.startswith('#')]
baseline = json.load(open('/root/.vp/BASELINE.json'))['cmd'] if os.path.exists('/root/.vp/BASELINE.json') else \
    "cd /repo/go && go test -vet=off -count=1 -timeout 25m ./..."
ready = set(l.split()[0] for l in open(os.path.join(root, 'ready.txt')) if l.strip() and not l.startswith('#'))
checks, na = [], []
for p in props:
    pid = p['id']
    m = meta.get(pid)
    if m and pid not in ready:
        na.append({"property_id": pid, "reason": "check under construction / not yet reviewed and validated on the unchanged tree; nothing is claimed about it yet"})
        continue
    if not m:
        na.append({"property_id": pid, "reason": not_claimed.get(pid, "no check built yet for this property (planned design: DESIGN.md §4); nothing is claimed about it")})
        continue
    checks.append({
        "property_id": pid,
        "quick_cmd": f"./check {pid} quick",
        "thorough_cmd": f"./check {pid} thorough",
        "evidence_file": f"evidence/{pid}.json",
        "replay_cmd_template": f"./check {pid} --replay {{path}}",
        "engine": m["engine"],
        "level_claimed": {"category": m["level"], "text": m["text"], "design_ref": m.get("design_ref", "DESIGN.md §4 " + pid)},
        "level_note": m["note"],
        "technique": m["technique"],
    })
engines = {}
for pid, m in meta.items():
    if pid not in ready:
        continue
    engines.setdefault(m["engine"], []).append(pid)
man = {
    "version": 1,
    "setup_cmd": "./setup.sh",
    "hooks": {
        "guard": "verif",
        "enable": "go build/test -tags verif (./check passes the tag itself; hook call sites use go/libraries/utils/verifhook, a no-op without the tag)",
        "baseline_off_cmd": baseline,
        "source_commits": hook_commits,
        "add_only": True,
    },
    "engines": [{"name": e, "path": "harness/engines/" + e.split('+')[0], "serves_properties": sorted(v),
                 "kind_free_text": "runtime monitor (Go), run as a worker child of harness/cmd/vh; twins are overlay-injected in-package go tests under inpkg/"} for e, v in sorted(engines.items())],
    "checks": checks,
    "not_applicable": na,
    "notes": "Single entry point ./check <id> <quick|thorough>; exit 0 held / 1 VIOLATION / 2 inconclusive. Technique family: runtime monitoring (execution oracles, race detector, crash/fault injection, porcupine). See DESIGN.md.",
}
json.dump(man, open(os.path.join(root, 'MANIFEST.json'), 'w'), indent=1)
print(f"MANIFEST.json: {len(checks)} checks, {len(na)} not_applicable")
