#!/usr/bin/env python3
# prints the §7.6 table of DESIGN.md from seeded/*/meta.json
import json,glob,os
print("| seed | change | needs | verdict per check |"); print("|---|---|---|---|")
for f in sorted(glob.glob(os.path.join(os.path.dirname(os.path.abspath(__file__)),'seeded/*/meta.json'))):
    m=json.load(open(f)); d=m.get('detected_by',{})
    v=' · '.join('**%s**: %s'%(k,str(x).replace('|','/')) for k,x in d.items())
    print('| %s | %s | %s | %s |'%(m.get('id',os.path.basename(os.path.dirname(f))), str(m.get('change','')).replace('|','/'), str(m.get('needs','')).replace('|','/'), v))
