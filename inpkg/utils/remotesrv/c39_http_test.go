//go:build verif

package main

// C39 (part 2) — requests served by the remote server's HTTP file handler stay inside its root.
//
// The real stack of the stand-alone remote server is assembled the way main() does it: a LocalFS rooted at the
// server's directory, the real LocalCSCache and remotesrv.NewFileHandler, behind an httptest server. Two sealers:
// a pass-through sealer (the one `dolt transfer` configures; it makes every request path reach the handler) and the
// real symmetric-key sealer, for which each hostile URL is first sealed the way the gRPC side seals whatever repo
// path the client named.
//
// Layout:   <jail>/c/b/a/root      the configured root (three levels below the jail so that generated "../" chains,
//                                   which are capped at three levels, can never leave the jail)
//           <jail>/...              canary files with table-file-like names and secret content OUTSIDE the root
// Oracle: after every request the jail minus the root is compared with its snapshot (no entry may appear, vanish
// or change) and the raw response bytes are searched for the canary secret.

import (
	"bufio"
	"crypto/md5"
	"crypto/sha256"
	"encoding/base64"
	"encoding/hex"
	"fmt"
	"io"
	"io/fs"
	"math/rand"
	"net"
	"net/http/httptest"
	"net/url"
	"os"
	"path/filepath"
	"sort"
	"strings"
	"testing"
	"time"

	"github.com/sirupsen/logrus"

	"github.com/dolthub/dolt/go/libraries/doltcore/remotesrv"
	"github.com/dolthub/dolt/go/libraries/utils/filesys"
)

type c39PassThru struct{}

func (c39PassThru) Seal(u *url.URL) (*url.URL, error)   { return u, nil }
func (c39PassThru) Unseal(u *url.URL) (*url.URL, error) { return u, nil }

const (
	c39CanaryName = "caaaaaaaaaaaaaaaaaaaaaaaaaaaaaaa" // parses as a table file name (32 base32 characters)
	c39InsideName = "0123456789abcdefghijklmnopqrstuv"
	c39UploadName = "vvvvvvvvvvvvvvvvvvvvvvvvvvvvvvvv"
)

func c39Snapshot(jail, root string) map[string]string {
	out := map[string]string{}
	filepath.WalkDir(jail, func(p string, d fs.DirEntry, err error) error {
		if err != nil {
			return nil
		}
		if p == root {
			return filepath.SkipDir
		}
		rel, _ := filepath.Rel(jail, p)
		if d.IsDir() {
			out[rel] = "dir"
			return nil
		}
		b, rerr := os.ReadFile(p)
		if rerr != nil {
			out[rel] = "unreadable"
			return nil
		}
		h := sha256.Sum256(b)
		out[rel] = fmt.Sprintf("file %d %s", len(b), hex.EncodeToString(h[:8]))
		return nil
	})
	return out
}

func c39DiffSnap(a, b map[string]string) []string {
	var out []string
	for k, v := range a {
		if w, ok := b[k]; !ok {
			out = append(out, "removed: "+k)
		} else if v != w {
			out = append(out, "changed: "+k+" ("+v+" -> "+w+")")
		}
	}
	for k, v := range b {
		if _, ok := a[k]; !ok {
			out = append(out, "appeared: "+k+" ("+v+")")
		}
	}
	sort.Strings(out)
	return out
}

// c39Raw sends one raw HTTP/1.1 request and returns everything the server answered.
func c39Raw(addr, method, target string, hdr map[string]string, body []byte) ([]byte, error) {
	conn, err := net.DialTimeout("tcp", addr, 5*time.Second)
	if err != nil {
		return nil, err
	}
	defer conn.Close()
	conn.SetDeadline(time.Now().Add(20 * time.Second))
	w := bufio.NewWriter(conn)
	fmt.Fprintf(w, "%s %s HTTP/1.1\r\nHost: %s\r\nConnection: close\r\n", method, target, addr)
	for k, v := range hdr {
		fmt.Fprintf(w, "%s: %s\r\n", k, v)
	}
	if body != nil {
		fmt.Fprintf(w, "Content-Length: %d\r\n", len(body))
	}
	w.WriteString("\r\n")
	w.Write(body)
	if err := w.Flush(); err != nil {
		return nil, err
	}
	return io.ReadAll(conn)
}

func c39Status(resp []byte) string {
	line, _, _ := strings.Cut(string(resp), "\r\n")
	f := strings.Fields(line)
	if len(f) >= 2 {
		return f[1]
	}
	return "none"
}

type c39Target struct {
	Path  string // decoded path the attacker wants the server to see
	Raw   string // raw request-target path (may be encoded differently / invalid)
	Class string
}

// c39GenTarget builds a hostile path. up is the number of ".." levels it tries to climb (<= 3).
func c39GenTarget(rng *rand.Rand, absCanaryDir string) c39Target {
	ups := [][]string{
		{".."}, {"..", ".."}, {"..", "..", ".."}, {"db", "..", ".."}, {"db", "..", "..", ".."}, {"db", "x", "..", "..", ".."},
		{".", ".."}, {"db", ".", "..", ".."}, {"", ".."}, {"db", "", "..", ".."},
	}
	// where the canaries are, relative to the directory reached after climbing
	var segs []string
	class := ""
	switch rng.Intn(10) {
	case 0, 1, 2, 3, 4:
		up := ups[rng.Intn(len(ups))]
		segs = append(segs, up...)
		// canaries live at jail/c/b/<name> (1 up), jail/c/<name> (2 up), jail/<name> (3 up) and in an "outside" dir next to each
		if rng.Intn(2) == 0 {
			segs = append(segs, "outside")
		}
		class = "dot-segments"
	case 5:
		segs = strings.Split(strings.TrimPrefix(absCanaryDir, "/"), "/")
		class = "absolute-path"
	case 6:
		segs = []string{"db", "..", "..", "outside"}
		class = "dot-segments"
	case 7:
		segs = []string{"db"}
		class = "inside-root"
	case 8:
		segs = []string{strings.Repeat("A", 200+rng.Intn(3000)), "..", "..", ".."}
		class = "very-long"
	default:
		segs = []string{"db", "..\\..\\outside"}
		class = "backslash"
	}
	name := c39CanaryName
	switch rng.Intn(6) {
	case 0:
		name = c39CanaryName + ".darc"
	case 1:
		name = c39UploadName
	}
	segs = append(segs, name)
	path := strings.Join(segs, "/")
	if class != "absolute-path" || rng.Intn(2) == 0 {
		if rng.Intn(4) != 0 {
			path = "/" + path
		}
	} else {
		path = "//" + path
	}
	if !strings.HasPrefix(path, "/") {
		path = "/" + path
	}
	// raw encodings of the same decoded path
	raw := path
	switch rng.Intn(8) {
	case 0:
		raw = strings.ReplaceAll(path, "..", "%2e%2e")
		class += "+encoded-dots"
	case 1:
		raw = "/" + strings.ReplaceAll(strings.TrimPrefix(path, "/"), "/", "%2f")
		class += "+encoded-separators"
	case 2:
		raw = "/" + strings.ReplaceAll(strings.TrimPrefix(path, "/"), "/", "%2F")
		raw = strings.ReplaceAll(raw, "..", ".%2E")
		class += "+encoded-separators"
	case 3:
		raw = strings.ReplaceAll(path, "..", "%252e%252e") // double encoding: decodes to the literal text %2e%2e
		class += "+double-encoded"
	case 4:
		raw = strings.ReplaceAll(path, "/..", "/..%00")
		class += "+nul"
	case 5:
		raw = strings.ReplaceAll(path, "/", "/./")
		class += "+dot-padding"
	case 6:
		raw = strings.ReplaceAll(path, "/..", "/%5c..")
		class += "+backslash"
	}
	return c39Target{Path: path, Raw: raw, Class: class}
}

func TestVerifC39Http(t *testing.T) {
	c := vNew()
	defer c.Done()
	c.Rule("case = one raw HTTP request (GET with/without Range, PUT, POST) whose path is built from dot segments (<= 3 levels), the absolute path of a canary, " +
		"200-3000 byte segments and backslashes, sent verbatim / with %2e, %2f, %5c, %00, double encoding or /./ padding, to the real file handler over the real " +
		"LocalCSCache, once through a pass-through sealer and once sealed by the real sealer; distinct non-trivial = distinct (method, path class, sealer)")
	c.Assume("symbolic links inside the root and races with other processes are out of scope; the jail is private to this run")

	jail := filepath.Join(c.Dir, "c39jail")
	root := filepath.Join(jail, "c", "b", "a", "root")
	if err := os.MkdirAll(filepath.Join(root, "db"), 0o755); err != nil {
		t.Fatal(err)
	}
	secret := fmt.Sprintf("CANARY-%016x-%016x", c.Rand.Uint64(), c.Rand.Uint64())
	var canaryDirs []string
	for _, d := range []string{"c/b/a", "c/b", "c", "", "c/b/a/outside", "c/b/outside", "c/outside", "outside", "c/b/a/db", "c/b/db"} {
		dir := filepath.Join(jail, d)
		os.MkdirAll(dir, 0o755)
		canaryDirs = append(canaryDirs, dir)
		for _, n := range []string{c39CanaryName, c39CanaryName + ".darc"} {
			if err := os.WriteFile(filepath.Join(dir, n), []byte(secret+"\n"+strings.Repeat("x", 64)), 0o644); err != nil {
				t.Fatal(err)
			}
		}
	}
	inside := []byte("INSIDE-ROOT-CONTENT-" + strings.Repeat("y", 40))
	os.WriteFile(filepath.Join(root, "db", c39InsideName), inside, 0o644)

	lfs, err := filesys.LocalFilesysWithWorkingDir(root)
	if err != nil {
		t.Fatal(err)
	}
	lg := logrus.New()
	lg.SetOutput(io.Discard)
	entry := logrus.NewEntry(lg)
	realSealer, err := remotesrv.NewSingleSymmetricKeySealer()
	if err != nil {
		t.Fatal(err)
	}
	type srv struct {
		name   string
		sealer remotesrv.Sealer
		ts     *httptest.Server
	}
	var srvs []srv
	for _, s := range []struct {
		name   string
		sealer remotesrv.Sealer
	}{{"pass-through-sealer", c39PassThru{}}, {"real-sealer", realSealer}} {
		h := remotesrv.NewFileHandler(entry, NewLocalCSCache(lfs), lfs, false, s.sealer, false)
		ts := httptest.NewServer(h)
		defer ts.Close()
		srvs = append(srvs, srv{s.name, s.sealer, ts})
	}

	before := c39Snapshot(jail, root)
	perKey := map[string]int{}
	viol := func(key, what string, w any) {
		perKey[key]++
		if perKey[key] <= 3 {
			c.Violation(key, what, w)
		} else {
			c.Count("c39.violations_beyond_3_per_class."+key, 1)
		}
	}
	statuses := map[string]int{}
	outsideBy := map[string]int{}
	var posGet, posPut, reqs, unsealable int

	send := func(s srv, method string, tg c39Target, query string, hdr map[string]string, body []byte, caseNo int) (string, []byte) {
		target := tg.Raw
		if s.name == "real-sealer" {
			// what the gRPC side would hand out for this path: Seal(url.URL{Path: <decoded path>, RawQuery})
			u := &url.URL{Scheme: "http", Host: s.ts.Listener.Addr().String(), Path: strings.TrimPrefix(tg.Path, "/"), RawQuery: query}
			sealed, err := s.sealer.Seal(u)
			if err != nil {
				unsealable++
				return "seal-error", nil
			}
			target = sealed.RequestURI()
		} else if query != "" {
			target += "?" + query
		}
		c.Case(fmt.Sprintf("c39/http/%d/%s/%s", caseNo, s.name, method), map[string]any{"method": method, "target": target, "decoded_path": tg.Path, "class": tg.Class})
		resp, err := c39Raw(s.ts.Listener.Addr().String(), method, target, hdr, body)
		reqs++
		kind := "upload"
		if method == "GET" {
			kind = "get"
		}
		st := c39Status(resp)
		if err != nil && len(resp) == 0 {
			st = "io-error"
		}
		statuses[method+" "+st]++
		if strings.Contains(string(resp), secret) || strings.Contains(string(resp), secret[:20]) {
			viol("c39/http/"+kind+"/canary-bytes-in-response",
				fmt.Sprintf("%s %q answered %s with the content of a file outside the root", method, target, st),
				map[string]any{"method": method, "target": target, "decoded_path": tg.Path, "root": root, "status": st, "path_class": tg.Class, "sealer": s.name})
		}
		after := c39Snapshot(jail, root)
		if d := c39DiffSnap(before, after); len(d) > 0 {
			viol("c39/http/"+kind+"/filesystem-changed-outside-root",
				fmt.Sprintf("%s %q answered %s and changed the file system outside the root: %v", method, target, st, d),
				map[string]any{"method": method, "target": target, "decoded_path": tg.Path, "root": root, "jail": jail, "changes": d, "status": st, "path_class": tg.Class, "sealer": s.name})
			outsideBy[s.name+"/"+tg.Class]++
			before = after // report each change once
		}
		c.Distinct(method + "|" + tg.Class + "|" + s.name)
		return st, resp
	}

	// positive controls: the handler does serve / store files inside the root
	body := []byte("UPLOAD-" + strings.Repeat("z", 100))
	sum := md5.Sum(body)
	upQ := fmt.Sprintf("num_chunks=1&content_length=%d&content_hash=%s", len(body), base64.RawURLEncoding.EncodeToString(sum[:]))
	for si, s := range srvs {
		st, resp := send(s, "GET", c39Target{Path: "/db/" + c39InsideName, Raw: "/db/" + c39InsideName, Class: "control"}, "", nil, nil, -1)
		if st == "200" && strings.Contains(string(resp), string(inside)) {
			posGet++
		}
		up := fmt.Sprintf("/up%d/%s", si, c39UploadName)
		st, _ = send(s, "PUT", c39Target{Path: up, Raw: up, Class: "control"}, upQ, nil, body, -1)
		if _, err := os.Stat(filepath.Join(root, fmt.Sprintf("up%d", si))); err == nil {
			posPut++
		}
		c.Note(fmt.Sprintf("control upload through %s answered %s", s.name, st))
	}

	nCases := c.Pick(500, 10000)
	for ci := 0; ci < nCases; ci++ {
		rng := c.SubRand("c39/http", ci)
		tg := c39GenTarget(rng, canaryDirs[rng.Intn(len(canaryDirs))])
		s := srvs[rng.Intn(len(srvs))]
		switch rng.Intn(5) {
		case 0, 1:
			send(s, "GET", tg, "", nil, nil, ci)
		case 2:
			send(s, "GET", tg, "", map[string]string{"Range": []string{"bytes=0-15", "bytes=0-0", "bytes=5-70"}[rng.Intn(3)]}, nil, ci)
		case 3:
			send(s, "PUT", tg, upQ, nil, body, ci)
		default:
			send(s, "POST", tg, upQ, nil, body, ci)
		}
		if ci < 5 {
			c.Sample(map[string]any{"raw_path": tg.Raw, "class": tg.Class, "server": s.name})
		}
	}
	c.Count("c39.http.requests", reqs)
	c.Count("c39.http.control_get_served_inside_root", posGet)
	c.Count("c39.http.control_upload_stored_inside_root", posPut)
	c.Count("c39.http.seal_errors", unsealable)
	for k, v := range statuses {
		c.Count("c39.http.status."+strings.ReplaceAll(k, " ", "_"), v)
	}
	for k, v := range outsideBy {
		c.Count("c39.http.outside_root_changes_by."+k, v)
	}
	c.Require(posGet == len(srvs), "the handler did not serve the control file inside the root (positive control)")
	c.Require(posPut == len(srvs), "the handler did not store the control upload inside the root (positive control)")
}
