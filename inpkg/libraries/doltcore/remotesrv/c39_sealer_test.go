//go:build verif

package remotesrv

// C39 (part 1) — sealed URLs cannot be forged.
//
// Observed: the real singleSymmetricKeySealer.Seal / Unseal. Oracle:
//   1. round trip: Unseal(Seal(u)) carries the Path and RawQuery of u (what the file handler consumes), both for the
//      in-memory URL and for the URL after it went over the wire (String() -> url.Parse, as the HTTP server does);
//   2. single-field mutations of a sealed URL: the *effective* value of a protected field is what Go's net/url hands
//      to a reader (decoded Path; first value of req / nonce / nbf / exp; req and nonce compared as decoded bytes).
//      A mutation that changes an effective value must be rejected. A mutation that leaves all of them unchanged
//      (appended duplicate or foreign parameter, re-encoded path) may be accepted, but then it must unseal to the
//      original request;
//   3. validity window: an independent re-implementation of the sealing (AES-256-GCM, AAD "nbf:exp") under the same
//      key produces URLs with windows in the past / future; the real Unseal must reject them, and must accept the
//      same construction with a current window (which also validates the re-implementation).
// A panic inside Unseal is a rejection for the purpose of the statement (net/http recovers handler panics); it is
// counted and noted, not reported as a violation.

import (
	"bytes"
	"crypto/aes"
	"crypto/cipher"
	"encoding/base64"
	"fmt"
	"math/rand"
	"net/url"
	"strconv"
	"strings"
	"testing"
	"time"
)

type c39Req struct {
	Path, RawQuery string
}

func c39Unseal(s Sealer, u *url.URL) (out *url.URL, err error, panicked string) {
	defer func() {
		if r := recover(); r != nil {
			out, err, panicked = nil, fmt.Errorf("panic: %v", r), fmt.Sprint(r)
		}
	}()
	cp := *u
	out, err = s.Unseal(&cp)
	return out, err, ""
}

// c39RefSeal is the oracle's own sealing: it follows the documented construction (sealer.go type comment), not the code.
func c39RefSeal(key []byte, u *url.URL, nbf, exp int64, nonce []byte) *url.URL {
	requestURI := (&url.URL{Path: u.EscapedPath(), RawQuery: u.RawQuery}).String()
	block, err := aes.NewCipher(key)
	if err != nil {
		panic(err)
	}
	gcm, err := cipher.NewGCM(block)
	if err != nil {
		panic(err)
	}
	nbfS, expS := strconv.FormatInt(nbf, 10), strconv.FormatInt(exp, 10)
	ct := gcm.Seal(nil, nonce, []byte(requestURI), []byte(nbfS+":"+expS))
	ret := *u
	ret.Path = "/single_symmetric_key_sealed_request/" + u.EscapedPath()
	ret.RawPath = ""
	q := url.Values{}
	q.Set("req", base64.RawURLEncoding.EncodeToString(ct))
	q.Set("nbf", nbfS)
	q.Set("exp", expS)
	q.Set("nonce", base64.RawURLEncoding.EncodeToString(nonce))
	ret.RawQuery = q.Encode()
	return &ret
}

var c39Hashes = []string{"0123456789abcdefghijklmnopqrstuv", "vvvvvvvvvvvvvvvvvvvvvvvvvvvvvvvv", "00000000000000000000000000000000"}

// c39GenURL builds a URL the way the gRPC side does (url.URL{Scheme, Host, Path, RawQuery}); class names the
// feature of the path so that findings are keyed by input class.
func c39GenURL(rng *rand.Rand) (*url.URL, string) {
	class := "plain"
	segs := []string{}
	n := 1 + rng.Intn(3)
	plain := []string{"org", "repo", "db1", "my-db", "a_b", "x.y", "DoltHub", "r2"}
	hostile := []string{"..", ".", "", "a b", "a%2fb", "a%2Fb", "%2e%2e", "é", "a+b", "a;b", "a?b", "a#b", "100%", "%zz", "\\", "a\x00b", "a/b", "..%2f..", strings.Repeat("L", 300)}
	for i := 0; i < n; i++ {
		if rng.Intn(3) == 0 {
			segs = append(segs, hostile[rng.Intn(len(hostile))])
			class = "path-with-reserved-or-dot-segments"
		} else {
			segs = append(segs, plain[rng.Intn(len(plain))])
		}
	}
	segs = append(segs, c39Hashes[rng.Intn(len(c39Hashes))])
	p := strings.Join(segs, "/")
	if rng.Intn(2) == 0 {
		p = "/" + p
	}
	u := &url.URL{Scheme: []string{"http", "https"}[rng.Intn(2)], Host: []string{"localhost:50051", "remotesapi.example.com:443", "127.0.0.1:8080"}[rng.Intn(3)], Path: p}
	switch rng.Intn(4) {
	case 0:
	case 1:
		v := url.Values{}
		v.Add("num_chunks", strconv.Itoa(rng.Intn(1000)))
		v.Add("content_length", strconv.Itoa(rng.Intn(1<<20)))
		v.Add("content_hash", base64.RawURLEncoding.EncodeToString([]byte("0123456789abcdef")))
		u.RawQuery = v.Encode()
	case 2:
		v := url.Values{}
		v.Add("k", []string{"a b", "a&b=c", "é", "%", "../x", ""}[rng.Intn(6)])
		v.Add("num_chunks", "1")
		u.RawQuery = v.Encode()
	default:
		u.RawQuery = []string{"a=1&a=2", "x", "&&", "req=evil&nonce=evil", "exp=99999999999999"}[rng.Intn(5)]
	}
	if class != "plain" {
		if u.EscapedPath() != u.Path {
			class = "path-needs-percent-encoding"
		} else {
			class = "dot-or-empty-segments"
		}
	}
	return u, class
}

type c39Eff struct {
	path     string
	req      []byte
	nonce    []byte
	nbf, exp string
	ok       bool // all four parameters present and decodable
}

func c39Effective(u *url.URL) c39Eff {
	q := u.Query()
	e := c39Eff{path: u.Path, nbf: q.Get("nbf"), exp: q.Get("exp")}
	e.ok = q.Has("nbf") && q.Has("exp") && q.Has("nonce") && q.Has("req")
	var err error
	if e.req, err = base64.RawURLEncoding.DecodeString(q.Get("req")); err != nil {
		e.ok = false
	}
	if e.nonce, err = base64.RawURLEncoding.DecodeString(q.Get("nonce")); err != nil {
		e.ok = false
	}
	return e
}

func (a c39Eff) same(b c39Eff) bool {
	return a.ok && b.ok && a.path == b.path && bytes.Equal(a.req, b.req) && bytes.Equal(a.nonce, b.nonce) && a.nbf == b.nbf && a.exp == b.exp
}

func c39FlipChar(rng *rand.Rand, s string) string {
	if s == "" {
		return "A"
	}
	b := []byte(s)
	i := rng.Intn(len(b))
	const alpha = "ABCDEFGHIJKLMNOPQRSTUVWXYZabcdefghijklmnopqrstuvwxyz0123456789-_"
	for {
		c := alpha[rng.Intn(len(alpha))]
		if c != b[i] {
			b[i] = c
			break
		}
	}
	return string(b)
}

type c39Mut struct {
	Name  string
	Field string
	URL   *url.URL
}

// c39Mutations returns single-field mutations of the (wire form of the) sealed URL.
func c39Mutations(rng *rand.Rand, sealed, other *url.URL) []c39Mut {
	var out []c39Mut
	setQ := func(name, field string, f func(q url.Values)) {
		cp := *sealed
		q := cp.Query()
		f(q)
		cp.RawQuery = q.Encode()
		out = append(out, c39Mut{name, field, &cp})
	}
	setRawQ := func(name, field, raw string) {
		cp := *sealed
		cp.RawQuery = raw
		out = append(out, c39Mut{name, field, &cp})
	}
	setPath := func(name, p string) {
		cp := *sealed
		cp.Path, cp.RawPath = p, ""
		out = append(out, c39Mut{name, "path", &cp})
	}
	q0 := sealed.Query()
	nbf, _ := strconv.ParseInt(q0.Get("nbf"), 10, 64)
	exp, _ := strconv.ParseInt(q0.Get("exp"), 10, 64)
	const pfx = "/single_symmetric_key_sealed_request/"
	tail := strings.TrimPrefix(sealed.Path, pfx)

	// path
	setPath("path/flip-char", pfx+c39FlipChar(rng, tail))
	setPath("path/append-segment", sealed.Path+"/x")
	setPath("path/other-file-id", pfx+strings.TrimSuffix(tail, tail[max(0, len(tail)-32):])+"11111111111111111111111111111111")
	setPath("path/dotdot-prefix", pfx+"../"+tail)
	setPath("path/drop-seal-prefix", "/"+tail)
	setPath("path/truncate", pfx+tail[:len(tail)/2])
	setPath("path/other-sealed-url", other.Path)
	// req
	setQ("req/flip-char", "req", func(q url.Values) { q.Set("req", c39FlipChar(rng, q.Get("req"))) })
	setQ("req/truncate", "req", func(q url.Values) { r := q.Get("req"); q.Set("req", r[:len(r)-4]) })
	setQ("req/append", "req", func(q url.Values) { q.Set("req", q.Get("req")+"AAAA") })
	setQ("req/empty", "req", func(q url.Values) { q.Set("req", "") })
	setQ("req/other-sealed-url", "req", func(q url.Values) { q.Set("req", other.Query().Get("req")) })
	setQ("req/not-base64", "req", func(q url.Values) { q.Set("req", "*"+q.Get("req")[1:]) })
	// nonce
	setQ("nonce/flip-char", "nonce", func(q url.Values) { q.Set("nonce", c39FlipChar(rng, q.Get("nonce"))) })
	setQ("nonce/other-sealed-url", "nonce", func(q url.Values) { q.Set("nonce", other.Query().Get("nonce")) })
	setQ("nonce/short", "nonce", func(q url.Values) { q.Set("nonce", q.Get("nonce")[:8]) })
	setQ("nonce/long", "nonce", func(q url.Values) { q.Set("nonce", q.Get("nonce")+"AAAA") })
	setQ("nonce/empty", "nonce", func(q url.Values) { q.Set("nonce", "") })
	setQ("nonce/zero", "nonce", func(q url.Values) { q.Set("nonce", "AAAAAAAAAAAAAAAA") })
	// validity window (every mutated value keeps "now" inside the window, so only the seal can reject it)
	for _, d := range []int64{1, -1, -1000, -3600_000, 5000} {
		d := d
		setQ(fmt.Sprintf("nbf/%+d", d), "nbf", func(q url.Values) { q.Set("nbf", strconv.FormatInt(nbf+d, 10)) })
	}
	setQ("nbf/zero", "nbf", func(q url.Values) { q.Set("nbf", "0") })
	setQ("nbf/leading-zero", "nbf", func(q url.Values) { q.Set("nbf", "0"+q.Get("nbf")) })
	setQ("nbf/plus-sign", "nbf", func(q url.Values) { q.Set("nbf", "+"+q.Get("nbf")) })
	setQ("nbf/not-a-number", "nbf", func(q url.Values) { q.Set("nbf", "x") })
	for _, d := range []int64{1, -1, 1000, 3600_000, 365 * 24 * 3600_000, -60_000} {
		d := d
		setQ(fmt.Sprintf("exp/%+d", d), "exp", func(q url.Values) { q.Set("exp", strconv.FormatInt(exp+d, 10)) })
	}
	setQ("exp/max-int64", "exp", func(q url.Values) { q.Set("exp", "9223372036854775807") })
	setQ("exp/leading-zero", "exp", func(q url.Values) { q.Set("exp", "0"+q.Get("exp")) })
	setQ("exp/not-a-number", "exp", func(q url.Values) { q.Set("exp", "") })
	setQ("window/swap-nbf-exp", "nbf", func(q url.Values) { a, b := q.Get("nbf"), q.Get("exp"); q.Set("nbf", b); q.Set("exp", a) })
	// dropped / duplicated parameters
	for _, k := range []string{"req", "nonce", "nbf", "exp"} {
		k := k
		setQ("drop/"+k, k, func(q url.Values) { q.Del(k) })
		v := q0.Get(k)
		alt := c39FlipChar(rng, v)
		if k == "exp" {
			alt = strconv.FormatInt(exp+3600_000, 10)
		}
		if k == "nbf" {
			alt = strconv.FormatInt(nbf-3600_000, 10)
		}
		setRawQ("dup-first/"+k, k, k+"="+url.QueryEscape(alt)+"&"+sealed.RawQuery)
		setRawQ("dup-last/"+k, k, sealed.RawQuery+"&"+k+"="+url.QueryEscape(alt))
	}
	setRawQ("extra-param", "none", sealed.RawQuery+"&num_chunks=9&content_length=9")
	setRawQ("drop-all", "req", "")
	return out
}

func TestVerifC39Sealer(t *testing.T) {
	c := vNew()
	defer c.Done()
	c.Rule("case = URL built like the gRPC side does (Scheme, Host, Path of 1-3 segments + file id, RawQuery) from a generator with reserved " +
		"characters, %2f, dot segments, NUL, 300-byte segments; per case: round trip (in memory and over the wire), ~70 single-field mutations " +
		"(path, req, nonce, nbf, exp, dropped / duplicated / foreign parameters, splices from another sealed URL) and 8 re-sealed validity windows; " +
		"distinct non-trivial = one (URL, mutation) pair whose effective protected fields differ from the sealed ones")
	c.Assume("time.Now() of this host lies inside a freshly sealed URL's window for the duration of a case; window tests keep a margin of >= 30 s")
	c.Assume("a panic inside Unseal counts as a rejection (net/http recovers it in the server); it is counted as c39.unseal.panic_rejections")

	nCases := c.Pick(400, 12000)
	key := make([]byte, 32)
	c.Rand.Read(key)
	prod := singleSymmetricKeySealer{privateKeyBytes: key}
	fresh, err := NewSingleSymmetricKeySealer()
	if err != nil {
		t.Fatal(err)
	}
	var (
		rtOK, rtWireOK, muts, mutsRejected, mutsBenignAccepted, mutsBenignRejected, panics int
		winPast, winFuture, winNow, otherKey                                               int
	)
	perKey := map[string]int{}
	viol := func(key, what string, w any) {
		perKey[key]++
		if perKey[key] <= 3 {
			c.Violation(key, what, w)
		} else {
			c.Count("c39.violations_beyond_3_per_class."+key, 1)
		}
	}
	panicNoted := false
	for ci := 0; ci < nCases; ci++ {
		rng := c.SubRand("c39/sealer", ci)
		u, class := c39GenURL(rng)
		ou, _ := c39GenURL(rng)
		c.Case(fmt.Sprintf("c39/sealer/%d", ci), map[string]any{"url": u.String(), "path": u.Path, "query": u.RawQuery})
		want := c39Req{u.Path, u.RawQuery}

		// ---- 1. round trip
		var sealedWire *url.URL
		for si, s := range []Sealer{prod, fresh} {
			sealed, err := s.Seal(u)
			if err != nil {
				viol("c39/roundtrip/"+class+"/seal-error", "Seal failed: "+err.Error(), map[string]any{"path": u.Path, "query": u.RawQuery})
				continue
			}
			un, err, pn := c39Unseal(s, sealed)
			if pn != "" {
				panics++
			}
			if err != nil {
				viol("c39/roundtrip/"+class+"/in-memory-rejected", "Unseal(Seal(u)) failed: "+err.Error(),
					map[string]any{"path": u.Path, "query": u.RawQuery, "sealed": sealed.String()})
			} else if got := (c39Req{un.Path, un.RawQuery}); got != want {
				viol("c39/roundtrip/"+class+"/in-memory-differs", fmt.Sprintf("Unseal(Seal(u)) = %+v, want %+v", got, want),
					map[string]any{"path": u.Path, "query": u.RawQuery, "sealed": sealed.String()})
			} else {
				rtOK++
			}
			wire, perr := url.Parse(sealed.String())
			if perr != nil {
				viol("c39/roundtrip/"+class+"/sealed-url-unparseable", perr.Error(), map[string]any{"path": u.Path, "sealed": sealed.String()})
				continue
			}
			un, err, pn = c39Unseal(s, wire)
			if pn != "" {
				panics++
			}
			if err != nil {
				viol("c39/roundtrip/"+class+"/over-the-wire-rejected", "Unseal(parse(Seal(u).String())) failed: "+err.Error(),
					map[string]any{"path": u.Path, "query": u.RawQuery, "sealed": sealed.String()})
			} else if got := (c39Req{un.Path, un.RawQuery}); got != want {
				viol("c39/roundtrip/"+class+"/over-the-wire-differs", fmt.Sprintf("unsealed %+v, want %+v", got, want),
					map[string]any{"path": u.Path, "query": u.RawQuery, "sealed": sealed.String()})
			} else {
				rtWireOK++
				if si == 0 {
					sealedWire = wire
				}
			}
		}
		// another key must not open it
		if sealedWire != nil {
			if un, err, _ := c39Unseal(fresh, sealedWire); err == nil {
				viol("c39/forgery/other-key-accepted", "a URL sealed under key A was unsealed by a sealer with key B", map[string]any{"sealed": sealedWire.String(), "unsealed": un.String()})
			} else {
				otherKey++
			}
		}

		// ---- 2. mutations
		if sealedWire != nil {
			otherSealed, _ := prod.Seal(ou)
			otherWire, _ := url.Parse(otherSealed.String())
			orig := c39Effective(sealedWire)
			for _, m := range c39Mutations(rng, sealedWire, otherWire) {
				wire, perr := url.Parse(m.URL.String())
				if perr != nil {
					continue
				}
				eff := c39Effective(wire)
				changed := !eff.same(orig)
				un, err, pn := c39Unseal(prod, wire)
				muts++
				if pn != "" {
					panics++
					if !panicNoted {
						panicNoted = true
						c.Note("Unseal panicked (counted as a rejection) on mutation " + m.Name + ": " + pn)
					}
				}
				switch {
				case changed && err == nil:
					viol("c39/forgery/"+m.Field+"/"+strings.SplitN(m.Name, "/", 2)[0]+"-mutation-accepted",
						fmt.Sprintf("mutation %s of a sealed URL was accepted and unsealed to path=%q query=%q", m.Name, un.Path, un.RawQuery),
						map[string]any{"original_request": want, "sealed": sealedWire.String(), "mutated": wire.String(), "mutation": m.Name})
				case changed:
					mutsRejected++
					c.Distinct(fmt.Sprintf("%d/%s", ci, m.Name))
				case err == nil:
					mutsBenignAccepted++
					if got := (c39Req{un.Path, un.RawQuery}); got != want {
						viol("c39/forgery/"+m.Field+"/ineffective-mutation-changes-request",
							fmt.Sprintf("mutation %s left all protected fields as they were but unsealed to %+v instead of %+v", m.Name, got, want),
							map[string]any{"sealed": sealedWire.String(), "mutated": wire.String()})
					}
				default:
					mutsBenignRejected++
				}
			}
		}

		// ---- 3. validity window, decided on the real Unseal with independently sealed URLs
		nonce := make([]byte, 12)
		rng.Read(nonce)
		now := time.Now().UnixMilli()
		type win struct {
			name     string
			nbf, exp int64
			valid    bool
		}
		wins := []win{
			{"current", now - 10_000, now + 900_000, true},
			{"current-wide", now - 3600_000, now + 3600_000, true},
			{"expired-30s-ago", now - 900_000, now - 30_000, false},
			{"expired-1h-ago", now - 2*3600_000, now - 3600_000, false},
			{"expired-long-ago", 1, 2, false},
			{"not-yet-valid-30s", now + 30_000, now + 900_000, false},
			{"not-yet-valid-1h", now + 3600_000, now + 2*3600_000, false},
			{"inverted-window", now + 900_000, now - 900_000, false},
		}
		for _, wn := range wins {
			ref := c39RefSeal(key, u, wn.nbf, wn.exp, nonce)
			wire, perr := url.Parse(ref.String())
			if perr != nil {
				continue
			}
			un, err, pn := c39Unseal(prod, wire)
			if pn != "" {
				panics++
			}
			switch {
			case wn.valid && err != nil:
				if class == "plain" {
					c.Inconclusive("the independent sealing with a current window was rejected for a plain URL: " + err.Error() + " (" + ref.String() + ")")
				}
			case wn.valid:
				winNow++
				if got := (c39Req{un.Path, un.RawQuery}); got != want {
					viol("c39/window/"+class+"/current-window-differs", fmt.Sprintf("unsealed %+v, want %+v", got, want), map[string]any{"sealed": ref.String()})
				}
			case err == nil:
				viol("c39/window/"+wn.name+"-accepted", fmt.Sprintf("a correctly sealed URL with window %s (nbf=%d exp=%d, now=%d) was accepted", wn.name, wn.nbf, wn.exp, now),
					map[string]any{"sealed": ref.String(), "unsealed_path": un.Path})
			case wn.exp < now:
				winPast++
			default:
				winFuture++
			}
		}
		if ci < 4 {
			c.Sample(map[string]any{"url": u.String(), "class": class})
		}
	}
	c.Count("c39.roundtrip.in_memory_ok", rtOK)
	c.Count("c39.roundtrip.over_the_wire_ok", rtWireOK)
	c.Count("c39.mutations.tried", muts)
	c.Count("c39.mutations.effective_and_rejected", mutsRejected)
	c.Count("c39.mutations.ineffective_accepted_same_request", mutsBenignAccepted)
	c.Count("c39.mutations.ineffective_rejected", mutsBenignRejected)
	c.Count("c39.unseal.panic_rejections", panics)
	c.Count("c39.other_key_rejected", otherKey)
	c.Count("c39.window.current_accepted", winNow)
	c.Count("c39.window.past_rejected", winPast)
	c.Count("c39.window.future_rejected", winFuture)
	c.Require(rtWireOK > 0 && mutsRejected > 0, "no round trip / no effective mutation observed")
	c.Require(winNow > 0 && winPast > 0 && winFuture > 0, "validity-window cases not all observed (independent sealing not accepted by the real Unseal?)")
}
