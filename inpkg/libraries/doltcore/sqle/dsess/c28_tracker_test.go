//go:build verif

package dsess

// In-package twin of C28: direct stress of the global AutoIncrementTracker (SequenceTracker) API.
// N goroutines ("sessions") ask one tracker for generated values of ONE table name with no think time, in the default
// interleaved lock mode (Next takes the per-table keyed lock itself) and in the traditional/consecutive modes (the caller
// holds AcquireLock for a whole "statement" of several Next calls, as GMS does for an INSERT). The oracle is a plain
// array of counters owned by the test: every value handed out exactly once (global uniqueness), every caller sees
// strictly increasing values, and the sequence advanced exactly once per value handed out. Non-vacuity: Next calls /
// statements that overlapped in time with >= 2 other callers are counted (the keyed lock was contended by 3+ actors).

import (
	"context"
	"fmt"
	"sync"
	"sync/atomic"
	"testing"

	"github.com/dolthub/go-mysql-server/sql"

	"github.com/dolthub/dolt/go/libraries/doltcore/doltdb"
	"github.com/dolthub/dolt/go/libraries/doltcore/sqle/dsess/mutexmap"
)

func TestVerifC28Tracker(t *testing.T) {
	c := vNew()
	defer c.Done()
	c.Rule("tracker twin: 3..16 goroutines call AutoIncrementTracker.Next for one table name with no think time; lock mode 2 (Next locks " +
		"per call) and lock modes 0/1 (caller holds AcquireLock over a statement of 2-6 Next calls); checked with a counter array: each value " +
		"handed out once, per-caller strictly increasing, final sequence = 1 + number of values. A case is distinct/non-trivial when calls of 3 or " +
		"more callers overlapped, by (lock mode, callers)")
	per := c.Pick(40000, 400000)
	for _, mode := range []LockMode{LockMode_Interleaved, LockMode_Traditional, LockMode_Concurrent} {
		for _, callers := range []int{3, 4, 8, 16} {
			name := fmt.Sprintf("c28/tracker/mode%d/callers%d", mode, callers)
			c.Case(name, map[string]any{"lock_mode": int(mode), "callers": callers, "values_per_caller": per})
			ait := AutoIncrementTracker{
				dbName:     "verif_db",
				sequences:  &SyncMap[doltdb.TableName, doltdb.AutoIncrementState]{},
				mm:         mutexmap.NewMutexMap(),
				init:       make(chan struct{}),
				cancelInit: make(chan struct{}),
			}
			go ait.initWithRoots(context.Background(), ait.init)
			if err := ait.waitForInit(); err != nil {
				c.Inconclusive("tracker init: " + err.Error())
				return
			}
			ait.lockMode = mode
			table := doltdb.TableName{Name: "Orders"}
			if err := ait.AddNewRelation(table, doltdb.AutoIncrementState(1)); err != nil {
				c.Inconclusive("AddNewRelation: " + err.Error())
				return
			}
			total := callers * per
			handed := make([]int32, total+2)
			var dups, notInc, outOfRange, overlap3, errs int64
			var firstDup uint64
			var inflight int32
			var wg sync.WaitGroup
			start := make(chan struct{})
			for s := 0; s < callers; s++ {
				wg.Add(1)
				go func(s int) {
					defer wg.Done()
					ctx := sql.NewEmptyContext()
					<-start
					var last uint64
					take := func() {
						v, err := ait.Next(ctx, table, nil)
						if err != nil {
							atomic.AddInt64(&errs, 1)
							return
						}
						if v <= last {
							atomic.AddInt64(&notInc, 1)
						}
						last = v
						if v == 0 || v > uint64(total) {
							atomic.AddInt64(&outOfRange, 1)
							return
						}
						if atomic.AddInt32(&handed[v], 1) > 1 {
							if atomic.AddInt64(&dups, 1) == 1 {
								atomic.StoreUint64(&firstDup, v)
							}
						}
					}
					for i := 0; i < per; {
						if atomic.AddInt32(&inflight, 1) >= 3 {
							atomic.AddInt64(&overlap3, 1)
						}
						if mode == LockMode_Interleaved {
							take()
							i++
						} else {
							release, err := ait.AcquireLock(ctx, table)
							if err != nil {
								atomic.AddInt64(&errs, 1)
								atomic.AddInt32(&inflight, -1)
								return
							}
							for k := 0; k < 2+(i+s)%5 && i < per; k++ {
								take()
								i++
							}
							release()
						}
						atomic.AddInt32(&inflight, -1)
					}
				}(s)
			}
			close(start)
			wg.Wait()
			cur, err := ait.Current(table)
			if err != nil {
				c.Inconclusive("Current: " + err.Error())
				return
			}
			c.Count("c28.tracker.values_handed_out", total)
			c.Count("c28.tracker.calls_overlapping_2_other_callers", int(overlap3))
			c.Count("c28.tracker.next_errors", int(errs))
			wit := map[string]any{"lock_mode": int(mode), "callers": callers, "values_per_caller": per, "duplicates": dups, "first_duplicate": firstDup,
				"not_increasing": notInc, "out_of_range": outOfRange, "final_sequence": uint64(cur.CurrentValue()), "expected_final_sequence": total + 1}
			cls := fmt.Sprintf("lock-mode-%d", mode)
			if dups > 0 {
				c.Violation("c28/tracker/duplicate-generated-id/"+cls, fmt.Sprintf("%d generated values were handed out more than once by AutoIncrementTracker.Next (first: %d)", dups, firstDup), wit)
			}
			if notInc > 0 {
				c.Violation("c28/tracker/not-increasing-for-caller/"+cls, fmt.Sprintf("%d values were not greater than the previous value the same caller received", notInc), wit)
			}
			if errs == 0 && uint64(cur.CurrentValue()) != uint64(total+1) {
				c.Violation("c28/tracker/sequence-did-not-advance-once-per-value/"+cls, fmt.Sprintf("after %d values the sequence stands at %d instead of %d", total, uint64(cur.CurrentValue()), total+1), wit)
			}
			if overlap3 > 0 {
				c.Distinct(fmt.Sprintf("%d/%d", mode, callers))
			}
			if c.viols > 6 {
				return
			}
		}
	}
}
