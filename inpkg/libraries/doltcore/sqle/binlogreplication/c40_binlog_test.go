//go:build verif

package binlogreplication

// C40 — binlog row events encode values the way MySQL replicas decode them.
//
// Observed: the real path of the binlog primary. Tables are created and filled through Dolt's SQL engine (so the
// "stored value" is whatever Dolt really stored), then for every row the production functions
// createTableMapFromDoltTable + serializeRowToBinlogBytes build a TableMap event and a WriteRows event with the same
// vitess constructors the producer uses (NewTableMapEvent / NewWriteRowsEvent).
// Oracle: the events are parsed back with the vitess decoder a replica uses (BinlogEvent.TableMap / Rows +
// mysql.CellValue with the emitted type byte and metadata); every cell must equal what `SELECT *` returns for that
// row (rendered by the column type's own SQL() method), NULL bitmap included, and the row image must be consumed
// exactly. Both sides are normalised per type family (numeric comparison for float / decimal, trailing fractional
// zeros of temporals, 0x00 padding of BINARY(n), the decoder's space-padded decimal groups and its SQL-expression
// rendering of JSON), so only value differences are reported.

import (
	"bytes"
	"context"
	"encoding/binary"
	"encoding/hex"
	"encoding/json"
	"fmt"
	"io"
	"math"
	"math/big"
	"math/rand"
	"os"
	"path/filepath"
	"reflect"
	"strconv"
	"strings"
	"testing"

	"github.com/dolthub/go-mysql-server/sql"
	"github.com/dolthub/vitess/go/mysql"
	"github.com/dolthub/vitess/go/sqltypes"
	"github.com/dolthub/vitess/go/vt/proto/query"

	"github.com/dolthub/dolt/go/libraries/doltcore/doltdb"
	"github.com/dolthub/dolt/go/libraries/doltcore/doltdb/durable"
	"github.com/dolthub/dolt/go/libraries/doltcore/sqle"
	"github.com/dolthub/dolt/go/libraries/doltcore/table/editor"
	"github.com/dolthub/dolt/go/store/prolly/tree"
)

// ---------------------------------------------------------------------------------------------------------------
// value generators (SQL literals)

type c40Col struct {
	Def    string // SQL type
	Family string
	Bounds func() []string         // boundary literals
	Rand   func(*rand.Rand) string // random literal
	Heavy  bool                    // large values: only in the dedicated family table
}

func c40Quote(s string) string {
	return "'" + strings.ReplaceAll(strings.ReplaceAll(s, `\`, `\\`), "'", "''") + "'"
}

var c40Runes = []rune("abcdefghijklmnopqrstuvwxyzABC0123456789 _-.,é漢😀")

func c40Str(rng *rand.Rand, nChars int, ascii bool) string {
	var sb strings.Builder
	for i := 0; i < nChars; i++ {
		if ascii {
			sb.WriteByte("abcdefghijklmnopqrstuvwxyz0123456789"[rng.Intn(36)])
		} else {
			sb.WriteRune(c40Runes[rng.Intn(len(c40Runes))])
		}
	}
	return sb.String()
}

func c40Hex(rng *rand.Rand, n int) string {
	b := make([]byte, n)
	rng.Read(b)
	return "X'" + hex.EncodeToString(b) + "'"
}

func c40IntCol(def string, min, max string, bits int, unsigned bool) c40Col {
	return c40Col{Def: def, Family: "int",
		Bounds: func() []string {
			out := []string{min, max, "0", "1"}
			if !unsigned {
				out = append(out, "-1")
			}
			// values whose little-endian bytes differ per position
			if bits >= 16 {
				out = append(out, "258", "255", "256")
			}
			if bits >= 24 {
				out = append(out, "66051", "65535", "65536", "8388607")
			}
			if bits >= 32 {
				out = append(out, "16909060", "16777215", "16777216", "2147483647")
			}
			if bits == 64 {
				out = append(out, "72623859790382856", "4294967295", "4294967296", "9223372036854775807")
			}
			if !unsigned && bits >= 24 {
				out = append(out, "-8388608", "-129", "-32769")
			}
			return out
		},
		Rand: func(rng *rand.Rand) string {
			lo, _ := new(big.Int).SetString(min, 10)
			hi, _ := new(big.Int).SetString(max, 10)
			span := new(big.Int).Sub(hi, lo)
			span.Add(span, big.NewInt(1))
			r := new(big.Int).Rand(rng, span)
			return r.Add(r, lo).String()
		}}
}

func c40Decimal(p, s int) c40Col {
	nines := func(n int) string { return strings.Repeat("9", n) }
	mk := func(ip, fp string) string {
		if ip == "" {
			ip = "0"
		}
		if s == 0 {
			return ip
		}
		return ip + "." + fp
	}
	return c40Col{Def: fmt.Sprintf("decimal(%d,%d)", p, s), Family: "decimal",
		Bounds: func() []string {
			max := mk(nines(p-s), nines(s))
			out := []string{max, "-" + max, "0", "1", "-1"}
			if s > 0 {
				out = append(out, "0."+strings.Repeat("0", s-1)+"1", "-0."+strings.Repeat("0", s-1)+"1", mk("", nines(s)))
			}
			if p-s > 0 {
				out = append(out, mk("1"+strings.Repeat("0", p-s-1), strings.Repeat("0", s)))
				if p-s > 9 {
					out = append(out, mk("1000000000", strings.Repeat("0", s)), mk("999999999", nines(s)), mk("1"+strings.Repeat("0", 9)+"5", strings.Repeat("0", s)))
				}
			}
			if s > 9 {
				out = append(out, "0."+strings.Repeat("0", 8)+"1"+strings.Repeat("0", s-9), "0."+strings.Repeat("0", 9)+"1"+strings.Repeat("0", s-10))
			}
			return out
		},
		Rand: func(rng *rand.Rand) string {
			digits := func(n int) string {
				var sb strings.Builder
				for i := 0; i < n; i++ {
					sb.WriteByte(byte('0' + rng.Intn(10)))
				}
				return sb.String()
			}
			ip := ""
			if p-s > 0 {
				ip = strings.TrimLeft(digits(rng.Intn(p-s+1)), "0")
			}
			v := mk(ip, digits(s))
			if rng.Intn(2) == 0 {
				v = "-" + v
			}
			return v
		}}
}

func c40Frac(rng *rand.Rand, p int) string {
	if p == 0 {
		return ""
	}
	var sb strings.Builder
	sb.WriteByte('.')
	for i := 0; i < p; i++ {
		sb.WriteByte(byte('0' + rng.Intn(10)))
	}
	return sb.String()
}

func c40Datetime(p int, ts bool) c40Col {
	fr := func(d string) string { // a p-digit fraction made of d
		if p == 0 {
			return ""
		}
		return "." + strings.Repeat(d, p)
	}
	def, fam := "datetime", "datetime"
	if ts {
		def, fam = "timestamp", "timestamp"
	}
	return c40Col{Def: fmt.Sprintf("%s(%d)", def, p), Family: fam,
		Bounds: func() []string {
			var out []string
			if ts {
				out = []string{"'1970-01-01 00:00:01'", "'2038-01-19 03:14:07" + fr("9") + "'", "'2000-02-29 23:59:59" + fr("1") + "'",
					"'2001-09-09 01:46:40'", "'1999-12-31 23:59:59" + fr("5") + "'", "'2024-06-30 12:00:00" + fr("0") + "'"}
			} else {
				out = []string{"'1000-01-01 00:00:00'", "'9999-12-31 23:59:59" + fr("9") + "'", "'1969-12-31 23:59:59" + fr("9") + "'", "'1970-01-01 00:00:00'",
					"'2038-01-19 03:14:08'", "'2000-02-29 12:34:56" + fr("1") + "'", "'1582-10-04 00:00:00'", "'0001-01-01 00:00:00'", "'2024-12-31 23:59:59" + fr("5") + "'"}
			}
			if p > 0 {
				out = append(out, "'2011-11-11 11:11:11."+strings.Repeat("0", p-1)+"1'")
			}
			return out
		},
		Rand: func(rng *rand.Rand) string {
			y := 1000 + rng.Intn(9000)
			if ts {
				y = 1971 + rng.Intn(66)
			}
			return fmt.Sprintf("'%04d-%02d-%02d %02d:%02d:%02d%s'", y, 1+rng.Intn(12), 1+rng.Intn(28), rng.Intn(24), rng.Intn(60), rng.Intn(60), c40Frac(rng, p))
		}}
}

func c40CharCol(def string, n int, maxBytesPerChar int) c40Col {
	return c40Col{Def: def, Family: "char", Heavy: n > 1000,
		Bounds: func() []string {
			rng := rand.New(rand.NewSource(int64(n)*7 + 1))
			out := []string{"''", c40Quote(c40Str(rng, 1, true)), c40Quote(c40Str(rng, n, true)), c40Quote(strings.Repeat("é", n)), c40Quote(strings.Repeat("😀", n))}
			for _, l := range []int{63, 64, 84, 85, 86, 127, 128, 254, 255, 256, 257} {
				if l <= n {
					out = append(out, c40Quote(c40Str(rng, l, true)))
				}
			}
			if n > 1 {
				out = append(out, c40Quote(c40Str(rng, n-1, false)), c40Quote("a'b\\c"))
			}
			return out
		},
		Rand: func(rng *rand.Rand) string {
			l := rng.Intn(n + 1)
			if l > 300 {
				l = rng.Intn(300)
			}
			return c40Quote(c40Str(rng, l, rng.Intn(2) == 0))
		}}
}

func c40BinCol(def string, n int, fixed bool) c40Col {
	return c40Col{Def: def, Family: "binary", Heavy: n > 1000,
		Bounds: func() []string {
			rng := rand.New(rand.NewSource(int64(n)*11 + 3))
			out := []string{"X''", "X'00'", "X'ff'", c40Hex(rng, n), "X'" + strings.Repeat("00", n) + "'", "X'" + strings.Repeat("ff", n) + "'"}
			for _, l := range []int{2, 127, 128, 254, 255, 256, 257, 65534, 65535} {
				if l <= n {
					out = append(out, c40Hex(rng, l))
				}
			}
			if n >= 3 {
				out = append(out, "X'610000'", "X'006100'")
			}
			return out
		},
		Rand: func(rng *rand.Rand) string {
			l := rng.Intn(n + 1)
			if l > 300 {
				l = rng.Intn(300)
			}
			return c40Hex(rng, l)
		}}
}

func c40LobCol(def string, max int, text bool) c40Col {
	return c40Col{Def: def, Family: map[bool]string{true: "text", false: "blob"}[text], Heavy: true,
		Bounds: func() []string {
			rng := rand.New(rand.NewSource(int64(max) + 5))
			var out []string
			for _, l := range []int{0, 1, 127, 128, 254, 255, 256, 257, 65534, 65535, 65536, 65537, 100000} {
				if l > max {
					continue
				}
				if text {
					out = append(out, c40Quote(c40Str(rng, l, true)))
				} else {
					out = append(out, c40Hex(rng, l))
				}
			}
			if text {
				out = append(out, c40Quote(strings.Repeat("漢", 85)), c40Quote(strings.Repeat("😀", 63)+"abc"))
			}
			return out
		},
		Rand: func(rng *rand.Rand) string {
			l := rng.Intn(400)
			if l > max {
				l = max
			}
			if text {
				return c40Quote(c40Str(rng, l, rng.Intn(2) == 0))
			}
			return c40Hex(rng, l)
		}}
}

func c40EnumVals(n int) []string {
	out := make([]string, n)
	for i := range out {
		out[i] = fmt.Sprintf("v%d", i)
	}
	return out
}

func c40JSONRand(rng *rand.Rand, depth int) any {
	switch x := rng.Intn(12); {
	case x == 0:
		return nil
	case x == 1:
		return rng.Intn(2) == 0
	case x < 4:
		return float64(rng.Intn(2000000) - 1000000)
	case x == 4:
		return rng.NormFloat64() * math.Pow(10, float64(rng.Intn(20)-5))
	case x < 7:
		return c40Str(rng, rng.Intn(40), false)
	case x < 9 && depth < 4:
		n := rng.Intn(6)
		arr := make([]any, n)
		for i := range arr {
			arr[i] = c40JSONRand(rng, depth+1)
		}
		return arr
	case depth < 4:
		n := rng.Intn(6)
		obj := map[string]any{}
		for i := 0; i < n; i++ {
			obj[c40Str(rng, rng.Intn(12), false)] = c40JSONRand(rng, depth+1)
		}
		return obj
	}
	return "leaf"
}

func c40JSONLit(v any) string {
	b, err := json.Marshal(v)
	if err != nil {
		panic(err)
	}
	return c40Quote(string(b))
}

func c40JSONBounds() []string {
	rng := rand.New(rand.NewSource(40))
	long := func(n int) string { return c40Str(rng, n, true) }
	manyKeys := map[string]any{}
	for i := 0; i < 300; i++ {
		manyKeys[fmt.Sprintf("k%03d", i)] = float64(i)
	}
	bigArr := make([]any, 7000) // > 64 KiB of values: forces the large array format
	for i := range bigArr {
		bigArr[i] = fmt.Sprintf("value-%05d", i)
	}
	bigObj := map[string]any{} // > 64 KiB: forces the large object format
	for i := 0; i < 3000; i++ {
		bigObj[fmt.Sprintf("key-%05d", i)] = fmt.Sprintf("value-%05d-%s", i, "xxxxxxxx")
	}
	docs := []any{
		nil, true, false, float64(0), float64(1), float64(-1), float64(32767), float64(-32768), float64(65535), float64(2147483647), float64(-2147483648),
		float64(4294967295), float64(9007199254740991), float64(-9007199254740991), 1.5, -2.25e-10, 1.7976931348623157e308, 5e-324,
		"", "a", long(127), long(128), long(16383), long(16384), long(70000), "é漢😀", "quote\"back\\slash", "line\nbreak\ttab",
		[]any{}, map[string]any{}, []any{nil, true, false}, []any{float64(1), "two", []any{float64(3), map[string]any{"four": float64(4)}}},
		map[string]any{"": "empty key"}, map[string]any{"a": nil, "b": true, "c": false, "d": float64(1), "e": "s", "f": []any{}, "g": map[string]any{}},
		map[string]any{long(255): float64(1)}, map[string]any{long(256): float64(2)}, map[string]any{long(300): "v", "short": "w"}, map[string]any{long(1000): []any{"x"}},
		map[string]any{"b": float64(1), "a": float64(2), "aa": float64(3), "B": float64(4)},
		manyKeys, bigArr, bigObj,
		map[string]any{"nested": map[string]any{"deep": map[string]any{"deeper": []any{map[string]any{"deepest": long(200)}}}}},
		[]any{long(40000), long(40000)}, // second value starts beyond a 16-bit offset
	}
	docs = append(docs, c40JSONLargeDocs()...)
	out := make([]string, len(docs))
	for i, d := range docs {
		out[i] = c40JSONLit(d)
	}
	return out
}

// c40JSONMixedObject / c40JSONMixedArray return a container that directly holds every value kind — the inlineable ones
// (null, true, false, and numbers in the int16 / uint16 / int32 / uint32 ranges) next to the non-inlineable ones
// (string, double, 64-bit numbers, nested containers with literals of their own) — and one padding string that sets
// the encoded size, so that the same shape can be placed just below and just above the 65535-byte format switch.
func c40JSONMixedObject(pad string) map[string]any {
	return map[string]any{
		"a_null": nil, "b_true": true, "c_false": false, "d_i16": float64(-12345), "e_u16": float64(54321), "f_i32": float64(-2000000000),
		"g_u32": float64(4000000000), "h_i64": float64(-9007199254740991), "i_dbl": 1.5, "j_str": "str",
		"k_obj": map[string]any{"x": nil, "y": true, "z": "s"}, "l_arr": []any{false, nil, float64(1), "s"},
		"m_pad": pad, "n_null": nil, "o_true": true, "p_str": "after the padding", "q_false": false,
	}
}

func c40JSONMixedArray(pad string, padAt int) []any {
	arr := []any{nil, true, false, float64(-12345), float64(54321), float64(-2000000000), float64(4000000000), float64(-9007199254740991), 1.5, "str",
		map[string]any{"x": nil, "y": true, "z": "s"}, []any{false, nil, float64(1), "s"}, nil, true, "tail", false}
	switch padAt % 3 {
	case 0:
		return append([]any{pad}, arr...)
	case 1:
		return append(append(append([]any{}, arr[:8]...), pad), arr[8:]...)
	}
	return append(arr, pad, nil)
}

// c40JSONLargeDocs forces MySQL's LARGE binary format (4-byte counts, sizes and offsets, 5-byte value entries) at
// every container kind and nesting position, with sizes straddling the switch and with element counts that switch it.
func c40JSONLargeDocs() []any {
	rng := rand.New(rand.NewSource(41))
	pad := func(n int) string { return c40Str(rng, n, true) }
	var docs []any
	// the same shape from ~300 bytes below to ~300 bytes above the 65535-byte switch, alternating object / array
	i := 0
	for n := 64900; n <= 65620; n += 12 {
		if i%2 == 0 {
			docs = append(docs, c40JSONMixedObject(pad(n)))
		} else {
			docs = append(docs, c40JSONMixedArray(pad(n), i/2))
		}
		i++
	}
	for _, n := range []int{66000, 70000, 140000, 300000} {
		docs = append(docs, c40JSONMixedObject(pad(n)), c40JSONMixedArray(pad(n), n))
	}
	// large containers below parents with few elements, and below each other
	docs = append(docs,
		map[string]any{"outer": c40JSONMixedObject(pad(66000))},
		map[string]any{"a": nil, "big": c40JSONMixedObject(pad(70000)), "z": true},
		map[string]any{"a": nil, "big": c40JSONMixedArray(pad(70000), 1), "z": false},
		[]any{c40JSONMixedObject(pad(66000)), nil, true},
		[]any{false, c40JSONMixedArray(pad(66000), 2), nil},
		map[string]any{"l1": map[string]any{"t": true, "l2": map[string]any{"n": nil, "l3": c40JSONMixedObject(pad(66000)), "f": false}, "u": nil}},
		[]any{nil, []any{true, []any{false, c40JSONMixedArray(pad(66000), 0), nil}, true}, false},
		// two children that are each small but together push the parent over the switch
		map[string]any{"n": nil, "c1": c40JSONMixedObject(pad(40000)), "t": true, "c2": c40JSONMixedArray(pad(40000), 1), "f": false},
		[]any{nil, c40JSONMixedObject(pad(40000)), true, c40JSONMixedArray(pad(40000), 1), false},
	)
	// format switched by the number of elements rather than by one big member
	lits := []any{nil, true, false}
	manyObj := func(n int) map[string]any {
		o := map[string]any{}
		for k := 0; k < n; k++ {
			switch k % 5 {
			case 3:
				o[fmt.Sprintf("k%05d", k)] = float64(k)
			case 4:
				o[fmt.Sprintf("k%05d", k)] = fmt.Sprintf("v%d", k)
			default:
				o[fmt.Sprintf("k%05d", k)] = lits[k%5]
			}
		}
		return o
	}
	manyArr := func(n int, onlyLits bool) []any {
		a := make([]any, n)
		for k := range a {
			if onlyLits || k%4 != 3 {
				a[k] = lits[k%3]
			} else {
				a[k] = float64(k)
			}
		}
		return a
	}
	docs = append(docs, manyObj(4300), manyObj(4800), manyObj(9000), // ~15 bytes per member: just below / above / far above
		manyArr(21700, true), manyArr(22000, true), manyArr(30000, false), manyArr(66000, true), // 3 bytes per literal; 66000 > 65535 elements
		map[string]any{"few": true, "many": manyObj(5000), "null": nil}, []any{manyArr(23000, true), nil, manyObj(100)})
	return docs
}

// c40JStats counts, over the JSON documents that were actually stored and compared, how the production encoder laid
// them out. encodeJsonValue is called here for counting only; it decides no verdict.
var c40JStats struct{ largeObj, largeArr, largeInline, smallNearLimit, nestedLarge int }

func c40JSONShape(v any, depth int) {
	var members []any
	switch x := v.(type) {
	case map[string]any:
		for _, e := range x {
			members = append(members, e)
		}
	case []any:
		members = x
	default:
		return
	}
	typeId, enc, err := encodeJsonValue(v)
	if err != nil {
		return
	}
	hasLit := false
	for _, e := range members {
		if _, isBool := e.(bool); isBool || e == nil {
			hasLit = true
		}
	}
	switch typeId {
	case jsonTypeLargeObject, jsonTypeLargeArray:
		if typeId == jsonTypeLargeObject {
			c40JStats.largeObj++
		} else {
			c40JStats.largeArr++
		}
		if hasLit {
			c40JStats.largeInline++
		}
		if depth > 0 {
			c40JStats.nestedLarge++
		}
	default:
		if len(enc) > 64000 {
			c40JStats.smallNearLimit++
		}
	}
	for _, e := range members {
		c40JSONShape(e, depth+1)
	}
}

func c40Catalogue() []c40Col {
	lit := func(vs ...string) func() []string { return func() []string { return vs } }
	cols := []c40Col{
		c40IntCol("tinyint", "-128", "127", 8, false), c40IntCol("tinyint unsigned", "0", "255", 8, true),
		c40IntCol("smallint", "-32768", "32767", 16, false), c40IntCol("smallint unsigned", "0", "65535", 16, true),
		c40IntCol("mediumint", "-8388608", "8388607", 24, false), c40IntCol("mediumint unsigned", "0", "16777215", 24, true),
		c40IntCol("int", "-2147483648", "2147483647", 32, false), c40IntCol("int unsigned", "0", "4294967295", 32, true),
		c40IntCol("bigint", "-9223372036854775808", "9223372036854775807", 64, false), c40IntCol("bigint unsigned", "0", "18446744073709551615", 64, true),
		{Def: "float", Family: "float", Bounds: lit("0", "1", "-1", "1.5", "-3.4028235e38", "3.4028235e38", "1.17549435e-38", "1e-45", "16777217", "0.1", "123456.789"),
			Rand: func(rng *rand.Rand) string {
				return strconv.FormatFloat(float64(float32(rng.NormFloat64()*math.Pow(10, float64(rng.Intn(60)-30)))), 'g', -1, 32)
			}},
		{Def: "double", Family: "float", Bounds: lit("0", "1", "-1", "1.5", "-1.7976931348623157e308", "1.7976931348623157e308", "2.2250738585072014e-308", "4.9e-324", "9007199254740993", "0.1", "123456.789012345"),
			Rand: func(rng *rand.Rand) string {
				return strconv.FormatFloat(rng.NormFloat64()*math.Pow(10, float64(rng.Intn(400)-200)), 'g', -1, 64)
			}},
		c40Decimal(1, 0), c40Decimal(5, 2), c40Decimal(9, 0), c40Decimal(10, 0), c40Decimal(10, 5), c40Decimal(18, 9), c40Decimal(19, 10), c40Decimal(20, 1),
		c40Decimal(30, 30), c40Decimal(38, 0), c40Decimal(65, 0), c40Decimal(65, 30), c40Decimal(27, 18), c40Decimal(12, 11),
		{Def: "date", Family: "date", Bounds: lit("'1000-01-01'", "'9999-12-31'", "'1970-01-01'", "'1969-12-31'", "'2000-02-29'", "'2038-01-19'", "'0001-01-01'", "'1582-10-15'", "'2024-12-31'"),
			Rand: func(rng *rand.Rand) string {
				return fmt.Sprintf("'%04d-%02d-%02d'", 1000+rng.Intn(9000), 1+rng.Intn(12), 1+rng.Intn(28))
			}},
		{Def: "time(6)", Family: "time", Bounds: lit("'00:00:00'", "'838:59:59'", "'-838:59:59'", "'00:00:00.000001'", "'-00:00:00.000001'", "'12:34:56.789012'", "'-12:34:56.789012'",
			"'-00:00:59.5'", "'-00:59:59.999999'", "'-00:00:58.5'", "'00:00:59.999999'", "'-01:00:00'", "'-00:00:01'", "'23:59:59.999999'", "'-23:59:59.999999'", "'100:00:00.5'", "'-100:59:59.000001'"),
			Rand: func(rng *rand.Rand) string {
				sign := ""
				if rng.Intn(2) == 0 {
					sign = "-"
				}
				fr := ""
				if rng.Intn(3) > 0 {
					fr = c40Frac(rng, 6)
				}
				return fmt.Sprintf("'%s%02d:%02d:%02d%s'", sign, rng.Intn(839), rng.Intn(60), rng.Intn(60), fr)
			}},
		{Def: "year", Family: "year", Bounds: lit("1901", "2155", "0", "'0000'", "2000", "1970", "1999", "70", "69", "2024"),
			Rand: func(rng *rand.Rand) string { return strconv.Itoa(1901 + rng.Intn(255)) }},
	}
	for p := 0; p <= 6; p++ {
		cols = append(cols, c40Datetime(p, false), c40Datetime(p, true))
	}
	for _, n := range []int{1, 7, 8, 9, 15, 16, 17, 31, 32, 33, 63, 64} {
		n := n
		max := new(big.Int).Sub(new(big.Int).Lsh(big.NewInt(1), uint(n)), big.NewInt(1))
		cols = append(cols, c40Col{Def: fmt.Sprintf("bit(%d)", n), Family: "bit",
			Bounds: func() []string {
				out := []string{"0", "1", max.String()}
				if n > 8 {
					out = append(out, "258", "256", "255", new(big.Int).Lsh(big.NewInt(1), uint(n-1)).String())
				}
				if n > 32 {
					out = append(out, "72623859790382856"[:min(17, len(max.String())-1)])
				}
				return out
			},
			Rand: func(rng *rand.Rand) string {
				return new(big.Int).Rand(rng, new(big.Int).Add(max, big.NewInt(1))).String()
			}})
	}
	for _, n := range []int{3, 255, 256, 300} {
		vals := c40EnumVals(n)
		qv := make([]string, n)
		for i, v := range vals {
			qv[i] = c40Quote(v)
		}
		n := n
		cols = append(cols, c40Col{Def: "enum(" + strings.Join(qv, ",") + ")", Family: "enum",
			Bounds: func() []string {
				out := []string{qv[0], qv[n-1], qv[n/2], "1", strconv.Itoa(n)}
				if n > 256 {
					out = append(out, qv[254], qv[255], qv[256], "255", "256", "257")
				}
				return out
			},
			Rand: func(rng *rand.Rand) string { return qv[rng.Intn(n)] }})
	}
	for _, n := range []int{1, 3, 8, 9, 16, 17, 33, 64} {
		vals := make([]string, n)
		qv := make([]string, n)
		for i := range vals {
			vals[i] = fmt.Sprintf("s%d", i)
			qv[i] = c40Quote(vals[i])
		}
		n := n
		cols = append(cols, c40Col{Def: "set(" + strings.Join(qv, ",") + ")", Family: "set",
			Bounds: func() []string {
				return []string{"''", qv[0], qv[n-1], c40Quote(strings.Join(vals, ",")), c40Quote(vals[0] + "," + vals[n-1]), c40Quote(vals[n/2])}
			},
			Rand: func(rng *rand.Rand) string {
				var pick []string
				for _, v := range vals {
					if rng.Intn(2) == 0 {
						pick = append(pick, v)
					}
				}
				return c40Quote(strings.Join(pick, ","))
			}})
	}
	cols = append(cols,
		c40CharCol("char(1)", 1, 4), c40CharCol("char(10)", 10, 4), c40CharCol("char(63)", 63, 4), c40CharCol("char(64)", 64, 4), c40CharCol("char(255)", 255, 4),
		c40CharCol("char(255) character set latin1", 255, 1), c40CharCol("char(200) character set latin1", 200, 1),
		c40CharCol("varchar(1)", 1, 4), c40CharCol("varchar(10)", 10, 4), c40CharCol("varchar(63)", 63, 4), c40CharCol("varchar(64)", 64, 4), c40CharCol("varchar(255)", 255, 4),
		c40CharCol("varchar(255) character set latin1", 255, 1), c40CharCol("varchar(256) character set latin1", 256, 1), c40CharCol("varchar(16000)", 16000, 4),
		c40BinCol("binary(1)", 1, true), c40BinCol("binary(10)", 10, true), c40BinCol("binary(255)", 255, true),
		c40BinCol("varbinary(1)", 1, false), c40BinCol("varbinary(10)", 10, false), c40BinCol("varbinary(255)", 255, false), c40BinCol("varbinary(256)", 256, false), c40BinCol("varbinary(60000)", 60000, false),
		c40LobCol("tinytext", 255, true), c40LobCol("text", 65535, true), c40LobCol("mediumtext", 1<<24-1, true), c40LobCol("longtext", 1<<30, true),
		c40LobCol("tinyblob", 255, false), c40LobCol("blob", 65535, false), c40LobCol("mediumblob", 1<<24-1, false), c40LobCol("longblob", 1<<30, false),
		c40Col{Def: "json", Family: "json", Heavy: true, Bounds: c40JSONBounds, Rand: func(rng *rand.Rand) string {
			doc := c40JSONRand(rng, 0)
			switch rng.Intn(4) {
			case 0: // a random document inside a container around the format switch
				o := c40JSONMixedObject(c40Str(rng, 64500+rng.Intn(1500), true))
				o["r_random"] = doc
				doc = o
			case 1:
				doc = append(c40JSONMixedArray(c40Str(rng, 64500+rng.Intn(1500), true), rng.Intn(3)), doc)
			}
			return c40JSONLit(doc)
		}},
		c40Col{Def: "point", Family: "geometry", Bounds: lit("point(0,0)", "point(1,2)", "point(-1.5,1e300)", "ST_GeomFromText('POINT(1 2)', 4326)"),
			Rand: func(rng *rand.Rand) string {
				return fmt.Sprintf("point(%v,%v)", rng.NormFloat64()*100, rng.NormFloat64()*100)
			}},
		c40Col{Def: "linestring", Family: "geometry", Bounds: lit("linestring(point(0,0),point(1,1))", "linestring(point(0,0),point(1,1),point(2,-2),point(1e10,5))"),
			Rand: func(rng *rand.Rand) string {
				return fmt.Sprintf("linestring(point(%v,%v),point(%v,%v))", rng.Intn(100), rng.Intn(100), rng.NormFloat64(), rng.NormFloat64())
			}},
	)
	return cols
}

// ---------------------------------------------------------------------------------------------------------------
// normalisation / comparison

func c40TrimFrac(s string) string {
	if i := strings.IndexByte(s, '.'); i >= 0 {
		s = strings.TrimRight(s, "0")
		s = strings.TrimSuffix(s, ".")
	}
	return c40PadYear(s)
}

// c40PadYear renders the year of a date with four digits (GMS prints year 1 as "1-01-01").
func c40PadYear(s string) string {
	if i := strings.IndexByte(s, '-'); i > 0 && i < 4 {
		s = strings.Repeat("0", 4-i) + s
	}
	return s
}

func c40MaxKeyLen(v any) int {
	m := 0
	switch x := v.(type) {
	case map[string]any:
		for k, e := range x {
			m = max(m, len(k), c40MaxKeyLen(e))
		}
	case []any:
		for _, e := range x {
			m = max(m, c40MaxKeyLen(e))
		}
	}
	return m
}

func c40TimeMicros(s string) (int64, bool) {
	neg := strings.HasPrefix(s, "-")
	s = strings.TrimPrefix(s, "-")
	frac := ""
	if i := strings.IndexByte(s, '.'); i >= 0 {
		s, frac = s[:i], s[i+1:]
	}
	parts := strings.Split(s, ":")
	if len(parts) != 3 {
		return 0, false
	}
	h, e1 := strconv.ParseInt(parts[0], 10, 64)
	m, e2 := strconv.ParseInt(parts[1], 10, 64)
	sec, e3 := strconv.ParseInt(parts[2], 10, 64)
	if e1 != nil || e2 != nil || e3 != nil || m > 59 || sec > 59 {
		return 0, false
	}
	for len(frac) < 6 {
		frac += "0"
	}
	us, e4 := strconv.ParseInt(frac[:6], 10, 64)
	if e4 != nil {
		return 0, false
	}
	v := ((h*60+m)*60+sec)*1_000_000 + us
	if neg {
		v = -v
	}
	return v, true
}

func c40Rat(s string) (*big.Rat, bool) {
	s = strings.ReplaceAll(strings.TrimSpace(s), " ", "0") // the decoder pads 9-digit groups with spaces
	neg := strings.HasPrefix(s, "-")
	s = strings.TrimPrefix(s, "-")
	if s == "" || strings.HasPrefix(s, ".") {
		s = "0" + s
	}
	r, ok := new(big.Rat).SetString(s)
	if ok && neg {
		r.Neg(r)
	}
	return r, ok
}

// c40ParseJSONExpr parses the SQL expression vitess renders for a binary JSON document back into a Go value.
type c40JP struct {
	s   []byte
	pos int
}

func (p *c40JP) sqlString() (string, error) {
	if p.pos >= len(p.s) || p.s[p.pos] != '\'' {
		return "", fmt.Errorf("expected quote at %d", p.pos)
	}
	p.pos++
	var out []byte
	for p.pos < len(p.s) {
		ch := p.s[p.pos]
		switch ch {
		case '\'':
			p.pos++
			return string(out), nil
		case '\\':
			p.pos++
			if p.pos >= len(p.s) {
				return "", fmt.Errorf("dangling escape")
			}
			if d := sqltypes.SQLDecodeMap[p.s[p.pos]]; d != sqltypes.DontEscape {
				out = append(out, d)
			} else {
				out = append(out, p.s[p.pos])
			}
			p.pos++
		default:
			out = append(out, ch)
			p.pos++
		}
	}
	return "", fmt.Errorf("unterminated string")
}

func (p *c40JP) value() (any, error) {
	rest := p.s[p.pos:]
	switch {
	case bytes.HasPrefix(rest, []byte("JSON_OBJECT(")):
		p.pos += len("JSON_OBJECT(")
		obj := map[string]any{}
		for {
			if p.pos < len(p.s) && p.s[p.pos] == ')' {
				p.pos++
				return obj, nil
			}
			k, err := p.sqlString()
			if err != nil {
				return nil, err
			}
			if p.pos >= len(p.s) || p.s[p.pos] != ',' {
				return nil, fmt.Errorf("expected , after key at %d", p.pos)
			}
			p.pos++
			v, err := p.value()
			if err != nil {
				return nil, err
			}
			if _, dup := obj[k]; dup {
				return nil, fmt.Errorf("duplicate key %q", k)
			}
			obj[k] = v
			if p.pos < len(p.s) && p.s[p.pos] == ',' {
				p.pos++
			}
		}
	case bytes.HasPrefix(rest, []byte("JSON_ARRAY(")):
		p.pos += len("JSON_ARRAY(")
		arr := []any{}
		for {
			if p.pos < len(p.s) && p.s[p.pos] == ')' {
				p.pos++
				return arr, nil
			}
			v, err := p.value()
			if err != nil {
				return nil, err
			}
			arr = append(arr, v)
			if p.pos < len(p.s) && p.s[p.pos] == ',' {
				p.pos++
			}
		}
	case len(rest) > 0 && rest[0] == '\'':
		return p.sqlString()
	case bytes.HasPrefix(rest, []byte("null")):
		p.pos += 4
		return nil, nil
	case bytes.HasPrefix(rest, []byte("true")):
		p.pos += 4
		return true, nil
	case bytes.HasPrefix(rest, []byte("false")):
		p.pos += 5
		return false, nil
	}
	end := p.pos
	for end < len(p.s) && p.s[end] != ',' && p.s[end] != ')' {
		end++
	}
	f, err := strconv.ParseFloat(string(p.s[p.pos:end]), 64)
	if err != nil {
		return nil, fmt.Errorf("bad number %q", p.s[p.pos:end])
	}
	p.pos = end
	return f, nil
}

func c40ParseJSONExpr(b []byte) (any, error) {
	if bytes.HasPrefix(b, []byte("JSON_")) {
		p := &c40JP{s: b}
		v, err := p.value()
		if err == nil && p.pos != len(b) {
			err = fmt.Errorf("trailing bytes at %d", p.pos)
		}
		return v, err
	}
	// top-level scalar: '<text>' without escaping; strings as '"..."'
	if len(b) < 2 || b[0] != '\'' || b[len(b)-1] != '\'' {
		return nil, fmt.Errorf("unexpected top-level rendering %.40q", b)
	}
	in := b[1 : len(b)-1]
	if len(in) >= 2 && in[0] == '"' && in[len(in)-1] == '"' {
		return string(in[1 : len(in)-1]), nil
	}
	switch string(in) {
	case "null":
		return nil, nil
	case "true":
		return true, nil
	case "false":
		return false, nil
	}
	f, err := strconv.ParseFloat(string(in), 64)
	return f, err
}

// c40JSONNorm brings a Go JSON value into the canonical shape (all numbers float64).
func c40JSONNorm(v any) any {
	switch x := v.(type) {
	case map[string]any:
		out := map[string]any{}
		for k, e := range x {
			out[k] = c40JSONNorm(e)
		}
		return out
	case []any:
		out := make([]any, len(x))
		for i, e := range x {
			out[i] = c40JSONNorm(e)
		}
		return out
	case nil, bool, string, float64:
		return x
	}
	rv := reflect.ValueOf(v)
	switch rv.Kind() {
	case reflect.Int, reflect.Int8, reflect.Int16, reflect.Int32, reflect.Int64:
		return float64(rv.Int())
	case reflect.Uint, reflect.Uint8, reflect.Uint16, reflect.Uint32, reflect.Uint64:
		return float64(rv.Uint())
	case reflect.Float32:
		return rv.Float()
	}
	return fmt.Sprintf("%T:%v", v, v)
}

func c40Short(b []byte) string {
	if len(b) > 120 {
		return fmt.Sprintf("%q...(%d bytes)", b[:120], len(b))
	}
	return fmt.Sprintf("%q", b)
}

// c40JSONDiff returns a short description of the first difference between two JSON values.
func c40JSONDiff(path string, a, b any) string {
	switch x := a.(type) {
	case map[string]any:
		y, ok := b.(map[string]any)
		if !ok {
			return fmt.Sprintf("%s: object vs %T", path, b)
		}
		for k, v := range x {
			w, ok := y[k]
			if !ok {
				kk := k
				if len(kk) > 40 {
					kk = fmt.Sprintf("%s...(%d bytes)", kk[:40], len(k))
				}
				return fmt.Sprintf("%s: key %q missing in decoded object", path, kk)
			}
			if d := c40JSONDiff(path+"."+k[:min(len(k), 20)], v, w); d != "" {
				return d
			}
		}
		if len(x) != len(y) {
			return fmt.Sprintf("%s: %d keys stored, %d decoded", path, len(x), len(y))
		}
		return ""
	case []any:
		y, ok := b.([]any)
		if !ok || len(x) != len(y) {
			return fmt.Sprintf("%s: array(%d) vs %T", path, len(x), b)
		}
		for i := range x {
			if d := c40JSONDiff(fmt.Sprintf("%s[%d]", path, i), x[i], y[i]); d != "" {
				return d
			}
		}
		return ""
	}
	if !reflect.DeepEqual(a, b) {
		return fmt.Sprintf("%s: stored %.60v decoded %.60v", path, a, b)
	}
	return ""
}

// c40Compare reports whether the decoded cell equals the stored value; want/got are short renderings for the witness.
func c40Compare(ctx *sql.Context, typ sql.Type, stored any, cell sqltypes.Value) (ok bool, want, got, class string) {
	wantV, err := typ.SQL(ctx, nil, stored)
	if err != nil {
		return false, "typ.SQL failed: " + err.Error(), c40Short(cell.Raw()), "harness"
	}
	wr, gr := wantV.Raw(), cell.Raw()
	want, got = c40Short(wr), c40Short(gr)
	class = "any"
	switch typ.Type() {
	case query.Type_FLOAT32:
		a, e1 := strconv.ParseFloat(string(wr), 32)
		b, e2 := strconv.ParseFloat(string(gr), 32)
		if sf, isF := stored.(float32); isF {
			a = float64(sf)
		}
		return e1 == nil && e2 == nil && float32(a) == float32(b), want, got, class
	case query.Type_FLOAT64:
		a, e1 := strconv.ParseFloat(string(wr), 64)
		b, e2 := strconv.ParseFloat(string(gr), 64)
		if sf, isF := stored.(float64); isF {
			a = sf
		}
		return e1 == nil && e2 == nil && a == b, want, got, class
	case query.Type_DECIMAL:
		a, ok1 := c40Rat(string(wr))
		b, ok2 := c40Rat(string(gr))
		return ok1 && ok2 && a.Cmp(b) == 0, want, got, class
	case query.Type_DATE:
		return c40PadYear(string(wr)) == c40PadYear(string(gr)), want, got, class
	case query.Type_DATETIME, query.Type_TIMESTAMP:
		return c40TrimFrac(string(wr)) == c40TrimFrac(string(gr)), want, got, class
	case query.Type_TIME:
		a, ok1 := c40TimeMicros(string(wr))
		b, ok2 := c40TimeMicros(string(gr))
		switch {
		case a < 0 && a%1_000_000 != 0 && (-a/1_000_000)%60 == 59:
			class = "negative-with-fraction-and-59-seconds"
		case a < 0 && a%1_000_000 != 0:
			class = "negative-with-fraction"
		case a < 0:
			class = "negative"
		}
		return ok1 && ok2 && a == b, want, got, class
	case query.Type_YEAR:
		a, e1 := strconv.Atoi(string(wr))
		b, e2 := strconv.Atoi(string(gr))
		if a == 0 {
			class = "year-0000"
		}
		return e1 == nil && e2 == nil && a == b, want, got, class
	case query.Type_BIT:
		var v uint64
		for _, by := range gr {
			v = v<<8 | uint64(by)
		}
		sv, _, err := typ.Convert(ctx, stored)
		u, isU := sv.(uint64)
		want, got = fmt.Sprint(sv), fmt.Sprint(v)
		return err == nil && isU && len(gr) <= 8 && u == v, want, got, class
	case query.Type_ENUM, query.Type_SET:
		sv, _, err := typ.Convert(ctx, stored)
		var u uint64
		switch x := sv.(type) {
		case uint16:
			u = uint64(x)
		case uint64:
			u = x
		default:
			return false, fmt.Sprintf("%T", sv), got, "harness"
		}
		g, e2 := strconv.ParseUint(string(gr), 10, 64)
		want = fmt.Sprintf("%d (%s)", u, want)
		return err == nil && e2 == nil && u == g, want, got, class
	case query.Type_BINARY:
		return bytes.Equal(bytes.TrimRight(wr, "\x00"), bytes.TrimRight(gr, "\x00")), want, got, class
	case query.Type_JSON:
		jw, isJ := stored.(sql.JSONWrapper)
		if !isJ {
			return false, fmt.Sprintf("%T", stored), got, "harness"
		}
		sv, err := jw.ToInterface(ctx)
		if err != nil {
			return false, "ToInterface: " + err.Error(), got, "harness"
		}
		c40JSONShape(sv, 0)
		if tid, _, e := encodeJsonValue(sv); e == nil && (tid == jsonTypeLargeObject || tid == jsonTypeLargeArray) {
			class = "large-format-document"
		}
		dv, err := c40ParseJSONExpr(gr)
		if err != nil {
			return false, want, "unparseable decoder output: " + err.Error() + " " + got, "decoder-output-unparseable"
		}
		d := c40JSONDiff("$", c40JSONNorm(sv), c40JSONNorm(dv))
		if d != "" {
			got = d
			if c40MaxKeyLen(c40JSONNorm(sv)) >= 256 {
				class = "object-key-of-256-bytes-or-more"
			}
		}
		return d == "", want, got, class
	}
	return bytes.Equal(wr, gr), want, got, class
}

// c40Canon renders a stored value in a decoder-independent canonical text form. It is written to a side file so
// that a second decoder (go-mysql, in the external harness module) can be compared against the same stored values.
func c40Canon(ctx *sql.Context, typ sql.Type, fam string, stored any) (string, error) {
	sv, err := typ.SQL(ctx, nil, stored)
	if err != nil {
		return "", err
	}
	raw := sv.Raw()
	switch fam {
	case "int":
		return string(raw), nil
	case "float":
		if typ.Type() == query.Type_FLOAT32 {
			f, ok := stored.(float32)
			if !ok {
				g, err := strconv.ParseFloat(string(raw), 32)
				if err != nil {
					return "", err
				}
				f = float32(g)
			}
			if f == 0 {
				f = 0
			}
			return fmt.Sprintf("f32:%08x", math.Float32bits(f)), nil
		}
		f, ok := stored.(float64)
		if !ok {
			if f, err = strconv.ParseFloat(string(raw), 64); err != nil {
				return "", err
			}
		}
		if f == 0 {
			f = 0
		}
		return fmt.Sprintf("f64:%016x", math.Float64bits(f)), nil
	case "decimal":
		r, ok := c40Rat(string(raw))
		if !ok {
			return "", fmt.Errorf("bad decimal %q", raw)
		}
		return r.String(), nil
	case "date":
		return c40PadYear(string(raw)), nil
	case "datetime", "timestamp":
		return c40TrimFrac(string(raw)), nil
	case "time":
		us, ok := c40TimeMicros(string(raw))
		if !ok {
			return "", fmt.Errorf("bad time %q", raw)
		}
		return strconv.FormatInt(us, 10), nil
	case "year":
		y, err := strconv.Atoi(string(raw))
		return strconv.Itoa(y), err
	case "bit", "enum", "set":
		cv, _, err := typ.Convert(ctx, stored)
		if err != nil {
			return "", err
		}
		switch x := cv.(type) {
		case uint16:
			return strconv.FormatUint(uint64(x), 10), nil
		case uint64:
			return strconv.FormatUint(x, 10), nil
		}
		return "", fmt.Errorf("unexpected %T", cv)
	case "json":
		jw, ok := stored.(sql.JSONWrapper)
		if !ok {
			return "", fmt.Errorf("unexpected %T", stored)
		}
		v, err := jw.ToInterface(ctx)
		if err != nil {
			return "", err
		}
		b, err := json.Marshal(c40JSONNorm(v))
		return string(b), err
	}
	if typ.Type() == query.Type_BINARY {
		raw = bytes.TrimRight(raw, "\x00")
	}
	return "hex:" + hex.EncodeToString(raw), nil
}

type c40ExpCol struct {
	Def    string `json:"def"`
	Family string `json:"family"`
}

type c40ExpTable struct {
	TableID uint64               `json:"table_id"`
	Table   string               `json:"table"`
	Cols    []c40ExpCol          `json:"cols"`
	Rows    map[string][]*string `json:"rows"` // id -> canonical cells (nil = NULL), without the id column
}

// ---------------------------------------------------------------------------------------------------------------

type c40Table struct {
	name    string
	keyless bool
	cols    []c40Col
}

func c40Exec(ctx *sql.Context, eng interface {
	Query(*sql.Context, string) (sql.Schema, sql.RowIter, *sql.QueryFlags, error)
}, q string) ([]sql.Row, sql.Schema, error) {
	sch, it, _, err := eng.Query(ctx, q)
	if err != nil {
		return nil, nil, err
	}
	rows, err := sql.RowIterToRows(ctx, it)
	return rows, sch, err
}

func TestVerifC40(t *testing.T) {
	c := vNew()
	defer c.Done()
	c.Rule("tables are created through Dolt's SQL engine: one table per type family with every variant as a nullable column (boundary values as single-column rows, " +
		"NULL elsewhere, plus dense random rows) and random mixed tables of 1/7/8/9/15/16/17/24 columns (with and without primary key, random NULL patterns); every stored row is " +
		"serialized by the production row serializer into a real TableMap + WriteRows event pair and decoded with vitess; distinct non-trivial = distinct (column type, value) cell that is not NULL")
	c.Assume("the stored value is what SELECT returns, rendered by the column type's SQL() method (GMS); vitess' CellValue/JSON printer is the reference decoder, its known rendering quirks are normalised")

	ctx := context.Background()
	dEnv := sqle.CreateTestEnv()
	db, err := sqle.NewDatabase(ctx, "dolt", dEnv.DbData(ctx), editor.Options{})
	if err != nil {
		t.Fatal(err)
	}
	eng, sqlCtx, err := sqle.NewTestEngine(dEnv, ctx, db)
	if err != nil {
		t.Fatal(err)
	}
	if _, _, err := c40Exec(sqlCtx, eng, "SET @@session.time_zone = '+00:00'"); err != nil {
		c.Note("could not set session time zone: " + err.Error())
	}

	cat := c40Catalogue()
	byFam := map[string][]c40Col{}
	var famOrder []string
	for _, col := range cat {
		if _, ok := byFam[col.Family]; !ok {
			famOrder = append(famOrder, col.Family)
		}
		byFam[col.Family] = append(byFam[col.Family], col)
	}
	var tables []c40Table
	for _, f := range famOrder {
		if f == "text" || f == "blob" || f == "json" { // LOB columns do not count towards the row size
			tables = append(tables, c40Table{name: "fam_" + f, cols: byFam[f]})
			continue
		}
		var lightCols []c40Col
		for i, col := range byFam[f] {
			if col.Heavy { // wide columns get a table of their own (row size limit)
				tables = append(tables, c40Table{name: fmt.Sprintf("fam_%s_wide%d", f, i), cols: []c40Col{col}})
			} else {
				lightCols = append(lightCols, col)
			}
		}
		tables = append(tables, c40Table{name: "fam_" + f, cols: lightCols})
	}
	var light []c40Col
	for _, col := range cat {
		if !col.Heavy {
			light = append(light, col)
		}
	}
	nMixed := c.Pick(24, 480)
	widths := []int{1, 7, 8, 9, 15, 16, 17, 24}
	for i := 0; i < nMixed; i++ {
		rng := c.SubRand("c40/mixed", i)
		w := widths[i%len(widths)]
		tb := c40Table{name: fmt.Sprintf("mix_%d", i), keyless: i%4 == 3}
		for k := 0; k < w-1; k++ {
			tb.cols = append(tb.cols, light[rng.Intn(len(light))])
		}
		tables = append(tables, tb)
	}

	format := createBinlogFormat()
	meta := mysql.BinlogEventMetadata{ServerID: 1, Timestamp: 1700000000}

	// side files for the second decoder: a binlog file made of the very events decoded here, and the stored values
	evFile, err := os.Create(filepath.Join(c.Dir, "c40-events.binlog"))
	if err != nil {
		t.Fatal(err)
	}
	defer evFile.Close()
	evFile.Write([]byte{0xfe, 'b', 'i', 'n'})
	evFile.Write(mysql.NewFormatDescriptionEvent(*format, meta).Bytes())
	expFile, err := os.Create(filepath.Join(c.Dir, "c40-expected.jsonl"))
	if err != nil {
		t.Fatal(err)
	}
	defer expFile.Close()

	var (
		cells, nulls, rowsN, insertRejected, rowLenBad, serializeErrors int
		famCells                                                        = map[string]int{}
		perKey                                                          = map[string]int{}
		rejectedSamples                                                 []string
	)
	viol := func(key, what string, w any) {
		perKey[key]++
		if perKey[key] <= 3 {
			c.Violation(key, what, w)
		} else {
			c.Count("c40.violations_beyond_3_per_class."+key, 1)
		}
	}

	for ti, tb := range tables {
		rng := c.SubRand("c40/table/"+tb.name, 0)
		c.Case("c40/"+tb.name, map[string]any{"table": tb.name, "columns": len(tb.cols) + 1, "keyless": tb.keyless})
		var defs []string
		if tb.keyless {
			defs = append(defs, "id int not null")
		} else {
			defs = append(defs, "id int primary key")
		}
		for i, col := range tb.cols {
			defs = append(defs, fmt.Sprintf("c%d %s", i, col.Def))
		}
		if _, _, err := c40Exec(sqlCtx, eng, fmt.Sprintf("CREATE TABLE %s (%s)", tb.name, strings.Join(defs, ", "))); err != nil {
			c.Note(fmt.Sprintf("CREATE TABLE %s failed: %.200s", tb.name, err.Error()))
			c.Inconclusive("could not create table " + tb.name + ": " + err.Error())
			continue
		}
		id := 0
		insert := func(colsList, vals string) {
			id++
			q := fmt.Sprintf("INSERT INTO %s (id%s) VALUES (%d%s)", tb.name, colsList, id, vals)
			if _, _, err := c40Exec(sqlCtx, eng, q); err != nil {
				insertRejected++
				if len(rejectedSamples) < 12 {
					qq := q
					if len(qq) > 140 {
						qq = qq[:140] + "..."
					}
					rejectedSamples = append(rejectedSamples, fmt.Sprintf("%s -> %.120s", qq, err.Error()))
				}
			}
		}
		isFam := strings.HasPrefix(tb.name, "fam_")
		if isFam {
			for i, col := range tb.cols {
				for _, lit := range col.Bounds() {
					insert(fmt.Sprintf(", c%d", i), ", "+lit)
				}
			}
		}
		insert("", "") // all NULL
		nRand := c.Pick(20, 120)
		if isFam && tb.cols[0].Heavy {
			nRand = c.Pick(3, 12)
		}
		for r := 0; r < nRand; r++ {
			var cl, vl strings.Builder
			for i, col := range tb.cols {
				if r > 0 && rng.Intn(4) == 0 {
					continue // NULL
				}
				fmt.Fprintf(&cl, ", c%d", i)
				if b := col.Bounds(); !isFam && rng.Intn(2) == 0 {
					vl.WriteString(", " + b[rng.Intn(len(b))])
				} else {
					vl.WriteString(", " + col.Rand(rng))
				}
			}
			insert(cl.String(), vl.String())
		}

		// ---- stored values as Dolt shows them
		want, _, err := c40Exec(sqlCtx, eng, fmt.Sprintf("SELECT * FROM %s ORDER BY id", tb.name))
		if err != nil {
			c.Inconclusive("SELECT failed on " + tb.name + ": " + err.Error())
			continue
		}
		wantByID := map[string]sql.Row{}
		for _, r := range want {
			wantByID[fmt.Sprint(r[0])] = r
		}

		// ---- the production path
		root, err := db.GetRoot(sqlCtx)
		if err != nil {
			t.Fatal(err)
		}
		tbl, ok, err := root.GetTable(sqlCtx, doltdb.TableName{Name: tb.name})
		if err != nil || !ok {
			t.Fatalf("table %s not found: %v", tb.name, err)
		}
		sch, err := tbl.GetSchema(sqlCtx)
		if err != nil {
			t.Fatal(err)
		}
		tableMap, err := createTableMapFromDoltTable(sqlCtx, "dolt", tb.name, tbl, false)
		if err != nil {
			viol("c40/table-map/error", "createTableMapFromDoltTable failed: "+err.Error(), map[string]any{"table": tb.name, "columns": defs})
			continue
		}
		idx, err := tbl.GetRowData(sqlCtx)
		if err != nil {
			t.Fatal(err)
		}
		pm, err := durable.ProllyMapFromIndex(idx)
		if err != nil {
			t.Fatal(err)
		}
		it, err := pm.IterAll(sqlCtx)
		if err != nil {
			t.Fatal(err)
		}
		var mrows []mysql.Row
		serrBefore := serializeErrors
		for {
			k, v, err := it.Next(sqlCtx)
			if err == io.EOF {
				break
			}
			if err != nil {
				t.Fatal(err)
			}
			data, nullBitmap, err := serializeRowToBinlogBytes(sqlCtx, sch, sch, tree.Item(k), tree.Item(v), tbl.NodeStore())
			if err != nil {
				serializeErrors++
				// attribute the failure to a column by walking the row the way the production loop does
				iter := newRowSerializationIter(sqlCtx, sch, sch, tree.Item(k), tree.Item(v), tbl.NodeStore())
				ci, rowID := -1, "?"
				for iter.hasNext() {
					ci++
					fromCol, toCol, desc, tuple, tupleIdx := iter.nextColumn()
					typ := fromCol.TypeInfo.ToSqlType()
					ser := typeSerializersMap[typ.Type()]
					val, derr := ser.deserialize(sqlCtx, typ, desc, tuple, tupleIdx, tbl.NodeStore())
					if derr != nil || val == nil {
						continue
					}
					if ci == 0 {
						rowID = fmt.Sprint(val)
						continue
					}
					if _, serr := ser.serialize(sqlCtx, toCol.TypeInfo.ToSqlType(), val, tbl.NodeStore()); serr != nil {
						col := tb.cols[ci-1]
						stored := "?"
						if w := wantByID[rowID]; w != nil {
							if sv, e := typ.SQL(sqlCtx, nil, w[ci]); e == nil {
								stored = c40Short(sv.Raw())
							}
						}
						class := "any"
						if dt, isDec := typ.(sql.DecimalType); isDec && dt.Precision() == dt.Scale() {
							class = "precision-equals-scale"
						}
						viol("c40/serialize-error/"+col.Family+"/"+col.Def+"/"+class,
							fmt.Sprintf("column %s: stored value %s cannot be serialized into a row event: %s", col.Def, stored, serr.Error()),
							map[string]any{"table": tb.name, "row_id": rowID, "column": col.Def, "stored": stored, "error": serr.Error()})
					}
				}
				continue
			}
			mrows = append(mrows, mysql.Row{NullColumns: nullBitmap, Data: data})
		}
		nCols := len(tb.cols) + 1
		dataCols := mysql.NewServerBitmap(nCols)
		for i := 0; i < nCols; i++ {
			dataCols.Set(i, true)
		}
		tableID := uint64(100 + ti)
		tmEv, err := mysql.NewTableMapEvent(*format, meta, tableID, tableMap)
		if err != nil {
			viol("c40/table-map/event-error", err.Error(), map[string]any{"table": tb.name})
			continue
		}
		rowsEv := mysql.NewWriteRowsEvent(*format, meta, tableID, mysql.Rows{DataColumns: dataCols, Rows: mrows})

		evFile.Write(tmEv.Bytes())
		evFile.Write(rowsEv.Bytes())
		exp := c40ExpTable{TableID: tableID, Table: tb.name, Rows: map[string][]*string{}}
		for _, col := range tb.cols {
			exp.Cols = append(exp.Cols, c40ExpCol{col.Def, col.Family})
		}
		for _, wr := range want {
			cellsOut := make([]*string, len(tb.cols))
			for i, col := range tb.cols {
				if wr[i+1] == nil {
					continue
				}
				cs, err := c40Canon(sqlCtx, sch.GetAllCols().GetColumns()[i+1].TypeInfo.ToSqlType(), col.Family, wr[i+1])
				if err != nil {
					cs = "canon-error: " + err.Error()
				}
				cellsOut[i] = &cs
			}
			exp.Rows[fmt.Sprint(wr[0])] = cellsOut
		}
		if b, err := json.Marshal(exp); err == nil {
			expFile.Write(append(b, '\n'))
		}

		// ---- the replica side (a replica strips the event checksum first)
		if e2, _, err := tmEv.StripChecksum(*format); err == nil {
			tmEv = e2
		}
		if e2, _, err := rowsEv.StripChecksum(*format); err == nil {
			rowsEv = e2
		}
		tm, err := tmEv.TableMap(*format)
		if err != nil {
			viol("c40/decode/table-map", "vitess cannot parse the TableMap event: "+err.Error(), map[string]any{"table": tb.name, "columns": defs})
			continue
		}
		var drows mysql.Rows
		func() {
			defer func() {
				if r := recover(); r != nil {
					err = fmt.Errorf("panic: %v", r)
				}
			}()
			drows, err = rowsEv.Rows(*format, tm)
		}()
		if err != nil {
			viol("c40/decode/rows-event", "vitess cannot parse the WriteRows event: "+err.Error(), map[string]any{"table": tb.name, "columns": defs})
			continue
		}
		if len(drows.Rows) != len(mrows) || len(mrows)+serializeErrors-serrBefore != len(want) {
			viol("c40/rows/count", fmt.Sprintf("%d rows stored, %d rows in the event", len(want), len(drows.Rows)), map[string]any{"table": tb.name})
		}
		colTypes := make([]sql.Type, nCols)
		colDefs := make([]string, nCols)
		allCols := sch.GetAllCols().GetColumns()
		for i := range colTypes {
			colTypes[i] = allCols[i].TypeInfo.ToSqlType()
			colDefs[i] = "int"
			if i > 0 {
				colDefs[i] = tb.cols[i-1].Def
			}
		}
		for _, dr := range drows.Rows {
			rowsN++
			pos, nullIdx := 0, 0
			var stored sql.Row
			broken := false
			for ci := 0; ci < nCols && !broken; ci++ {
				if !drows.DataColumns.Bit(ci) {
					continue
				}
				isNull := dr.NullColumns.Bit(nullIdx)
				nullIdx++
				var cell sqltypes.Value
				if !isNull {
					func() {
						defer func() {
							if r := recover(); r != nil {
								broken = true
								viol("c40/decode/panic/"+colDefs[ci], fmt.Sprintf("vitess CellValue panicked on column %s: %v", colDefs[ci], r),
									map[string]any{"table": tb.name, "column": colDefs[ci], "type_byte": tm.Types[ci], "metadata": tm.Metadata[ci], "row_bytes": c40Short(dr.Data[min(pos, len(dr.Data)):])})
							}
						}()
						var l int
						var err error
						cell, l, err = mysql.CellValue(dr.Data, pos, tm.Types[ci], tm.Metadata[ci], colTypes[ci].Type())
						if err != nil {
							broken = true
							rid := "?"
							if stored != nil {
								rid = fmt.Sprint(stored[0])
							}
							msg := err.Error()
							if len(msg) > 300 {
								msg = msg[:300] + "..."
							}
							viol("c40/decode/error/"+colDefs[ci], "vitess CellValue cannot decode the emitted cell: "+msg, map[string]any{"table": tb.name, "column": colDefs[ci], "row_id": rid})
							return
						}
						pos += l
					}()
					if broken {
						break
					}
				}
				if ci == 0 {
					if isNull {
						broken = true
						break
					}
					stored = wantByID[cell.ToString()]
					if stored == nil {
						viol("c40/rows/unknown-id", "decoded row id "+cell.ToString()+" is not a stored row", map[string]any{"table": tb.name})
						broken = true
					}
					continue
				}
				sv := stored[ci]
				def := colDefs[ci]
				fam := tb.cols[ci-1].Family
				if i := strings.Index(def, "("); i > 0 && (fam == "enum" || fam == "set") {
					def = fmt.Sprintf("%s[%d values]", fam, strings.Count(def, ",")+1)
				}
				if (sv == nil) != isNull {
					viol("c40/null-bitmap/"+fam, fmt.Sprintf("column %s: stored NULL=%v but the event's NULL bit=%v", def, sv == nil, isNull),
						map[string]any{"table": tb.name, "row_id": fmt.Sprint(stored[0]), "column": def, "columns": nCols})
					continue
				}
				if isNull {
					nulls++
					continue
				}
				cells++
				famCells[fam]++
				okc, ws, gs, class := c40Compare(sqlCtx, colTypes[ci], sv, cell)
				c.Distinct(def + "|" + ws)
				if !okc {
					viol("c40/value/"+fam+"/"+def+"/"+class, fmt.Sprintf("column %s: stored %s but a replica decodes %s", def, ws, gs),
						map[string]any{"table": tb.name, "row_id": fmt.Sprint(stored[0]), "column": def, "type_byte": tm.Types[ci], "metadata": tm.Metadata[ci], "stored": ws, "decoded": gs})
				}
			}
			if !broken && pos != len(dr.Data) {
				rowLenBad++
				viol("c40/row/length", fmt.Sprintf("row image has %d bytes but the decoder consumed %d", len(dr.Data), pos), map[string]any{"table": tb.name, "row_id": fmt.Sprint(stored[0])})
			}
		}
		if ti < 3 {
			c.Sample(map[string]any{"table": tb.name, "columns": colDefs, "rows": len(want)})
		}
	}
	for _, s := range rejectedSamples {
		c.Note("INSERT rejected by the engine (value not stored, not part of the check): " + s)
	}
	c.Count("c40.rows_decoded", rowsN)
	c.Count("c40.cells_compared", cells)
	c.Count("c40.null_cells", nulls)
	c.Count("c40.inserts_rejected_by_engine", insertRejected)
	c.Count("c40.rows_failing_serialization", serializeErrors)
	for f, n := range famCells {
		c.Count("c40.cells."+f, n)
	}
	for _, f := range famOrder {
		c.Require(famCells[f] > 0, "no non-NULL cell of family "+f+" was compared")
	}
	c.Count("c40.json.large_format_objects", c40JStats.largeObj)
	c.Count("c40.json.large_format_arrays", c40JStats.largeArr)
	c.Count("c40.json.large_with_inline_literals", c40JStats.largeInline)
	c.Count("c40.json.large_nested_below_top_level", c40JStats.nestedLarge)
	c.Count("c40.json.small_format_containers_over_64000_bytes", c40JStats.smallNearLimit)
	c.Require(c40JStats.largeObj > 0 && c40JStats.largeArr > 0 && c40JStats.largeInline > 0 && c40JStats.nestedLarge > 0 && c40JStats.smallNearLimit > 0,
		"JSON large-format coverage missing (large objects, large arrays, large containers with inline literals, nested large containers and small containers just below the switch are all required)")
	c.Require(nulls > 0, "no NULL cell observed")
	_ = binary.LittleEndian
}
