//go:build verif

package datas

// C19 twin: the closure-based FindCommonAncestor against the unexported parent-walk variant
// findCommonAncestorUsingParentsList (reachable in production only for legacy commits without closures) on random
// DAGs. A disagreement on existence or on the HEIGHT of the returned base is reported; asymmetry of the
// parent-walk variant itself is a diagnostic only (DESIGN §4 C19, §6.4).

import (
	"context"
	"fmt"
	"math/rand"
	"testing"
	"time"

	"github.com/dolthub/dolt/go/store/chunks"
	"github.com/dolthub/dolt/go/store/hash"
	"github.com/dolthub/dolt/go/store/types"
)

func vc19GenParents(r *rand.Rand, n int) [][]int {
	var ps [][]int
	pick := func() int {
		i := len(ps)
		if r.Intn(100) < 70 {
			w := 1 + r.Intn(6)
			if w > i {
				w = i
			}
			return i - 1 - r.Intn(w)
		}
		return r.Intn(i)
	}
	for len(ps) < n {
		i := len(ps)
		if i == 0 || r.Intn(100) < 6 {
			ps = append(ps, nil)
			continue
		}
		x := r.Intn(100)
		switch {
		case x < 12 && i >= 2 && n-i >= 2:
			a, b := pick(), pick()
			if a == b {
				b = (a + 1) % i
			}
			ps = append(ps, []int{a, b}, []int{b, a})
		default:
			k := 1 + r.Intn(100)/45 // 1..3
			if r.Intn(12) == 0 {
				k = 4
			}
			var p []int
			for len(p) < k {
				p = append(p, pick())
			}
			if r.Intn(8) == 0 {
				p = append(p, p[0])
			}
			ps = append(ps, p)
		}
	}
	return ps
}

func TestVerifC19(t *testing.T) {
	c := vNew()
	defer c.Done()
	ctx := context.Background()
	c.Rule("C19 twin: random DAGs (1–40 commits, 0–5 parents incl. duplicates, criss-cross pairs, several roots) built with Database.Commit; all ordered pairs; closure-based FindCommonAncestor vs findCommonAncestorUsingParentsList compared on existence and height of the base")
	n := c.Pick(100, 4000)
	epoch := CommitDateAt(time.UnixMilli(0))
	pairs, agree, sameAddr, none, asym := 0, 0, 0, 0, 0
	for i := 0; i < n; i++ {
		r := c.SubRand("c19twin", i)
		sz := 1 + r.Intn(40)
		ps := vc19GenParents(r, sz)
		name := fmt.Sprintf("c19twin/dag%d", i)
		c.Case(name, map[string]any{"parents": ps})
		storage := &chunks.TestStorage{}
		db := NewDatabase(storage.NewViewWithDefaultFormat()).(*database)
		addrs := make([]hash.Hash, len(ps))
		merges := 0
		failed := false
		for k, p := range ps {
			parents := make([]hash.Hash, len(p))
			for x, pi := range p {
				parents[x] = addrs[pi]
			}
			if len(p) > 1 {
				merges++
			}
			ds, err := db.GetDataset(ctx, fmt.Sprintf("t/n%d", k))
			if err == nil {
				meta := &CommitMeta{Author: CommitIdent{Date: epoch}, Committer: CommitIdent{Date: epoch}, Description: fmt.Sprintf("%d-%d", i, k)}
				ds, err = db.Commit(ctx, ds, types.String(fmt.Sprintf("v%d-%d", i, k)), CommitOptions{Parents: parents, Meta: meta})
			}
			if err != nil {
				c.Violation("c19/twin/build-failed", fmt.Sprintf("%s: building commit %d failed: %v", name, k, err), map[string]any{"parents": ps})
				failed = true
				break
			}
			addrs[k], _ = ds.MaybeHeadAddr()
		}
		if failed {
			continue
		}
		if merges > 0 {
			c.Distinct(fmt.Sprint("c19twin:", ps))
		}
		cms := make([]*Commit, len(ps))
		height := map[hash.Hash]uint64{}
		for k := range ps {
			cm, err := LoadCommitAddr(ctx, db, addrs[k])
			if err != nil {
				c.Violation("c19/twin/build-failed", fmt.Sprintf("%s: commit %d unreadable: %v", name, k, err), nil)
				failed = true
				break
			}
			cms[k] = cm
			height[addrs[k]] = cm.Height()
		}
		if failed {
			continue
		}
		walk := make([][]hash.Hash, len(ps))
		for a := range ps {
			walk[a] = make([]hash.Hash, len(ps))
			for b := range ps {
				pairs++
				h1, ok1, err1 := FindCommonAncestor(ctx, cms[a], cms[b], db, db, db.ns, db.ns)
				h2, ok2, err2 := findCommonAncestorUsingParentsList(ctx, cms[a], cms[b], db, db, db.ns, db.ns)
				w := map[string]any{"parents": ps, "a": a, "b": b, "closure": h1.String(), "walk": h2.String()}
				if err1 != nil || err2 != nil {
					c.Violation("c19/twin/error", fmt.Sprintf("%s: (%d,%d) closure err %v, parent-walk err %v", name, a, b, err1, err2), w)
					continue
				}
				walk[a][b] = h2
				switch {
				case ok1 != ok2:
					c.Violation("c19/twin/existence-disagree", fmt.Sprintf("%s: (%d,%d) closure-based found=%v, parent-walk found=%v", name, a, b, ok1, ok2), w)
				case !ok1:
					none++
					agree++
				case height[h1] != height[h2]:
					c.Violation("c19/twin/height-disagree", fmt.Sprintf("%s: (%d,%d) closure-based base has height %d, parent-walk base height %d", name, a, b, height[h1], height[h2]), w)
				default:
					agree++
					if h1 == h2 {
						sameAddr++
					}
				}
			}
		}
		for a := range ps {
			for b := a + 1; b < len(ps); b++ {
				if walk[a][b] != walk[b][a] {
					asym++
				}
			}
		}
		if i < 2 {
			c.Sample(map[string]any{"case": name, "parents": ps})
		}
	}
	c.Count("c19.twin.pairs", pairs)
	c.Count("c19.twin.agree_on_height", agree)
	c.Count("c19.twin.same_address", sameAddr)
	c.Count("c19.twin.none", none)
	c.Count("c19.twin.parentwalk_asymmetric_pairs(diagnostic)", asym)
	if asym > 0 {
		c.Note(fmt.Sprintf("C19 twin diagnostic: findCommonAncestorUsingParentsList gave different bases for (a,b) and (b,a) on %d pairs (legacy path only; not a verdict)", asym))
	}
	c.Require(pairs > 0 && none > 0 && agree > none, "C19 twin compared no pairs with and without a common ancestor")
}
