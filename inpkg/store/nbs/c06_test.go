//go:build verif

package nbs

// C06 — table files and archives round-trip any chunk set.
//
// In-package monitor (twin): the table writers/readers, the archive writer and the conjoin planner are
// unexported. For PRNG chunk multisets (duplicates, 1-byte / compressible / incompressible bodies, forged
// 8-byte-prefix collision families, runs of consecutive prefixes, all-zero / all-ones prefixes) it writes
// table files through the three production writers (memTable+Persist, raw tableWriter, CmpChunkTableWriter),
// converts table -> archive (ArchiveStreamWriter without and with a trained dictionary; archiveWriter with
// explicit chunk-group dictionaries built from the archive_build.go primitives), archive -> archive,
// archive -> table, and conjoins table+table, archive+archive and table+archive through
// fsTablePersister.ConjoinAll (planRangeCopyConjoin). Every resulting file is re-opened through
// fsTablePersister.Open and ALL reader entry points are compared with the chunk model.

import (
	"bytes"
	"context"
	"encoding/binary"
	"fmt"
	"math/rand"
	"os"
	"path/filepath"
	"sort"
	"strings"
	"sync"
	"testing"

	"github.com/dolthub/gozstd"
	"golang.org/x/sync/errgroup"

	dherrors "github.com/dolthub/dolt/go/libraries/utils/errors"
	"github.com/dolthub/dolt/go/store/chunks"
	"github.com/dolthub/dolt/go/store/hash"
)

type vc06Chunk struct {
	h      hash.Hash
	data   []byte
	forged bool
	group  int // >0: member of a family of similar honest chunks (candidates for a shared dictionary)
}

// vc06Model is what one file is expected to contain.
type vc06Model struct {
	data   map[hash.Hash][]byte
	copies map[hash.Hash]int // how many records of that address the file holds
	forged map[hash.Hash]bool
}

func vc06NewModel() *vc06Model {
	return &vc06Model{data: map[hash.Hash][]byte{}, copies: map[hash.Hash]int{}, forged: map[hash.Hash]bool{}}
}

func (m *vc06Model) add(ch vc06Chunk, n int) {
	m.data[ch.h] = ch.data
	m.copies[ch.h] += n
	m.forged[ch.h] = ch.forged
}

func (m *vc06Model) union(o *vc06Model) {
	for h, d := range o.data {
		m.data[h] = d
		m.copies[h] += o.copies[h]
		m.forged[h] = o.forged[h]
	}
}

func (m *vc06Model) total() (records int, bytesLen uint64) {
	for h, n := range m.copies {
		records += n
		bytesLen += uint64(n) * uint64(len(m.data[h]))
	}
	return
}

func (m *vc06Model) sorted() []hash.Hash {
	out := make([]hash.Hash, 0, len(m.data))
	for h := range m.data {
		out = append(out, h)
	}
	sort.Slice(out, func(i, j int) bool { return bytes.Compare(out[i][:], out[j][:]) < 0 })
	return out
}

func vc06Body(r *rand.Rand, maxLen int) []byte {
	switch r.Intn(8) {
	case 0:
		return []byte{byte(r.Intn(256))}
	case 1, 2:
		n := 1 + r.Intn(maxLen)
		return bytes.Repeat([]byte{byte('a' + r.Intn(3))}, n)
	case 3:
		n := 1 + r.Intn(maxLen)
		b := make([]byte, n)
		for i := range b {
			b[i] = "the quick brown fox "[(i+n)%20]
		}
		return b
	default:
		n := 1 + r.Intn(maxLen)
		if r.Intn(3) == 0 {
			n = 1 + r.Intn(48)
		}
		b := make([]byte, n)
		r.Read(b)
		return b
	}
}

func vc06Family(r *rand.Rand, n int) []hash.Hash {
	var base hash.Hash
	r.Read(base[:])
	switch r.Intn(6) {
	case 0:
		for i := 0; i < 8; i++ {
			base[i] = 0
		}
	case 1:
		for i := 0; i < 8; i++ {
			base[i] = 0xff
		}
	}
	out := make([]hash.Hash, 0, n)
	seen := map[hash.Hash]bool{}
	for len(out) < n {
		h := base
		switch r.Intn(3) {
		case 0:
			h[19] = byte(len(out))
		case 1:
			h[8] = byte(r.Intn(256))
		default:
			r.Read(h[8:])
		}
		if !seen[h] {
			seen[h] = true
			out = append(out, h)
		}
	}
	return out
}

// vc06GenSet builds a multiset of n chunk records (duplicates included in n).
func vc06GenSet(r *rand.Rand, n, maxBody int) []vc06Chunk {
	var out []vc06Chunk
	known := map[hash.Hash][]byte{}
	suffixOwner := map[[12]byte]hash.Hash{}
	push := func(ch vc06Chunk) {
		if len(ch.data) == 0 {
			return
		}
		if d, ok := known[ch.h]; ok && !bytes.Equal(d, ch.data) {
			return // one address, one content
		}
		// Table file names are the hash of the suffix column only: two forged addresses with equal suffixes and different
		// prefixes would make two different files collide on one name (impossible with content addresses: a 96-bit collision).
		var sfx [12]byte
		copy(sfx[:], ch.h[8:])
		if o, ok := suffixOwner[sfx]; ok && o != ch.h {
			return
		}
		suffixOwner[sfx] = ch.h
		known[ch.h] = ch.data
		out = append(out, ch)
	}
	groupID := 0
	for len(out) < n {
		left := n - len(out)
		switch k := r.Intn(20); {
		case k < 6: // forged family sharing the 8-byte prefix
			sz := 2 + r.Intn(15)
			if sz > left {
				sz = left
			}
			if sz < 1 {
				sz = 1
			}
			for _, h := range vc06Family(r, sz) {
				d := vc06Body(r, maxBody)
				if r.Intn(6) == 0 && len(out) > 0 {
					d = out[r.Intn(len(out))].data // same content under another address
				}
				push(vc06Chunk{h: h, data: d, forged: true})
			}
		case k < 8: // run of consecutive prefixes
			var base hash.Hash
			r.Read(base[:])
			p := binary.BigEndian.Uint64(base[:8])
			sz := 2 + r.Intn(6)
			for i := 0; i < sz && i < left; i++ {
				h := base
				binary.BigEndian.PutUint64(h[:8], p+uint64(i))
				r.Read(h[8:])
				push(vc06Chunk{h: h, data: vc06Body(r, maxBody), forged: true})
			}
		case k < 10: // family of similar honest chunks
			groupID++
			base := make([]byte, 200+r.Intn(maxBody))
			for i := range base {
				base[i] = byte('A' + (i*7+groupID)%23)
			}
			sz := 3 + r.Intn(10)
			for i := 0; i < sz && i < left; i++ {
				d := append([]byte(nil), base...)
				for e := 0; e < 4; e++ {
					d[r.Intn(len(d))] = byte(r.Intn(256))
				}
				d = append(d, byte(i), byte(groupID), byte(r.Intn(256)))
				push(vc06Chunk{h: computeAddr(d), data: d, group: groupID})
			}
		default:
			d := vc06Body(r, maxBody)
			push(vc06Chunk{h: computeAddr(d), data: d})
		}
	}
	out = out[:n]
	// duplicates: re-insert ~6% of the records at random positions
	if n > 1 {
		dups := n / 16
		if dups == 0 && r.Intn(2) == 0 {
			dups = 1
		}
		for i := 0; i < dups; i++ {
			src := out[r.Intn(len(out))]
			at := r.Intn(len(out))
			out[at] = src
		}
	}
	return out
}

func vc06Neighbours(h hash.Hash) []hash.Hash {
	var out []hash.Hash
	a := h
	a[19] ^= 1
	out = append(out, a)
	b := h
	b[8] ^= 0x80
	out = append(out, b)
	c := h
	c[12]++
	out = append(out, c)
	p := binary.BigEndian.Uint64(h[:8])
	d := h
	binary.BigEndian.PutUint64(d[:8], p+1)
	out = append(out, d)
	e := h
	binary.BigEndian.PutUint64(e[:8], p-1)
	out = append(out, e)
	return out
}

type vc06Env struct {
	c      *vCtx
	dir    string
	tmp    string
	p      *fsTablePersister
	ctx    context.Context
	caseID string
	opened []chunkSource
	note   string
	nonviz struct{ collisionHits, absentPresentPrefix int }
}

func (e *vc06Env) viol(kind, entry, what string, w map[string]any) {
	if w == nil {
		w = map[string]any{}
	}
	w["file_kind"] = kind
	e.c.Violation("c06/"+kind+"/"+entry, fmt.Sprintf("%s %s: %s", kind, entry, what), w)
}

func (e *vc06Env) open(name hash.Hash, count uint32) (chunkSource, error) {
	cs, err := e.p.Open(e.ctx, name, count, &Stats{})
	if err == nil {
		e.opened = append(e.opened, cs)
	}
	return cs, err
}

// ---- writers ---------------------------------------------------------------------------------------

// memTable + Persist: duplicates are dropped by the memtable.
func (e *vc06Env) writePersist(recs []vc06Chunk) (chunkSource, *vc06Model, error) {
	m := vc06NewModel()
	mt := newMemTable(1 << 31)
	for _, ch := range recs {
		switch mt.addChunk(ch.h, ch.data) {
		case chunkAdded:
			m.add(ch, 1)
		case chunkNotAdded:
			return nil, nil, fmt.Errorf("memtable refused chunk")
		}
	}
	cs, _, err := e.p.Persist(e.ctx, dherrors.FatalBehaviorError, mt, nil, nil, &Stats{})
	if err != nil {
		return nil, nil, err
	}
	e.opened = append(e.opened, cs)
	return cs, m, nil
}

// raw tableWriter: duplicates are kept as separate records.
func (e *vc06Env) writeRaw(recs []vc06Chunk) (chunkSource, *vc06Model, error) {
	m := vc06NewModel()
	var total uint64
	for _, ch := range recs {
		total += uint64(len(ch.data))
	}
	var buff []byte
	if len(recs) == 0 {
		buff = make([]byte, footerSize)
	} else {
		buff = make([]byte, maxTableSize(uint64(len(recs)), total))
	}
	tw := newTableWriter(buff, nil)
	for _, ch := range recs {
		tw.addChunk(ch.h, ch.data)
		m.add(ch, 1)
	}
	length, name, err := tw.finish()
	if err != nil {
		return nil, nil, err
	}
	if err := os.WriteFile(filepath.Join(e.dir, name.String()), buff[:length], 0o644); err != nil {
		return nil, nil, err
	}
	cs, err := e.open(name, uint32(len(recs)))
	return cs, m, err
}

// CmpChunkTableWriter (the writer used by pull / GC): refuses duplicates at Finish, so the caller de-duplicates.
func (e *vc06Env) writeCmp(recs []vc06Chunk) (chunkSource, *vc06Model, error) {
	m := vc06NewModel()
	w, err := NewCmpChunkTableWriter(e.tmp)
	if err != nil {
		return nil, nil, err
	}
	defer w.Remove()
	for _, ch := range recs {
		if _, ok := m.data[ch.h]; ok {
			continue
		}
		if _, err := w.AddChunk(ChunkToCompressedChunk(chunks.NewChunkWithHash(ch.h, ch.data))); err != nil {
			return nil, nil, err
		}
		m.add(ch, 1)
	}
	_, name, err := w.Finish()
	if err != nil {
		return nil, nil, err
	}
	if err := w.FlushToFile(filepath.Join(e.dir, name)); err != nil {
		return nil, nil, err
	}
	cs, err := e.open(hash.Parse(name), uint32(len(m.data)))
	return cs, m, err
}

// allCompressed pulls every chunk of src (by the model's addresses) through getManyCompressed.
func (e *vc06Env) allCompressed(src chunkSource, m *vc06Model) ([]ToChunker, error) {
	set := hash.NewHashSet()
	for h := range m.data {
		set.Insert(h)
	}
	reqs := toGetRecords(set)
	eg, ectx := errgroup.WithContext(e.ctx)
	var mu sync.Mutex
	var got []ToChunker
	_, _, err := src.getManyCompressed(ectx, eg, reqs, func(_ context.Context, tc ToChunker) {
		mu.Lock()
		got = append(got, tc)
		mu.Unlock()
	}, nil, &Stats{})
	if werr := eg.Wait(); err == nil {
		err = werr
	}
	sort.Slice(got, func(i, j int) bool {
		a, b := got[i].Hash(), got[j].Hash()
		return bytes.Compare(a[:], b[:]) < 0
	})
	return got, err
}

// ArchiveStreamWriter fed from another chunk source, as GC / pull do (SeenChunk guards duplicates).
func (e *vc06Env) writeArchiveStream(src chunkSource, m *vc06Model, r *rand.Rand) (chunkSource, *vc06Model, string, error) {
	got, err := e.allCompressed(src, m)
	if err != nil {
		return nil, nil, "", fmt.Errorf("reading source: %w", err)
	}
	r.Shuffle(len(got), func(i, j int) { got[i], got[j] = got[j], got[i] })
	w, err := NewArchiveStreamWriter(e.tmp)
	if err != nil {
		return nil, nil, "", err
	}
	defer w.Remove()
	out := vc06NewModel()
	for _, tc := range got {
		h := tc.Hash()
		if w.SeenChunk(h) {
			continue
		}
		if _, err := w.AddChunk(tc); err != nil {
			w.Cancel()
			return nil, nil, "", fmt.Errorf("AddChunk(%s): %w", h, err)
		}
		out.add(vc06Chunk{h: h, data: m.data[h], forged: m.forged[h]}, 1)
	}
	mode := "snappy"
	if w.snappyDict != nil || len(w.dictMap) > 0 {
		mode = "zstd"
	}
	_, name, err := w.Finish()
	if err != nil {
		w.Cancel()
		return nil, nil, mode, err
	}
	if err := w.FlushToFile(filepath.Join(e.dir, name)); err != nil {
		return nil, nil, mode, err
	}
	cs, err := e.open(hash.Parse(strings.TrimSuffix(name, ArchiveFileSuffix)), uint32(len(out.data)))
	return cs, out, mode, err
}

// archiveWriter with explicit dictionaries: one per family of similar chunks (chunkGroup from archive_build.go)
// plus a default dictionary; chunks the default dictionary cannot be trained for are stored snappy-compressed.
func (e *vc06Env) writeArchiveDicts(src chunkSource, recs []vc06Chunk, m *vc06Model) (chunkSource, *vc06Model, int, error) {
	aw, err := newArchiveWriter(e.tmp)
	if err != nil {
		return nil, nil, 0, err
	}
	cleanup := func() { aw.output.finish(); os.Remove(aw.path) }
	out := vc06NewModel()
	dicts := 0

	// default dictionary from a sample of the set
	var samples []*chunks.Chunk
	for i, h := range m.sorted() {
		if i%3 == 0 && len(samples) < 200 {
			ch := chunks.NewChunkWithHash(h, m.data[h])
			samples = append(samples, &ch)
		}
	}
	var defDict []byte
	if len(samples) > 0 {
		defDict = buildDictionary(padSamples(samples))
	}
	var defC *gozstd.CDict
	var defID uint32
	if len(defDict) > 0 {
		defC, err = gozstd.NewCDict(defDict)
		if err != nil {
			cleanup()
			return nil, nil, 0, err
		}
	}
	// the default dictionary span is written on first use: a byte span that no chunk references is not a legal archive
	useDefault := func() (uint32, error) {
		if defID != 0 {
			return defID, nil
		}
		id, err := aw.writeByteSpan(gozstd.Compress(nil, defDict))
		if err == nil {
			defID = id
			dicts++
		}
		return id, err
	}

	// groups of similar honest chunks get their own dictionary through the chunkGroup machinery
	groups := map[int]hash.HashSet{}
	for _, ch := range recs {
		if ch.group > 0 {
			if groups[ch.group] == nil {
				groups[ch.group] = hash.NewHashSet()
			}
			groups[ch.group].Insert(ch.h)
		}
	}
	var gids []int
	for g := range groups {
		gids = append(gids, g)
	}
	sort.Ints(gids)
	if defC != nil {
		cache, err := newSimpleChunkSourceCache(src)
		if err != nil {
			cleanup()
			return nil, nil, 0, err
		}
		trained := 0
		for _, g := range gids {
			if len(groups[g]) < 2 || trained >= 2 { // dictionary training is the dominant cost; two group dictionaries per file
				continue
			}
			trained++
			cg, err := newChunkGroup(e.ctx, cache, groups[g], defC, &Stats{})
			if err != nil {
				cleanup()
				return nil, nil, 0, fmt.Errorf("newChunkGroup: %w", err)
			}
			if len(cg.dict) == 0 {
				continue
			}
			dictID, err := aw.writeByteSpan(gozstd.Compress(nil, cg.dict))
			if err != nil {
				cleanup()
				return nil, nil, 0, err
			}
			dicts++
			for _, sc := range cg.chks {
				h := sc.chunkId
				d, ok := m.data[h]
				if !ok {
					cleanup()
					return nil, nil, 0, fmt.Errorf("chunk group returned unknown chunk id %s", h)
				}
				if aw.chunkSeen(h) {
					continue
				}
				dataID, err := aw.writeByteSpan(gozstd.CompressDict(nil, d, cg.cDict))
				if err != nil {
					cleanup()
					return nil, nil, 0, err
				}
				if err := aw.stageZStdChunk(h, dictID, dataID); err != nil {
					cleanup()
					return nil, nil, 0, err
				}
				out.add(vc06Chunk{h: h, data: d, forged: m.forged[h]}, 1)
			}
		}
	}
	// everything else: default dictionary, or snappy (format version 2+ mixes both)
	for i, h := range m.sorted() {
		if aw.chunkSeen(h) {
			continue
		}
		d := m.data[h]
		if defC != nil && i%4 != 0 {
			dictID, err := useDefault()
			if err != nil {
				cleanup()
				return nil, nil, 0, err
			}
			dataID, err := aw.writeByteSpan(gozstd.CompressDict(nil, d, defC))
			if err != nil {
				cleanup()
				return nil, nil, 0, err
			}
			err = aw.stageZStdChunk(h, dictID, dataID)
			if err != nil {
				cleanup()
				return nil, nil, 0, err
			}
		} else {
			cc := ChunkToCompressedChunk(chunks.NewChunkWithHash(h, d))
			dataID, err := aw.writeByteSpan(cc.FullCompressedChunk)
			if err != nil {
				cleanup()
				return nil, nil, 0, err
			}
			if err := aw.stageSnappyChunk(h, dataID); err != nil {
				cleanup()
				return nil, nil, 0, err
			}
		}
		out.add(vc06Chunk{h: h, data: d, forged: m.forged[h]}, 1)
	}
	if err := indexFinalizeFlushArchive(aw, e.dir, src.hash()); err != nil {
		cleanup()
		return nil, nil, 0, err
	}
	name, err := aw.getName()
	if err != nil {
		return nil, nil, 0, err
	}
	cs, err := e.open(name, uint32(len(out.data)))
	return cs, out, dicts, err
}

// archive (or table) -> table through CmpChunkTableWriter fed with ToChunkers (ArchiveToChunker is re-compressed).
func (e *vc06Env) writeTableFrom(src chunkSource, m *vc06Model) (chunkSource, *vc06Model, error) {
	got, err := e.allCompressed(src, m)
	if err != nil {
		return nil, nil, fmt.Errorf("reading source: %w", err)
	}
	w, err := NewCmpChunkTableWriter(e.tmp)
	if err != nil {
		return nil, nil, err
	}
	defer w.Remove()
	out := vc06NewModel()
	for _, tc := range got {
		h := tc.Hash()
		if _, ok := out.data[h]; ok {
			continue
		}
		if _, err := w.AddChunk(tc); err != nil {
			w.Cancel()
			return nil, nil, err
		}
		out.add(vc06Chunk{h: h, data: m.data[h], forged: m.forged[h]}, 1)
	}
	_, name, err := w.Finish()
	if err != nil {
		w.Cancel()
		return nil, nil, err
	}
	if err := w.FlushToFile(filepath.Join(e.dir, name)); err != nil {
		return nil, nil, err
	}
	cs, err := e.open(hash.Parse(name), uint32(len(out.data)))
	return cs, out, err
}

func (e *vc06Env) conjoin(srcs []chunkSource, models []*vc06Model) (chunkSource, *vc06Model, error) {
	e.note = ""
	for k, s := range srcs {
		recs, _ := models[k].total()
		e.note += fmt.Sprintf("%s%s(%T,count=%d,distinct=%d,records=%d) ", s.hash(), s.suffix(), s, s.count(), len(models[k].data), recs)
	}
	cs, _, err := e.p.ConjoinAll(e.ctx, dherrors.FatalBehaviorError, chunkSources(srcs), &Stats{})
	if err != nil {
		return nil, nil, err
	}
	e.opened = append(e.opened, cs)
	u := vc06NewModel()
	for _, m := range models {
		u.union(m)
	}
	return cs, u, nil
}

// ---- the oracle ------------------------------------------------------------------------------------

func vc06IsArchive(cs chunkSource) bool {
	_, ok := cs.(*archiveChunkSource)
	return ok
}

// check compares every reader entry point of cs with the model m.
func (e *vc06Env) check(kind string, cs chunkSource, m *vc06Model, r *rand.Rand) {
	c := e.c
	c.Count("c06.files_checked", 1)
	c.Count("c06.files."+kind, 1)
	isArc := vc06IsArchive(cs)
	present := m.sorted()
	records, rawLen := m.total()
	w := func(h hash.Hash) map[string]any {
		return map[string]any{"address": h.String(), "forged": m.forged[h], "file": cs.hash().String() + cs.suffix(),
			"chunks_in_file": len(present), "records_in_file": records, "case": e.caseID, "sources": e.note}
	}

	// count / uncompressedLen
	if got := cs.count(); int(got) != records {
		e.viol(kind, "count", fmt.Sprintf("count()=%d, file was written with %d records (%d distinct addresses)", got, records, len(present)), w(hash.Hash{}))
	}
	if ul, err := cs.uncompressedLen(); err != nil {
		if !isArc {
			e.viol(kind, "uncompressedLen", "error "+err.Error(), w(hash.Hash{}))
		} else {
			c.Count("c06.uncompressedLen_unsupported_by_archive", 1)
		}
	} else if ul != rawLen {
		e.viol(kind, "uncompressedLen", fmt.Sprintf("uncompressedLen()=%d, sum of the written chunk lengths is %d", ul, rawLen), w(hash.Hash{}))
	}

	// probe set: every present address + neighbours of a sample + random + same-prefix non-members
	prefixCount := map[uint64]int{}
	for _, h := range present {
		prefixCount[h.Prefix()]++
	}
	absent := hash.NewHashSet()
	step := 1
	if len(present) > 96 {
		step = len(present) / 96
	}
	for i := 0; i < len(present); i += step {
		for _, nb := range vc06Neighbours(present[i]) {
			if _, ok := m.data[nb]; !ok {
				absent.Insert(nb)
			}
		}
	}
	for i := 0; i < 12; i++ {
		var h hash.Hash
		r.Read(h[:])
		if _, ok := m.data[h]; !ok {
			absent.Insert(h)
		}
	}
	all := hash.NewHashSet()
	for _, h := range present {
		all.Insert(h)
		if prefixCount[h.Prefix()] >= 2 {
			e.nonviz.collisionHits++
		}
	}
	for h := range absent {
		all.Insert(h)
		if prefixCount[h.Prefix()] >= 1 {
			e.nonviz.absentPresentPrefix++
		}
	}
	c.Count("c06.addresses_probed", len(all))

	// has / get, one address at a time
	for h := range all {
		want, isPresent := m.data[h]
		ok, _, err := cs.has(h, nil)
		if err != nil {
			e.viol(kind, "has", "error "+err.Error(), w(h))
		} else if ok != isPresent {
			e.viol(kind, "has", fmt.Sprintf("has(%s)=%v but written=%v", h, ok, isPresent), w(h))
		}
		got, _, err := cs.get(e.ctx, h, nil, &Stats{})
		if err != nil {
			e.viol(kind, "get", "error "+err.Error(), w(h))
		} else if isPresent && got == nil {
			e.viol(kind, "get", fmt.Sprintf("get(%s) = absent, but the chunk was written", h), w(h))
		} else if !isPresent && got != nil {
			e.viol(kind, "get", fmt.Sprintf("get(%s) returned %d bytes for an address never written", h, len(got)), w(h))
		} else if isPresent && !bytes.Equal(got, want) {
			e.viol(kind, "get", fmt.Sprintf("get(%s) returned %d bytes differing from the %d bytes written", h, len(got), len(want)), w(h))
		}
	}

	// hasMany (records sorted by prefix, as the callers guarantee)
	{
		recs := toHasRecords(all.Copy())
		remaining, _, err := cs.hasMany(recs, nil)
		if err != nil {
			e.viol(kind, "hasMany", "error "+err.Error(), w(hash.Hash{}))
		} else {
			anyAbsent := false
			for _, rec := range recs {
				_, isPresent := m.data[*rec.a]
				if rec.has != isPresent {
					e.viol(kind, "hasMany", fmt.Sprintf("hasMany: %s has=%v but written=%v", *rec.a, rec.has, isPresent), w(*rec.a))
				}
				if !isPresent {
					anyAbsent = true
				}
			}
			if remaining != anyAbsent {
				e.viol(kind, "hasMany", fmt.Sprintf("hasMany remaining=%v but absent addresses requested=%v", remaining, anyAbsent), w(hash.Hash{}))
			}
		}
	}

	// getMany / getManyCompressed
	type delivery struct {
		h    hash.Hash
		data []byte
		err  error
	}
	verifyMany := func(entry string, run func(reqs []getRecord, eg *errgroup.Group, ctx context.Context, sink func(delivery)) (bool, error)) {
		reqs := toGetRecords(all.Copy())
		eg, ectx := errgroup.WithContext(e.ctx)
		var mu sync.Mutex
		var got []delivery
		remaining, err := run(reqs, eg, ectx, func(d delivery) {
			mu.Lock()
			got = append(got, d)
			mu.Unlock()
		})
		if werr := eg.Wait(); err == nil {
			err = werr
		}
		if err != nil {
			e.viol(kind, entry, "error "+err.Error(), w(hash.Hash{}))
			return
		}
		anyAbsent := false
		for _, rq := range reqs {
			_, isPresent := m.data[*rq.a]
			if rq.found != isPresent {
				e.viol(kind, entry, fmt.Sprintf("%s: request %s found=%v but written=%v", entry, *rq.a, rq.found, isPresent), w(*rq.a))
			}
			if !isPresent {
				anyAbsent = true
			}
		}
		if remaining != anyAbsent {
			e.viol(kind, entry, fmt.Sprintf("%s remaining=%v but absent addresses requested=%v", entry, remaining, anyAbsent), w(hash.Hash{}))
		}
		// Deliveries. archiveChunkSource.getMany builds its result with chunks.NewChunk(raw), i.e. it re-derives the
		// address from the content; with forged addresses the delivered Hash() is therefore the content hash. Such
		// deliveries are matched by content (guard-rail: forged addresses are a device of this harness).
		byContent := isArc && entry == "getMany"
		got2 := map[hash.Hash]int{}
		for _, d := range got {
			if d.err != nil {
				e.viol(kind, entry, "ToChunk error "+d.err.Error(), w(d.h))
				continue
			}
			if byContent {
				if computeAddr(d.data) != d.h {
					e.viol(kind, entry, fmt.Sprintf("%s delivered %d bytes under %s which is neither a requested address with those bytes nor their content hash", entry, len(d.data), d.h), w(d.h))
					continue
				}
				got2[d.h]++
				continue
			}
			want, ok := m.data[d.h]
			if !ok {
				e.viol(kind, entry, fmt.Sprintf("%s delivered address %s that was never written / not requested", entry, d.h), w(d.h))
			} else if !bytes.Equal(want, d.data) {
				e.viol(kind, entry, fmt.Sprintf("%s delivered %d bytes for %s that differ from the %d bytes written", entry, len(d.data), d.h, len(want)), w(d.h))
			} else {
				got2[d.h]++
			}
		}
		exp := map[hash.Hash]int{}
		for _, h := range present {
			if byContent {
				exp[computeAddr(m.data[h])]++
				if m.forged[h] {
					c.Count("c06.archive_getMany_forged_matched_by_content", 1)
				}
			} else {
				exp[h]++
			}
		}
		for h, n := range exp {
			if got2[h] != n {
				e.viol(kind, entry, fmt.Sprintf("%s delivered chunk %s %d time(s), expected %d (one per requested present address)", entry, h, got2[h], n), w(h))
			}
		}
		for h, n := range got2 {
			if exp[h] == 0 {
				e.viol(kind, entry, fmt.Sprintf("%s delivered %d unexpected chunk(s) %s", entry, n, h), w(h))
			}
		}
	}
	verifyMany("getMany", func(reqs []getRecord, eg *errgroup.Group, ctx context.Context, sink func(delivery)) (bool, error) {
		rem, _, err := cs.getMany(ctx, eg, reqs, func(_ context.Context, ch *chunks.Chunk) {
			sink(delivery{h: ch.Hash(), data: append([]byte(nil), ch.Data()...)})
		}, nil, &Stats{})
		return rem, err
	})
	verifyMany("getManyCompressed", func(reqs []getRecord, eg *errgroup.Group, ctx context.Context, sink func(delivery)) (bool, error) {
		rem, _, err := cs.getManyCompressed(ctx, eg, reqs, func(_ context.Context, tc ToChunker) {
			ch, err := tc.ToChunk()
			if err != nil {
				sink(delivery{h: tc.Hash(), err: err})
				return
			}
			if ch.Hash() != tc.Hash() {
				sink(delivery{h: tc.Hash(), err: fmt.Errorf("ToChunker.Hash()=%s but ToChunk().Hash()=%s", tc.Hash(), ch.Hash())})
				return
			}
			sink(delivery{h: ch.Hash(), data: append([]byte(nil), ch.Data()...)})
		}, nil, &Stats{})
		return rem, err
	})

	// iterateAllChunks: exactly the written records, duplicates included
	{
		seen := map[hash.Hash]int{}
		var mu sync.Mutex
		err := cs.iterateAllChunks(e.ctx, func(ch chunks.Chunk) {
			mu.Lock()
			defer mu.Unlock()
			h := ch.Hash()
			seen[h]++
			want, ok := m.data[h]
			if !ok {
				e.viol(kind, "iterateAllChunks", fmt.Sprintf("iteration produced address %s that was never written", h), w(h))
			} else if !bytes.Equal(want, ch.Data()) {
				e.viol(kind, "iterateAllChunks", fmt.Sprintf("iteration returned %d bytes for %s differing from the %d written", len(ch.Data()), h, len(want)), w(h))
			}
		}, &Stats{})
		if err != nil {
			e.viol(kind, "iterateAllChunks", "error "+err.Error(), w(hash.Hash{}))
		} else {
			for _, h := range present {
				if seen[h] != m.copies[h] {
					e.viol(kind, "iterateAllChunks", fmt.Sprintf("iteration produced %s %d time(s), the file holds %d record(s) of it", h, seen[h], m.copies[h]), w(h))
				}
			}
		}
	}
}

func (e *vc06Env) closeAll() {
	for _, cs := range e.opened {
		cs.close()
	}
	e.opened = nil
}

// ---- driver ----------------------------------------------------------------------------------------

func vc06Size(r *rand.Rand, i int, thorough bool) int {
	switch i % 10 {
	case 0:
		return []int{0, 1, 2, 3}[(i/10)%4]
	case 1, 2, 3:
		return 2 + r.Intn(40)
	case 4, 5, 6:
		return 30 + r.Intn(300)
	case 7:
		return 300 + r.Intn(700)
	case 8:
		return 1000 + r.Intn(400) // >= maxSamples: ArchiveStreamWriter trains a dictionary
	default:
		if thorough || i%20 == 9 {
			return 1500 + r.Intn(1501)
		}
		return 1000 + r.Intn(600)
	}
}

func TestVerifC06(t *testing.T) {
	c := vNew()
	defer c.Done()
	c.Rule("PRNG chunk multisets of 0..3000 records (duplicates, 1-byte/compressible/incompressible bodies, >=30% forged families sharing " +
		"an 8-byte prefix, runs of consecutive prefixes, all-zero/all-ones prefixes, same content under two addresses); each set is split " +
		"into 1-4 parts written by memTable+Persist / raw tableWriter / CmpChunkTableWriter, converted table->archive (ArchiveStreamWriter " +
		"snappy and trained-dictionary modes, archiveWriter with chunk-group dictionaries), archive->archive, archive->table and conjoined " +
		"(table+table, archive+archive, table+archive) by fsTablePersister.ConjoinAll; every file is re-opened and has/hasMany/get/getMany/" +
		"getManyCompressed/iterateAllChunks/count/uncompressedLen are compared with the model on all written + neighbouring + random " +
		"addresses. A set is distinct/non-trivial when its (size class, part layout, file kinds produced) differs and at least one lookup " +
		"hit an index slot whose prefix is shared by >=2 entries")
	c.Assume("forged addresses (NewChunkWithHash) are legal inputs to table files/archives: the writers never re-hash; the two places that do " +
		"(archiveChunkSource.getMany, simpleChunkSourceCache.get) are matched by content / fed honest chunks only")
	c.Assume("files with zero chunks are outside the domain: production never writes them (memTable.write refuses, gcCopier and persistTable skip " +
		"them, toSpecs rejects them); an empty raw table file is still opened and probed, empty archives are not produced")
	c.Assume("zero-length chunks are outside the input domain: memTable.addChunk / tableWriter.addChunk / CmpChunkTableWriter.AddChunk refuse them " +
		"with a panic by contract; the monitor checks the refusal and uses 1-byte chunks as the smallest bodies")
	c.Assume("this tree has no BuildArchive entry point any more; its remaining primitives (chunkGroup, buildDictionary, archiveWriter staging, " +
		"indexFinalizeFlushArchive) are driven directly. Real (SHA-512) 8-byte-prefix colliding pairs are not available; forged families stand in")

	ctx := context.Background()
	// zero-length refusal
	func() {
		defer func() {
			if r := recover(); r != nil {
				c.Count("c06.zero_length_refused", 1)
			}
		}()
		tw := newTableWriter(make([]byte, 256), nil)
		tw.addChunk(hash.Hash{1}, nil)
		c.Violation("c06/table-raw/zero-length-accepted", "tableWriter.addChunk accepted a zero-length chunk", nil)
	}()

	n := c.Pick(150, 3000)
	totalCollision, totalAbsentPrefix := 0, 0
	only := -1
	if v := os.Getenv("VERIF_C06_ONLY"); v != "" { // replay aid: run a single set
		fmt.Sscan(v, &only)
	}
	for i := 0; i < n; i++ {
		if only >= 0 && i != only {
			continue
		}
		r := c.SubRand("c06/set", i)
		size := vc06Size(r, i, c.Thorough())
		maxBody := 600
		if size > 800 {
			maxBody = 200
		}
		if c.Thorough() && r.Intn(12) == 0 && size < 300 {
			maxBody = 70_000
		}
		mmap := r.Intn(2) == 0
		parts := 1 + r.Intn(4)
		if size < parts {
			parts = 1
		}
		name := fmt.Sprintf("c06/set/%d", i)
		c.Case(name, map[string]any{"records": size, "parts": parts, "mmap_archive_index": mmap, "max_body": maxBody})
		recs := vc06GenSet(r, size, maxBody)

		dir, err := os.MkdirTemp(c.Dir, "c06-")
		if err != nil {
			c.Inconclusive("infra: " + err.Error())
			return
		}
		tmp := filepath.Join(dir, "tmp")
		os.MkdirAll(tmp, 0o755)
		e := &vc06Env{c: c, dir: dir, tmp: tmp, ctx: ctx, caseID: name,
			p: newFSTablePersister(dir, NewUnlimitedMemQuotaProvider(), mmap).(*fsTablePersister)}
		var shape []string

		func() {
			defer os.RemoveAll(dir)
			defer e.closeAll()
			// split
			var partRecs [][]vc06Chunk
			for p := 0; p < parts; p++ {
				lo, hi := p*len(recs)/parts, (p+1)*len(recs)/parts
				partRecs = append(partRecs, recs[lo:hi])
			}
			var tables []chunkSource
			var tableModels []*vc06Model
			var archives []chunkSource
			var archiveModels []*vc06Model
			for p, pr := range partRecs {
				route := (i + p) % 3
				if len(pr) == 0 {
					route = 1 // only the raw writer can express an empty table file
				}
				var cs chunkSource
				var m *vc06Model
				var err error
				var kind string
				switch route {
				case 0:
					kind = "table-persist"
					cs, m, err = e.writePersist(pr)
				case 1:
					kind = "table-raw"
					cs, m, err = e.writeRaw(pr)
				default:
					kind = "table-cmp"
					cs, m, err = e.writeCmp(pr)
				}
				if err != nil {
					e.viol(kind, "write-error", err.Error(), map[string]any{"records": len(pr), "case": name})
					return
				}
				shape = append(shape, kind)
				e.check(kind, cs, m, r)
				tables = append(tables, cs)
				tableModels = append(tableModels, m)

				// table -> archive
				if len(m.data) > 0 {
					acs, am, mode, err := e.writeArchiveStream(cs, m, r)
					akind := "archive-stream-" + mode
					if err != nil {
						if mode == "" {
							akind = "archive-stream"
						}
						e.viol(akind, "write-error", err.Error(), map[string]any{"records": len(pr), "distinct": len(m.data), "case": name})
					} else {
						shape = append(shape, akind)
						e.check(akind, acs, am, r)
						archives = append(archives, acs)
						archiveModels = append(archiveModels, am)
					}
				}
				if (i+p)%2 == 0 && len(m.data) > 0 {
					acs, am, nd, err := e.writeArchiveDicts(cs, pr, m)
					if err != nil {
						e.viol("archive-dict", "write-error", err.Error(), map[string]any{"records": len(pr), "case": name})
					} else {
						shape = append(shape, fmt.Sprintf("archive-dict%d", min(nd, 3)))
						c.Count("c06.dictionaries_written", nd)
						e.check("archive-dict", acs, am, r)
						archives = append(archives, acs)
						archiveModels = append(archiveModels, am)
					}
				}
			}
			// archive -> archive and archive -> table
			if len(archives) > 0 {
				k := r.Intn(len(archives))
				acs, am, mode, err := e.writeArchiveStream(archives[k], archiveModels[k], r)
				if err != nil {
					e.viol("archive-from-archive", "write-error", err.Error(), map[string]any{"case": name})
				} else {
					shape = append(shape, "archive-from-archive-"+mode)
					e.check("archive-from-archive", acs, am, r)
				}
				if len(archiveModels[k].data) > 0 {
					tcs, tm, err := e.writeTableFrom(archives[k], archiveModels[k])
					if err != nil {
						e.viol("table-from-archive", "write-error", err.Error(), map[string]any{"case": name})
					} else {
						shape = append(shape, "table-from-archive")
						e.check("table-from-archive", tcs, tm, r)
					}
				}
			}
			// conjoins (sources with at least one chunk; ConjoinAll of chunk-less inputs yields emptyChunkSource)
			nonEmpty := func(css []chunkSource, ms []*vc06Model) ([]chunkSource, []*vc06Model) {
				var a []chunkSource
				var b []*vc06Model
				for k := range css {
					if len(ms[k].data) > 0 {
						a = append(a, css[k])
						b = append(b, ms[k])
					}
				}
				return a, b
			}
			tcs, tms := nonEmpty(tables, tableModels)
			acs, ams := nonEmpty(archives, archiveModels)
			if len(tcs) >= 2 {
				cs, m, err := e.conjoin(tcs, tms)
				if err != nil {
					e.viol("conjoin-table", "write-error", err.Error(), map[string]any{"case": name, "sources": len(tcs)})
				} else {
					if vc06IsArchive(cs) {
						e.viol("conjoin-table", "write-error", "conjoin of table files produced an archive", nil)
					}
					shape = append(shape, fmt.Sprintf("conjoin-table%d", len(tcs)))
					e.check("conjoin-table", cs, m, r)
				}
			}
			if len(acs) >= 2 {
				cs, m, err := e.conjoin(acs, ams)
				if err != nil {
					e.viol("conjoin-archive", "write-error", err.Error(), map[string]any{"case": name, "sources": len(acs)})
				} else {
					shape = append(shape, fmt.Sprintf("conjoin-archive%d", min(len(acs), 4)))
					e.check("conjoin-archive", cs, m, r)
					// a conjoined archive conjoined again with a table file
					if len(tcs) >= 1 {
						cs2, m2, err := e.conjoin([]chunkSource{cs, tcs[0]}, []*vc06Model{m, tms[0]})
						if err != nil {
							e.viol("conjoin-mixed", "write-error", err.Error(), map[string]any{"case": name})
						} else {
							shape = append(shape, "conjoin-conjoined+table")
							e.check("conjoin-mixed", cs2, m2, r)
						}
					}
				}
			}
			if len(acs) >= 1 && len(tcs) >= 1 {
				var srcs []chunkSource
				var ms []*vc06Model
				for k := range tcs {
					srcs = append(srcs, tcs[k])
					ms = append(ms, tms[k])
				}
				na := 1 + r.Intn(len(acs))
				for k := 0; k < na; k++ {
					srcs = append(srcs, acs[k])
					ms = append(ms, ams[k])
				}
				r.Shuffle(len(srcs), func(a, b int) { srcs[a], srcs[b] = srcs[b], srcs[a]; ms[a], ms[b] = ms[b], ms[a] })
				cs, m, err := e.conjoin(srcs, ms)
				if err != nil {
					e.viol("conjoin-mixed", "write-error", err.Error(), map[string]any{"case": name, "sources": len(srcs)})
				} else {
					if !vc06IsArchive(cs) {
						e.viol("conjoin-mixed", "write-error", "conjoin of table+archive did not produce an archive", nil)
					}
					shape = append(shape, fmt.Sprintf("conjoin-mixed-t%da%d", len(tcs), na))
					e.check("conjoin-mixed", cs, m, r)
				}
			}
		}()
		c.Count("c06.sets", 1)
		if c.viols > 60 {
			c.Note("stopped early: more than 60 violations")
			break
		}
		c.Count("c06.records_written", len(recs))
		c.Count("c06.prefix_collision_lookups", e.nonviz.collisionHits)
		c.Count("c06.absent_probes_with_present_prefix", e.nonviz.absentPresentPrefix)
		totalCollision += e.nonviz.collisionHits
		totalAbsentPrefix += e.nonviz.absentPresentPrefix
		if e.nonviz.collisionHits > 0 && e.nonviz.absentPresentPrefix > 0 {
			c.Distinct(fmt.Sprintf("%d/%d/%v", i%10, parts, shape))
		}
		c.Sample(map[string]any{"case": name, "records": len(recs), "parts": parts, "files": shape,
			"prefix_collision_lookups": e.nonviz.collisionHits, "absent_probes_with_present_prefix": e.nonviz.absentPresentPrefix})
	}
	c.Require(totalCollision > 0, "no lookup hit an index slot whose 8-byte prefix is shared by >= 2 entries")
	c.Require(totalAbsentPrefix > 0, "no absent probe had a prefix present in the file")
}
