package main

import (
	"verif/engines/vtables"
	"verif/rig"
)

func main() { rig.Main(vtables.Register) }
