// vh is the single harness binary: `vh run <Cnn> <quick|thorough>` supervises a check,
// `vh worker ...` is the child it re-executes, `vh list` prints the registered properties.
package main

import (
	"encoding/json"
	"fmt"
	"os"
	"strconv"

	"verif/engines"
	"verif/rig"
)

func seedFromEnv() int64 {
	if v := os.Getenv("VERIF_SEED"); v != "" {
		if n, err := strconv.ParseInt(v, 10, 64); err == nil {
			return n
		}
	}
	return 1
}

func main() {
	engines.RegisterAll()
	if len(os.Args) < 2 {
		fmt.Fprintln(os.Stderr, "usage: vh run <prop> <tier> | vh replay <prop> <file> | vh list")
		os.Exit(2)
	}
	switch os.Args[1] {
	case "list":
		for _, p := range rig.Props() {
			fmt.Println(p)
		}
	case "needs-race":
		s := rig.Lookup(os.Args[2])
		if s != nil {
			for _, st := range s.Stages {
				if st.Race && st.Fn != nil {
					fmt.Println("yes")
					return
				}
			}
		}
		fmt.Println("no")
	case "run":
		tier := "quick"
		if len(os.Args) > 3 {
			tier = os.Args[3]
		}
		os.Exit(rig.Supervise(os.Args[2], tier, seedFromEnv()))
	case "replay":
		b, err := os.ReadFile(os.Args[3])
		if err != nil {
			fmt.Fprintln(os.Stderr, err)
			os.Exit(2)
		}
		var r struct {
			Tier string `json:"tier"`
			Seed int64  `json:"seed"`
		}
		json.Unmarshal(b, &r)
		os.Exit(rig.Supervise(os.Args[2], r.Tier, r.Seed))
	case "worker":
		seed, _ := strconv.ParseInt(os.Args[5], 10, 64)
		os.Exit(rig.WorkerMain(os.Args[2], os.Args[3], os.Args[4], seed))
	default:
		// engine-specific sub-commands (helper processes spawned by monitors)
		if fn, ok := rig.SubCommands[os.Args[1]]; ok {
			os.Exit(fn(os.Args[2:]))
		}
		fmt.Fprintln(os.Stderr, "unknown command", os.Args[1])
		os.Exit(2)
	}
}
