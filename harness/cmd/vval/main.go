package main

import (
	"verif/engines/vval"
	"verif/rig"
)

func main() { rig.Main(vval.Register) }
