package main

import (
	"verif/engines/vcas"
	"verif/rig"
)

func main() { rig.Main(vcas.Register) }
