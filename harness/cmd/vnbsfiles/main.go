package main

import (
	"verif/engines/vnbsfiles"
	"verif/rig"
)

func main() { rig.Main(vnbsfiles.Register) }
