package main

import (
	"verif/engines/vprolly"
	"verif/rig"
)

func main() { rig.Main(vprolly.Register) }
