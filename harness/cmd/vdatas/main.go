package main

import (
	"verif/engines/vdatas"
	"verif/rig"
)

func main() { rig.Main(vdatas.Register) }
