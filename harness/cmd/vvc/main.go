package main

import (
	"verif/engines/vvc"
	"verif/rig"
)

func main() { rig.Main(vvc.Register) }
