package main

import (
	"verif/engines/vstore"
	"verif/rig"
)

func main() { rig.Main(vstore.Register) }
