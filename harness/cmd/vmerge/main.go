package main

import (
	"verif/engines/vmerge"
	"verif/rig"
)

func main() { rig.Main(vmerge.Register) }
