package main

import (
	"verif/engines/vcluster"
	"verif/rig"
)

func main() { rig.Main(vcluster.Register) }
