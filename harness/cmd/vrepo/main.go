package main

import (
	"verif/engines/vrepo"
	"verif/rig"
)

func main() { rig.Main(vrepo.Register) }
