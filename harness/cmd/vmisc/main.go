package main

import (
	"verif/engines/vmisc"
	"verif/rig"
)

func main() { rig.Main(vmisc.Register) }
