package main

import (
	"verif/engines/vwalk"
	"verif/rig"
)

func main() { rig.Main(vwalk.Register) }
