package main

import (
	"bufio"
	"fmt"
	"os"
	"strings"

	"verif/sqlrig"
)

func main() {
	dir := os.Args[1]
	srv, err := sqlrig.Start(dir + "/data")
	if err != nil {
		panic(err)
	}
	x := srv.MustOpen("")
	sc := bufio.NewScanner(os.Stdin)
	sc.Buffer(make([]byte, 1<<20), 1<<24)
	for sc.Scan() {
		q := strings.TrimSpace(sc.Text())
		if q == "" || strings.HasPrefix(q, "--") {
			continue
		}
		fmt.Println(">", q)
		r, err := x.Query(q)
		if err != nil {
			fmt.Println("  ERR:", err)
			continue
		}
		for _, row := range r.Data {
			for i := range row {
				if row[i] == sqlrig.Null {
					row[i] = "NULL"
				}
			}
			fmt.Println("  ", strings.Join(row, " | "))
		}
	}
	x.Close()
	srv.Stop()
}
