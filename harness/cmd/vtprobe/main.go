package main

import (
	"bufio"
	"fmt"
	"os"
	"strings"

	"verif/sqlrig"
)

// usage: vtprobe <dir> < script.sql   (one statement per line; lines starting with -- are echoed; "!restart" restarts)
func main() {
	dir := os.Args[1]
	srv, err := sqlrig.Start(dir + "/data")
	if err != nil {
		panic(err)
	}
	x := srv.MustOpen("")
	sc := bufio.NewScanner(os.Stdin)
	sc.Buffer(make([]byte, 1<<20), 1<<24)
	for sc.Scan() {
		q := strings.TrimSpace(sc.Text())
		if q == "" {
			continue
		}
		if strings.HasPrefix(q, "--") {
			fmt.Println(q)
			continue
		}
		if q == "!restart" {
			x.Close()
			srv.Stop()
			srv, err = sqlrig.Start(dir + "/data")
			if err != nil {
				panic(err)
			}
			x = srv.MustOpen("")
			fmt.Println("RESTARTED")
			continue
		}
		fmt.Println(">", q)
		r, err := x.Query(q)
		if err != nil {
			fmt.Println("  ERR:", err)
			continue
		}
		if len(r.Cols) > 0 {
			fmt.Println("  cols:", strings.Join(r.Cols, " | "))
		}
		for _, row := range r.Data {
			for i := range row {
				if row[i] == sqlrig.Null {
					row[i] = "NULL"
				}
			}
			fmt.Println("  ", strings.Join(row, " | "))
		}
	}
	x.Close()
	srv.Stop()
}
