package main

import (
	"context"
	"encoding/json"
	"fmt"

	"github.com/dolthub/go-mysql-server/sql"
	gmstypes "github.com/dolthub/go-mysql-server/sql/types"

	"github.com/dolthub/dolt/go/libraries/doltcore/merge"
	"github.com/dolthub/dolt/go/store/prolly/tree"
)

var ctx = context.Background()
var ns = tree.NewTestNodeStore()

func parse(s string) any {
	var v any
	if err := json.Unmarshal([]byte(s), &v); err != nil {
		panic(err)
	}
	return v
}
func mem(s string) sql.JSONWrapper { return gmstypes.JSONDocument{Val: parse(s)} }
func stored(s string) sql.JSONWrapper {
	root, err := tree.SerializeJsonToAddr(ctx, ns, mem(s))
	if err != nil {
		panic(err)
	}
	return tree.NewIndexedJsonDocument(root, ns)
}
func show(w sql.JSONWrapper) string {
	if w == nil {
		return "<nil>"
	}
	v, err := w.ToInterface(ctx)
	if err != nil {
		return "ERR " + err.Error()
	}
	b, _ := gmstypes.MarshallJsonValue(v)
	return string(b)
}
func m(name, b, l, r string) {
	for _, mk := range []struct {
		n string
		f func(string) sql.JSONWrapper
	}{{"stored", stored}, {"in-memory", mem}} {
		res, conflict, err := merge.MergeJSON(ctx, ns, mk.f(b), mk.f(l), mk.f(r))
		fmt.Printf("%s [%s]: base=%s left=%s right=%s => conflict=%v err=%v result=%s\n", name, mk.n, b, l, r, conflict, err, func() string {
			if err != nil || conflict {
				return "-"
			}
			return show(res)
		}())
	}
}
func op(name, doc, kind, path, val string) {
	defer func() {
		if p := recover(); p != nil {
			fmt.Printf("%s: %s(%s, %s, %s) PANIC %v\n", name, kind, doc, path, val, p)
		}
	}()
	for _, mk := range []struct {
		n string
		f func(string) sql.JSONWrapper
	}{{"in-memory", mem}, {"stored", stored}} {
		d := mk.f(doc).(gmstypes.MutableJSON)
		var out gmstypes.MutableJSON
		var ch bool
		var err error
		switch kind {
		case "Set":
			out, ch, err = d.Set(ctx, path, mem(val))
		case "Insert":
			out, ch, err = d.Insert(ctx, path, mem(val))
		case "Replace":
			out, ch, err = d.Replace(ctx, path, mem(val))
		case "Remove":
			out, ch, err = d.Remove(ctx, path)
		}
		fmt.Printf("%s [%s]: %s(%s, %s, %s) => changed=%v err=%v result=%s\n", name, mk.n, kind, doc, path, val, ch, err, func() string {
			if err != nil {
				return "-"
			}
			return show(out)
		}())
	}
}

func main() {
	m("prefix-keys", `{"a":{"x":1},"ab":1}`, `{"a":{"x":2},"ab":2}`, `{"a":{"x":1},"ab":3}`)
	m("prefix-keys-control", `{"a":{"x":1},"b":1}`, `{"a":{"x":2},"b":2}`, `{"a":{"x":1},"b":3}`)
	m("array-shrink", `{"k":[1,2,3],"z":0}`, `{"k":[1,2,3],"z":1}`, `{"k":[],"z":0}`)
	m("array-shrink-front", `{"k":[1,2,3,4],"z":0}`, `{"k":[1,2,3,4],"z":1}`, `{"k":[3,4],"z":0}`)
	m("nested-empty-array", `{"k":[[]],"z":0}`, `{"k":[[]],"z":1}`, `{"k":[[true]],"z":0}`)
	op("panic", `[]`, "Set", "$[0]", `-823`)
	op("panic-obj", `{}`, "Set", "$[0]", `-823`)
	op("last-n", `[1,2,3]`, "Set", "$[last-1]", `9`)
	op("scalar-root", `true`, "Set", "$[1]", `9`)
	op("wrap2", `[{}]`, "Replace", "$[0][0][0]", `9`)
	op("esc-sibling", `{"a\tb":1,"a.c":2,"k":3}`, "Remove", `$."a.c"`, ``)
	op("esc-sibling-control", `{"a b":1,"a.c":2,"k":3}`, "Remove", `$."a.c"`, ``)
}
