package main

import (
	"bytes"
	"context"
	"fmt"

	"github.com/dolthub/go-mysql-server/sql"

	"github.com/dolthub/dolt/go/store/prolly/tree"
	"github.com/dolthub/dolt/go/store/val"
)

func main() {
	ctx := context.Background()
	ns := tree.NewTestNodeStore()
	mk := func(n int, seed byte) []byte {
		b := make([]byte, n)
		for i := range b {
			b[i] = byte(i*7+int(seed)) | 1
		}
		return b
	}
	// probe 1: 4000-byte value vs 8000-byte value with same prefix
	a := mk(8000, 3)
	p := a[:4000]
	oa, _ := val.NewOutOfBandAdaptiveValue(ctx, ns, a)
	op, _ := val.NewOutOfBandAdaptiveValue(ctx, ns, p)
	c, err := ns.CompareAdaptive(ctx, op, oa, val.BytesAdaptiveEnc)
	fmt.Println("probe1 CompareAdaptive(prefix4000, full8000) =", c, err, " model:", bytes.Compare(p, a))
	c, err = ns.CompareAdaptive(ctx, oa, op, val.BytesAdaptiveEnc)
	fmt.Println("probe1r =", c, err, " model:", bytes.Compare(a, p))
	// inline 4000 vs OOB 8000
	ip := val.AdaptiveValueInlineBytes(p)
	c, err = ns.CompareAdaptive(ctx, ip, oa, val.BytesAdaptiveEnc)
	fmt.Println("probe1 inline prefix vs oob full =", c, err)
	// probe 2: split rune
	s1 := bytes.Repeat([]byte("a"), 3999)
	s1 = append(s1, []byte("é")...)
	s1 = append(s1, bytes.Repeat([]byte("b"), 100)...)
	s2 := bytes.Repeat([]byte("a"), 3999)
	s2 = append(s2, []byte("ñ")...)
	s2 = append(s2, bytes.Repeat([]byte("b"), 100)...)
	o1, _ := val.NewOutOfBandAdaptiveValue(ctx, ns, s1)
	o2, _ := val.NewOutOfBandAdaptiveValue(ctx, ns, s2)
	for _, coll := range []sql.CollationID{sql.Collation_utf8mb4_0900_bin, sql.Collation_utf8mb4_0900_ai_ci, sql.Collation_utf8mb4_general_ci} {
		c, err = ns.CompareAdaptiveCollatedStrings(ctx, o1, o2, coll)
		fmt.Println("probe2", coll.Name(), "oob/oob =", c, err, " inline model:", val.CompareCollatedStrings(coll, s1, s2))
	}
	// probe 3: short reads
	_, h1, _ := tree.SerializeBytesToAddr(ctx, ns, bytes.NewReader(a), len(a))
	_, h2, _ := tree.SerializeBytesToAddr(ctx, ns, &shortReader{b: a, n: 1000}, len(a))
	fmt.Println("probe3 short-read same hash:", h1 == h2)
}

type shortReader struct {
	b []byte
	n int
}

func (s *shortReader) Read(p []byte) (int, error) {
	if len(s.b) == 0 {
		return 0, fmt.Errorf("EOF")
	}
	n := s.n
	if n > len(p) {
		n = len(p)
	}
	if n > len(s.b) {
		n = len(s.b)
	}
	copy(p, s.b[:n])
	s.b = s.b[n:]
	return n, nil
}
