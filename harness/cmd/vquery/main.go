package main

import (
	"verif/engines/vquery"
	"verif/rig"
)

func main() { rig.Main(vquery.Register) }
