package main

import (
	"verif/engines/vtx"
	"verif/rig"
)

func main() { rig.Main(vtx.Register) }
