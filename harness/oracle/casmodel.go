package oracle

import (
	"fmt"

	"github.com/anishathalye/porcupine"
)

// CASOp is the input of one operation on a compare-and-swap register (DESIGN §3.3 / Appendix A.1).
type CASOp struct {
	Kind string // "cas" | "read"
	Exp  string // expected value (cas)
	New  string // new value (cas)
}

// CASOut is the output of one operation.
type CASOut struct {
	OK  bool   // cas: succeeded
	Err bool   // cas: returned an error (must have had no effect)
	Val string // read: observed value
}

// CASRegisterModel is a porcupine model of a single CAS register holding a string.
func CASRegisterModel(initial string) porcupine.Model {
	return porcupine.Model{
		Init: func() any { return initial },
		Step: func(st, in, out any) (bool, any) {
			s := st.(string)
			op := in.(CASOp)
			o := out.(CASOut)
			switch op.Kind {
			case "cas":
				if o.Err {
					return true, s
				}
				if o.OK {
					return s == op.Exp, op.New
				}
				return s != op.Exp, s
			case "read":
				return o.Val == s, s
			}
			return false, s
		},
		DescribeOperation: func(in, out any) string { return fmt.Sprintf("%+v -> %+v", in, out) },
	}
}
