// Package oracle holds reference models and generators shared by several engines (DESIGN §3).
package oracle

import (
	"bytes"
	"context"
	"encoding/binary"
	"fmt"
	"math/rand"
	"os"
	"path/filepath"
	"sort"

	"github.com/dolthub/dolt/go/store/chunks"
	"github.com/dolthub/dolt/go/store/constants"
	"github.com/dolthub/dolt/go/store/hash"
	"github.com/dolthub/dolt/go/store/nbs"
)

var bg = context.Background()

// Remove deletes an address from the model (a chunk that was legitimately lost, e.g. uncommitted at reopen).
func (m *Model) Remove(h hash.Hash) {
	delete(m.Data, h)
	delete(m.Forged, h)
	for i, o := range m.Order {
		if o == h {
			m.Order = append(m.Order[:i], m.Order[i+1:]...)
			break
		}
	}
}

// ---- self-describing chunks (DESIGN §3.2) -------------------------------------------------------
// payload = "VR" | n(uint16) | n*20 address bytes | body. The GetAddrs curry handed to Put decodes exactly
// this, so the monitor can compute reachability closures independently of Dolt's own walkers.

func EncodeChunkData(refs []hash.Hash, body []byte) []byte {
	b := make([]byte, 0, 4+20*len(refs)+len(body))
	b = append(b, 'V', 'R')
	b = binary.BigEndian.AppendUint16(b, uint16(len(refs)))
	for _, r := range refs {
		b = append(b, r[:]...)
	}
	return append(b, body...)
}

func DecodeRefs(data []byte) []hash.Hash {
	if len(data) < 4 || data[0] != 'V' || data[1] != 'R' {
		return nil
	}
	n := int(binary.BigEndian.Uint16(data[2:4]))
	if len(data) < 4+20*n {
		return nil
	}
	out := make([]hash.Hash, n)
	for i := 0; i < n; i++ {
		copy(out[i][:], data[4+20*i:])
	}
	return out
}

func GetAddrsCurry(c chunks.Chunk) chunks.InsertAddrsCb {
	return func(ctx context.Context, addrs hash.HashSet, _ chunks.PendingRefExists) error {
		for _, r := range DecodeRefs(c.Data()) {
			addrs.Insert(r)
		}
		return nil
	}
}

func GetAddrs(c chunks.Chunk, cb func(hash.Hash) error) error {
	for _, r := range DecodeRefs(c.Data()) {
		if err := cb(r); err != nil {
			return err
		}
	}
	return nil
}

// body generators: empty, tiny, compressible, incompressible
func GenBody(r *rand.Rand, maxLen int) []byte {
	switch r.Intn(6) {
	case 0:
		return nil
	case 1:
		return []byte{byte(r.Intn(256))}
	case 2:
		n := 1 + r.Intn(maxLen)
		return bytes.Repeat([]byte{byte('a' + r.Intn(3))}, n)
	default:
		n := 1 + r.Intn(maxLen)
		if r.Intn(4) == 0 {
			n = 1 + r.Intn(64)
		}
		b := make([]byte, n)
		r.Read(b)
		return b
	}
}

// ---- chunk Model (DESIGN §3.1) ------------------------------------------------------------------

type Model struct {
	Data   map[hash.Hash][]byte
	Forged map[hash.Hash]bool
	Order  []hash.Hash
}

func NewModel() *Model { return &Model{Data: map[hash.Hash][]byte{}, Forged: map[hash.Hash]bool{}} }

func (m *Model) Add(c chunks.Chunk, forged bool) {
	h := c.Hash()
	if _, ok := m.Data[h]; !ok {
		m.Order = append(m.Order, h)
	}
	m.Data[h] = append([]byte(nil), c.Data()...)
	m.Forged[h] = forged
}

func (m *Model) Pick(r *rand.Rand) (hash.Hash, bool) {
	if len(m.Order) == 0 {
		return hash.Hash{}, false
	}
	return m.Order[r.Intn(len(m.Order))], true
}

// closure computes the set reachable from root through the self-describing encoding.
func (m *Model) Closure(root hash.Hash) (hash.HashSet, []hash.Hash) {
	seen := hash.NewHashSet()
	var missing []hash.Hash
	stack := []hash.Hash{root}
	for len(stack) > 0 {
		h := stack[len(stack)-1]
		stack = stack[:len(stack)-1]
		if seen.Has(h) {
			continue
		}
		seen.Insert(h)
		d, ok := m.Data[h]
		if !ok {
			missing = append(missing, h)
			continue
		}
		stack = append(stack, DecodeRefs(d)...)
	}
	return seen, missing
}

// ---- address forging ----------------------------------------------------------------------------

// Neighbours returns addresses adjacent to h in every sense the index structures care about: same
// 8-byte prefix / different suffix, prefix +-1, last byte +-1.
func Neighbours(h hash.Hash) []hash.Hash {
	var out []hash.Hash
	a := h
	a[19] ^= 1
	out = append(out, a)
	b := h
	b[8] ^= 0x80
	out = append(out, b)
	c := h
	c[12]++
	out = append(out, c)
	p := binary.BigEndian.Uint64(h[:8])
	d := h
	binary.BigEndian.PutUint64(d[:8], p+1)
	out = append(out, d)
	e := h
	binary.BigEndian.PutUint64(e[:8], p-1)
	out = append(out, e)
	return out
}

// ForgeFamily returns n distinct addresses sharing one 8-byte prefix.
func ForgeFamily(r *rand.Rand, n int) []hash.Hash {
	var base hash.Hash
	r.Read(base[:])
	switch r.Intn(6) {
	case 0:
		for i := 0; i < 8; i++ {
			base[i] = 0
		}
	case 1:
		for i := 0; i < 8; i++ {
			base[i] = 0xff
		}
	}
	out := make([]hash.Hash, 0, n)
	seen := map[hash.Hash]bool{}
	for len(out) < n {
		h := base
		switch r.Intn(3) {
		case 0:
			h[19] = byte(len(out))
		case 1:
			h[8] = byte(r.Intn(256))
		default:
			r.Read(h[8:])
		}
		if !seen[h] {
			seen[h] = true
			out = append(out, h)
		}
	}
	return out
}

// ---- stores -------------------------------------------------------------------------------------

type CompressedGetter interface {
	GetManyCompressed(ctx context.Context, hashes hash.HashSet, found func(context.Context, nbs.ToChunker)) error
}

type IterAll interface {
	IterateAllChunks(ctx context.Context, cb func(chunk chunks.Chunk)) error
	Count(ctx context.Context) (uint32, error)
}

func Quota() nbs.MemoryQuotaProvider { return nbs.NewUnlimitedMemQuotaProvider() }

func OpenLocal(dir string, memTable uint64) (*nbs.NomsBlockStore, error) {
	return nbs.NewLocalStore(bg, constants.FormatDoltString, dir, memTable, Quota(), false)
}

func OpenJournal(dir string) (*nbs.NomsBlockStore, error) {
	return nbs.NewLocalJournalingStore(bg, constants.FormatDoltString, dir, Quota(), false, func(error) {})
}

// SortedHashes gives deterministic iteration order.
func SortedHashes(s hash.HashSet) []hash.Hash {
	out := make([]hash.Hash, 0, len(s))
	for h := range s {
		out = append(out, h)
	}
	sort.Slice(out, func(i, j int) bool { return bytes.Compare(out[i][:], out[j][:]) < 0 })
	return out
}

func Short(h hash.Hash) string { return h.String()[:10] }

func DirListing(dir string) []string {
	var out []string
	filepath.Walk(dir, func(p string, info os.FileInfo, err error) error {
		if err == nil && !info.IsDir() {
			rel, _ := filepath.Rel(dir, p)
			out = append(out, fmt.Sprintf("%s:%d", rel, info.Size()))
		}
		return nil
	})
	return out
}
