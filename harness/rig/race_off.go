//go:build !race

package rig

// RaceEnabled reports whether this binary was built with the race detector.
const RaceEnabled = false
