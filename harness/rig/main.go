package rig

import (
	"encoding/json"
	"fmt"
	"os"
	"strconv"
)

func seedFromEnv() int64 {
	if v := os.Getenv("VERIF_SEED"); v != "" {
		if n, err := strconv.ParseInt(v, 10, 64); err == nil {
			return n
		}
	}
	return 1
}

// Main is the main function of every engine binary:
//
//	<engine> run <Cnn> <quick|thorough>     supervise a check
//	<engine> replay <Cnn> <file>            re-run the seed/tier recorded in a replay file
//	<engine> worker <Cnn> <stage> <tier> <seed>   (internal) worker child
//	<engine> needs-race <Cnn> | list
//	<engine> <subcommand> ...               helper processes registered in SubCommands
func Main(register func()) {
	register()
	if len(os.Args) < 2 {
		fmt.Fprintln(os.Stderr, "usage: run <prop> <tier> | replay <prop> <file> | list")
		os.Exit(2)
	}
	switch os.Args[1] {
	case "list":
		for _, p := range Props() {
			fmt.Println(p)
		}
	case "needs-race":
		s := Lookup(os.Args[2])
		if s != nil {
			for _, st := range s.Stages {
				if st.Race && st.Fn != nil {
					fmt.Println("yes")
					return
				}
			}
		}
		fmt.Println("no")
	case "run":
		tier := "quick"
		if len(os.Args) > 3 {
			tier = os.Args[3]
		}
		os.Exit(Supervise(os.Args[2], tier, seedFromEnv()))
	case "replay":
		b, err := os.ReadFile(os.Args[3])
		if err != nil {
			fmt.Fprintln(os.Stderr, err)
			os.Exit(2)
		}
		var r struct {
			Tier string `json:"tier"`
			Seed int64  `json:"seed"`
		}
		json.Unmarshal(b, &r)
		os.Exit(Supervise(os.Args[2], r.Tier, r.Seed))
	case "worker":
		seed, _ := strconv.ParseInt(os.Args[5], 10, 64)
		os.Exit(WorkerMain(os.Args[2], os.Args[3], os.Args[4], seed))
	default:
		if fn, ok := SubCommands[os.Args[1]]; ok {
			os.Exit(fn(os.Args[2:]))
		}
		fmt.Fprintln(os.Stderr, "unknown command", os.Args[1])
		os.Exit(2)
	}
}
