package rig

import (
	"bufio"
	"crypto/sha256"
	"encoding/hex"
	"encoding/json"
	"fmt"
	"os"
	"os/exec"
	"path/filepath"
	"regexp"
	"sort"
	"strconv"
	"strings"
	"syscall"
	"time"
)

// Stage is one step of a check: either a monitor function run in a worker child of this binary, or an
// in-package twin (a _test.go file overlaid into a package of /repo and run with go test).
type Stage struct {
	Name string
	Fn   func(*Ctx) // worker stage
	Twin *Twin      // twin stage
	Race bool       // run this stage from the -race build
	// Timeout is the generous wall-clock watchdog; its firing makes the run inconclusive, never a violation.
	TimeoutQuick, TimeoutThorough time.Duration
	Env                           []string
}

// Twin describes an overlay-injected in-package monitor.
type Twin struct {
	Pkg   string   // import path relative to the dolt module, e.g. "store/nbs"
	Files []string // files under /verif/inpkg/<Pkg>/ to overlay (the shared helper is added automatically)
	Run   string   // -run regexp
}

// Spec describes the check of one property.
type Spec struct {
	Prop      string
	Level     string // exploration | fault_enumeration | ...
	Stages    []Stage
	RaceFuncs []string // regexps: a race report is a violation only if both stacks match one of them
}

var registry = map[string]*Spec{}

// Register adds a check; engines call it from init().
func Register(s *Spec) {
	if _, dup := registry[s.Prop]; dup {
		panic("duplicate spec " + s.Prop)
	}
	registry[s.Prop] = s
}

// Lookup returns the spec for a property.
func Lookup(prop string) *Spec { return registry[prop] }

// Props lists registered properties.
func Props() []string {
	var out []string
	for k := range registry {
		out = append(out, k)
	}
	sort.Strings(out)
	return out
}

// VerifRoot is the directory holding MANIFEST.json (default /verif).
func VerifRoot() string {
	if v := os.Getenv("VERIF_ROOT"); v != "" {
		return v
	}
	return "/verif"
}

// RepoRoot is dolthub/dolt's checkout.
func RepoRoot() string {
	if v := os.Getenv("VERIF_REPO"); v != "" {
		return v
	}
	return "/repo"
}

type knownFile struct {
	Findings []struct {
		Property string `json:"property"`
		Key      string `json:"key"` // exact key, or prefix when it ends in '*'
		What     string `json:"what"`
	} `json:"findings"`
	Fixed []string `json:"fixed"`
}

// KnownMatcher returns the matcher of the listed known findings of one property (exact key, prefix ending in '*',
// or "re:<regexp>"). A missing or unreadable file lists nothing.
func KnownMatcher(file, prop string) func(key string) (string, bool) {
	var kf knownFile
	if b, err := os.ReadFile(file); err == nil {
		json.Unmarshal(b, &kf)
	}
	type ent struct {
		key, what string
		re        *regexp.Regexp
	}
	var ents []ent
	for _, k := range kf.Findings {
		if k.Property != prop {
			continue
		}
		e := ent{key: k.Key, what: k.What}
		if strings.HasPrefix(k.Key, "re:") {
			e.re, _ = regexp.Compile(strings.TrimPrefix(k.Key, "re:"))
		}
		ents = append(ents, e)
	}
	return func(key string) (string, bool) {
		for _, k := range ents {
			if k.re != nil {
				if k.re.MatchString(key) {
					return k.key + " " + k.what, true
				}
				continue
			}
			if k.key == key || (strings.HasSuffix(k.key, "*") && strings.HasPrefix(key, strings.TrimSuffix(k.key, "*"))) {
				return k.key + " " + k.what, true
			}
		}
		return "", false
	}
}

type violRec struct {
	Key  string
	Msg  string
	Data json.RawMessage
}

// WorkerMain runs one stage's monitor function inside the worker child.
func WorkerMain(prop, stage, tier string, seed int64) int {
	s := registry[prop]
	if s == nil {
		fmt.Fprintln(os.Stderr, "unknown property", prop)
		return 2
	}
	for _, st := range s.Stages {
		if st.Name == stage && st.Fn != nil {
			c, err := NewWorkerCtx(prop, tier, seed)
			if err != nil {
				fmt.Fprintln(os.Stderr, err)
				return 2
			}
			st.Fn(c)
			c.Done()
			return 0
		}
	}
	fmt.Fprintln(os.Stderr, "unknown stage", stage)
	return 2
}

// Supervise runs every stage of the property's check, computes the verdict and writes the evidence.
// Exit code: 0 held (KNOWN-FINDING lines possible), 1 violation, 2 inconclusive / infrastructure.
func Supervise(prop, tier string, seed int64) int {
	start := time.Now()
	s := registry[prop]
	if s == nil {
		fmt.Fprintln(os.Stderr, "no check registered for", prop)
		return 2
	}
	root := VerifRoot()
	scratch := filepath.Join("/var/tmp", fmt.Sprintf("verif-run-%s-%d", prop, os.Getpid()))
	os.RemoveAll(scratch)
	Must(os.MkdirAll(scratch, 0o755))
	defer os.RemoveAll(scratch)
	logDir := filepath.Join(root, "logs")
	os.MkdirAll(logDir, 0o755)

	var (
		cases, distinct           int64
		distinctSet               = map[string]struct{}{}
		counters                  = map[string]int64{}
		samples                   []json.RawMessage
		viols                     []violRec
		inconcl, notes, assumes   []string
		rules                     []string
		stageInfo                 []map[string]any
		raceReports, raceEscalate int
		raceSigs                  = map[string]int{}
	)

	for _, st := range s.Stages {
		events := filepath.Join(scratch, "events-"+st.Name+".jsonl")
		logPath := filepath.Join(logDir, fmt.Sprintf("%s.%s.%s.log", prop, tier, st.Name))
		stScratch := filepath.Join(scratch, "s-"+st.Name)
		os.MkdirAll(stScratch, 0o755)
		to := st.TimeoutQuick
		if tier == "thorough" {
			to = st.TimeoutThorough
		}
		if to == 0 {
			to = 30 * time.Minute
			if tier == "thorough" {
				to = 4 * time.Hour
			}
		}
		var cmd *exec.Cmd
		env := append(os.Environ(),
			"VERIF_EVENTS="+events, "VERIF_SCRATCH="+stScratch,
			"VERIF_TIER="+tier, "VERIF_SEED="+strconv.FormatInt(seed, 10), "VERIF_PROP="+prop,
			"VERIF_KNOWN="+filepath.Join(root, "known_findings.json"),
			"GOFLAGS=-mod=mod", "GOPROXY=off")
		env = append(env, st.Env...)
		raceLog := filepath.Join(stScratch, "race")
		if st.Race {
			env = append(env, "GORACE=halt_on_error=0 log_path="+raceLog)
		}
		if st.Twin != nil {
			ov, err := writeOverlay(stScratch, st.Twin)
			if err != nil {
				fmt.Fprintln(os.Stderr, "overlay:", err)
				return 2
			}
			args := []string{"test", "-overlay=" + ov, "-tags", "verif", "-vet=off", "-count=1",
				"-run", st.Twin.Run, "-timeout", fmt.Sprintf("%ds", int(to.Seconds())+60)}
			if st.Race {
				args = append(args, "-race")
			}
			args = append(args, "./"+st.Twin.Pkg)
			cmd = exec.Command("go", args...)
			cmd.Dir = filepath.Join(RepoRoot(), "go")
		} else {
			bin := Self()
			if st.Race && !RaceEnabled {
				bin = Self() + "-race"
			}
			cmd = exec.Command(bin, "worker", prop, st.Name, tier, strconv.FormatInt(seed, 10))
			cmd.Dir = stScratch
		}
		cmd.Env = env
		lf, err := os.Create(logPath)
		Must(err)
		cmd.Stdout, cmd.Stderr = lf, lf
		cmd.SysProcAttr = &syscall.SysProcAttr{Setpgid: true}
		t0 := time.Now()
		Must(cmd.Start())
		done := make(chan error, 1)
		go func() { done <- cmd.Wait() }()
		var werr error
		timedOut := false
		select {
		case werr = <-done:
		case <-time.After(to):
			timedOut = true
			syscall.Kill(-cmd.Process.Pid, syscall.SIGQUIT)
			select {
			case werr = <-done:
			case <-time.After(20 * time.Second):
				syscall.Kill(-cmd.Process.Pid, syscall.SIGKILL)
				werr = <-done
			}
		}
		lf.Close()
		syscall.Kill(-cmd.Process.Pid, syscall.SIGKILL) // stray grandchildren

		// read events
		sawDone := false
		lastCase := ""
		var lastCaseData json.RawMessage
		if f, err := os.Open(events); err == nil {
			sc := bufio.NewScanner(f)
			sc.Buffer(make([]byte, 1<<20), 1<<28)
			for sc.Scan() {
				var e Event
				if json.Unmarshal(sc.Bytes(), &e) != nil {
					continue
				}
				switch e.T {
				case "case":
					cases++
					lastCase, lastCaseData = e.Name, e.Data
				case "distinct":
					if _, ok := distinctSet[e.Name]; !ok {
						distinctSet[e.Name] = struct{}{}
						distinct++
					}
				case "count":
					counters[e.Name] += e.N
				case "sample":
					if len(samples) < 8 {
						samples = append(samples, e.Data)
					}
				case "viol":
					viols = append(viols, violRec{e.Name, e.Msg, e.Data})
				case "inconclusive":
					inconcl = append(inconcl, st.Name+": "+e.Msg)
				case "note":
					notes = append(notes, e.Msg)
				case "assume":
					assumes = append(assumes, e.Msg)
				case "rule":
					rules = append(rules, e.Msg)
				case "done":
					sawDone = true
				}
			}
			f.Close()
		}
		info := map[string]any{"stage": st.Name, "wall_s": time.Since(t0).Seconds(), "race": st.Race, "log": logPath}
		if timedOut {
			inconcl = append(inconcl, fmt.Sprintf("%s: watchdog fired after %s (last case %q)", st.Name, to, lastCase))
			info["timed_out"] = true
		} else if !sawDone || werr != nil {
			// The child died. If the log shows a Go panic / fatal error / race-detector abort it is an observation
			// attributable to the last logged case; otherwise it is an infrastructure failure.
			sig := crashSignature(logPath)
			if sig != "" {
				w, _ := json.Marshal(map[string]any{"case": lastCase, "witness": map[string]any{"case_payload": lastCaseData, "log": logPath, "signature": sig}})
				viols = append(viols, violRec{"crash/" + sig, fmt.Sprintf("process died during case %q: %s", lastCase, sig), w})
			} else if len(viols) == 0 {
				inconcl = append(inconcl, fmt.Sprintf("%s: child failed without monitor verdict (%v); see %s", st.Name, werr, logPath))
			}
			info["child_error"] = fmt.Sprint(werr)
		}
		if st.Race {
			reps := parseRaceLogs(raceLog, logPath)
			for _, r := range reps {
				raceReports++
				raceSigs[r.sig]++
				if r.matches(s.RaceFuncs) {
					raceEscalate++
					w, _ := json.Marshal(map[string]any{"case": lastCase, "witness": r.text})
					viols = append(viols, violRec{"race/" + r.sig, "data race inside the property's own mechanism: " + r.sig, w})
				}
			}
		}
		stageInfo = append(stageInfo, info)
	}

	// known findings
	isKnown := KnownMatcher(filepath.Join(root, "known_findings.json"), prop)
	replayDir := filepath.Join(root, "replay", prop)
	os.MkdirAll(replayDir, 0o755)
	knownSeen := map[string]int{}
	newKeys := map[string]string{}
	var newOrder []string
	for _, v := range viols {
		if what, ok := isKnown(v.Key); ok {
			knownSeen[what]++
			continue
		}
		if _, ok := newKeys[v.Key]; ok {
			continue
		}
		h := sha256.Sum256([]byte(v.Key))
		p := filepath.Join(replayDir, fmt.Sprintf("%s-seed%d-%s.json", tier, seed, hex.EncodeToString(h[:6])))
		b, _ := json.MarshalIndent(map[string]any{"property": prop, "tier": tier, "seed": seed, "key": v.Key, "what": v.Msg, "detail": v.Data}, "", " ")
		os.WriteFile(p, b, 0o644)
		newKeys[v.Key] = p
		newOrder = append(newOrder, v.Key)
	}
	unlisted := 0
	for _, v := range viols {
		if _, ok := isKnown(v.Key); !ok {
			unlisted++
		}
	}

	// evidence
	sort.Strings(rules)
	if distinct < 2 && len(viols) == 0 {
		inconcl = append(inconcl, fmt.Sprintf("only %d distinct non-trivial cases observed", distinct))
	}
	if len(samples) == 0 {
		samples = append(samples, json.RawMessage(`"(no sample recorded)"`))
	}
	cov := map[string]any{
		"evaluations":         cases,
		"distinct_nontrivial": distinct,
		"rule":                strings.Join(dedupe(rules), " | "),
		"samples":             samples,
		"counters":            counters,
		"stages":              stageInfo,
		"exhaustive":          false,
	}
	if raceReports > 0 || anyRace(s) {
		cov["race_reports"] = raceReports
		cov["race_reports_in_mechanism"] = raceEscalate
		cov["race_signatures"] = raceSigs
	}
	if len(inconcl) > 0 {
		cov["inconclusive"] = inconcl
	}
	if len(notes) > 0 {
		cov["notes"] = dedupe(notes)
	}
	if len(knownSeen) > 0 {
		cov["known_findings_observed"] = knownSeen
	}
	ev := map[string]any{
		"property_id": prop, "tier": tier, "seed": seed, "level": s.Level, "coverage": cov,
		"assumptions": dedupe(assumes), "wall_s": time.Since(start).Seconds(), "violations": unlisted,
	}
	b, _ := json.MarshalIndent(ev, "", " ")
	os.MkdirAll(filepath.Join(root, "evidence"), 0o755)
	tmp := filepath.Join(root, "evidence", "."+prop+".json.tmp")
	Must(os.WriteFile(tmp, append(b, '\n'), 0o644))
	Must(os.Rename(tmp, filepath.Join(root, "evidence", prop+".json")))

	// verdict
	var keys []string
	for k := range knownSeen {
		keys = append(keys, k)
	}
	sort.Strings(keys)
	for _, k := range keys {
		fmt.Printf("KNOWN-FINDING: property=%s %s (observed %d times)\n", prop, k, knownSeen[k])
	}
	fmt.Printf("%s %s seed=%d: cases=%d distinct=%d violations=%d known=%d race_reports=%d wall=%.1fs\n",
		prop, tier, seed, cases, distinct, unlisted, len(viols)-unlisted, raceReports, time.Since(start).Seconds())
	var cn []string
	for k := range counters {
		cn = append(cn, k)
	}
	sort.Strings(cn)
	for _, k := range cn {
		fmt.Printf("  observed %-48s %d\n", k, counters[k])
	}
	if unlisted > 0 {
		for i, k := range newOrder {
			if i >= 20 {
				break
			}
			fmt.Printf("VIOLATION property=%s replay=%s\n", prop, newKeys[k])
			fmt.Printf("  key=%s\n", k)
		}
		return 1
	}
	if len(inconcl) > 0 {
		for _, m := range inconcl {
			fmt.Printf("INCONCLUSIVE property=%s %s\n", prop, m)
		}
		return 2
	}
	return 0
}

func anyRace(s *Spec) bool {
	for _, st := range s.Stages {
		if st.Race {
			return true
		}
	}
	return false
}

func dedupe(in []string) []string {
	seen := map[string]bool{}
	out := []string{}
	for _, s := range in {
		if !seen[s] {
			seen[s] = true
			out = append(out, s)
		}
	}
	return out
}

var crashRe = regexp.MustCompile(`(?m)^(panic: .*|fatal error: .*|runtime: out of memory.*|SIGSEGV.*)$`)

func crashSignature(logPath string) string {
	b, err := os.ReadFile(logPath)
	if err != nil {
		return ""
	}
	if len(b) > 8<<20 {
		b = b[len(b)-(8<<20):]
	}
	m := crashRe.Find(b)
	if m == nil {
		return ""
	}
	sig := string(m)
	// strip addresses / numbers that vary from run to run
	sig = regexp.MustCompile(`0x[0-9a-f]+`).ReplaceAllString(sig, "0x?")
	sig = regexp.MustCompile(`\[recovered\].*`).ReplaceAllString(sig, "")
	sig = regexp.MustCompile(`\(\d+\.\d+s\)`).ReplaceAllString(sig, "")
	if len(sig) > 160 {
		sig = sig[:160]
	}
	return strings.TrimSpace(sig)
}

type raceReport struct {
	text   string
	stacks [][]string // function names per stack
	sig    string
}

func (r raceReport) matches(funcs []string) bool {
	if len(funcs) == 0 || len(r.stacks) < 2 {
		return false
	}
	hit := func(stack []string) bool {
		for _, fn := range stack {
			for _, p := range funcs {
				if ok, _ := regexp.MatchString(p, fn); ok {
					return true
				}
			}
		}
		return false
	}
	return hit(r.stacks[0]) && hit(r.stacks[1])
}

func parseRaceLogs(prefix string, extra string) []raceReport {
	var texts []string
	files, _ := filepath.Glob(prefix + ".*")
	files = append(files, extra)
	for _, f := range files {
		b, err := os.ReadFile(f)
		if err != nil {
			continue
		}
		parts := strings.Split(string(b), "WARNING: DATA RACE")
		for _, p := range parts[1:] {
			if i := strings.Index(p, "=================="); i >= 0 {
				p = p[:i]
			}
			texts = append(texts, p)
		}
	}
	var out []raceReport
	seen := map[string]bool{}
	fnRe := regexp.MustCompile(`(?m)^  (\S.*)\(\)$`)
	for _, t := range texts {
		// split into access stacks: the two first blocks ("Write at", "Previous read at", ...)
		blocks := regexp.MustCompile(`(?m)^(?:Write|Read|Previous write|Previous read|Atomic|Previous atomic)[^\n]*$`).Split(t, -1)
		var stacks [][]string
		for _, b := range blocks[1:] {
			if i := strings.Index(b, "\nGoroutine "); i >= 0 {
				b = b[:i]
			}
			var fns []string
			for _, m := range fnRe.FindAllStringSubmatch(b, -1) {
				fns = append(fns, m[1])
			}
			stacks = append(stacks, fns)
		}
		r := raceReport{text: t, stacks: stacks}
		top := func(i int) string {
			if i < len(stacks) && len(stacks[i]) > 0 {
				return stacks[i][0]
			}
			return "?"
		}
		a, b := top(0), top(1)
		if a > b {
			a, b = b, a
		}
		r.sig = a + " <-> " + b
		full := fmt.Sprint(stacks)
		if seen[full] {
			continue
		}
		seen[full] = true
		out = append(out, r)
	}
	return out
}

func writeOverlay(dir string, tw *Twin) (string, error) {
	root := VerifRoot()
	repl := map[string]string{}
	pkgDir := filepath.Join(RepoRoot(), "go", tw.Pkg)
	src := filepath.Join(root, "inpkg", tw.Pkg)
	files := tw.Files
	if len(files) == 0 {
		ents, err := os.ReadDir(src)
		if err != nil {
			return "", err
		}
		for _, e := range ents {
			if strings.HasSuffix(e.Name(), "_test.go") {
				files = append(files, e.Name())
			}
		}
	}
	for _, f := range files {
		repl[filepath.Join(pkgDir, "zz_verif_"+f)] = filepath.Join(src, f)
	}
	// shared helper, with the package clause rewritten to the target package's name
	pkgName, err := packageName(pkgDir)
	if err != nil {
		return "", err
	}
	helper, err := os.ReadFile(filepath.Join(root, "inpkg", "twinrig.go.txt"))
	if err != nil {
		return "", err
	}
	hp := filepath.Join(dir, "twinrig_test.go")
	if err := os.WriteFile(hp, []byte(strings.Replace(string(helper), "package PKG", "package "+pkgName, 1)), 0o644); err != nil {
		return "", err
	}
	repl[filepath.Join(pkgDir, "zz_verif_twinrig_test.go")] = hp
	b, _ := json.Marshal(map[string]any{"Replace": repl})
	p := filepath.Join(dir, "overlay.json")
	return p, os.WriteFile(p, b, 0o644)
}

func packageName(dir string) (string, error) {
	ents, err := os.ReadDir(dir)
	if err != nil {
		return "", err
	}
	re := regexp.MustCompile(`(?m)^package (\w+)`)
	for _, e := range ents {
		if strings.HasSuffix(e.Name(), ".go") && !strings.HasSuffix(e.Name(), "_test.go") {
			b, err := os.ReadFile(filepath.Join(dir, e.Name()))
			if err != nil {
				continue
			}
			if m := re.FindSubmatch(b); m != nil {
				return string(m[1]), nil
			}
		}
	}
	return "", fmt.Errorf("no package clause found in %s", dir)
}

// SubCommands are helper entry points of the harness binary that monitors spawn as separate processes
// (crash-image reopeners, multi-process actors, traced workers). name -> main function.
var SubCommands = map[string]func(args []string) int{}

// Self returns the path of the running harness binary (for spawning helper processes).
func Self() string {
	p, err := os.Executable()
	if err != nil {
		return os.Args[0]
	}
	return p
}
