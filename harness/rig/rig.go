// Package rig is the shared runtime of every monitor: seeded PRNG, case logging (a case is logged
// before it is executed so that a process death is attributable), counters, distinct-case
// accounting, samples, violations with replay files, and the three-valued verdict.
//
// A monitor ("engine function") runs in a worker child process and talks to the supervisor only
// through an append-only JSONL event file; the supervisor (Supervise) computes the verdict, applies
// known_findings.json, writes evidence/<id>.json and prints VIOLATION / KNOWN-FINDING lines.
package rig

import (
	"bufio"
	"crypto/sha256"
	"encoding/hex"
	"encoding/json"
	"fmt"
	"math/rand"
	"os"
	"path/filepath"
	"runtime/debug"
	"sync"
	"time"

	"golang.org/x/sys/unix"
)

// Event is one line of the worker's event file.
type Event struct {
	T    string          `json:"t"`              // case | viol | count | sample | distinct | inconclusive | note | assume | rule | done
	Name string          `json:"name,omitempty"` // case name / counter / violation key
	N    int64           `json:"n,omitempty"`
	Msg  string          `json:"msg,omitempty"`
	Data json.RawMessage `json:"data,omitempty"`
}

// Ctx is handed to every monitor.
type Ctx struct {
	Prop string
	Tier string // quick | thorough
	Seed int64
	Rand *rand.Rand
	Dir  string // private scratch directory, removed by the supervisor
	Race bool   // this binary was built with -race

	mu       sync.Mutex
	w        *bufio.Writer
	f        *os.File
	curCase  string
	distinct map[string]struct{}
	samples  int
	viols    int // violations whose key is not a listed known finding (what Violations() reports)
	allViols int
	known    func(key string) (string, bool)
}

// Thorough reports whether the thorough tier was requested.
func (c *Ctx) Thorough() bool { return c.Tier == "thorough" }

// Pick returns q for the quick tier and t for the thorough tier.
func (c *Ctx) Pick(q, t int) int {
	if c.Thorough() {
		return t
	}
	return q
}

// SubRand returns an independent PRNG derived from the run seed and a label, so that one case can be
// replayed without replaying its predecessors.
func (c *Ctx) SubRand(label string, i int) *rand.Rand {
	h := sha256.Sum256([]byte(fmt.Sprintf("%d/%s/%d", c.Seed, label, i)))
	var s int64
	for k := 0; k < 8; k++ {
		s = s<<8 | int64(h[k])
	}
	return rand.New(rand.NewSource(s))
}

func (c *Ctx) emit(e Event) {
	c.mu.Lock()
	defer c.mu.Unlock()
	b, _ := json.Marshal(e)
	c.w.Write(b)
	c.w.WriteByte('\n')
	c.w.Flush()
}

func raw(v any) json.RawMessage {
	if v == nil {
		return nil
	}
	b, err := json.Marshal(v)
	if err != nil {
		b, _ = json.Marshal(fmt.Sprintf("%+v", v))
	}
	return b
}

// Case logs a case before it is executed. payload should be enough to replay it.
func (c *Ctx) Case(name string, payload any) {
	c.mu.Lock()
	c.curCase = name
	c.mu.Unlock()
	c.emit(Event{T: "case", Name: name, Data: raw(payload)})
}

// Count adds n to a named counter (what the monitor actually observed).
func (c *Ctx) Count(name string, n int) {
	if n == 0 {
		return
	}
	c.emit(Event{T: "count", Name: name, N: int64(n)})
}

// Distinct records that a distinct non-trivial case with the given identity was explored. Identities
// are de-duplicated by the supervisor; the evidence field distinct_nontrivial is their number.
func (c *Ctx) Distinct(identity string) {
	c.mu.Lock()
	if c.distinct == nil {
		c.distinct = map[string]struct{}{}
	}
	h := sha256.Sum256([]byte(identity))
	k := hex.EncodeToString(h[:10])
	_, seen := c.distinct[k]
	if !seen {
		c.distinct[k] = struct{}{}
	}
	c.mu.Unlock()
	if !seen {
		c.emit(Event{T: "distinct", Name: k})
	}
}

// Sample keeps an actual explored case for the evidence file (first 6 are kept).
func (c *Ctx) Sample(v any) {
	c.mu.Lock()
	c.samples++
	n := c.samples
	c.mu.Unlock()
	if n <= 6 {
		c.emit(Event{T: "sample", Data: raw(v)})
	}
}

// Violation records a violation of the property. key identifies the class of failing input / call site
// / history (it is what known_findings.json matches against); witness is written to the replay file.
func (c *Ctx) Violation(key, what string, witness any) {
	c.mu.Lock()
	if c.known == nil {
		c.known = KnownMatcher(os.Getenv("VERIF_KNOWN"), c.Prop)
	}
	if _, listed := c.known(key); !listed {
		c.viols++
	}
	c.allViols++
	n := c.allViols
	cs := c.curCase
	c.mu.Unlock()
	if n > 200 { // keep logs bounded; the count is still reported
		c.emit(Event{T: "viol", Name: key, Msg: "(suppressed detail) " + what})
		return
	}
	c.emit(Event{T: "viol", Name: key, Msg: what, Data: raw(map[string]any{"case": cs, "witness": witness})})
}

// Violations returns how many violations this worker has reported so far (listed known findings included).
func (c *Ctx) Violations() int {
	c.mu.Lock()
	defer c.mu.Unlock()
	return c.allViols
}

// UnlistedViolations is Violations without the ones whose key is a listed known finding. Early-stop thresholds use
// it: a frequent known finding must not cut the exploration short (thorough tier).
func (c *Ctx) UnlistedViolations() int {
	c.mu.Lock()
	defer c.mu.Unlock()
	return c.viols
}

// Inconclusive marks the run inconclusive (non-vacuity failed, watchdog, checker timeout).
func (c *Ctx) Inconclusive(reason string) { c.emit(Event{T: "inconclusive", Msg: reason}) }

// Note attaches free text to the evidence.
func (c *Ctx) Note(msg string) { c.emit(Event{T: "note", Msg: msg}) }

// Assume records an assumption / trusted-base item for the evidence file.
func (c *Ctx) Assume(msg string) { c.emit(Event{T: "assume", Msg: msg}) }

// Rule records how cases are generated and what makes one distinct / non-trivial.
func (c *Ctx) Rule(msg string) { c.emit(Event{T: "rule", Msg: msg}) }

// Require marks the run inconclusive when a non-vacuity counter stayed at zero.
func (c *Ctx) Require(cond bool, what string) {
	if !cond {
		c.Inconclusive("non-vacuity: " + what)
	}
}

// TempDir creates a fresh directory below the run's scratch directory.
func (c *Ctx) TempDir(label string) string {
	d, err := os.MkdirTemp(c.Dir, label+"-")
	Must(err)
	return d
}

// Must stops the worker on an infrastructure error of the harness itself (exit 3: the supervisor
// reports the run as inconclusive, never as a violation).
func Must(err error) {
	if err != nil {
		fmt.Fprintf(os.Stderr, "VERIF-INFRA: %v\n%s\n", err, debug.Stack())
		os.Exit(3)
	}
}

// NewWorkerCtx opens the event file named by the environment (worker side).
func NewWorkerCtx(prop, tier string, seed int64) (*Ctx, error) {
	path := os.Getenv("VERIF_EVENTS")
	if path == "" {
		return nil, fmt.Errorf("VERIF_EVENTS not set")
	}
	f, err := os.OpenFile(path, os.O_APPEND|os.O_CREATE|os.O_WRONLY, 0o644)
	if err != nil {
		return nil, err
	}
	dir := os.Getenv("VERIF_SCRATCH")
	if dir == "" {
		dir = filepath.Join(os.TempDir(), "verif-scratch")
	}
	os.MkdirAll(dir, 0o755)
	return &Ctx{Prop: prop, Tier: tier, Seed: seed, Rand: rand.New(rand.NewSource(seed)), Dir: dir,
		Race: RaceEnabled, f: f, w: bufio.NewWriter(f)}, nil
}

// Done is written by the worker when the monitor function returned normally.
func (c *Ctx) Done() { c.emit(Event{T: "done"}); c.f.Close() }

// Mono returns CLOCK_MONOTONIC in nanoseconds: one clock for all goroutines and all processes on
// this host, so histories recorded by several worker processes can be merged.
func Mono() int64 {
	var ts unix.Timespec
	if err := unix.ClockGettime(unix.CLOCK_MONOTONIC, &ts); err != nil {
		return time.Now().UnixNano()
	}
	return ts.Sec*1e9 + ts.Nsec
}
