// Package vtrace parses `strace -f -y -xx -s N -e trace=openat,write,pwrite64,fsync,fdatasync,ftruncate,
// renameat,renameat2,rename,unlinkat,unlink -o file` logs into typed storage events (DESIGN §2.4). Because all
// traced processes are stopped by ptrace at each syscall, the order of completed syscalls in the log is a total
// order consistent with causality; an event is placed at its completion line.
package vtrace

import (
	"bufio"
	"fmt"
	"os"
	"regexp"
	"strconv"
	"strings"
)

// Event is one completed syscall of interest.
type Event struct {
	Seq   int    // position in the log
	Pid   int    //
	Call  string // openat | write | pwrite64 | fsync | fdatasync | ftruncate | rename | unlink
	Path  string // file the call acts on (fd path for write/fsync, target for openat/unlink, source for rename)
	Path2 string // rename destination
	Off   int64  // pwrite64 offset, ftruncate length; -1 for write (append / current position)
	Len   int64  // bytes written (return value)
	Data  []byte // captured prefix of the written bytes (up to strace -s)
	Flags string // openat flags
	Ret   int64
}

func (e Event) String() string {
	return fmt.Sprintf("#%d %s %s %s off=%d len=%d ret=%d", e.Seq, e.Call, e.Path, e.Path2, e.Off, e.Len, e.Ret)
}

var (
	lineRe     = regexp.MustCompile(`^(\d+)\s+(.*)$`)
	resumedRe  = regexp.MustCompile(`^<\.\.\. (\w+) resumed>(.*)$`)
	hexRe      = regexp.MustCompile(`\\x([0-9a-f]{2})`)
	fdRe       = regexp.MustCompile(`^(-?\d+|AT_FDCWD)<([^>]*)>`)
	retRe      = regexp.MustCompile(`\)\s+= (-?\d+)(?:<[^>]*>)?(?: .*)?$`)
	callNameRe = regexp.MustCompile(`^(\w+)\(`)
)

func unhex(s string) string {
	return hexRe.ReplaceAllStringFunc(s, func(m string) string {
		v, _ := strconv.ParseUint(m[2:], 16, 8)
		return string([]byte{byte(v)})
	})
}

// splitArgs splits a syscall argument list at top-level commas (strings are "..." with only \x escapes inside).
func splitArgs(s string) []string {
	var out []string
	depth, inStr, start := 0, false, 0
	for i := 0; i < len(s); i++ {
		c := s[i]
		switch {
		case c == '"':
			inStr = !inStr
		case inStr:
		case c == '<' || c == '{' || c == '[' || c == '(':
			depth++
		case c == '>' || c == '}' || c == ']' || c == ')':
			depth--
		case c == ',' && depth == 0:
			out = append(out, strings.TrimSpace(s[start:i]))
			start = i + 1
		}
	}
	out = append(out, strings.TrimSpace(s[start:]))
	return out
}

func fdPath(arg string) string {
	m := fdRe.FindStringSubmatch(arg)
	if m == nil {
		return ""
	}
	return unhex(m[2])
}

func strArg(arg string) []byte {
	i := strings.IndexByte(arg, '"')
	j := strings.LastIndexByte(arg, '"')
	if i < 0 || j <= i {
		return nil
	}
	return []byte(unhex(arg[i+1 : j]))
}

func joinPath(dirArg, p string) string {
	if strings.HasPrefix(p, "/") {
		return p
	}
	d := fdPath(dirArg)
	if d == "" {
		return p
	}
	if p == "." {
		return d
	}
	return d + "/" + p
}

// Parse reads a strace log and returns the completed events of interest in log order.
func Parse(path string) ([]Event, error) {
	f, err := os.Open(path)
	if err != nil {
		return nil, err
	}
	defer f.Close()
	sc := bufio.NewScanner(f)
	sc.Buffer(make([]byte, 1<<20), 1<<26)
	unfinished := map[int]string{}
	var out []Event
	seq := 0
	for sc.Scan() {
		seq++
		m := lineRe.FindStringSubmatch(sc.Text())
		if m == nil {
			continue
		}
		pid, _ := strconv.Atoi(m[1])
		body := m[2]
		if strings.HasSuffix(body, "<unfinished ...>") {
			unfinished[pid] = strings.TrimSuffix(body, "<unfinished ...>")
			continue
		}
		if r := resumedRe.FindStringSubmatch(body); r != nil {
			body = unfinished[pid] + r[2]
			delete(unfinished, pid)
		}
		cn := callNameRe.FindStringSubmatch(body)
		if cn == nil {
			continue
		}
		rm := retRe.FindStringSubmatch(body)
		if rm == nil {
			continue
		}
		ret, _ := strconv.ParseInt(rm[1], 10, 64)
		open := strings.IndexByte(body, '(')
		loc := retRe.FindStringIndex(body)
		if loc == nil || loc[0] < open {
			continue
		}
		closeIdx := loc[0]
		args := splitArgs(body[open+1 : closeIdx])
		ev := Event{Seq: seq, Pid: pid, Call: cn[1], Ret: ret, Off: -1}
		switch cn[1] {
		case "openat":
			if len(args) < 3 {
				continue
			}
			ev.Path = joinPath(args[0], string(strArg(args[1])))
			ev.Flags = args[2]
		case "write":
			if len(args) < 3 || ret < 0 {
				continue
			}
			ev.Path, ev.Data, ev.Len = fdPath(args[0]), strArg(args[1]), ret
		case "pwrite64":
			if len(args) < 4 || ret < 0 {
				continue
			}
			ev.Path, ev.Data, ev.Len = fdPath(args[0]), strArg(args[1]), ret
			ev.Off, _ = strconv.ParseInt(args[3], 10, 64)
		case "fsync", "fdatasync":
			if ret < 0 {
				continue
			}
			ev.Call = "fsync"
			ev.Path = fdPath(args[0])
		case "ftruncate":
			if ret < 0 || len(args) < 2 {
				continue
			}
			ev.Path = fdPath(args[0])
			ev.Off, _ = strconv.ParseInt(args[1], 10, 64)
		case "rename":
			if ret < 0 || len(args) < 2 {
				continue
			}
			ev.Path, ev.Path2 = string(strArg(args[0])), string(strArg(args[1]))
		case "renameat", "renameat2":
			if ret < 0 || len(args) < 4 {
				continue
			}
			ev.Call = "rename"
			ev.Path = joinPath(args[0], string(strArg(args[1])))
			ev.Path2 = joinPath(args[2], string(strArg(args[3])))
		case "unlink":
			if ret < 0 {
				continue
			}
			ev.Path = string(strArg(args[0]))
		case "unlinkat":
			if ret < 0 || len(args) < 2 {
				continue
			}
			ev.Call = "unlink"
			ev.Path = joinPath(args[0], string(strArg(args[1])))
		default:
			continue
		}
		out = append(out, ev)
	}
	return out, sc.Err()
}

// StraceArgs returns the strace command line prefix that produces logs Parse understands.
func StraceArgs(logPath string, strSize int) []string {
	return []string{"-f", "-y", "-xx", "-s", strconv.Itoa(strSize), "-e",
		"trace=openat,write,pwrite64,fsync,fdatasync,ftruncate,renameat,renameat2,rename,unlinkat,unlink", "-o", logPath}
}
