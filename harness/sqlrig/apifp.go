package sqlrig

import (
	"context"
	"fmt"
	"sort"
	"strings"

	"github.com/dolthub/dolt/go/libraries/doltcore/doltdb"
	"github.com/dolthub/dolt/go/libraries/doltcore/ref"
	"github.com/dolthub/dolt/go/store/datas"
	"github.com/dolthub/dolt/go/store/hash"
	"github.com/dolthub/dolt/go/store/types"
)

// APIFingerprint is the Go-API half of the DESIGN A.6 fingerprint of one database: every dataset head address
// (branches, tags, remote-tracking refs, internal refs, working sets, stashes, statistics, tuples), and for every
// working set the addresses its loader dereferences (working / staged root, merge state: merged commit,
// pre-merge working root, pre-merge head; rebase state: onto commit, pre-rebase working root, branch, step), and
// every stash entry (stash root, head commit, meta). Addresses are compared as addresses (use it where the
// operation promises identity: GC, clone, restart).
//
// The second result lists every address named by the fingerprint that a reader may dereference; hand it to
// WalkClosure as extra roots, so that closure completeness does not depend on Dolt's own reference walker having
// reported those addresses.
func APIFingerprint(ddb *doltdb.DoltDB) (Fingerprint, []hash.Hash) {
	ctx := context.Background()
	fp := Fingerprint{}
	var roots []hash.Hash
	add := func(h hash.Hash) string {
		if !h.IsEmpty() {
			roots = append(roots, h)
		}
		return h.String()
	}
	db := doltdb.ExposeDatabaseFromDoltDB(ddb)
	dss, err := db.Datasets(ctx)
	if err != nil {
		fp["api/datasets"] = "ERROR: " + err.Error()
		return fp, roots
	}
	var wsIDs, stashIDs []string
	err = dss.IterAll(ctx, func(id string, addr hash.Hash) error {
		if !ref.IsRef(id) && !ref.IsWorkingSet(id) {
			return nil // transient datasets: dolt_gc deletes them by design (pruneUnreferencedDatasets)
		}
		fp["api/ds/"+id] = add(addr)
		if ref.IsWorkingSet(id) {
			wsIDs = append(wsIDs, id)
		}
		if strings.HasPrefix(id, "refs/stashes/") {
			stashIDs = append(stashIDs, strings.TrimPrefix(id, "refs/stashes/"))
		}
		return nil
	})
	if err != nil {
		fp["api/datasets"] = "ERROR: " + err.Error()
	}
	rootHash := func(r doltdb.RootValue) string {
		if r == nil {
			return "nil"
		}
		h, err := r.HashOf()
		if err != nil {
			return "ERROR: " + err.Error()
		}
		return add(h)
	}
	commitHash := func(c *doltdb.Commit) string {
		if c == nil {
			return "nil"
		}
		h, err := c.HashOf()
		if err != nil {
			return "ERROR: " + err.Error()
		}
		return add(h)
	}
	sort.Strings(wsIDs)
	for _, id := range wsIDs {
		ws, err := ddb.ResolveWorkingSet(ctx, ref.NewWorkingSetRef(id))
		if err != nil {
			fp["api/ws/"+id] = "ERROR: " + err.Error()
			continue
		}
		fp["api/ws/"+id] = "working=" + rootHash(ws.WorkingRoot()) + " staged=" + rootHash(ws.StagedRoot())
		if ms := ws.MergeState(); ms != nil {
			var un, mt []string
			for _, t := range ms.TablesWithSchemaConflicts() {
				un = append(un, t.String())
			}
			for _, t := range ms.MergedTables() {
				mt = append(mt, t.String())
			}
			fp["api/ws/"+id+"/merge"] = fmt.Sprintf("commit=%s spec=%q preWorking=%s preHead=%s cherryPick=%v revert=%v pending=%v schemaConflicts=%v merged=%v",
				commitHash(ms.Commit()), ms.CommitSpecStr(), rootHash(ms.PreMergeWorkingRoot()), commitHash(ms.PreMergeHeadCommit()),
				ms.IsCherryPick(), ms.IsRevert(), ms.PendingRevertCommitHashes(), un, mt)
		}
		if rs := ws.RebaseState(); rs != nil {
			fp["api/ws/"+id+"/rebase"] = fmt.Sprintf("onto=%s preWorking=%s branch=%s step=%v started=%v empty=%v becomesEmpty=%v skipVerify=%v",
				commitHash(rs.OntoCommit()), rootHash(rs.PreRebaseWorkingRoot()), rs.Branch(), rs.LastAttemptedStep(), rs.RebasingStarted(),
				rs.EmptyCommitHandling(), rs.CommitBecomesEmptyHandling(), rs.SkipVerification())
		}
	}
	sort.Strings(stashIDs)
	for _, name := range stashIDs {
		for idx := 0; idx < 64; idx++ {
			r, cm, meta, err := ddb.GetStashRootAndHeadCommitAtIdx(ctx, idx, name)
			if err != nil {
				if idx == 0 {
					fp[fmt.Sprintf("api/stash/%s/0", name)] = "ERROR: " + err.Error()
				}
				break
			}
			m := ""
			if meta != nil {
				m = fmt.Sprintf("%s|%s|%v", meta.BranchName, meta.Description, meta.TablesToStage)
			}
			fp[fmt.Sprintf("api/stash/%s/%d", name, idx)] = "root=" + rootHash(r) + " head=" + commitHash(cm) + " meta=" + m
		}
	}
	return fp, roots
}

// ClosureReport is the outcome of WalkClosure.
type ClosureReport struct {
	Chunks   int      // chunks visited
	Problems []string // dangling addresses, unreadable chunks, chunks whose bytes do not hash to their address
}

// WalkClosure is the fsck-style route of DESIGN 3.2: starting at the store root (which covers every dataset) and
// at the extra roots, it fetches every chunk from the chunk store, verifies that the bytes hash to the address
// they were requested under (content unchanged), and follows every address Dolt's walker reports. A missing or
// empty chunk is a dangling reference. onlyRoots restricts the walk to the given roots (used for "the data of
// this commit is complete at the destination").
func WalkClosure(ddb *doltdb.DoltDB, extra []hash.Hash, onlyRoots bool) ClosureReport {
	ctx := context.Background()
	var rep ClosureReport
	db := doltdb.ExposeDatabaseFromDoltDB(ddb)
	cs := datas.ChunkStoreFromDatabase(db)
	walk := types.WalkAddrsForNBF(db.Format(), nil)
	seen := hash.HashSet{}
	var queue []hash.Hash
	push := func(h hash.Hash) {
		if h.IsEmpty() || seen.Has(h) {
			return
		}
		seen.Insert(h)
		queue = append(queue, h)
	}
	if !onlyRoots {
		r, err := cs.Root(ctx)
		if err != nil {
			rep.Problems = append(rep.Problems, "store root: "+err.Error())
			return rep
		}
		push(r)
	}
	for _, h := range extra {
		push(h)
	}
	for len(queue) > 0 {
		h := queue[len(queue)-1]
		queue = queue[:len(queue)-1]
		c, err := cs.Get(ctx, h)
		if err != nil {
			rep.Problems = append(rep.Problems, fmt.Sprintf("get %s: %v", h, err))
			continue
		}
		if c.IsEmpty() || c.IsGhost() {
			rep.Problems = append(rep.Problems, fmt.Sprintf("dangling %s", h))
			continue
		}
		rep.Chunks++
		if got := hash.Of(c.Data()); got != h {
			rep.Problems = append(rep.Problems, fmt.Sprintf("content of %s hashes to %s", h, got))
			continue
		}
		if err := walk(c, func(a hash.Hash, _ bool) error { push(a); return nil }); err != nil {
			rep.Problems = append(rep.Problems, fmt.Sprintf("walk %s: %v", h, err))
		}
		if len(rep.Problems) > 50 {
			break
		}
	}
	return rep
}
