package sqlrig

import (
	"crypto/sha256"
	"encoding/hex"
	"fmt"
	"sort"
	"strings"
)

// Fingerprint is the logical repository fingerprint of DESIGN Appendix A.6, computed through SQL. Keys name
// components ("branch/main", "commit/<hash>", "rows/<rev>/<table>", "ws/<branch>/status", ...), values are
// their canonical renderings. Two fingerprints are equal iff every component is equal.
type Fingerprint map[string]string

func digest(lines []string) string {
	h := sha256.New()
	for _, l := range lines {
		h.Write([]byte(l))
		h.Write([]byte{'\n'})
	}
	return fmt.Sprintf("%d:%s", len(lines), hex.EncodeToString(h.Sum(nil)[:12]))
}

// FingerprintOptions bounds the cost.
type FingerprintOptions struct {
	MaxCommitsWithRows int  // rows of every table are read for at most this many commits (branch heads first); 0 = all
	SkipWorking        bool // skip working-set components
}

// TakeFingerprint computes the fingerprint of database db through session x. Errors while reading a component
// are recorded as the component's value ("ERROR: ..."), so that an unreadable component after an operation
// shows up as a difference.
func TakeFingerprint(x *Session, db string, opt FingerprintOptions) Fingerprint {
	fp := Fingerprint{}
	q := func(key, query string, args ...any) *Rows {
		r, err := x.Query(query, args...)
		if err != nil {
			fp[key] = "ERROR: " + err.Error()
			return &Rows{}
		}
		return r
	}
	qd := "`" + db + "`"
	// refs
	branches := q("branches", "select name, hash from "+qd+".dolt_branches order by name")
	fp["branches"] = strings.Join(branches.Strings(), "\n")
	fp["tags"] = strings.Join(q("tags", "select tag_name, tag_hash, message from "+qd+".dolt_tags order by tag_name").Strings(), "\n")
	fp["remote_branches"] = strings.Join(q("remote_branches", "select name, hash from "+qd+".dolt_remote_branches order by name").Strings(), "\n")
	fp["remotes"] = strings.Join(q("remotes", "select name, url from "+qd+".dolt_remotes order by name").Strings(), "\n")
	// commits reachable from any branch / tag, with parents
	var heads []string
	for _, b := range branches.Data {
		heads = append(heads, b[1])
	}
	for _, t := range q("tags2", "select tag_hash from "+qd+".dolt_tags").Data {
		heads = append(heads, t[0])
	}
	delete(fp, "tags2")
	seen := map[string]bool{}
	var order []string
	for _, b := range branches.Data {
		rev := "`" + db + "/" + b[0] + "`"
		anc := q("anc/"+b[0], "select commit_hash, parent_hash, parent_index from "+rev+".dolt_commit_ancestors order by commit_hash, parent_index")
		fp["anc/"+b[0]] = digest(anc.Strings())
		lg := q("log/"+b[0], "select commit_hash, committer, email, message from "+rev+".dolt_log order by commit_hash")
		for _, r := range lg.Data {
			fp["commit/"+r[0]] = strings.Join(r[1:], "\x1f")
			if !seen[r[0]] {
				seen[r[0]] = true
				order = append(order, r[0])
			}
		}
		delete(fp, "log/"+b[0])
	}
	// rows at commits: heads first
	sort.Strings(order)
	var revs []string
	hs := map[string]bool{}
	for _, h := range heads {
		if !hs[h] {
			hs[h] = true
			revs = append(revs, h)
		}
	}
	for _, h := range order {
		if !hs[h] {
			revs = append(revs, h)
		}
	}
	if opt.MaxCommitsWithRows > 0 && len(revs) > opt.MaxCommitsWithRows {
		revs = revs[:opt.MaxCommitsWithRows]
	}
	for _, h := range revs {
		fingerprintRoot(fp, x, db, h, "commit:"+h)
	}
	if !opt.SkipWorking {
		// NOTE: this part switches the session's current database/branch (USE `db/branch`), so callers should hand
		// TakeFingerprint a dedicated session.
		for _, b := range branches.Data {
			name := b[0]
			if err := x.Exec("use `" + db + "/" + name + "`"); err != nil {
				fp["ws/"+name] = "ERROR: " + err.Error()
				continue
			}
			fingerprintRoot(fp, x, db, name, "working:"+name) // revision db of a branch reads its working set
			fp["ws/"+name+"/status"] = strings.Join(q("ws/"+name+"/status", "select table_name, staged, status from dolt_status order by table_name, staged, status").Strings(), "\n")
			fp["ws/"+name+"/staged-summary"] = digest(q("ws/"+name+"/staged-summary", "select to_table_name, diff_type, data_change, schema_change from dolt_diff_summary('HEAD','STAGED') order by 1,2").Strings())
			fp["ws/"+name+"/merge"] = strings.Join(q("ws/"+name+"/merge", "select * from dolt_merge_status").Strings(), "\n")
			// staged contents of every table known to HEAD, STAGED or WORKING
			tn := map[string]bool{}
			for _, r := range q("ws/"+name+"/tabs", "show tables").Data {
				tn[r[0]] = true
			}
			for _, r := range q("ws/"+name+"/tabs", "select table_name from dolt_status").Data {
				tn[r[0]] = true
			}
			delete(fp, "ws/"+name+"/tabs")
			var tl []string
			for t := range tn {
				tl = append(tl, t)
			}
			sort.Strings(tl)
			for _, t := range tl {
				if r, err := x.Query("select * from `" + t + "` as of 'STAGED'"); err != nil {
					fp["staged/"+name+"/"+t] = "absent-or-error"
				} else {
					fp["staged/"+name+"/"+t] = digest(r.Sorted())
				}
			}
		}
		x.Exec("use `" + db + "`")
		st := q("stashes", "select * from "+qd+".dolt_stashes")
		fp["stashes"] = strings.Join(st.Strings(), "\n")
	}
	return fp
}

func fingerprintRoot(fp Fingerprint, x *Session, db, rev, label string) {
	rdb := "`" + db + "/" + rev + "`"
	tabs, err := x.Query("show tables from " + rdb)
	if err != nil {
		fp["tables/"+label] = "ERROR: " + err.Error()
		return
	}
	var names []string
	for _, r := range tabs.Data {
		names = append(names, r[0])
	}
	sort.Strings(names)
	fp["tables/"+label] = strings.Join(names, ",")
	for _, t := range names {
		qt := rdb + ".`" + t + "`"
		if r, err := x.Query("show create table " + qt); err != nil {
			fp["schema/"+label+"/"+t] = "ERROR: " + err.Error()
		} else if len(r.Data) > 0 && len(r.Data[0]) > 1 {
			fp["schema/"+label+"/"+t] = r.Data[0][1]
		}
		if r, err := x.Query("select * from " + qt); err != nil {
			fp["rows/"+label+"/"+t] = "ERROR: " + err.Error()
		} else {
			fp["rows/"+label+"/"+t] = digest(r.Sorted())
		}
	}
}

// Diff lists the components that differ between two fingerprints.
func (a Fingerprint) Diff(b Fingerprint) []string {
	var out []string
	for k, v := range a {
		if w, ok := b[k]; !ok {
			out = append(out, "missing after: "+k)
		} else if v != w {
			out = append(out, fmt.Sprintf("changed: %s: %.200q -> %.200q", k, v, w))
		}
	}
	for k := range b {
		if _, ok := a[k]; !ok {
			out = append(out, "new after: "+k)
		}
	}
	sort.Strings(out)
	return out
}
