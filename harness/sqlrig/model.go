package sqlrig

import (
	"fmt"
	"math/rand"
	"sort"
	"strings"
)

// Col is a non-key column of a model table.
type Col struct {
	Name string
	Type string // SQL type text, e.g. "int", "varchar(40)"
}

// Table is the model of one SQL table with a single BIGINT primary key column `pk` followed by Cols.
// Cell values are stored as the text the server prints for them (Null for SQL NULL), so that a model table can
// be compared with `select * from t` directly.
type Table struct {
	Name string
	Cols []Col
	Rows map[int64][]string
}

// Clone deep-copies the table.
func (t *Table) Clone() *Table {
	if t == nil {
		return nil
	}
	n := &Table{Name: t.Name, Cols: append([]Col(nil), t.Cols...), Rows: make(map[int64][]string, len(t.Rows))}
	for k, v := range t.Rows {
		n.Rows[k] = append([]string(nil), v...)
	}
	return n
}

// CreateSQL renders the CREATE TABLE statement.
func (t *Table) CreateSQL() string {
	var b strings.Builder
	fmt.Fprintf(&b, "create table `%s` (pk bigint primary key", t.Name)
	for _, c := range t.Cols {
		fmt.Fprintf(&b, ", `%s` %s", c.Name, c.Type)
	}
	b.WriteString(")")
	return b.String()
}

// SortedRows renders the rows like Rows.Sorted() renders `select * from t`.
func (t *Table) SortedRows() []string {
	out := make([]string, 0, len(t.Rows))
	for pk, r := range t.Rows {
		out = append(out, fmt.Sprint(pk)+"\x1f"+strings.Join(r, "\x1f"))
	}
	if len(t.Cols) == 0 {
		for i := range out {
			out[i] = strings.TrimSuffix(out[i], "\x1f")
		}
	}
	sort.Strings(out)
	return out
}

// PKs returns the primary keys in ascending order.
func (t *Table) PKs() []int64 {
	out := make([]int64, 0, len(t.Rows))
	for k := range t.Rows {
		out = append(out, k)
	}
	sort.Slice(out, func(i, j int) bool { return out[i] < out[j] })
	return out
}

// SQLLit renders a model cell as a SQL literal.
func SQLLit(v string) string {
	if v == Null {
		return "NULL"
	}
	return "'" + strings.ReplaceAll(strings.ReplaceAll(v, `\`, `\\`), "'", "''") + "'"
}

// Gen generates schemas and DML with globally unique cell values (so that every read identifies its writer).
type Gen struct {
	R    *rand.Rand
	next int64
	Tag  string // prefix for string values (e.g. the client id)
}

// NewGen returns a generator.
func NewGen(r *rand.Rand, tag string) *Gen { return &Gen{R: r, next: 1000, Tag: tag} }

// Value returns a fresh unique value for a column (occasionally NULL when nullable).
func (g *Gen) Value(c Col, allowNull bool) string {
	if allowNull && g.R.Intn(12) == 0 {
		return Null
	}
	g.next++
	if strings.HasPrefix(c.Type, "int") || strings.HasPrefix(c.Type, "bigint") {
		return fmt.Sprint(g.next)
	}
	return fmt.Sprintf("%s%d", g.Tag, g.next)
}

// NewTable makes a table with ncols non-key columns of alternating int / varchar types.
func (g *Gen) NewTable(name string, ncols int) *Table {
	t := &Table{Name: name, Rows: map[int64][]string{}}
	for i := 0; i < ncols; i++ {
		typ := "int"
		if i%2 == 1 {
			typ = "varchar(40)"
		}
		t.Cols = append(t.Cols, Col{Name: fmt.Sprintf("c%d", i), Type: typ})
	}
	return t
}

// InsertSQL inserts a fresh row with key pk into the model and returns the statement.
func (g *Gen) InsertSQL(t *Table, pk int64) string {
	row := make([]string, len(t.Cols))
	lits := make([]string, len(t.Cols))
	for i, c := range t.Cols {
		row[i] = g.Value(c, true)
		lits[i] = SQLLit(row[i])
	}
	t.Rows[pk] = row
	s := fmt.Sprintf("insert into `%s` values (%d", t.Name, pk)
	if len(lits) > 0 {
		s += ", " + strings.Join(lits, ", ")
	}
	return s + ")"
}

// UpdateSQL changes 1..n cells of row pk (must exist) and returns the statement.
func (g *Gen) UpdateSQL(t *Table, pk int64) string {
	row := t.Rows[pk]
	n := 1
	if len(t.Cols) > 1 && g.R.Intn(3) == 0 {
		n = 1 + g.R.Intn(len(t.Cols))
	}
	perm := g.R.Perm(len(t.Cols))[:n]
	sort.Ints(perm)
	var sets []string
	for _, i := range perm {
		row[i] = g.Value(t.Cols[i], true)
		sets = append(sets, fmt.Sprintf("`%s` = %s", t.Cols[i].Name, SQLLit(row[i])))
	}
	return fmt.Sprintf("update `%s` set %s where pk = %d", t.Name, strings.Join(sets, ", "), pk)
}

// DeleteSQL deletes row pk from the model and returns the statement.
func (g *Gen) DeleteSQL(t *Table, pk int64) string {
	delete(t.Rows, pk)
	return fmt.Sprintf("delete from `%s` where pk = %d", t.Name, pk)
}

// DML performs one random insert/update/delete over the key pool [0,keyPool) and returns the statement.
func (g *Gen) DML(t *Table, keyPool int) string {
	pk := int64(g.R.Intn(keyPool))
	_, exists := t.Rows[pk]
	switch {
	case !exists:
		return g.InsertSQL(t, pk)
	case len(t.Cols) > 0 && g.R.Intn(3) != 0:
		return g.UpdateSQL(t, pk)
	default:
		return g.DeleteSQL(t, pk)
	}
}

// Conflict is a model merge conflict on one primary key. nil rows mean "absent".
type Conflict struct {
	PK                 int64
	Base, Ours, Theirs []string
}

func rowsEqual(a, b []string) bool {
	if (a == nil) != (b == nil) || len(a) != len(b) {
		return false
	}
	for i := range a {
		if a[i] != b[i] {
			return false
		}
	}
	return true
}

// Merge3 is the cell-wise three-way merge model of DESIGN §3.5 for tables with identical schemas:
// a key changed on only one side takes that side; identical changes are kept; when both sides modified an
// existing row, cells are combined column by column and a conflict arises iff the same cell was changed
// differently; delete-vs-modify and divergent inserts are conflicts. On conflict the merged table keeps "ours".
func Merge3(base, ours, theirs *Table) (*Table, []Conflict) {
	out := ours.Clone()
	var conflicts []Conflict
	keys := map[int64]bool{}
	for k := range base.Rows {
		keys[k] = true
	}
	for k := range ours.Rows {
		keys[k] = true
	}
	for k := range theirs.Rows {
		keys[k] = true
	}
	for k := range keys {
		b, o, t := base.Rows[k], ours.Rows[k], theirs.Rows[k]
		switch {
		case rowsEqual(o, t): // same on both sides (incl. both deleted)
		case rowsEqual(t, b): // only ours changed
		case rowsEqual(o, b): // only theirs changed
			if t == nil {
				delete(out.Rows, k)
			} else {
				out.Rows[k] = append([]string(nil), t...)
			}
		case b != nil && o != nil && t != nil: // both modified: cell-wise
			m := make([]string, len(o))
			conflict := false
			for i := range o {
				switch {
				case o[i] == t[i]:
					m[i] = o[i]
				case t[i] == b[i]:
					m[i] = o[i]
				case o[i] == b[i]:
					m[i] = t[i]
				default:
					conflict = true
				}
			}
			if conflict {
				conflicts = append(conflicts, Conflict{PK: k, Base: b, Ours: o, Theirs: t})
			} else {
				out.Rows[k] = m
			}
		default: // delete vs modify, or divergent inserts
			conflicts = append(conflicts, Conflict{PK: k, Base: b, Ours: o, Theirs: t})
		}
	}
	sort.Slice(conflicts, func(i, j int) bool { return conflicts[i].PK < conflicts[j].PK })
	return out, conflicts
}
