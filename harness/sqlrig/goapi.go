package sqlrig

import (
	"context"
	"fmt"
	"path/filepath"

	"github.com/dolthub/dolt/go/libraries/doltcore/doltdb"
	"github.com/dolthub/dolt/go/libraries/doltcore/env"
	"github.com/dolthub/dolt/go/libraries/doltcore/ref"
	"github.com/dolthub/dolt/go/libraries/utils/filesys"
	"github.com/dolthub/dolt/go/store/hash"
)

// OpenDoltDB opens the database stored in sub-directory dirName of the server's data directory through the Go
// API. Inside the server process this resolves to the same singleton store the running server uses (dbfactory's
// per-path singleton cache), so reads see exactly what the server has written. The returned handle must not be
// closed by the caller and must not be used after the database was dropped.
func (s *Server) OpenDoltDB(dirName string) (*doltdb.DoltDB, error) {
	ctx := context.Background()
	dir := filepath.Join(s.Dir, dirName)
	fs, err := filesys.LocalFilesysWithWorkingDir(dir)
	if err != nil {
		return nil, err
	}
	home := filepath.Join(filepath.Dir(s.Dir), "home-"+filepath.Base(s.Dir))
	dEnv := env.Load(ctx, func() (string, error) { return home, nil }, fs, doltdb.LocalDirDoltDB, "verif")
	if dEnv.DBLoadError != nil {
		return nil, fmt.Errorf("open %s: %w", dir, dEnv.DBLoadError)
	}
	ddb := dEnv.DoltDB(ctx)
	if ddb == nil {
		return nil, fmt.Errorf("open %s: no database (%v)", dir, dEnv.DBLoadError)
	}
	return ddb, nil
}

// BranchRoots returns head / working / staged roots of a branch.
func BranchRoots(ddb *doltdb.DoltDB, branch string) (doltdb.Roots, error) {
	return ddb.ResolveBranchRoots(context.Background(), ref.NewBranchRef(branch))
}

// CommitRoot returns the root value of the commit with the given hash string.
func CommitRoot(ddb *doltdb.DoltDB, commitHash string) (doltdb.RootValue, error) {
	ctx := context.Background()
	h, ok := hash.MaybeParse(commitHash)
	if !ok {
		return nil, fmt.Errorf("bad commit hash %q", commitHash)
	}
	oc, err := ddb.ReadCommit(ctx, h)
	if err != nil {
		return nil, err
	}
	cm, ok := oc.ToCommit()
	if !ok {
		return nil, fmt.Errorf("commit %s is a ghost", commitHash)
	}
	return cm.GetRootValue(ctx)
}
