// Package sqlrig starts a real in-process `dolt sql-server` on a private data directory and gives monitors
// wire-level (MySQL protocol) sessions to it, so that SQL histories are recorded at the true client boundary.
// One server per process at a time (GMS system variables are process-global).
package sqlrig

import (
	"context"
	"database/sql"
	"fmt"
	"net"
	"os"
	"path/filepath"
	"sort"
	"strings"
	"sync/atomic"
	"time"

	_ "github.com/go-sql-driver/mysql"

	"github.com/dolthub/dolt/go/cmd/dolt/commands/sqlserver"
	"github.com/dolthub/dolt/go/libraries/doltcore/doltdb"
	"github.com/dolthub/dolt/go/libraries/doltcore/env"
	"github.com/dolthub/dolt/go/libraries/utils/config"
	"github.com/dolthub/dolt/go/libraries/utils/filesys"
	"github.com/dolthub/dolt/go/libraries/utils/svcs"
)

// Server is a running in-process sql-server.
type Server struct {
	Dir  string // data directory (databases are sub-directories)
	Port int
	Sock string
	DEnv *env.DoltEnv
	ctl  *svcs.Controller
	done chan error
}

var sockSeq atomic.Int64

func freePort() int {
	l, err := net.Listen("tcp", "127.0.0.1:0")
	if err != nil {
		panic(err)
	}
	defer l.Close()
	return l.Addr().(*net.TCPAddr).Port
}

// Start launches a server whose data directory is dir (created if needed). extraArgs are appended to the
// `dolt sql-server` command line.
func Start(dir string, extraArgs ...string) (*Server, error) {
	if err := os.MkdirAll(dir, 0o755); err != nil {
		return nil, err
	}
	home := filepath.Join(filepath.Dir(dir), "home-"+filepath.Base(dir))
	os.MkdirAll(home, 0o755)
	fs, err := filesys.LocalFilesysWithWorkingDir(dir)
	if err != nil {
		return nil, err
	}
	ctx := context.Background()
	dEnv := env.LoadWithoutDB(ctx, func() (string, error) { return home, nil }, fs, doltdb.LocalDirDoltDB, "verif")
	if cfg, ok := dEnv.Config.GetConfig(env.GlobalConfig); ok {
		cfg.SetStrings(map[string]string{config.UserNameKey: "verif", config.UserEmailKey: "verif@example.com"})
	}
	s := &Server{Dir: dir, Port: freePort(), DEnv: dEnv, ctl: svcs.NewController(), done: make(chan error, 1)}
	s.Sock = fmt.Sprintf("/var/tmp/verif-sock-%d-%d.sock", os.Getpid(), sockSeq.Add(1))
	os.Remove(s.Sock)
	args := []string{"-H", "127.0.0.1", "-P", fmt.Sprint(s.Port), "--socket", s.Sock, "-l", "error"}
	args = append(args, extraArgs...)
	go func() {
		s.done <- sqlserver.StartServer(ctx, "0.0.0", "dolt sql-server", args, dEnv, dEnv.FS, s.ctl)
	}()
	if err := s.ctl.WaitForStart(); err != nil {
		return nil, fmt.Errorf("server start: %w", err)
	}
	return s, nil
}

// Stop shuts the server down and waits for it.
func (s *Server) Stop() error {
	s.ctl.Stop()
	err := s.ctl.WaitForStop()
	select {
	case <-s.done:
	case <-time.After(30 * time.Second):
	}
	os.Remove(s.Sock)
	return err
}

// DSN returns the data source name for database db ("" for none).
func (s *Server) DSN(db string) string {
	return fmt.Sprintf("root:@tcp(127.0.0.1:%d)/%s?multiStatements=false&parseTime=false&interpolateParams=true", s.Port, db)
}

// Session is one wire connection (one SQL session).
type Session struct {
	DB   *sql.DB
	Conn *sql.Conn
	Name string
}

// Open opens a new session (its own TCP connection) on database db.
func (s *Server) Open(db string) (*Session, error) {
	d, err := sql.Open("mysql", s.DSN(db))
	if err != nil {
		return nil, err
	}
	d.SetMaxOpenConns(1)
	c, err := d.Conn(context.Background())
	if err != nil {
		d.Close()
		return nil, err
	}
	return &Session{DB: d, Conn: c}, nil
}

// MustOpen is Open that treats failure as harness infrastructure failure.
func (s *Server) MustOpen(db string) *Session {
	x, err := s.Open(db)
	if err != nil {
		fmt.Fprintln(os.Stderr, "VERIF-INFRA: open session:", err)
		os.Exit(3)
	}
	return x
}

// Close closes the session.
func (x *Session) Close() {
	x.Conn.Close()
	x.DB.Close()
}

// Exec runs a statement that returns no rows.
func (x *Session) Exec(q string, args ...any) error {
	_, err := x.Conn.ExecContext(context.Background(), q, args...)
	return err
}

// Rows is a query result with every value rendered canonically: NULL -> "\x00NULL", everything else the
// bytes the server sent (text protocol), so comparisons are exact and typed by position.
type Rows struct {
	Cols []string
	Data [][]string
}

// Null is the rendering of SQL NULL in Rows.
const Null = "\x00NULL"

// Query runs a statement and returns all rows.
func (x *Session) Query(q string, args ...any) (*Rows, error) {
	rs, err := x.Conn.QueryContext(context.Background(), q, args...)
	if err != nil {
		return nil, err
	}
	defer rs.Close()
	cols, err := rs.Columns()
	if err != nil {
		return nil, err
	}
	out := &Rows{Cols: cols}
	for rs.Next() {
		raw := make([]sql.RawBytes, len(cols))
		ptrs := make([]any, len(cols))
		for i := range raw {
			ptrs[i] = &raw[i]
		}
		if err := rs.Scan(ptrs...); err != nil {
			return nil, err
		}
		row := make([]string, len(cols))
		for i, b := range raw {
			if b == nil {
				row[i] = Null
			} else {
				row[i] = string(b)
			}
		}
		out.Data = append(out.Data, row)
	}
	return out, rs.Err()
}

// Sorted returns the rows as sorted strings (multiset comparison).
func (r *Rows) Sorted() []string {
	out := make([]string, len(r.Data))
	for i, row := range r.Data {
		out[i] = strings.Join(row, "\x1f")
	}
	sort.Strings(out)
	return out
}

// Strings returns the rows in result order.
func (r *Rows) Strings() []string {
	out := make([]string, len(r.Data))
	for i, row := range r.Data {
		out[i] = strings.Join(row, "\x1f")
	}
	return out
}

// Scalar returns the single value of a one-row one-column result.
func (x *Session) Scalar(q string, args ...any) (string, error) {
	r, err := x.Query(q, args...)
	if err != nil {
		return "", err
	}
	if len(r.Data) != 1 || len(r.Data[0]) < 1 {
		return "", fmt.Errorf("scalar query %q returned %d rows", q, len(r.Data))
	}
	return r.Data[0][0], nil
}

// IsInternalError reports whether an error text looks like an internal failure of the engine rather than a
// user-level error (used by the "never fails internally" clauses).
func IsInternalError(err error) bool {
	if err == nil {
		return false
	}
	s := strings.ToLower(err.Error())
	for _, m := range []string{"panic", "runtime error", "nil pointer", "index out of range", "unexpected", "invalid memory", "slice bounds", "internal error", "tuple", "descriptor"} {
		if strings.Contains(s, m) {
			return true
		}
	}
	return false
}
