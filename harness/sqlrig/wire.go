package sqlrig

import (
	"context"
	"database/sql/driver"
	"errors"
	"io"
	"net"
	"strings"

	"github.com/go-sql-driver/mysql"
)

// ExecRes runs a statement that returns no rows and reports rows-affected and last-insert-id as the server sent
// them in the OK packet (wire-level observation).
func (x *Session) ExecRes(q string, args ...any) (affected, lastID int64, err error) {
	res, err := x.Conn.ExecContext(context.Background(), q, args...)
	if err != nil {
		return 0, 0, err
	}
	affected, _ = res.RowsAffected()
	lastID, _ = res.LastInsertId()
	return affected, lastID, nil
}

// Errno returns the MySQL error number of a server-reported error, 0 for nil and for errors that did not come
// from the server (connection-class errors, driver errors).
func Errno(err error) uint16 {
	var me *mysql.MySQLError
	if errors.As(err, &me) {
		return me.Number
	}
	return 0
}

// IsConnErr reports whether err is a connection-class error: the request may or may not have been executed by
// the server, so the operation is INDETERMINATE for a history checker (never "failed").
func IsConnErr(err error) bool {
	if err == nil {
		return false
	}
	if Errno(err) != 0 {
		return false
	}
	if errors.Is(err, driver.ErrBadConn) || errors.Is(err, mysql.ErrInvalidConn) || errors.Is(err, io.EOF) ||
		errors.Is(err, io.ErrUnexpectedEOF) || errors.Is(err, context.DeadlineExceeded) || errors.Is(err, context.Canceled) {
		return true
	}
	var ne net.Error
	if errors.As(err, &ne) {
		return true
	}
	s := strings.ToLower(err.Error())
	for _, m := range []string{"invalid connection", "bad connection", "broken pipe", "connection reset", "connection refused", "busy buffer", "commands out of sync", "sql: connection is already closed", "malformed packet", "unexpected eof"} {
		if strings.Contains(s, m) {
			return true
		}
	}
	return false
}
