package vtx

import (
	"fmt"
	"math/rand"
	"sort"
	"strconv"
	"strings"
	"sync"
	"time"

	"verif/rig"
	"verif/sqlrig"
)

// This file is the shared workload runner and history recorder of C22 and C23 (DESIGN Appendix A.3).
//
// One run = one fresh database with table t(pk, c0, c1) on 1..3 branches, N wire sessions (goroutine + own TCP
// connection each) running transactions  BEGIN; R0 := full read; writes…; [Rk := full reads…]; COMMIT|ROLLBACK.
// Every written cell value is globally unique (session.tx.counter + cell), deletes write the tombstone to every cell
// of the row, so every value that is ever read identifies the transaction that wrote it.

const tomb = "\x00absent" // the tombstone ⊥: the cell's row does not exist

const ncols = 2

type cellKey struct {
	Br  string
	PK  int
	Col int
}

func (k cellKey) String() string { return fmt.Sprintf("%s/pk%d/c%d", k.Br, k.PK, k.Col) }

// writeRec is one cell write as the client knows it: the new value and the value the writer's own view held before.
type writeRec struct {
	Val   string
	Prev  string
	Cell  cellKey
	Tx    *txRec
	Seq   int  // order inside the transaction
	Final bool // last write of its transaction to this cell (intermediate values must never be visible to others)
}

type readRec struct {
	Br        string
	Qualified bool
	Kind      string // full | point
	PK        int    // point reads
	Call, Ret int64
	Rows      map[int][]string // pk -> cells (full reads: every row; point reads: 0 or 1 row)
	First     bool             // first read of this branch in the transaction
	SQL       string
}

// txRec is one transaction as observed at the client boundary.
type txRec struct {
	ID       string
	Sess     int
	Idx      int
	Home     string
	Mode     string // ac0-implicit | ac0-start | ac1-begin | bare
	SnapLo   int64  // call time of the first statement that could have started the transaction
	SnapHi   int64  // return time of the transaction's first table read (the snapshot exists by then at the latest)
	Reads    []*readRec
	Writes   []*writeRec
	End      string // commit | rollback | dolt_commit | txcommit1 | autocommit
	EndCall  int64
	EndRet   int64
	Outcome  string // committed | failed | rolledback | indeterminate | open
	Errno    uint16
	Err      string
	Hash     string // hash returned by dolt_commit
	StmtErrs []string
	Script   []string
}

func (t *txRec) brief() map[string]any {
	return map[string]any{"id": t.ID, "home": t.Home, "mode": t.Mode, "snap_lo": t.SnapLo, "snap_hi": t.SnapHi, "end": t.End,
		"end_call": t.EndCall, "end_ret": t.EndRet, "outcome": t.Outcome, "errno": t.Errno, "err": t.Err, "script": t.Script}
}

// net returns the transaction's net effect per cell: prev of its first write, value of its last write.
func (t *txRec) net() map[cellKey][2]string {
	out := map[cellKey][2]string{}
	for _, w := range t.Writes {
		if cur, ok := out[w.Cell]; ok {
			out[w.Cell] = [2]string{cur[0], w.Val}
		} else {
			out[w.Cell] = [2]string{w.Prev, w.Val}
		}
	}
	for k, v := range out {
		if v[0] == v[1] {
			delete(out, k) // e.g. insert then delete of an absent row
		}
	}
	return out
}

type txCfg struct {
	Prop        string // c22 | c23
	Sessions    int
	Branches    int
	Keys        int
	TxPerSess   int
	MaxWrites   int
	PWriteTx    float64 // probability that a transaction writes at all
	PReread     float64 // probability of each extra re-read slot being used
	POtherRead  float64 // probability that a read slot reads another branch through `db/branch`.t
	PRollback   float64
	PBare       float64 // autocommit sessions: probability that the next unit is a bare single statement
	DoltCommits bool    // allow call dolt_commit(...) as the commit statement and @@dolt_transaction_commit=1 sessions
	HomeSpread  bool    // sessions spread over the branches (otherwise almost all on the first)
}

type txRun struct {
	c        *rig.Ctx
	srv      *sqlrig.Server
	db       string
	cfg      txCfg
	seedLbl  string
	run      int
	branches []string
	init     map[cellKey]string
	initTx   *txRec
	txs      []*txRec
	reg      map[string]*writeRec
	final    map[string]map[int][]string
	heads    map[string][]headCommit // per branch, oldest first
	mu       sync.Mutex
	online   int // violations reported online by workers
}

type headCommit struct {
	Hash, Msg string
	Rows      map[int][]string
}

type txWorker struct {
	run      *txRun
	id       int
	r        *rand.Rand
	x        *sqlrig.Session
	home     string
	ac       bool // autocommit=1
	dtc      bool // @@dolt_transaction_commit=1
	useRev   bool // bound with USE `db/branch` instead of dolt_checkout
	txs      []*txRec
	bareView map[int][]string // rows seen by the last full read of home outside an explicit transaction
	vcount   int
	prevEnd  int64
}

func branchNames(n int) []string { return []string{"main", "b1", "b2"}[:n] }

func (w *txWorker) connect() error {
	x, err := w.run.srv.Open(w.run.db)
	if err != nil {
		return err
	}
	w.x = x
	var stmts []string
	if w.useRev {
		stmts = append(stmts, fmt.Sprintf("use `%s/%s`", w.run.db, w.home))
	} else if w.home != "main" {
		stmts = append(stmts, fmt.Sprintf("call dolt_checkout('%s')", w.home))
	}
	if !w.ac {
		stmts = append(stmts, "set autocommit = 0")
	}
	if w.dtc {
		stmts = append(stmts, "set @@dolt_transaction_commit = 1")
	}
	stmts = append(stmts, "commit")
	for _, s := range stmts {
		if _, err := x.Query(s); err != nil {
			return fmt.Errorf("%s: %w", s, err)
		}
	}
	return nil
}

func (w *txWorker) pause() {
	switch w.r.Intn(6) {
	case 0:
		time.Sleep(time.Duration(w.r.Intn(400)) * time.Microsecond)
	case 1:
		yield()
	}
}

func (w *txWorker) newVal(tx *txRec, cell cellKey) string {
	w.vcount++
	return fmt.Sprintf("%s.%d.%sk%dc%d", tx.ID, w.vcount, cell.Br, cell.PK, cell.Col)
}

// stmt results
type stmtRes struct {
	call, ret int64
	rows      *sqlrig.Rows
	affected  int64
	err       error
}

func (w *txWorker) do(tx *txRec, q string, isQuery bool) stmtRes {
	tx.Script = append(tx.Script, q)
	var res stmtRes
	res.call = rig.Mono()
	if isQuery {
		res.rows, res.err = w.x.Query(q)
	} else {
		res.affected, _, res.err = w.x.ExecRes(q)
	}
	res.ret = rig.Mono()
	if tx.SnapLo == 0 {
		tx.SnapLo = res.call
	}
	if res.err != nil {
		tx.Script = append(tx.Script, fmt.Sprintf("-- error errno=%d %v", sqlrig.Errno(res.err), res.err))
	}
	return res
}

func parseRows(rs *sqlrig.Rows) map[int][]string {
	out := map[int][]string{}
	for _, r := range rs.Data {
		pk, _ := strconv.Atoi(r[0])
		out[pk] = append([]string(nil), r[1:]...)
	}
	return out
}

func cloneRows(m map[int][]string) map[int][]string {
	out := make(map[int][]string, len(m))
	for k, v := range m {
		out[k] = append([]string(nil), v...)
	}
	return out
}

func rowsEq(a, b map[int][]string) bool {
	if len(a) != len(b) {
		return false
	}
	for k, v := range a {
		o, ok := b[k]
		if !ok || len(o) != len(v) {
			return false
		}
		for i := range v {
			if v[i] != o[i] {
				return false
			}
		}
	}
	return true
}

func renderRows(m map[int][]string) []string {
	var ks []int
	for k := range m {
		ks = append(ks, k)
	}
	sort.Ints(ks)
	var out []string
	for _, k := range ks {
		out = append(out, fmt.Sprintf("%d:%s", k, strings.Join(m[k], ",")))
	}
	return out
}

func (w *txWorker) tableName(br string, qualified bool) string {
	if qualified {
		return fmt.Sprintf("`%s/%s`.t", w.run.db, br)
	}
	return "t"
}

// indeterminate marks the transaction open forever and replaces the broken connection.
func (w *txWorker) indeterminate(tx *txRec, err error) {
	tx.Outcome = "indeterminate"
	tx.Err = err.Error()
	w.x.Close()
	for i := 0; i < 5; i++ {
		if e := w.connect(); e == nil {
			return
		}
		time.Sleep(20 * time.Millisecond)
	}
	rig.Must(fmt.Errorf("cannot reconnect session %d after connection error: %v", w.id, err))
}

func (w *txWorker) violation(key, what string, tx *txRec, extra map[string]any) {
	wit := map[string]any{"db": w.run.db, "run": w.run.run, "tx": tx.brief()}
	for k, v := range extra {
		wit[k] = v
	}
	w.run.mu.Lock()
	w.run.online++
	w.run.mu.Unlock()
	report(w.run.c, key, what, wit)
}

// read performs a read of branch br and checks it against the transaction's expected view (stability, own writes).
// view[br] is nil until the branch was first read in this transaction.
func (w *txWorker) read(tx *txRec, view map[string]map[int][]string, br string, qualified bool, point bool, dirtyHome bool) bool {
	tn := w.tableName(br, qualified)
	rd := &readRec{Br: br, Qualified: qualified, Kind: "full"}
	var q string
	if point {
		rd.Kind, rd.PK = "point", w.r.Intn(w.run.cfg.Keys)
		q = fmt.Sprintf("select pk, c0, c1 from %s where pk = %d", tn, rd.PK)
	} else {
		q = fmt.Sprintf("select pk, c0, c1 from %s order by pk", tn)
	}
	rd.SQL = q
	res := w.do(tx, q, true)
	rd.Call, rd.Ret = res.call, res.ret
	if res.err != nil {
		if sqlrig.IsConnErr(res.err) {
			w.indeterminate(tx, res.err)
			return false
		}
		tx.StmtErrs = append(tx.StmtErrs, q+": "+res.err.Error())
		return false
	}
	rd.Rows = parseRows(res.rows)
	if tx.SnapHi == 0 {
		tx.SnapHi = res.ret
	}
	tx.Reads = append(tx.Reads, rd)
	exp := view[br]
	if exp == nil {
		if point {
			return true // a point read does not establish the expected view of a branch
		}
		rd.First = true
		view[br] = cloneRows(rd.Rows)
		return true
	}
	var want map[int][]string
	if point {
		want = map[int][]string{}
		if r, ok := exp[rd.PK]; ok {
			want[rd.PK] = r
		}
	} else {
		want = exp
	}
	if !rowsEq(rd.Rows, want) {
		kind := "other-branch"
		if br == tx.Home {
			kind = "home-branch"
		}
		if w.run.cfg.Prop == "c22" {
			w.violation("c22/unstable-read/"+kind, fmt.Sprintf("a repeated read of %s inside one transaction differs from its first read with the transaction's own writes applied", tn),
				tx, map[string]any{"read": q, "got": renderRows(rd.Rows), "expected": renderRows(want), "call": rd.Call, "ret": rd.Ret})
		} else {
			w.run.c.Note("c23 run observed an unstable read (property C22): " + tx.ID)
		}
	}
	return true
}

// write performs one DML statement on the home branch chosen from the transaction's expected view.
// conditional = CAS-style bare statement (prev values in the WHERE clause).
func (w *txWorker) write(tx *txRec, view map[int][]string, conditional bool) (ok bool) {
	cfg := w.run.cfg
	pk := w.r.Intn(cfg.Keys)
	row, exists := view[pk]
	type cw struct {
		col       int
		prev, val string
	}
	var cws []cw
	var q string
	switch {
	case !exists:
		vals := make([]string, ncols)
		for i := 0; i < ncols; i++ {
			vals[i] = w.newVal(tx, cellKey{tx.Home, pk, i})
			cws = append(cws, cw{i, tomb, vals[i]})
		}
		q = fmt.Sprintf("insert into t (pk, c0, c1) values (%d, '%s', '%s')", pk, vals[0], vals[1])
	case w.r.Intn(10) < 7:
		cols := []int{w.r.Intn(ncols)}
		if w.r.Intn(4) == 0 {
			cols = []int{0, 1}
		}
		var sets []string
		for _, i := range cols {
			v := w.newVal(tx, cellKey{tx.Home, pk, i})
			cws = append(cws, cw{i, row[i], v})
			sets = append(sets, fmt.Sprintf("c%d = '%s'", i, v))
		}
		q = fmt.Sprintf("update t set %s where pk = %d", strings.Join(sets, ", "), pk)
		if conditional {
			for _, i := range cols {
				q += fmt.Sprintf(" and c%d = '%s'", i, row[i])
			}
		}
	default:
		for i := 0; i < ncols; i++ {
			cws = append(cws, cw{i, row[i], tomb})
		}
		q = fmt.Sprintf("delete from t where pk = %d", pk)
		if conditional {
			q += fmt.Sprintf(" and c0 = '%s' and c1 = '%s'", row[0], row[1])
		}
	}
	// register the values before the statement is sent: a value is attributable even if the reply is lost
	var recs []*writeRec
	for _, x := range cws {
		recs = append(recs, &writeRec{Val: x.val, Prev: x.prev, Cell: cellKey{tx.Home, pk, x.col}, Tx: tx, Seq: len(tx.Writes) + len(recs)})
	}
	res := w.do(tx, q, false)
	if tx.Mode == "bare" {
		tx.EndCall, tx.EndRet = res.call, res.ret
	}
	if res.err != nil {
		tx.Writes = append(tx.Writes, recs...) // attempted: their values must never become visible unless the tx commits
		if sqlrig.IsConnErr(res.err) {
			w.indeterminate(tx, res.err)
			return false
		}
		no := sqlrig.Errno(res.err)
		if tx.Mode == "bare" {
			tx.Errno, tx.Err = no, res.err.Error()
			tx.Outcome = "failed"
			if no == 1062 && !exists {
				tx.End = "autocommit-duplicate" // legal: the row exists in the statement's own fresh snapshot
			}
			return false
		}
		if no == 1062 && !exists {
			if cfg.Prop == "c22" {
				w.violation("c22/write-sees-nonsnapshot", "INSERT of a key that is absent from the transaction's snapshot failed with a duplicate-key error: the write path read a state other than the snapshot",
					tx, map[string]any{"stmt": q, "error": res.err.Error(), "view": renderRows(view)})
			} else {
				w.run.c.Note("c23 run observed a duplicate-key error against the snapshot (property C22): " + tx.ID)
			}
		}
		tx.StmtErrs = append(tx.StmtErrs, q+": "+res.err.Error())
		return false
	}
	if res.affected != 1 {
		if conditional && res.affected == 0 {
			// CAS did not apply: the statement's snapshot held other values. Nothing was written.
			tx.Writes = append(tx.Writes, recs...)
			tx.Outcome = "failed"
			tx.End = "autocommit-cas-miss"
			return false
		}
		tx.Writes = append(tx.Writes, recs...)
		if cfg.Prop == "c22" {
			w.violation("c22/write-sees-nonsnapshot", fmt.Sprintf("a single-row DML chosen from the transaction's snapshot affected %d rows instead of 1: the write path read a state other than the snapshot", res.affected),
				tx, map[string]any{"stmt": q, "view": renderRows(view)})
		} else {
			w.run.c.Note(fmt.Sprintf("c23 run: DML affected %d rows instead of 1 (property C22): %s", res.affected, tx.ID))
		}
		tx.StmtErrs = append(tx.StmtErrs, q+": unexpected rows affected")
		return false
	}
	tx.Writes = append(tx.Writes, recs...)
	// apply to the expected view
	switch {
	case !exists:
		nr := make([]string, ncols)
		for _, x := range cws {
			nr[x.col] = x.val
		}
		view[pk] = nr
	case cws[0].val == tomb:
		delete(view, pk)
	default:
		for _, x := range cws {
			view[pk][x.col] = x.val
		}
	}
	return true
}

func (w *txWorker) otherBranch() string {
	bs := w.run.branches
	if len(bs) == 1 {
		return w.home
	}
	for {
		b := bs[w.r.Intn(len(bs))]
		if b != w.home {
			return b
		}
	}
}

// bare runs one single-statement autocommit transaction.
func (w *txWorker) bare(idx int) {
	tx := &txRec{ID: fmt.Sprintf("s%d.%d", w.id, idx), Sess: w.id, Idx: idx, Home: w.home, Mode: "bare", End: "autocommit", Outcome: "open"}
	w.txs = append(w.txs, tx)
	if w.dtc {
		w.do(tx, fmt.Sprintf("set @@dolt_transaction_commit_message = 'tx:%s'", tx.ID), false)
		tx.SnapLo = 0
	}
	if w.bareView == nil || w.r.Float64() < 0.45 || w.run.cfg.PWriteTx == 0 {
		view := map[string]map[int][]string{}
		br, qual := w.home, w.r.Intn(3) == 0
		if w.r.Float64() < w.run.cfg.POtherRead {
			br, qual = w.otherBranch(), true
		}
		if !w.read(tx, view, br, qual, false, false) {
			if tx.Outcome == "open" {
				tx.Outcome = "failed"
			}
			return
		}
		rd := tx.Reads[len(tx.Reads)-1]
		tx.EndCall, tx.EndRet = rd.Call, rd.Ret
		tx.Outcome = "committed"
		if br == w.home {
			w.bareView = cloneRows(rd.Rows)
		}
		return
	}
	view := cloneRows(w.bareView)
	ok := w.write(tx, view, true)
	if ok {
		tx.Outcome = "committed"
		tx.SnapHi = tx.EndRet
		w.bareView = view
	} else {
		if tx.Outcome == "open" {
			tx.Outcome = "failed"
		}
		w.bareView = nil // stale: re-read before the next CAS
	}
}

func (w *txWorker) oneTx(idx int) {
	cfg := w.run.cfg
	if w.ac && w.r.Float64() < cfg.PBare {
		w.bare(idx)
		return
	}
	tx := &txRec{ID: fmt.Sprintf("s%d.%d", w.id, idx), Sess: w.id, Idx: idx, Home: w.home, Outcome: "open"}
	w.txs = append(w.txs, tx)
	if w.dtc {
		// session variable only; set before the transaction is opened
		w.do(tx, fmt.Sprintf("set @@dolt_transaction_commit_message = 'tx:%s'", tx.ID), false)
	}
	explicit := ""
	switch {
	case w.ac:
		tx.Mode, explicit = "ac1-begin", "begin"
	case w.r.Intn(2) == 0:
		tx.Mode, explicit = "ac0-start", "start transaction"
	default:
		tx.Mode = "ac0-implicit"
	}
	if explicit != "" {
		res := w.do(tx, explicit, false)
		tx.SnapLo = res.call // START TRANSACTION / BEGIN ends any open transaction and opens this one
		if res.err != nil {
			if sqlrig.IsConnErr(res.err) {
				w.indeterminate(tx, res.err)
			} else {
				tx.Outcome, tx.Err = "failed", res.err.Error()
			}
			return
		}
	}
	w.pause()
	view := map[string]map[int][]string{}
	abort := func() {
		if tx.Outcome == "indeterminate" {
			return
		}
		res := w.do(tx, "rollback", false)
		tx.End, tx.EndCall, tx.EndRet = "rollback-after-error", res.call, res.ret
		tx.Outcome = "rolledback"
		if res.err != nil && sqlrig.IsConnErr(res.err) {
			w.indeterminate(tx, res.err)
		}
	}
	// R0: full read of the home branch (through the qualified name only while the transaction has no own writes)
	if !w.read(tx, view, w.home, w.r.Intn(4) == 0, false, false) {
		abort()
		return
	}
	readSlot := func(wrote bool) bool {
		br, qual := w.home, false
		if w.r.Float64() < cfg.POtherRead {
			br, qual = w.otherBranch(), true
		}
		if br == w.home && !wrote && w.r.Intn(3) == 0 {
			qual = true
		}
		return w.read(tx, view, br, qual, w.r.Intn(5) == 0, wrote)
	}
	if w.r.Float64() < cfg.PReread {
		if !readSlot(false) {
			abort()
			return
		}
	}
	nw := 0
	if w.r.Float64() < cfg.PWriteTx {
		nw = 1 + w.r.Intn(cfg.MaxWrites)
	}
	wrote := false
	for i := 0; i < nw; i++ {
		w.pause()
		if !w.write(tx, view[w.home], false) {
			abort()
			return
		}
		wrote = true
		if w.r.Float64() < cfg.PReread {
			if !readSlot(true) {
				abort()
				return
			}
		}
	}
	for i := 0; i < 2; i++ {
		if w.r.Float64() < cfg.PReread {
			w.pause()
			if !readSlot(wrote) {
				abort()
				return
			}
		}
	}
	w.pause()
	// end of transaction
	if w.r.Float64() < cfg.PRollback {
		res := w.do(tx, "rollback", false)
		tx.End, tx.EndCall, tx.EndRet = "rollback", res.call, res.ret
		tx.Outcome = "rolledback"
		if res.err != nil {
			if sqlrig.IsConnErr(res.err) {
				w.indeterminate(tx, res.err)
			} else {
				tx.Err = res.err.Error()
			}
		}
		return
	}
	q, isQ := "commit", false
	tx.End = "commit"
	if w.dtc {
		tx.End = "txcommit1"
	} else if cfg.DoltCommits && len(tx.net()) > 0 && w.r.Intn(3) == 0 {
		tx.End = "dolt_commit"
		q, isQ = fmt.Sprintf("call dolt_commit('-A', '-m', 'tx:%s')", tx.ID), true
	}
	res := w.do(tx, q, isQ)
	tx.EndCall, tx.EndRet = res.call, res.ret
	// CALL dolt_commit commits the SQL transaction but does not end a BEGIN block of an autocommit session (the session
	// keeps ignoring @@autocommit until a COMMIT/ROLLBACK statement): leave the block explicitly so that the following
	// bare statements really are single-statement transactions. The extra COMMIT has nothing to commit.
	leaveBlock := func() {
		if tx.End == "dolt_commit" && w.ac {
			if r2 := w.do(tx, "commit", false); r2.err != nil {
				w.run.c.Note("commit after dolt_commit failed: " + r2.err.Error())
				if sqlrig.IsConnErr(r2.err) {
					w.x.Close()
					rig.Must(w.connect())
				}
			}
		}
	}
	switch {
	case res.err == nil:
		tx.Outcome = "committed"
		if isQ && len(res.rows.Data) > 0 {
			tx.Hash = res.rows.Data[0][0]
		}
		leaveBlock()
	case sqlrig.IsConnErr(res.err):
		w.indeterminate(tx, res.err)
	case tx.End == "dolt_commit" && strings.Contains(res.err.Error(), "nothing to commit"):
		// doDoltCommit finalizes the SQL transaction (CommitTransaction succeeded) before it reports that there is no
		// difference to HEAD to make a Dolt commit from: the SQL transaction IS committed, only no Dolt commit exists.
		tx.Outcome, tx.Err = "committed", res.err.Error()
		leaveBlock()
		tx.End = "dolt_commit-nothing-to-commit"
	default:
		tx.Outcome, tx.Errno, tx.Err = "failed", sqlrig.Errno(res.err), res.err.Error()
		// the server has rolled the transaction back; make sure the session is out of it
		if r2 := w.do(tx, "rollback", false); r2.err != nil && sqlrig.IsConnErr(r2.err) {
			w.x.Close()
			rig.Must(w.connect())
		}
	}
}

// execRun executes one run and fills r.txs, r.final, r.heads. Returns false when the set-up failed.
func (r *txRun) execRun() bool {
	c, cfg := r.c, r.cfg
	rr := c.SubRand(r.seedLbl, r.run)
	r.branches = branchNames(cfg.Branches)
	r.init = map[cellKey]string{}
	r.reg = map[string]*writeRec{}
	r.initTx = &txRec{ID: "init", Outcome: "committed", Mode: "init"}
	adm := r.srv.MustOpen("")
	defer adm.Close()
	setup := []string{"create database " + r.db, "use " + r.db,
		"create table t (pk bigint primary key, c0 varchar(48), c1 varchar(48))"}
	present := map[int]bool{}
	for k := 0; k < cfg.Keys; k++ {
		if rr.Intn(3) != 0 {
			present[k] = true
		}
	}
	for _, br := range r.branches {
		for k := 0; k < cfg.Keys; k++ {
			for col := 0; col < ncols; col++ {
				ck := cellKey{br, k, col}
				if present[k] {
					r.init[ck] = fmt.Sprintf("i.%sk%dc%d", br, k, col)
				} else {
					r.init[ck] = tomb
				}
			}
		}
	}
	for k := 0; k < cfg.Keys; k++ {
		if present[k] {
			setup = append(setup, fmt.Sprintf("insert into t values (%d, 'i.maink%dc0', 'i.maink%dc1')", k, k, k))
		}
	}
	setup = append(setup, "call dolt_commit('-Am', 'init main')")
	for _, br := range r.branches[1:] {
		setup = append(setup, fmt.Sprintf("call dolt_checkout('-b', '%s')", br),
			fmt.Sprintf("update t set c0 = concat('i.%sk', pk, 'c0'), c1 = concat('i.%sk', pk, 'c1')", br, br),
			fmt.Sprintf("call dolt_commit('--allow-empty', '-Am', 'init %s')", br), "call dolt_checkout('main')")
	}
	for _, s := range setup {
		if _, err := adm.Query(s); err != nil {
			rig.Must(fmt.Errorf("run set-up %q: %w", s, err))
		}
	}
	for ck, v := range r.init {
		if v != tomb {
			r.reg[v] = &writeRec{Val: v, Prev: tomb, Cell: ck, Tx: r.initTx, Final: true}
		}
	}
	// sessions
	workers := make([]*txWorker, cfg.Sessions)
	for i := range workers {
		wr := c.SubRand(fmt.Sprintf("%s/%d/w", r.seedLbl, r.run), i)
		w := &txWorker{run: r, id: i, r: wr}
		w.home = r.branches[0]
		if cfg.HomeSpread || wr.Intn(5) == 0 {
			w.home = r.branches[wr.Intn(len(r.branches))]
		}
		w.ac = wr.Intn(2) == 0
		w.useRev = wr.Intn(2) == 0
		w.dtc = cfg.DoltCommits && wr.Intn(5) == 0
		rig.Must(w.connect())
		workers[i] = w
	}
	var wg sync.WaitGroup
	start := make(chan struct{})
	for _, w := range workers {
		wg.Add(1)
		go func(w *txWorker) {
			defer wg.Done()
			<-start
			for k := 0; k < cfg.TxPerSess; k++ {
				w.oneTx(k)
			}
		}(w)
	}
	close(start)
	wg.Wait()
	for _, w := range workers {
		w.x.Close()
		r.txs = append(r.txs, w.txs...)
	}
	// registry of every value that was ever sent to the server
	for _, tx := range r.txs {
		last := map[cellKey]*writeRec{}
		for _, wr := range tx.Writes {
			if wr.Val != tomb {
				r.reg[wr.Val] = wr
			}
			last[wr.Cell] = wr
		}
		for _, wr := range last {
			wr.Final = true
		}
	}
	// final state and Dolt commit history through a fresh session
	fin := r.srv.MustOpen(r.db)
	defer fin.Close()
	r.final = map[string]map[int][]string{}
	r.heads = map[string][]headCommit{}
	for _, br := range r.branches {
		rs, err := fin.Query(fmt.Sprintf("select pk, c0, c1 from `%s/%s`.t order by pk", r.db, br))
		rig.Must(err)
		r.final[br] = parseRows(rs)
		if cfg.DoltCommits {
			rig.Must(fin.Exec(fmt.Sprintf("use `%s/%s`", r.db, br)))
			lg, err := fin.Query("select commit_hash, message from dolt_log")
			rig.Must(err)
			for i := len(lg.Data) - 1; i >= 0; i-- {
				h, msg := lg.Data[i][0], lg.Data[i][1]
				if !strings.HasPrefix(msg, "tx:") && !strings.HasPrefix(msg, "init "+br) {
					continue
				}
				rows, err := fin.Query(fmt.Sprintf("select pk, c0, c1 from t as of '%s' order by pk", h))
				rig.Must(err)
				r.heads[br] = append(r.heads[br], headCommit{Hash: h, Msg: msg, Rows: parseRows(rows)})
			}
		}
	}
	adm.Exec("drop database " + r.db)
	return true
}

func (r *txRun) payload() map[string]any {
	return map[string]any{"db": r.db, "run": r.run, "sessions": r.cfg.Sessions, "branches": r.cfg.Branches, "keys": r.cfg.Keys,
		"tx_per_session": r.cfg.TxPerSess, "note": "session scripts are generated from SubRand(label/run/w, session) and each session's reads; replay = same seed"}
}
