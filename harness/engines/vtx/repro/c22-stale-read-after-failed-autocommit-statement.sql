# Reproduction for finding key c22/stale-snapshot/after-failed-autocommit-statement. Run: .build/vtx probe <this file>
# Session A (autocommit=1) runs an INSERT that fails (duplicate key). B then commits an UPDATE (acknowledged). A's NEXT statement still reads the
# snapshot taken for the failed statement (pk 2 = b, not NEW); only the statement after that sees NEW: the failed statement's transaction was not ended.
create database d
use d
create table t (pk bigint primary key, c0 varchar(48))
insert into t values (1,'a'),(2,'b')
@A use d
@B use d
@A select @@autocommit
@A insert into t values (1,'dup')
@B update t set c0 = 'NEW' where pk = 2
@A select * from t
@A select * from t
