# Aside (not a C22-C28 violation; the harness works around it): after CALL dolt_commit inside BEGIN (autocommit=1) the session keeps
# ignoring @@autocommit: the following UPDATEs are not committed until the next BEGIN/COMMIT. Run: .build/vtx probe <this file>
create database d
use d
create table t (pk bigint primary key, c0 varchar(48), c1 varchar(48))
insert into t values (1,'a','b'),(2,'a2','b2')
call dolt_commit('-Am','init')
@A use d
@B use d
@A begin
@A update t set c0='x' where pk=1
@A call dolt_commit('-A','-m','A1')
@A update t set c0='q' where pk=2
@B select * from t
@A begin
@A delete from t where pk=1
@A call dolt_commit('-A','-m','A2')
@A update t set c0='r' where pk=2
@B select * from t
@A insert into t values (5,'n','m')
@A begin
@A delete from t where pk=5
@A call dolt_commit('-A','-m','A3')
@A update t set c0='s' where pk=2
@B select * from t
@A commit
@B select * from t
