# Reproduction for finding keys c28/after-lowering-alter/*. Run: .build/vtx probe <this file>
# Session A holds generated ids 1..3 in an open transaction on main; ALTER TABLE a AUTO_INCREMENT = 2 on branch b1 resets the
# global counter from the persisted working sets only, so B is handed id 2 again; after A commits, id 2 exists on both branches.
create database d
use d
create table a (id bigint primary key auto_increment, payload varchar(64))
call dolt_commit('-Am','init')
call dolt_branch('b1')
@A use d
@A set autocommit=0
@A insert into a (payload) values ('A1'),('A2'),('A3')
@A select id, payload from a
@B use `d/b1`
@B alter table a auto_increment = 2
@B insert into a (payload) values ('B1')
@B select last_insert_id()
@A commit
@A select id, payload from a
@B select id, payload from a
