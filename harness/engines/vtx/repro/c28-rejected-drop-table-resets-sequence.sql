# Reproduction for finding keys c28/after-failed-drop/*. Run: .build/vtx probe <this file>
# DROP TABLE a by session B is REJECTED (errno 1105, schema conflict with A's concurrent insert) and rolled back: table a still holds ids 1..4 on main.
# Yet the global sequence was reset: branch b1 is handed id 1 again and the next insert on main fails with "duplicate primary key given: [2]".
create database d
use d
create table a (id bigint primary key auto_increment, payload varchar(64))
call dolt_commit('-Am','init')
call dolt_branch('b1')
@A use d
@A insert into a (payload) values ('A1'),('A2'),('A3')
@B use d
@B set autocommit=0
@B start transaction
@B select count(*) from a
@A insert into a (payload) values ('A4')
@B drop table a
@B rollback
@D use `d/b1`
@D insert into a (payload) values ('D1')
@D select last_insert_id()
@A select id, payload from a
@D select id, payload from a
@A insert into a (payload) values ('A5')
@A select id, payload from a
