# Reproduction for finding key c23/dolt-commit-misses-own-write. Run: .build/vtx probe <this file>
# Expected by C23/A.3: the Dolt commit created by session B contains B's own update (c0 = y for pk 0).
# Observed: commit B holds c0 = x (the value staged by Z), the working set holds y, dolt_status shows t modified.
create database d
use d
create table t (pk bigint primary key, c0 varchar(10), c1 varchar(10))
insert into t values (0,'a','b'),(1,'a1','b1')
call dolt_commit('-Am','init')
@A use d
@A update t set c0='x' where pk=0
@B use d
@B set autocommit=0
@B start transaction
@B select * from t
@C use d
@C call dolt_commit('-Am','Z')
@B update t set c0='y' where pk=0
@B update t set c1='y1' where pk=1
@B call dolt_commit('-A','-m','B')
@B select * from t
@B select * from t as of 'HEAD'
@B select * from dolt_status
@B select commit_hash, message from dolt_log
@B select * from dolt_conflicts
