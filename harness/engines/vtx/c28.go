package vtx

import (
	"fmt"
	"math/rand"
	"sort"
	"strconv"
	"strings"
	"sync"
	"sync/atomic"
	"time"

	"verif/rig"
	"verif/sqlrig"
)

// C28 — auto-increment values are never handed out twice (DESIGN §4 C28).
//
// Ledger of every id the server handed out or accepted: (session, branch, kind, id, call, return), built from the
// LAST_INSERT_ID of the OK packet and from reading the inserted rows back by their unique payload column.
//   * uniqueness of GENERATED ids is global over sessions and branches of one database for one server lifetime;
//   * monotonicity only along happens-before: a generated id must be larger than every id (generated or explicit) whose
//     insert had RETURNED before this insert was INVOKED (this also says that an explicit larger value on one branch
//     moves the sequence for every branch);
//   * gaps are legal; DROP TABLE cuts the ledger: only inserts that both returned before the drop was invoked, or were
//     both invoked after the drop returned, are compared (inserts overlapping a drop are compared with nothing).

type ledgerEntry struct {
	Sess      int    `json:"sess"`
	Branch    string `json:"branch"`
	Kind      string `json:"kind"` // generated | explicit
	ID        int64  `json:"id"`
	Call, Ret int64
	Stmt      string `json:"stmt"`
	Payload   string `json:"payload"`
	TxEnd     string `json:"tx_end,omitempty"` // autocommit | commit | rollback | commit-failed (filled later)
	epochLo   int
	epochHi   int
}

type ddlEvent struct {
	Kind      string // drop | alter
	N         int64
	Branch    string
	Sess      int
	Call, Ret int64
	Err       string
}

type c28Run struct {
	c        *rig.Ctx
	srv      *sqlrig.Server
	db       string
	run      int
	sessions int
	opsPer   int
	allowDDL bool
	mu       sync.Mutex
	ledger   []*ledgerEntry
	ddl      []ddlEvent
	stats    map[string]int
	maxSeen  atomic.Int64
}

const c28Create = "create table a (id bigint primary key auto_increment, payload varchar(64), u int, k int default 0, unique key uu (u))"

type c28Worker struct {
	run    *c28Run
	id     int
	r      *rand.Rand
	x      *sqlrig.Session
	branch string
	ac     bool
	useRev bool
	seq    int
	local  []*ledgerEntry // entries of the open transaction (to set TxEnd)
	stats  map[string]int
}

func (w *c28Worker) connect() error {
	x, err := w.run.srv.Open(w.run.db)
	if err != nil {
		return err
	}
	w.x = x
	var stmts []string
	if w.useRev {
		stmts = append(stmts, fmt.Sprintf("use `%s/%s`", w.run.db, w.branch))
	} else if w.branch != "main" {
		stmts = append(stmts, fmt.Sprintf("call dolt_checkout('%s')", w.branch))
	}
	if !w.ac {
		stmts = append(stmts, "set autocommit = 0")
	}
	for _, s := range stmts {
		if _, err := x.Query(s); err != nil {
			return fmt.Errorf("%s: %w", s, err)
		}
	}
	return nil
}

func (w *c28Worker) reconnect() {
	w.x.Close()
	for i := 0; i < 5; i++ {
		if w.connect() == nil {
			return
		}
		time.Sleep(20 * time.Millisecond)
	}
	rig.Must(fmt.Errorf("c28: session %d cannot reconnect", w.id))
}

func (w *c28Worker) payload() string {
	w.seq++
	return fmt.Sprintf("r%d.s%d.%d", w.run.run, w.id, w.seq)
}

func (w *c28Worker) note(k string) { w.stats[k]++ }

func (w *c28Worker) add(e *ledgerEntry) {
	e.Sess, e.Branch = w.id, w.branch
	if w.ac {
		e.TxEnd = "autocommit"
	} else {
		w.local = append(w.local, e)
	}
	w.run.mu.Lock()
	w.run.ledger = append(w.run.ledger, e)
	w.run.mu.Unlock()
	for {
		m := w.run.maxSeen.Load()
		if e.ID <= m || w.run.maxSeen.CompareAndSwap(m, e.ID) {
			break
		}
	}
}

// readBack fetches the ids of the rows with the given payloads as this session sees them.
func (w *c28Worker) readBack(payloads []string) (map[string]int64, error) {
	var lits []string
	for _, p := range payloads {
		lits = append(lits, "'"+p+"'")
	}
	rs, err := w.x.Query("select payload, id from a where payload in (" + strings.Join(lits, ", ") + ")")
	if err != nil {
		return nil, err
	}
	out := map[string]int64{}
	for _, r := range rs.Data {
		id, _ := strconv.ParseInt(r[1], 10, 64)
		if _, dup := out[r[0]]; dup {
			report(w.run.c, "c28/duplicate-payload-row", "two rows carry the same unique payload: "+r[0], nil)
		}
		out[r[0]] = id
	}
	return out, nil
}

func (w *c28Worker) insertGenerated(rows int, odku bool) {
	var payloads, vals []string
	for i := 0; i < rows; i++ {
		p := w.payload()
		payloads = append(payloads, p)
		switch {
		case odku:
			vals = append(vals, fmt.Sprintf("('%s', %d)", p, w.r.Intn(6)))
		case w.r.Intn(4) == 0:
			vals = append(vals, fmt.Sprintf("(%s, '%s')", []string{"0", "null", "default"}[w.r.Intn(3)], p))
		default:
			vals = append(vals, fmt.Sprintf("('%s')", p))
		}
	}
	var q string
	switch {
	case odku:
		q = "insert into a (payload, u) values " + strings.Join(vals, ", ") + " on duplicate key update k = k + 1"
	case strings.HasPrefix(vals[0], "('"):
		for i := range vals { // uniform column list
			if !strings.HasPrefix(vals[i], "('") {
				vals[i] = "('" + payloads[i] + "')"
			}
		}
		q = "insert into a (payload) values " + strings.Join(vals, ", ")
	default:
		for i := range vals {
			if strings.HasPrefix(vals[i], "('") {
				vals[i] = "(null, '" + payloads[i] + "')"
			}
		}
		q = "insert into a (id, payload) values " + strings.Join(vals, ", ")
	}
	call := rig.Mono()
	_, lastID, err := w.x.ExecRes(q)
	ret := rig.Mono()
	if err != nil {
		if sqlrig.IsConnErr(err) {
			w.note("indeterminate_inserts")
			w.reconnect()
			return
		}
		w.note("insert_errors")
		w.note(fmt.Sprintf("insert_errno_%d", sqlrig.Errno(err)))
		return
	}
	got, err := w.readBack(payloads)
	if err != nil {
		if sqlrig.IsConnErr(err) {
			w.reconnect()
		}
		w.note("readback_errors")
		// the OK packet is still an observation of a handed-out id
		if lastID > 0 && !odku {
			w.add(&ledgerEntry{Kind: "generated", ID: lastID, Call: call, Ret: ret, Stmt: q, Payload: payloads[0] + " (from OK packet only)"})
		}
		return
	}
	first := int64(0)
	for i, p := range payloads {
		id, ok := got[p]
		if !ok {
			if !odku {
				report(w.run.c, "c28/inserted-row-missing", "a row whose INSERT was acknowledged is not visible to the inserting session", map[string]any{"stmt": q, "payload": p})
			} else {
				w.note("odku_updates")
			}
			continue
		}
		if i == 0 || first == 0 {
			first = id
		}
		if odku {
			w.note("odku_inserts")
		}
		w.add(&ledgerEntry{Kind: "generated", ID: id, Call: call, Ret: ret, Stmt: q, Payload: p})
	}
	w.note("generated_insert_stmts")
	if rows > 1 {
		w.note("multi_row_insert_stmts")
	}
	if !odku && first != 0 {
		w.note("last_insert_id_checked")
		if lastID != first {
			w.note("last_insert_id_differs_from_first_row")
			report(w.run.c, "c28/last-insert-id-mismatch", fmt.Sprintf("LAST_INSERT_ID in the OK packet is %d but the first row inserted by the statement got id %d", lastID, first),
				map[string]any{"stmt": q, "rows": got, "session": w.id, "branch": w.branch})
		}
		if w.r.Intn(8) == 0 {
			if v, err := w.x.Scalar("select last_insert_id()"); err == nil && v != fmt.Sprint(first) {
				report(w.run.c, "c28/last-insert-id-mismatch", fmt.Sprintf("LAST_INSERT_ID() returns %s but the first row inserted by the statement got id %d", v, first),
					map[string]any{"stmt": q, "rows": got, "session": w.id, "branch": w.branch})
			}
		}
	}
}

func (w *c28Worker) insertExplicit(above bool) {
	m := w.run.maxSeen.Load()
	var id int64
	if above {
		id = m + 1 + int64(w.r.Intn(40))
	} else {
		if m < 3 {
			return
		}
		id = 1 + w.r.Int63n(m)
	}
	p := w.payload()
	q := fmt.Sprintf("insert into a (id, payload) values (%d, '%s')", id, p)
	call := rig.Mono()
	_, _, err := w.x.ExecRes(q)
	ret := rig.Mono()
	if err != nil {
		if sqlrig.IsConnErr(err) {
			w.reconnect()
			return
		}
		w.note(fmt.Sprintf("explicit_insert_errno_%d", sqlrig.Errno(err)))
		return
	}
	got, err := w.readBack([]string{p})
	if err != nil || got[p] != id {
		if err == nil {
			w.note("diag_explicit_row_not_read_back")
		} else if sqlrig.IsConnErr(err) {
			w.reconnect()
		}
		return
	}
	if above {
		w.note("explicit_above_ok")
	} else {
		w.note("explicit_below_ok")
	}
	w.add(&ledgerEntry{Kind: "explicit", ID: id, Call: call, Ret: ret, Stmt: q, Payload: p})
}

func (w *c28Worker) endTx(how string) string {
	if w.ac {
		return "autocommit"
	}
	q := "commit"
	if how == "rollback" {
		q = "rollback"
	}
	err := w.x.Exec(q)
	end := how
	if err != nil {
		if sqlrig.IsConnErr(err) {
			w.reconnect()
			end = "indeterminate"
		} else {
			end = "commit-failed"
			w.note(fmt.Sprintf("commit_errno_%d", sqlrig.Errno(err)))
			w.x.Exec("rollback")
		}
	}
	w.run.mu.Lock()
	for _, e := range w.local {
		e.TxEnd = end
	}
	w.run.mu.Unlock()
	w.local = nil
	w.note("tx_" + end)
	return end
}

func (w *c28Worker) ddl(kind string) {
	w.endTx("commit")
	if kind == "drop" {
		w.dropAndRecreate()
		return
	}
	ev := ddlEvent{Kind: "alter", Branch: w.branch, Sess: w.id}
	switch kind {
	case "alter-up":
		ev.N = w.run.maxSeen.Load() + 5 + int64(w.r.Intn(60))
	case "alter-down":
		m := w.run.maxSeen.Load()
		if m < 4 {
			return
		}
		ev.N = 1 + w.r.Int63n(m)
	}
	q := fmt.Sprintf("alter table a auto_increment = %d", ev.N)
	ev.Call = rig.Mono()
	err := w.x.Exec(q)
	ev.Ret = rig.Mono()
	if err != nil {
		ev.Err = err.Error()
		if sqlrig.IsConnErr(err) {
			w.reconnect()
		}
		w.noteDDLError(q, err)
	}
	w.endTx("commit")
	w.run.mu.Lock()
	w.run.ddl = append(w.run.ddl, ev)
	w.run.mu.Unlock()
	w.note("ddl_" + kind)
	if err != nil {
		w.note("ddl_" + kind + "_errors")
	}
}

func (w *c28Worker) noteDDLError(q string, err error) {
	if w.stats["ddl_error_notes"] < 2 {
		w.stats["ddl_error_notes"]++
		w.run.c.Note("c28: " + q + " failed: " + firstLine(err.Error()))
	}
}

// dropAndRecreate tries DROP TABLE a; CREATE TABLE a (same definition) on the current branch until one attempt is
// committed (other sessions keep inserting into the same branch, so the drop's commit often loses with a schema
// conflict). A committed drop cuts the ledger (kind "drop"); an attempt that was rejected and rolled back did not
// happen and cuts nothing (kind "failed-drop"); an attempt with a connection error may have happened (cut).
func (w *c28Worker) dropAndRecreate() {
	for attempt := 0; attempt < 6; attempt++ {
		ev := ddlEvent{Kind: "drop", Branch: w.branch, Sess: w.id}
		ev.Call = rig.Mono()
		err := w.x.Exec("drop table a")
		end := ""
		if err == nil {
			if err2 := w.x.Exec(c28Create); err2 != nil {
				w.note("recreate_errors")
				w.noteDDLError("create table a", err2)
			}
			end = w.endTx("commit")
		}
		ev.Ret = rig.Mono()
		switch {
		case err != nil && sqlrig.IsConnErr(err), end == "indeterminate":
			if err != nil {
				w.reconnect()
			}
			ev.Err = "indeterminate"
		case err != nil || end == "commit-failed":
			ev.Kind = "failed-drop"
			if err != nil {
				ev.Err = err.Error()
				w.noteDDLError("drop table a", err)
				w.endTx("rollback")
			} else {
				ev.Err = "commit of drop+create rejected"
			}
		}
		w.run.mu.Lock()
		w.run.ddl = append(w.run.ddl, ev)
		w.run.mu.Unlock()
		w.note("ddl_" + ev.Kind)
		if ev.Kind == "drop" {
			return
		}
	}
}

func (w *c28Worker) checkout() {
	w.endTx("commit")
	bs := []string{"main", "b1", "b2"}
	nb := bs[w.r.Intn(3)]
	var q string
	if w.useRev && w.r.Intn(2) == 0 {
		q = fmt.Sprintf("use `%s/%s`", w.run.db, nb)
	} else {
		q = fmt.Sprintf("call dolt_checkout('%s')", nb)
	}
	if _, err := w.x.Query(q); err != nil {
		if sqlrig.IsConnErr(err) {
			w.reconnect()
		}
		w.note("checkout_errors")
		return
	}
	if v, err := w.x.Scalar("select active_branch()"); err == nil {
		w.branch = v
	}
	w.note("branch_switches")
}

func (w *c28Worker) loop() {
	for i := 0; i < w.run.opsPer; i++ {
		if w.run.allowDDL && w.id == 0 && i == w.run.opsPer/2 {
			w.ddl("drop") // one DROP + CREATE per run with DDL, by session 0, while the others keep inserting
			continue
		}
		switch n := w.r.Intn(100); {
		case n < 45:
			w.insertGenerated(1, false)
		case n < 60:
			w.insertGenerated(2+w.r.Intn(4), false)
		case n < 68:
			w.insertGenerated(1+w.r.Intn(2), true)
		case n < 75:
			w.insertExplicit(true)
		case n < 80:
			w.insertExplicit(false)
		case n < 88:
			w.checkout()
		case n < 91 && w.run.allowDDL:
			w.ddl("alter-up")
		case n < 93 && w.run.allowDDL:
			w.ddl("alter-down")
		default:
			w.insertGenerated(1, false)
		}
		if !w.ac && w.r.Intn(3) == 0 {
			if w.r.Intn(4) == 0 {
				w.endTx("rollback")
			} else {
				w.endTx("commit")
			}
		}
		if w.r.Intn(5) == 0 {
			time.Sleep(time.Duration(w.r.Intn(300)) * time.Microsecond)
		}
	}
	w.endTx("commit")
}

func c28(c *rig.Ctx) {
	c.Rule("seeded runs: fresh database, table a(id auto_increment, unique payload, unique u) on branches main/b1/b2; 8-32 wire sessions " +
		"(autocommit on/off, bound by dolt_checkout or USE db/branch) doing single- and multi-row generated inserts (id omitted, 0, NULL, DEFAULT), " +
		"explicit ids above and below the sequence, INSERT … ON DUPLICATE KEY UPDATE, rollbacks, branch switches, ALTER TABLE … AUTO_INCREMENT= " +
		"(up and down) and DROP+CREATE of the table. Every acknowledged insert is entered in a ledger with the ids read back through the " +
		"unique payload; checked: no generated id twice (globally), every generated id larger than every id whose insert had returned before " +
		"this insert was invoked. A run is distinct/non-trivial when inserts of different branches overlapped in time and its " +
		"(sessions, ddl?, #explicit-above, #overlapping cross-branch pairs>0) signature is new")
	c.Assume("the ledger is cut at DROP TABLE (sequence may restart); ids consumed by failed or rolled-back statements are gaps")
	srv, stop := startServer(c, "c28")
	defer stop()
	nruns := c.Pick(5, 60)
	tot := map[string]int{}
	for i := 0; i < nruns; i++ {
		r := c.SubRand("c28cfg", i)
		run := &c28Run{c: c, srv: srv, db: fmt.Sprintf("c28_%d", i), run: i, sessions: 8 + r.Intn(25), allowDDL: r.Intn(5) >= 2, stats: map[string]int{}}
		run.opsPer = 420/run.sessions + 2
		c.Case(fmt.Sprintf("c28/run/%d", i), map[string]any{"db": run.db, "sessions": run.sessions, "ops_per_session": run.opsPer, "ddl": run.allowDDL,
			"note": "session scripts are generated from SubRand(c28/<run>/w, session); replay = same seed"})
		run.exec()
		st := run.analyse()
		for k, v := range st {
			tot[k] += v
		}
		if st["overlapping_cross_branch_pairs"] > 0 {
			c.Distinct(fmt.Sprintf("%d/%v/%d", run.sessions, run.allowDDL, st["explicit_above_ok"]))
		}
		if i < 2 {
			c.Sample(map[string]any{"db": run.db, "sessions": run.sessions, "stats": st, "ledger_head": head(run.ledger, 6)})
		}
		if distinctViolationKeys() > 25 {
			break
		}
	}
	// statement-lock modes: the mode is latched by each database's tracker when the database is created
	nh := c.Pick(4, 40)
	for i := 0; i < nh && distinctViolationKeys() <= 25; i++ {
		c28Hammer(c, srv, i, []int{0, 1, 0, 1, 2}[i%5], tot)
	}
	rig.Must(setAutoincLockMode(2))
	for k, v := range tot {
		c.Count("c28."+k, v)
	}
	c.Require(tot["hammer.runs_lock_mode_0"] > 0 && tot["hammer.runs_lock_mode_1"] > 0, "no run under innodb_autoinc_lock_mode 0 / 1")
	c.Require(tot["hammer.stmts_started_with_2_others_in_flight"] > 0 && tot["hammer.overlapping_cross_branch_pairs"] > 0, "hammer runs had no statement contended by 3 sessions")
	c.Require(tot["ledger_entries_generated"] > 0, "no generated id observed")
	c.Require(tot["overlapping_cross_branch_pairs"] > 0, "no two inserts on different branches overlapped in time")
	c.Require(tot["hb_pairs_checked"] > 0, "no happens-before pair of inserts")
	c.Require(tot["explicit_above_ok"] > 0, "no explicit id above the sequence was accepted")
	c.Require(tot["multi_row_insert_stmts"] > 0 && tot["tx_rollback"] > 0 && tot["branch_switches"] > 0, "multi-row inserts, rollbacks or branch switches missing from the workload")
	countReported(c, "c28")
	scanOwnRaceReports(c, "C28", c28RaceFuncs)
}

func head(l []*ledgerEntry, n int) []*ledgerEntry {
	if len(l) < n {
		return l
	}
	return l[:n]
}

func (run *c28Run) exec() {
	c := run.c
	adm := run.srv.MustOpen("")
	defer adm.Close()
	for _, s := range []string{"create database " + run.db, "use " + run.db, c28Create, "call dolt_commit('-Am', 'init')", "call dolt_branch('b1')", "call dolt_branch('b2')"} {
		if _, err := adm.Query(s); err != nil {
			rig.Must(fmt.Errorf("c28 set-up %q: %w", s, err))
		}
	}
	workers := make([]*c28Worker, run.sessions)
	for i := range workers {
		wr := c.SubRand(fmt.Sprintf("c28/%d/w", run.run), i)
		w := &c28Worker{run: run, id: i, r: wr, stats: map[string]int{}}
		w.branch = []string{"main", "b1", "b2"}[wr.Intn(3)]
		w.ac = wr.Intn(2) == 0
		w.useRev = wr.Intn(3) == 0
		rig.Must(w.connect())
		workers[i] = w
	}
	var wg sync.WaitGroup
	start := make(chan struct{})
	for _, w := range workers {
		wg.Add(1)
		go func(w *c28Worker) {
			defer wg.Done()
			<-start
			w.loop()
		}(w)
	}
	close(start)
	wg.Wait()
	for _, w := range workers {
		w.x.Close()
		for k, v := range w.stats {
			run.stats[k] += v
		}
	}
	adm.Exec("drop database " + run.db)
}

func (run *c28Run) analyse() map[string]int {
	c := run.c
	st := run.stats
	var drops, failedDrops, alters []ddlEvent
	for _, d := range run.ddl {
		switch {
		case d.Kind == "drop":
			drops = append(drops, d)
		case d.Kind == "failed-drop":
			failedDrops = append(failedDrops, d)
		case d.Err == "":
			alters = append(alters, d)
		}
	}
	// A DROP TABLE that was rejected and rolled back did not happen: it cuts nothing. Violations with such an attempt in
	// between get their own key class so that they can be judged separately.
	failedDropBetween := func(first, second *ledgerEntry) bool {
		for _, fd := range failedDrops {
			if fd.Ret > first.Call && fd.Call < second.Ret {
				return true
			}
		}
		return false
	}
	var led []*ledgerEntry
	for _, e := range run.ledger {
		for _, d := range drops {
			if d.Ret < e.Call {
				e.epochLo++
			}
			if d.Call < e.Ret {
				e.epochHi++
			}
		}
		if e.epochLo != e.epochHi {
			st["entries_overlapping_a_drop"]++
			continue
		}
		led = append(led, e)
		st["ledger_entries_"+e.Kind]++
	}
	// A successful ALTER TABLE … AUTO_INCREMENT = N with N at or below an id already handed out is an explicit request to
	// move the sequence back: ids >= N whose rows do not exist (rolled back, commit failed) may legally be handed out again
	// afterwards. Rows that were (or later became) committed must still never see their id re-issued.
	loweringAlterBetween := func(first, second *ledgerEntry, id int64) bool {
		for _, al := range alters {
			if al.Ret > first.Call && al.Call < second.Ret && al.N <= id {
				return true
			}
		}
		return false
	}
	committed := func(e *ledgerEntry) bool { return e.TxEnd == "autocommit" || e.TxEnd == "commit" }
	wit := func(es ...*ledgerEntry) map[string]any {
		var ddl []ddlEvent
		for _, d := range run.ddl {
			for _, e := range es {
				if d.Ret > e.Call-int64(2*time.Second) && d.Call < e.Ret+int64(2*time.Second) {
					ddl = append(ddl, d)
					break
				}
			}
		}
		return map[string]any{"db": run.db, "run": run.run, "entries": es, "ddl_nearby": ddl}
	}
	// uniqueness of generated ids per epoch
	type key struct {
		epoch int
		id    int64
	}
	byID := map[key][]*ledgerEntry{}
	for _, e := range led {
		if e.Kind == "generated" {
			byID[key{e.epochLo, e.ID}] = append(byID[key{e.epochLo, e.ID}], e)
		}
	}
	for k, es := range byID {
		if len(es) < 2 {
			continue
		}
		sort.Slice(es, func(i, j int) bool { return es[i].Call < es[j].Call })
		for i := 0; i < len(es); i++ {
			for j := i + 1; j < len(es); j++ {
				a, b := es[i], es[j]
				cls := "same-branch"
				if a.Branch != b.Branch {
					cls = "cross-branch"
				}
				key := "c28/duplicate-generated-id/" + cls
				what := fmt.Sprintf("generated id %d was handed out twice within one table lifetime", k.id)
				if loweringAlterBetween(a, b, k.id) {
					if !committed(a) || !committed(b) {
						st["reissued_after_lowering_alter_row_never_committed"]++
						continue
					}
					key = "c28/after-lowering-alter/duplicate-generated-id/" + cls
					what += " (an ALTER TABLE … AUTO_INCREMENT = N with N at or below it ran in between; both rows were committed)"
				} else if failedDropBetween(a, b) {
					key = "c28/after-failed-drop/duplicate-generated-id/" + cls
					what += " (a DROP TABLE attempt that was rejected and rolled back ran in between)"
				}
				report(c, key, what, wit(a, b))
			}
		}
	}
	// monotonicity along happens-before: sweep in order of call time, keeping the max id among entries already returned
	byRet := append([]*ledgerEntry(nil), led...)
	sort.Slice(byRet, func(i, j int) bool { return byRet[i].Ret < byRet[j].Ret })
	byCall := append([]*ledgerEntry(nil), led...)
	sort.Slice(byCall, func(i, j int) bool { return byCall[i].Call < byCall[j].Call })
	maxAll := map[int]*ledgerEntry{}
	maxCommitted := map[int]*ledgerEntry{}
	j := 0
	for _, g := range byCall {
		for j < len(byRet) && byRet[j].Ret < g.Call {
			e := byRet[j]
			if m := maxAll[e.epochLo]; m == nil || e.ID > m.ID {
				maxAll[e.epochLo] = e
			}
			if committed(e) {
				if m := maxCommitted[e.epochLo]; m == nil || e.ID > m.ID {
					maxCommitted[e.epochLo] = e
				}
			}
			j++
		}
		if g.Kind != "generated" {
			continue
		}
		m := maxAll[g.epochLo]
		if m == nil {
			continue
		}
		st["hb_pairs_checked"]++
		if m.Kind == "explicit" {
			st["hb_pairs_after_explicit_max"]++
			if m.Branch != g.Branch {
				st["hb_pairs_after_explicit_max_on_other_branch"]++
			}
		}
		for _, m := range []*ledgerEntry{m, maxCommitted[g.epochLo]} {
			if m == nil || m == g || g.ID > m.ID {
				continue
			}
			cls := "after-generated"
			if m.Kind == "explicit" {
				cls = "after-explicit"
			}
			if m.Branch != g.Branch {
				cls += "/cross-branch"
			}
			key := "c28/sequence-went-backwards/" + cls
			if loweringAlterBetween(m, g, g.ID) {
				if !committed(m) {
					st["sequence_moved_back_by_alter_over_uncommitted_id"]++
					continue
				}
				key = "c28/after-lowering-alter/sequence-went-backwards/" + cls
			} else if failedDropBetween(m, g) {
				key = "c28/after-failed-drop/sequence-went-backwards/" + cls
			}
			report(c, key, fmt.Sprintf("insert invoked at %d was given generated id %d although an insert that had returned at %d held id %d (%s)", g.Call, g.ID, m.Ret, m.ID, m.Kind), wit(m, g))
			break
		}
	}
	// non-vacuity: overlapping inserts on different branches
	active := []*ledgerEntry{}
	for _, g := range byCall {
		k := 0
		for _, a := range active {
			if a.Ret >= g.Call {
				active[k] = a
				k++
			}
		}
		active = active[:k]
		for _, a := range active {
			if a.Sess != g.Sess {
				st["overlapping_pairs"]++
				if a.Branch != g.Branch {
					st["overlapping_cross_branch_pairs"]++
				}
			}
		}
		active = append(active, g)
	}
	st["drops"] += len(drops)
	st["failed_drops"] += len(failedDrops)
	return st
}
