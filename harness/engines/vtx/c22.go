package vtx

import (
	"fmt"

	"verif/rig"
)

// C22 — each SQL transaction reads a stable snapshot (DESIGN §4 C22, Appendix A.3 "Stability" and
// "No dirty / aborted / future reads").
//
// Guard-rails: a transaction whose commit got a connection-class error is indeterminate (its values are acceptable, it
// is never treated as failed); the snapshot of a transaction is only known to exist at the return of its first table
// read (SnapHi) and not before the call of its first statement (SnapLo) — the rules use the weak side of each bound.

func c22(c *rig.Ctx) {
	c.Rule("seeded runs: fresh database, table t(pk,c0,c1) on 1-3 branches with 3-8 keys, 4-10 wire sessions (autocommit on/off, " +
		"explicit and implicit transaction start, bound by dolt_checkout or USE db/branch) each running transactions BEGIN; R0 full read; " +
		"0-3 single-row writes with globally unique cell values; re-reads (full and point, home branch and `db/branch`.t of other branches); " +
		"COMMIT|ROLLBACK, plus bare autocommit reads and CAS writes. Checked: every re-read equals the first read with own writes applied; " +
		"every value read was written by a transaction whose COMMIT was invoked before the reader's first read returned and did not fail. " +
		"Access-path runs: database created as MixDb_n and addressed in per-session casing; one writer per branch does BEGIN; DML; CALL dolt_commit(-A); readers re-read every branch through " +
		"`db/b`.t, t AS OF 'b', t AS OF 'HEAD', dolt_branches, dolt_log, hashof('HEAD') inside one transaction: every re-read equals the first, and the paths agree. " +
		"A run is distinct/non-trivial when its (sessions,branches,keys,reads-after-a-foreign-commit>0,lazy-branch-reads>0) signature is new and " +
		"at least one re-read happened after another session committed to the branch read")
	c.Assume("the client clock (CLOCK_MONOTONIC in one process) orders call/return events of different sessions; driver and wire protocol deliver results unaltered")
	srv, stop := startServer(c, "c22")
	defer stop()
	pc := installTxHooks(c.Seed, 300)
	defer clearTxHooks()
	nruns := c.Pick(24, 300)
	tot := map[string]int{}
	for i := 0; i < nruns; i++ {
		r := c.SubRand("c22cfg", i)
		cfg := txCfg{Prop: "c22", Sessions: 4 + r.Intn(7), Branches: 1 + r.Intn(3), Keys: 3 + r.Intn(6), MaxWrites: 3,
			PWriteTx: 0.6, PReread: 0.6, POtherRead: 0.35, PRollback: 0.2, PBare: 0.3, HomeSpread: true}
		cfg.TxPerSess = 60/cfg.Sessions + 1
		if cfg.Branches == 1 {
			cfg.POtherRead = 0
		}
		run := &txRun{c: c, srv: srv, db: fmt.Sprintf("c22_%d", i), cfg: cfg, seedLbl: "c22", run: i}
		c.Case(fmt.Sprintf("c22/run/%d", i), run.payload())
		run.execRun()
		st := analyse22(run)
		for k, v := range st {
			tot[k] += v
		}
		if st["reads_after_foreign_commit"] > 0 {
			c.Distinct(fmt.Sprintf("%d/%d/%d/%v", cfg.Sessions, cfg.Branches, cfg.Keys, st["lazy_branch_reads_after_commit"] > 0))
		}
		if i < 3 {
			c.Sample(map[string]any{"run": run.payload(), "stats": st, "one_tx": sampleTx(run)})
		}
		if distinctViolationKeys() > 25 {
			break
		}
	}
	// access-path runs: mixed-case database names, AS OF / dolt_branches / dolt_log inside open transactions
	for i := 0; i < c.Pick(5, 60) && distinctViolationKeys() <= 25; i++ {
		c22Paths(c, srv, i, tot)
	}
	for k, v := range tot {
		c.Count("c22."+k, v)
	}
	c.Require(tot["paths.rereads_after_foreign_dolt_commit:asof"] > 0 && tot["paths.rereads_after_foreign_dolt_commit:branches"] > 0 && tot["paths.rereads_after_foreign_dolt_commit:ws"] > 0,
		"access-path runs: no AS OF / dolt_branches / working-set re-read happened after another session's dolt_commit on that branch")
	c.Require(tot["paths.agreements_checked"] > 0, "access-path runs: no agreement between access paths was checked")
	c.Count("c22.commit_path_ff", int(pc.ff.Load()))
	c.Count("c22.commit_path_merge", int(pc.merge.Load()))
	c.Require(tot["reads_after_foreign_commit"] > 0, "no re-read happened after a concurrent commit to the branch read (snapshots never mattered)")
	c.Require(tot["lazy_branch_reads_after_commit"] > 0, "no first read of another branch happened after a concurrent commit to it")
	c.Require(tot["values_attributed_to_other_tx"] > 0, "no read ever returned a value written by another transaction")
	countReported(c, "c22")
	scanOwnRaceReports(c, "C22", c22RaceFuncs)
}

func sampleTx(r *txRun) any {
	for _, tx := range r.txs {
		if len(tx.Writes) > 0 && len(tx.Reads) > 2 {
			return tx.brief()
		}
	}
	return nil
}

// analyse22 applies the value-attribution rules to every read of the run.
func analyse22(r *txRun) map[string]int {
	c := r.c
	st := map[string]int{}
	// commits per branch (times at which other sessions' writes became durable): for the non-vacuity counters
	type cm struct {
		ret  int64
		sess int
	}
	commits := map[string][]cm{}
	overwriters := map[string][]*writeRec{} // prev value -> committed writes that replaced it
	for _, tx := range r.txs {
		st["txs"]++
		st["tx_"+tx.Outcome]++
		st["mode_"+tx.Mode]++
		if tx.Outcome == "committed" && len(tx.Writes) > 0 {
			commits[tx.Home] = append(commits[tx.Home], cm{tx.EndRet, tx.Sess})
			seen := map[cellKey]bool{}
			for _, w := range tx.Writes {
				if !seen[w.Cell] { // first write of the tx to the cell: its prev is what the snapshot held
					seen[w.Cell] = true
					if w.Prev != tomb {
						overwriters[w.Prev] = append(overwriters[w.Prev], w)
					}
				}
			}
		}
		if len(tx.StmtErrs) > 0 {
			st["stmt_errors"]++
			if st["stmt_errors"] <= 3 {
				c.Note("c22: statement error inside a transaction: " + tx.StmtErrs[0])
			}
		}
	}
	viol := func(key, what string, tx *txRec, rd *readRec, extra map[string]any) {
		wit := map[string]any{"db": r.db, "run": r.run, "reader": tx.brief(), "read": map[string]any{"sql": rd.SQL, "call": rd.Call, "ret": rd.Ret, "rows": renderRows(rd.Rows)}}
		for k, v := range extra {
			wit[k] = v
		}
		report(c, key, what, wit)
	}
	for _, tx := range r.txs {
		for ri, rd := range tx.Reads {
			st["reads"]++
			if rd.Br != tx.Home {
				st["reads_other_branch"]++
			}
			if !rd.First {
				st["rereads_checked"]++
			}
			if ri > 0 {
				for _, k := range commits[rd.Br] {
					if k.sess != tx.Sess && k.ret > tx.SnapHi && k.ret < rd.Call {
						st["reads_after_foreign_commit"]++
						if rd.First && rd.Br != tx.Home {
							st["lazy_branch_reads_after_commit"]++
						}
						break
					}
				}
			}
			for pk, row := range rd.Rows {
				for col, v := range row {
					cell := cellKey{rd.Br, pk, col}
					w := r.reg[v]
					if w == nil {
						viol("c22/unknown-value", fmt.Sprintf("a read returned %q in %s, a value no transaction ever wrote", v, cell), tx, rd, nil)
						continue
					}
					if w.Cell != cell {
						viol("c22/misplaced-value", fmt.Sprintf("a read returned %q in %s, but that value was written to %s", v, cell, w.Cell), tx, rd, map[string]any{"writer": w.Tx.brief()})
						continue
					}
					if w.Tx == tx {
						continue // own write: covered by the stability comparison
					}
					if w.Tx == r.initTx {
						st["values_initial"]++
					} else {
						st["values_attributed_to_other_tx"]++
					}
					wt := w.Tx
					switch {
					case wt == r.initTx:
					case wt.Outcome == "indeterminate":
						st["values_from_indeterminate_tx"]++
					case wt.Outcome == "failed" || wt.Outcome == "rolledback":
						viol("c22/aborted-read", fmt.Sprintf("a read returned %q written by transaction %s which %s", v, wt.ID, wt.Outcome), tx, rd, map[string]any{"writer": wt.brief()})
					case wt.Outcome != "committed" || wt.EndCall == 0 || wt.EndCall > rd.Ret:
						viol("c22/dirty-read", fmt.Sprintf("a read returned %q written by transaction %s whose COMMIT had not been invoked when the read returned", v, wt.ID), tx, rd, map[string]any{"writer": wt.brief()})
					case wt.EndCall > tx.SnapHi:
						viol("c22/future-read", fmt.Sprintf("a read returned %q written by transaction %s whose COMMIT was invoked after the reader's snapshot was established (reader's first read had returned)", v, wt.ID), tx, rd, map[string]any{"writer": wt.brief()})
					case !w.Final:
						viol("c22/intermediate-read", fmt.Sprintf("a read returned %q, an intermediate value that transaction %s overwrote before committing", v, wt.ID), tx, rd, map[string]any{"writer": wt.brief()})
					}
					// new transaction must see what committed before it started: the value read was replaced by a
					// transaction whose COMMIT had returned before the reader's first statement was sent
					if rd.First {
						for _, ow := range overwriters[v] {
							if ow.Tx != tx && ow.Tx.EndRet < tx.SnapLo {
								var prev []any // what the reader's session did just before, and who saw the overwriter's value
								for _, t2 := range r.txs {
									if t2.Sess == tx.Sess && t2.Idx < tx.Idx && t2.Idx >= tx.Idx-3 {
										prev = append(prev, t2.brief())
									}
								}
								var seenBy []string
								for _, t2 := range r.txs {
									for _, rd2 := range t2.Reads {
										if row, ok := rd2.Rows[pk]; ok && rd2.Br == rd.Br && row[col] == ow.Tx.net()[ow.Cell][1] {
											seenBy = append(seenBy, fmt.Sprintf("%s at %d..%d", t2.ID, rd2.Call, rd2.Ret))
										}
									}
								}
								key := "c22/stale-snapshot"
								for _, t2 := range r.txs { // class: the session's previous autocommit statement failed (its transaction lingers)
									if t2.Sess == tx.Sess && t2.Idx == tx.Idx-1 && t2.Mode == "bare" && t2.Outcome == "failed" && t2.Errno != 0 && tx.Mode == "bare" {
										key = "c22/stale-snapshot/after-failed-autocommit-statement"
									}
								}
								viol(key, fmt.Sprintf("a transaction started after %s's COMMIT had returned still read the value %q which %s had replaced", ow.Tx.ID, v, ow.Tx.ID), tx, rd,
									map[string]any{"overwriter": ow.Tx.brief(), "overwriter_final_value": ow.Tx.net()[ow.Cell][1], "reader_session_previous_txs": prev, "reads_that_saw_the_new_value": seenBy})
								break
							}
						}
					}
				}
			}
		}
	}
	return st
}

var _ = rig.Mono
