package vtx

import (
	"fmt"
	"math/rand"
	"strings"
	"sync"
	"sync/atomic"
	"time"

	"verif/rig"
	"verif/sqlrig"
)

// C22 "access path" runs. The database is created with a MIXED-CASE name and every session addresses it with its own
// casing (USE and qualified table names: MixDb_n / MIXDB_N / mixdb_n). One writer per branch keeps moving the branch:
// BEGIN; DML; CALL dolt_commit('-A') (working set and HEAD move together, so in every snapshot working set = HEAD).
// Readers open a transaction and read the data of every branch repeatedly through every access path:
//   ws:<b>     `Db/b`.t  (and plain t for the home branch)      working set of b
//   asof:<b>   t AS OF 'b'                                       HEAD of b
//   head       t AS OF 'HEAD'                                    HEAD of the home branch
//   branches   dolt_branches (name, hash)
//   log        first row of dolt_log, hashof('HEAD')
// Oracle: inside one transaction every re-read through a path equals the first read through that path (readers do not
// write), and the paths agree with each other: ws:<b> = asof:<b>; asof:<b> = t AS OF '<hash dolt_branches lists for b>';
// head of dolt_log = hashof('HEAD') = dolt_branches.hash[home]; head = asof:<home>.

type pathRead struct {
	Path, SQL string
	Call, Ret int64
	Val       string
}

func casings(base string, r *rand.Rand) string {
	switch r.Intn(3) {
	case 0:
		return strings.ToUpper(base)
	case 1:
		return strings.ToLower(base)
	}
	return base
}

func c22Paths(c *rig.Ctx, srv *sqlrig.Server, idx int, tot map[string]int) {
	r := c.SubRand("c22paths", idx)
	db := fmt.Sprintf("MixDb_%d", idx)
	nbr, nread := 2+r.Intn(2), 3+r.Intn(3)
	branches := []string{"main", "b1", "b2"}[:nbr]
	c.Case(fmt.Sprintf("c22/paths/%d", idx), map[string]any{"db": db, "branches": nbr, "readers": nread, "note": "reader scripts from SubRand(c22paths/<run>/r, reader); replay = same seed"})
	adm := srv.MustOpen("")
	defer adm.Close()
	setup := []string{"create database " + db, "use " + db, "create table t (pk bigint primary key, c0 varchar(48), c1 varchar(48))",
		"insert into t values (0,'i0','j0'),(1,'i1','j1'),(2,'i2','j2')", "call dolt_commit('-Am','init')"}
	for _, b := range branches[1:] {
		setup = append(setup, fmt.Sprintf("call dolt_branch('%s')", b))
	}
	for _, s := range setup {
		if _, err := adm.Query(s); err != nil {
			rig.Must(fmt.Errorf("c22 paths set-up %q: %w", s, err))
		}
	}
	var stop atomic.Bool
	var mu sync.Mutex
	st := map[string]int{}
	commits := map[string][]int64{} // branch -> return times of acknowledged dolt_commits
	var wg, wwg sync.WaitGroup
	// writers: one per branch
	for wi, br := range branches {
		wr := c.SubRand(fmt.Sprintf("c22paths/%d/w", idx), wi)
		x := srv.MustOpen("")
		rig.Must(x.Exec(fmt.Sprintf("use `%s/%s`", casings(db, wr), br)))
		wwg.Add(1)
		go func(br string, x *sqlrig.Session, wr *rand.Rand) {
			defer wwg.Done()
			defer x.Close()
			for n := 0; !stop.Load() && n < 400; n++ {
				pk := wr.Intn(5)
				stmts := []string{"begin", fmt.Sprintf("insert into t values (%d, 'w.%s.%d', 'w.%s.%d') on duplicate key update c0 = 'w.%s.%d'", pk, br, n, br, n, br, n),
					fmt.Sprintf("call dolt_commit('-A', '-m', 'w %s %d')", br, n)}
				ok := true
				for _, s := range stmts {
					if _, err := x.Query(s); err != nil {
						ok = false
						x.Exec("rollback")
						break
					}
				}
				ret := rig.Mono()
				x.Exec("commit") // leave the BEGIN block (see txload.go)
				if ok {
					mu.Lock()
					commits[br] = append(commits[br], ret)
					st["writer_dolt_commits"]++
					mu.Unlock()
				}
				time.Sleep(time.Duration(300+wr.Intn(2500)) * time.Microsecond)
			}
		}(br, x, wr)
	}
	for ri := 0; ri < nread; ri++ {
		rr := c.SubRand(fmt.Sprintf("c22paths/%d/r", idx), ri)
		home := branches[rr.Intn(nbr)]
		x := srv.MustOpen("")
		myName := casings(db, rr)
		var init []string
		if rr.Intn(2) == 0 {
			init = []string{"use `" + myName + "/" + home + "`"}
		} else {
			init = []string{"use " + myName, fmt.Sprintf("call dolt_checkout('%s')", home)}
		}
		init = append(init, "set autocommit = 0", "commit")
		for _, s := range init {
			if _, err := x.Query(s); err != nil {
				rig.Must(fmt.Errorf("c22 paths reader init %q: %w", s, err))
			}
		}
		wg.Add(1)
		go func(ri int, x *sqlrig.Session, rr *rand.Rand, home, myName string) {
			defer wg.Done()
			defer x.Close()
			qual := func() string { // a name for the database in this statement
				switch rr.Intn(3) {
				case 0:
					return "`" + casings(db, rr) + "`."
				case 1:
					return "`" + myName + "`."
				}
				return ""
			}
			for k := 0; k < c.Pick(5, 8); k++ {
				var script []pathRead
				first := map[string]pathRead{}
				read := func(path, q string, scalar bool) (string, bool) {
					call := rig.Mono()
					rs, err := x.Query(q)
					ret := rig.Mono()
					if err != nil {
						mu.Lock()
						st["read_errors"]++
						if st["read_errors"] <= 3 {
							c.Note("c22 paths: read failed: " + q + ": " + firstLine(err.Error()))
						}
						mu.Unlock()
						return "", false
					}
					val := strings.Join(rs.Sorted(), " | ")
					pr := pathRead{path, q, call, ret, val}
					script = append(script, pr)
					mu.Lock()
					st["reads"]++
					f, seen := first[path]
					if seen {
						st["rereads"]++
						for _, b := range branches {
							if strings.HasSuffix(path, ":"+b) || (b == home && (path == "head" || path == "log")) || path == "branches" {
								for _, t := range commits[b] {
									if t > f.Ret && t < call {
										st["rereads_after_foreign_dolt_commit:"+strings.Split(path, ":")[0]]++
										break
									}
								}
							}
						}
					}
					mu.Unlock()
					if !seen {
						first[path] = pr
					} else if f.Val != val {
						report(c, "c22/paths/unstable-read/"+strings.Split(path, ":")[0], fmt.Sprintf("inside one transaction a repeated read through access path %q returned something else than its first read", path),
							map[string]any{"db": db, "session_db_name": myName, "home": home, "first": f, "again": pr, "transaction_so_far": script})
					}
					return val, true
				}
				if _, err := x.Query("start transaction"); err != nil {
					return
				}
				rounds := 2 + rr.Intn(3)
				hashes := map[string]string{}
				for round := 0; round < rounds; round++ {
					for _, b := range branches {
						read("ws:"+b, fmt.Sprintf("select pk, c0, c1 from `%s/%s`.t", casings(db, rr), b), false)
						read("asof:"+b, fmt.Sprintf("select pk, c0, c1 from %st as of '%s'", qual(), b), false)
					}
					read("ws:"+home, "select pk, c0, c1 from t", false)
					read("head", "select pk, c0, c1 from t as of 'HEAD'", false) // unqualified: a base-name qualifier would mean the default branch's HEAD
					if v, ok := read("branches", fmt.Sprintf("select name, hash from %sdolt_branches", qual()), false); ok && round == 0 {
						for _, row := range strings.Split(v, " | ") {
							if p := strings.Split(row, "\x1f"); len(p) == 2 {
								hashes[p[0]] = p[1]
							}
						}
					}
					read("log", "select commit_hash from dolt_log limit 1", false)
					read("hashof", "select hashof('HEAD')", false)
					time.Sleep(time.Duration(500+rr.Intn(4000)) * time.Microsecond)
				}
				// agreement between the access paths of this one transaction
				agree := func(name, a, b string) {
					fa, oka := first[a]
					fb, okb := first[b]
					if !oka || !okb {
						return
					}
					mu.Lock()
					st["agreements_checked"]++
					mu.Unlock()
					if fa.Val != fb.Val {
						report(c, "c22/paths/disagree/"+name, fmt.Sprintf("inside one transaction access paths %q and %q show different states of the same branch", a, b),
							map[string]any{"db": db, "session_db_name": myName, "home": home, "a": fa, "b": fb, "transaction": script})
					}
				}
				for _, b := range branches {
					agree("ws-vs-asof-branch", "ws:"+b, "asof:"+b)
					if h := hashes[b]; h != "" {
						if _, ok := read("bybranchhash:"+b, fmt.Sprintf("select pk, c0, c1 from t as of '%s'", h), false); ok {
							agree("asof-branch-vs-dolt_branches-hash", "asof:"+b, "bybranchhash:"+b)
						}
					}
				}
				agree("asof-HEAD-vs-asof-home-branch", "head", "asof:"+home)
				agree("dolt_log-head-vs-hashof-HEAD", "log", "hashof")
				if h, ok := first["hashof"]; ok && hashes[home] != "" {
					mu.Lock()
					st["agreements_checked"]++
					mu.Unlock()
					if h.Val != hashes[home] {
						report(c, "c22/paths/disagree/hashof-HEAD-vs-dolt_branches", "inside one transaction hashof('HEAD') differs from the hash dolt_branches lists for the checked-out branch",
							map[string]any{"db": db, "session_db_name": myName, "home": home, "hashof": h, "dolt_branches": first["branches"], "transaction": script})
					}
				}
				x.Exec("commit")
				mu.Lock()
				st["reader_txs"]++
				mu.Unlock()
			}
		}(ri, x, rr, home, myName)
	}
	wg.Wait()
	stop.Store(true)
	wwg.Wait()
	for k, v := range st {
		tot["paths."+k] += v
	}
	if st["rereads_after_foreign_dolt_commit:asof"] > 0 && st["rereads_after_foreign_dolt_commit:branches"] > 0 {
		c.Distinct(fmt.Sprintf("paths/%d/%d", nbr, nread))
	}
	adm.Exec("drop database " + db)
}
