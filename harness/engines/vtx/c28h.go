package vtx

import (
	"fmt"
	"strconv"
	"strings"
	"sync"
	"sync/atomic"

	gmssql "github.com/dolthub/go-mysql-server/sql"

	"verif/rig"
	"verif/sqlrig"
)

// C28 "hammer" runs: >= 8 autocommit sessions insert 50-200 rows per statement (VALUES lists and INSERT … SELECT) into the
// SAME table on 1-3 branches with no think time, under innodb_autoinc_lock_mode 0, 1 (the per-table keyed lock is held
// for the whole INSERT statement and handed from session to session constantly) and 2. The variable is not dynamic in
// this version; it is assigned the way the server assigns persisted globals at start-up (SystemVariables.AssignValues)
// BEFORE the run's database — and with it its AutoIncrementTracker, which latches the mode — is created.
// No explicit ids, no DDL: any duplicate is a plain violation, and so is a generated id that collides with an existing row.

func setAutoincLockMode(mode int) error {
	return gmssql.SystemVariables.AssignValues(map[string]interface{}{"innodb_autoinc_lock_mode": int64(mode)})
}

func c28Hammer(c *rig.Ctx, srv *sqlrig.Server, idx, mode int, tot map[string]int) {
	r := c.SubRand("c28hammer", idx)
	db := fmt.Sprintf("c28h_%d", idx)
	nsess, nbr, nstmt := 8+r.Intn(5), 1+r.Intn(3), c.Pick(8, 14)
	if idx%2 == 0 {
		nbr = 3
	}
	c.Case(fmt.Sprintf("c28/hammer/%d", idx), map[string]any{"db": db, "lock_mode": mode, "sessions": nsess, "branches": nbr, "stmts_per_session": nstmt})
	rig.Must(setAutoincLockMode(mode))
	adm := srv.MustOpen("")
	defer adm.Close()
	if v, err := adm.Scalar("select @@global.innodb_autoinc_lock_mode"); err != nil || v != fmt.Sprint(mode) {
		c.Inconclusive(fmt.Sprintf("could not put the server into innodb_autoinc_lock_mode %d (reads %q, %v)", mode, v, err))
		return
	}
	setup := []string{"create database " + db, "use " + db,
		"create table h (id bigint primary key auto_increment, g varchar(40), payload varchar(64), key gi (g))",
		"create table src (n int primary key)"}
	var vals []string
	for i := 0; i < 200; i++ {
		vals = append(vals, fmt.Sprintf("(%d)", i))
	}
	setup = append(setup, "insert into src values "+strings.Join(vals, ","), "call dolt_commit('-Am', 'init')")
	branches := []string{"main", "b1", "b2"}[:nbr]
	for _, b := range branches[1:] {
		setup = append(setup, fmt.Sprintf("call dolt_branch('%s')", b))
	}
	for _, s := range setup {
		if _, err := adm.Query(s); err != nil {
			rig.Must(fmt.Errorf("c28 hammer set-up %q: %w", s, err))
		}
	}
	run := &c28Run{c: c, srv: srv, db: db, run: 1000 + idx, sessions: nsess, stats: map[string]int{}}
	var inflight, contended int32
	var mu sync.Mutex
	st := map[string]int{}
	var wg sync.WaitGroup
	start := make(chan struct{})
	for s := 0; s < nsess; s++ {
		x := srv.MustOpen(db)
		br := branches[s%nbr]
		rig.Must(x.Exec(fmt.Sprintf("use `%s/%s`", db, br)))
		wr := c.SubRand(fmt.Sprintf("c28hammer/%d/w", idx), s)
		wg.Add(1)
		go func(s int, x *sqlrig.Session) {
			defer wg.Done()
			defer x.Close()
			<-start
			for k := 0; k < nstmt; k++ {
				rows := 50 + wr.Intn(151)
				tag := fmt.Sprintf("h%d.s%d.%d", idx, s, k)
				var q string
				if wr.Intn(2) == 0 {
					q = fmt.Sprintf("insert into h (g, payload) select '%s', concat('%s.', n) from src where n < %d", tag, tag, rows)
				} else {
					vs := make([]string, rows)
					for i := range vs {
						vs[i] = fmt.Sprintf("('%s','%s.%d')", tag, tag, i)
					}
					q = "insert into h (g, payload) values " + strings.Join(vs, ",")
				}
				if atomic.AddInt32(&inflight, 1) >= 3 {
					atomic.AddInt32(&contended, 1)
				}
				call := rig.Mono()
				_, _, err := x.ExecRes(q)
				ret := rig.Mono()
				atomic.AddInt32(&inflight, -1)
				short := q
				if len(short) > 120 {
					short = short[:120] + "…"
				}
				if err != nil {
					mu.Lock()
					st[fmt.Sprintf("insert_errno_%d", sqlrig.Errno(err))]++
					mu.Unlock()
					if sqlrig.Errno(err) == 1062 {
						report(c, fmt.Sprintf("c28/generated-id-collides-with-existing-row/lock-mode-%d", mode),
							"an INSERT that leaves the id to the server (no explicit ids anywhere in this run) was rejected with a duplicate-key error: a generated id was handed out that a row already holds",
							map[string]any{"db": db, "session": s, "branch": br, "stmt": short, "error": firstLine(err.Error()), "call": call, "ret": ret})
					}
					if sqlrig.IsConnErr(err) {
						return
					}
					continue
				}
				rs, err := x.Query(fmt.Sprintf("select id from h where g = '%s' order by id", tag))
				if err != nil {
					continue
				}
				var ids []int64
				for _, row := range rs.Data {
					id, _ := strconv.ParseInt(row[0], 10, 64)
					ids = append(ids, id)
				}
				mu.Lock()
				st["insert_stmts"]++
				st["rows_inserted"] += len(ids)
				if len(ids) != rows {
					st["diag_rows_read_back_differs"]++
				}
				if mode != 2 && len(ids) > 1 && ids[len(ids)-1]-ids[0] != int64(len(ids)-1) {
					st["diag_noncontiguous_block_in_lock_mode_0_1"]++
				}
				for _, id := range ids {
					run.ledger = append(run.ledger, &ledgerEntry{Sess: s, Branch: br, Kind: "generated", ID: id, Call: call, Ret: ret, Stmt: short, Payload: tag, TxEnd: "autocommit"})
				}
				mu.Unlock()
			}
		}(s, x)
	}
	close(start)
	wg.Wait()
	res := run.analyse()
	for k, v := range st {
		tot["hammer."+k] += v
	}
	tot[fmt.Sprintf("hammer.runs_lock_mode_%d", mode)]++
	tot["hammer.stmts_started_with_2_others_in_flight"] += int(contended)
	tot["hammer.ledger_entries"] += res["ledger_entries_generated"]
	tot["hammer.hb_pairs_checked"] += res["hb_pairs_checked"]
	tot["hammer.overlapping_cross_branch_pairs"] += res["overlapping_cross_branch_pairs"]
	if contended > 0 {
		c.Distinct(fmt.Sprintf("hammer/%d/%d/%d", mode, nsess, nbr))
	}
	adm.Exec("drop database " + db)
}
