package vtx

import (
	"bufio"
	"fmt"
	"os"
	"strings"

	"verif/sqlrig"
)

// probeMain is a development aid: `vtx probe <file>` starts a server on a scratch directory and runs the statements
// of the file (one per line; a line "@N <sql>" runs on session N, default session 0; lines starting with # are
// comments), printing results and errors. It takes no part in any verdict.
func probeMain(args []string) int {
	if len(args) < 1 {
		fmt.Fprintln(os.Stderr, "usage: probe <file.sql>")
		return 2
	}
	dir, err := os.MkdirTemp("/var/tmp", "verif-probe-")
	if err != nil {
		fmt.Fprintln(os.Stderr, err)
		return 2
	}
	defer os.RemoveAll(dir)
	srv, err := sqlrig.Start(dir + "/data")
	if err != nil {
		fmt.Fprintln(os.Stderr, err)
		return 2
	}
	defer srv.Stop()
	f, err := os.Open(args[0])
	if err != nil {
		fmt.Fprintln(os.Stderr, err)
		return 2
	}
	defer f.Close()
	sess := map[string]*sqlrig.Session{}
	sc := bufio.NewScanner(f)
	sc.Buffer(make([]byte, 1<<20), 1<<24)
	for sc.Scan() {
		line := strings.TrimSpace(sc.Text())
		if line == "" || strings.HasPrefix(line, "#") {
			continue
		}
		id := "0"
		if strings.HasPrefix(line, "@") {
			i := strings.Index(line, " ")
			id, line = line[1:i], strings.TrimSpace(line[i:])
		}
		x := sess[id]
		if x == nil {
			x, err = srv.Open("")
			if err != nil {
				fmt.Println("OPEN ERROR", err)
				return 2
			}
			sess[id] = x
		}
		fmt.Printf("[%s] %s\n", id, line)
		rows, err := x.Query(line)
		if err != nil {
			fmt.Printf("    ERROR errno=%d %v\n", sqlrig.Errno(err), err)
			continue
		}
		if len(rows.Cols) > 0 {
			fmt.Printf("    cols: %s\n", strings.Join(rows.Cols, " | "))
		}
		for _, r := range rows.Data {
			for i := range r {
				if r[i] == sqlrig.Null {
					r[i] = "NULL"
				}
			}
			fmt.Printf("    %s\n", strings.Join(r, " | "))
		}
	}
	return 0
}
