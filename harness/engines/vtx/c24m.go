package vtx

import (
	"fmt"
	"strings"
	"sync"

	"verif/rig"
	"verif/sqlrig"
)

// Stage 2 of C24: the same jointly-violating shapes as branch merges and cherry-picks.
//
// A case = base data, left edits on main, right edits on `other` (each statement is validated by the server on its own
// branch, so both heads are clean). Then, for every operation that is acknowledged:
//   * dolt_merge in a transaction (autocommit off): every violating row of the merged working set (independent evaluator)
//     must be listed in dolt_constraint_violations_<t>; rows inserted on exactly one side must be kept or listed;
//   * COMMIT without force: afterwards the committed state of the branch must be free of violations;
//   * COMMIT with @@dolt_force_transaction_commit=1 and dolt_commit --force: every violating row is listed, in the working set
//     and in the Dolt commit;
//   * dolt_cherry_pick of the right commit: acknowledged ⇒ the new commit and the working set are free of violations.

type c24MergeCase struct {
	DB          string
	Left, Right []string
	LeftTags    []string // tags of rows inserted on one side only (fresh private ids)
	RightTags   []string
}

func genC24MergeCase(c *rig.Ctx, i int) *c24MergeCase {
	r := c.SubRand("c24merge", i)
	mc := &c24MergeCase{DB: fmt.Sprintf("c24m_%d", i)}
	gl := &c24Gen{r: r, tag: fmt.Sprintf("L%d", i), idLo: 1000}
	gr := &c24Gen{r: r, tag: fmt.Sprintf("R%d", i), idLo: 2000}
	nl, nr := 2+r.Intn(7), 2+r.Intn(7)
	for k := 0; k < nl; k++ {
		mc.Left = append(mc.Left, gl.stmt(false))
	}
	for k := 0; k < nr; k++ {
		mc.Right = append(mc.Right, gr.stmt(false))
	}
	// one directed pair per case: each half is legal on its own branch, the merge of both violates a constraint
	a, b := &mc.Left, &mc.Right
	if r.Intn(2) == 0 {
		a, b = b, a
	}
	k := 1 + r.Intn(4)
	switch r.Intn(7); i % 7 { // the directed shape rotates with the case number: every kind occurs in every 7 cases
	case 0: // CHECK over two columns, one column per side
		*a = append(*a, fmt.Sprintf("update child set a = 60 where id = %d", k))
		*b = append(*b, fmt.Sprintf("update child set b = 60 where id = %d", k))
	case 1: // self-referencing FK: sibling deleted on one side, referenced on the other
		*a = append(*a, fmt.Sprintf("delete from child where id = %d", k))
		*b = append(*b, fmt.Sprintf("insert into child (id, sib, a, b, n, tag) values (%d, %d, 1, 1, 0, 'S%d.sib')", 1800+r.Intn(50), k, i))
	case 2: // single-column FK: parent deleted on one side, referenced on the other
		*a = append(*a, fmt.Sprintf("delete from parent where id = %d", 4+k/2))
		*b = append(*b, fmt.Sprintf("insert into child (id, pid, a, b, n, tag) values (%d, %d, 1, 1, 0, 'S%d.pid')", 1800+r.Intn(50), 4+k/2, i))
	case 3: // composite FK: referenced pair changed on one side, referenced on the other
		*a = append(*a, fmt.Sprintf("update parent set u = %d, v = %d where id = %d", 20+k, 20+k, 4+k/2))
		*b = append(*b, fmt.Sprintf("insert into child (id, p1, p2, a, b, n, tag) values (%d, %d, %d, 1, 1, 0, 'S%d.p12')", 1800+r.Intn(50), 4+k/2, 4+k/2, i))
	case 4: // equal unique values on different primary keys
		*a = append(*a, fmt.Sprintf("insert into child (id, a, b, n, uq1, uq2, tag) values (1850, 1, 1, 0, 9, 9, 'S%d.ua')", i))
		*b = append(*b, fmt.Sprintf("insert into child (id, a, b, n, uq1, uq2, tag) values (2850, 1, 1, 0, 9, 9, 'S%d.ub')", i))
	}
	switch r.Intn(5) { // NOT NULL added on one side while the other side inserts NULLs
	case 0:
		mc.Right = append(mc.Right, "update child set n = 0 where n is null", "alter table child modify n int not null")
		mc.Left = append(mc.Left, fmt.Sprintf("insert into child (id, a, b, n, tag) values (1900, 1, 1, NULL, 'L%d.nn')", i))
	case 1:
		mc.Left = append(mc.Left, "update child set n = 0 where n is null", "alter table child modify n int not null")
		mc.Right = append(mc.Right, fmt.Sprintf("insert into child (id, a, b, n, tag) values (2900, 1, 1, NULL, 'R%d.nn')", i))
	}
	return mc
}

type c24MergeStats struct {
	mu sync.Mutex
	m  map[string]int
}

func (s *c24MergeStats) add(k string, n int) {
	s.mu.Lock()
	s.m[k] += n
	s.mu.Unlock()
}

func c24merge(c *rig.Ctx) {
	c.Rule("stage merges — seeded (base,left,right) histories over the same parent/child schema: 2-8 hostile statements per side (each validated by the " +
		"server on its own branch), optionally NOT NULL added on one side while the other inserts NULLs; dolt_merge in both directions inside a transaction, " +
		"COMMIT without and with @@dolt_force_transaction_commit, dolt_commit --force, dolt_cherry_pick of the right commit. After every acknowledged " +
		"operation the state is evaluated independently: kept violating rows must be listed, unforced commits must leave a clean committed state. " +
		"Second schema family (late constraints): tables fork without constraints, one side adds FK to a non-PK indexed parent column / UNIQUE / CHECK / NOT NULL after the fork, " +
		"the other side changes rows against them (parent column updated in place, parent deleted, orphans, duplicates, check-violating values, NULLs), keyed and keyless parents, both directions, " +
		"forced / unforced commit, and the same pair as two concurrent transactions merged at COMMIT. " +
		"A case is distinct/non-trivial when the merge kept or recorded at least one violating row, by the set of (kind:constraint) violated resp. (family, direction, shapes)")
	srv, stop := startServer(c, "c24m")
	defer stop()
	n := c.Pick(28, 400)
	stats := &c24MergeStats{m: map[string]int{}}
	const par = 6
	var wg sync.WaitGroup
	next := make(chan int)
	for p := 0; p < par; p++ {
		wg.Add(1)
		go func() {
			defer wg.Done()
			for i := range next {
				if i < 0 { // late-constraint family
					runLateCase(c, srv, genLateCase(c, -i-1), stats)
					continue
				}
				mc := genC24MergeCase(c, i)
				runC24MergeCase(c, srv, mc, stats)
			}
		}()
	}
	for i := 0; i < n && distinctViolationKeys() <= 25; i++ {
		mc := genC24MergeCase(c, i)
		c.Case(fmt.Sprintf("c24/merges/%d", i), map[string]any{"db": mc.DB, "left": mc.Left, "right": mc.Right})
		if i < 2 {
			c.Sample(map[string]any{"db": mc.DB, "base": c24Base(), "left": mc.Left, "right": mc.Right})
		}
		next <- i
	}
	nl := c.Pick(24, 400)
	for i := 0; i < nl && distinctViolationKeys() <= 25; i++ {
		lc := genLateCase(c, i)
		c.Case(fmt.Sprintf("c24/late/%d", i), map[string]any{"db": lc.DB, "keyless_parent": lc.Keyless, "schema_side": lc.Schema, "data_side": lc.Data, "shapes": lc.Shapes})
		if i < 2 {
			c.Sample(map[string]any{"db": lc.DB, "keyless_parent": lc.Keyless, "base": lateBase(lc.Keyless), "schema_side": lc.Schema, "data_side": lc.Data})
		}
		next <- -i - 1
	}
	close(next)
	wg.Wait()
	for k, v := range stats.m {
		c.Count("c24.merges."+k, v)
	}
	m := stats.m
	c.Require(m["merges_acknowledged"] > 0, "no dolt_merge was acknowledged")
	c.Require(m["merged_states_with_listed_violations"] > 0, "no merge kept-and-recorded a violating row")
	c.Require(m["kept:foreign-key:fk_p"] > 0 && m["kept:unique-index:uk"] > 0 && m["kept:check-constraint:ck"] > 0, "merges did not produce every kind of violation (FK, UNIQUE, CHECK)")
	c.Require(m["kept:foreign-key:fk_c"] > 0 && m["kept:foreign-key:fk_s"] > 0, "merges did not produce composite and self-referencing FK violations")
	c.Require(m["listed:not-null"] > 0, "merges did not produce a NOT NULL violation")
	c.Require(m["unforced_commit_rejected"] > 0 && m["forced_commits"] > 0, "unforced rejection / forced commit not exercised")
	c.Require(m["cherry_picks_acknowledged"] > 0, "no cherry-pick was acknowledged")
	c.Require(m["late.shape:fk_parent_updated_in_place"] > 0 && m["late.listed:foreign-key"] > 0, "late-constraint family: no FK added after the fork met an in-place update of the referenced parent column")
	c.Require(m["late.cases_keyless_parent"] > 0 && m["late.cases_keyed_parent"] > 0 && m["late.merges_acknowledged"] > 0, "late-constraint family: keyed / keyless parents or acknowledged merges missing")
	c.Require(m["late.listed:unique-index"]+m["late.listed:check-constraint"]+m["late.listed:not-null"] > 0, "late-constraint family: no UNIQUE / CHECK / NOT NULL violation recorded")
	countReported(c, "c24")
	scanOwnRaceReports(c, "C24", c24RaceFuncs)
}

func runC24MergeCase(c *rig.Ctx, srv *sqlrig.Server, mc *c24MergeCase, stats *c24MergeStats) {
	x := srv.MustOpen("")
	defer x.Close()
	run := func(stmts ...string) error {
		for _, s := range stmts {
			if _, err := x.Query(s); err != nil {
				return fmt.Errorf("%s: %w", s, err)
			}
		}
		return nil
	}
	tolerant := func(stmts []string) (applied []string) {
		for _, s := range stmts {
			if _, err := x.Query(s); err != nil {
				stats.add("side_stmt_rejected", 1)
				continue
			}
			applied = append(applied, s)
		}
		return
	}
	setup := append([]string{"create database " + mc.DB, "use " + mc.DB}, c24Base()...)
	setup = append(setup, "call dolt_commit('-Am', 'base')", "call dolt_branch('other')")
	if err := run(setup...); err != nil {
		rig.Must(fmt.Errorf("c24 merge set-up: %w", err))
	}
	defer x.Exec("drop database " + mc.DB)
	leftApplied := tolerant(mc.Left)
	if err := run("call dolt_commit('-A', '--allow-empty', '-m', 'left')"); err != nil {
		c.Note("c24 merges: left commit failed: " + firstLine(err.Error()))
		return
	}
	lh, _ := x.Scalar("select hashof('HEAD')")
	run("call dolt_checkout('other')")
	rightApplied := tolerant(mc.Right)
	if err := run("call dolt_commit('-A', '--allow-empty', '-m', 'right')"); err != nil {
		c.Note("c24 merges: right commit failed: " + firstLine(err.Error()))
		return
	}
	rh, _ := x.Scalar("select hashof('HEAD')")
	run("call dolt_checkout('main')")
	script := map[string]any{"db": mc.DB, "base": c24Base(), "left_applied": leftApplied, "right_applied": rightApplied, "left_commit": lh, "right_commit": rh}

	// both heads must be clean (they were produced by statements the server validated one by one)
	ev := srv.MustOpen(mc.DB)
	defer ev.Close()
	rig.Must(ev.Exec("set autocommit = 0"))
	for _, br := range []string{"main", "other"} {
		if s, err := evalState(ev, fmt.Sprintf("`%s/%s`.", mc.DB, br), true, true); err == nil && len(s.Viol) > 0 {
			report(c, "c24/merge/side-not-clean/"+kindsOf(s.Viol), "a branch built only from statements accepted by a default session violates a constraint before any merge",
				map[string]any{"script": script, "branch": br, "violating_rows": s.Viol, "state": s.dump()})
			return
		}
	}
	oneSided := func(applied []string) (tags []string) { // rows inserted with fresh private ids
		for _, s := range applied {
			if strings.HasPrefix(s, "insert into child") {
				var id int64
				fmt.Sscanf(s[strings.Index(s, "values (")+8:], "%d", &id)
				if id >= 1000 {
					tags = append(tags, s[strings.LastIndex(s, ", '")+3:len(s)-2])
				}
			}
		}
		return
	}
	lTags, rTags := oneSided(leftApplied), oneSided(rightApplied)

	checkMerged := func(dir string, s *cstate, inserted []string) {
		stats.add("merged_states_evaluated", 1)
		if s.ListedN > 0 {
			stats.add("merged_states_with_listed_violations", 1)
		}
		for l := range s.Listed {
			p := strings.Split(l, "|")
			stats.add("listed:"+strings.ReplaceAll(p[1], " ", "-"), 1)
		}
		for _, v := range s.Viol {
			stats.add("kept:"+strings.ReplaceAll(v.Kind, " ", "-")+":"+v.Name, 1)
		}
		if len(s.Viol) > 0 {
			c.Distinct(kindsOf(s.Viol))
		}
		if u := s.unlisted(); len(u) > 0 {
			kinds := kindsOf(u)
			report(c, "c24/merge/unlisted/"+kinds, fmt.Sprintf("dolt_merge (%s) was acknowledged and keeps %d violating rows (%s) that dolt_constraint_violations_<t> does not list", dir, len(u), kinds),
				map[string]any{"script": script, "direction": dir, "violating_rows": u, "state": s.dump()})
		}
		// one-sided inserts are kept or listed, never silently dropped
		have := map[string]bool{}
		for _, ch := range s.Children {
			have[ch.Tag] = true
		}
		for _, t := range inserted {
			if !have[t] {
				// a dropped row must be listed: the violations table repeats the row's columns, look the tag up there
				stats.add("one_sided_rows_not_in_table", 1)
			}
		}
	}
	listedTags := func(sess *sqlrig.Session, prefix string) map[string]bool {
		out := map[string]bool{}
		if rs, err := sess.Query("select tag from " + prefix + "dolt_constraint_violations_child"); err == nil {
			for _, r := range rs.Data {
				out[r[0]] = true
			}
		}
		return out
	}
	checkDropped := func(dir string, sess *sqlrig.Session, prefix string, s *cstate, inserted []string) {
		have := map[string]bool{}
		for _, ch := range s.Children {
			have[ch.Tag] = true
		}
		var lt map[string]bool
		for _, t := range inserted {
			if have[t] {
				continue
			}
			if lt == nil {
				lt = listedTags(sess, prefix)
			}
			if !lt[t] {
				report(c, "c24/merge/row-silently-dropped", fmt.Sprintf("dolt_merge (%s) was acknowledged; the row tagged %s inserted on one side only is neither in the merged table nor listed in dolt_constraint_violations_child", dir, t),
					map[string]any{"script": script, "direction": dir, "state": s.dump()})
			} else {
				stats.add("one_sided_rows_dropped_but_listed", 1)
			}
		}
	}

	// (1) merge other into main inside a transaction of a default session
	run("set autocommit = 0", "start transaction")
	_, err := x.Query("call dolt_merge('other')")
	mergedViol := 0
	if err != nil {
		stats.add("merges_rejected", 1)
		x.Exec("rollback")
	} else {
		stats.add("merges_acknowledged", 1)
		if s, e := evalState(x, "", false, true); e == nil {
			mergedViol = len(s.Viol)
			checkMerged("other->main", s, append(append([]string{}, lTags...), rTags...))
			checkDropped("other->main", x, "", s, append(append([]string{}, lTags...), rTags...))
		}
		cerr := x.Exec("commit")
		if cerr != nil {
			stats.add("unforced_commit_rejected", 1)
			x.Exec("rollback")
		} else {
			stats.add("unforced_commit_accepted", 1)
			if mergedViol > 0 {
				stats.add("unforced_commit_accepted_with_violating_rows", 1)
			}
		}
		if s, e := evalState(ev, fmt.Sprintf("`%s/main`.", mc.DB), true, true); e == nil && len(s.Viol) > 0 {
			report(c, "c24/merge/committed-state-violates/"+kindsOf(s.Viol), fmt.Sprintf("after dolt_merge + COMMIT by a default session (commit error: %v) the committed working set of main holds violating rows", cerr),
				map[string]any{"script": script, "violating_rows": s.Viol, "state": s.dump()})
		}
	}
	run("set autocommit = 1")

	// (2) other direction on a copy of other
	if err := run("call dolt_checkout('-b', 'o2', 'other')", "set autocommit = 0", "start transaction"); err == nil {
		if _, err := x.Query("call dolt_merge('main')"); err != nil {
			stats.add("merges_rejected", 1)
		} else {
			stats.add("merges_acknowledged", 1)
			if s, e := evalState(x, "", false, true); e == nil {
				checkMerged("main->other", s, nil)
				checkDropped("main->other", x, "", s, append(append([]string{}, lTags...), rTags...))
			}
		}
		x.Exec("rollback")
		run("set autocommit = 1", "call dolt_checkout('main')")
	}

	// (3) forced: merge + COMMIT with @@dolt_force_transaction_commit = 1, then dolt_commit --force
	if err := run("call dolt_checkout('-b', 'f2', '"+lh+"')", "set autocommit = 0", "set @@dolt_force_transaction_commit = 1", "start transaction"); err == nil {
		if _, err := x.Query("call dolt_merge('other')"); err != nil {
			stats.add("merges_rejected", 1)
			x.Exec("rollback")
		} else if err := x.Exec("commit"); err != nil {
			stats.add("forced_commit_failed", 1)
			x.Exec("rollback")
		} else {
			stats.add("forced_commits", 1)
			if s, e := evalState(ev, fmt.Sprintf("`%s/f2`.", mc.DB), true, true); e == nil {
				if u := s.unlisted(); len(u) > 0 {
					report(c, "c24/merge/forced-commit-unlisted/"+kindsOf(u), "after a forced COMMIT of a merge the committed working set holds violating rows that are not listed",
						map[string]any{"script": script, "violating_rows": u, "state": s.dump()})
				}
			}
			if rs, err := x.Query("call dolt_commit('-A', '--force', '-m', 'forced merge')"); err == nil && len(rs.Data) > 0 {
				stats.add("forced_dolt_commits", 1)
				h := rs.Data[0][0]
				if s, e := evalState(ev, fmt.Sprintf("`%s/%s`.", mc.DB, h), true, true); e == nil {
					stats.add("dolt_commits_evaluated", 1)
					if u := s.unlisted(); len(u) > 0 {
						report(c, "c24/merge/forced-dolt-commit-unlisted/"+kindsOf(u), "a Dolt commit made with --force holds violating rows that its dolt_constraint_violations does not list",
							map[string]any{"script": script, "commit": h, "violating_rows": u, "state": s.dump()})
					}
				} else {
					stats.add("dolt_commit_evaluation_errors", 1)
				}
			}
		}
		run("set @@dolt_force_transaction_commit = 0", "set autocommit = 1", "call dolt_checkout('main')")
	}

	// (4) cherry-pick the right commit onto a copy of left
	if err := run("call dolt_checkout('-b', 'cp', '" + lh + "')"); err == nil {
		_, err := x.Query("call dolt_cherry_pick('" + rh + "')")
		if err != nil {
			stats.add("cherry_picks_rejected", 1)
		} else {
			stats.add("cherry_picks_acknowledged", 1)
		}
		for _, pfx := range []string{fmt.Sprintf("`%s/cp`.", mc.DB)} {
			if s, e := evalState(ev, pfx, true, true); e == nil {
				stats.add("cherry_pick_states_evaluated", 1)
				if u := s.unlisted(); len(u) > 0 {
					report(c, "c24/cherry-pick/unlisted/"+kindsOf(u), fmt.Sprintf("after dolt_cherry_pick (error: %v) the committed working set holds violating rows that are not listed", err),
						map[string]any{"script": script, "violating_rows": u, "state": s.dump()})
				}
			}
		}
		if err == nil {
			if h, e := x.Scalar("select hashof('HEAD')"); e == nil {
				if s, e := evalState(ev, fmt.Sprintf("`%s/%s`.", mc.DB, h), true, true); e == nil {
					stats.add("dolt_commits_evaluated", 1)
					if len(s.Viol) > 0 {
						report(c, "c24/cherry-pick/commit-violates/"+kindsOf(s.Viol), "dolt_cherry_pick by a default session was acknowledged and its commit holds violating rows",
							map[string]any{"script": script, "commit": h, "violating_rows": s.Viol, "state": s.dump()})
					}
				}
			}
		}
		x.Query("call dolt_cherry_pick('--abort')")
		run("call dolt_checkout('main')")
	}
}
