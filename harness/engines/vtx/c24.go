package vtx

import (
	"encoding/json"
	"fmt"
	"math/rand"
	"regexp"
	"sort"
	"strconv"
	"strings"
	"sync"
	"sync/atomic"
	"time"

	"verif/rig"
	"verif/sqlrig"
)

// C24 — committed data always satisfies declared constraints (DESIGN §4 C24).
//
// The oracle is an INDEPENDENT evaluator: the state is read back through a wire session (one transaction = one snapshot)
// and the constraints are re-evaluated (a) by plain SQL — GROUP BY … HAVING COUNT(*) > 1 for PK / UNIQUE with NULL
// semantics, anti-joins for the single-column, composite and self-referencing foreign keys, IS NULL scans for NOT NULL —
// and (b) by the harness in Go on the fetched rows (CHECK, and UNIQUE / FK again). A row found by either is violating.
// Dolt is never asked whether there are violations; dolt_constraint_violations_<t> is only read to see whether a
// violating row that was KEPT is LISTED.

const c24Parent = "create table parent (id bigint primary key, u int, v int, tag varchar(48), key uv (u, v))"
const c24Child = "create table child (id bigint primary key, pid bigint, p1 int, p2 int, sib bigint, a int, b int, n int, uq1 int, uq2 int, tag varchar(48), " +
	"unique key uk (uq1, uq2), " +
	"constraint fk_p foreign key (pid) references parent (id), " +
	"constraint fk_c foreign key (p1, p2) references parent (u, v), " +
	"constraint fk_s foreign key (sib) references child (id), " +
	"constraint ck check (a + b <= 100))"

type nint struct {
	Null bool
	V    int64
}

func parseN(s string) nint {
	if s == sqlrig.Null {
		return nint{Null: true}
	}
	v, _ := strconv.ParseInt(s, 10, 64)
	return nint{V: v}
}

func (n nint) String() string {
	if n.Null {
		return "NULL"
	}
	return fmt.Sprint(n.V)
}

type prow struct {
	ID   int64
	U, V nint
	Tag  string
}

type crow struct {
	ID                                  int64
	Pid, P1, P2, Sib, A, B, N, Uq1, Uq2 nint
	Tag                                 string
}

func (c crow) String() string {
	return fmt.Sprintf("child(id=%d pid=%s p1=%s p2=%s sib=%s a=%s b=%s n=%s uq=(%s,%s) tag=%s)", c.ID, c.Pid, c.P1, c.P2, c.Sib, c.A, c.B, c.N, c.Uq1, c.Uq2, c.Tag)
}

// vio is one violating row found by the independent evaluator.
type vio struct {
	Table string `json:"table"`
	PK    int64  `json:"pk"`
	Kind  string `json:"kind"` // the violation_type vocabulary of dolt_constraint_violations_<t>
	Name  string `json:"constraint"`
	By    string `json:"found_by"` // sql | go | sql+go
	Row   string `json:"row"`
}

func (v vio) key() string { return fmt.Sprintf("%s|%s|%d|%s", v.Table, v.Kind, v.PK, v.Name) }

type cstate struct {
	Parents  map[int64]prow
	Children map[int64]crow
	NNotNull bool
	Listed   map[string]bool // table|kind|pk|name
	ListedN  int
	Viol     []vio
	Errs     []string
}

var nNotNullRe = regexp.MustCompile("(?i)`n` int NOT NULL")

// evalState reads parent, child and the violation tables through x under the name prefix (e.g. "" or "`db/branch`.")
// and evaluates every declared constraint independently. ownTx: wrap in a fresh transaction (snapshot) of x.
func evalState(x *sqlrig.Session, prefix string, ownTx bool, readSchema bool) (*cstate, error) {
	if ownTx {
		if err := x.Exec("start transaction"); err != nil {
			return nil, err
		}
		defer x.Exec("rollback")
	}
	st := &cstate{Parents: map[int64]prow{}, Children: map[int64]crow{}, Listed: map[string]bool{}}
	pr, err := x.Query("select id, u, v, tag from " + prefix + "parent")
	if err != nil {
		return nil, err
	}
	for _, r := range pr.Data {
		id, _ := strconv.ParseInt(r[0], 10, 64)
		if _, dup := st.Parents[id]; dup {
			st.Viol = append(st.Viol, vio{"parent", id, "primary key", "PRIMARY", "go", strings.Join(r, ",")})
		}
		st.Parents[id] = prow{id, parseN(r[1]), parseN(r[2]), r[3]}
	}
	cr, err := x.Query("select id, pid, p1, p2, sib, a, b, n, uq1, uq2, tag from " + prefix + "child")
	if err != nil {
		return nil, err
	}
	for _, r := range cr.Data {
		id, _ := strconv.ParseInt(r[0], 10, 64)
		c := crow{id, parseN(r[1]), parseN(r[2]), parseN(r[3]), parseN(r[4]), parseN(r[5]), parseN(r[6]), parseN(r[7]), parseN(r[8]), parseN(r[9]), r[10]}
		if _, dup := st.Children[id]; dup {
			st.Viol = append(st.Viol, vio{"child", id, "primary key", "PRIMARY", "go", c.String()})
		}
		st.Children[id] = c
	}
	if readSchema { // the declared NOT NULL-ness of child.n (only the merge stage changes it)
		if sc, err := x.Query("show create table " + prefix + "child"); err == nil && len(sc.Data) > 0 {
			st.NNotNull = nNotNullRe.MatchString(sc.Data[0][1])
		} else if err != nil {
			st.Errs = append(st.Errs, "show create table: "+err.Error())
		}
	}
	// listed violations (one round trip for both tables)
	{
		lr, err := x.Query("select 'child', violation_type, id, violation_info from " + prefix + "dolt_constraint_violations_child union all " +
			"select 'parent', violation_type, id, violation_info from " + prefix + "dolt_constraint_violations_parent")
		if err != nil {
			st.Errs = append(st.Errs, "violations tables: "+err.Error())
			lr = &sqlrig.Rows{}
		}
		for _, r := range lr.Data {
			t := r[0]
			r = r[1:]
			var info map[string]any
			json.Unmarshal([]byte(r[2]), &info)
			name := ""
			switch r[0] {
			case "foreign key":
				name = fmt.Sprint(info["ForeignKey"])
			case "unique index", "check constraint":
				name = fmt.Sprint(info["Name"])
			case "not null":
				if cols, ok := info["Columns"].([]any); ok && len(cols) > 0 {
					name = fmt.Sprint(cols[0])
				}
			}
			st.Listed[fmt.Sprintf("%s|%s|%s|%s", t, r[0], r[1], name)] = true
			st.ListedN++
		}
	}
	// (b) harness evaluation on the fetched rows
	found := map[string]*vio{}
	add := func(table string, pk int64, kind, name, by, row string) {
		v := vio{table, pk, kind, name, by, row}
		if f, ok := found[v.key()]; ok {
			if !strings.Contains(f.By, by) {
				f.By += "+" + by
			}
			return
		}
		found[v.key()] = &v
	}
	uvIndex := map[[2]int64]bool{}
	for _, p := range st.Parents {
		if !p.U.Null && !p.V.Null {
			uvIndex[[2]int64{p.U.V, p.V.V}] = true
		}
	}
	groups := map[[2]int64][]int64{}
	for id, c := range st.Children {
		if !c.Pid.Null {
			if _, ok := st.Parents[c.Pid.V]; !ok {
				add("child", id, "foreign key", "fk_p", "go", c.String())
			}
		}
		if !c.P1.Null && !c.P2.Null && !uvIndex[[2]int64{c.P1.V, c.P2.V}] {
			add("child", id, "foreign key", "fk_c", "go", c.String())
		}
		if !c.Sib.Null {
			if _, ok := st.Children[c.Sib.V]; !ok {
				add("child", id, "foreign key", "fk_s", "go", c.String())
			}
		}
		if !c.A.Null && !c.B.Null && c.A.V+c.B.V > 100 {
			add("child", id, "check constraint", "ck", "go", c.String())
		}
		if st.NNotNull && c.N.Null {
			add("child", id, "not null", "n", "go", c.String())
		}
		if !c.Uq1.Null && !c.Uq2.Null {
			k := [2]int64{c.Uq1.V, c.Uq2.V}
			groups[k] = append(groups[k], id)
		}
	}
	for _, ids := range groups {
		if len(ids) > 1 {
			for _, id := range ids {
				add("child", id, "unique index", "uk", "go", st.Children[id].String())
			}
		}
	}
	// (a) plain SQL
	sqlEval := []struct{ kind, name, q string }{
		{"primary key", "PRIMARY", "select id from " + prefix + "child group by id having count(*) > 1"},
		{"unique index", "uk", "select c.id from " + prefix + "child c join (select uq1, uq2 from " + prefix + "child where uq1 is not null and uq2 is not null group by uq1, uq2 having count(*) > 1) d on c.uq1 = d.uq1 and c.uq2 = d.uq2"},
		{"foreign key", "fk_p", "select c.id from " + prefix + "child c left join " + prefix + "parent p on c.pid = p.id where c.pid is not null and p.id is null"},
		{"foreign key", "fk_c", "select c.id from " + prefix + "child c left join " + prefix + "parent p on c.p1 = p.u and c.p2 = p.v where c.p1 is not null and c.p2 is not null and p.id is null"},
		{"foreign key", "fk_s", "select c.id from " + prefix + "child c left join " + prefix + "child s on c.sib = s.id where c.sib is not null and s.id is null"},
	}
	if st.NNotNull {
		sqlEval = append(sqlEval, struct{ kind, name, q string }{"not null", "n", "select id from " + prefix + "child where n is null"})
	}
	var parts []string
	for i, e := range sqlEval {
		parts = append(parts, fmt.Sprintf("select %d as k, x.id from (%s) x", i, e.q))
	}
	rs, err := x.Query(strings.Join(parts, " union all "))
	if err != nil {
		st.Errs = append(st.Errs, "sql evaluator: "+err.Error())
	} else {
		for _, r := range rs.Data {
			k, _ := strconv.Atoi(r[0])
			id, _ := strconv.ParseInt(r[1], 10, 64)
			add("child", id, sqlEval[k].kind, sqlEval[k].name, "sql", st.Children[id].String())
		}
	}
	for _, v := range found {
		st.Viol = append(st.Viol, *v)
	}
	sort.Slice(st.Viol, func(i, j int) bool { return st.Viol[i].key() < st.Viol[j].key() })
	return st, nil
}

// unlisted returns the violating rows that remain when every LISTED row is set aside: for UNIQUE a colliding group may
// keep one unlisted row; every other violating row must itself be listed.
func (st *cstate) unlisted() []vio {
	var out []vio
	uniqGroups := map[[2]int64][]vio{}
	for _, v := range st.Viol {
		if st.Listed[v.key()] {
			continue
		}
		if v.Kind == "unique index" {
			c := st.Children[v.PK]
			k := [2]int64{c.Uq1.V, c.Uq2.V}
			uniqGroups[k] = append(uniqGroups[k], v)
			continue
		}
		out = append(out, v)
	}
	for _, g := range uniqGroups {
		if len(g) > 1 {
			out = append(out, g...)
		}
	}
	return out
}

func (st *cstate) dump() map[string]any {
	var ps, cs, ls []string
	for _, p := range st.Parents {
		ps = append(ps, fmt.Sprintf("parent(id=%d u=%s v=%s tag=%s)", p.ID, p.U, p.V, p.Tag))
	}
	for _, c := range st.Children {
		cs = append(cs, c.String())
	}
	for l := range st.Listed {
		ls = append(ls, l)
	}
	sort.Strings(ps)
	sort.Strings(cs)
	sort.Strings(ls)
	return map[string]any{"parent": ps, "child": cs, "listed_violations": ls, "n_not_null": st.NNotNull, "eval_errors": st.Errs}
}

// ---------------------------------------------------------------------------------------------------------------------
// hostile statement generator: every statement is legal or rejected on its own; the interesting ones only violate a
// constraint together with a statement of another session / branch.
// ---------------------------------------------------------------------------------------------------------------------

type c24Gen struct {
	r    *rand.Rand
	tag  string
	seq  int
	idLo int64 // private id range for fresh child rows
	// hot (shared by the sessions of one branch, may be nil): the last "set a|b = 60" another session sent; the next
	// session to update a/b may send the complementary half on the same row while the first transaction is still open.
	hot *atomic.Int64
}

func (g *c24Gen) nextTag() string { g.seq++; return fmt.Sprintf("%s.%d", g.tag, g.seq) }

func (g *c24Gen) optInt(vals ...int) string {
	if g.r.Intn(4) == 0 {
		return "NULL"
	}
	return fmt.Sprint(vals[g.r.Intn(len(vals))])
}

func (g *c24Gen) childID() int64 {
	if g.r.Intn(4) == 0 {
		return int64(1 + g.r.Intn(8)) // shared pool: collides with base rows and other sessions
	}
	g.idLo++
	return g.idLo
}

// stmt returns one statement. allowOrphans: the session runs with foreign_key_checks = 0 and may reference anything.
func (g *c24Gen) stmt(allowOrphans bool) string {
	pk := func() int { return 1 + g.r.Intn(6) } // parent keys 1..6
	ck := func() int { return 1 + g.r.Intn(8) } // child keys 1..8
	ab := []int{0, 40, 60}
	base := func() int { return 1 + g.r.Intn(4) } // the four base children
	switch n := g.r.Intn(100); {
	case n < 25: // insert child
		id := g.childID()
		pid, p12, sib := g.optInt(1, 2, 3, 4, 5, 6), g.optInt(1, 2, 3, 4, 5, 6), "NULL"
		if g.r.Intn(3) == 0 {
			sib = fmt.Sprint(base())
		}
		if allowOrphans && g.r.Intn(2) == 0 {
			pid = fmt.Sprint(7 + g.r.Intn(3))
		}
		a, b := ab[g.r.Intn(3)], ab[g.r.Intn(3)]
		if a+b > 100 {
			b = 40
		}
		nval := "0"
		if g.r.Intn(3) == 0 {
			nval = "NULL"
		}
		return fmt.Sprintf("insert into child (id, pid, p1, p2, sib, a, b, n, uq1, uq2, tag) values (%d, %s, %s, %s, %s, %d, %d, %s, %s, %s, '%s')",
			id, pid, p12, p12, sib, a, b, nval, g.optInt(1, 2, 3), g.optInt(1, 2), g.nextTag())
	case n < 35:
		return fmt.Sprintf("delete from parent where id = %d", pk())
	case n < 42:
		k := pk()
		return fmt.Sprintf("insert into parent (id, u, v, tag) values (%d, %d, %d, '%s')", k, k, k, g.nextTag())
	case n < 62: // the two halves of CHECK (a + b <= 100), each legal on its own
		ci, row, val := g.r.Intn(2), base(), []int{0, 60}[g.r.Intn(2)]
		if g.hot != nil {
			if h := g.hot.Swap(0); h != 0 && g.r.Intn(4) != 0 {
				row, ci, val = int(h/2), 1-int(h%2), 60
			} else if val == 60 {
				g.hot.Store(int64(row*2 + ci))
			}
		}
		return fmt.Sprintf("update child set %s = %d where id = %d", []string{"a", "b"}[ci], val, row)
	case n < 70:
		return fmt.Sprintf("update child set uq1 = %s, uq2 = %s where id = %d", g.optInt(1, 2, 3), g.optInt(1, 2), ck())
	case n < 76:
		return fmt.Sprintf("update child set pid = %s where id = %d", g.optInt(1, 2, 3, 4, 5, 6), ck())
	case n < 80:
		k := g.optInt(1, 2, 3, 4, 5, 6)
		return fmt.Sprintf("update child set p1 = %s, p2 = %s where id = %d", k, k, ck())
	case n < 86:
		return fmt.Sprintf("update child set sib = %s where id = %d", g.optInt(1, 2, 3, 4), ck())
	case n < 91:
		k := pk()
		k2 := k
		if g.r.Intn(2) == 0 {
			k2 = 10 + k
		}
		return fmt.Sprintf("update parent set u = %d, v = %d where id = %d", k2, k2, k)
	case n < 97:
		return fmt.Sprintf("delete from child where id = %d", base())
	default:
		i := base()
		return fmt.Sprintf("insert into child values (%d, %d, %d, %d, NULL, 40, 40, 0, %d, %d, '%s')", i, i, i, i, 10+i, 10+i, g.nextTag())
	}
}

func c24Base() []string {
	out := []string{c24Parent, c24Child}
	for i := 1; i <= 6; i++ {
		out = append(out, fmt.Sprintf("insert into parent values (%d, %d, %d, 'base.p%d')", i, i, i, i))
	}
	for i := 1; i <= 4; i++ {
		out = append(out, fmt.Sprintf("insert into child values (%d, %d, %d, %d, NULL, 40, 40, 0, %d, %d, 'base.c%d')", i, i, i, i, 10+i, 10+i, i))
	}
	return out
}

// ---------------------------------------------------------------------------------------------------------------------
// stage 1: concurrent transactions
// ---------------------------------------------------------------------------------------------------------------------

type c24Worker struct {
	id      int
	branch  string // main (must hold) | force | nofk
	x, ev   *sqlrig.Session
	g       *c24Gen
	stats   map[string]int
	script  []string
	lastTxs [][]string
}

type c24TxRun struct {
	c    *rig.Ctx
	srv  *sqlrig.Server
	db   string
	run  int
	mu   sync.Mutex
	hist []map[string]any // recent committed transactions (bounded), for witnesses
}

func (r *c24TxRun) remember(w *c24Worker, tx []string, call, ret int64) {
	r.mu.Lock()
	r.hist = append(r.hist, map[string]any{"session": w.id, "branch": w.branch, "stmts": tx, "commit_call": call, "commit_ret": ret})
	if len(r.hist) > 40 {
		r.hist = r.hist[len(r.hist)-40:]
	}
	r.mu.Unlock()
}

func (r *c24TxRun) recent() []map[string]any {
	r.mu.Lock()
	defer r.mu.Unlock()
	return append([]map[string]any(nil), r.hist...)
}

// judge applies the rule of the branch to an evaluated committed state.
func (r *c24TxRun) judge(branch, when string, st *cstate, stats map[string]int) {
	c := r.c
	stats["evaluations_"+branch]++
	for _, e := range st.Errs {
		c.Note("c24: evaluator query failed: " + e)
	}
	wit := func(v []vio) map[string]any {
		return map[string]any{"db": r.db, "run": r.run, "branch": branch, "when": when, "violating_rows": v, "state": st.dump(), "recent_commits": r.recent()}
	}
	switch branch {
	case "main":
		if len(st.Viol) > 0 {
			kinds := kindsOf(st.Viol)
			report(c, "c24/txn/committed-state-violates/"+kinds, fmt.Sprintf("the committed working set of a branch written only by sessions with default settings holds %d rows violating %s (%s)", len(st.Viol), kinds, when), wit(st.Viol))
		}
	case "force":
		stats["forced_listed_rows_seen"] += st.ListedN
		if u := st.unlisted(); len(u) > 0 {
			kinds := kindsOf(u)
			report(c, "c24/txn/forced-commit-unlisted/"+kinds, fmt.Sprintf("a branch committed with @@dolt_force_transaction_commit=1 holds %d violating rows (%s) that dolt_constraint_violations does not list (%s)", len(u), kinds, when), wit(u))
		}
		if len(st.Viol) > 0 {
			stats["forced_states_with_recorded_violations"]++
		}
	case "nofk":
		var rest []vio
		for _, v := range st.Viol {
			if v.Kind == "foreign key" {
				stats["nofk_excluded_fk_violations_seen"]++
				continue
			}
			rest = append(rest, v)
		}
		if len(rest) > 0 {
			kinds := kindsOf(rest)
			report(c, "c24/txn/committed-state-violates/fk-checks-off/"+kinds, fmt.Sprintf("a branch written by sessions with foreign_key_checks=0 (all other checks on) holds %d rows violating %s (%s)", len(rest), kinds, when), wit(rest))
		}
	}
}

func kindsOf(v []vio) string {
	m := map[string]bool{}
	for _, x := range v {
		m[strings.ReplaceAll(x.Kind, " ", "-")+":"+x.Name] = true
	}
	var ks []string
	for k := range m {
		ks = append(ks, k)
	}
	sort.Strings(ks)
	return strings.Join(ks, "+")
}

func (w *c24Worker) loop(r *c24TxRun, ntx int) {
	for k := 0; k < ntx; k++ {
		var tx []string
		if err := w.x.Exec("start transaction"); err != nil {
			if sqlrig.IsConnErr(err) {
				return
			}
			continue
		}
		nst := 1 + w.g.r.Intn(3)
		wrote := false
		for i := 0; i < nst; i++ {
			q := w.g.stmt(w.branch == "nofk")
			aff, _, err := w.x.ExecRes(q)
			if err != nil {
				if sqlrig.IsConnErr(err) {
					return
				}
				w.stats[fmt.Sprintf("stmt_rejected_errno_%d", sqlrig.Errno(err))]++
				tx = append(tx, q+"  -- rejected: "+firstLine(err.Error()))
				continue
			}
			tx = append(tx, q)
			if aff > 0 {
				wrote = true
			}
			if w.g.r.Intn(4) == 0 {
				time.Sleep(time.Duration(w.g.r.Intn(300)) * time.Microsecond)
			}
		}
		if w.g.r.Intn(8) == 0 {
			w.x.Exec("rollback")
			w.stats["tx_rolled_back"]++
			continue
		}
		call := rig.Mono()
		err := w.x.Exec("commit")
		ret := rig.Mono()
		if err != nil {
			if sqlrig.IsConnErr(err) {
				return
			}
			no := sqlrig.Errno(err)
			switch {
			case no == 1213:
				w.stats["commit_rejected_1213"]++
			case strings.Contains(err.Error(), "constraint violations"):
				w.stats["commit_rejected_constraint_violations"]++
				for _, kind := range []string{"Foreign Key", "Unique Key", "Check", "Null"} {
					if strings.Contains(err.Error(), "Type: "+kind) {
						w.stats["commit_rejected_for_"+strings.ReplaceAll(strings.ToLower(kind), " ", "_")]++
					}
				}
			default:
				w.stats[fmt.Sprintf("commit_rejected_errno_%d", no)]++
				r.c.Note("c24: commit failed: " + firstLine(err.Error()))
			}
			w.x.Exec("rollback")
			continue
		}
		w.stats["tx_committed"]++
		if !wrote {
			continue
		}
		r.remember(w, tx, call, ret)
		// evaluated after every acknowledged COMMIT, on a snapshot taken after the acknowledgement
		if k%7 == 6 { // now and then through a brand-new connection
			w.ev.Close()
			w.ev = r.srv.MustOpen(r.db)
			rig.Must(w.ev.Exec("set autocommit = 0"))
		}
		st, err := evalState(w.ev, fmt.Sprintf("`%s/%s`.", r.db, w.branch), true, false)
		if err != nil {
			if sqlrig.IsConnErr(err) {
				w.ev.Close()
				w.ev = r.srv.MustOpen(r.db)
				w.ev.Exec("set autocommit = 0")
			}
			w.stats["evaluation_errors"]++
			continue
		}
		r.judge(w.branch, fmt.Sprintf("after COMMIT of session %d acknowledged at %d", w.id, ret), st, w.stats)
	}
}

func firstLine(s string) string {
	if i := strings.Index(s, "\n"); i >= 0 {
		s = s[:i]
	}
	if len(s) > 200 {
		s = s[:200]
	}
	return s
}

func c24tx(c *rig.Ctx) {
	c.Rule("stage txns — seeded runs: fresh database with parent/child (PK, 2-column UNIQUE with NULLs, single / composite / self-referencing FKs, CHECK a+b<=100) " +
		"on three branches: main (sessions with default settings: constraints MUST hold in every committed state), force (@@dolt_force_transaction_commit=1: " +
		"every violating row must be listed in dolt_constraint_violations_<t>), nofk (foreign_key_checks=0: FK excluded, everything else must hold). " +
		"7-10 wire sessions run transactions of 1-3 hostile single-row statements over a small shared key space (child insert vs parent delete, equal unique " +
		"values on different keys, a and b of one row changed by different sessions, re-parenting, sibling links); after every acknowledged COMMIT the branch is " +
		"read back in a fresh snapshot and evaluated independently; at the end the nofk and force branches are merged into copies of main and the merged " +
		"state is evaluated (violating rows must be listed). A run is distinct/non-trivial when a commit was rejected for constraint violations and a " +
		"commit took the merge path, by (sessions, kinds rejected, #forced states with violations)")
	srv, stop := startServer(c, "c24tx")
	defer stop()
	pc := installTxHooks(c.Seed, 400)
	defer clearTxHooks()
	nruns := c.Pick(6, 60)
	tot := map[string]int{}
	for i := 0; i < nruns; i++ {
		rr := c.SubRand("c24tx", i)
		run := &c24TxRun{c: c, srv: srv, db: fmt.Sprintf("c24t_%d", i), run: i}
		nsess := 8 + rr.Intn(3)
		ntx := 40*3/nsess + 2
		c.Case(fmt.Sprintf("c24/txns/%d", i), map[string]any{"db": run.db, "sessions": nsess, "tx_per_session": ntx, "note": "statements are generated from SubRand(c24tx/<run>/w, session); replay = same seed"})
		m0 := pc.merge.Load()
		st := run.exec(nsess, ntx)
		st["merge_path_commits"] = int(pc.merge.Load() - m0)
		for k, v := range st {
			tot[k] += v
		}
		if st["commit_rejected_constraint_violations"] > 0 && st["merge_path_commits"] > 0 {
			c.Distinct(fmt.Sprintf("%d/%d/%d/%d/%d/%d", nsess, st["commit_rejected_for_foreign_key"], st["commit_rejected_for_unique_key"], st["commit_rejected_for_check"], st["forced_states_with_recorded_violations"], st["end_merge_listed_rows"]))
		}
		if i < 2 {
			c.Sample(map[string]any{"db": run.db, "sessions": nsess, "stats": st, "recent_commits": head2(run.recent(), 4)})
		}
		if distinctViolationKeys() > 25 {
			break
		}
	}
	for k, v := range tot {
		c.Count("c24.txns."+k, v)
	}
	c.Count("c24.txns.commit_path_ff", int(pc.ff.Load()))
	c.Count("c24.txns.commit_path_merge", int(pc.merge.Load()))
	c.Require(pc.merge.Load() > 0, "no commit took the non-fast-forward merge path")
	c.Require(tot["commit_rejected_1213"] > 0, "no commit was rejected with errno 1213")
	c.Require(tot["commit_rejected_for_foreign_key"] > 0 && tot["commit_rejected_for_unique_key"] > 0 && tot["commit_rejected_for_check"] > 0,
		"not every kind (FK, UNIQUE, CHECK) of jointly violating transaction pair was produced and rejected")
	c.Require(tot["forced_states_with_recorded_violations"] > 0, "no forced commit kept a violating row")
	c.Require(tot["evaluations_main"] > 0 && tot["evaluations_force"] > 0 && tot["evaluations_nofk"] > 0, "a branch class was never evaluated")
	countReported(c, "c24")
	scanOwnRaceReports(c, "C24", c24RaceFuncs)
}

func head2(l []map[string]any, n int) []map[string]any {
	if len(l) < n {
		return l
	}
	return l[:n]
}

func (r *c24TxRun) exec(nsess, ntx int) map[string]int {
	c := r.c
	adm := r.srv.MustOpen("")
	defer adm.Close()
	setup := append([]string{"create database " + r.db, "use " + r.db}, c24Base()...)
	setup = append(setup, "call dolt_commit('-Am', 'base')", "call dolt_branch('force')", "call dolt_branch('nofk')")
	for _, s := range setup {
		if _, err := adm.Query(s); err != nil {
			rig.Must(fmt.Errorf("c24 set-up %q: %w", s, err))
		}
	}
	workers := make([]*c24Worker, nsess)
	hots := map[string]*atomic.Int64{"main": {}, "force": {}, "nofk": {}}
	for i := range workers {
		wr := c.SubRand(fmt.Sprintf("c24tx/%d/w", r.run), i)
		w := &c24Worker{id: i, stats: map[string]int{}, g: &c24Gen{r: wr, tag: fmt.Sprintf("s%d", i), idLo: int64(1000 * (i + 1))}}
		switch { // three forcing and two fk-checks-off sessions on the excluded branches (so that they race among themselves), the rest on main
		case i < 3:
			w.branch = "force"
		case i < 5:
			w.branch = "nofk"
		default:
			w.branch = "main"
		}
		w.g.hot = hots[w.branch]
		w.x = r.srv.MustOpen(r.db)
		w.ev = r.srv.MustOpen(r.db)
		init := []string{fmt.Sprintf("call dolt_checkout('%s')", w.branch), "set autocommit = 0"}
		if w.branch == "force" {
			init = append(init, "set @@dolt_force_transaction_commit = 1")
		}
		if w.branch == "nofk" {
			init = append(init, "set foreign_key_checks = 0")
		}
		init = append(init, "commit")
		for _, s := range init {
			if _, err := w.x.Query(s); err != nil {
				rig.Must(fmt.Errorf("c24 session init %q: %w", s, err))
			}
		}
		rig.Must(w.ev.Exec("set autocommit = 0"))
		workers[i] = w
	}
	var wg sync.WaitGroup
	for _, w := range workers {
		wg.Add(1)
		go func(w *c24Worker) { defer wg.Done(); w.loop(r, ntx) }(w)
	}
	wg.Wait()
	st := map[string]int{}
	for _, w := range workers {
		w.x.Close()
		w.ev.Close()
		for k, v := range w.stats {
			st[k] += v
		}
	}
	// quiescent end: every branch once more, then merges of the excluded branches into copies of main
	fin := r.srv.MustOpen(r.db)
	defer fin.Close()
	rig.Must(fin.Exec("set autocommit = 0"))
	for _, br := range []string{"main", "force", "nofk"} {
		if s, err := evalState(fin, fmt.Sprintf("`%s/%s`.", r.db, br), true, false); err == nil {
			r.judge(br, "at the quiescent end of the run", s, st)
		}
	}
	commitAll := []string{"use " + r.db, "call dolt_checkout('main')", "call dolt_commit('-A', '--allow-empty', '-m', 'end main')",
		"call dolt_checkout('nofk')", "call dolt_commit('-A', '--allow-empty', '-m', 'end nofk')",
		"call dolt_checkout('force')", "call dolt_commit('-A', '--force', '--allow-empty', '-m', 'end force')", "call dolt_checkout('main')"}
	for _, s := range commitAll {
		if _, err := adm.Query(s); err != nil {
			c.Note("c24: end-of-run commit failed: " + s + ": " + firstLine(err.Error()))
		}
	}
	for _, src := range []string{"nofk", "force"} {
		tgt := "m_" + src
		if _, err := adm.Query(fmt.Sprintf("call dolt_checkout('-b', '%s', 'main')", tgt)); err != nil {
			c.Note("c24: " + err.Error())
			continue
		}
		adm.Exec("set autocommit = 0")
		adm.Exec("start transaction")
		_, err := adm.Query(fmt.Sprintf("call dolt_merge('%s')", src))
		if err != nil {
			st["end_merge_rejected"]++
		} else {
			st["end_merges"]++
			s, err := evalState(adm, "", false, false)
			if err == nil {
				st["end_merge_listed_rows"] += s.ListedN
				st["end_merge_violating_rows"] += len(s.Viol)
				if u := s.unlisted(); len(u) > 0 {
					kinds := kindsOf(u)
					report(c, "c24/txn/end-merge-unlisted/"+src+"/"+kinds, fmt.Sprintf("after dolt_merge('%s') into a copy of main %d violating rows (%s) are kept but not listed in dolt_constraint_violations", src, len(u), kinds),
						map[string]any{"db": r.db, "run": r.run, "violating_rows": u, "state": s.dump()})
				}
			}
		}
		adm.Exec("rollback")
		adm.Exec("set autocommit = 1")
		adm.Query("call dolt_checkout('main')")
	}
	adm.Exec("drop database " + r.db)
	return st
}
