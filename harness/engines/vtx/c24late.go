package vtx

import (
	"encoding/json"
	"fmt"
	"sort"
	"strconv"
	"strings"

	"verif/rig"
	"verif/sqlrig"
)

// C24, schema family "late constraints": the tables fork WITHOUT constraints; one side ADDS constraints after the fork
// (FOREIGN KEY to a NON-primary-key, index-backed column of the parent — so the referenced index does not exist in the
// merge base —, UNIQUE index, CHECK over two columns, NOT NULL) while the other side makes row changes that are legal
// there (no constraint declared) but violate them: referenced parent column UPDATEd in place, parent row deleted,
// dangling / duplicate / check-violating / NULL child values. Keyed and keyless parents, both merge directions, forced
// and unforced commits, and the same pair as two concurrent transactions merged at COMMIT.
// Independent evaluator as in c24.go: rows fetched + plain SQL, constraints taken from SHOW CREATE TABLE of the state
// under evaluation, dolt_constraint_violations_c2 only read to see whether a kept violating row is listed.

type lateCase struct {
	DB      string
	Keyless bool
	Schema  []string // side A
	Data    []string // side B
	Shapes  []string
}

func lateBase(keyless bool) []string {
	out := []string{"create table p2 (id bigint primary key, v1 int, tag varchar(40))",
		"create table c2 (id bigint primary key, fk int, a int, b int, n int, uq int, tag varchar(40))"}
	if keyless {
		out[0] = "create table p2 (id bigint, v1 int, tag varchar(40))"
	}
	for i := 1; i <= 6; i++ {
		out = append(out, fmt.Sprintf("insert into p2 values (%d, %d, 'base.p%d')", i, 10*i, i))
	}
	for i := 1; i <= 6; i++ {
		fk := fmt.Sprint(10 * i)
		if i > 4 {
			fk = "NULL"
		}
		out = append(out, fmt.Sprintf("insert into c2 values (%d, %s, 40, 40, 0, %d, 'base.c%d')", i, fk, i, i))
	}
	return out
}

func genLateCase(c *rig.Ctx, i int) *lateCase {
	r := c.SubRand("c24late", i)
	lc := &lateCase{DB: fmt.Sprintf("c24l_%d", i), Keyless: i%3 == 2}
	addFK, addUQ, addCK, addNN := r.Intn(10) < 7 || i%2 == 0, r.Intn(3) == 0 || i%4 == 1, r.Intn(3) == 0 || i%4 == 2, r.Intn(3) == 0 || i%4 == 3
	if !addFK && !addUQ && !addCK && !addNN {
		addFK = true
	}
	tag := func(s string) string { return fmt.Sprintf("D%d.%s", i, s) }
	k := 1 + r.Intn(4)
	if addFK {
		idx := "alter table p2 add unique key idx_v1 (v1)"
		if r.Intn(2) == 0 {
			idx = "alter table p2 add key idx_v1 (v1)"
		}
		lc.Schema = append(lc.Schema, idx, "alter table c2 add constraint fk_late foreign key (fk) references p2 (v1)")
		shape := r.Intn(5)
		if i%4 == 0 {
			shape = 0
		}
		switch shape {
		case 0, 1, 2: // the referenced column changes in place (same row, same key): the old value disappears
			lc.Data = append(lc.Data, fmt.Sprintf("update p2 set v1 = v1 + 100 where id = %d", k))
			lc.Shapes = append(lc.Shapes, "fk_parent_updated_in_place")
		case 3:
			lc.Data = append(lc.Data, fmt.Sprintf("delete from p2 where id = %d", k))
			lc.Shapes = append(lc.Shapes, "fk_parent_deleted")
		default:
			lc.Data = append(lc.Data, fmt.Sprintf("insert into c2 values (%d, 999, 1, 1, 0, %d, '%s')", 100+k, 100+k, tag("orphan")))
			lc.Shapes = append(lc.Shapes, "fk_child_orphan_inserted")
		}
	}
	if addUQ {
		lc.Schema = append(lc.Schema, "alter table c2 add unique key uq_late (uq)")
		if r.Intn(2) == 0 {
			lc.Data = append(lc.Data, fmt.Sprintf("insert into c2 values (%d, NULL, 1, 1, 0, %d, '%s')", 110+k, k, tag("dup")))
		} else {
			lc.Data = append(lc.Data, fmt.Sprintf("update c2 set uq = %d where id = %d", k, 5+r.Intn(2)))
		}
		lc.Shapes = append(lc.Shapes, "unique_duplicate")
	}
	if addCK {
		lc.Schema = append(lc.Schema, "alter table c2 add constraint ck_late check (a + b <= 100)")
		if r.Intn(2) == 0 {
			lc.Data = append(lc.Data, fmt.Sprintf("update c2 set a = 70 where id = %d", k))
		} else {
			lc.Data = append(lc.Data, fmt.Sprintf("insert into c2 values (%d, NULL, 70, 70, 0, %d, '%s')", 120+k, 120+k, tag("chk")))
		}
		lc.Shapes = append(lc.Shapes, "check_violating_values")
	}
	if addNN {
		lc.Schema = append(lc.Schema, "alter table c2 modify n int not null")
		if r.Intn(2) == 0 {
			lc.Data = append(lc.Data, fmt.Sprintf("update c2 set n = NULL where id = %d", 1+r.Intn(6)))
		} else {
			lc.Data = append(lc.Data, fmt.Sprintf("insert into c2 values (%d, NULL, 1, 1, NULL, %d, '%s')", 130+k, 130+k, tag("null")))
		}
		lc.Shapes = append(lc.Shapes, "null_in_not_null_column")
	}
	// harmless extras on both sides
	for j := 0; j < r.Intn(3); j++ {
		lc.Data = append(lc.Data, fmt.Sprintf("insert into c2 values (%d, %d, 1, 1, 0, %d, '%s')", 200+j, 10*(5+r.Intn(2)), 200+j, tag(fmt.Sprint("ok", j))))
	}
	if r.Intn(2) == 0 {
		lc.Schema = append(lc.Schema, fmt.Sprintf("insert into c2 values (300, 50, 1, 1, 0, 300, 'S%d.ok')", i))
	}
	if lc.Keyless { // a keyless parent has no id to address rows by value of the key: address by v1
		for j, s := range lc.Data {
			for id := 1; id <= 6; id++ {
				s = strings.ReplaceAll(s, fmt.Sprintf("p2 set v1 = v1 + 100 where id = %d", id), fmt.Sprintf("p2 set v1 = v1 + 100 where v1 = %d", 10*id))
				s = strings.ReplaceAll(s, fmt.Sprintf("from p2 where id = %d", id), fmt.Sprintf("from p2 where v1 = %d", 10*id))
			}
			lc.Data[j] = s
		}
	}
	return lc
}

type lateRow struct {
	ID              int64
	FK, A, B, N, Uq nint
	Tag             string
}

func (c lateRow) String() string {
	return fmt.Sprintf("c2(id=%d fk=%s a=%s b=%s n=%s uq=%s tag=%s)", c.ID, c.FK, c.A, c.B, c.N, c.Uq, c.Tag)
}

type lateState struct {
	PV       map[int64]int
	C        map[int64]lateRow
	Decl     map[string]bool // fk_late, uq_late, ck_late, n
	Listed   map[string]bool
	ListedN  int
	Viol     []vio
	Errs     []string
	CreateC2 string
}

func evalLate(x *sqlrig.Session, prefix string, ownTx bool) (*lateState, error) {
	if ownTx {
		if err := x.Exec("start transaction"); err != nil {
			return nil, err
		}
		defer x.Exec("rollback")
	}
	st := &lateState{PV: map[int64]int{}, C: map[int64]lateRow{}, Decl: map[string]bool{}, Listed: map[string]bool{}}
	pr, err := x.Query("select v1 from " + prefix + "p2")
	if err != nil {
		return nil, err
	}
	for _, r := range pr.Data {
		if v := parseN(r[0]); !v.Null {
			st.PV[v.V]++
		}
	}
	cr, err := x.Query("select id, fk, a, b, n, uq, tag from " + prefix + "c2")
	if err != nil {
		return nil, err
	}
	found := map[string]*vio{}
	add := func(pk int64, kind, name, by, row string) {
		v := vio{"c2", pk, kind, name, by, row}
		if f, ok := found[v.key()]; ok {
			if !strings.Contains(f.By, by) {
				f.By += "+" + by
			}
			return
		}
		found[v.key()] = &v
	}
	for _, r := range cr.Data {
		id, _ := strconv.ParseInt(r[0], 10, 64)
		row := lateRow{id, parseN(r[1]), parseN(r[2]), parseN(r[3]), parseN(r[4]), parseN(r[5]), r[6]}
		if _, dup := st.C[id]; dup {
			add(id, "primary key", "PRIMARY", "go", row.String())
		}
		st.C[id] = row
	}
	sc, err := x.Query("show create table " + prefix + "c2")
	if err != nil || len(sc.Data) == 0 {
		return nil, fmt.Errorf("show create table c2: %v", err)
	}
	ddl := sc.Data[0][1]
	st.CreateC2 = ddl
	st.Decl["fk_late"] = strings.Contains(ddl, "CONSTRAINT `fk_late` FOREIGN KEY")
	st.Decl["uq_late"] = strings.Contains(ddl, "UNIQUE KEY `uq_late`")
	st.Decl["ck_late"] = strings.Contains(ddl, "CONSTRAINT `ck_late` CHECK")
	st.Decl["n"] = nNotNullRe.MatchString(ddl)
	if lr, err := x.Query("select violation_type, id, violation_info from " + prefix + "dolt_constraint_violations_c2"); err != nil {
		st.Errs = append(st.Errs, "violations table: "+err.Error())
	} else {
		for _, r := range lr.Data {
			var info map[string]any
			json.Unmarshal([]byte(r[2]), &info)
			name := ""
			switch r[0] {
			case "foreign key":
				name = fmt.Sprint(info["ForeignKey"])
			case "unique index", "check constraint":
				name = fmt.Sprint(info["Name"])
			case "not null":
				if cols, ok := info["Columns"].([]any); ok && len(cols) > 0 {
					name = fmt.Sprint(cols[0])
				}
			}
			st.Listed[fmt.Sprintf("c2|%s|%s|%s", r[0], r[1], name)] = true
			st.ListedN++
		}
	}
	groups := map[int64][]int64{}
	for id, c := range st.C {
		if st.Decl["fk_late"] && !c.FK.Null && st.PV[c.FK.V] == 0 {
			add(id, "foreign key", "fk_late", "go", c.String())
		}
		if st.Decl["ck_late"] && !c.A.Null && !c.B.Null && c.A.V+c.B.V > 100 {
			add(id, "check constraint", "ck_late", "go", c.String())
		}
		if st.Decl["n"] && c.N.Null {
			add(id, "not null", "n", "go", c.String())
		}
		if st.Decl["uq_late"] && !c.Uq.Null {
			groups[c.Uq.V] = append(groups[c.Uq.V], id)
		}
	}
	for _, ids := range groups {
		if len(ids) > 1 {
			for _, id := range ids {
				add(id, "unique index", "uq_late", "go", st.C[id].String())
			}
		}
	}
	type se struct{ kind, name, q string }
	evs := []se{{"primary key", "PRIMARY", "select id from " + prefix + "c2 group by id having count(*) > 1"}}
	if st.Decl["fk_late"] {
		evs = append(evs, se{"foreign key", "fk_late", "select distinct c.id from " + prefix + "c2 c left join " + prefix + "p2 p on c.fk = p.v1 where c.fk is not null and p.v1 is null"})
	}
	if st.Decl["uq_late"] {
		evs = append(evs, se{"unique index", "uq_late", "select c.id from " + prefix + "c2 c join (select uq from " + prefix + "c2 where uq is not null group by uq having count(*) > 1) d on c.uq = d.uq"})
	}
	if st.Decl["n"] {
		evs = append(evs, se{"not null", "n", "select id from " + prefix + "c2 where n is null"})
	}
	var parts []string
	for i, e := range evs {
		parts = append(parts, fmt.Sprintf("select %d as k, x.id from (%s) x", i, e.q))
	}
	if rs, err := x.Query(strings.Join(parts, " union all ")); err != nil {
		st.Errs = append(st.Errs, "sql evaluator: "+err.Error())
	} else {
		for _, r := range rs.Data {
			k, _ := strconv.Atoi(r[0])
			id, _ := strconv.ParseInt(r[1], 10, 64)
			add(id, evs[k].kind, evs[k].name, "sql", st.C[id].String())
		}
	}
	for _, v := range found {
		st.Viol = append(st.Viol, *v)
	}
	sort.Slice(st.Viol, func(i, j int) bool { return st.Viol[i].key() < st.Viol[j].key() })
	return st, nil
}

func (st *lateState) unlisted() []vio {
	var out []vio
	g := map[int64][]vio{}
	for _, v := range st.Viol {
		if st.Listed[v.key()] {
			continue
		}
		if v.Kind == "unique index" {
			g[st.C[v.PK].Uq.V] = append(g[st.C[v.PK].Uq.V], v)
			continue
		}
		out = append(out, v)
	}
	for _, vs := range g {
		if len(vs) > 1 {
			out = append(out, vs...)
		}
	}
	return out
}

func (st *lateState) dump() map[string]any {
	var cs, ls, ps []string
	for _, c := range st.C {
		cs = append(cs, c.String())
	}
	for l := range st.Listed {
		ls = append(ls, l)
	}
	for v, n := range st.PV {
		ps = append(ps, fmt.Sprintf("v1=%d x%d", v, n))
	}
	sort.Strings(cs)
	sort.Strings(ls)
	sort.Strings(ps)
	return map[string]any{"p2_values": ps, "c2": cs, "listed_violations": ls, "declared": st.Decl, "show_create_c2": st.CreateC2, "eval_errors": st.Errs}
}

func runLateCase(c *rig.Ctx, srv *sqlrig.Server, lc *lateCase, stats *c24MergeStats) {
	x := srv.MustOpen("")
	defer x.Close()
	run := func(stmts ...string) error {
		for _, s := range stmts {
			if _, err := x.Query(s); err != nil {
				return fmt.Errorf("%s: %w", s, err)
			}
		}
		return nil
	}
	tolerant := func(sess *sqlrig.Session, stmts []string) (applied []string) {
		for _, s := range stmts {
			if _, err := sess.Query(s); err != nil {
				stats.add("late.side_stmt_rejected", 1)
				applied = append(applied, s+"  -- rejected: "+firstLine(err.Error()))
				continue
			}
			applied = append(applied, s)
		}
		return
	}
	setup := append([]string{"create database " + lc.DB, "use " + lc.DB}, lateBase(lc.Keyless)...)
	setup = append(setup, "call dolt_commit('-Am', 'base')", "call dolt_branch('other')", "call dolt_branch('txb')")
	if err := run(setup...); err != nil {
		rig.Must(fmt.Errorf("c24 late set-up: %w", err))
	}
	defer x.Exec("drop database " + lc.DB)
	aApplied := tolerant(x, lc.Schema)
	if err := run("call dolt_commit('-A', '--allow-empty', '-m', 'schema side')"); err != nil {
		c.Note("c24 late: schema-side commit failed: " + firstLine(err.Error()))
		return
	}
	ah, _ := x.Scalar("select hashof('HEAD')")
	run("call dolt_checkout('other')")
	bApplied := tolerant(x, lc.Data)
	if err := run("call dolt_commit('-A', '--allow-empty', '-m', 'data side')"); err != nil {
		c.Note("c24 late: data-side commit failed: " + firstLine(err.Error()))
		return
	}
	run("call dolt_checkout('main')")
	script := map[string]any{"db": lc.DB, "keyless_parent": lc.Keyless, "base": lateBase(lc.Keyless), "schema_side(main)": aApplied, "data_side(other)": bApplied, "shapes": lc.Shapes}
	for _, s := range lc.Shapes {
		stats.add("late.shape:"+s, 1)
	}
	if lc.Keyless {
		stats.add("late.cases_keyless_parent", 1)
	} else {
		stats.add("late.cases_keyed_parent", 1)
	}
	ev := srv.MustOpen(lc.DB)
	defer ev.Close()
	rig.Must(ev.Exec("set autocommit = 0"))
	for _, br := range []string{"main", "other"} {
		if s, err := evalLate(ev, fmt.Sprintf("`%s/%s`.", lc.DB, br), true); err == nil && len(s.Viol) > 0 {
			report(c, "c24/late/side-not-clean/"+kindsOf(s.Viol), "a branch violates its own declared constraints before any merge", map[string]any{"script": script, "branch": br, "violating_rows": s.Viol, "state": s.dump()})
			return
		}
	}
	judgeMerged := func(dir string, s *lateState) {
		stats.add("late.merged_states_evaluated", 1)
		for l := range s.Listed {
			stats.add("late.listed:"+strings.ReplaceAll(strings.Split(l, "|")[1], " ", "-"), 1)
		}
		for _, v := range s.Viol {
			stats.add("late.kept:"+strings.ReplaceAll(v.Kind, " ", "-")+":"+v.Name, 1)
		}
		for _, e := range s.Errs {
			c.Note("c24 late: evaluator: " + e)
		}
		if s.ListedN > 0 || len(s.Viol) > 0 {
			c.Distinct(fmt.Sprintf("late/%v/%s/%s", lc.Keyless, dir, strings.Join(lc.Shapes, "+")))
		}
		if u := s.unlisted(); len(u) > 0 {
			kinds := kindsOf(u)
			report(c, "c24/late/merge/unlisted/"+kinds, fmt.Sprintf("dolt_merge (%s) was acknowledged and keeps %d rows violating constraints added on one side after the fork (%s) that dolt_constraint_violations_c2 does not list", dir, len(u), kinds),
				map[string]any{"script": script, "direction": dir, "violating_rows": u, "state": s.dump()})
		}
	}
	// (1) data side into schema side, default session
	run("set autocommit = 0", "start transaction")
	if _, err := x.Query("call dolt_merge('other')"); err != nil {
		stats.add("late.merges_rejected", 1)
		x.Exec("rollback")
	} else {
		stats.add("late.merges_acknowledged", 1)
		if s, e := evalLate(x, "", false); e == nil {
			judgeMerged("data->schema", s)
		} else {
			c.Note("c24 late: evaluation failed: " + e.Error())
		}
		cerr := x.Exec("commit")
		if cerr != nil {
			stats.add("late.unforced_commit_rejected", 1)
			x.Exec("rollback")
		} else {
			stats.add("late.unforced_commit_accepted", 1)
		}
		if s, e := evalLate(ev, fmt.Sprintf("`%s/main`.", lc.DB), true); e == nil && len(s.Viol) > 0 {
			report(c, "c24/late/merge/committed-state-violates/"+kindsOf(s.Viol), fmt.Sprintf("after dolt_merge + COMMIT by a default session (commit error: %v) the committed working set of main violates constraints it declares", cerr),
				map[string]any{"script": script, "violating_rows": s.Viol, "state": s.dump()})
		}
	}
	run("set autocommit = 1")
	// (2) schema side into a copy of the data side
	if err := run("call dolt_checkout('-b', 'o2', 'other')", "set autocommit = 0", "start transaction"); err == nil {
		if _, err := x.Query("call dolt_merge('" + ah + "')"); err != nil {
			stats.add("late.merges_rejected", 1)
		} else {
			stats.add("late.merges_acknowledged", 1)
			if s, e := evalLate(x, "", false); e == nil {
				judgeMerged("schema->data", s)
			}
		}
		x.Exec("rollback")
		run("set autocommit = 1", "call dolt_checkout('main')")
	}
	// (3) forced commit of the merge on a copy of the schema side
	if err := run("call dolt_checkout('-b', 'f2', '"+ah+"')", "set autocommit = 0", "set @@dolt_force_transaction_commit = 1", "start transaction"); err == nil {
		if _, err := x.Query("call dolt_merge('other')"); err != nil {
			stats.add("late.merges_rejected", 1)
			x.Exec("rollback")
		} else if err := x.Exec("commit"); err != nil {
			x.Exec("rollback")
		} else {
			stats.add("late.forced_commits", 1)
			if s, e := evalLate(ev, fmt.Sprintf("`%s/f2`.", lc.DB), true); e == nil {
				if u := s.unlisted(); len(u) > 0 {
					report(c, "c24/late/forced-commit-unlisted/"+kindsOf(u), "after a forced COMMIT of the merge the committed working set holds violating rows that are not listed",
						map[string]any{"script": script, "violating_rows": u, "state": s.dump()})
				}
			}
		}
		run("set @@dolt_force_transaction_commit = 0", "set autocommit = 1", "call dolt_checkout('main')")
	}
	// (4) the same pair as two concurrent transactions on one branch: T2 opens its snapshot, T1 adds the constraints
	// (DDL, committed), T2 changes the rows and COMMITs: merged at commit; a default session must end up clean or rejected.
	t2 := srv.MustOpen(lc.DB)
	defer t2.Close()
	if err := run("call dolt_checkout('txb')"); err == nil {
		ok := true
		for _, s := range []string{"call dolt_checkout('txb')", "set autocommit = 0", "start transaction", "select count(*) from c2", "select count(*) from p2"} {
			if _, err := t2.Query(s); err != nil {
				ok = false
			}
		}
		if ok {
			t1 := tolerant(x, lc.Schema)
			t2s := tolerant(t2, lc.Data)
			cerr := t2.Exec("commit")
			if cerr != nil {
				stats.add("late.txn_commit_rejected", 1)
				t2.Exec("rollback")
			} else {
				stats.add("late.txn_commit_accepted", 1)
			}
			if s, e := evalLate(ev, fmt.Sprintf("`%s/txb`.", lc.DB), true); e == nil {
				stats.add("late.txn_states_evaluated", 1)
				if len(s.Viol) > 0 {
					report(c, "c24/late/txn/committed-state-violates/"+kindsOf(s.Viol), fmt.Sprintf("T1 added constraints while T2 (default session) changed rows; after T2's COMMIT (error: %v) the committed working set violates the constraints it declares", cerr),
						map[string]any{"script": script, "t1": t1, "t2": t2s, "violating_rows": s.Viol, "state": s.dump()})
				}
			}
		}
		run("call dolt_checkout('main')")
	}
}
