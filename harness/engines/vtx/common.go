// Package vtx holds the concurrent wire-level SQL transaction monitors: C22 (stable snapshots), C23 (merge at commit,
// no lost writes), C24 (committed data satisfies declared constraints) and C28 (auto-increment values are never handed
// out twice). Every monitor drives ONE in-process sql-server per worker process with many wire sessions (one goroutine +
// one TCP connection each) and records its history at the client boundary (rig.Mono() before the request is sent and
// after the reply was received).
package vtx

import (
	"fmt"
	"os"
	"path/filepath"
	"regexp"
	"runtime"
	"sort"
	"strings"
	"sync"
	"sync/atomic"
	"time"

	"github.com/dolthub/dolt/go/libraries/utils/verifhook"

	"verif/rig"
	"verif/sqlrig"
)

// pathCounts counts the commit paths reported by the dsess.tx.path emit point.
type pathCounts struct {
	ff, merge atomic.Int64
}

// installTxHooks widens the window between the working-set read and the write inside DoltTransaction.doCommit
// (yield / short sleeps chosen from the hit number and the seed, so the schedule perturbation is a function of the seed)
// and counts which commit path was taken. Hooks only widen schedules and count; they never decide a verdict.
func installTxHooks(seed int64, maxSleepMicros int) *pathCounts {
	pc := &pathCounts{}
	verifhook.OnEmit(func(point string, kv []any) {
		if point != "dsess.tx.path" || len(kv) == 0 {
			return
		}
		switch fmt.Sprint(kv[0]) {
		case "ff":
			pc.ff.Add(1)
		case "merge":
			pc.merge.Add(1)
		}
	})
	verifhook.Set("dsess.tx.beforeWrite", verifhook.Action{Kind: "func", Fn: func(_ string, hit int64) error {
		h := uint64(hit)*0x9E3779B97F4A7C15 ^ uint64(seed)*0xBF58476D1CE4E5B9
		h ^= h >> 29
		switch h % 4 {
		case 0:
		case 1:
			for i := 0; i < 3; i++ {
				yield()
			}
		default:
			if maxSleepMicros > 0 {
				time.Sleep(time.Duration(h>>8%uint64(maxSleepMicros)) * time.Microsecond)
			}
		}
		return nil
	}})
	return pc
}

func clearTxHooks() {
	verifhook.Clear("dsess.tx.beforeWrite")
	verifhook.OnEmit(nil)
}

// startServer starts the one sql-server of this worker process.
func startServer(c *rig.Ctx, label string) (*sqlrig.Server, func()) {
	dir := c.TempDir(label)
	srv, err := sqlrig.Start(dir + "/data")
	rig.Must(err)
	return srv, func() {
		srv.Stop()
		os.RemoveAll(dir)
	}
}

// ---------------------------------------------------------------------------------------------------------------------
// Race reports. The supervisor lists every race report of a Race stage in the evidence and escalates those whose two
// access stacks both contain a function matching Spec.RaceFuncs. Its stack parser keeps the text before the first '('
// of a frame line, which for methods with pointer receivers — pkg.(*T).m() — is only the package path, so method-level
// patterns cannot match there. Until that is changed in rig/, the monitors scan the race log of their own process with the
// same rule (both of the two access stacks contain a frame matching one of the property's mechanism patterns) on full
// function names and report a match as a violation themselves. All other reports stay diagnostics.
// ---------------------------------------------------------------------------------------------------------------------

var raceFrameRe = regexp.MustCompile(`(?m)^  (\S.*)\(.*?\)$`)
var raceAccessRe = regexp.MustCompile(`(?m)^(?:Write|Read|Previous write|Previous read|Atomic|Previous atomic)[^\n]*$`)

func scanOwnRaceReports(c *rig.Ctx, prop string, funcs []string) {
	if !c.Race {
		return
	}
	// c.Dir is VERIF_SCRATCH = the stage scratch directory; GORACE log_path=<scratch>/race -> race.<pid>
	files, _ := filepath.Glob(filepath.Join(c.Dir, "race.*"))
	var res []*regexp.Regexp
	for _, f := range funcs {
		res = append(res, regexp.MustCompile(f))
	}
	total, inMech := 0, 0
	seen := map[string]bool{}
	for _, f := range files {
		b, err := os.ReadFile(f)
		if err != nil {
			continue
		}
		parts := strings.Split(string(b), "WARNING: DATA RACE")
		for _, p := range parts[1:] {
			if i := strings.Index(p, "=================="); i >= 0 {
				p = p[:i]
			}
			total++
			blocks := raceAccessRe.Split(p, -1)
			var stacks [][]string
			for _, blk := range blocks[1:] {
				if i := strings.Index(blk, "\nGoroutine "); i >= 0 {
					blk = blk[:i]
				}
				var fns []string
				for _, m := range raceFrameRe.FindAllStringSubmatch(blk, -1) {
					fns = append(fns, m[1])
				}
				stacks = append(stacks, fns)
			}
			if len(stacks) < 2 {
				continue
			}
			hit := func(st []string) string {
				for _, fn := range st {
					for _, re := range res {
						if re.MatchString(fn) {
							return fn
						}
					}
				}
				return ""
			}
			a, b2 := hit(stacks[0]), hit(stacks[1])
			if a == "" || b2 == "" {
				continue
			}
			short := func(s string) string {
				if i := strings.LastIndex(s, "/"); i >= 0 {
					s = s[i+1:]
				}
				return regexp.MustCompile(`\[[^\]]*\]`).ReplaceAllString(s, "[…]")
			}
			pair := []string{short(a), short(b2)}
			sort.Strings(pair)
			key := strings.ToLower(prop) + "/race/" + pair[0] + "<->" + pair[1]
			inMech++
			if seen[key] {
				continue
			}
			seen[key] = true
			c.Violation(key, "data race with both accesses inside the property's own mechanism functions", map[string]any{"report": p})
		}
	}
	c.Count(strings.ToLower(prop)+".race_reports_seen_by_monitor", total)
	c.Count(strings.ToLower(prop)+".race_reports_in_mechanism", inMech)
}

func yield() { runtime.Gosched() }

// ---------------------------------------------------------------------------------------------------------------------

// Mechanism function patterns (regexps on full function names in race reports), from the anchors of each property.
var (
	c22RaceFuncs = []string{
		`dsess\.\(\*DoltSession\)\.(StartTransaction|clear|lookupDbState|addDB)$`,
		`dsess\.NewDoltTransaction$`,
		`dsess\.\(?\*?DoltTransaction\)?\.(GetInitialRoot|AddDb)$`,
		`dsess\.TransactionRoot$`,
		`doltdb\.\(\*DoltDB\)\.ResolveWorkingSetAtRoot$`,
	}
	c23RaceFuncs = []string{
		`dsess\.\(\*DoltTransaction\)\.(doCommit|mergeRoots|validateWorkingSetForCommit|Commit|DoltCommit)(\.func\d+)?$`,
		`dsess\.(doltCommit|txCommit)$`,
	}
	c24RaceFuncs = []string{
		`dsess\.\(\*DoltTransaction\)\.validateWorkingSetForCommit$`,
		`merge\.\(\*?(uniqValidator|nullValidator|checkValidator)\)?\.`,
		`merge\.AddForeignKeyViolations$`,
	}
	c28RaceFuncs = []string{
		`dsess\.\(\*SequenceTracker\[.*\]\)\.`,
		`AutoIncrementTracker`,
	}
)

// Register wires the vtx checks.
func Register() {
	rig.SubCommands["probe"] = probeMain
	rig.Register(&rig.Spec{Prop: "C22", Level: "exploration", RaceFuncs: c22RaceFuncs,
		Stages: []rig.Stage{{Name: "snapshots", Fn: c22, Race: true, TimeoutQuick: 40 * time.Minute, TimeoutThorough: 8 * time.Hour}}})
	rig.Register(&rig.Spec{Prop: "C23", Level: "exploration", RaceFuncs: c23RaceFuncs,
		Stages: []rig.Stage{{Name: "commits", Fn: c23, Race: true, TimeoutQuick: 40 * time.Minute, TimeoutThorough: 8 * time.Hour}}})
	rig.Register(&rig.Spec{Prop: "C24", Level: "exploration", RaceFuncs: c24RaceFuncs,
		Stages: []rig.Stage{
			{Name: "txns", Fn: c24tx, Race: true, TimeoutQuick: 40 * time.Minute, TimeoutThorough: 8 * time.Hour},
			{Name: "merges", Fn: c24merge, Race: true, TimeoutQuick: 40 * time.Minute, TimeoutThorough: 8 * time.Hour},
		}})
	rig.Register(&rig.Spec{Prop: "C28", Level: "exploration", RaceFuncs: c28RaceFuncs,
		Stages: []rig.Stage{
			{Name: "ledger", Fn: c28, Race: true, TimeoutQuick: 40 * time.Minute, TimeoutThorough: 8 * time.Hour},
			// direct stress of the tracker API (unexported constructor fields: in-package twin); not a -race stage: raw speed
			// maximises lock hand-offs, and the oracle is a counter array, not the race detector
			{Name: "tracker", Twin: &rig.Twin{Pkg: "libraries/doltcore/sqle/dsess", Files: []string{"c28_tracker_test.go"}, Run: "^TestVerifC28Tracker$"},
				TimeoutQuick: 30 * time.Minute, TimeoutThorough: 2 * time.Hour},
		}})
}

// report forwards a violation to the rig, at most three witnesses per key and worker process, so that one recurring class
// (e.g. a known finding) neither floods the event log nor ends the exploration early; every occurrence is counted.
var (
	reportMu     sync.Mutex
	reportCounts = map[string]int{}
)

func report(c *rig.Ctx, key, what string, witness any) {
	reportMu.Lock()
	reportCounts[key]++
	n := reportCounts[key]
	reportMu.Unlock()
	if n <= 3 {
		c.Violation(key, what, witness)
	}
}

// distinctViolationKeys is what the exploration loops look at to stop early.
func distinctViolationKeys() int {
	reportMu.Lock()
	defer reportMu.Unlock()
	return len(reportCounts)
}

func countReported(c *rig.Ctx, prop string) {
	reportMu.Lock()
	defer reportMu.Unlock()
	for k, n := range reportCounts {
		c.Count(prop+".violations_of_class:"+k, n)
	}
}
