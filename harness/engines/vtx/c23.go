package vtx

import (
	"fmt"
	"sort"
	"strings"

	"verif/rig"
)

// C23 — concurrent transactions merge at commit and never lose committed writes (DESIGN §4 C23, Appendix A.3:
// first-committer-wins per cell, final state, no trace of failed transactions, error class; HEAD rules for
// dolt_commit / @@dolt_transaction_commit).
//
// Per cell the committed net writes (prev -> new, prev taken from the writer's own first read) must form ONE trail from
// the initial value to the final value. Values are unique, only the tombstone repeats, so:
//   * a non-tombstone value replaced by two committed transactions with different new values  = lost update;
//   * a committed non-tombstone value that nobody replaced and that is not the final value      = lost committed write;
//   * tombstone balance: #inserts over ⊥ + [final=⊥] = #distinct deletions + [initial=⊥]        (two concurrent inserts).
// Cells written by an indeterminate transaction (connection error at commit) are skipped and counted.

func c23(c *rig.Ctx) {
	c.Rule("seeded runs: fresh database, table t(pk,c0,c1), 1-2 branches, 3-8 keys, 4-10 wire sessions hammering the same rows: " +
		"BEGIN; R0 full read; 1-3 single-row inserts/updates/deletes chosen from R0 with globally unique cell values; COMMIT | ROLLBACK | " +
		"CALL dolt_commit('-A') | @@dolt_transaction_commit=1, plus bare autocommit CAS statements; schedule widened at dsess.tx.beforeWrite. " +
		"Checked per cell: committed writers form one chain from the initial to the final value (no two committed writers over the same " +
		"previous value, no committed value missing from the end), no value of a failed/rolled-back transaction anywhere, failed commits " +
		"carry errno 1213, every Dolt commit contains its transaction's writes and never regresses a cell. " +
		"A run is distinct/non-trivial when it contains a rejected (1213) commit and a merge-path commit and its " +
		"(sessions,branches,keys,#1213,#cellwise-merged rows) signature is new")
	c.Assume("the only source of commit failures in constraint-free tables is a write-write conflict; connection-class errors leave the transaction indeterminate")
	srv, stop := startServer(c, "c23")
	defer stop()
	pc := installTxHooks(c.Seed, 400)
	defer clearTxHooks()
	nruns := c.Pick(24, 300)
	tot := map[string]int{}
	for i := 0; i < nruns; i++ {
		r := c.SubRand("c23cfg", i)
		cfg := txCfg{Prop: "c23", Sessions: 4 + r.Intn(7), Branches: 1 + r.Intn(2), Keys: 3 + r.Intn(6), MaxWrites: 3,
			PWriteTx: 0.9, PReread: 0.15, POtherRead: 0.1, PRollback: 0.12, PBare: 0.3, DoltCommits: r.Intn(3) != 0}
		cfg.TxPerSess = 60/cfg.Sessions + 1
		if cfg.Branches == 1 {
			cfg.POtherRead = 0
		}
		run := &txRun{c: c, srv: srv, db: fmt.Sprintf("c23_%d", i), cfg: cfg, seedLbl: "c23", run: i}
		c.Case(fmt.Sprintf("c23/run/%d", i), run.payload())
		m0 := pc.merge.Load()
		run.execRun()
		st := analyse23(run)
		mergePath := int(pc.merge.Load() - m0)
		for k, v := range st {
			tot[k] += v
		}
		if st["commit_rejected_1213"] > 0 && mergePath > 0 {
			c.Distinct(fmt.Sprintf("%d/%d/%d/%d/%d", cfg.Sessions, cfg.Branches, cfg.Keys, st["commit_rejected_1213"], st["cells_with_concurrent_committed_neighbours"]))
		}
		if i < 3 {
			c.Sample(map[string]any{"run": run.payload(), "stats": st, "merge_path_commits": mergePath, "one_tx": sampleTx(run)})
		}
		if distinctViolationKeys() > 25 {
			break
		}
	}
	for k, v := range tot {
		c.Count("c23."+k, v)
	}
	c.Count("c23.commit_path_ff", int(pc.ff.Load()))
	c.Count("c23.commit_path_merge", int(pc.merge.Load()))
	c.Require(pc.merge.Load() > 0, "no commit took the non-fast-forward merge path (dsess.tx.path=merge never emitted)")
	c.Require(tot["commit_rejected_1213"] > 0, "no commit was rejected with errno 1213")
	c.Require(tot["conflict_pairs_one_winner"] > 0, "no pair of overlapping transactions wrote the same cell from the same previous value")
	if tot["dolt_commits_checked"] == 0 {
		c.Inconclusive("non-vacuity: no Dolt commit created inside a transaction was checked")
	}
	countReported(c, "c23")
	scanOwnRaceReports(c, "C23", c23RaceFuncs)
}

func analyse23(r *txRun) map[string]int {
	c := r.c
	st := map[string]int{}
	viol := func(key, what string, extra map[string]any) {
		wit := map[string]any{"db": r.db, "run": r.run}
		for k, v := range extra {
			wit[k] = v
		}
		report(c, key, what, wit)
	}
	type edge struct {
		prev, val string
		tx        *txRec
	}
	edges := map[cellKey][]edge{}    // committed net writes
	attempts := map[cellKey][]edge{} // net writes of transactions whose commit was rejected
	indet := map[cellKey]bool{}      // cells touched by indeterminate transactions
	byMsg := map[string]*txRec{}
	for _, tx := range r.txs {
		st["txs"]++
		st["tx_"+tx.Outcome]++
		st["end_"+tx.End+"_"+tx.Outcome]++
		byMsg["tx:"+tx.ID] = tx
		if len(tx.StmtErrs) > 0 {
			st["stmt_errors"]++
			if st["stmt_errors"] <= 3 {
				c.Note("c23: statement error inside a transaction: " + tx.StmtErrs[0])
			}
		}
		switch tx.Outcome {
		case "committed":
			for cell, pv := range tx.net() {
				edges[cell] = append(edges[cell], edge{pv[0], pv[1], tx})
			}
		case "indeterminate":
			st["indeterminate_txs"]++
			for _, w := range tx.Writes {
				indet[w.Cell] = true
			}
		case "failed":
			// error class: a commit (or autocommit statement) that fails in these constraint-free tables lost a write-write race
			isCommitStmt := tx.End == "commit" || tx.End == "dolt_commit" || tx.End == "txcommit1" || tx.End == "autocommit"
			if isCommitStmt && tx.EndCall != 0 && len(tx.StmtErrs) == 0 {
				if tx.Errno == 1213 {
					st["commit_rejected_1213"]++
					for cell, pv := range tx.net() {
						attempts[cell] = append(attempts[cell], edge{pv[0], pv[1], tx})
					}
				} else {
					viol(fmt.Sprintf("c23/error-class/%s/errno-%d", tx.End, tx.Errno),
						fmt.Sprintf("a %s of a transaction on constraint-free tables failed with errno %d instead of the retryable 1213: %s", tx.End, tx.Errno, tx.Err),
						map[string]any{"tx": tx.brief()})
				}
			}
		}
	}
	// no trace of failed / rolled-back transactions: in any read of any transaction, in the final state, in any Dolt commit
	checkVisible := func(where string, br string, rows map[int][]string, extra map[string]any) {
		for pk, row := range rows {
			for col, v := range row {
				w := r.reg[v]
				cell := cellKey{br, pk, col}
				switch {
				case w == nil:
					viol("c23/unknown-value/"+where, fmt.Sprintf("%s holds %q in %s, a value no transaction ever wrote", where, v, cell), extra)
				case w.Cell != cell:
					viol("c23/misplaced-value/"+where, fmt.Sprintf("%s holds %q in %s but it was written to %s", where, v, cell, w.Cell), extra)
				case w.Tx.Outcome == "failed" || w.Tx.Outcome == "rolledback":
					e2 := map[string]any{"writer": w.Tx.brief()}
					for k, v := range extra {
						e2[k] = v
					}
					viol("c23/failed-tx-visible/"+where, fmt.Sprintf("%s holds %q in %s, written by transaction %s which %s", where, v, cell, w.Tx.ID, w.Tx.Outcome), e2)
				}
			}
		}
	}
	for _, tx := range r.txs {
		for _, rd := range tx.Reads {
			for pk, row := range rd.Rows {
				for col, v := range row {
					w := r.reg[v]
					if w != nil && w.Tx != tx && w.Cell == (cellKey{rd.Br, pk, col}) && (w.Tx.Outcome == "failed" || w.Tx.Outcome == "rolledback") {
						viol("c23/failed-tx-visible/read", fmt.Sprintf("a later read returned %q written by transaction %s which %s", v, w.Tx.ID, w.Tx.Outcome),
							map[string]any{"reader": tx.brief(), "writer": w.Tx.brief(), "read": rd.SQL})
					}
				}
			}
			st["reads_checked"]++
		}
	}
	for br, rows := range r.final {
		checkVisible("final-state", br, rows, map[string]any{"branch": br, "final": renderRows(rows)})
	}
	// chains
	for cell, init := range r.init {
		es := edges[cell]
		final := tomb
		if row, ok := r.final[cell.Br][cell.PK]; ok {
			final = row[cell.Col]
		}
		if indet[cell] {
			st["cells_skipped_indeterminate"]++
			continue
		}
		st["cells_checked"]++
		if len(es) > 0 {
			st["cells_written"]++
		}
		// Guard-rail (state-based merge): a deletion p -> ⊥ by W is convergent, not conflicting, when other committed
		// transactions had already taken the cell from p to ⊥ (p -> x -> … -> ⊥) before W's commit returned: W's merge
		// then sees "deleted on both sides". Such edges are set aside; everything else must still form one trail.
		{
			var kept []edge
			for _, e := range es {
				abs := false
				if e.val == tomb && e.prev != tomb {
					seen := map[string]bool{e.prev: true}
					q := []string{e.prev}
					for len(q) > 0 && !abs {
						x := q[0]
						q = q[1:]
						for _, f := range es {
							if f.tx == e.tx || f.prev != x || f.tx.EndCall >= e.tx.EndRet {
								continue
							}
							if f.val == tomb {
								if f.prev != e.prev {
									abs = true
									break
								}
								continue
							}
							if !seen[f.val] {
								seen[f.val] = true
								q = append(q, f.val)
							}
						}
					}
				}
				if abs {
					st["convergent_deletes_over_replaced_version"]++
				} else {
					kept = append(kept, e)
				}
			}
			es = kept
		}
		// de-duplicate identical (prev,new) edges: only ⊥ deletions of the same version can coincide
		type pv struct{ p, v string }
		uniq := map[pv][]*txRec{}
		for _, e := range es {
			uniq[pv{e.prev, e.val}] = append(uniq[pv{e.prev, e.val}], e.tx)
		}
		out := map[string][]pv{}
		news := map[string]bool{}
		for k := range uniq {
			out[k.p] = append(out[k.p], k)
			news[k.v] = true
		}
		desc := func() []string {
			var s []string
			for _, e := range es {
				s = append(s, fmt.Sprintf("%s: %q -> %q (snapshot by %d, commit %d..%d, %s)", e.tx.ID, e.prev, e.val, e.tx.SnapHi, e.tx.EndCall, e.tx.EndRet, e.tx.End))
			}
			sort.Strings(s)
			return s
		}
		bad := false
		for p, outs := range out {
			if p == tomb || len(outs) < 2 {
				continue
			}
			bad = true
			var txs []any
			for _, o := range outs {
				for _, t := range uniq[o] {
					txs = append(txs, t.brief())
				}
			}
			viol("c23/lost-update", fmt.Sprintf("cell %s: %d committed transactions replaced the same value %q with different values — neither observed the other, one update is lost", cell, len(outs), p),
				map[string]any{"cell": cell.String(), "initial": init, "final": final, "committed_writes": desc(), "transactions": txs})
		}
		// every prev must be the initial value or a committed new value
		for p := range out {
			if p != init && !news[p] {
				st["writes_based_on_uncommitted_value"]++
				bad = true
				viol("c23/write-based-on-uncommitted-value", fmt.Sprintf("cell %s: a committed transaction replaced %q, which is neither the initial value nor the value of any committed transaction", cell, p),
					map[string]any{"cell": cell.String(), "initial": init, "final": final, "committed_writes": desc()})
			}
		}
		// final value
		if final != init && !news[final] {
			bad = true
			viol("c23/final-state", fmt.Sprintf("cell %s: final value %q is neither the initial value nor written by a committed transaction", cell, final),
				map[string]any{"cell": cell.String(), "initial": init, "final": final, "committed_writes": desc()})
		}
		if !bad {
			// ends: committed non-tombstone values nobody replaced must be the final value
			for k, txs := range uniq {
				if k.v == tomb {
					continue
				}
				if len(out[k.v]) == 0 && k.v != final {
					bad = true
					viol("c23/lost-committed-write", fmt.Sprintf("cell %s: transaction %s committed %q, no committed transaction replaced it, yet the final value is %q", cell, txs[0].ID, k.v, final),
						map[string]any{"cell": cell.String(), "initial": init, "final": final, "committed_writes": desc(), "writer": txs[0].brief()})
				}
			}
			if init != tomb && len(out[init]) == 0 && final != init {
				bad = true
				viol("c23/final-state", fmt.Sprintf("cell %s: nobody replaced the initial value %q yet the final value is %q", cell, init, final),
					map[string]any{"cell": cell.String(), "committed_writes": desc()})
			}
			if final != tomb && len(out[final]) > 0 {
				bad = true
				viol("c23/final-state", fmt.Sprintf("cell %s: the final value %q was replaced by a committed transaction and must not be the end of the chain", cell, final),
					map[string]any{"cell": cell.String(), "committed_writes": desc()})
			}
		}
		if !bad {
			// tombstone balance
			ins, del := len(out[tomb]), 0
			for k := range uniq {
				if k.v == tomb {
					del++
				}
			}
			lhs, rhs := ins, del
			if final == tomb {
				lhs++
			}
			if init == tomb {
				rhs++
			}
			if lhs != rhs {
				key := "c23/lost-update"
				if lhs < rhs {
					key = "c23/final-state"
				}
				viol(key, fmt.Sprintf("cell %s: %d committed inserts over an absent row but only %d absences existed (initial %q, %d committed deletions, final %q) — two transactions inserted over the same absence or a deletion was lost", cell, ins, rhs-boolInt(final == tomb), init, del, final),
					map[string]any{"cell": cell.String(), "committed_writes": desc()})
			}
		}
		// non-vacuity: contested cells
		for _, a := range attempts[cell] {
			for _, e := range es {
				if e.prev == a.prev && e.val != a.val {
					st["conflict_pairs_one_winner"]++
					break
				}
			}
		}
	}
	// rows whose cells were changed by different committed transactions with overlapping lifetimes (cell-wise merges)
	type rk struct {
		br string
		pk int
	}
	rowTx := map[rk][]*txRec{}
	for cell, es := range edges {
		for _, e := range es {
			rowTx[rk{cell.Br, cell.PK}] = append(rowTx[rk{cell.Br, cell.PK}], e.tx)
		}
	}
	for _, txs := range rowTx {
		found := false
		for i := 0; i < len(txs) && !found; i++ {
			for j := i + 1; j < len(txs); j++ {
				a, b := txs[i], txs[j]
				if a != b && a.SnapLo < b.EndRet && b.SnapLo < a.EndRet {
					found = true
					break
				}
			}
		}
		if found {
			st["cells_with_concurrent_committed_neighbours"]++
		}
	}
	// Dolt commits created by transactions
	for br, hs := range r.heads {
		reach := func(cell cellKey, from, to string) bool { // is `to` a chain successor of `from`
			if from == to {
				return true
			}
			seen := map[string]bool{from: true}
			q := []string{from}
			for len(q) > 0 {
				x := q[0]
				q = q[1:]
				for _, e := range edges[cell] {
					if e.prev == x && !seen[e.val] {
						if e.val == to {
							return true
						}
						seen[e.val] = true
						q = append(q, e.val)
					}
				}
			}
			return false
		}
		var prev *headCommit
		for i := range hs {
			h := &hs[i]
			wit := map[string]any{"branch": br, "commit": h.Hash, "message": h.Msg, "rows": renderRows(h.Rows)}
			checkVisible("dolt-commit", br, h.Rows, wit)
			if tx := byMsg[h.Msg]; tx != nil {
				st["dolt_commits_checked"]++
				if tx.Outcome != "committed" && tx.Outcome != "indeterminate" {
					viol("c23/failed-tx-visible/dolt-commit", fmt.Sprintf("branch %s has Dolt commit %s created by transaction %s whose commit %s", br, h.Hash, tx.ID, tx.Outcome),
						map[string]any{"tx": tx.brief(), "commit": wit})
				}
				for cell, pv := range tx.net() {
					got := tomb
					if row, ok := h.Rows[cell.PK]; ok {
						got = row[cell.Col]
					}
					if cell.Br == br && got != pv[1] {
						viol("c23/dolt-commit-misses-own-write", fmt.Sprintf("Dolt commit %s created by transaction %s holds %q in %s; the transaction wrote %q", h.Hash, tx.ID, got, cell, pv[1]),
							map[string]any{"tx": tx.brief(), "commit": wit})
					}
				}
			}
			if prev != nil {
				for k := 0; k < r.cfg.Keys; k++ {
					for col := 0; col < ncols; col++ {
						cell := cellKey{br, k, col}
						if indet[cell] {
							continue
						}
						a, b := tomb, tomb
						if row, ok := prev.Rows[k]; ok {
							a = row[col]
						}
						if row, ok := h.Rows[k]; ok {
							b = row[col]
						}
						if a != b && !reach(cell, a, b) {
							viol("c23/dolt-commit-regresses-cell", fmt.Sprintf("branch %s: cell %s goes from %q in commit %s to %q in the next commit %s, which is not a later version in the cell's chain of committed writes (HEAD moved and was not merged)", br, cell, a, prev.Hash, b, h.Hash),
								map[string]any{"prev_commit": map[string]any{"hash": prev.Hash, "message": prev.Msg, "rows": renderRows(prev.Rows)}, "commit": wit})
						}
					}
				}
			}
			prev = h
		}
	}
	return st
}

func boolInt(b bool) int {
	if b {
		return 1
	}
	return 0
}

var _ = strings.Join
var _ = rig.Mono
