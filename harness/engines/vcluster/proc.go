// Package vcluster holds the monitor of C45 (replicas converge to their source and never show invented
// state). Every dolt sql-server of a scenario is its OWN operating-system process (`<engine> vcluster-server
// <datadir> <config.yaml>`); the monitor talks to the servers only over the MySQL wire protocol and to file://
// remotes through a separate read-only helper process (`<engine> vcluster-remote <dir>`).
package vcluster

import (
	"bufio"
	"context"
	"database/sql"
	"encoding/json"
	"fmt"
	"io"
	"net"
	"os"
	"os/exec"
	"os/signal"
	"path/filepath"
	"sort"
	"strings"
	"sync"
	"syscall"
	"time"

	_ "github.com/go-sql-driver/mysql"

	"github.com/dolthub/dolt/go/cmd/dolt/commands/sqlserver"
	"github.com/dolthub/dolt/go/libraries/doltcore/doltdb"
	"github.com/dolthub/dolt/go/libraries/doltcore/env"
	"github.com/dolthub/dolt/go/libraries/utils/config"
	"github.com/dolthub/dolt/go/libraries/utils/filesys"
	"github.com/dolthub/dolt/go/libraries/utils/svcs"
	"github.com/dolthub/dolt/go/store/types"

	"verif/rig"
)

func init() {
	rig.SubCommands["vcluster-server"] = serverMain
	rig.SubCommands["vcluster-remote"] = remoteMain
}

// serverMain: `vcluster-server <datadir> <config.yaml>` runs one real sql-server in this process until it is
// killed (SIGKILL) or asked to stop (SIGTERM / SIGINT: graceful stop, exit 0).
func serverMain(args []string) int {
	if len(args) < 2 {
		fmt.Fprintln(os.Stderr, "usage: vcluster-server <datadir> <config.yaml>")
		return 2
	}
	dir, cfgFile := args[0], args[1]
	if err := os.MkdirAll(dir, 0o755); err != nil {
		fmt.Fprintln(os.Stderr, err)
		return 2
	}
	home := filepath.Join(filepath.Dir(dir), "home-"+filepath.Base(dir))
	os.MkdirAll(home, 0o755)
	fs, err := filesys.LocalFilesysWithWorkingDir(dir)
	if err != nil {
		fmt.Fprintln(os.Stderr, err)
		return 2
	}
	ctx := context.Background()
	dEnv := env.LoadWithoutDB(ctx, func() (string, error) { return home, nil }, fs, doltdb.LocalDirDoltDB, "verif")
	if cfg, ok := dEnv.Config.GetConfig(env.GlobalConfig); ok {
		cfg.SetStrings(map[string]string{config.UserNameKey: "verif", config.UserEmailKey: "verif@example.com"})
	}
	ctl := svcs.NewController()
	done := make(chan error, 1)
	go func() {
		done <- sqlserver.StartServer(ctx, "0.0.0", "dolt sql-server", []string{"--config", cfgFile}, dEnv, dEnv.FS, ctl)
	}()
	sig := make(chan os.Signal, 2)
	signal.Notify(sig, syscall.SIGTERM, syscall.SIGINT)
	if err := ctl.WaitForStart(); err != nil {
		fmt.Fprintln(os.Stderr, "vcluster-server: start failed:", err)
		return 4
	}
	fmt.Println("VCLUSTER-READY")
	select {
	case <-sig:
		ctl.Stop()
		ctl.WaitForStop()
		select {
		case <-done:
		case <-time.After(60 * time.Second):
		}
		return 0
	case err := <-done:
		fmt.Fprintln(os.Stderr, "vcluster-server: server ended:", err)
		return 5
	}
}

// remoteMain: `vcluster-remote <dir>` opens the file:// remote in dir and answers on stdin/stdout:
// "heads" -> one JSON line {"branch": "commit hash", ...} of the branch heads the remote has right now.
// It never writes to the remote (it only reads the manifest and chunks), and it is a process of its own so
// that what it sees is what another machine cloning the remote would see.
func remoteMain(args []string) int {
	if len(args) < 1 {
		fmt.Fprintln(os.Stderr, "usage: vcluster-remote <dir>")
		return 2
	}
	ctx := context.Background()
	in := bufio.NewScanner(os.Stdin)
	out := bufio.NewWriter(os.Stdout)
	var ddb *doltdb.DoltDB
	reply := func(v any) {
		b, _ := json.Marshal(v)
		out.Write(b)
		out.WriteByte('\n')
		out.Flush()
	}
	for in.Scan() {
		cmd := strings.TrimSpace(in.Text())
		switch cmd {
		case "heads":
			if ddb == nil {
				d, err := doltdb.LoadDoltDB(ctx, types.Format_DOLT, "file://"+args[0], filesys.LocalFS)
				if err != nil {
					reply(map[string]string{"!error": err.Error()})
					continue
				}
				ddb = d
			}
			if err := ddb.Rebase(ctx); err != nil {
				reply(map[string]string{"!error": "rebase: " + err.Error()})
				continue
			}
			brs, err := ddb.GetBranchesWithHashes(ctx)
			if err != nil {
				reply(map[string]string{"!error": err.Error()})
				continue
			}
			m := map[string]string{}
			for _, b := range brs {
				m[b.Ref.GetPath()] = b.Hash.String()
			}
			reply(m)
		case "quit":
			return 0
		default:
			reply(map[string]string{"!error": "unknown command " + cmd})
		}
	}
	return 0
}

// ---------------------------------------------------------------------------------------------------------
// monitor side: process handles

var (
	portMu    sync.Mutex
	portsUsed = map[int]bool{}
)

// freePort probes a free TCP port; a port is handed out at most once per monitor process.
func freePort() int {
	portMu.Lock()
	defer portMu.Unlock()
	for {
		l, err := net.Listen("tcp", "127.0.0.1:0")
		rig.Must(err)
		p := l.Addr().(*net.TCPAddr).Port
		l.Close()
		if !portsUsed[p] {
			portsUsed[p] = true
			return p
		}
	}
}

// proc is one server process of a scenario.
type proc struct {
	Name    string
	Dir     string // data directory
	Cfg     string // YAML file
	Port    int
	Sock    string
	LogPath string

	mu  sync.Mutex
	cmd *exec.Cmd
	end chan struct{} // closed when the current process has been reaped
}

// start launches the process and waits until it accepts SQL connections.
func (p *proc) start() error {
	p.mu.Lock()
	defer p.mu.Unlock()
	lf, err := os.OpenFile(p.LogPath, os.O_CREATE|os.O_APPEND|os.O_WRONLY, 0o644)
	if err != nil {
		return err
	}
	os.Remove(p.Sock)
	cmd := exec.Command(rig.Self(), "vcluster-server", p.Dir, p.Cfg)
	cmd.Stdout, cmd.Stderr = lf, lf
	cmd.Dir = filepath.Dir(p.Dir)
	cmd.Env = append(os.Environ(), "VERIF_HOOKS=")
	if err := cmd.Start(); err != nil {
		lf.Close()
		return err
	}
	lf.Close()
	p.cmd = cmd
	end := make(chan struct{})
	p.end = end
	go func() { cmd.Wait(); close(end) }()
	deadline := time.Now().Add(240 * time.Second)
	for time.Now().Before(deadline) {
		select {
		case <-end:
			return fmt.Errorf("%s: server process exited during start (see %s)", p.Name, p.LogPath)
		default:
		}
		s, err := openSession(p.dsn(""))
		if err == nil {
			_, err = s.Scalar("select 1")
			s.Close()
			if err == nil {
				return nil
			}
		}
		time.Sleep(100 * time.Millisecond)
	}
	return fmt.Errorf("%s: server did not accept connections in time (see %s)", p.Name, p.LogPath)
}

// signal sends sig to the process and waits until it is gone.
func (p *proc) stop(sig syscall.Signal) {
	p.mu.Lock()
	cmd, end := p.cmd, p.end
	p.cmd = nil
	p.mu.Unlock()
	if cmd == nil {
		return
	}
	cmd.Process.Signal(sig)
	select {
	case <-end:
	case <-time.After(90 * time.Second):
		cmd.Process.Kill()
		<-end
	}
	os.Remove(p.Sock)
}

func (p *proc) dsn(db string) string {
	return fmt.Sprintf("root:@tcp(127.0.0.1:%d)/%s?multiStatements=false&parseTime=false&interpolateParams=true&timeout=20s&readTimeout=120s&writeTimeout=60s",
		p.Port, strings.ReplaceAll(db, "/", "%2F"))
}

func tailFile(path string, n int) string {
	f, err := os.Open(path)
	if err != nil {
		return ""
	}
	defer f.Close()
	st, _ := f.Stat()
	off := st.Size() - int64(n)
	if off < 0 {
		off = 0
	}
	f.Seek(off, io.SeekStart)
	b, _ := io.ReadAll(f)
	return string(b)
}

// ---------------------------------------------------------------------------------------------------------
// wire sessions (same rendering as sqlrig.Session, built from a DSN)

type session struct {
	db   *sql.DB
	conn *sql.Conn
}

const null = "\x00NULL"

func openSession(dsn string) (*session, error) {
	d, err := sql.Open("mysql", dsn)
	if err != nil {
		return nil, err
	}
	d.SetMaxOpenConns(1)
	ctx, cancel := context.WithTimeout(context.Background(), 30*time.Second)
	defer cancel()
	c, err := d.Conn(ctx)
	if err != nil {
		d.Close()
		return nil, err
	}
	return &session{db: d, conn: c}, nil
}

func (x *session) Close() {
	if x == nil {
		return
	}
	x.conn.Close()
	x.db.Close()
}

func (x *session) Exec(q string, args ...any) error {
	_, err := x.conn.ExecContext(context.Background(), q, args...)
	return err
}

func (x *session) Query(q string, args ...any) ([][]string, error) {
	rs, err := x.conn.QueryContext(context.Background(), q, args...)
	if err != nil {
		return nil, err
	}
	defer rs.Close()
	cols, err := rs.Columns()
	if err != nil {
		return nil, err
	}
	var out [][]string
	for rs.Next() {
		raw := make([]sql.RawBytes, len(cols))
		ptrs := make([]any, len(cols))
		for i := range raw {
			ptrs[i] = &raw[i]
		}
		if err := rs.Scan(ptrs...); err != nil {
			return nil, err
		}
		row := make([]string, len(cols))
		for i, b := range raw {
			if b == nil {
				row[i] = null
			} else {
				row[i] = string(b)
			}
		}
		out = append(out, row)
	}
	return out, rs.Err()
}

func (x *session) Scalar(q string, args ...any) (string, error) {
	r, err := x.Query(q, args...)
	if err != nil {
		return "", err
	}
	if len(r) != 1 || len(r[0]) < 1 {
		return "", fmt.Errorf("scalar query %q returned %d rows", q, len(r))
	}
	return r[0][0], nil
}

// warnings returns the messages of SHOW WARNINGS (the warnings of the previous statement).
func (x *session) warnings() ([]string, error) {
	r, err := x.Query("show warnings")
	if err != nil {
		return nil, err
	}
	var out []string
	for _, row := range r {
		out = append(out, strings.Join(row, "|"))
	}
	return out, nil
}

// ---------------------------------------------------------------------------------------------------------
// remote observer process

type remoteObs struct {
	cmd *exec.Cmd
	in  io.WriteCloser
	out *bufio.Reader
	mu  sync.Mutex
}

func startRemoteObs(dir, logPath string) (*remoteObs, error) {
	cmd := exec.Command(rig.Self(), "vcluster-remote", dir)
	lf, err := os.OpenFile(logPath, os.O_CREATE|os.O_APPEND|os.O_WRONLY, 0o644)
	if err != nil {
		return nil, err
	}
	cmd.Stderr = lf
	in, err := cmd.StdinPipe()
	if err != nil {
		return nil, err
	}
	out, err := cmd.StdoutPipe()
	if err != nil {
		return nil, err
	}
	if err := cmd.Start(); err != nil {
		return nil, err
	}
	lf.Close()
	return &remoteObs{cmd: cmd, in: in, out: bufio.NewReaderSize(out, 1<<20)}, nil
}

// heads returns the branch heads of the remote as seen by the observer process.
func (r *remoteObs) heads() (map[string]string, error) {
	r.mu.Lock()
	defer r.mu.Unlock()
	if _, err := io.WriteString(r.in, "heads\n"); err != nil {
		return nil, err
	}
	line, err := r.out.ReadString('\n')
	if err != nil {
		return nil, err
	}
	m := map[string]string{}
	if err := json.Unmarshal([]byte(line), &m); err != nil {
		return nil, err
	}
	if e, ok := m["!error"]; ok {
		return nil, fmt.Errorf("remote observer: %s", e)
	}
	return m, nil
}

func (r *remoteObs) close() {
	if r == nil {
		return
	}
	io.WriteString(r.in, "quit\n")
	r.in.Close()
	done := make(chan struct{})
	go func() { r.cmd.Wait(); close(done) }()
	select {
	case <-done:
	case <-time.After(10 * time.Second):
		r.cmd.Process.Kill()
		<-done
	}
}

// ---------------------------------------------------------------------------------------------------------
// small helpers

type tally struct {
	mu sync.Mutex
	m  map[string]int
}

func newTally() *tally { return &tally{m: map[string]int{}} }

func (t *tally) inc(name string) { t.add(name, 1) }

func (t *tally) add(name string, n int) {
	t.mu.Lock()
	t.m[name] += n
	t.mu.Unlock()
}

func (t *tally) get(name string) int {
	t.mu.Lock()
	defer t.mu.Unlock()
	return t.m[name]
}

func (t *tally) flush(c *rig.Ctx) {
	t.mu.Lock()
	defer t.mu.Unlock()
	var names []string
	for k := range t.m {
		names = append(names, k)
	}
	sort.Strings(names)
	for _, k := range names {
		c.Count(k, t.m[k])
	}
}
