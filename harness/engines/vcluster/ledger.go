package vcluster

import (
	"crypto/sha256"
	"encoding/hex"
	"errors"
	"fmt"
	"sort"
	"strings"
	"sync"

	"github.com/go-sql-driver/mysql"
)

// Every write of a scenario is a transaction (W, N): writer W's N-th transaction. It inserts the K rows
// (W, N, 0..K-1) into table t of one branch and then either commits the SQL transaction (working-set update
// only) or calls dolt_commit('-a','-m','w<W>-n<N>') (working-set update + new branch head). All values are
// unique, so for any row or commit shown by any server the transaction it belongs to is decidable.
type txRec struct {
	W, N    int
	Branch  string
	K       int
	Dolt    bool   // dolt_commit (true) or plain COMMIT (false)
	Server  int    // index of the server it was sent to
	Call    int64  // rig.Mono() before the first statement
	Ret     int64  // rig.Mono() after the commit statement returned (0 while running)
	Outcome string // "" running | ok | failed (definitely not applied) | unknown (commit statement ended in an error)
	Hash    string // commit hash returned by dolt_commit (ok && Dolt)
	Acked   bool   // ok, replication acknowledgement was enabled and SHOW WARNINGS was empty
	Warn    string
	Err     string
}

func (t *txRec) msg() string { return fmt.Sprintf("w%d-n%d", t.W, t.N) }

type ledger struct {
	mu  sync.Mutex
	txs map[[2]int]*txRec
	ord []*txRec
}

func newLedger() *ledger { return &ledger{txs: map[[2]int]*txRec{}} }

func (l *ledger) begin(t *txRec) {
	l.mu.Lock()
	l.txs[[2]int{t.W, t.N}] = t
	l.ord = append(l.ord, t)
	l.mu.Unlock()
}

// finish records the outcome (fields of t are only written under the ledger lock once begin was called).
func (l *ledger) finish(t *txRec, f func(t *txRec)) {
	l.mu.Lock()
	f(t)
	l.mu.Unlock()
}

func (l *ledger) snapshot() []txRec {
	l.mu.Lock()
	defer l.mu.Unlock()
	out := make([]txRec, len(l.ord))
	for i, t := range l.ord {
		out[i] = *t
	}
	return out
}

func (l *ledger) size() int {
	l.mu.Lock()
	defer l.mu.Unlock()
	return len(l.ord)
}

// row is one row of table t.
type row struct{ W, N, J int }

func parseRows(data [][]string) ([]row, error) {
	out := make([]row, 0, len(data))
	for _, r := range data {
		var x row
		if len(r) != 3 {
			return nil, fmt.Errorf("row with %d columns", len(r))
		}
		if _, err := fmt.Sscanf(r[0]+" "+r[1]+" "+r[2], "%d %d %d", &x.W, &x.N, &x.J); err != nil {
			return nil, fmt.Errorf("unparsable row %q", r)
		}
		out = append(out, x)
	}
	sort.Slice(out, func(i, j int) bool {
		a, b := out[i], out[j]
		if a.W != b.W {
			return a.W < b.W
		}
		if a.N != b.N {
			return a.N < b.N
		}
		return a.J < b.J
	})
	return out, nil
}

func rowsDigest(rs []row) string {
	h := sha256.New()
	for _, r := range rs {
		fmt.Fprintf(h, "%d,%d,%d;", r.W, r.N, r.J)
	}
	return hex.EncodeToString(h.Sum(nil)[:12])
}

// rowObs is one distinct row set a server showed for a branch (first time it was seen).
type rowObs struct {
	Server int
	Role   string
	Branch string
	Rows   []row
	Start  int64 // rig.Mono() before the read
	End    int64 // rig.Mono() after the read
}

// headObs is one distinct head a server showed for a branch (first time it was seen).
type headObs struct {
	Server int
	Role   string
	Branch string
	Hash   string
	Start  int64
	End    int64
}

// obsLog de-duplicates observations: the first sighting of each distinct value per (server, branch) is kept.
type obsLog struct {
	mu    sync.Mutex
	heads map[string]*headObs
	rows  map[string]*rowObs
	polls int
}

func newObsLog() *obsLog { return &obsLog{heads: map[string]*headObs{}, rows: map[string]*rowObs{}} }

func (o *obsLog) addHead(h headObs) bool {
	k := fmt.Sprintf("%d/%s/%s/%s", h.Server, h.Role, h.Branch, h.Hash)
	o.mu.Lock()
	defer o.mu.Unlock()
	if _, ok := o.heads[k]; ok {
		return false
	}
	o.heads[k] = &h
	return true
}

func (o *obsLog) addRows(r rowObs) bool {
	k := fmt.Sprintf("%d/%s/%s/%s", r.Server, r.Role, r.Branch, rowsDigest(r.Rows))
	o.mu.Lock()
	defer o.mu.Unlock()
	if _, ok := o.rows[k]; ok {
		return false
	}
	o.rows[k] = &r
	return true
}

// checkRowsAgainstLedger decides whether a row set shown for a branch can be a working set (or committed root)
// the source had at some instant not later than `end`. Necessary conditions only (each is implied by "the rows
// are one of the source's states"), so a complaint is a genuine impossibility:
//   - every row belongs to a recorded transaction on that branch that was started before the read ended, was
//     not definitely rejected, and has J < K (no invented / future / rejected rows);
//   - transactions are atomic (all K rows or none);
//   - a writer's transactions on one branch are sequential, so a state that contains (W, N) contains every
//     earlier transaction of W on that branch that returned successfully.
//
// seed rows (W == 0) are the rows of the setup commit and are required to be present.
func checkRowsAgainstLedger(txs []txRec, branch string, rs []row, end int64, seedRows int) string {
	byKey := map[[2]int]*txRec{}
	for i := range txs {
		byKey[[2]int{txs[i].W, txs[i].N}] = &txs[i]
	}
	cnt := map[[2]int]int{}
	seeds := 0
	for _, r := range rs {
		if r.W == 0 {
			seeds++
			continue
		}
		t, ok := byKey[[2]int{r.W, r.N}]
		switch {
		case !ok:
			return fmt.Sprintf("row (%d,%d,%d) belongs to no transaction that was ever started", r.W, r.N, r.J)
		case t.Branch != branch:
			return fmt.Sprintf("row (%d,%d,%d) was written to branch %s, shown on branch %s", r.W, r.N, r.J, t.Branch, branch)
		case t.Outcome == "failed":
			return fmt.Sprintf("row (%d,%d,%d) belongs to a transaction the source rejected (%s)", r.W, r.N, r.J, t.Err)
		case t.Call > end:
			return fmt.Sprintf("row (%d,%d,%d) was shown before its transaction was started", r.W, r.N, r.J)
		case r.J >= t.K:
			return fmt.Sprintf("row (%d,%d,%d) was never inserted (transaction has %d rows)", r.W, r.N, r.J, t.K)
		}
		cnt[[2]int{r.W, r.N}]++
	}
	if seeds != seedRows {
		return fmt.Sprintf("%d of the %d rows of the setup commit are shown", seeds, seedRows)
	}
	maxN := map[int]int{}
	for k, n := range cnt {
		if n != byKey[k].K {
			return fmt.Sprintf("transaction w%d-n%d is shown partially (%d of %d rows)", k[0], k[1], n, byKey[k].K)
		}
		if k[1] > maxN[k[0]] {
			maxN[k[0]] = k[1]
		}
	}
	for i := range txs {
		t := &txs[i]
		if t.Branch != branch || t.Outcome != "ok" {
			continue
		}
		if m, ok := maxN[t.W]; ok && t.N < m && cnt[[2]int{t.W, t.N}] == 0 {
			return fmt.Sprintf("transaction w%d-n%d is shown but the earlier successful w%d-n%d of the same writer on this branch is not", t.W, m, t.W, t.N)
		}
	}
	return ""
}

// isConnErr reports whether err is a failure of the connection rather than an error answered by the server.
func isConnErr(err error) bool {
	if err == nil {
		return false
	}
	var me *mysql.MySQLError
	return !errors.As(err, &me)
}

func isReadOnlyErr(err error) bool {
	if err == nil {
		return false
	}
	s := strings.ToLower(err.Error())
	return strings.Contains(s, "read-only") || strings.Contains(s, "read only") || strings.Contains(s, "readonly")
}

func short(s string, n int) string {
	if len(s) > n {
		return s[:n] + "..."
	}
	return s
}
