package vcluster

import (
	"fmt"
	"math/rand"
	"os"
	"sort"
	"strings"
	"sync"
	"sync/atomic"
	"syscall"
	"time"

	"verif/rig"
)

// Register wires the vcluster checks.
func Register() {
	rig.Register(&rig.Spec{Prop: "C45", Level: "exploration", Stages: []rig.Stage{{
		Name: "replication", Fn: c45,
		TimeoutQuick: 40 * time.Minute, TimeoutThorough: 6 * time.Hour,
	}}})
}

const (
	c45DB        = "d"
	c45SeedRows  = 2
	c45PollBound = 240 // bounded progress: polls ...
	c45PollEvery = 250 * time.Millisecond
)

func c45(c *rig.Ctx) {
	c.Rule("cluster scenario = 2 real sql-server processes (primary+standby, `cluster:` config), 3 writers issuing unique-valued transactions (rows (writer,counter,j); plain COMMIT or dolt_commit) on 1-3 branches, a PRNG fault schedule (SIGKILL/SIGTERM+restart of the standby, graceful role transitions, write probes against the standby) and an observer polling heads and rows of BOTH servers; push scenario = push-on-write server + file:// remote read by a separate process + read-replica server; a distinct non-trivial case is one fault event (or replication mode phase) executed while writers were running, identified by scenario/kind/ordinal")
	c.Assume("membership oracle: the source's own dolt_log (taken from each primary at the end of its epoch and at the end of the run) is the ground truth for 'heads the source had'; rows are judged against the ledger of started transactions (necessary conditions only)")
	c.Assume("bounded progress replaces 'eventually': " + fmt.Sprint(c45PollBound) + " polls x " + c45PollEvery.String() + " after writers and faults stopped; a cluster standby still behind is a violation only if the primary's dolt_cluster_status reports lag 0 and no error, inconclusive otherwise")
	t := newTally()
	defer t.flush(c)

	nCluster, nPush := c.Pick(1, 40), c.Pick(1, 20)
	type job struct {
		kind string
		i    int
	}
	var jobs []job
	for i := 0; i < nCluster || i < nPush; i++ {
		if i < nCluster {
			jobs = append(jobs, job{"cluster", i})
		}
		if i < nPush {
			jobs = append(jobs, job{"push", i})
		}
	}
	workers := c.Pick(2, 6)
	ch := make(chan job)
	var wg sync.WaitGroup
	for w := 0; w < workers; w++ {
		wg.Add(1)
		go func() {
			defer wg.Done()
			for j := range ch {
				if j.kind == "cluster" {
					runClusterScenario(c, t, j.i)
				} else {
					runPushScenario(c, t, j.i)
				}
			}
		}()
	}
	for _, j := range jobs {
		ch <- j
	}
	close(ch)
	wg.Wait()

	// non-vacuity
	c.Require(t.get("c45.cluster.scenarios_completed") >= nCluster, "every cluster scenario ran to its end")
	c.Require(t.get("c45.cluster.standby_distinct_heads") >= 5*nCluster, "replication actually happened (standby showed >= 5 distinct heads per scenario)")
	c.Require(t.get("c45.cluster.standby_restarts_survived") >= 1, ">= 1 standby restart survived")
	c.Require(t.get("c45.cluster.graceful_transitions") >= 1, ">= 1 graceful transition performed")
	c.Require(t.get("c45.cluster.standby_writes_rejected") >= 1, ">= 1 write rejected by a standby")
	c.Require(t.get("c45.cluster.acked_writes_checked_after_transition") >= 1, ">= 1 acknowledged write checked after a transition")
	c.Require(t.get("c45.push.scenarios_completed") >= nPush, "every push/read-replica scenario ran to its end")
	c.Require(t.get("c45.push.sync_presence_checks") >= 5*nPush, ">= 5 synchronous push presence checks per scenario")
	c.Require(t.get("c45.push.async_commits") >= 3*nPush, ">= 3 commits under dolt_async_replication per scenario")
	c.Require(t.get("c45.replica.distinct_heads") >= 5*nPush, "read replica showed >= 5 distinct heads per scenario")
}

// ---------------------------------------------------------------------------------------------------------

type clusterScn struct {
	c    *rig.Ctx
	t    *tally
	idx  int
	name string
	base string
	srv  [2]*proc

	primary  atomic.Int32 // the monitor's belief of who is primary (index into srv)
	epoch    int
	ackSecs  int
	branches []string

	led  *ledger
	obs  *obsLog
	stop atomic.Bool
	// truth: branch -> commit hash -> message, union of the dolt_log of every primary taken at the end of its epoch
	truthMu   sync.Mutex
	truth     map[string]map[string]string
	down      [2]atomic.Bool // server is deliberately down (observer / writers do not count errors)
	ackOff    atomic.Int32   // 1 while the monitor has replication acknowledgement switched off (or is switching)
	probeSeq  int
	warnNotes atomic.Int32
}

func (s *clusterScn) viol(key, what string, witness map[string]any) {
	if witness == nil {
		witness = map[string]any{}
	}
	witness["scenario"] = s.name
	witness["seed"] = s.c.Seed
	witness["logs"] = "servers' logs are copied to " + s.keepLogs()
	s.c.Violation(key, what, witness)
}

// keepLogs copies the server logs next to the replay files so that a witness stays inspectable.
func (s *clusterScn) keepLogs() string {
	dst := rig.VerifRoot() + "/logs/C45." + s.name
	os.MkdirAll(dst, 0o755)
	for _, p := range s.srv {
		if p == nil {
			continue
		}
		if b, err := os.ReadFile(p.LogPath); err == nil {
			if len(b) > 4<<20 {
				b = b[len(b)-4<<20:]
			}
			os.WriteFile(dst+"/"+p.Name+".log", b, 0o644)
		}
	}
	return dst
}

func runClusterScenario(c *rig.Ctx, t *tally, idx int) {
	rnd := c.SubRand("c45-cluster", idx)
	s := &clusterScn{c: c, t: t, idx: idx, name: fmt.Sprintf("cluster-%d", idx), led: newLedger(), obs: newObsLog(),
		truth: map[string]map[string]string{}}
	s.base = c.TempDir(s.name)
	defer os.RemoveAll(s.base)
	s.branches = []string{"main", "b1", "b2"}[:1+rnd.Intn(3)]
	if idx == 0 {
		s.branches = []string{"main", "b1"}
	}
	s.ackSecs = 2
	s.epoch = 1 + rnd.Intn(5)
	nWriters := 3

	// fault schedule
	kinds := []string{"kill9", "transition", "probe", "sigterm", "transition-noack", "probe"}
	extra := []string{"kill9", "sigterm", "transition", "transition-noack", "probe", "kill9-quick"}
	for i := 0; i < rnd.Intn(3); i++ {
		kinds = append(kinds, extra[rnd.Intn(len(extra))])
	}
	rnd.Shuffle(len(kinds), func(i, j int) { kinds[i], kinds[j] = kinds[j], kinds[i] })
	gaps := make([]int, len(kinds))
	for i := range gaps {
		gaps[i] = 2500 + rnd.Intn(3000)
	}
	c.Case(fmt.Sprintf("c45/%s", s.name), map[string]any{"branches": s.branches, "ack_secs": s.ackSecs, "epoch": s.epoch,
		"writers": nWriters, "schedule": kinds, "gaps_ms": gaps})

	// bring-up
	a, b := newProc(s.base, "a"), newProc(s.base, "b")
	s.srv = [2]*proc{a, b}
	ra, rb := freePort(), freePort()
	rig.Must(os.WriteFile(a.Cfg, []byte(clusterYAML(a, rb, ra, "primary", s.epoch, s.ackSecs)), 0o644))
	rig.Must(os.WriteFile(b.Cfg, []byte(clusterYAML(b, ra, rb, "standby", s.epoch, s.ackSecs)), 0o644))
	if err := a.start(); err != nil {
		c.Inconclusive(s.name + ": cannot start primary: " + err.Error() + " :: " + short(tailFile(a.LogPath, 1500), 1500))
		return
	}
	defer a.stop(syscall.SIGKILL)
	if err := b.start(); err != nil {
		c.Inconclusive(s.name + ": cannot start standby: " + err.Error() + " :: " + short(tailFile(b.LogPath, 1500), 1500))
		return
	}
	defer b.stop(syscall.SIGKILL)
	s.primary.Store(0)

	x, err := openSession(a.dsn(""))
	rig.Must(err)
	setup := []string{"create database " + c45DB, "use " + c45DB,
		"create table t (w int, n int, j int, primary key (w,n,j))",
		"insert into t values (0,0,0),(0,0,1)",
		"call dolt_commit('-Am','setup')"}
	for _, br := range s.branches[1:] {
		setup = append(setup, "call dolt_branch('"+br+"')")
	}
	for _, q := range setup {
		if err := x.Exec(q); err != nil {
			x.Close()
			c.Inconclusive(s.name + ": setup statement failed: " + q + ": " + err.Error())
			return
		}
	}
	x.Close()
	// barrier: the standby must have every branch before the workload starts
	if !s.waitUntil(120*time.Second, func() bool {
		st, err := s.readState(1)
		return err == nil && len(st.heads) == len(s.branches)
	}) {
		c.Inconclusive(s.name + ": standby did not receive the initial database within 120 s")
		return
	}

	// workload
	var wg sync.WaitGroup
	for w := 1; w <= nWriters; w++ {
		wg.Add(1)
		go func(w int) {
			defer wg.Done()
			s.writer(w, c.SubRand("c45-cluster-writer", idx*16+w))
		}(w)
	}
	var owg sync.WaitGroup
	owg.Add(1)
	go func() { defer owg.Done(); s.observer() }()

	for i, k := range kinds {
		time.Sleep(time.Duration(gaps[i]) * time.Millisecond)
		c.Case(fmt.Sprintf("c45/%s/event-%d-%s", s.name, i, k), map[string]any{"txs_started": s.led.size()})
		before := s.led.size()
		s.event(k, rnd)
		if s.led.size() > before || k == "probe" {
			c.Distinct(fmt.Sprintf("%d/%s/%d/%s", c.Seed, s.name, i, k))
		}
	}
	time.Sleep(2 * time.Second)
	s.stop.Store(true)
	wg.Wait()
	owg.Wait()

	s.finalChecks()
	t.inc("c45.cluster.scenarios_completed")
}

func (s *clusterScn) waitUntil(d time.Duration, f func() bool) bool {
	deadline := time.Now().Add(d)
	for time.Now().Before(deadline) {
		if f() {
			return true
		}
		time.Sleep(200 * time.Millisecond)
	}
	return false
}

// state is what one server shows at one poll.
type srvState struct {
	role       string
	heads      map[string]string
	rows       map[string][]row
	start, end int64
	headsEnd   int64
}

// readState reads role, branch heads and the rows of every branch from server i (a fresh connection: every
// statement is a new transaction).
func (s *clusterScn) readState(i int) (*srvState, error) {
	x, err := openSession(s.srv[i].dsn(""))
	if err != nil {
		return nil, err
	}
	defer x.Close()
	return readStateOn(x, s.branches, true)
}

func readStateOn(x *session, branches []string, cluster bool) (*srvState, error) {
	st := &srvState{heads: map[string]string{}, rows: map[string][]row{}, start: rig.Mono()}
	if cluster {
		r, err := x.Scalar("select @@global.dolt_cluster_role")
		if err != nil {
			return nil, err
		}
		st.role = r
	}
	hr, err := x.Query("select name, hash from `" + c45DB + "`.dolt_branches")
	if err != nil {
		return nil, err
	}
	st.headsEnd = rig.Mono()
	for _, r := range hr {
		st.heads[r[0]] = r[1]
	}
	for _, br := range branches {
		if _, ok := st.heads[br]; !ok {
			continue
		}
		d, err := x.Query("select w, n, j from `" + c45DB + "/" + br + "`.t")
		if err != nil {
			return nil, err
		}
		rs, err := parseRows(d)
		if err != nil {
			return nil, err
		}
		st.rows[br] = rs
	}
	st.end = rig.Mono()
	return st, nil
}

// observer polls both servers until the scenario stops and records the first sighting of every distinct head
// and row set per (server, role, branch).
func (s *clusterScn) observer() {
	var conns [2]*session
	defer func() {
		for _, x := range conns {
			x.Close()
		}
	}()
	for !s.stop.Load() {
		for i := 0; i < 2; i++ {
			if s.down[i].Load() {
				if conns[i] != nil {
					conns[i].Close()
					conns[i] = nil
				}
				continue
			}
			if conns[i] == nil {
				x, err := openSession(s.srv[i].dsn(""))
				if err != nil {
					s.t.inc("c45.cluster.observer_connect_errors")
					continue
				}
				conns[i] = x
			}
			st, err := readStateOn(conns[i], s.branches, true)
			if err != nil {
				s.t.inc("c45.cluster.observer_read_errors")
				conns[i].Close()
				conns[i] = nil
				continue
			}
			s.record(i, st)
		}
		time.Sleep(120 * time.Millisecond)
	}
}

func (s *clusterScn) record(i int, st *srvState) {
	s.t.inc("c45.cluster.polls")
	if st.role == "standby" {
		s.t.inc("c45.cluster.polls_of_a_standby")
	}
	for br, h := range st.heads {
		if s.obs.addHead(headObs{Server: i, Role: st.role, Branch: br, Hash: h, Start: st.start, End: st.headsEnd}) && st.role == "standby" {
			s.t.inc("c45.cluster.standby_distinct_heads")
		}
	}
	for br, rs := range st.rows {
		if s.obs.addRows(rowObs{Server: i, Role: st.role, Branch: br, Rows: rs, Start: st.start, End: st.end}) && st.role == "standby" {
			s.t.inc("c45.cluster.standby_distinct_rowsets")
		}
	}
}

// writer runs unique-valued transactions against whatever server the monitor believes is primary.
func (s *clusterScn) writer(w int, rnd *rand.Rand) {
	var x *session
	cur := -1
	defer func() { x.Close() }()
	n := 0
	for !s.stop.Load() {
		time.Sleep(time.Duration(20+rnd.Intn(120)) * time.Millisecond)
		p := int(s.primary.Load())
		if x == nil || cur != p {
			x.Close()
			x = nil
			y, err := openSession(s.srv[p].dsn(c45DB))
			if err != nil {
				s.t.inc("c45.cluster.writer_connect_errors")
				time.Sleep(200 * time.Millisecond)
				continue
			}
			if err := y.Exec("set autocommit = 0"); err != nil {
				y.Close()
				continue
			}
			x, cur = y, p
		}
		n++
		tx := &txRec{W: w, N: n, Branch: s.branches[rnd.Intn(len(s.branches))], K: 1 + rnd.Intn(3), Dolt: rnd.Intn(100) < 60, Server: cur}
		var vals []string
		for j := 0; j < tx.K; j++ {
			vals = append(vals, fmt.Sprintf("(%d,%d,%d)", w, n, j))
		}
		tx.Call = rig.Mono()
		s.led.begin(tx)
		fail := func(outcome string, err error) {
			s.led.finish(tx, func(t *txRec) { t.Outcome, t.Err, t.Ret = outcome, short(err.Error(), 200), rig.Mono() })
			s.t.inc("c45.cluster.tx_" + outcome)
			if isReadOnlyErr(err) {
				s.t.inc("c45.cluster.standby_writes_rejected")
			}
			x.Exec("rollback")
			if isConnErr(err) || outcome == "unknown" {
				x.Close()
				x = nil
			}
		}
		if err := x.Exec("use `" + c45DB + "/" + tx.Branch + "`"); err != nil {
			fail("failed", err)
			continue
		}
		if err := x.Exec("insert into t values " + strings.Join(vals, ",")); err != nil {
			fail("failed", err)
			continue
		}
		var hash string
		var err error
		if tx.Dolt {
			hash, err = x.Scalar("call dolt_commit('-a','-m','" + tx.msg() + "')")
		} else {
			err = x.Exec("commit")
		}
		ret := rig.Mono()
		if err != nil {
			fail("unknown", err)
			continue
		}
		warn, werr := x.warnings()
		ackOn := s.ackEnabled()
		s.led.finish(tx, func(t *txRec) {
			t.Outcome, t.Ret, t.Hash = "ok", ret, hash
			t.Warn = strings.Join(warn, " ; ")
			t.Acked = werr == nil && len(warn) == 0 && ackOn
		})
		s.t.inc("c45.cluster.tx_ok")
		if tx.Dolt {
			s.t.inc("c45.cluster.dolt_commits_ok")
		}
		if len(warn) > 0 {
			s.t.inc("c45.cluster.tx_ok_with_replication_warning")
			if s.down[1-cur].Load() {
				s.t.inc("c45.cluster.tx_ok_with_replication_warning_while_standby_down")
			}
			if s.warnNotes.Add(1) == 1 {
				s.c.Note(s.name + ": first replication warning: " + short(strings.Join(warn, " ; "), 300))
			}
		} else if werr == nil && ackOn {
			s.t.inc("c45.cluster.tx_ok_acknowledged")
		}
		if werr != nil {
			x.Close()
			x = nil
		}
	}
}

// ackEnabled is true while dolt_cluster_ack_writes_timeout_secs > 0 on every server. The monitor's flag goes off
// BEFORE the servers are changed and on again only AFTER they are, so a transaction counts as acknowledged only
// if acknowledgement was certainly enabled when its commit waited.
func (s *clusterScn) ackEnabled() bool { return s.ackOff.Load() == 0 }

func (s *clusterScn) setAck(secs int) {
	if secs == 0 {
		s.ackOff.Store(1)
	}
	for i := range s.srv {
		if s.down[i].Load() {
			continue
		}
		x, err := openSession(s.srv[i].dsn(""))
		if err != nil {
			continue
		}
		x.Exec(fmt.Sprintf("set @@global.dolt_cluster_ack_writes_timeout_secs = %d", secs))
		x.Close()
	}
	if secs != 0 {
		// transactions that were running while the flag was off finish as not acknowledged: only flip the
		// monitor's flag after every server has it on again
		s.ackOff.Store(0)
	}
}

// event executes one fault / probe.
func (s *clusterScn) event(kind string, rnd *rand.Rand) {
	p := int(s.primary.Load())
	sb := 1 - p
	switch kind {
	case "kill9", "kill9-quick", "sigterm":
		sig := syscall.SIGKILL
		if kind == "sigterm" {
			sig = syscall.SIGTERM
		}
		s.down[sb].Store(true)
		s.srv[sb].stop(sig)
		s.t.inc("c45.cluster.standby_" + kind)
		pause := 300 + rnd.Intn(2500)
		if kind == "kill9-quick" {
			pause = 0
		}
		time.Sleep(time.Duration(pause) * time.Millisecond)
		if err := s.srv[sb].start(); err != nil {
			s.c.Inconclusive(s.name + ": standby did not restart: " + err.Error() + " :: " + short(tailFile(s.srv[sb].LogPath, 1200), 1200))
			return
		}
		s.down[sb].Store(false)
		st, err := s.readState(sb)
		if err == nil && st.role == "standby" && len(st.heads) == len(s.branches) {
			s.t.inc("c45.cluster.standby_restarts_survived")
			s.record(sb, st)
		} else if err == nil && st.role != "standby" {
			// not a clause of C45 (the persisted role is another mechanism): the scenario cannot go on meaningfully
			s.c.Inconclusive(fmt.Sprintf("%s: standby restarted in role %q", s.name, st.role))
		}
	case "probe":
		s.probeStandby(sb)
	case "transition", "transition-noack":
		s.transition(kind == "transition-noack")
	}
}

// probeStandby sends writes to the standby; every one of them must be rejected.
func (s *clusterScn) probeStandby(sb int) {
	x, err := openSession(s.srv[sb].dsn(""))
	if err != nil {
		s.t.inc("c45.cluster.probe_connect_errors")
		return
	}
	defer x.Close()
	role, err := x.Scalar("select @@global.dolt_cluster_role")
	if err != nil || role != "standby" {
		return
	}
	s.probeSeq++
	q := s.probeSeq
	stmts := [][]string{
		{"use `" + c45DB + "/main`", fmt.Sprintf("insert into t values (99,%d,0)", q)},
		{"use `" + c45DB + "/main`", fmt.Sprintf("call dolt_commit('--allow-empty','-m','probe-%d')", q)},
		{"use `" + c45DB + "`", fmt.Sprintf("create table probe%d (a int primary key)", q)},
		{"use `" + c45DB + "`", fmt.Sprintf("call dolt_branch('probe%d')", q)},
		{"use `" + c45DB + "/main`", "delete from t where w = 0"},
	}
	for _, st := range stmts {
		var err error
		for _, q := range st {
			if err = x.Exec(q); err != nil {
				break
			}
		}
		if err != nil {
			if isConnErr(err) {
				return
			}
			s.t.inc("c45.cluster.standby_writes_rejected")
			if !isReadOnlyErr(err) {
				s.t.inc("c45.cluster.standby_rejections_without_readonly_text")
			}
			continue
		}
		role2, err2 := x.Scalar("select @@global.dolt_cluster_role")
		if err2 == nil && role2 == "standby" {
			s.viol("c45/cluster/standby-accepted-write", "a server in role standby executed a write statement without error: "+st[len(st)-1],
				map[string]any{"server": s.srv[sb].Name, "statements": st})
		}
	}
	s.t.inc("c45.cluster.standby_probes")
}

// transition performs a graceful role swap: assume standby on the primary, then assume primary on the old
// standby, and checks the acknowledged-writes clause on the new primary.
func (s *clusterScn) transition(noAck bool) {
	p := int(s.primary.Load())
	sb := 1 - p
	if noAck {
		s.setAck(0)
		time.Sleep(400 * time.Millisecond)
		defer s.setAck(s.ackSecs)
	}
	x, err := openSession(s.srv[p].dsn(""))
	if err != nil {
		s.t.inc("c45.cluster.transition_connect_errors")
		return
	}
	newEpoch := s.epoch + 1
	_, err = x.Query(fmt.Sprintf("call dolt_assume_cluster_role('standby', %d)", newEpoch))
	x.Close()
	if err != nil {
		s.t.inc("c45.cluster.transitions_refused")
		s.c.Note(s.name + ": graceful transition refused: " + short(err.Error(), 200))
		return
	}
	s.epoch = newEpoch
	// the old primary is now standby: its log is the history of the finished epoch
	if err := s.addTruth(p); err != nil {
		s.c.Inconclusive(s.name + ": cannot read the old primary's log after its transition: " + err.Error())
	}
	oldFinal, _ := s.readState(p)
	y, err := openSession(s.srv[sb].dsn(""))
	if err == nil {
		_, err = y.Query(fmt.Sprintf("call dolt_assume_cluster_role('primary', %d)", newEpoch))
		y.Close()
	}
	if err != nil {
		s.c.Inconclusive(s.name + ": old standby refused to become primary: " + err.Error())
		return
	}
	s.primary.Store(int32(sb))
	s.t.inc("c45.cluster.graceful_transitions")
	if noAck {
		s.t.inc("c45.cluster.graceful_transitions_ack_disabled")
	}

	// every write acknowledged (by the old primary) must be present on the new primary. The ledger is read
	// BEFORE the new primary's state, so every transaction judged had returned before the state was read.
	ledgerBefore := s.led.snapshot()
	st, err := s.readState(sb)
	if err != nil {
		s.c.Inconclusive(s.name + ": cannot read the new primary after the transition: " + err.Error())
		return
	}
	logs := map[string]map[string]string{}
	for _, br := range s.branches {
		m, err := s.readLog(sb, br)
		if err != nil {
			s.c.Inconclusive(s.name + ": cannot read dolt_log on the new primary: " + err.Error())
			return
		}
		logs[br] = m
	}
	present := map[string]map[[2]int]bool{}
	for br, rs := range st.rows {
		present[br] = map[[2]int]bool{}
		for _, r := range rs {
			present[br][[2]int{r.W, r.N}] = true
		}
	}
	for _, tx := range ledgerBefore {
		if tx.Outcome != "ok" {
			continue
		}
		missing := ""
		if !present[tx.Branch][[2]int{tx.W, tx.N}] {
			missing = "its rows are not in the working set of " + tx.Branch
		} else if tx.Dolt {
			if _, ok := logs[tx.Branch][tx.Hash]; !ok {
				missing = "its commit " + tx.Hash + " is not in dolt_log(" + tx.Branch + ")"
			}
		}
		if tx.Acked {
			s.t.inc("c45.cluster.acked_writes_checked_after_transition")
		} else {
			s.t.inc("c45.cluster.unacked_writes_checked_after_transition")
		}
		if missing == "" {
			continue
		}
		if tx.Acked {
			s.viol("c45/cluster/acked-write-missing-after-transition",
				fmt.Sprintf("write %s was acknowledged by the primary with dolt_cluster_ack_writes_timeout_secs=%d and no warning, but after the graceful transition to epoch %d %s on the new primary", tx.msg(), s.ackSecs, newEpoch, missing),
				map[string]any{"tx": tx, "new_primary": s.srv[sb].Name})
		} else {
			s.viol("c45/cluster/committed-write-lost-by-graceful-transition",
				fmt.Sprintf("write %s returned successfully on the primary; dolt_assume_cluster_role('standby') then succeeded (it reports success only when every standby is caught up), but %s on the new primary", tx.msg(), missing),
				map[string]any{"tx": tx, "new_primary": s.srv[sb].Name})
		}
	}
	_ = oldFinal
}

// readLog returns commit hash -> message of dolt_log(branch) on server i.
func (s *clusterScn) readLog(i int, branch string) (map[string]string, error) {
	x, err := openSession(s.srv[i].dsn(c45DB))
	if err != nil {
		return nil, err
	}
	defer x.Close()
	r, err := x.Query("select commit_hash, message from dolt_log('" + branch + "')")
	if err != nil {
		return nil, err
	}
	m := map[string]string{}
	for _, row := range r {
		m[row[0]] = row[1]
	}
	return m, nil
}

func (s *clusterScn) addTruth(i int) error {
	for _, br := range s.branches {
		m, err := s.readLog(i, br)
		if err != nil {
			return err
		}
		s.truthMu.Lock()
		if s.truth[br] == nil {
			s.truth[br] = map[string]string{}
		}
		for h, msg := range m {
			s.truth[br][h] = msg
		}
		s.truthMu.Unlock()
	}
	return nil
}

// finalChecks: bounded progress, then the membership oracle over everything the observer saw.
func (s *clusterScn) finalChecks() {
	p := int(s.primary.Load())
	sb := 1 - p
	if err := s.addTruth(p); err != nil {
		s.c.Inconclusive(s.name + ": cannot read the final primary's log: " + err.Error())
		return
	}
	pst, err := s.readState(p)
	if err != nil {
		s.c.Inconclusive(s.name + ": cannot read the final primary: " + err.Error())
		return
	}
	s.record(p, pst)

	// (a) everything that returned successfully is on the final primary (nothing was lost on the way)
	txs := s.led.snapshot()
	present := map[string]map[[2]int]bool{}
	for br, rs := range pst.rows {
		present[br] = map[[2]int]bool{}
		for _, r := range rs {
			present[br][[2]int{r.W, r.N}] = true
		}
	}
	for _, tx := range txs {
		if tx.Outcome != "ok" {
			continue
		}
		ok := present[tx.Branch][[2]int{tx.W, tx.N}]
		if ok && tx.Dolt {
			_, ok = s.truth[tx.Branch][tx.Hash]
		}
		if !ok {
			key := "c45/cluster/committed-write-lost"
			if tx.Acked {
				key = "c45/cluster/acked-write-lost"
			}
			s.viol(key, fmt.Sprintf("write %s (branch %s, acked=%v) returned successfully but is not on the final primary", tx.msg(), tx.Branch, tx.Acked),
				map[string]any{"tx": tx})
		}
	}

	// (b) bounded progress: the standby must reach the primary's final state
	converged := false
	var last *srvState
	polls := 0
	for ; polls < c45PollBound; polls++ {
		st, err := s.readState(sb)
		if err == nil {
			last = st
			s.record(sb, st)
			if sameState(pst, st, s.branches) {
				converged = true
				break
			}
		}
		time.Sleep(c45PollEvery)
	}
	s.t.add("c45.cluster.convergence_polls", polls)
	if converged {
		s.t.inc("c45.cluster.converged")
	} else {
		status := s.clusterStatus(p)
		diff := describeDiff(pst, last, s.branches)
		if status.caughtUp {
			s.viol("c45/cluster/convergence-claimed-but-absent",
				fmt.Sprintf("after writers and faults stopped the standby did not reach the primary's state within %d polls although dolt_cluster_status on the primary reports it caught up (%s): %s", c45PollBound, status.text, diff),
				map[string]any{"status": status.text, "diff": diff})
		} else {
			s.c.Inconclusive(fmt.Sprintf("%s: standby not converged within the bound and the primary does not claim it is (%s): %s", s.name, status.text, diff))
		}
	}

	// (c) membership: every head / row set any server ever showed is a state of the source
	for _, h := range s.obs.heads {
		msg, ok := s.truth[h.Branch][h.Hash]
		if !ok {
			s.viol("c45/cluster/head-never-on-source",
				fmt.Sprintf("server %s (role %s) showed head %s for branch %s, which is in no primary's dolt_log of that branch", s.srv[h.Server].Name, h.Role, h.Hash, h.Branch),
				map[string]any{"obs": h})
			continue
		}
		var w, n int
		if _, err := fmt.Sscanf(msg, "w%d-n%d", &w, &n); err == nil {
			for _, tx := range txs {
				if tx.W == w && tx.N == n && tx.Call > h.End {
					s.viol("c45/cluster/head-before-its-commit", fmt.Sprintf("head %s (%s) was shown before its dolt_commit was issued", h.Hash, msg), map[string]any{"obs": h, "tx": tx})
				}
			}
		}
	}
	var keys []string
	for k := range s.obs.rows {
		keys = append(keys, k)
	}
	sort.Strings(keys)
	reported := 0
	for _, k := range keys {
		o := s.obs.rows[k]
		if why := checkRowsAgainstLedger(txs, o.Branch, o.Rows, o.End, c45SeedRows); why != "" {
			reported++
			if reported <= 5 {
				s.viol("c45/cluster/rows-not-a-source-state",
					fmt.Sprintf("server %s (role %s) showed a row set for branch %s that the source never had: %s", s.srv[o.Server].Name, o.Role, o.Branch, why),
					map[string]any{"server": s.srv[o.Server].Name, "role": o.Role, "branch": o.Branch, "rows": len(o.Rows), "why": why})
			}
		}
	}
	s.t.add("c45.cluster.distinct_heads_checked", len(s.obs.heads))
	s.t.add("c45.cluster.distinct_rowsets_checked", len(s.obs.rows))
	if s.idx == 0 {
		nOK, nAck := 0, 0
		for _, tx := range txs {
			if tx.Outcome == "ok" {
				nOK++
			}
			if tx.Acked {
				nAck++
			}
		}
		s.c.Sample(map[string]any{"scenario": s.name, "txs": len(txs), "ok": nOK, "acked": nAck, "distinct_heads_seen": len(s.obs.heads),
			"distinct_rowsets_seen": len(s.obs.rows), "final_epoch": s.epoch, "final_primary": s.srv[p].Name})
	}
}

func sameState(a, b *srvState, branches []string) bool {
	for _, br := range branches {
		if a.heads[br] != b.heads[br] || rowsDigest(a.rows[br]) != rowsDigest(b.rows[br]) {
			return false
		}
	}
	return true
}

func describeDiff(a, b *srvState, branches []string) string {
	if b == nil {
		return "standby unreadable"
	}
	var out []string
	for _, br := range branches {
		if a.heads[br] != b.heads[br] {
			out = append(out, fmt.Sprintf("%s head primary=%s standby=%s", br, a.heads[br], b.heads[br]))
		}
		if rowsDigest(a.rows[br]) != rowsDigest(b.rows[br]) {
			out = append(out, fmt.Sprintf("%s rows primary=%d standby=%d", br, len(a.rows[br]), len(b.rows[br])))
		}
	}
	return strings.Join(out, "; ")
}

type clStatus struct {
	caughtUp bool
	text     string
}

// clusterStatus reads dolt_cluster.dolt_cluster_status on server i: caught up = lag 0 and no current error for
// the scenario's database.
func (s *clusterScn) clusterStatus(i int) clStatus {
	x, err := openSession(s.srv[i].dsn(""))
	if err != nil {
		return clStatus{false, "status unreadable: " + err.Error()}
	}
	defer x.Close()
	r, err := x.Query("select `database`, role, epoch, replication_lag_millis, current_error from dolt_cluster.dolt_cluster_status")
	if err != nil {
		return clStatus{false, "status unreadable: " + err.Error()}
	}
	st := clStatus{caughtUp: false}
	for _, row := range r {
		for k := range row {
			if row[k] == null {
				row[k] = "NULL"
			}
		}
		st.text += strings.Join(row, "|") + " "
		if row[0] == c45DB {
			st.caughtUp = row[1] == "primary" && row[3] == "0" && row[4] == "NULL"
		}
	}
	return st
}
