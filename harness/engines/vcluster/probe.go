package vcluster

import (
	"fmt"
	"os"
	"path/filepath"
	"syscall"
	"time"

	"verif/rig"
)

// clusterYAML renders the config of one cluster member.
func clusterYAML(p *proc, peerRemotesPort, myRemotesPort int, role string, epoch int, ackSecs int) string {
	return fmt.Sprintf(`log_level: debug
listener:
  host: 127.0.0.1
  port: %d
  socket: %s
system_variables:
  dolt_cluster_ack_writes_timeout_secs: %d
cluster:
  standby_remotes:
  - name: standby
    remote_url_template: http://127.0.0.1:%d/{database}
  bootstrap_role: %s
  bootstrap_epoch: %d
  remotesapi:
    address: 127.0.0.1
    port: %d
`, p.Port, p.Sock, ackSecs, peerRemotesPort, role, epoch, myRemotesPort)
}

func newProc(base, name string) *proc {
	p := &proc{Name: name, Dir: filepath.Join(base, name, "data"), Port: freePort(),
		Cfg: filepath.Join(base, name, "server.yaml"), LogPath: filepath.Join(base, name+".log")}
	os.MkdirAll(p.Dir, 0o755)
	p.Sock = fmt.Sprintf("/var/tmp/verif-vcl-%d-%d.sock", os.Getpid(), p.Port)
	return p
}

func init() {
	// `vcluster-probe`: bring-up smoke test used while building the engine (kept as a reproduction aid).
	rig.SubCommands["vcluster-probe"] = func(args []string) int {
		base, err := os.MkdirTemp("/var/tmp", "verif-vcl-probe-")
		if err != nil {
			fmt.Println(err)
			return 2
		}
		defer os.RemoveAll(base)
		a, b := newProc(base, "a"), newProc(base, "b")
		ra, rb := freePort(), freePort()
		os.WriteFile(a.Cfg, []byte(clusterYAML(a, rb, ra, "primary", 1, 5)), 0o644)
		os.WriteFile(b.Cfg, []byte(clusterYAML(b, ra, rb, "standby", 1, 5)), 0o644)
		t0 := time.Now()
		if err := a.start(); err != nil {
			fmt.Println("start a:", err, tailFile(a.LogPath, 2000))
			return 1
		}
		defer a.stop(syscall.SIGKILL)
		if err := b.start(); err != nil {
			fmt.Println("start b:", err, tailFile(b.LogPath, 2000))
			return 1
		}
		defer b.stop(syscall.SIGKILL)
		fmt.Println("both up in", time.Since(t0))
		sa, err := openSession(a.dsn(""))
		if err != nil {
			fmt.Println(err)
			return 1
		}
		for _, q := range []string{"create database d", "use d", "create table t (w int, n int, j int, primary key (w,n,j))",
			"insert into t values (1,1,0)", "call dolt_commit('-Am','c1')"} {
			t := time.Now()
			r, err := sa.Query(q)
			w, _ := sa.warnings()
			fmt.Println(q, "->", r, err, w, time.Since(t))
		}
		r, err := sa.Query("select * from dolt_cluster.dolt_cluster_status")
		fmt.Println("status", r, err)
		sb, err := openSession(b.dsn(""))
		if err != nil {
			fmt.Println(err)
			return 1
		}
		for i := 0; i < 40; i++ {
			r, err := sb.Query("select name, hash from d.dolt_branches")
			fmt.Println("standby branches", r, err)
			if err == nil && len(r) > 0 {
				break
			}
			time.Sleep(250 * time.Millisecond)
		}
		r, err = sb.Query("select * from d.t")
		fmt.Println("standby rows", r, err)
		err = sb.Exec("insert into d.t values (9,9,9)")
		fmt.Println("standby write:", err)
		return 0
	}
}

func init() {
	// `vcluster-probe-push`: bring-up smoke test of the push-on-write path.
	rig.SubCommands["vcluster-probe-push"] = func(args []string) int {
		base, err := os.MkdirTemp("/var/tmp", "verif-vcl-probe-")
		if err != nil {
			fmt.Println(err)
			return 2
		}
		defer os.RemoveAll(base)
		src := newProc(base, "src")
		remote := filepath.Join(base, "remotes", "d")
		os.MkdirAll(remote, 0o755)
		os.WriteFile(src.Cfg, []byte(plainYAML(src, map[string]string{"dolt_replicate_to_remote": "origin",
			"dolt_replication_remote_url_template": "file://" + filepath.Join(base, "remotes") + "/{database}"})), 0o644)
		if err := src.start(); err != nil {
			fmt.Println("start:", err, tailFile(src.LogPath, 2000))
			return 1
		}
		defer src.stop(syscall.SIGKILL)
		x, err := openSession(src.dsn(""))
		if err != nil {
			fmt.Println(err)
			return 1
		}
		for _, q := range []string{"create database d", "use d", "create table t (w int, n int, j int, primary key (w,n,j))",
			"insert into t values (0,0,0)", "call dolt_commit('-Am','setup')", "call dolt_branch('b1')"} {
			r, err := x.Query(q)
			w, _ := x.warnings()
			fmt.Println(q, "->", r, err, w)
		}
		ro, err := startRemoteObs(remote, filepath.Join(base, "robs.log"))
		if err != nil {
			fmt.Println(err)
			return 1
		}
		defer ro.close()
		for i := 0; i < 3; i++ {
			h, err := ro.heads()
			fmt.Println("remote heads:", h, err)
			time.Sleep(300 * time.Millisecond)
		}
		fmt.Println(tailFile(filepath.Join(base, "robs.log"), 1000))
		fmt.Println(tailFile(src.LogPath, 1500))
		return 0
	}
}
