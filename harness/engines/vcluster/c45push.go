package vcluster

import (
	"fmt"
	"math/rand"
	"os"
	"path/filepath"
	"sort"
	"strings"
	"sync"
	"sync/atomic"
	"syscall"
	"time"

	"verif/rig"
)

// Push-on-write + read replica scenario.
//
//	src  : sql-server with @@GLOBAL.dolt_replicate_to_remote = origin (file:// remote); 3 writers dolt_commit
//	       unique-valued transactions on 1-3 branches (all branches shared by all writers)
//	robs : separate read-only process that opens the remote directory and reports its branch heads
//	rep  : sql-server that cloned the remote, dolt_read_replica_remote = origin, dolt_replicate_all_heads = 1
//
// phase A (dolt_async_replication = 0): after every dolt_commit that returned a hash without warning the remote
// is read; the branch head it shows must be that commit or a descendant (position in the source's final
// dolt_log). phase B (async = 1): only eventual presence, bounded, after the writers stopped.
// The replica observer records every head / row set the replica shows at a new transaction; at the end each
// must be a commit of the source's log of that branch (the remote only ever receives those) that had been
// issued before it was shown, and each row set must be exactly the content of one commit of that branch.
type pushScn struct {
	c    *rig.Ctx
	t    *tally
	idx  int
	name string
	base string
	src  *proc
	rep  *proc
	robs *remoteObs

	remoteDir string
	branches  []string
	led       *ledger
	obs       *obsLog
	stop      atomic.Bool
	async     atomic.Bool

	mu     sync.Mutex
	checks []pushCheck
}

// pushCheck is one reading of the remote taken after a synchronous commit returned.
type pushCheck struct {
	W, N       int
	Branch     string
	Hash       string // the commit that returned
	Ret        int64
	ObsStart   int64
	RemoteHead string
}

func (s *pushScn) viol(key, what string, witness map[string]any) {
	if witness == nil {
		witness = map[string]any{}
	}
	witness["scenario"] = s.name
	witness["seed"] = s.c.Seed
	dst := rig.VerifRoot() + "/logs/C45." + s.name
	os.MkdirAll(dst, 0o755)
	for _, p := range []*proc{s.src, s.rep} {
		if p == nil {
			continue
		}
		if b, err := os.ReadFile(p.LogPath); err == nil {
			if len(b) > 4<<20 {
				b = b[len(b)-4<<20:]
			}
			os.WriteFile(dst+"/"+p.Name+".log", b, 0o644)
		}
	}
	witness["logs"] = dst
	s.c.Violation(key, what, witness)
}

func plainYAML(p *proc, vars map[string]string) string {
	y := fmt.Sprintf("log_level: debug\nlistener:\n  host: 127.0.0.1\n  port: %d\n  socket: %s\n", p.Port, p.Sock)
	if len(vars) > 0 {
		y += "system_variables:\n"
		var ks []string
		for k := range vars {
			ks = append(ks, k)
		}
		sort.Strings(ks)
		for _, k := range ks {
			y += fmt.Sprintf("  %s: %s\n", k, vars[k])
		}
	}
	return y
}

func runPushScenario(c *rig.Ctx, t *tally, idx int) {
	rnd := c.SubRand("c45-push", idx)
	s := &pushScn{c: c, t: t, idx: idx, name: fmt.Sprintf("push-%d", idx), led: newLedger(), obs: newObsLog()}
	s.base = c.TempDir(s.name)
	defer os.RemoveAll(s.base)
	s.branches = []string{"main", "b1", "b2"}[:1+rnd.Intn(3)]
	if idx == 0 {
		s.branches = []string{"main", "b1"}
	}
	nWriters := 3
	syncMs, asyncMs := 14000+rnd.Intn(6000), 6000+rnd.Intn(4000)
	c.Case(fmt.Sprintf("c45/%s", s.name), map[string]any{"branches": s.branches, "writers": nWriters, "sync_phase_ms": syncMs, "async_phase_ms": asyncMs})

	// A database created at run time gets the push-on-write hook only when dolt_replicate_to_remote AND
	// dolt_replication_remote_url_template are set when it is created (NewConfigureReplicationDatabaseHook).
	s.remoteDir = filepath.Join(s.base, "remotes", c45DB)
	rig.Must(os.MkdirAll(s.remoteDir, 0o755))
	s.src, s.rep = newProc(s.base, "src"), newProc(s.base, "rep")
	rig.Must(os.WriteFile(s.src.Cfg, []byte(plainYAML(s.src, map[string]string{
		"dolt_replicate_to_remote":             "origin",
		"dolt_replication_remote_url_template": "file://" + filepath.Join(s.base, "remotes") + "/{database}"})), 0o644))
	rig.Must(os.WriteFile(s.rep.Cfg, []byte(plainYAML(s.rep, nil)), 0o644))
	if err := s.src.start(); err != nil {
		c.Inconclusive(s.name + ": cannot start the source server: " + err.Error())
		return
	}
	defer s.src.stop(syscall.SIGKILL)
	x, err := openSession(s.src.dsn(""))
	rig.Must(err)
	setup := []string{"create database " + c45DB, "use " + c45DB,
		"create table t (w int, n int, j int, primary key (w,n,j))",
		"insert into t values (0,0,0),(0,0,1)",
		"call dolt_commit('-Am','setup')"}
	for _, br := range s.branches[1:] {
		setup = append(setup, "call dolt_branch('"+br+"')")
	}
	for _, q := range setup {
		if err := x.Exec(q); err != nil {
			x.Close()
			c.Inconclusive(s.name + ": setup statement failed: " + q + ": " + err.Error())
			return
		}
	}
	x.Close()
	s.robs, err = startRemoteObs(s.remoteDir, filepath.Join(s.base, "robs.log"))
	rig.Must(err)
	defer s.robs.close()
	ok := false
	for i := 0; i < 120 && !ok; i++ {
		h, err := s.robs.heads()
		ok = err == nil && len(h) == len(s.branches)
		if !ok {
			time.Sleep(250 * time.Millisecond)
		}
	}
	if !ok {
		c.Inconclusive(s.name + ": the remote never showed the initial branches (setup push)")
		return
	}

	// replica: clone, then restart as a read replica
	if err := s.rep.start(); err != nil {
		c.Inconclusive(s.name + ": cannot start the replica server: " + err.Error())
		return
	}
	defer s.rep.stop(syscall.SIGKILL)
	y, err := openSession(s.rep.dsn(""))
	rig.Must(err)
	if err := y.Exec("call dolt_clone('file://" + s.remoteDir + "', '" + c45DB + "')"); err != nil {
		y.Close()
		c.Inconclusive(s.name + ": dolt_clone on the replica failed: " + err.Error())
		return
	}
	y.Close()
	s.rep.stop(syscall.SIGTERM)
	rig.Must(os.WriteFile(s.rep.Cfg, []byte(plainYAML(s.rep, map[string]string{
		"dolt_read_replica_remote": "origin", "dolt_replicate_all_heads": "1"})), 0o644))
	if err := s.rep.start(); err != nil {
		c.Inconclusive(s.name + ": cannot restart the replica server: " + err.Error() + " :: " + short(tailFile(s.rep.LogPath, 1200), 1200))
		return
	}

	var wg sync.WaitGroup
	for w := 1; w <= nWriters; w++ {
		wg.Add(1)
		go func(w int) {
			defer wg.Done()
			s.writer(w, c.SubRand("c45-push-writer", idx*16+w))
		}(w)
	}
	var owg sync.WaitGroup
	owg.Add(1)
	go func() { defer owg.Done(); s.replicaObserver() }()

	time.Sleep(time.Duration(syncMs) * time.Millisecond)
	c.Case(fmt.Sprintf("c45/%s/async-phase", s.name), map[string]any{"txs_started": s.led.size()})
	c.Distinct(fmt.Sprintf("%d/%s/sync/%d", c.Seed, s.name, s.led.size()))
	s.async.Store(true) // from here on commits are not checked synchronously (a commit in flight may already be async)
	if z, err := openSession(s.src.dsn("")); err == nil {
		if err := z.Exec("set @@global.dolt_async_replication = 1"); err != nil {
			c.Inconclusive(s.name + ": cannot switch to async replication: " + err.Error())
		}
		z.Close()
	}
	before := s.led.size()
	time.Sleep(time.Duration(asyncMs) * time.Millisecond)
	s.stop.Store(true)
	wg.Wait()
	if s.led.size() > before {
		c.Distinct(fmt.Sprintf("%d/%s/async/%d", c.Seed, s.name, s.led.size()))
	}
	s.finalChecks(&owg)
	t.inc("c45.push.scenarios_completed")
}

func (s *pushScn) writer(w int, rnd *rand.Rand) {
	var x *session
	defer func() { x.Close() }()
	n := 0
	for !s.stop.Load() {
		time.Sleep(time.Duration(20+rnd.Intn(150)) * time.Millisecond)
		if x == nil {
			y, err := openSession(s.src.dsn(c45DB))
			if err != nil {
				s.t.inc("c45.push.writer_connect_errors")
				time.Sleep(200 * time.Millisecond)
				continue
			}
			if err := y.Exec("set autocommit = 0"); err != nil {
				y.Close()
				continue
			}
			x = y
		}
		n++
		asyncBefore := s.async.Load()
		tx := &txRec{W: w, N: n, Branch: s.branches[rnd.Intn(len(s.branches))], K: 1 + rnd.Intn(3), Dolt: true}
		var vals []string
		for j := 0; j < tx.K; j++ {
			vals = append(vals, fmt.Sprintf("(%d,%d,%d)", w, n, j))
		}
		tx.Call = rig.Mono()
		s.led.begin(tx)
		fail := func(outcome string, err error) {
			s.led.finish(tx, func(t *txRec) { t.Outcome, t.Err, t.Ret = outcome, short(err.Error(), 200), rig.Mono() })
			s.t.inc("c45.push.tx_" + outcome)
			x.Exec("rollback")
			if isConnErr(err) || outcome == "unknown" {
				x.Close()
				x = nil
			}
		}
		if err := x.Exec("use `" + c45DB + "/" + tx.Branch + "`"); err != nil {
			fail("failed", err)
			continue
		}
		if err := x.Exec("insert into t values " + strings.Join(vals, ",")); err != nil {
			fail("failed", err)
			continue
		}
		hash, err := x.Scalar("call dolt_commit('-a','-m','" + tx.msg() + "')")
		ret := rig.Mono()
		if err != nil {
			fail("unknown", err)
			continue
		}
		warn, werr := x.warnings()
		s.led.finish(tx, func(t *txRec) {
			t.Outcome, t.Ret, t.Hash = "ok", ret, hash
			t.Warn = strings.Join(warn, " ; ")
		})
		s.t.inc("c45.push.commits_ok")
		if werr != nil {
			x.Close()
			x = nil
			continue
		}
		if len(warn) > 0 {
			s.t.inc("c45.push.commits_with_warning")
			continue
		}
		if asyncBefore || s.async.Load() {
			s.t.inc("c45.push.async_commits")
			continue
		}
		// synchronous push-on-write: the commit returned without warning, so the remote must have it NOW
		obsStart := rig.Mono()
		heads, err := s.robs.heads()
		if err != nil {
			s.t.inc("c45.push.remote_read_errors")
			continue
		}
		s.mu.Lock()
		s.checks = append(s.checks, pushCheck{W: w, N: n, Branch: tx.Branch, Hash: hash, Ret: ret, ObsStart: obsStart, RemoteHead: heads[tx.Branch]})
		s.mu.Unlock()
		s.t.inc("c45.push.sync_presence_checks")
	}
}

// replicaObserver: every statement on an autocommit connection is a new transaction, which makes the read
// replica pull from the remote first.
func (s *pushScn) replicaObserver() {
	var x *session
	defer func() { x.Close() }()
	for !s.stop.Load() {
		if x == nil {
			y, err := openSession(s.rep.dsn(c45DB))
			if err != nil {
				s.t.inc("c45.replica.connect_errors")
				time.Sleep(300 * time.Millisecond)
				continue
			}
			x = y
		}
		st, err := readStateOn(x, s.branches, false)
		if err != nil {
			s.t.inc("c45.replica.read_errors")
			s.c.Note(s.name + ": replica read error: " + short(err.Error(), 200))
			x.Close()
			x = nil
			time.Sleep(300 * time.Millisecond)
			continue
		}
		s.recordReplica(st)
		time.Sleep(100 * time.Millisecond)
	}
}

func (s *pushScn) recordReplica(st *srvState) {
	s.t.inc("c45.replica.polls")
	for br, h := range st.heads {
		if s.obs.addHead(headObs{Server: 1, Role: "replica", Branch: br, Hash: h, Start: st.start, End: st.headsEnd}) {
			s.t.inc("c45.replica.distinct_heads")
		}
	}
	for br, rs := range st.rows {
		if s.obs.addRows(rowObs{Server: 1, Role: "replica", Branch: br, Rows: rs, Start: st.start, End: st.end}) {
			s.t.inc("c45.replica.distinct_rowsets")
		}
	}
}

func (s *pushScn) finalChecks(owg *sync.WaitGroup) {
	// ground truth: the source's log per branch, position 0 = oldest
	type logT struct {
		pos map[string]int
		msg []string
	}
	truth := map[string]*logT{}
	srcHeads := map[string]string{}
	x, err := openSession(s.src.dsn(c45DB))
	if err != nil {
		s.c.Inconclusive(s.name + ": cannot read the source at the end: " + err.Error())
		owg.Wait()
		return
	}
	for _, br := range s.branches {
		r, err := x.Query("select commit_hash, message from dolt_log('" + br + "')")
		if err != nil {
			x.Close()
			s.c.Inconclusive(s.name + ": cannot read the source's log: " + err.Error())
			owg.Wait()
			return
		}
		lt := &logT{pos: map[string]int{}, msg: make([]string, len(r))}
		for i, row := range r {
			p := len(r) - 1 - i
			lt.pos[row[0]] = p
			lt.msg[p] = row[1]
		}
		truth[br] = lt
		if len(r) > 0 {
			srcHeads[br] = r[0][0]
		}
	}
	x.Close()
	txs := s.led.snapshot()
	byMsg := map[string]*txRec{}
	for i := range txs {
		byMsg[txs[i].msg()] = &txs[i]
	}

	// (1) synchronous presence
	for _, ck := range s.checks {
		lt := truth[ck.Branch]
		ph, okh := lt.pos[ck.Hash]
		pr, okr := lt.pos[ck.RemoteHead]
		switch {
		case !okh:
			s.viol("c45/push/returned-commit-not-in-source-log", fmt.Sprintf("dolt_commit returned %s for %s but the source's dolt_log(%s) does not contain it", ck.Hash, fmt.Sprintf("w%d-n%d", ck.W, ck.N), ck.Branch), map[string]any{"check": ck})
		case !okr:
			s.viol("c45/push/remote-head-never-on-source", fmt.Sprintf("the remote showed head %q for branch %s, which the source never had", ck.RemoteHead, ck.Branch), map[string]any{"check": ck})
		case pr < ph:
			s.viol("c45/push/commit-absent-from-remote-after-return",
				fmt.Sprintf("dolt_commit w%d-n%d on %s returned %s (log position %d) without warning with synchronous dolt_replicate_to_remote, but the remote read afterwards has %s head %s (position %d), which does not contain it", ck.W, ck.N, ck.Branch, ck.Hash, ph, ck.Branch, ck.RemoteHead, pr),
				map[string]any{"check": ck, "remote_behind_by": ph - pr})
		}
	}

	// (2) eventual presence (async phase) and final agreement remote == source
	conv := false
	var last map[string]string
	polls := 0
	for ; polls < c45PollBound; polls++ {
		h, err := s.robs.heads()
		if err == nil {
			last = h
			conv = true
			for _, br := range s.branches {
				if h[br] != srcHeads[br] {
					conv = false
				}
			}
			if conv {
				break
			}
		}
		time.Sleep(c45PollEvery)
	}
	s.t.add("c45.push.final_remote_polls", polls)
	if !conv {
		s.viol("c45/push/remote-not-converged-after-bound",
			fmt.Sprintf("after the writers stopped the remote did not reach the source's heads within %d polls x %s (async flush interval is 500 ms): source %v remote %v", c45PollBound, c45PollEvery, srcHeads, last),
			map[string]any{"source": srcHeads, "remote": last})
	} else {
		s.t.inc("c45.push.remote_converged")
	}

	// (3) the replica must reach the remote's heads at a new transaction (bounded), observer keeps running
	rconv := false
	var rlast map[string]string
	for polls = 0; conv && polls < c45PollBound; polls++ {
		y, err := openSession(s.rep.dsn(c45DB))
		if err == nil {
			st, err := readStateOn(y, s.branches, false)
			y.Close()
			if err == nil {
				s.recordReplica(st)
				rlast = st.heads
				rconv = true
				for _, br := range s.branches {
					if st.heads[br] != last[br] {
						rconv = false
					}
				}
				if rconv {
					break
				}
			}
		}
		time.Sleep(c45PollEvery)
	}
	s.stop.Store(true)
	owg.Wait()
	if conv && !rconv {
		s.viol("c45/replica/not-converged-after-bound", fmt.Sprintf("new transactions on the read replica kept showing heads %v while the remote has %v (%d polls)", rlast, last, c45PollBound), nil)
	} else if rconv {
		s.t.inc("c45.replica.converged")
	}

	// (4) membership of everything the replica ever showed
	for _, h := range s.obs.heads {
		lt := truth[h.Branch]
		if lt == nil {
			s.viol("c45/replica/branch-never-on-remote", fmt.Sprintf("the replica showed branch %s (head %s), which was never created on the source", h.Branch, h.Hash), map[string]any{"obs": h})
			continue
		}
		p, ok := lt.pos[h.Hash]
		if !ok {
			s.viol("c45/replica/head-never-on-remote", fmt.Sprintf("the replica showed head %s for branch %s; the remote only ever receives commits of the source's log of that branch and this is none of them", h.Hash, h.Branch), map[string]any{"obs": h})
			continue
		}
		if tx := byMsg[lt.msg[p]]; tx != nil && tx.Call > h.End {
			s.viol("c45/replica/head-before-its-commit", fmt.Sprintf("the replica showed %s (%s) before that commit was issued", h.Hash, lt.msg[p]), map[string]any{"obs": h, "tx": tx})
		}
	}
	reported := 0
	for _, o := range s.obs.rows {
		lt := truth[o.Branch]
		if lt == nil {
			continue
		}
		why := checkRowsAreCommitContent(lt.msg, byMsg, o.Rows, o.End)
		if why != "" {
			reported++
			if reported <= 5 {
				s.viol("c45/replica/rows-not-a-commit-of-the-branch", fmt.Sprintf("the replica showed a row set for branch %s that is the content of no commit of that branch: %s", o.Branch, why),
					map[string]any{"branch": o.Branch, "rows": len(o.Rows), "why": why})
			}
		}
	}
	s.t.add("c45.replica.distinct_heads_checked", len(s.obs.heads))
	s.t.add("c45.replica.distinct_rowsets_checked", len(s.obs.rows))
	if s.idx == 0 {
		s.c.Sample(map[string]any{"scenario": s.name, "txs": len(txs), "sync_checks": len(s.checks), "replica_distinct_heads": len(s.obs.heads),
			"source_heads": srcHeads})
	}
}

// checkRowsAreCommitContent: on a branch where every write is a dolt_commit('-a') the content of the commit at
// log position p is exactly the setup rows plus the rows of the transactions named by the messages at
// positions 1..p. The replica's working set is reset to the pulled commit, so a row set it shows must be one of
// these prefixes.
func checkRowsAreCommitContent(msgs []string, byMsg map[string]*txRec, rs []row, end int64) string {
	have := map[string]int{}
	seeds := 0
	for _, r := range rs {
		if r.W == 0 {
			seeds++
			continue
		}
		have[fmt.Sprintf("w%d-n%d", r.W, r.N)]++
	}
	if seeds != c45SeedRows {
		return fmt.Sprintf("%d of the %d setup rows", seeds, c45SeedRows)
	}
	// longest prefix of the log (after the setup commit) whose transactions are all present
	base := 0
	for i, m := range msgs {
		if m == "setup" {
			base = i
		}
	}
	p := base
	for p+1 < len(msgs) && have[msgs[p+1]] > 0 {
		p++
	}
	seen := 0
	for i := base + 1; i <= p; i++ {
		tx := byMsg[msgs[i]]
		if tx == nil {
			return "log message " + msgs[i] + " matches no transaction"
		}
		if have[msgs[i]] != tx.K {
			return fmt.Sprintf("commit %s shown partially (%d of %d rows)", msgs[i], have[msgs[i]], tx.K)
		}
		if tx.Call > end {
			return fmt.Sprintf("rows of %s shown before it was issued", msgs[i])
		}
		seen++
	}
	if seen != len(have) {
		for m := range have {
			found := false
			for i := base + 1; i <= p; i++ {
				if msgs[i] == m {
					found = true
				}
			}
			if !found {
				return fmt.Sprintf("rows of %s are shown, but not the rows of every commit before it on this branch (content matches the first %d commits after setup only)", m, p-base)
			}
		}
	}
	return ""
}
