package vtables

import (
	"fmt"
	"math/rand"
	"sort"
	"strings"

	"verif/rig"
	"verif/sqlrig"
)

// Single-indexed-column transitions. The secondary index writers decide "nothing to do for this index" by comparing
// the old and new Go values of the key parts (isNoopUpdate: []byte via bytes.Equal, everything else via !=), so every
// value representation the writers can meet is put into an indexed column here, and exactly ONE indexed column of a
// row is changed at a time while the primary key and the other key parts stay: non-NULL -> NULL, NULL -> non-NULL,
// value -> same value, value -> other value, value -> collation-equal value, the same through INSERT .. ON DUPLICATE
// KEY UPDATE, an update of an unindexed column, and foreign-key actions (SET NULL / CASCADE) on an indexed child
// column. The oracle is the unchanged one of c25.go (checkTable).

type scFamily struct {
	name   string
	typ    string
	vals   []string    // SQL literals of distinct values
	ci     [][2]string // pairs of literals equal under the column collation but different as bytes
	prefix int         // index prefix length (0 = none)
	fk     bool        // also used as a foreign-key column type
}

var scFamilies = []scFamily{
	{name: "varbinary", typ: "varbinary(16)", vals: []string{"'ab'", "'abc'", "'zz'", "0x6162ff"}, fk: true},
	{name: "binary", typ: "binary(4)", vals: []string{"'abcd'", "'wxyz'", "'ab12'"}},
	{name: "blob-prefix", typ: "blob", vals: []string{"'abcdef'", "'abcz'", "'zz'"}, prefix: 3},
	{name: "varchar-bin", typ: "varchar(20)", vals: []string{"'ab'", "'abc'", "'B'"}},
	{name: "varchar-ci", typ: "varchar(20) collate utf8mb4_general_ci", vals: []string{"'ab'", "'abc'", "'zz'"}, ci: [][2]string{{"'ab'", "'AB'"}, {"'abc'", "'aBc'"}, {"'zz'", "'ZZ'"}}, fk: true},
	{name: "char-ci", typ: "char(6) collate utf8mb4_0900_ai_ci", vals: []string{"'ab'", "'cd'", "'ef'"}, ci: [][2]string{{"'ab'", "'Ab'"}, {"'cd'", "'CD'"}, {"'ef'", "'eF'"}}},
	{name: "text-prefix", typ: "text", vals: []string{"'héllo'", "'hello'", "'abc'"}, prefix: 3},
	{name: "int", typ: "int", vals: []string{"0", "7", "-3"}, fk: true},
	{name: "tinyint", typ: "tinyint", vals: []string{"1", "-128", "127"}},
	{name: "bigint-unsigned", typ: "bigint unsigned", vals: []string{"0", "18446744073709551615", "42"}},
	{name: "decimal", typ: "decimal(10,3)", vals: []string{"1.500", "-2.250", "0.001"}},
	{name: "double", typ: "double", vals: []string{"1.5", "-0.25", "1e10"}},
	{name: "float", typ: "float", vals: []string{"1.5", "-0.25", "8"}},
	{name: "datetime6", typ: "datetime(6)", vals: []string{"'2020-01-02 03:04:05.123456'", "'2020-01-02 03:04:05.123457'", "'1999-12-31 23:59:59'"}},
	{name: "timestamp", typ: "timestamp", vals: []string{"'2020-01-02 03:04:05'", "'2021-06-07 08:09:10'"}},
	{name: "date", typ: "date", vals: []string{"'2020-02-29'", "'1999-12-31'", "'2024-01-01'"}},
	{name: "time", typ: "time", vals: []string{"'12:34:56'", "'-01:00:00'", "'00:00:01'"}},
	{name: "year", typ: "year", vals: []string{"2020", "1999", "2155"}},
	{name: "enum", typ: "enum('a','b','c')", vals: []string{"'a'", "'b'", "'c'"}},
	{name: "set", typ: "set('x','y','z')", vals: []string{"'x'", "'x,y'", "'z'"}},
}

type scStats struct {
	byFamily map[string]int // family -> single-column statements executed
	byKind   map[string]int // transition kind -> statements executed
	binNull  int            // non-NULL -> NULL on a []byte-valued indexed column
	fkActs   map[string]int
	failed   int
}

func (f scFamily) idxCol() string {
	if f.prefix > 0 {
		return fmt.Sprintf("x(%d)", f.prefix)
	}
	return "x"
}

// scTable runs the transitions on one table of one family. keyless = no primary key (rows addressed by the unique o).
func scTable(c *rig.Ctx, x *sqlrig.Session, srv *sqlrig.Server, db string, f scFamily, keyless, unique bool, r *rand.Rand, st *c25stats, sc *scStats) {
	name := "t_" + strings.ReplaceAll(f.name, "-", "_")
	if keyless {
		name += "_kl"
	}
	if unique {
		name += "_u"
	}
	var script []string
	st.script = &script
	run := func(kind, q string) bool {
		script = append(script, q)
		st.lastKind = kind
		c.Case("c25/sc/"+name, map[string]any{"n": len(script), "stmt": q})
		if _, err := x.Query(q); err != nil {
			script[len(script)-1] += "   -- ERROR: " + firstLine(err.Error())
			sc.failed++
			return false
		}
		return true
	}
	pk := "pk int not null, "
	pkDef := ", primary key (pk)"
	if keyless {
		pkDef = ""
	}
	u := ""
	if unique {
		u = "unique "
	}
	if !run("create-table", fmt.Sprintf("create table %s (%sx %s, o int not null, p int, %skey ix (%s), key ixm (%s, o), key ixo (o, %s)%s)",
		name, pk, f.typ, u, f.idxCol(), f.idxCol(), f.idxCol(), pkDef)) {
		return
	}
	ddb, err := srv.OpenDoltDB(db)
	rig.Must(err)
	v0 := c.Violations()
	check := func(deep bool) bool {
		roots, err := sqlrig.BranchRoots(ddb, "main")
		rig.Must(err)
		checkTable(c, x, roots.Working, "", "", name, "working:main", deep, st)
		return c.Violations() == v0
	}
	const nrows = 8
	cur := map[int]string{}
	var rows []string
	for k := 1; k <= nrows; k++ {
		v := "NULL"
		if k%3 != 0 {
			v = f.vals[(k-1)%len(f.vals)]
			if unique {
				v = f.vals[(k-1)%len(f.vals)]
				if k > len(f.vals) {
					v = "NULL" // unique index: every non-NULL value once
				}
			}
		}
		cur[k] = v
		rows = append(rows, fmt.Sprintf("(%d, %s, %d, 0)", k, v, k*10))
	}
	if !run("insert", "insert into "+name+" values "+strings.Join(rows, ", ")) || !check(false) {
		return
	}
	where := func(k int) string {
		if keyless {
			return fmt.Sprintf("o = %d", k*10)
		}
		return fmt.Sprintf("pk = %d", k)
	}
	other := func(v string) string {
		for _, i := range r.Perm(len(f.vals)) {
			if f.vals[i] != v {
				if unique {
					taken := false
					for _, c := range cur {
						if c == f.vals[i] {
							taken = true
						}
					}
					if taken {
						continue
					}
				}
				return f.vals[i]
			}
		}
		return ""
	}
	ciOf := func(v string) string {
		for _, p := range f.ci {
			if p[0] == v {
				return p[1]
			}
			if p[1] == v {
				return p[0]
			}
		}
		return ""
	}
	isBytes := f.name == "varbinary" || f.name == "binary" || f.name == "blob-prefix"
	steps := 26
	for s := 0; s < steps; s++ {
		k := 1 + r.Intn(nrows)
		v := cur[k]
		var kind, q, nv string
		n := r.Intn(12)
		if len(f.ci) > 0 && v != "NULL" && r.Intn(4) == 0 {
			n = 6 // collation-equal rewrite
		}
		switch {
		case n < 3:
			if v == "NULL" {
				nv = other("NULL")
				kind = "null-to-value"
			} else {
				nv = "NULL"
				kind = "value-to-null"
			}
		case n < 4:
			nv, kind = v, "same-value"
		case n < 6:
			nv, kind = other(v), "value-to-other-value"
			if v == "NULL" {
				kind = "null-to-value"
			}
		case n < 7:
			nv, kind = ciOf(v), "collation-equal-value"
		case n < 9:
			if v == "NULL" {
				nv, kind = other("NULL"), "upsert-null-to-value"
			} else {
				nv, kind = "NULL", "upsert-value-to-null"
			}
		case n < 10:
			nv, kind = other(v), "upsert-value-to-other-value"
			if v == "NULL" {
				kind = "upsert-null-to-value"
			}
		default:
			kind = "unindexed-column-only"
		}
		switch {
		case kind == "unindexed-column-only":
			q = fmt.Sprintf("update %s set p = p + 1 where %s", name, where(k))
		case nv == "":
			continue
		case strings.HasPrefix(kind, "upsert"):
			if keyless || unique {
				continue // no key to collide on / more than one key could collide
			}
			q = fmt.Sprintf("insert into %s values (%d, %s, %d, 0) on duplicate key update x = %s", name, k, f.vals[0], k*10, nv)
		default:
			q = fmt.Sprintf("update %s set x = %s where %s", name, nv, where(k))
		}
		if !run("sc-"+kind, q) {
			continue
		}
		if kind != "unindexed-column-only" {
			cur[k] = nv
		}
		sc.byFamily[f.name]++
		sc.byKind[kind]++
		if isBytes && strings.HasSuffix(kind, "value-to-null") {
			sc.binNull++
		}
		if !check(s%9 == 8 || s == steps-1) {
			return
		}
	}
	c.Distinct("sc/" + name)
}

// scForeignKeys: the child column is indexed (twice); parent deletes / key updates fire SET NULL / CASCADE.
func scForeignKeys(c *rig.Ctx, x *sqlrig.Session, srv *sqlrig.Server, db string, f scFamily, onDelete, onUpdate string, idx int, r *rand.Rand, st *c25stats, sc *scStats) {
	par, ch := fmt.Sprintf("par%d", idx), fmt.Sprintf("ch%d", idx)
	var script []string
	st.script = &script
	run := func(kind, q string) bool {
		script = append(script, q)
		st.lastKind = kind
		c.Case("c25/sc/fk", map[string]any{"n": len(script), "stmt": q})
		if _, err := x.Query(q); err != nil {
			script[len(script)-1] += "   -- ERROR: " + firstLine(err.Error())
			sc.failed++
			return false
		}
		return true
	}
	if !run("create-table", fmt.Sprintf("create table %s (id %s not null primary key, note int)", par, f.typ)) {
		return
	}
	if !run("create-table", fmt.Sprintf("create table %s (pk int primary key, fk %s, o int, key ifk (fk), key ifko (fk, o), constraint %s_fk foreign key (fk) references %s (id) on delete %s on update %s)",
		ch, f.typ, ch, par, onDelete, onUpdate)) {
		return
	}
	var prow, crow []string
	for i, v := range f.vals {
		prow = append(prow, fmt.Sprintf("(%s, %d)", v, i))
	}
	for k := 1; k <= 7; k++ {
		v := "NULL"
		if k%4 != 0 {
			v = f.vals[k%len(f.vals)]
		}
		crow = append(crow, fmt.Sprintf("(%d, %s, %d)", k, v, k))
	}
	ddb, err := srv.OpenDoltDB(db)
	rig.Must(err)
	v0 := c.Violations()
	check := func() bool {
		roots, err := sqlrig.BranchRoots(ddb, "main")
		rig.Must(err)
		checkTable(c, x, roots.Working, "", "", ch, "working:main", true, st)
		checkTable(c, x, roots.Working, "", "", par, "working:main", false, st)
		return c.Violations() == v0
	}
	if !run("insert", "insert into "+par+" values "+strings.Join(prow, ", ")) || !run("insert", "insert into "+ch+" values "+strings.Join(crow, ", ")) || !check() {
		return
	}
	fresh := map[string]string{"int": "1000", "varbinary": "'fresh'", "varchar-ci": "'fresh'"}[f.name]
	acts := []struct{ kind, q string }{
		{"fk-on-update-" + strings.ReplaceAll(onUpdate, " ", "-"), fmt.Sprintf("update %s set id = %s where id = %s", par, fresh, f.vals[1])},
		{"fk-on-delete-" + strings.ReplaceAll(onDelete, " ", "-"), fmt.Sprintf("delete from %s where id = %s", par, f.vals[0])},
		{"fk-on-delete-" + strings.ReplaceAll(onDelete, " ", "-"), fmt.Sprintf("delete from %s where id = %s", par, fresh)},
	}
	if r.Intn(2) == 0 {
		acts[0], acts[1] = acts[1], acts[0]
	}
	for _, a := range acts {
		if run(a.kind, a.q) {
			sc.fkActs[a.kind+"/"+f.name]++
			if !check() {
				return
			}
		}
	}
	c.Distinct(fmt.Sprintf("sc/fk/%s/%s/%s", f.name, onDelete, onUpdate))
}

func c25singleColumn(c *rig.Ctx, box *srvBox, st *c25stats) *scStats {
	sc := &scStats{byFamily: map[string]int{}, byKind: map[string]int{}, fkActs: map[string]int{}}
	db := "c25_sc"
	x := box.srv.MustOpen("")
	defer x.Close()
	rig.Must(execAll(x, "create database "+db, "use "+db))
	defer func() {
		x.Exec("use mysql")
		x.Exec("drop database " + db)
		st.script = nil
	}()
	rounds := c.Pick(1, 12)
	for round := 0; round < rounds; round++ {
		if round > 0 {
			x.Exec("use mysql")
			x.Exec("drop database " + db)
			rig.Must(execAll(x, "create database "+db, "use "+db))
		}
		for i, f := range scFamilies {
			r := c.SubRand("c25/sc/"+f.name, round)
			scTable(c, x, box.srv, db, f, false, false, r, st, sc)
			if (i+round)%3 == 0 {
				scTable(c, x, box.srv, db, f, true, false, r, st, sc)
			}
			if (i+round)%3 == 1 {
				scTable(c, x, box.srv, db, f, false, true, r, st, sc)
			}
			if c.UnlistedViolations() > 25 {
				return sc
			}
		}
		k := 0
		for _, f := range scFamilies {
			if !f.fk {
				continue
			}
			for _, a := range [][2]string{{"set null", "set null"}, {"set null", "cascade"}, {"cascade", "cascade"}} {
				k++
				scForeignKeys(c, x, box.srv, db, f, a[0], a[1], k, c.SubRand("c25/sc/fk", round*100+k), st, sc)
			}
		}
	}
	var ks []string
	for k := range sc.byFamily {
		ks = append(ks, k)
	}
	sort.Strings(ks)
	for _, k := range ks {
		c.Count("c25.sc.family."+k, sc.byFamily[k])
	}
	for k, v := range sc.byKind {
		c.Count("c25.sc.transition."+k, v)
	}
	for k, v := range sc.fkActs {
		c.Count("c25.sc."+k, v)
	}
	c.Count("c25.sc.bytes_column_value_to_null", sc.binNull)
	c.Count("c25.sc.statements_refused", sc.failed)
	return sc
}
