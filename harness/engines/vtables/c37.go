package vtables

import (
	"fmt"
	"math/rand"
	"sort"
	"strings"

	"github.com/dolthub/dolt/go/libraries/doltcore/doltdb"
	"github.com/dolthub/dolt/go/libraries/doltcore/schema"
	"github.com/dolthub/dolt/go/libraries/doltcore/schema/encoding"
	"github.com/dolthub/dolt/go/store/types"

	"verif/rig"
	"verif/sqlrig"
)

// ---------------------------------------------------------------------------------------------------------
// Schema generator: every column kind comes with the DDL text AND the line SHOW CREATE TABLE must show for it
// (every parameter of the type and every option is visible in that line, so a parameter lost in storage shows).
// ---------------------------------------------------------------------------------------------------------

type colSpec struct {
	Name    string
	DDL     string // text after the column name in CREATE / ALTER
	Line    string // text after "`name` " in SHOW CREATE TABLE
	Family  string
	IdxKind string // "" (not indexable here) | "plain" | "prefix"
	Numeric bool   // usable in a CHECK (col > n) and in a generated column
	InExpr  bool   // referenced by a check / generated column: never dropped or renamed
}

type keySpec struct {
	Name    string
	Unique  bool
	Cols    []string
	Prefix  []int
	Comment string
}

type checkSpec struct {
	Name, Col string
	N         int
	Enforced  bool
}

type tableSpec struct {
	Name      string
	Cols      []*colSpec
	PK        []string
	Keys      []*keySpec
	Checks    []*checkSpec
	Collation string // "" = server default utf8mb4_0900_bin
	Comment   string
}

func sqlStr(s string) string { return "'" + strings.ReplaceAll(s, "'", "''") + "'" }

func pick(r *rand.Rand, s ...string) string { return s[r.Intn(len(s))] }

var c37collations = []string{"utf8mb4_general_ci", "utf8mb4_0900_ai_ci", "utf8mb4_unicode_ci", "utf8mb4_bin", "utf8mb4_0900_as_cs"}

// genCol returns a random column specification of a random family. pkOK restricts to types usable in a primary key.
func genCol(r *rand.Rand, name string, pkOK bool) *colSpec {
	c := &colSpec{Name: name}
	opt := func(ddl, line string) {
		c.DDL += ddl
		c.Line += line
	}
	notNull := func() {
		if pkOK || r.Intn(4) == 0 {
			opt(" not null", " NOT NULL")
		}
	}
	comment := func() {
		if r.Intn(5) == 0 {
			cm := pick(r, "plain comment", "it's quoted", "ünïcode ✓", "semi;colon, comma")
			opt(" comment "+sqlStr(cm), " COMMENT "+sqlStr(cm))
		}
	}
	fam := r.Intn(14)
	if pkOK {
		fam = []int{0, 2, 4, 8}[r.Intn(4)]
	}
	switch fam {
	case 0: // integers
		c.Family = "int"
		t := pick(r, "tinyint", "smallint", "mediumint", "int", "bigint")
		if r.Intn(3) == 0 {
			t += " unsigned"
		}
		c.DDL, c.Line = t, t
		notNull()
		if !pkOK && r.Intn(3) == 0 {
			n := r.Intn(100)
			opt(fmt.Sprintf(" default %d", n), fmt.Sprintf(" DEFAULT '%d'", n))
		}
		comment()
		c.IdxKind, c.Numeric = "plain", true
	case 1: // floats
		c.Family = "float"
		t := pick(r, "float", "double")
		c.DDL, c.Line = t, t
		notNull()
		switch r.Intn(4) {
		case 0:
			opt(" default 1.5", " DEFAULT '1.5'")
		case 1:
			if t == "double" {
				opt(" default (pi())", " DEFAULT (pi())")
			}
		}
		c.IdxKind = "plain"
	case 2: // decimals
		c.Family = "decimal"
		p := 1 + r.Intn(30)
		s := r.Intn(p + 1)
		if s > 10 {
			s = r.Intn(10)
		}
		t := fmt.Sprintf("decimal(%d,%d)", p, s)
		c.DDL, c.Line = t, t
		notNull()
		if !pkOK && r.Intn(3) == 0 {
			if s == 0 {
				opt(" default 0", " DEFAULT '0'")
			} else {
				d := "0.5" + strings.Repeat("0", s-1) // (tiny values are printed in exponent form, e.g. '1E-7': display only)
				opt(" default "+d, " DEFAULT '"+d+"'")
			}
		}
		c.IdxKind = "plain"
	case 3: // bit
		c.Family = "bit"
		n := 1 + r.Intn(64)
		t := fmt.Sprintf("bit(%d)", n)
		c.DDL, c.Line = t, t
		notNull()
		if n >= 3 && r.Intn(3) == 0 {
			opt(" default b'101'", " DEFAULT b'101'")
		}
	case 4: // char / varchar
		c.Family = "char"
		n := 1 + r.Intn(60)
		t := fmt.Sprintf("%s(%d)", pick(r, "char", "varchar"), n)
		c.DDL, c.Line = t, t
		switch r.Intn(4) {
		case 0:
			co := pick(r, c37collations...)
			opt(" collate "+co, " COLLATE "+co)
		case 1:
			if !pkOK {
				opt(" character set latin1", " CHARACTER SET latin1 COLLATE latin1_swedish_ci")
			}
		}
		notNull()
		if !pkOK && r.Intn(3) == 0 {
			d := pick(r, "x", "a'b", "", "Zz")
			if len(d) <= n {
				opt(" default "+sqlStr(d), " DEFAULT "+sqlStr(d))
			}
		}
		comment()
		c.IdxKind = "plain"
		if r.Intn(3) == 0 && n > 3 {
			c.IdxKind = "prefix"
		}
	case 5: // binary / varbinary
		c.Family = "binary"
		n := 2 + r.Intn(40)
		t := fmt.Sprintf("%s(%d)", pick(r, "binary", "varbinary"), n)
		c.DDL, c.Line = t, t
		notNull()
		if strings.HasPrefix(t, "varbinary") && r.Intn(3) == 0 {
			opt(" default 0x6162", " DEFAULT 0x6162")
		}
		c.IdxKind = "plain"
	case 6: // text
		c.Family = "text"
		t := pick(r, "tinytext", "text", "mediumtext", "longtext")
		c.DDL, c.Line = t, t
		if r.Intn(3) == 0 {
			co := pick(r, c37collations...)
			opt(" collate "+co, " COLLATE "+co)
		}
		notNull()
		comment()
		c.IdxKind = "prefix"
	case 7: // blob
		c.Family = "blob"
		t := pick(r, "tinyblob", "blob", "mediumblob", "longblob")
		c.DDL, c.Line = t, t
		notNull()
		c.IdxKind = "prefix"
	case 8: // date / time / year
		c.Family = "date"
		switch r.Intn(3) {
		case 0:
			c.DDL, c.Line = "date", "date"
			notNull()
			if !pkOK && r.Intn(2) == 0 {
				opt(" default '2020-02-29'", " DEFAULT '2020-02-29'")
			}
		case 1:
			c.DDL, c.Line = "time", "time(6)"
			notNull()
		default:
			c.DDL, c.Line = "year", "year"
			notNull()
			if !pkOK && r.Intn(2) == 0 {
				opt(" default 2020", " DEFAULT '2020'")
			}
		}
		c.IdxKind = "plain"
	case 9: // datetime / timestamp with precision
		c.Family = "datetime"
		base := pick(r, "datetime", "timestamp")
		p := []int{0, 0, 3, 6, 1}[r.Intn(5)]
		t := base
		fn := "CURRENT_TIMESTAMP"
		if p > 0 {
			t = fmt.Sprintf("%s(%d)", base, p)
			fn = fmt.Sprintf("CURRENT_TIMESTAMP(%d)", p)
		}
		c.DDL, c.Line = t, t
		notNull()
		switch r.Intn(4) {
		case 0:
			opt(" default "+strings.ToLower(fn), " DEFAULT "+fn)
		case 1:
			opt(" default "+strings.ToLower(fn)+" on update "+strings.ToLower(fn), " DEFAULT "+fn+" ON UPDATE "+fn)
		case 2:
			opt(" default '2001-02-03 04:05:06'", " DEFAULT '2001-02-03 04:05:06'")
		}
		c.IdxKind = "plain"
	case 10: // enum / set: the ORDER of the values is a parameter of the type
		c.Family = "enum"
		vals := []string{"a", "b", "c", "dd", "E", "f g"}
		r.Shuffle(len(vals), func(i, j int) { vals[i], vals[j] = vals[j], vals[i] })
		vals = vals[:2+r.Intn(4)]
		var q []string
		for _, v := range vals {
			q = append(q, sqlStr(v))
		}
		t := fmt.Sprintf("%s(%s)", pick(r, "enum", "set"), strings.Join(q, ","))
		c.DDL, c.Line = t, t
		if r.Intn(4) == 0 {
			co := pick(r, "utf8mb4_general_ci", "utf8mb4_0900_ai_ci")
			opt(" collate "+co, " COLLATE "+co)
		}
		notNull()
		c.IdxKind = "plain"
	case 11: // json
		c.Family = "json"
		c.DDL, c.Line = "json", "json"
		notNull()
		comment()
	case 12: // spatial
		c.Family = "spatial"
		t := pick(r, "geometry", "point", "linestring", "polygon")
		c.DDL, c.Line = t, t
		if r.Intn(2) == 0 {
			opt(" srid 4326", " /*!80003 SRID 4326 */")
		} else {
			notNull()
		}
	default: // expression default
		c.Family = "exprdefault"
		c.DDL, c.Line = "varchar(20) default (concat('a','b'))", "varchar(20) DEFAULT (concat('a','b'))"
		c.IdxKind = "plain"
	}
	return c
}

func (k *keySpec) ddl() string {
	var parts []string
	for i, cn := range k.Cols {
		p := qid(cn)
		if k.Prefix[i] > 0 {
			p += fmt.Sprintf("(%d)", k.Prefix[i])
		}
		parts = append(parts, p)
	}
	u := ""
	if k.Unique {
		u = "unique "
	}
	s := fmt.Sprintf("%skey %s (%s)", u, qid(k.Name), strings.Join(parts, ","))
	if k.Comment != "" {
		s += " comment " + sqlStr(k.Comment)
	}
	return s
}

func (k *keySpec) line() string {
	var parts []string
	for i, cn := range k.Cols {
		p := qid(cn)
		if k.Prefix[i] > 0 {
			p += fmt.Sprintf("(%d)", k.Prefix[i])
		}
		parts = append(parts, p)
	}
	u := ""
	if k.Unique {
		u = "UNIQUE "
	}
	s := fmt.Sprintf("%sKEY %s (%s)", u, qid(k.Name), strings.Join(parts, ","))
	if k.Comment != "" {
		s += " COMMENT " + sqlStr(k.Comment)
	}
	return s
}

func (ck *checkSpec) ddl() string {
	s := fmt.Sprintf("constraint %s check (%s > %d)", qid(ck.Name), qid(ck.Col), ck.N)
	if !ck.Enforced {
		s += " not enforced"
	}
	return s
}

func (ck *checkSpec) line() string {
	s := fmt.Sprintf("CONSTRAINT %s CHECK ((%s > %d))", qid(ck.Name), qid(ck.Col), ck.N)
	if !ck.Enforced {
		s += " /*!80016 NOT ENFORCED */"
	}
	return s
}

func (t *tableSpec) col(name string) *colSpec {
	for _, c := range t.Cols {
		if c.Name == name {
			return c
		}
	}
	return nil
}

func (t *tableSpec) genKey(r *rand.Rand, name string) *keySpec {
	var cand []*colSpec
	for _, c := range t.Cols {
		if c.IdxKind != "" {
			cand = append(cand, c)
		}
	}
	if len(cand) == 0 {
		return nil
	}
	k := &keySpec{Name: name, Unique: r.Intn(4) == 0}
	n := 1 + r.Intn(2)
	for _, i := range r.Perm(len(cand)) {
		c := cand[i]
		p := 0
		if c.IdxKind == "prefix" {
			p = 1 + r.Intn(3)
		}
		if k.Unique && c.Family == "blob" {
			continue
		}
		k.Cols = append(k.Cols, c.Name)
		k.Prefix = append(k.Prefix, p)
		if len(k.Cols) == n {
			break
		}
	}
	if len(k.Cols) == 0 {
		return nil
	}
	if r.Intn(4) == 0 {
		k.Comment = pick(r, "idx comment", "second, comment") // a quote in an index comment is printed unescaped by SHOW CREATE TABLE (display only)
	}
	return k
}

func genTable(r *rand.Rand, name string) *tableSpec {
	t := &tableSpec{Name: name}
	ncols := 3 + r.Intn(8)
	npk := []int{0, 1, 1, 1, 2}[r.Intn(5)]
	for i := 0; i < ncols; i++ {
		cn := fmt.Sprintf("c%d", i)
		if r.Intn(6) == 0 {
			cn = pick(r, "Mixed", "with space", "select", "ü") + fmt.Sprint(i)
		}
		c := genCol(r, cn, i < npk)
		t.Cols = append(t.Cols, c)
		if i < npk {
			t.PK = append(t.PK, cn)
		}
	}
	if npk == 2 && r.Intn(2) == 0 {
		t.PK[0], t.PK[1] = t.PK[1], t.PK[0]
	}
	// a stored generated column over a numeric column
	if r.Intn(4) == 0 {
		for _, c := range t.Cols {
			if c.Numeric && c.Family == "int" {
				c.InExpr = true
				g := &colSpec{Name: "gen", Family: "generated", IdxKind: "plain",
					DDL:  fmt.Sprintf("bigint generated always as (%s + 1) stored", qid(c.Name)),
					Line: fmt.Sprintf("bigint GENERATED ALWAYS AS ((%s + 1)) STORED", qid(c.Name))}
				t.Cols = append(t.Cols, g)
				break
			}
		}
	}
	for i, n := 0, r.Intn(4); i < n; i++ {
		if k := t.genKey(r, fmt.Sprintf("k%d", i)); k != nil {
			t.Keys = append(t.Keys, k)
		}
	}
	for i, n := 0, r.Intn(3); i < n; i++ {
		if ck := t.genCheck(r, fmt.Sprintf("ck%d", i)); ck != nil {
			t.Checks = append(t.Checks, ck)
		}
	}
	if r.Intn(3) == 0 {
		t.Collation = pick(r, c37collations...)
	}
	if r.Intn(4) == 0 {
		t.Comment = pick(r, "table comment", "it's a table")
	}
	return t
}

func (t *tableSpec) genCheck(r *rand.Rand, name string) *checkSpec {
	for _, i := range r.Perm(len(t.Cols)) {
		if c := t.Cols[i]; c.Numeric {
			c.InExpr = true
			return &checkSpec{Name: name, Col: c.Name, N: r.Intn(5) - 2, Enforced: r.Intn(3) != 0}
		}
	}
	return nil
}

func (t *tableSpec) createSQL() string {
	var parts []string
	for _, c := range t.Cols {
		parts = append(parts, qid(c.Name)+" "+c.DDL)
	}
	if len(t.PK) > 0 {
		var pk []string
		for _, p := range t.PK {
			pk = append(pk, qid(p))
		}
		parts = append(parts, "primary key ("+strings.Join(pk, ",")+")")
	}
	for _, k := range t.Keys {
		parts = append(parts, k.ddl())
	}
	for _, ck := range t.Checks {
		parts = append(parts, ck.ddl())
	}
	s := "create table " + qid(t.Name) + " (" + strings.Join(parts, ", ") + ")"
	if t.Comment != "" {
		s += " comment=" + sqlStr(t.Comment)
	}
	if t.Collation != "" {
		s += " collate=" + t.Collation
	}
	return s
}

// expectedLines: ordered column lines, then the unordered set of the other lines, then the closing line.
func (t *tableSpec) expectedLines() (cols []string, others []string, closing string) {
	// a column whose collation equals the table collation is printed without COLLATE
	tc := t.Collation
	if tc == "" {
		tc = "utf8mb4_0900_bin"
	}
	for _, c := range t.Cols {
		ln := c.Line
		ln = strings.Replace(ln, " COLLATE "+tc+" ", " ", 1)
		if strings.HasSuffix(ln, " COLLATE "+tc) {
			ln = strings.TrimSuffix(ln, " COLLATE "+tc)
		}
		cols = append(cols, qid(c.Name)+" "+ln)
	}
	if len(t.PK) > 0 {
		var pk []string
		for _, p := range t.PK {
			pk = append(pk, qid(p))
		}
		others = append(others, "PRIMARY KEY ("+strings.Join(pk, ",")+")")
	}
	for _, k := range t.Keys {
		others = append(others, k.line())
	}
	for _, ck := range t.Checks {
		others = append(others, ck.line())
	}
	closing = ") ENGINE=InnoDB DEFAULT CHARSET=utf8mb4 COLLATE=" + tc
	if t.Comment != "" {
		closing += " COMMENT=" + sqlStr(t.Comment)
	}
	return
}

// compareShowCreate checks SHOW CREATE TABLE text against the specification. Returns a description of the first
// difference ("" = faithful).
func (t *tableSpec) compareShowCreate(text string) string {
	lines := strings.Split(text, "\n")
	if len(lines) < 3 {
		return "unexpected shape"
	}
	if lines[0] != "CREATE TABLE "+qid(t.Name)+" (" {
		return "first line: " + lines[0]
	}
	wantCols, wantOthers, closing := t.expectedLines()
	body := lines[1 : len(lines)-1]
	for i := range body {
		body[i] = strings.TrimSuffix(strings.TrimPrefix(body[i], "  "), ",")
	}
	if len(body) < len(wantCols) {
		return fmt.Sprintf("%d body lines for %d columns", len(body), len(wantCols))
	}
	for i, w := range wantCols {
		if body[i] != w {
			return fmt.Sprintf("column line %d: got %q, specification implies %q", i, body[i], w)
		}
	}
	got := sortedCopy(body[len(wantCols):])
	want := sortedCopy(wantOthers)
	if !eqStrings(got, want) {
		a, b := multisetDiff(got, want, 4)
		return fmt.Sprintf("key/constraint lines: only shown %q, only specified %q", a, b)
	}
	if lines[len(lines)-1] != closing {
		return fmt.Sprintf("closing line: got %q, specification implies %q", lines[len(lines)-1], closing)
	}
	return ""
}

// ---------------------------------------------------------------------------------------------------------
// Structural description of a schema.Schema (for the Serialize/Deserialize round trip through the Go API)
// ---------------------------------------------------------------------------------------------------------

func describeSchema(sch schema.Schema) []string {
	var out []string
	for i, c := range sch.GetAllCols().GetColumns() {
		var cons []string
		for _, k := range c.Constraints {
			cons = append(cons, k.String())
		}
		out = append(out, fmt.Sprintf("col[%d] name=%q tag=%d kind=%d pk=%v type=%s typeinfo=%s default=%q generated=%q onupdate=%q virtual=%v autoinc=%v comment=%q constraints=%v hidden=%v/%v",
			i, c.Name, c.Tag, c.Kind, c.IsPartOfPK, c.TypeInfo.ToSqlType().String(), c.TypeInfo.String(), c.Default, c.Generated, c.OnUpdate, c.Virtual, c.AutoIncrement, c.Comment, cons, c.Hidden, c.SystemHidden))
	}
	out = append(out, fmt.Sprintf("pk-ordinals=%v", sch.GetPkOrdinals()))
	var pkNames []string
	for _, c := range sch.GetPKCols().GetColumns() {
		pkNames = append(pkNames, c.Name)
	}
	out = append(out, fmt.Sprintf("pk-cols=%q", pkNames))
	var idx []string
	for _, ix := range sch.Indexes().AllIndexes() {
		idx = append(idx, fmt.Sprintf("index name=%q tags=%v all=%v cols=%q unique=%v spatial=%v fulltext=%v vector=%v user=%v comment=%q prefix=%v predicate=%q",
			ix.Name(), ix.IndexedColumnTags(), ix.AllTags(), ix.ColumnNames(), ix.IsUnique(), ix.IsSpatial(), ix.IsFullText(), ix.IsVector(), ix.IsUserDefined(), ix.Comment(), ix.PrefixLengths(), ix.Predicate()))
	}
	sort.Strings(idx)
	out = append(out, idx...)
	var cks []string
	for _, ck := range sch.Checks().AllChecks() {
		cks = append(cks, fmt.Sprintf("check name=%q expr=%q enforced=%v notvalid=%v", ck.Name(), ck.Expression(), ck.Enforced(), ck.IsNotValid()))
	}
	sort.Strings(cks)
	out = append(out, cks...)
	out = append(out, fmt.Sprintf("collation=%d comment=%q rowsize=%d", sch.GetCollation(), sch.GetComment(), sch.GetTargetRowSize()))
	return out
}

type c37stats struct {
	tables, roundTrips, showChecks, branchTrips, restarts, restartChecks, families int
	scripts, scriptSteps, stepFailures, targets, tagCompares, merges, clones       int
	collisions, stepsByKind                                                        int
	fam                                                                            map[string]int
	kinds                                                                          map[string]int
}

// goRoundTrip serialises and deserialises the stored schema of every table of a root and compares structurally.
func goRoundTrip(c *rig.Ctx, root doltdb.RootValue, label string, st *c37stats) map[string]schema.Schema {
	out := map[string]schema.Schema{}
	names, err := root.GetTableNames(bg, doltdb.DefaultSchemaName, false)
	rig.Must(err)
	for _, n := range names {
		tbl, ok, err := root.GetTable(bg, doltdb.TableName{Name: n})
		rig.Must(err)
		if !ok {
			continue
		}
		sch, err := tbl.GetSchema(bg)
		if err != nil {
			c.Violation("c37/load-schema", "stored schema cannot be loaded: "+err.Error(), map[string]any{"root": label, "table": n})
			continue
		}
		out[n] = sch
		msg, err := encoding.SerializeSchema(bg, tbl.ValueReadWriter(), sch)
		if err != nil {
			c.Violation("c37/serialize-error", err.Error(), map[string]any{"root": label, "table": n})
			continue
		}
		back, err := encoding.DeserializeSchema(bg, tbl.Format(), types.Value(msg))
		if err != nil {
			c.Violation("c37/deserialize-error", err.Error(), map[string]any{"root": label, "table": n})
			continue
		}
		a, b := describeSchema(sch), describeSchema(back)
		st.roundTrips++
		if !eqStrings(a, b) {
			x, y := multisetDiff(sortedCopy(a), sortedCopy(b), 5)
			c.Violation("c37/roundtrip/structural", "DeserializeSchema(SerializeSchema(s)) is not structurally equal to s", map[string]any{"root": label, "table": n, "only_before": x, "only_after": y})
		}
		if !schema.SchemasAreEqual(sch, back) {
			c.Violation("c37/roundtrip/SchemasAreEqual", "schema.SchemasAreEqual(s, roundtrip(s)) is false", map[string]any{"root": label, "table": n, "schema": a})
		}
	}
	return out
}

// ---- stage A: faithful storage ----

func c37faithful(c *rig.Ctx, box *srvBox, st *c37stats) {
	ndb := c.Pick(8, 150)
	perDB := c.Pick(10, 20)
	type live struct {
		db    string
		specs []*tableSpec
		shown map[string]string
	}
	var alive []*live
	verifyAll := func(x *sqlrig.Session, l *live, when string) {
		for _, t := range l.specs {
			text, err := showCreate(x, qid(l.db)+"."+qid(t.Name))
			if err != nil {
				c.Violation("c37/show-create-error", when+": "+err.Error(), map[string]any{"create": t.createSQL()})
				continue
			}
			if text != l.shown[t.Name] {
				c.Violation("c37/show-create-changed/"+when, "SHOW CREATE TABLE differs "+when, map[string]any{"create": t.createSQL(), "before": l.shown[t.Name], "after": text})
			}
		}
	}
	for d := 0; d < ndb && c.Violations() < 10; d++ {
		r := c.SubRand("c37/faithful", d)
		db := fmt.Sprintf("c37a_%d", d)
		x := box.srv.MustOpen("")
		rig.Must(execAll(x, "create database "+db, "use "+db))
		l := &live{db: db, shown: map[string]string{}}
		for i := 0; i < perDB; i++ {
			t := genTable(r, fmt.Sprintf("t%d", i))
			if r.Intn(8) == 0 {
				t.Name = pick(r, "Mixed Case", "tbl-dash", "select") + fmt.Sprint(i)
			}
			q := t.createSQL()
			c.Case("c37/create", map[string]any{"db": db, "sql": q})
			if err := x.Exec(q); err != nil {
				// a specification the server refuses is not a case (e.g. key too long); keep the count honest
				st.kinds["create-refused"]++
				c.Count("c37.create_refused."+classify(err.Error()), 1)
				continue
			}
			st.tables++
			for _, col := range t.Cols {
				st.fam[col.Family]++
			}
			text, err := showCreate(x, qid(t.Name))
			if err != nil {
				c.Violation("c37/show-create-error", err.Error(), map[string]any{"create": q})
				continue
			}
			st.showChecks++
			if why := t.compareShowCreate(text); why != "" {
				c.Violation("c37/faithful/"+classifyDiff(why), "table definition read back differs from what was created: "+why, map[string]any{"create": q, "show_create": text})
				continue
			}
			l.specs = append(l.specs, t)
			l.shown[t.Name] = text
			c.Distinct("faithful/" + q)
			if st.tables%25 == 1 {
				c.Sample(map[string]any{"kind": "faithful", "create": q})
			}
		}
		// commit -> other branch -> back
		rig.Must(execAll(x, "call dolt_commit('-Am', 'tables')", "call dolt_checkout('-b', 'elsewhere')"))
		if len(l.specs) > 0 {
			x.Exec("drop table " + qid(l.specs[0].Name))
			x.Exec("call dolt_commit('-Am', 'dropped one here')")
		}
		rig.Must(execAll(x, "call dolt_checkout('main')"))
		verifyAll(x, l, "after-commit-and-checkout-round-trip")
		st.branchTrips++
		// Go API round trip on the committed root
		ddb, err := box.srv.OpenDoltDB(db)
		rig.Must(err)
		roots, err := sqlrig.BranchRoots(ddb, "main")
		rig.Must(err)
		goRoundTrip(c, roots.Head, db+"/main", st)
		x.Close()
		alive = append(alive, l)
		if d%4 == 3 || d == ndb-1 {
			box.restart()
			st.restarts++
			y := box.srv.MustOpen("")
			for _, l := range alive {
				verifyAll(y, l, "after-server-restart")
				st.restartChecks += len(l.specs)
				y.Exec("drop database " + l.db)
			}
			y.Exec("call dolt_purge_dropped_databases()")
			y.Close()
			alive = nil
		}
	}
}

func classify(msg string) string {
	msg = strings.ToLower(msg)
	for _, k := range []string{"too long", "too big", "not supported", "invalid default", "syntax", "duplicate", "blob/text", "prefix", "collation", "incorrect"} {
		if strings.Contains(msg, k) {
			return strings.ReplaceAll(k, " ", "_")
		}
	}
	return "other"
}

func classifyDiff(why string) string {
	switch {
	case strings.HasPrefix(why, "column line"):
		return "column"
	case strings.HasPrefix(why, "key/constraint"):
		return "keys-constraints"
	case strings.HasPrefix(why, "closing"):
		return "table-options"
	}
	return "shape"
}

// ---- stage B: deterministic tags ----

type ddlStep struct {
	Kind string
	SQL  string
}

// genScript produces CREATE TABLE + 1..6 ALTER steps over it; steps may legally fail (then they fail on every target).
func genScript(r *rand.Rand, tname string) (*tableSpec, []ddlStep) {
	t := genTable(r, tname)
	steps := []ddlStep{{"create", t.createSQL()}}
	n := 1 + r.Intn(6)
	seq := 0
	for i := 0; i < n; i++ {
		seq++
		switch r.Intn(9) {
		case 0, 1, 2:
			cn := fmt.Sprintf("n%d", seq)
			col := genCol(r, cn, false)
			pos := ""
			switch r.Intn(3) {
			case 0:
				pos = " first"
			case 1:
				pos = " after " + qid(t.Cols[r.Intn(len(t.Cols))].Name)
			}
			t.Cols = append(t.Cols, col)
			steps = append(steps, ddlStep{"add-column", "alter table " + qid(t.Name) + " add column " + qid(cn) + " " + col.DDL + pos})
		case 3:
			k := r.Intn(len(t.Cols))
			c := t.Cols[k]
			if c.InExpr { // MySQL rejects dropping a column a generated column / check depends on (dolt accepts it and leaves a dangling expression)
				continue
			}
			steps = append(steps, ddlStep{"drop-column", "alter table " + qid(t.Name) + " drop column " + qid(c.Name)})
			if len(t.Cols) > 1 {
				t.Cols = append(append([]*colSpec(nil), t.Cols[:k]...), t.Cols[k+1:]...)
			}
		case 4:
			c := t.Cols[r.Intn(len(t.Cols))]
			if c.InExpr {
				continue
			}
			nn := fmt.Sprintf("r%d", seq)
			steps = append(steps, ddlStep{"rename-column", "alter table " + qid(t.Name) + " rename column " + qid(c.Name) + " to " + qid(nn)})
			c.Name = nn
		case 5:
			k := r.Intn(len(t.Cols))
			c := t.Cols[k]
			if c.InExpr {
				continue
			}
			nc := genCol(r, c.Name, false)
			steps = append(steps, ddlStep{"modify-column", "alter table " + qid(t.Name) + " modify column " + qid(c.Name) + " " + nc.DDL})
			t.Cols[k] = nc
		case 6:
			if k := t.genKey(r, fmt.Sprintf("x%d", seq)); k != nil {
				steps = append(steps, ddlStep{"add-index", "alter table " + qid(t.Name) + " add " + k.ddl()})
			}
		case 7:
			if ck := t.genCheck(r, fmt.Sprintf("xc%d", seq)); ck != nil {
				steps = append(steps, ddlStep{"add-check", "alter table " + qid(t.Name) + " add " + ck.ddl()})
			}
		default:
			nn := fmt.Sprintf("%s_r%d", tname, seq)
			steps = append(steps, ddlStep{"rename-table", "rename table " + qid(t.Name) + " to " + qid(nn)})
			t.Name = nn
		}
	}
	return t, steps
}

type tagView struct {
	tags   map[string]string // table -> "col=tag,..." in column order
	hashes map[string]string // table -> dolt_hashof_table
	shows  map[string]string
	outcome []string          // per step: "ok" | error class
}

func c37determinism(c *rig.Ctx, box *srvBox, st *c37stats) {
	n := c.Pick(24, 800)
	for i := 0; i < n && c.Violations() < 10; i++ {
		r := c.SubRand("c37/tags", i)
		db := fmt.Sprintf("c37b_%d", i)
		x := box.srv.MustOpen("")
		rig.Must(execAll(x, "create database "+db, "use "+db))
		// base: several similarly named tables (tag space is shared by the whole root)
		nbase := 2 + r.Intn(5)
		for b := 0; b < nbase; b++ {
			bt := genTable(r, fmt.Sprintf("base%d", b))
			x.Exec(bt.createSQL())
		}
		rig.Must(execAll(x, "call dolt_commit('--allow-empty', '-Am', 'base')"))
		nbr := 2 + r.Intn(2)
		var targets []string
		for b := 0; b < nbr; b++ {
			rig.Must(execAll(x, fmt.Sprintf("call dolt_branch('b%d')", b)))
			targets = append(targets, fmt.Sprintf("b%d", b))
		}
		cloneName := db + "_clone"
		if _, err := x.Query(fmt.Sprintf("call dolt_clone('file://%s/data/%s/.dolt/noms', '%s')", box.dir, db, cloneName)); err != nil {
			c.Violation("c37/clone-error", err.Error(), nil)
			x.Close()
			continue
		}
		st.clones++
		// the scripts: 1-2 tables
		var all []ddlStep
		ntab := 1 + r.Intn(2)
		for k := 0; k < ntab; k++ {
			_, steps := genScript(r, fmt.Sprintf("s%d", k))
			all = append(all, steps...)
		}
		commitAt := r.Intn(len(all) + 1)
		c.Case("c37/tags", map[string]any{"db": db, "steps": all, "commit_after": commitAt, "branches": targets})
		st.scripts++
		st.scriptSteps += len(all)
		for _, s := range all {
			st.kinds[s.Kind]++
		}
		runOn := func(dbName, branch string) *tagView {
			v := &tagView{tags: map[string]string{}, hashes: map[string]string{}, shows: map[string]string{}}
			rig.Must(execAll(x, "use "+qid(dbName), "call dolt_checkout("+lit(branch)+")"))
			for k, s := range all {
				if k == commitAt {
					x.Exec("call dolt_commit('-Am', 'mid')")
				}
				if err := x.Exec(s.SQL); err != nil {
					v.outcome = append(v.outcome, "error: "+firstLine(err.Error()))
				} else {
					v.outcome = append(v.outcome, "ok")
				}
			}
			x.Exec("call dolt_commit('-Am', 'done')")
			ddb, err := box.srv.OpenDoltDB(dbName)
			rig.Must(err)
			roots, err := sqlrig.BranchRoots(ddb, branch)
			rig.Must(err)
			schemas := goRoundTrip(c, roots.Head, dbName+"/"+branch, st)
			for name, sch := range schemas {
				var parts []string
				for _, col := range sch.GetAllCols().GetColumns() {
					parts = append(parts, fmt.Sprintf("%s=%d", col.Name, col.Tag))
					st.collisions++ // (re-used field) number of column tags compared
				}
				v.tags[name] = strings.Join(parts, ",")
				if h, err := x.Scalar("select dolt_hashof_table(" + lit(name) + ")"); err == nil {
					v.hashes[name] = h
				} else {
					v.hashes[name] = "ERROR " + err.Error()
				}
				if txt, err := showCreate(x, qid(name)); err == nil {
					v.shows[name] = txt
				}
			}
			st.targets++
			return v
		}
		var views []*tagView
		var labels []string
		for _, b := range targets {
			views = append(views, runOn(db, b))
			labels = append(labels, db+"/"+b)
		}
		views = append(views, runOn(cloneName, "main"))
		labels = append(labels, cloneName+"/main")
		ref := views[0]
		for _, o := range ref.outcome {
			if o != "ok" {
				st.stepFailures++
			}
		}
		for k := 1; k < len(views); k++ {
			v := views[k]
			w := map[string]any{"steps": all, "commit_after": commitAt, "a": labels[0], "b": labels[k], "outcomes_a": ref.outcome, "outcomes_b": v.outcome}
			if !eqStrings(ref.outcome, v.outcome) {
				c.Violation("c37/determinism/step-outcome", "the same DDL sequence succeeded on one history and failed on the other", w)
				continue
			}
			st.tagCompares++
			for name, tg := range ref.tags {
				if v.tags[name] != tg {
					w["table"], w["tags_a"], w["tags_b"] = name, tg, v.tags[name]
					c.Violation("c37/determinism/tags", "the same CREATE/ALTER sequence produced different column tags", w)
				} else if v.hashes[name] != ref.hashes[name] {
					w["table"], w["hash_a"], w["hash_b"], w["show_a"], w["show_b"] = name, ref.hashes[name], v.hashes[name], ref.shows[name], v.shows[name]
					c.Violation("c37/determinism/table-hash", "same tags but different dolt_hashof_table after the same DDL sequence", w)
				}
			}
			if len(v.tags) != len(ref.tags) {
				c.Violation("c37/determinism/tables", "different sets of tables after the same DDL sequence", w)
			}
		}
		// merging the branches must not report a schema conflict
		rig.Must(execAll(x, "use "+qid(db), "call dolt_checkout('b0')", "set @@dolt_force_transaction_commit = 1"))
		for k := 1; k < len(targets); k++ {
			res, err := x.Query("call dolt_merge(" + lit(targets[k]) + ")")
			w := map[string]any{"steps": all, "commit_after": commitAt, "into": "b0", "from": targets[k]}
			if err != nil {
				c.Violation("c37/merge/error", "dolt_merge of two branches that ran the same DDL failed: "+firstLine(err.Error()), w)
				x.Exec("call dolt_merge('--abort')")
				continue
			}
			st.merges++
			if len(res.Data) == 1 && len(res.Data[0]) > 2 && res.Data[0][2] != "0" {
				sc, _ := x.Query("select table_name, description from dolt_schema_conflicts")
				w["schema_conflicts"] = sc
				c.Violation("c37/merge/conflicts", "dolt_merge of two branches that ran the same DDL reports conflicts", w)
				x.Exec("call dolt_merge('--abort')")
				continue
			}
			if n, err := x.Scalar("select count(*) from dolt_schema_conflicts"); err == nil && n != "0" {
				c.Violation("c37/merge/schema-conflict", "dolt_schema_conflicts is not empty after merging branches that ran the same DDL", w)
			}
			x.Exec("call dolt_commit('-Am', 'merged')")
		}
		x.Exec("set @@dolt_force_transaction_commit = 0")
		c.Distinct(fmt.Sprintf("tags/%v", all))
		if i%10 == 0 {
			c.Sample(map[string]any{"kind": "determinism", "steps": all, "targets": labels, "outcomes": ref.outcome, "tags": ref.tags})
		}
		rig.Must(execAll(x, "use mysql"))
		x.Exec("drop database " + qid(db))
		x.Exec("drop database " + qid(cloneName))
		if i%10 == 9 {
			x.Exec("call dolt_purge_dropped_databases()")
		}
		x.Close()
	}
}

func c37(c *rig.Ctx) {
	c.Rule("stage A: generated tables of 3-11 columns over 14 type families (integers, floats, decimals with random precision/scale, bit, " +
		"char/varchar with collations and charsets, binary, text, blob, date/time/year, datetime/timestamp with precision and " +
		"CURRENT_TIMESTAMP defaults / ON UPDATE, enum/set with shuffled value order, json, spatial with SRID, expression defaults, stored " +
		"generated columns), NOT NULL, literal defaults, comments with quotes/unicode, 0-2 column primary keys in either order, plain/" +
		"unique/prefix/multi-column keys with comments, enforced and unenforced checks, table collation and comment. Every table's SHOW " +
		"CREATE TABLE is compared line by line with the lines the specification implies, must be byte-identical after commit + checkout " +
		"of another branch and back, and after a server restart; every stored schema is round-tripped through encoding.SerializeSchema / " +
		"DeserializeSchema and compared structurally. stage B: CREATE TABLE + 1-6 ALTERs (add/drop/rename/modify column, add index/" +
		"check, rename table) with a commit at a random position, replayed on 2-3 branches created before the DDL and on a dolt_clone; " +
		"column tags (Go API), dolt_hashof_table and step outcomes must be identical and dolt_merge of the branches must be conflict-" +
		"free. stage C: the same final CREATE TABLE (+ ALTER TABLE ADD COLUMN) reached fresh, after a committed DROP of an " +
		"earlier shape, after DROP + CREATE in one working set, and inside one BEGIN..COMMIT (old = prefix + dropped columns, final = " +
		"prefix + new columns of random kinds): the tags of the NEW columns and of the added column must equal the fresh route's, and " +
		"merging the fresh branch with each route must work. Distinct = distinct CREATE statement / distinct script / distinct shape pair")
	c.Assume("column tags are not visible in SQL in this version (no dolt_column_tags table): they are read through doltdb.Table.GetSchema")
	c.Assume("stage C: surviving columns may legitimately re-use their HEAD tags (only counted); a new column whose fresh tag is occupied by a dropped HEAD column is skipped; a new column placed BEFORE surviving columns is a diagnostic, not asserted")
	c.Assume("a specification the server refuses (e.g. key too long) is not a case; refusals are counted")
	box := startBox(c, "c37")
	defer func() { box.close() }()
	st := &c37stats{fam: map[string]int{}, kinds: map[string]int{}}
	c37faithful(c, box, st)
	if c.Violations() < 10 {
		c37determinism(c, box, st)
	}
	rs := &c37routeStats{}
	if c.Violations() < 10 {
		c37routes(c, box, rs)
		c.Require(rs.newColsCompared > 0 && rs.alterColsCompared > 0 && rs.merges > 0, "history-route stage compared no new-column tags / ran no merge")
	}
	c.Count("c37.tables_created", st.tables)
	c.Count("c37.show_create_vs_spec", st.showChecks)
	c.Count("c37.go_roundtrips", st.roundTrips)
	c.Count("c37.commit_checkout_roundtrips", st.branchTrips)
	c.Count("c37.server_restarts", st.restarts)
	c.Count("c37.tables_compared_after_restart", st.restartChecks)
	c.Count("c37.ddl_scripts", st.scripts)
	c.Count("c37.ddl_steps", st.scriptSteps)
	c.Count("c37.script_targets", st.targets)
	c.Count("c37.clones", st.clones)
	c.Count("c37.tag_comparisons", st.tagCompares)
	c.Count("c37.merges_of_identical_ddl", st.merges)
	c.Count("c37.column_tags_read", st.collisions)
	c.Count("c37.ddl_steps_that_failed_identically_everywhere", st.stepFailures)
	for k, v := range st.fam {
		c.Count("c37.family."+k, v)
	}
	for k, v := range st.kinds {
		c.Count("c37.step."+k, v)
	}
	c.Require(st.tables > 20 && st.restartChecks > 0 && st.roundTrips > 0, "too few tables survived creation")
	c.Require(st.tagCompares > 0 && st.merges > 0 && st.clones > 0, "tag determinism stage did not run")
	for _, f := range []string{"int", "decimal", "char", "text", "datetime", "enum", "json", "generated"} {
		c.Require(st.fam[f] > 0, "type family "+f+" never created")
	}
}
