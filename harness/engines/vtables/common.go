// Package vtables holds the SQL-level monitors about tables and databases: C25 (secondary indexes mirror their
// table), C27 (keyless tables are multisets), C37 (schema serialisation / deterministic column tags), C46
// (dolt_ignore, dolt_add, dolt_clean) and C47 (drop / undrop / purge of databases). Every monitor drives one real
// in-process sql-server over the wire and, where the property is about stored structures, reads those structures
// through the public Go API of the very same process.
package vtables

import (
	"context"
	"fmt"
	"os"
	"regexp"
	"sort"
	"strconv"
	"strings"

	"verif/rig"
	"verif/sqlrig"
)

var bg = context.Background()

// srvBox owns the single in-process server of a worker (GMS system variables are process-global).
type srvBox struct {
	c   *rig.Ctx
	dir string
	srv *sqlrig.Server
}

func startBox(c *rig.Ctx, label string) *srvBox {
	dir := c.TempDir(label)
	srv, err := sqlrig.Start(dir + "/data")
	rig.Must(err)
	return &srvBox{c: c, dir: dir, srv: srv}
}

// restart stops the server and starts a new one on the same data directory.
func (b *srvBox) restart() {
	rig.Must(b.srv.Stop())
	srv, err := sqlrig.Start(b.dir + "/data")
	rig.Must(err)
	b.srv = srv
}

func (b *srvBox) close() {
	b.srv.Stop()
	os.RemoveAll(b.dir)
}

func execAll(x *sqlrig.Session, stmts ...string) error {
	for _, s := range stmts {
		if err := x.Exec(s); err != nil {
			return fmt.Errorf("%s: %w", s, err)
		}
	}
	return nil
}

// callProc runs a CALL and drains its result set.
func callProc(x *sqlrig.Session, q string, args ...any) (*sqlrig.Rows, error) { return x.Query(q, args...) }

func lit(v string) string { return sqlrig.SQLLit(v) }

func qid(s string) string { return "`" + strings.ReplaceAll(s, "`", "``") + "`" }

// ---- SHOW CREATE TABLE parsing (the index *definition* the oracles work from) ----

type idxDef struct {
	Name    string
	Unique  bool
	Special bool // FULLTEXT / SPATIAL / VECTOR: not modelled
	Cols    []string
	Prefix  []int // 0 = whole column
}

type tableDef struct {
	Name    string
	Cols    []string
	ColType map[string]string // rest of the column line, e.g. "varchar(16) COLLATE utf8mb4_general_ci NOT NULL"
	PK      []string
	Idx     []idxDef
	Text    string
}

var (
	reColLine = regexp.MustCompile("^\\s*`((?:[^`]|``)+)` (.*?),?$")
	reKeyLine = regexp.MustCompile("^\\s*(UNIQUE |FULLTEXT |SPATIAL |VECTOR )?KEY `((?:[^`]|``)+)` \\((.*)\\)")
	rePKLine  = regexp.MustCompile("^\\s*PRIMARY KEY \\((.*)\\)")
	reKeyCol  = regexp.MustCompile("`((?:[^`]|``)+)`(?:\\((\\d+)\\))?")
)

func parseCreate(text string) *tableDef {
	d := &tableDef{ColType: map[string]string{}, Text: text}
	for i, ln := range strings.Split(text, "\n") {
		if i == 0 {
			if m := regexp.MustCompile("^CREATE TABLE `((?:[^`]|``)+)`").FindStringSubmatch(ln); m != nil {
				d.Name = m[1]
			}
			continue
		}
		if m := rePKLine.FindStringSubmatch(ln); m != nil {
			for _, k := range reKeyCol.FindAllStringSubmatch(m[1], -1) {
				d.PK = append(d.PK, k[1])
			}
			continue
		}
		if m := reKeyLine.FindStringSubmatch(ln); m != nil {
			ix := idxDef{Name: m[2], Unique: m[1] == "UNIQUE ", Special: m[1] != "" && m[1] != "UNIQUE "}
			for _, k := range reKeyCol.FindAllStringSubmatch(m[3], -1) {
				ix.Cols = append(ix.Cols, k[1])
				n := 0
				if k[2] != "" {
					n, _ = strconv.Atoi(k[2])
				}
				ix.Prefix = append(ix.Prefix, n)
			}
			d.Idx = append(d.Idx, ix)
			continue
		}
		if m := reColLine.FindStringSubmatch(ln); m != nil {
			d.Cols = append(d.Cols, m[1])
			d.ColType[m[1]] = m[2]
		}
	}
	return d
}

func (d *tableDef) hasCol(n string) bool { _, ok := d.ColType[n]; return ok }

func (d *tableDef) index(name string) *idxDef {
	for i := range d.Idx {
		if d.Idx[i].Name == name {
			return &d.Idx[i]
		}
	}
	return nil
}

// showCreate returns the SHOW CREATE TABLE text of a (possibly revision-qualified) table.
func showCreate(x *sqlrig.Session, qualified string) (string, error) {
	r, err := x.Query("show create table " + qualified)
	if err != nil {
		return "", err
	}
	if len(r.Data) != 1 || len(r.Data[0]) < 2 {
		return "", fmt.Errorf("show create table %s: unexpected shape", qualified)
	}
	return r.Data[0][1], nil
}

// baseTables lists the base tables of a database / revision database ("" = current).
func baseTables(x *sqlrig.Session, from string) ([]string, error) {
	q := "show full tables"
	if from != "" {
		q += " from " + from
	}
	r, err := x.Query(q)
	if err != nil {
		return nil, err
	}
	var out []string
	for _, row := range r.Data {
		if len(row) > 1 && row[1] != "BASE TABLE" {
			continue
		}
		out = append(out, row[0])
	}
	sort.Strings(out)
	return out, nil
}

func sortedCopy(s []string) []string {
	o := append([]string(nil), s...)
	sort.Strings(o)
	return o
}

func eqStrings(a, b []string) bool {
	if len(a) != len(b) {
		return false
	}
	for i := range a {
		if a[i] != b[i] {
			return false
		}
	}
	return true
}

// multisetDiff returns up to max elements that are only in a / only in b (both sorted multisets).
func multisetDiff(a, b []string, max int) (onlyA, onlyB []string) {
	i, j := 0, 0
	for i < len(a) || j < len(b) {
		switch {
		case j >= len(b) || (i < len(a) && a[i] < b[j]):
			if len(onlyA) < max {
				onlyA = append(onlyA, a[i])
			}
			i++
		case i >= len(a) || b[j] < a[i]:
			if len(onlyB) < max {
				onlyB = append(onlyB, b[j])
			}
			j++
		default:
			i++
			j++
		}
	}
	return
}

func vis(s string) string { return strings.ReplaceAll(strings.ReplaceAll(s, "\x1f", "|"), sqlrig.Null, "NULL") }

func visAll(s []string) []string {
	o := make([]string, len(s))
	for i := range s {
		o[i] = vis(s[i])
	}
	return o
}

// Register wires the vtables checks.
func Register() {
	rig.Register(&rig.Spec{Prop: "C25", Level: "exploration", Stages: []rig.Stage{{Name: "index-mirror", Fn: c25}}})
	rig.Register(&rig.Spec{Prop: "C27", Level: "exploration", Stages: []rig.Stage{{Name: "keyless", Fn: c27}}})
	rig.Register(&rig.Spec{Prop: "C37", Level: "exploration", Stages: []rig.Stage{{Name: "schemas", Fn: c37}}})
	rig.Register(&rig.Spec{Prop: "C46", Level: "exploration", Stages: []rig.Stage{{Name: "ignore", Fn: c46}}})
	rig.Register(&rig.Spec{Prop: "C47", Level: "exploration", Stages: []rig.Stage{{Name: "undrop", Fn: c47}}})
}
