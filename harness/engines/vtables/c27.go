package vtables

import (
	"context"
	"fmt"
	"math/rand"
	"sort"
	"strconv"
	"strings"

	"verif/rig"
	"verif/sqlrig"
)

// ---- multiset model ----

type mset map[string]int // row (fields joined with \x1f) -> multiplicity (> 0)

func (m mset) clone() mset {
	o := mset{}
	for k, v := range m {
		o[k] = v
	}
	return o
}

func (m mset) add(row string, n int) {
	if n == 0 {
		return
	}
	m[row] += n
	if m[row] <= 0 {
		delete(m, row)
	}
}

func (m mset) total() int {
	t := 0
	for _, v := range m {
		t += v
	}
	return t
}

func (m mset) expand() []string {
	var out []string
	for k, v := range m {
		for i := 0; i < v; i++ {
			out = append(out, k)
		}
	}
	sort.Strings(out)
	return out
}

func (m mset) grouped() []string {
	var out []string
	for k, v := range m {
		out = append(out, k+"\x1f"+strconv.Itoa(v))
	}
	sort.Strings(out)
	return out
}

func (m mset) equal(o mset) bool {
	if len(m) != len(o) {
		return false
	}
	for k, v := range m {
		if o[k] != v {
			return false
		}
	}
	return true
}

func (m mset) vis() []string { return visAll(m.grouped()) }

type klTable struct {
	ncols   int
	colType []string // "int" | "str"
	idxCol  int      // -1: no secondary index
}

func (t *klTable) col(i int) string { return fmt.Sprintf("c%d", i) }

func (t *klTable) createSQL() string {
	var parts []string
	for i := 0; i < t.ncols; i++ {
		ty := "int"
		if t.colType[i] == "str" {
			ty = "varchar(6)"
		}
		parts = append(parts, t.col(i)+" "+ty)
	}
	if t.idxCol >= 0 {
		parts = append(parts, fmt.Sprintf("key ix (%s)", t.col(t.idxCol)))
	}
	return "create table t (" + strings.Join(parts, ", ") + ")"
}

func (t *klTable) allCols() string {
	var parts []string
	for i := 0; i < t.ncols; i++ {
		parts = append(parts, t.col(i))
	}
	return strings.Join(parts, ", ")
}

func (t *klTable) randVal(r *rand.Rand, i int) string {
	if r.Intn(6) == 0 {
		return sqlrig.Null
	}
	if t.colType[i] == "int" {
		return strconv.Itoa(r.Intn(3))
	}
	return []string{"x", "y", "z"}[r.Intn(3)]
}

func (t *klTable) litOf(i int, v string) string {
	if v == sqlrig.Null {
		return "NULL"
	}
	if t.colType[i] == "int" {
		return v
	}
	return lit(v)
}

func (t *klTable) randRow(r *rand.Rand) []string {
	row := make([]string, t.ncols)
	for i := range row {
		row[i] = t.randVal(r, i)
	}
	return row
}

func (t *klTable) rowLit(row []string) string {
	parts := make([]string, len(row))
	for i, v := range row {
		parts[i] = t.litOf(i, v)
	}
	return "(" + strings.Join(parts, ", ") + ")"
}

// cond is a WHERE condition together with its model predicate.
type klCond struct {
	sql   string
	match func(row []string) bool
}

func (t *klTable) randCond(r *rand.Rand, m mset) klCond {
	switch r.Intn(4) {
	case 0: // whole-row match (null-safe) on an existing or random row: identifies one distinct row
		var row []string
		if len(m) > 0 && r.Intn(5) != 0 {
			keys := make([]string, 0, len(m))
			for k := range m {
				keys = append(keys, k)
			}
			sort.Strings(keys)
			row = strings.Split(keys[r.Intn(len(keys))], "\x1f")
		} else {
			row = t.randRow(r)
		}
		var parts []string
		for i, v := range row {
			parts = append(parts, fmt.Sprintf("%s <=> %s", t.col(i), t.litOf(i, v)))
		}
		want := strings.Join(row, "\x1f")
		return klCond{strings.Join(parts, " and "), func(x []string) bool { return strings.Join(x, "\x1f") == want }}
	case 1:
		i := r.Intn(t.ncols)
		return klCond{t.col(i) + " is null", func(x []string) bool { return x[i] == sqlrig.Null }}
	default:
		i := r.Intn(t.ncols)
		v := t.randVal(r, i)
		if v == sqlrig.Null {
			v = map[string]string{"int": "1", "str": "x"}[t.colType[i]]
		}
		return klCond{t.col(i) + " = " + t.litOf(i, v), func(x []string) bool { return x[i] == v }}
	}
}

type c27stats struct {
	stmts, checks, limitDet, limitNondet, limitShort, doubling, equalised, nullRows, idxLookups, dupChecks int
	merges, conflictsDivergent, conflictsConvergent, oneSided, mergeRows                                  int
	kinds                                                                                                 map[string]int
}

// execAffected runs a statement and returns the affected-row count reported by the server.
func execAffected(x *sqlrig.Session, q string) (int64, error) {
	res, err := x.Conn.ExecContext(context.Background(), q)
	if err != nil {
		return 0, err
	}
	return res.RowsAffected()
}

func observe(x *sqlrig.Session, t *klTable) (mset, error) {
	r, err := x.Query("select " + t.allCols() + " from t")
	if err != nil {
		return nil, err
	}
	m := mset{}
	for _, row := range r.Data {
		m.add(strings.Join(row, "\x1f"), 1)
	}
	return m, nil
}

// klStep generates one DML statement, executes it, and advances the model. nondet=false restricts to statements
// with a unique outcome. Returns false when the check must stop (violation or infrastructure).
func klStep(c *rig.Ctx, x *sqlrig.Session, r *rand.Rand, t *klTable, m mset, allowNondet bool, st *c27stats, script *[]string) bool {
	var q string
	wantAffected := int64(-1)
	apply := func() {}
	nondet := false
	var before mset
	var feasible func(after mset) string // "" = feasible
	switch n := r.Intn(20); {
	case n < 6: // insert with duplicates
		k := 1 + r.Intn(4)
		var rows [][]string
		base := t.randRow(r)
		for i := 0; i < k; i++ {
			switch r.Intn(3) {
			case 0:
				rows = append(rows, base)
			default:
				rows = append(rows, t.randRow(r))
			}
		}
		var lits []string
		for _, row := range rows {
			lits = append(lits, t.rowLit(row))
		}
		q = "insert into t values " + strings.Join(lits, ", ")
		wantAffected = int64(k)
		apply = func() {
			for _, row := range rows {
				m.add(strings.Join(row, "\x1f"), 1)
				for _, v := range row {
					if v == sqlrig.Null {
						st.nullRows++
						break
					}
				}
			}
		}
		st.kinds["insert"]++
	case n < 9: // INSERT ... SELECT doubling
		cd := t.randCond(r, m)
		where := " where " + cd.sql
		if r.Intn(2) == 0 || m.total() > 60 {
			if m.total() > 60 {
				// keep the table small: double a subset only
			} else {
				where = ""
				cd.match = func([]string) bool { return true }
			}
		}
		q = "insert into t select * from t" + where
		add := 0
		snapshot := m.clone()
		for k, v := range snapshot {
			if cd.match(strings.Split(k, "\x1f")) {
				add += v
			}
		}
		wantAffected = int64(add)
		apply = func() {
			for k, v := range snapshot {
				if cd.match(strings.Split(k, "\x1f")) {
					m.add(k, v)
				}
			}
			if add > 0 {
				st.doubling++
			}
		}
		st.kinds["insert-select"]++
	case n < 14: // delete [limit]
		cd := t.randCond(r, m)
		matches, distinctMatched := 0, 0
		for k, v := range m {
			if cd.match(strings.Split(k, "\x1f")) {
				matches += v
				distinctMatched++
			}
		}
		q = "delete from t where " + cd.sql
		if r.Intn(2) == 0 {
			k := 1 + r.Intn(4)
			q += fmt.Sprintf(" limit %d", k)
			eff := k
			if matches < k {
				eff = matches
				st.limitShort++
			}
			wantAffected = int64(eff)
			if distinctMatched <= 1 || eff == matches {
				apply = func() {
					left := eff
					for key, v := range m.clone() {
						if cd.match(strings.Split(key, "\x1f")) {
							d := v
							if d > left {
								d = left
							}
							m.add(key, -d)
							left -= d
						}
					}
				}
				if eff > 0 {
					st.limitDet++
				}
			} else {
				if !allowNondet {
					return true // skip this statement in deterministic mode
				}
				nondet = true
				before = m.clone()
				feasible = func(after mset) string {
					removed := 0
					for key, v := range before {
						a := after[key]
						if cd.match(strings.Split(key, "\x1f")) {
							if a > v {
								return "a matching row gained copies: " + vis(key)
							}
							removed += v - a
						} else if a != v {
							return "a row that does not match the WHERE changed: " + vis(key)
						}
					}
					for key := range after {
						if _, ok := before[key]; !ok {
							return "a new row appeared: " + vis(key)
						}
					}
					if removed != eff {
						return fmt.Sprintf("%d copies removed, LIMIT implies exactly %d", removed, eff)
					}
					return ""
				}
				st.limitNondet++
			}
			st.kinds["delete-limit"]++
		} else {
			wantAffected = int64(matches)
			apply = func() {
				for key := range m.clone() {
					if cd.match(strings.Split(key, "\x1f")) {
						delete(m, key)
					}
				}
			}
			st.kinds["delete"]++
		}
	default: // update [limit]
		i := r.Intn(t.ncols)
		v := t.randVal(r, i)
		cd := t.randCond(r, m)
		// rows that already carry the new value are excluded, so "matched" = "changed"
		where := fmt.Sprintf("(%s) and not (%s <=> %s)", cd.sql, t.col(i), t.litOf(i, v))
		match := func(x []string) bool { return cd.match(x) && x[i] != v }
		matches, distinctMatched := 0, 0
		for k, n := range m {
			if match(strings.Split(k, "\x1f")) {
				matches += n
				distinctMatched++
			}
		}
		q = fmt.Sprintf("update t set %s = %s where %s", t.col(i), t.litOf(i, v), where)
		move := func(key string, n int) {
			f := strings.Split(key, "\x1f")
			f[i] = v
			nk := strings.Join(f, "\x1f")
			if m[nk] > 0 && nk != key {
				st.equalised++
			}
			m.add(key, -n)
			m.add(nk, n)
		}
		if r.Intn(3) == 0 {
			k := 1 + r.Intn(4)
			q += fmt.Sprintf(" limit %d", k)
			eff := k
			if matches < k {
				eff = matches
				st.limitShort++
			}
			if distinctMatched <= 1 || eff == matches {
				apply = func() {
					left := eff
					for key, n := range m.clone() {
						if match(strings.Split(key, "\x1f")) {
							d := n
							if d > left {
								d = left
							}
							move(key, d)
							left -= d
						}
					}
				}
				if eff > 0 {
					st.limitDet++
				}
			} else {
				if !allowNondet {
					return true
				}
				nondet = true
				before = m.clone()
				feasible = func(after mset) string {
					// every matched copy that moved must have arrived at its image; nothing else changes
					delta := map[string]int{}
					for key, n := range before {
						delta[key] -= n
					}
					for key, n := range after {
						delta[key] += n
					}
					moved := 0
					for key, n := range before {
						f := strings.Split(key, "\x1f")
						if !match(f) {
							continue
						}
						f[i] = v
						img := strings.Join(f, "\x1f")
						d := -delta[key] // copies that left this row (its image differs from it, and no other row maps onto a matching row)
						if d < 0 || d > n {
							return "a matching row gained copies or lost more than it had: " + vis(key)
						}
						delta[key] += d
						delta[img] -= d
						moved += d
					}
					for key, d := range delta {
						if d != 0 {
							return "copies are not accounted for by moving matched rows to their image: " + vis(key)
						}
					}
					if moved != eff {
						return fmt.Sprintf("%d copies updated, LIMIT implies exactly %d", moved, eff)
					}
					return ""
				}
				st.limitNondet++
			}
			st.kinds["update-limit"]++
		} else {
			apply = func() {
				for key, n := range m.clone() {
					if match(strings.Split(key, "\x1f")) {
						move(key, n)
					}
				}
			}
			st.kinds["update"]++
		}
	}
	*script = append(*script, q)
	c.Case("c27/stmt", map[string]any{"n": len(*script), "stmt": q})
	aff, err := execAffected(x, q)
	if err != nil {
		c.Violation("c27/dml/error", "statement on a keyless table failed: "+firstLine(err.Error()), map[string]any{"script": *script})
		return false
	}
	st.stmts++
	if wantAffected >= 0 && aff != wantAffected {
		c.Violation("c27/dml/affected-rows", fmt.Sprintf("server reports %d affected rows, the multiset model says %d", aff, wantAffected), map[string]any{"script": *script, "model_before": m.vis()})
		return false
	}
	if nondet {
		after, err := observe(x, t)
		if err != nil {
			c.Violation("c27/read/scan", err.Error(), map[string]any{"script": *script})
			return false
		}
		if why := feasible(after); why != "" {
			c.Violation("c27/dml/limit-many-rows", "LIMIT statement over several distinct rows produced an impossible state: "+why, map[string]any{"script": *script, "before": before.vis(), "after": after.vis()})
			return false
		}
		for k := range m {
			delete(m, k)
		}
		for k, v := range after {
			m[k] = v
		}
	} else {
		apply()
	}
	return klCompare(c, x, t, m, st, script, "")
}

// klCompare checks GROUP BY counts, the full scan, COUNT(*) and the secondary-index lookups against the model.
func klCompare(c *rig.Ctx, x *sqlrig.Session, t *klTable, m mset, st *c27stats, script *[]string, asOf string) bool {
	st.checks++
	w := func(extra map[string]any) map[string]any {
		extra["script"] = *script
		extra["create"] = t.createSQL()
		extra["model"] = m.vis()
		return extra
	}
	cols := t.allCols()
	g, err := x.Query("select " + cols + ", count(*) from t group by " + cols)
	if err != nil {
		c.Violation("c27/read/group-by", err.Error(), w(map[string]any{}))
		return false
	}
	if got, want := g.Sorted(), m.grouped(); !eqStrings(got, want) {
		a, b := multisetDiff(got, want, 6)
		c.Violation("c27/multiset/group-by", "GROUP BY all columns with COUNT(*) differs from the multiset model", w(map[string]any{"only_in_table": visAll(a), "only_in_model": visAll(b)}))
		return false
	}
	s, err := x.Query("select " + cols + " from t")
	if err != nil {
		c.Violation("c27/read/scan", err.Error(), w(map[string]any{}))
		return false
	}
	if got, want := s.Sorted(), m.expand(); !eqStrings(got, want) {
		a, b := multisetDiff(got, want, 6)
		c.Violation("c27/multiset/scan", "full scan differs from the multiset model", w(map[string]any{"only_in_table": visAll(a), "only_in_model": visAll(b)}))
		return false
	}
	if n, err := x.Scalar("select count(*) from t"); err != nil || n != strconv.Itoa(m.total()) {
		c.Violation("c27/multiset/count", fmt.Sprintf("COUNT(*) = %s (%v), model has %d rows", n, err, m.total()), w(map[string]any{}))
		return false
	}
	for _, v := range m {
		if v > 1 {
			st.dupChecks++
			break
		}
	}
	if t.idxCol >= 0 {
		i := t.idxCol
		vals := map[string]bool{sqlrig.Null: true}
		for k := range m {
			vals[strings.Split(k, "\x1f")[i]] = true
		}
		for v := range vals {
			where := t.col(i) + " = " + t.litOf(i, v)
			if v == sqlrig.Null {
				where = t.col(i) + " is null"
			}
			got, err := x.Query("select " + cols + " from t force index (ix) where " + where)
			if err != nil {
				c.Violation("c27/read/index-lookup", err.Error(), w(map[string]any{"where": where}))
				return false
			}
			var want []string
			for k, n := range m {
				if strings.Split(k, "\x1f")[i] == v {
					for j := 0; j < n; j++ {
						want = append(want, k)
					}
				}
			}
			sort.Strings(want)
			if g := got.Sorted(); !eqStrings(g, want) {
				a, b := multisetDiff(g, want, 6)
				c.Violation("c27/multiset/index-lookup", "lookup through the secondary index does not reflect the multiplicities", w(map[string]any{"where": where, "only_via_index": visAll(a), "only_in_model": visAll(b)}))
				return false
			}
			if n, err := x.Scalar("select count(*) from t force index (ix) where " + where); err != nil || n != strconv.Itoa(len(want)) {
				c.Violation("c27/multiset/index-count", fmt.Sprintf("COUNT(*) through the index = %s (%v), model %d", n, err, len(want)), w(map[string]any{"where": where}))
				return false
			}
			st.idxLookups++
		}
	}
	return true
}

func newKlTable(r *rand.Rand) *klTable {
	t := &klTable{ncols: 2 + r.Intn(3), idxCol: -1}
	for i := 0; i < t.ncols; i++ {
		t.colType = append(t.colType, []string{"int", "str"}[r.Intn(2)])
	}
	if r.Intn(3) != 0 {
		t.idxCol = r.Intn(t.ncols)
	}
	return t
}

func c27dmlProgram(c *rig.Ctx, box *srvBox, i int, st *c27stats) {
	r := c.SubRand("c27/dml", i)
	db := fmt.Sprintf("c27d_%d", i)
	x := box.srv.MustOpen("")
	defer x.Close()
	t := newKlTable(r)
	script := []string{t.createSQL()}
	c.Case("c27/dml/"+db, map[string]any{"create": t.createSQL()})
	rig.Must(execAll(x, "create database "+db, "use "+db, t.createSQL()))
	defer func() {
		x.Exec("use mysql")
		x.Exec("drop database " + db)
	}()
	m := mset{}
	n := 10 + r.Intn(14)
	for k := 0; k < n; k++ {
		if !klStep(c, x, r, t, m, true, st, &script) {
			return
		}
	}
	c.Distinct(fmt.Sprintf("dml/%s/%d/%d", t.createSQL(), len(script), len(m)))
	c.Sample(map[string]any{"kind": "dml", "script": head(script, 14), "final_model": m.vis()})
}

// ---- merges of independently edited copies ----

func c27mergeProgram(c *rig.Ctx, box *srvBox, i int, st *c27stats) {
	r := c.SubRand("c27/merge", i)
	db := fmt.Sprintf("c27m_%d", i)
	x := box.srv.MustOpen("")
	defer x.Close()
	t := newKlTable(r)
	script := []string{t.createSQL()}
	c.Case("c27/merge/"+db, map[string]any{"create": t.createSQL()})
	rig.Must(execAll(x, "create database "+db, "use "+db, t.createSQL()))
	defer func() {
		x.Exec("set autocommit = 1")
		x.Exec("use mysql")
		x.Exec("drop database " + db)
	}()
	base := mset{}
	for k, n := 0, 2+r.Intn(6); k < n; k++ {
		if !klStep(c, x, r, t, base, false, st, &script) {
			return
		}
	}
	vc := func(q string) bool {
		script = append(script, q)
		if _, err := x.Query(q); err != nil {
			if strings.Contains(err.Error(), "nothing to commit") {
				return false
			}
			c.Violation("c27/merge/setup", q+": "+firstLine(err.Error()), map[string]any{"script": script})
			return false
		}
		return true
	}
	if !vc("call dolt_commit('-Am', 'base')") || !vc("call dolt_branch('other')") {
		return
	}
	left := base.clone()
	for k, n := 0, 1+r.Intn(6); k < n; k++ {
		if !klStep(c, x, r, t, left, false, st, &script) {
			return
		}
	}
	if !vc("call dolt_commit('-Am', 'left')") || !vc("call dolt_checkout('other')") {
		return
	}
	right := base.clone()
	for k, n := 0, 1+r.Intn(6); k < n; k++ {
		if !klStep(c, x, r, t, right, false, st, &script) {
			return
		}
	}
	if !vc("call dolt_commit('-Am', 'right')") || !vc("call dolt_checkout('main')") {
		return
	}
	if left.equal(base) || right.equal(base) {
		return
	}
	dir := func(name, into, from string, ours, theirs mset) {
		if !vc("call dolt_checkout('"+into+"')") || !vc("set autocommit = 0") || !vc("start transaction") {
			return
		}
		defer func() {
			x.Exec("rollback")
			x.Exec("set autocommit = 1")
		}()
		script = append(script, "call dolt_merge('"+from+"')")
		if _, err := x.Query("call dolt_merge('" + from + "')"); err != nil {
			c.Violation("c27/merge/error/"+name, "dolt_merge of two edited copies of a keyless table failed: "+firstLine(err.Error()), map[string]any{"script": script})
			return
		}
		st.merges++
		got, err := observe(x, t)
		if err != nil {
			c.Violation("c27/read/scan", err.Error(), map[string]any{"script": script})
			return
		}
		// conflicts: row -> (base, ours, theirs) cardinalities
		type card struct{ b, o, t string }
		reported := map[string]card{}
		if n, _ := x.Scalar("select count(*) from dolt_conflicts where `table` = 't'"); n != "0" {
			var cols []string
			for _, p := range []string{"base_", "our_", "their_"} {
				for k := 0; k < t.ncols; k++ {
					cols = append(cols, p+t.col(k))
				}
			}
			cols = append(cols, "base_cardinality", "our_cardinality", "their_cardinality")
			cr, err := x.Query("select " + strings.Join(cols, ", ") + " from dolt_conflicts_t")
			if err != nil {
				c.Violation("c27/read/conflicts", err.Error(), map[string]any{"script": script})
				return
			}
			for _, row := range cr.Data {
				k := t.ncols
				cd := card{row[3*k], row[3*k+1], row[3*k+2]}
				var key string
				switch {
				case cd.b != "0" && cd.b != sqlrig.Null:
					key = strings.Join(row[0:k], "\x1f")
				case cd.o != "0" && cd.o != sqlrig.Null:
					key = strings.Join(row[k:2*k], "\x1f")
				default:
					key = strings.Join(row[2*k:3*k], "\x1f")
				}
				if _, dup := reported[key]; dup {
					c.Violation("c27/merge/conflict-duplicate/"+name, "the same row is reported in conflict twice: "+vis(key), map[string]any{"script": script})
				}
				reported[key] = cd
			}
		}
		keys := map[string]bool{}
		for _, ms := range []mset{base, ours, theirs} {
			for k := range ms {
				keys[k] = true
			}
		}
		w := func(key string) map[string]any {
			return map[string]any{"script": script, "create": t.createSQL(), "row": vis(key), "base": base[key], "ours": ours[key], "theirs": theirs[key], "merged": got[key],
				"base_multiset": base.vis(), "ours_multiset": ours.vis(), "theirs_multiset": theirs.vis(), "merged_multiset": got.vis()}
		}
		for key := range got {
			if !keys[key] {
				c.Violation("c27/merge/invented-row/"+name, "merged table holds a row that exists on neither side nor in the base: "+vis(key), w(key))
			}
		}
		for key := range keys {
			b, o, th := base[key], ours[key], theirs[key]
			cd, inConflict := reported[key]
			st.mergeRows++
			cardsOK := func() bool {
				num := func(s string) int {
					if s == sqlrig.Null {
						return 0
					}
					n, _ := strconv.Atoi(s)
					return n
				}
				return num(cd.b) == b && num(cd.o) == o && num(cd.t) == th
			}
			switch {
			case o == b || th == b: // at most one side changed this row
				want := b + (o - b) + (th - b)
				if o != b || th != b {
					st.oneSided++
				}
				if got[key] != want {
					c.Violation("c27/merge/multiplicity/"+name, fmt.Sprintf("row %s: base %d, ours %d, theirs %d => expected %d copies after the merge, found %d", vis(key), b, o, th, want, got[key]), w(key))
				}
				if inConflict {
					c.Violation("c27/merge/spurious-conflict/"+name, fmt.Sprintf("row %s reported in conflict although only one side changed its multiplicity (base %d, ours %d, theirs %d)", vis(key), b, o, th), w(key))
				}
			case o == th: // both sides made the identical change: the statement does not say; Dolt documents a conflict
				st.conflictsConvergent++
				if inConflict {
					if !cardsOK() {
						c.Violation("c27/merge/conflict-cardinalities/"+name, fmt.Sprintf("row %s: conflict reports cardinalities (%s,%s,%s), actual (base %d, ours %d, theirs %d)", vis(key), vis(cd.b), vis(cd.o), vis(cd.t), b, o, th), w(key))
					}
				} else if got[key] != o && got[key] != b+2*(o-b) {
					c.Violation("c27/merge/multiplicity/"+name, fmt.Sprintf("row %s changed identically on both sides (base %d -> %d), merged has %d copies and no conflict", vis(key), b, o, got[key]), w(key))
				}
			default: // both changed it differently: must be a conflict with the right cardinalities
				st.conflictsDivergent++
				if !inConflict {
					c.Violation("c27/merge/missing-conflict/"+name, fmt.Sprintf("row %s: both sides changed the multiplicity differently (base %d, ours %d, theirs %d) but no conflict is reported; merged has %d", vis(key), b, o, th, got[key]), w(key))
				} else if !cardsOK() {
					c.Violation("c27/merge/conflict-cardinalities/"+name, fmt.Sprintf("row %s: conflict reports cardinalities (%s,%s,%s), actual (base %d, ours %d, theirs %d)", vis(key), vis(cd.b), vis(cd.o), vis(cd.t), b, o, th), w(key))
				}
			}
		}
		for key := range reported {
			if !keys[key] {
				c.Violation("c27/merge/spurious-conflict/"+name, "conflict reported for a row that exists nowhere: "+vis(key), map[string]any{"script": script})
			}
		}
		// scans / counts / index lookups of the merged table must agree with each other
		klCompare(c, x, t, got, st, &script, "")
	}
	dir("ours=left", "main", "other", left, right)
	dir("ours=right", "other", "main", right, left)
	c.Distinct(fmt.Sprintf("merge/%s/%d/%d/%d", t.createSQL(), len(base), len(left), len(right)))
	c.Sample(map[string]any{"kind": "merge", "script": head(script, 20), "base": base.vis(), "left": left.vis(), "right": right.vis()})
}

func c27(c *rig.Ctx) {
	c.Rule("keyless tables of 2-4 nullable int/varchar columns over tiny value domains (heavy duplication), optional secondary index; " +
		"seeded DML: multi-row INSERT with repeats, INSERT..SELECT doubling, DELETE/UPDATE with and without LIMIT (UPDATEs exclude rows " +
		"already holding the new value), whole-row / column / IS NULL predicates. After every statement GROUP BY all columns + COUNT(*), " +
		"full scan, COUNT(*), forced-index lookups for every value and the server's affected-row count are compared with a multiset " +
		"model. LIMIT over several distinct rows: only feasibility (exactly min(k,matches) copies, only matching rows) is asserted and " +
		"the model is re-synchronised. Merge programs: base, two independently edited branches, dolt_merge in both directions inside a " +
		"rolled-back transaction, per-row multiplicity and dolt_conflicts_t cardinalities vs the multiplicity-delta model. Distinct = " +
		"new (schema, script length, #distinct rows) signature")
	c.Assume("a row changed identically on both sides: the statement is silent; Dolt reports a conflict (documented), which is accepted, as is either summed or single application when no conflict is reported")
	c.Assume("multiplicity of a conflicted row inside the table before resolution is not asserted")
	box := startBox(c, "c27")
	defer box.close()
	st := &c27stats{kinds: map[string]int{}}
	nd, nm := c.Pick(90, 2500), c.Pick(50, 1200)
	for i := 0; i < nd && c.Violations() < 10; i++ {
		c27dmlProgram(c, box, i, st)
	}
	for i := 0; i < nm && c.Violations() < 10; i++ {
		c27mergeProgram(c, box, i, st)
		if i%40 == 39 {
			x := box.srv.MustOpen("")
			x.Exec("call dolt_purge_dropped_databases()")
			x.Close()
		}
	}
	c.Count("c27.statements", st.stmts)
	c.Count("c27.state_comparisons", st.checks)
	c.Count("c27.comparisons_with_duplicates", st.dupChecks)
	c.Count("c27.limit_deterministic", st.limitDet)
	c.Count("c27.limit_over_several_rows", st.limitNondet)
	c.Count("c27.limit_larger_than_matches", st.limitShort)
	c.Count("c27.insert_select_doublings", st.doubling)
	c.Count("c27.updates_making_rows_equal", st.equalised)
	c.Count("c27.rows_with_null_inserted", st.nullRows)
	c.Count("c27.index_lookups", st.idxLookups)
	c.Count("c27.merges", st.merges)
	c.Count("c27.merge_rows_checked", st.mergeRows)
	c.Count("c27.merge_rows_one_side_changed", st.oneSided)
	c.Count("c27.merge_rows_divergent_conflict", st.conflictsDivergent)
	c.Count("c27.merge_rows_identical_change", st.conflictsConvergent)
	for k, v := range st.kinds {
		c.Count("c27.op."+k, v)
	}
	c.Require(st.limitDet > 0 && st.limitNondet > 0 && st.limitShort > 0, "LIMIT cases (deterministic / several rows / k > matches) not all exercised")
	c.Require(st.doubling > 0 && st.equalised > 0 && st.nullRows > 0 && st.idxLookups > 0, "doubling / equalising updates / NULL rows / index lookups not all exercised")
	c.Require(st.merges > 0 && st.conflictsDivergent > 0 && st.oneSided > 0, "no merge with one-sided changes and divergent conflicts")
}
