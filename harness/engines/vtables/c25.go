package vtables

import (
	"encoding/hex"
	"fmt"
	"io"
	"math/big"
	"math/rand"
	"os"
	"sort"
	"strconv"
	"strings"
	"unicode/utf8"

	"github.com/dolthub/go-mysql-server/sql"

	"github.com/dolthub/dolt/go/libraries/doltcore/doltdb"
	"github.com/dolthub/dolt/go/libraries/doltcore/doltdb/durable"
	"github.com/dolthub/dolt/go/libraries/doltcore/schema"
	"github.com/dolthub/dolt/go/store/prolly/tree"
	"github.com/dolthub/dolt/go/store/val"

	"verif/rig"
	"verif/sqlrig"
)

// ---------------------------------------------------------------------------------------------------------
// Reading stored structures through the Go API (durable.Index -> prolly map -> tuples decoded with the schema)
// ---------------------------------------------------------------------------------------------------------

var sqlCtx = sql.NewEmptyContext()

// renderField decodes field i of a tuple and renders it exactly like the wire protocol renders a value of the
// column's SQL type (so that it can be compared with what `SELECT` returned for the primary row).
func renderField(td *val.TupleDesc, i int, tup val.Tuple, ns tree.NodeStore, col schema.Column) (string, error) {
	v, err := tree.GetField(bg, td, i, tup, ns)
	if err != nil {
		return "", err
	}
	if v == nil {
		return sqlrig.Null, nil
	}
	v, err = sql.UnwrapAny(bg, v)
	if err != nil {
		return "", err
	}
	sv, err := col.TypeInfo.ToSqlType().SQL(sqlCtx, nil, v)
	if err != nil {
		return "", fmt.Errorf("render %s (%T): %w", col.Name, v, err)
	}
	if sv.IsNull() {
		return sqlrig.Null, nil
	}
	return sv.ToString(), nil
}

type goIndex struct {
	ColNames []string   // index columns followed by the primary-key columns not already in the index
	Entries  [][]string // one rendered field list per stored entry
	HashIDs  []string   // keyless tables: the row's hash id stored as last key field
}

func readGoIndex(tbl *doltdb.Table, sch schema.Schema, name string) (*goIndex, error) {
	ix := sch.Indexes().GetByName(name)
	if ix == nil {
		return nil, fmt.Errorf("index %s not in the stored schema", name)
	}
	di, err := tbl.GetIndexRowData(bg, name)
	if err != nil {
		return nil, fmt.Errorf("index %s has no stored map: %w", name, err)
	}
	m, err := durable.ProllyMapFromIndex(di)
	if err != nil {
		return nil, err
	}
	kd, ns := m.KeyDesc(), m.NodeStore()
	cols := ix.Schema().GetAllCols()
	out := &goIndex{}
	for i := 0; i < cols.Size(); i++ {
		out.ColNames = append(out.ColNames, cols.GetByIndex(i).Name)
	}
	keyless := schema.IsKeyless(sch)
	want := cols.Size()
	if keyless {
		want++
	}
	if kd.Count() != want {
		return nil, fmt.Errorf("index %s: key descriptor has %d fields, index definition implies %d", name, kd.Count(), want)
	}
	it, err := m.IterAll(bg)
	if err != nil {
		return nil, err
	}
	for {
		k, _, err := it.Next(bg)
		if err == io.EOF {
			break
		}
		if err != nil {
			return nil, err
		}
		e := make([]string, cols.Size())
		for i := 0; i < cols.Size(); i++ {
			if e[i], err = renderField(kd, i, k, ns, cols.GetByIndex(i)); err != nil {
				return nil, err
			}
		}
		out.Entries = append(out.Entries, e)
		if keyless {
			h, ok := kd.GetHash128(kd.Count()-1, k)
			if !ok {
				return nil, fmt.Errorf("index %s: entry without hash id", name)
			}
			out.HashIDs = append(out.HashIDs, hex.EncodeToString(h))
		}
	}
	if n, err := m.Count(); err == nil && n != len(out.Entries) {
		return nil, fmt.Errorf("index %s: Count()=%d but %d entries iterated", name, n, len(out.Entries))
	}
	return out, nil
}

type klRow struct {
	Card uint64
	Vals map[string]string
}

// readKeylessPrimary decodes the clustered map of a keyless table: hash id -> (cardinality, column values).
func readKeylessPrimary(tbl *doltdb.Table, sch schema.Schema) (map[string]klRow, error) {
	di, err := tbl.GetRowData(bg)
	if err != nil {
		return nil, err
	}
	m, err := durable.ProllyMapFromIndex(di)
	if err != nil {
		return nil, err
	}
	kd, vd, ns := m.KeyDesc(), m.ValDesc(), m.NodeStore()
	var cols []schema.Column
	for _, c := range sch.GetNonPKCols().GetColumns() {
		if !c.Virtual {
			cols = append(cols, c)
		}
	}
	if vd.Count() != len(cols)+1 {
		return nil, fmt.Errorf("keyless value descriptor has %d fields for %d columns", vd.Count(), len(cols))
	}
	out := map[string]klRow{}
	it, err := m.IterAll(bg)
	if err != nil {
		return nil, err
	}
	for {
		k, v, err := it.Next(bg)
		if err == io.EOF {
			break
		}
		if err != nil {
			return nil, err
		}
		h, ok := kd.GetHash128(0, k)
		if !ok {
			return nil, fmt.Errorf("keyless row without hash id")
		}
		row := klRow{Card: val.ReadKeylessCardinality(v), Vals: map[string]string{}}
		for i, c := range cols {
			if row.Vals[c.Name], err = renderField(vd, i+1, v, ns, c); err != nil {
				return nil, err
			}
		}
		out[hex.EncodeToString(h)] = row
	}
	return out, nil
}

// ---------------------------------------------------------------------------------------------------------
// The oracle: expected index entries derived from the primary rows' SQL values and the index definition
// ---------------------------------------------------------------------------------------------------------

type c25stats struct {
	roots, tables, indexes, entries, keylessEntries, trimmed, uniqueIdx, multiCol, prefixIdx int
	charsRule, sqlLookups, sqlRange, plansIndexed, plansNot, commits, staged               int
	nullEntries, dupKeyEntries                                                               int
	script                                                                                   *[]string // statements of the running program (witness)
	lastKind                                                                                 string    // kind of the statement executed last (part of violation keys: when the disagreement first shows)
	lostIn                                                                                   string    // kind of the statement during which the server dropped the connection (recovered panic), "" if none
}

// readKey makes the key of a failed read specific to its observable cause, so that listing one cause cannot mask others.
func (st *c25stats) readKey(base string, err error) string {
	e := err.Error()
	switch {
	case strings.Contains(e, "dangling ref"):
		if st.lostIn != "" {
			return base + "/dangling-ref/after-server-panic-in-" + st.lostIn
		}
		return base + "/dangling-ref/unclassified"
	case strings.Contains(e, "byte slice is length") || strings.Contains(e, "malformed tuple") || strings.Contains(e, "slice bounds out of range"):
		cause := "unclassified"
		if st.script != nil {
			for _, q := range *st.script {
				if strings.Contains(q, " add column ") && strings.HasSuffix(q, " first") { // succeeded (no error suffix)
					cause = "over-column-added-first"
				}
			}
		}
		return base + "/row-bytes-do-not-fit-schema/after-" + st.lastKind + "/" + cause
	}
	return base
}

// ws adds the statements of the running program to a witness.
func (st *c25stats) ws(extra map[string]any) map[string]any {
	if extra == nil {
		extra = map[string]any{}
	}
	if st != nil && st.script != nil {
		extra["script"] = append([]string(nil), (*st.script)...)
	}
	return extra
}

func trimPrefix(v string, n int, chars bool) string {
	if n == 0 || v == sqlrig.Null {
		return v
	}
	if !chars {
		if n > len(v) {
			n = len(v)
		}
		return v[:n]
	}
	i := 0
	for k := 0; k < n && i < len(v); k++ {
		_, sz := utf8.DecodeRuneInString(v[i:])
		i += sz
	}
	return v[:i]
}

func entryString(fields []string, nIdx int, names []string) string {
	parts := append([]string(nil), fields[:nIdx]...)
	var suffix []string
	for i := nIdx; i < len(fields); i++ {
		suffix = append(suffix, names[i]+"="+fields[i])
	}
	sort.Strings(suffix)
	return strings.Join(append(parts, suffix...), "\x1f")
}

// checkTable compares every secondary index of one table in one root with the entries derived from its rows.
// qual is the SQL qualifier of the root ("" for the session's working set, "`db/hash`." for a commit).
func checkTable(c *rig.Ctx, x *sqlrig.Session, root doltdb.RootValue, qual, asOf, tname, label string, deep bool, st *c25stats) {
	witness := func(extra map[string]any) map[string]any {
		if extra == nil {
			extra = map[string]any{}
		}
		extra["root"] = label
		extra["table"] = tname
		if st.script != nil {
			extra["script"] = append([]string(nil), (*st.script)...)
		}
		return extra
	}
	qt := qual + qid(tname)
	var text string
	var err error
	if asOf != "" {
		var r *sqlrig.Rows
		r, err = x.Query("show create table " + qt + " as of " + lit(asOf))
		if err == nil && len(r.Data) == 1 {
			text = r.Data[0][1]
		}
	} else {
		text, err = showCreate(x, qt)
	}
	if err != nil {
		c.Violation(st.readKey("c25/read/show-create", err), "cannot read table definition: "+err.Error(), witness(nil))
		return
	}
	def := parseCreate(text)
	sel := "select * from " + qt
	if asOf != "" {
		sel += " as of " + lit(asOf)
	}
	rows, err := x.Query(sel)
	if err != nil {
		c.Violation(st.readKey("c25/read/select", err), "cannot scan table: "+err.Error(), witness(map[string]any{"create": text}))
		return
	}
	colPos := map[string]int{}
	for i, n := range rows.Cols {
		colPos[n] = i
	}
	tbl, ok, err := root.GetTable(bg, doltdb.TableName{Name: tname})
	if err != nil || !ok {
		c.Violation("c25/read/go-table", fmt.Sprintf("table visible in SQL but not through the root value (ok=%v err=%v)", ok, err), witness(nil))
		return
	}
	sch, err := tbl.GetSchema(bg)
	rig.Must(err)
	st.tables++

	// the set of indexes: definition vs stored schema
	var defNames, schNames []string
	for _, ix := range def.Idx {
		defNames = append(defNames, strings.ToLower(ix.Name))
	}
	for _, ix := range sch.Indexes().AllIndexes() {
		schNames = append(schNames, strings.ToLower(ix.Name()))
	}
	sort.Strings(defNames)
	sort.Strings(schNames)
	if !eqStrings(defNames, schNames) {
		c.Violation("c25/index-set", fmt.Sprintf("indexes in SHOW CREATE TABLE %v differ from the stored schema's %v", defNames, schNames), witness(map[string]any{"create": text}))
	}

	keyless := len(def.PK) == 0
	var primary map[string]klRow
	if keyless {
		if !schema.IsKeyless(sch) {
			c.Violation("c25/keyless-mismatch", "SHOW CREATE TABLE has no primary key but the stored schema is keyed", witness(map[string]any{"create": text}))
			return
		}
		primary, err = readKeylessPrimary(tbl, sch)
		if err != nil {
			c.Violation("c25/read/keyless-primary", err.Error(), witness(nil))
			return
		}
		// the clustered map must be the multiset of rows SQL shows (needed because the hash ids come from it)
		var fromMap []string
		for _, r := range primary {
			parts := make([]string, len(rows.Cols))
			for i, n := range rows.Cols {
				parts[i] = r.Vals[n]
			}
			for k := uint64(0); k < r.Card; k++ {
				fromMap = append(fromMap, strings.Join(parts, "\x1f"))
			}
			if r.Card == 0 {
				c.Violation("c25/keyless-zero-cardinality", "stored keyless row with cardinality 0", witness(map[string]any{"row": r.Vals}))
			}
		}
		sort.Strings(fromMap)
		if got := rows.Sorted(); !eqStrings(got, fromMap) {
			a, b := multisetDiff(got, fromMap, 5)
			c.Violation("c25/keyless-primary-vs-scan", "keyless clustered map is not the multiset that SELECT * returns", witness(map[string]any{"only_in_scan": visAll(a), "only_in_map": visAll(b)}))
			return
		}
	}

	for _, ix := range def.Idx {
		if ix.Special {
			continue
		}
		ok := true
		for _, cn := range ix.Cols {
			if _, has := colPos[cn]; !has {
				ok = false // virtual / hidden column: not modelled
			}
		}
		if !ok {
			continue
		}
		gi, err := readGoIndex(tbl, sch, ix.Name)
		if err != nil {
			c.Violation("c25/read/index", err.Error(), witness(map[string]any{"index": ix.Name, "create": text}))
			continue
		}
		st.indexes++
		if ix.Unique {
			st.uniqueIdx++
		}
		if len(ix.Cols) > 1 {
			st.multiCol++
		}
		hasPrefix := false
		for _, p := range ix.Prefix {
			if p > 0 {
				hasPrefix = true
			}
		}
		if hasPrefix {
			st.prefixIdx++
		}
		// the stored column order must be the definition's
		if len(gi.ColNames) < len(ix.Cols) || !eqStrings(lowerAll(gi.ColNames[:len(ix.Cols)]), lowerAll(ix.Cols)) {
			c.Violation("c25/index-columns", fmt.Sprintf("index %s stores columns %v, definition says %v", ix.Name, gi.ColNames, ix.Cols), witness(map[string]any{"create": text}))
			continue
		}
		var actual []string
		for i, e := range gi.Entries {
			s := entryString(e, len(ix.Cols), gi.ColNames)
			if keyless {
				s += "\x1f#" + gi.HashIDs[i]
			}
			actual = append(actual, s)
		}
		sort.Strings(actual)
		expected := func(chars bool) ([]string, int, int) {
			var out []string
			trimmed, nulls := 0, 0
			add := func(get func(col string) string, suffixCols []string, hid string) {
				parts := make([]string, 0, len(ix.Cols)+len(suffixCols))
				for i, cn := range ix.Cols {
					v := get(cn)
					t := trimPrefix(v, ix.Prefix[i], chars)
					if t != v {
						trimmed++
					}
					if v == sqlrig.Null {
						nulls++
					}
					parts = append(parts, t)
				}
				var suffix []string
				for _, cn := range suffixCols {
					suffix = append(suffix, cn+"="+get(cn))
				}
				sort.Strings(suffix)
				s := strings.Join(append(parts, suffix...), "\x1f")
				if hid != "" {
					s += "\x1f#" + hid
				}
				out = append(out, s)
			}
			if keyless {
				for hid, r := range primary {
					r := r
					add(func(col string) string { return r.Vals[col] }, nil, hid) // one entry per distinct row
				}
			} else {
				var suffixCols []string
				for _, p := range gi.ColNames[len(ix.Cols):] {
					suffixCols = append(suffixCols, p)
				}
				// the suffix must be exactly the primary-key columns not in the index
				var wantSuffix []string
				for _, p := range def.PK {
					in := false
					for _, cn := range ix.Cols {
						if strings.EqualFold(cn, p) {
							in = true
						}
					}
					if !in {
						wantSuffix = append(wantSuffix, p)
					}
				}
				if !eqStrings(sortedCopy(lowerAll(suffixCols)), sortedCopy(lowerAll(wantSuffix))) {
					c.Violation("c25/index-pk-suffix", fmt.Sprintf("index %s carries key columns %v, primary key implies %v", ix.Name, suffixCols, wantSuffix), witness(map[string]any{"create": text}))
				}
				for _, row := range rows.Data {
					row := row
					add(func(col string) string {
						if p, ok := colPos[col]; ok {
							return row[p]
						}
						for n, p := range colPos {
							if strings.EqualFold(n, col) {
								return row[p]
							}
						}
						return "?"
					}, suffixCols, "")
				}
			}
			sort.Strings(out)
			return out, trimmed, nulls
		}
		want, trimmed, nulls := expected(false)
		if !eqStrings(actual, want) && hasPrefix {
			if w2, t2, _ := expected(true); eqStrings(actual, w2) {
				want, trimmed = w2, t2
				st.charsRule++
			}
		}
		st.entries += len(actual)
		st.trimmed += trimmed
		st.nullEntries += nulls
		if keyless {
			st.keylessEntries += len(actual)
		}
		if !eqStrings(actual, want) {
			a, b := multisetDiff(actual, want, 1<<30)
			kind := "keyed"
			if keyless {
				kind = "keyless"
			}
			// class of the disagreement (observation only): entries for rows that do not exist / rows without entry
			switch {
			case len(a) > 0 && len(b) > 0:
				kind += "/stale+missing"
			case len(a) > 0:
				kind += "/stale-entry"
				if keyless {
					dangling := true
					for _, e := range a {
						if _, ok := primary[e[strings.LastIndex(e, "#")+1:]]; ok {
							dangling = false
						}
					}
					if dangling {
						kind = "keyless/dangling-hashid"
					}
				}
			default:
				kind += "/missing-entry"
				// observation: every row that lacks its entry has a NULL in an indexed column of a UNIQUE index
				if ix.Unique {
					all := true
					for _, e := range b {
						f := strings.Split(e, "\x1f")
						hasNull := false
						for k := 0; k < len(ix.Cols) && k < len(f); k++ {
							if f[k] == sqlrig.Null {
								hasNull = true
							}
						}
						all = all && hasNull
					}
					if all {
						kind += "/unique-index-null-key"
					}
				}
			}
			if len(a) > 6 {
				a = a[:6]
			}
			if len(b) > 6 {
				b = b[:6]
			}
			if prefixOfPK(def, &ix) {
				kind += "/index-has-prefix-of-primary-key-column"
			}
			if strings.HasPrefix(label, "commit:") {
				kind += "/in-commit"
			} else {
				kind += "/after-" + st.lastKind
			}
			c.Violation("c25/mirror/"+kind, fmt.Sprintf("index %s of %s in %s holds %d entries, the rows imply %d; it is not the set derived from the rows", ix.Name, tname, label, len(actual), len(want)),
				witness(map[string]any{"index": ix.Name, "create": text, "only_in_index": visAll(a), "only_derived_from_rows": visAll(b)}))
			continue
		}
		if deep {
			sqlLookups(c, x, def, &ix, qt, asOf, rows, colPos, label, st)
		}
	}
}

// prefixOfPK reports whether the index has a prefix length on a column of the primary key (observable input class).
func prefixOfPK(def *tableDef, ix *idxDef) bool {
	for i, cn := range ix.Cols {
		if ix.Prefix[i] == 0 {
			continue
		}
		for _, p := range def.PK {
			if strings.EqualFold(p, cn) {
				return true
			}
		}
	}
	return false
}

func lowerAll(s []string) []string {
	o := make([]string, len(s))
	for i := range s {
		o[i] = strings.ToLower(s[i])
	}
	return o
}

// sqlLookups is the second, independent observable: force the index in SQL, look up every distinct value of
// its first column (and NULL, and one range for integer columns) and compare with the same filter evaluated
// over the scanned rows.
func sqlLookups(c *rig.Ctx, x *sqlrig.Session, def *tableDef, ix *idxDef, qt, asOf string, rows *sqlrig.Rows, colPos map[string]int, label string, st *c25stats) {
	col := ix.Cols[0]
	p := colPos[col]
	typ := strings.ToLower(def.ColType[col])
	isInt := strings.HasPrefix(typ, "int") || strings.HasPrefix(typ, "bigint")
	isNum := isInt || strings.HasPrefix(typ, "decimal")
	ci := strings.Contains(typ, "_ci")
	eq := func(a, b string) bool {
		if a == sqlrig.Null || b == sqlrig.Null {
			return false
		}
		if ci {
			return strings.EqualFold(a, b)
		}
		return a == b
	}
	distinct := map[string]bool{}
	for _, r := range rows.Data {
		distinct[r[p]] = true
	}
	var vals []string
	for v := range distinct {
		vals = append(vals, v)
	}
	sort.Strings(vals)
	if len(vals) > 12 {
		vals = vals[:12]
	}
	from := qt
	if asOf != "" {
		from += " as of " + lit(asOf)
	}
	from += " force index (" + qid(ix.Name) + ")"
	run := func(where string, keep func(v string) bool) {
		got, err := x.Query("select * from " + from + " where " + where)
		if err != nil {
			key := "c25/sql-lookup/error"
			if strings.Contains(err.Error(), "panic") {
				key = "c25/sql-lookup/panic/unclassified"
				if prefixOfPK(def, ix) {
					key = "c25/sql-lookup/panic/index-has-prefix-of-primary-key-column"
				}
			}
			if strings.Contains(err.Error(), "max1Row") {
				// does the table itself hold two rows with the same non-NULL values in this (unique) index's columns?
				seen, dup := map[string]bool{}, false
				for _, r := range rows.Data {
					var parts []string
					null := false
					for _, cn := range ix.Cols {
						v := r[colPos[cn]]
						null = null || v == sqlrig.Null
						parts = append(parts, v)
					}
					k := strings.Join(parts, "\x1f")
					if !null && seen[k] {
						dup = true
					}
					seen[k] = true
				}
				key = "c25/sql-lookup/max1row-on-unique-index/no-duplicate-values-in-table"
				if dup {
					key = "c25/sql-lookup/max1row-on-unique-index/table-holds-duplicate-unique-values"
				}
			}
			c.Violation(key, "forced-index lookup failed: "+err.Error(), st.ws(map[string]any{"root": label, "query": "select * from " + from + " where " + where, "create": def.Text}))
			return
		}
		var want []string
		for _, r := range rows.Data {
			if keep(r[p]) {
				want = append(want, strings.Join(r, "\x1f"))
			}
		}
		sort.Strings(want)
		if g := got.Sorted(); !eqStrings(g, want) {
			a, b := multisetDiff(g, want, 5)
			c.Violation("c25/sql-lookup/rows", fmt.Sprintf("lookup through index %s returns %d rows, the same filter over the scanned rows gives %d", ix.Name, len(g), len(want)),
				st.ws(map[string]any{"root": label, "query": "select * from " + from + " where " + where, "only_via_index": visAll(a), "only_via_scan": visAll(b), "create": def.Text}))
		}
		cnt, err := x.Scalar("select count(*) from " + from + " where " + where)
		if err == nil && cnt != strconv.Itoa(len(want)) {
			c.Violation("c25/sql-lookup/count", fmt.Sprintf("COUNT(*) through index %s = %s, expected %d", ix.Name, cnt, len(want)), st.ws(map[string]any{"root": label, "where": where, "create": def.Text}))
		}
	}
	for _, v := range vals {
		v := v
		if v == sqlrig.Null {
			run(qid(col)+" is null", func(w string) bool { return w == sqlrig.Null })
		} else {
			l := lit(v)
			if isNum {
				l = v
			}
			run(qid(col)+" = "+l, func(w string) bool { return eq(w, v) })
		}
		st.sqlLookups++
	}
	if isInt && len(vals) > 0 {
		for _, v := range vals {
			if v == sqlrig.Null {
				continue
			}
			n, ok := new(big.Int).SetString(v, 10)
			if !ok {
				continue
			}
			run(fmt.Sprintf("%s > %s", qid(col), n.String()), func(w string) bool {
				m, ok := new(big.Int).SetString(w, 10)
				return ok && m.Cmp(n) > 0
			})
			st.sqlRange++
			break
		}
	}
	// was the index really used?
	if len(vals) > 0 {
		where := qid(col) + " is null"
		if vals[len(vals)-1] != sqlrig.Null {
			l := lit(vals[len(vals)-1])
			if isNum {
				l = vals[len(vals)-1]
			}
			where = qid(col) + " = " + l
		}
		if pl, err := x.Query("explain plan select * from " + from + " where " + where); err == nil {
			txt := strings.Join(pl.Strings(), "\n")
			if strings.Contains(txt, "IndexedTableAccess") {
				st.plansIndexed++
			} else {
				st.plansNot++
			}
		}
	}
}

// checkRoot checks every base table of one root.
func checkRoot(c *rig.Ctx, x *sqlrig.Session, root doltdb.RootValue, qual, fromDB, asOf, label string, deep bool, st *c25stats) {
	var tabs []string
	var err error
	if asOf != "" {
		// tables of the staged root: take them from the root value itself
		names, e := root.GetTableNames(bg, doltdb.DefaultSchemaName, false)
		tabs, err = names, e
	} else {
		tabs, err = baseTables(x, fromDB)
	}
	if err != nil {
		c.Violation(st.readKey("c25/read/tables", err), "cannot list tables of "+label+": "+err.Error(), st.ws(nil))
		return
	}
	st.roots++
	for _, t := range tabs {
		if strings.HasPrefix(t, "dolt_") {
			continue
		}
		checkTable(c, x, root, qual, asOf, t, label, deep, st)
	}
}

// ---------------------------------------------------------------------------------------------------------
// Workload: generated programs of DML, DDL and version-control operations
// ---------------------------------------------------------------------------------------------------------

type c25prog struct {
	c      *rig.Ctx
	r      *rand.Rand
	x      *sqlrig.Session
	srv    *sqlrig.Server
	ddb    *doltdb.DoltDB
	db     string
	branch string
	st     *c25stats
	log    []string
	ctr    int
	ixSeq  int
	kinds  map[string]int // executed statement kinds (successful)
	keyed  string         // "int" | "composite" | "keyless": the shape the table started with
	viol0  int
}

var c25pools = map[byte][]string{
	'a': {"0", "1", "2", "3", "4", "5"},
	'b': {"'ab'", "'AB'", "'Ab'", "'abc'", "'ABC'", "'b'", "'ba'", "'a b'", "'zz'"},
	'c': {"'héllo'", "'hé'", "'héllp'", "'h'", "'ab'", "'abcd'", "'abce'", "'日本語x'", "'日本'", "'日本語y'", "'ééé'", "'éé'"},
	'd': {"0.00", "1.50", "-2.25", "10.10", "1.5"},
	'e': {"'2020-01-02 03:04:05'", "'2020-01-02 03:04:06'", "'1999-12-31 23:59:59'"},
	'g': {"0", "1", "2", "3"},
	'h': {"'q'", "'r'", "'Q'"},
	'k': {"'x'", "'y'", "'X'"},
}

func (p *c25prog) value(col string) string {
	switch col {
	case "pk", "k1":
		return strconv.Itoa(p.r.Intn(14))
	case "k2":
		return c25pools['k'][p.r.Intn(3)]
	}
	if col[0] == 'f' {
		switch p.r.Intn(6) {
		case 0:
			return "NULL"
		case 1, 2:
			return strconv.Itoa(p.r.Intn(8))
		default:
			p.ctr++
			return strconv.Itoa(100 + p.ctr)
		}
	}
	pool := c25pools[col[0]]
	if pool == nil || p.r.Intn(7) == 0 {
		return "NULL"
	}
	return pool[p.r.Intn(len(pool))]
}

func (p *c25prog) def() *tableDef {
	text, err := showCreate(p.x, "t")
	if err != nil {
		return &tableDef{ColType: map[string]string{}}
	}
	return parseCreate(text)
}

// run executes one statement; failures are legal (duplicate keys, schema conflicts...), only counted.
func (p *c25prog) run(kind, q string) bool {
	p.log = append(p.log, q)
	p.st.lastKind = kind
	if strings.HasPrefix(q, "insert ignore") {
		p.st.lastKind = "insert-ignore"
	}
	p.c.Case(p.db, map[string]any{"db": p.db, "n": len(p.log), "stmt": q})
	_, err := p.x.Query(q)
	if err != nil {
		p.log[len(p.log)-1] = q + "   -- ERROR: " + firstLine(err.Error())
		p.kinds["err:"+kind]++
		if connLost(err) {
			// the server recovered a panic and dropped the connection: not what C25 is about, but worth a note;
			// the statement must have had no effect, which the next check verifies
			p.kinds["connection-lost"]++
			p.st.lostIn = kind
			p.c.Note(fmt.Sprintf("connection lost (server-side panic?) in %s by %q; script so far: %s", p.db, q, strings.Join(p.log, " ;; ")))
			p.reconnect()
		}
		return false
	}
	p.kinds[kind]++
	return true
}

func connLost(err error) bool {
	s := err.Error()
	return strings.Contains(s, "bad connection") || strings.Contains(s, "invalid connection") || strings.Contains(s, "connection is already closed") || strings.HasSuffix(s, "EOF")
}

func (p *c25prog) reconnect() {
	p.x.Close()
	p.x = p.srv.MustOpen("")
	rig.Must(execAll(p.x, "use "+p.db, "set @@dolt_force_transaction_commit = 1"))
	if p.branch != "main" {
		p.x.Exec("call dolt_checkout(" + lit(p.branch) + ")")
	}
}

func firstLine(s string) string {
	if i := strings.IndexByte(s, '\n'); i >= 0 {
		s = s[:i]
	}
	if len(s) > 160 {
		s = s[:160]
	}
	return s
}

func (p *c25prog) keyCols(d *tableDef) []string { return d.PK }

func (p *c25prog) whereOne(d *tableDef) string {
	if len(d.PK) > 0 && p.r.Intn(3) != 0 {
		var parts []string
		for _, k := range d.PK {
			parts = append(parts, qid(k)+" = "+p.value(k))
			if p.r.Intn(3) == 0 {
				break
			}
		}
		return strings.Join(parts, " and ")
	}
	col := d.Cols[p.r.Intn(len(d.Cols))]
	v := p.value(col)
	if v == "NULL" {
		return qid(col) + " is null"
	}
	return qid(col) + " = " + v
}

func (p *c25prog) dml() {
	d := p.def()
	if len(d.Cols) == 0 {
		return
	}
	row := func() string {
		vals := make([]string, len(d.Cols))
		for i, cn := range d.Cols {
			vals[i] = p.value(cn)
			if strings.Contains(d.ColType[cn], "NOT NULL") && vals[i] == "NULL" {
				vals[i] = p.value(cn)
				if vals[i] == "NULL" {
					vals[i] = "1"
				}
			}
		}
		return "(" + strings.Join(vals, ", ") + ")"
	}
	nonKey := func() string {
		var cand []string
		for _, cn := range d.Cols {
			isK := false
			for _, k := range d.PK {
				if k == cn {
					isK = true
				}
			}
			if !isK {
				cand = append(cand, cn)
			}
		}
		if len(cand) == 0 {
			return d.Cols[0]
		}
		return cand[p.r.Intn(len(cand))]
	}
	switch n := p.r.Intn(20); {
	case n < 6:
		k := 1 + p.r.Intn(4)
		rows := make([]string, k)
		for i := range rows {
			rows[i] = row()
		}
		verb := "insert into"
		if p.r.Intn(6) == 0 {
			verb = "insert ignore into"
		}
		p.run("insert", verb+" t values "+strings.Join(rows, ", "))
	case n < 7:
		p.run("replace", "replace into t values "+row())
	case n < 8:
		cn := nonKey()
		p.run("upsert", "insert into t values "+row()+" on duplicate key update "+qid(cn)+" = "+p.value(cn))
	case n < 13:
		cn := nonKey()
		p.run("update", "update t set "+qid(cn)+" = "+p.value(cn)+" where "+p.whereOne(d))
	case n < 14:
		// collation-equal rewrite of a string column
		for _, cn := range d.Cols {
			if cn[0] == 'b' {
				fn := []string{"upper", "lower"}[p.r.Intn(2)]
				p.run("update-case", "update t set "+qid(cn)+" = "+fn+"("+qid(cn)+") where "+p.whereOne(d))
				return
			}
		}
	case n < 15:
		if len(d.PK) > 0 {
			k := d.PK[0]
			p.run("update-pk", fmt.Sprintf("update t set %s = %s + %d where %s", qid(k), qid(k), 20+p.r.Intn(5), p.whereOne(d)))
		} else {
			cn := nonKey()
			p.run("update-limit", "update t set "+qid(cn)+" = "+p.value(cn)+" where "+p.whereOne(d)+" limit 1")
		}
	case n < 16:
		cn1, cn2 := nonKey(), nonKey()
		p.run("update2", "update t set "+qid(cn1)+" = "+p.value(cn1)+", "+qid(cn2)+" = "+p.value(cn2)+" where "+p.whereOne(d))
	case n < 19:
		q := "delete from t where " + p.whereOne(d)
		if len(d.PK) == 0 && p.r.Intn(2) == 0 {
			q += " limit 1"
		}
		p.run("delete", q)
	default:
		if len(d.PK) == 0 {
			p.run("insert-select", "insert into t select * from t where "+p.whereOne(d))
		} else {
			p.run("delete-range", fmt.Sprintf("delete from t where %s between %d and %d", qid(d.PK[0]), p.r.Intn(14), p.r.Intn(14)))
		}
	}
}

func (p *c25prog) indexSpec(d *tableDef) string {
	isText := func(cn string) bool {
		t := strings.ToLower(d.ColType[cn])
		return strings.HasPrefix(t, "text") || strings.HasPrefix(t, "longtext") || strings.HasPrefix(t, "mediumtext")
	}
	isStr := func(cn string) bool {
		t := strings.ToLower(d.ColType[cn])
		return isText(cn) || strings.HasPrefix(t, "varchar") || strings.HasPrefix(t, "char")
	}
	n := 1
	if p.r.Intn(3) == 0 {
		n = 2
	}
	if p.r.Intn(8) == 0 {
		n = 3
	}
	perm := p.r.Perm(len(d.Cols))
	var parts []string
	for _, i := range perm {
		cn := d.Cols[i]
		switch {
		case isText(cn):
			parts = append(parts, fmt.Sprintf("%s(%d)", qid(cn), 1+p.r.Intn(4)))
		case isStr(cn) && p.r.Intn(3) == 0:
			parts = append(parts, fmt.Sprintf("%s(%d)", qid(cn), 1+p.r.Intn(3)))
		default:
			parts = append(parts, qid(cn))
		}
		if len(parts) == n {
			break
		}
	}
	return "(" + strings.Join(parts, ", ") + ")"
}

func (p *c25prog) ddl() {
	d := p.def()
	if len(d.Cols) == 0 {
		return
	}
	pick := func(pred func(string) bool) string {
		var cand []string
		for _, cn := range d.Cols {
			if pred(cn) {
				cand = append(cand, cn)
			}
		}
		if len(cand) == 0 {
			return ""
		}
		return cand[p.r.Intn(len(cand))]
	}
	isKey := func(cn string) bool {
		return cn == "pk" || cn == "k1" || cn == "k2"
	}
	switch n := p.r.Intn(20); {
	case n < 3:
		if !d.hasCol("g") {
			pos := []string{"", " first", " after " + qid(d.Cols[p.r.Intn(len(d.Cols))])}[p.r.Intn(3)]
			p.run("add-column", "alter table t add column g int default 7"+pos)
		} else if !d.hasCol("h") {
			p.run("add-column", "alter table t add column h varchar(8) default 'q'")
		} else {
			p.run("drop-column", "alter table t drop column g")
		}
	case n < 5:
		if cn := pick(func(s string) bool { return !isKey(s) }); cn != "" {
			p.run("drop-column", "alter table t drop column "+qid(cn))
		}
	case n < 9:
		cn := pick(func(s string) bool { return !isKey(s) })
		if cn == "" {
			return
		}
		var nt string
		switch cn[0] {
		case 'a', 'g':
			nt = []string{"bigint", "int", "decimal(12,2)"}[p.r.Intn(3)]
		case 'b', 'h':
			nt = []string{"varchar(32)", "varchar(24) collate utf8mb4_general_ci", "varchar(20) collate utf8mb4_0900_ai_ci", "varchar(40) collate utf8mb4_0900_bin"}[p.r.Intn(4)]
		case 'c':
			nt = []string{"varchar(64)", "text", "varchar(80) collate utf8mb4_0900_ai_ci"}[p.r.Intn(3)]
		case 'd':
			nt = []string{"decimal(10,3)", "decimal(8,2)", "decimal(9,1)"}[p.r.Intn(3)]
		case 'e':
			nt = []string{"datetime(3)", "datetime", "timestamp"}[p.r.Intn(3)]
		case 'f':
			nt = []string{"bigint", "int", "varchar(20)"}[p.r.Intn(3)]
		default:
			return
		}
		p.run("modify-column", "alter table t modify column "+qid(cn)+" "+nt)
	case n < 10:
		// rename a column (the first letter stays, so value pools still apply)
		if cn := pick(func(s string) bool { return !isKey(s) }); cn != "" {
			nn := cn + "x"
			if strings.HasSuffix(cn, "x") {
				nn = strings.TrimSuffix(cn, "x")
			}
			p.run("rename-column", "alter table t rename column "+qid(cn)+" to "+qid(nn))
		}
	case n < 14:
		p.ixSeq++
		u := ""
		if p.r.Intn(4) == 0 {
			u = "unique "
		}
		p.run("add-index", fmt.Sprintf("create %sindex ix%d on t %s", u, p.ixSeq, p.indexSpec(d)))
	case n < 16:
		if len(d.Idx) > 0 {
			p.run("drop-index", "alter table t drop index "+qid(d.Idx[p.r.Intn(len(d.Idx))].Name))
		}
	case n < 18:
		if len(d.Idx) > 0 {
			p.ixSeq++
			p.run("rename-index", fmt.Sprintf("alter table t rename index %s to rn%d", qid(d.Idx[p.r.Intn(len(d.Idx))].Name), p.ixSeq))
		}
	default:
		if len(d.PK) > 0 {
			p.run("drop-pk", "alter table t drop primary key")
		} else if d.hasCol("pk") {
			p.run("add-pk", "alter table t add primary key (pk)")
		} else if d.hasCol("k1") && d.hasCol("k2") {
			p.run("add-pk", "alter table t add primary key (k1, k2)")
		} else {
			cn := d.Cols[p.r.Intn(len(d.Cols))]
			p.run("add-pk", "alter table t add primary key ("+qid(cn)+")")
		}
	}
}

type c25abort struct{}

func (p *c25prog) checkWorking(deep bool) {
	defer func() {
		if p.c.Violations() > p.viol0 {
			panic(c25abort{}) // the database is now known to be inconsistent: stop this program (recovered in c25program)
		}
	}()
	roots, err := sqlrig.BranchRoots(p.ddb, p.branch)
	if err != nil {
		p.c.Violation("c25/read/working-root", "cannot resolve working set of "+p.branch+": "+err.Error(), p.st.ws(nil))
		return
	}
	checkRoot(p.c, p.x, roots.Working, "", "", "", "working:"+p.branch, deep, p.st)
}

func (p *c25prog) steps(n int, ddlPct int) {
	for i := 0; i < n; i++ {
		if p.r.Intn(100) < ddlPct {
			p.ddl()
		} else {
			p.dml()
		}
		p.checkWorking(false)
	}
}

func (p *c25prog) commit(msg string) bool {
	ok := p.run("commit", "call dolt_commit('-Am', "+lit(msg)+")")
	p.checkWorking(true)
	return ok
}

func (p *c25prog) checkout(b string) {
	if p.run("checkout", "call dolt_checkout("+lit(b)+")") {
		p.branch = b
	}
}

func (p *c25prog) conflictsAndViolations() (int, int) {
	nc, nv := 0, 0
	if r, err := p.x.Query("select coalesce(sum(num_conflicts),0) from dolt_conflicts"); err == nil && len(r.Data) == 1 {
		nc, _ = strconv.Atoi(r.Data[0][0])
	}
	if r, err := p.x.Query("select coalesce(sum(num_violations),0) from dolt_constraint_violations"); err == nil && len(r.Data) == 1 {
		nv, _ = strconv.Atoi(r.Data[0][0])
	}
	if r, err := p.x.Query("select count(*) from dolt_schema_conflicts"); err == nil && len(r.Data) == 1 {
		if k, _ := strconv.Atoi(r.Data[0][0]); k > 0 {
			nc += 1000
		}
	}
	return nc, nv
}

// settle resolves whatever a merge-like operation left behind; returns false when it had to be aborted.
func (p *c25prog) settle(op string, abort string) bool {
	nc, nv := p.conflictsAndViolations()
	if nc == 0 && nv == 0 {
		return true
	}
	if nc >= 1000 {
		p.run(op+"-abort", abort)
		return false
	}
	p.checkWorking(false) // indexes must mirror the table even while conflicts are pending
	if nc > 0 {
		side := []string{"--ours", "--theirs"}[p.r.Intn(2)]
		if !p.run("resolve"+side, "call dolt_conflicts_resolve("+lit(side)+", 't')") {
			p.run(op+"-abort", abort)
			return false
		}
		p.kinds["conflicted-"+op+"-resolved"]++
	}
	if nv > 0 {
		// a violation may only be declared resolved after the offending rows are gone (clearing the records alone would
		// leave e.g. two rows with the same value of a UNIQUE index: a constraint matter, not an index-mirror one)
		d := p.def()
		if len(d.PK) == 0 {
			p.run(op+"-abort", abort)
			return false
		}
		var ks []string
		for _, k := range d.PK {
			ks = append(ks, qid(k))
		}
		cols := strings.Join(ks, ", ")
		if !p.run("repair-violations", "delete from t where ("+cols+") in (select "+cols+" from dolt_constraint_violations_t)") ||
			!p.run("clear-violations", "delete from dolt_constraint_violations_t") {
			p.run(op+"-abort", abort)
			return false
		}
	}
	p.checkWorking(false)
	return true
}

func (p *c25prog) headOf(branch string, back int) string {
	r, err := p.x.Query(fmt.Sprintf("select commit_hash from `%s/%s`.dolt_log order by commit_order desc limit 1 offset %d", p.db, branch, back))
	if err != nil || len(r.Data) == 0 {
		r, err = p.x.Query(fmt.Sprintf("select commit_hash from `%s/%s`.dolt_log limit 1 offset %d", p.db, branch, back))
		if err != nil || len(r.Data) == 0 {
			return ""
		}
	}
	return r.Data[0][0]
}

func (p *c25prog) createTable() {
	p.keyed = []string{"int", "int", "composite", "keyless"}[p.r.Intn(4)]
	coll := []string{"", " collate utf8mb4_general_ci", " collate utf8mb4_0900_ai_ci"}[p.r.Intn(3)]
	var cols []string
	switch p.keyed {
	case "int":
		cols = append(cols, "pk int not null")
	case "composite":
		cols = append(cols, "k1 int not null", "k2 varchar(8) not null")
	}
	all := []string{"a int", "b varchar(16)" + coll, "c text", "d decimal(8,2)", "e datetime", "f bigint"}
	if p.r.Intn(3) == 0 {
		all[2] = "c varchar(40)"
	}
	keep := 3 + p.r.Intn(4)
	perm := p.r.Perm(len(all))[:keep]
	sort.Ints(perm)
	for _, i := range perm {
		cols = append(cols, all[i])
	}
	switch p.keyed {
	case "int":
		cols = append(cols, "primary key (pk)")
	case "composite":
		if p.r.Intn(2) == 0 {
			cols = append(cols, "primary key (k1, k2)")
		} else {
			cols = append(cols, "primary key (k2, k1)")
		}
	}
	p.run("create-table", "create table t ("+strings.Join(cols, ", ")+")")
	d := p.def()
	// some indexes before any data (incremental maintenance), some after (bulk build)
	n := 1 + p.r.Intn(3)
	for i := 0; i < n; i++ {
		p.ixSeq++
		u := ""
		if p.r.Intn(4) == 0 {
			u = "unique "
		}
		p.run("add-index", fmt.Sprintf("create %sindex ix%d on t %s", u, p.ixSeq, p.indexSpec(d)))
	}
}

func c25program(c *rig.Ctx, box *srvBox, i int, st *c25stats, kinds map[string]int) {
	r := c.SubRand("c25", i)
	db := fmt.Sprintf("c25_%d", i)
	x := box.srv.MustOpen("")
	p := &c25prog{c: c, r: r, x: x, srv: box.srv, db: db, branch: "main", st: st, kinds: kinds}
	st.script = &p.log
	st.lostIn = ""
	p.viol0 = c.Violations()
	defer func() {
		if e := recover(); e != nil {
			if _, ok := e.(c25abort); !ok {
				panic(e)
			}
			kinds["program-aborted-after-violation"]++
		}
	}()
	defer func() { p.x.Close() }()
	c.Case(db, map[string]any{"db": db})
	rig.Must(execAll(x, "create database "+db, "use "+db, "set @@dolt_force_transaction_commit = 1"))
	defer func() {
		p.x.Exec("use mysql")
		p.x.Exec("drop database " + db)
		if i%10 == 9 {
			p.x.Exec("call dolt_purge_dropped_databases()")
		}
	}()
	ddb, err := box.srv.OpenDoltDB(db)
	rig.Must(err)
	p.ddb = ddb

	p.createTable()
	p.steps(4+r.Intn(6), 0)
	if r.Intn(2) == 0 { // index built over existing rows
		p.ixSeq++
		p.run("add-index", fmt.Sprintf("create index ix%d on t %s", p.ixSeq, p.indexSpec(p.def())))
		p.checkWorking(false)
	}
	p.commit("base")
	p.run("branch", "call dolt_branch('br')")
	// main side
	p.steps(3+r.Intn(6), 30)
	p.commit("m1")
	if r.Intn(2) == 0 {
		p.steps(2+r.Intn(4), 25)
		p.commit("m2")
	}
	// branch side
	p.checkout("br")
	p.steps(3+r.Intn(6), 12)
	p.commit("b1")
	if r.Intn(2) == 0 {
		p.steps(2+r.Intn(3), 10)
		p.commit("b2")
	}
	p.checkout("main")
	// merge
	if p.run("merge", "call dolt_merge('br', '--no-ff')") {
		if p.settle("merge", "call dolt_merge('--abort')") {
			p.checkWorking(true)
			p.commit("merged")
		}
	}
	// cherry-pick a fresh commit of br
	p.checkout("br")
	p.steps(1+r.Intn(3), 0)
	if p.commit("b3") {
		h := p.headOf("br", 0)
		p.checkout("main")
		if h != "" && p.run("cherry-pick", "call dolt_cherry_pick("+lit(h)+")") {
			if p.settle("cherry-pick", "call dolt_cherry_pick('--abort')") {
				p.commit("picked")
			}
		} else {
			p.run("cherry-pick-abort", "call dolt_cherry_pick('--abort')")
		}
	} else {
		p.checkout("main")
	}
	p.checkWorking(false)
	// revert
	p.steps(1+r.Intn(3), 10)
	p.commit("m3")
	if p.run("revert", "call dolt_revert("+lit([]string{"HEAD", "HEAD~1"}[r.Intn(2)])+")") {
		p.settle("revert", "call dolt_revert('--abort')")
	}
	p.checkWorking(true)
	// stash
	p.steps(1+r.Intn(3), 10)
	if p.run("stash-push", "call dolt_stash('push', 's1')") {
		p.checkWorking(false)
		p.steps(r.Intn(3), 0)
		if r.Intn(2) == 0 {
			p.commit("m4")
		} else {
			p.run("reset-hard", "call dolt_reset('--hard')")
		}
		if p.run("stash-pop", "call dolt_stash('pop', 's1')") {
			p.settle("stash-pop", "call dolt_reset('--hard')")
		}
		p.checkWorking(true)
	}
	// resets
	p.steps(1+r.Intn(3), 15)
	switch r.Intn(3) {
	case 0:
		p.run("reset-hard", "call dolt_reset('--hard')")
	case 1:
		p.run("reset-soft", "call dolt_reset('--soft', 'HEAD~1')")
	default:
		p.run("reset-hard-back", "call dolt_reset('--hard', 'HEAD~1')")
	}
	p.checkWorking(true)
	// staged root
	p.steps(1+r.Intn(2), 0)
	if p.run("add", "call dolt_add('-A')") {
		p.steps(1, 0)
		if roots, err := sqlrig.BranchRoots(ddb, p.branch); err == nil {
			checkRoot(c, p.x, roots.Staged, "", "", "STAGED", "staged:"+p.branch, false, st)
			st.staged++
		}
	}
	p.commit("final")

	// every commit produced on every branch
	seen := map[string]bool{}
	for _, b := range []string{"main", "br"} {
		lg, err := p.x.Query(fmt.Sprintf("select commit_hash from `%s/%s`.dolt_log", db, b))
		if err != nil {
			c.Violation("c25/read/log", err.Error(), st.ws(nil))
			continue
		}
		for j, row := range lg.Data {
			h := row[0]
			if seen[h] {
				continue
			}
			seen[h] = true
			root, err := sqlrig.CommitRoot(ddb, h)
			if err != nil {
				c.Violation("c25/read/commit-root", err.Error(), st.ws(map[string]any{"commit": h}))
				continue
			}
			rev := fmt.Sprintf("`%s/%s`", db, h)
			checkRoot(c, p.x, root, rev+".", rev, "", "commit:"+h, j == 0, st)
			st.commits++
		}
	}
	c.Distinct(fmt.Sprintf("%s/%d/%d/%s", p.keyed, len(p.log)/8, p.ixSeq, strings.Join(p.log[:1], "")))
	c.Sample(map[string]any{"db": db, "statements": len(p.log), "head_of_script": head(p.log, 12)})
}

func head(s []string, n int) []string {
	if len(s) > n {
		return s[:n]
	}
	return s
}

func c25(c *rig.Ctx) {
	c.Rule("seeded programs on one table (int key / composite key in either order / keyless; 3-6 payload columns of int, collated " +
		"varchar, text with multi-byte values, decimal, datetime, bigint; unique, non-unique, prefix and multi-column indexes created " +
		"before and after data) mixing INSERT/IGNORE/REPLACE/upsert/UPDATE (incl. key and collation-equal rewrites)/DELETE with ALTERs " +
		"(add/drop/modify/rename column, add/drop/rename index, drop/add primary key), then branch, --no-ff merge (conflicts resolved " +
		"--ours/--theirs), cherry-pick, revert, stash push/pop, reset --hard/--soft, dolt_add. After every statement every secondary " +
		"index of the working root is read through doltdb/durable (tuples decoded with the index schema) and compared with the " +
		"entries the monitor derives from SELECT * and the definition in SHOW CREATE TABLE; at commit points every distinct value is " +
		"also looked up with FORCE INDEX; at the end every commit of every branch is checked. A program is distinct by its CREATE " +
		"TABLE statement and its operation counts. Second part: one table per value representation the index writers compare " +
		"(varbinary, binary, blob prefix, varchar bin/_ci, char _ci, text prefix, ints, decimal, double, float, datetime(6), timestamp, " +
		"date, time, year, enum, set; keyed, keyless and unique variants) with indexes (x), (x,o), (o,x); statements change exactly one " +
		"indexed column of one row: value->NULL, NULL->value, same value, other value, collation-equal value, the same via INSERT..ON " +
		"DUPLICATE KEY UPDATE, an unindexed column only; plus foreign keys ON DELETE/UPDATE SET NULL/CASCADE with an indexed child column")
	c.Assume("prefix lengths: the statement does not say bytes or characters; either derivation is accepted (counter c25.prefix_char_rule_needed)")
	c.Assume("statements may legally fail (duplicate keys, schema conflicts); failures are only counted")
	box := startBox(c, "c25")
	defer box.close()
	st := &c25stats{}
	kinds := map[string]int{}
	n := c.Pick(36, 900)
	only := map[int]bool{}
	for _, f := range strings.Split(os.Getenv("VERIF_C25_CASES"), ",") { // debugging aid: run only the listed program indexes
		if k, err := strconv.Atoi(strings.TrimSpace(f)); err == nil {
			only[k] = true
			if k >= n {
				n = k + 1
			}
		}
	}
	for i := 0; i < n; i++ {
		if len(only) > 0 && !only[i] {
			continue
		}
		c25program(c, box, i, st, kinds)
		if c.UnlistedViolations() > 25 {
			break
		}
	}
	var sc *scStats
	if c.UnlistedViolations() <= 25 {
		sc = c25singleColumn(c, box, st)
	}
	c.Count("c25.roots_checked", st.roots)
	c.Count("c25.commit_roots_checked", st.commits)
	c.Count("c25.staged_roots_checked", st.staged)
	c.Count("c25.table_checks", st.tables)
	c.Count("c25.index_checks", st.indexes)
	c.Count("c25.index_entries_compared", st.entries)
	c.Count("c25.keyless_index_entries", st.keylessEntries)
	c.Count("c25.entries_with_prefix_trimmed", st.trimmed)
	c.Count("c25.entries_null_fields", st.nullEntries)
	c.Count("c25.unique_index_checks", st.uniqueIdx)
	c.Count("c25.multicolumn_index_checks", st.multiCol)
	c.Count("c25.prefix_index_checks", st.prefixIdx)
	c.Count("c25.prefix_char_rule_needed", st.charsRule)
	c.Count("c25.sql_forced_lookups", st.sqlLookups)
	c.Count("c25.sql_forced_ranges", st.sqlRange)
	c.Count("c25.plans_indexed", st.plansIndexed)
	c.Count("c25.plans_not_indexed", st.plansNot)
	var ks []string
	for k := range kinds {
		ks = append(ks, k)
	}
	sort.Strings(ks)
	for _, k := range ks {
		c.Count("c25.op."+k, kinds[k])
	}
	c.Require(st.entries > 0 && st.keylessEntries > 0, "no (keyless) index entries compared")
	c.Require(st.trimmed > 0, "no prefix index actually truncated a value")
	c.Require(kinds["merge"] > 0 && kinds["conflicted-merge-resolved"] > 0, "no merge / no conflicted-and-resolved merge happened")
	c.Require(kinds["cherry-pick"] > 0 && kinds["revert"] > 0 && kinds["stash-pop"] > 0, "cherry-pick / revert / stash pop never succeeded")
	c.Require(kinds["modify-column"] > 0 && kinds["drop-pk"]+kinds["add-pk"] > 0 && kinds["rename-index"] > 0, "DDL kinds not exercised")
	c.Require(st.plansIndexed > 0, "forced-index lookups never used an index")
	if sc != nil {
		c.Require(sc.binNull > 0 && sc.byKind["value-to-null"] > 0 && sc.byKind["null-to-value"] > 0 && sc.byKind["same-value"] > 0 &&
			sc.byKind["collation-equal-value"] > 0 && sc.byKind["upsert-value-to-null"] > 0 && sc.byKind["unindexed-column-only"] > 0,
			"single-indexed-column transitions not all exercised")
		c.Require(len(sc.byFamily) == len(scFamilies) && len(sc.fkActs) >= 6, "not every type family / foreign-key action exercised")
	}
}
