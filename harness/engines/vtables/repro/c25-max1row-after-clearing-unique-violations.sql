-- C25 / former key c25/sql-lookup/error (thorough seed 1, case c25_78): HARNESS ARTEFACT, not a defect of the index mirror.
-- A merge brings two rows with the same value of a UNIQUE index; dolt records the unique-key violation in
-- dolt_constraint_violations_t. The generated program then ran `delete from dolt_constraint_violations_t` WITHOUT
-- repairing the rows (with @@dolt_force_transaction_commit=1), i.e. it declared the violation resolved. The table now
-- legitimately holds two rows with k1 = 10, the unique index mirrors both (it passed the mirror comparison), and a
-- lookup planned as a unique-key lookup reports "result max1Row iterator returned more than one row".
-- How to run: see c25-revert-of-add-column-first.sql.
create database k1;
use k1;
set @@dolt_force_transaction_commit = 1;
create table t (k1 int not null, k2 varchar(8) not null, a int, primary key (k2, k1), unique key ix2 (k1));
call dolt_commit('-Am', 'base');
call dolt_branch('br');
insert into t values (10, 'x', 1);
call dolt_commit('-Am', 'm1');
call dolt_checkout('br');
insert into t values (10, 'y', 2);
call dolt_commit('-Am', 'b1');
call dolt_checkout('main');
call dolt_merge('br', '--no-ff');
select violation_type, k1, k2 from dolt_constraint_violations_t;
delete from dolt_constraint_violations_t;
select * from t;
select * from t force index (ix2) where k1 = 10;
