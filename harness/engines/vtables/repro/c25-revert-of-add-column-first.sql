-- C25 / key c25/read/select/row-bytes-do-not-fit-schema/... : dolt_revert of a commit that added a column FIRST
-- leaves the primary key pointing at the wrong column; the table can no longer be scanned.
-- How to run: start `dolt sql-server` in an empty directory and feed the statements one by one (any client), or
--   go build -tags verif -o /tmp/vtprobe ./cmd/vtprobe (a 50-line line-by-line runner over sqlrig) && /tmp/vtprobe <scratchdir> < this file
-- Expected: after the revert t is (pk int primary key, b varchar(16)) with the rows' values intact.
-- Observed (dolt @771d9f3): SHOW CREATE TABLE says PRIMARY KEY (`b`); SELECT * fails or returns garbage
--   ("panic recovered: byte slice is length 3 expected 4" in values.ReadInt32 in the generated program).
create database k1;
use k1;
create table t (pk int not null, b varchar(16), primary key (pk));
insert into t values (1, 'abc'), (2, 'zz');
call dolt_commit('-Am', 'base');
alter table t add column g int default 7 first;
call dolt_commit('-Am', 'm1: add column first');
insert into t values (9, 3, 'ba');
call dolt_commit('-Am', 'm3');
call dolt_revert('HEAD~1');
show create table t;
select * from t;
