-- C25 / keys c25/sql-lookup/panic/index-has-prefix-of-primary-key-column and
-- c25/mirror/keyed/.../index-has-prefix-of-primary-key-column: a secondary index with a PREFIX of a primary-key column.
-- The index entry stores the truncated value in place of the key column, so the primary key cannot be rebuilt from it.
-- How to run: see c25-revert-of-add-column-first.sql.
-- Expected: the forced-index lookup through ix2 returns the row (2, '24', 'a b').
-- Observed (dolt @771d9f3): "panic recovered: malformed tuple" (the 4th statement below is enough).
-- The statements after it are an attempt to minimise the second symptom (thorough seed 1, program c25_854: after
-- dolt_revert index ix1 (k2(1)) keeps 3 entries of rows that no longer exist); this short form does NOT reproduce it,
-- the full script is in the replay file of key c25/mirror/keyed/stale-entry/index-has-prefix-of-primary-key-column/after-revert.
create database k1;
use k1;
create table t (k1 int not null, k2 varchar(8) not null, b varchar(16), primary key (k2, k1), key ix2 (b(2), k2(1)), key ix1 (k2(1)));
insert into t values (2, '24', 'a b'), (3, 'x', 'zz');
select * from t force index (ix2) where b = 'a b';
select * from t force index (ix1) where k2 = '24';
call dolt_commit('-Am', 'base');
insert into t values (0, '24', 'q'), (5, '24', 'r');
call dolt_commit('-Am', 'm1');
insert into t values (7, 'y', 's');
call dolt_commit('-Am', 'm2');
call dolt_revert('HEAD~1');
select count(*) from t;
select count(*) from t force index (ix1) where k2 >= '';
