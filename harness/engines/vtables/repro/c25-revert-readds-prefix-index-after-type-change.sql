-- C25 / key c25/read/tables/dangling-ref/... : dolt_revert of a commit that changed TEXT -> VARCHAR and dropped a prefix
-- index on that column panics while rebuilding the index and leaves a working set that every later statement rejects.
-- How to run: see c25-revert-of-add-column-first.sql.
-- Expected: the revert either succeeds (c is text again, ix2 rebuilt) or fails cleanly leaving the working set usable.
-- Observed (dolt @771d9f3): the server panics ("invalid hash length: 3" in val.AdaptiveValue / key_builder.go:155 via
--   merge_prolly_indexes.go:193 buildIndex), the connection is dropped, and afterwards statements on the branch fail
--   with "dangling ref: found dangling references to HashSet {...}".
create database k1;
use k1;
create table t (a int, c text, d decimal(8,2), key ix2 (c(3), d));
insert into t values (1, 'abce', 0.00), (2, 'hé', 1.50);
call dolt_commit('-Am', 'base');
alter table t modify column c varchar(80);
alter table t drop index ix2;
call dolt_commit('-Am', 'm2: text -> varchar, drop prefix index');
insert into t values (3, 'ab', 2.25);
call dolt_commit('-Am', 'm3');
call dolt_revert('HEAD~1');
insert into t values (4, 'zz', 1.00);
show full tables;
select * from t;
