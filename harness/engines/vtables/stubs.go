package vtables

import "verif/rig"

func c46(c *rig.Ctx) {}
func c47(c *rig.Ctx) {}
