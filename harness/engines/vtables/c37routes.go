package vtables

import (
	"fmt"
	"strings"

	"github.com/dolthub/dolt/go/libraries/doltcore/doltdb"

	"verif/rig"
	"verif/sqlrig"
)

// Stage C of C37: the same final CREATE TABLE (and a following ALTER TABLE ADD COLUMN) reached through different
// histories of one table name:
//
//	fresh     : CREATE TABLE final
//	committed : CREATE TABLE old; commit; DROP; commit; CREATE TABLE final
//	same-ws   : CREATE TABLE old; commit; DROP; CREATE TABLE final        (autocommit statements, no dolt commit between)
//	same-txn  : CREATE TABLE old; commit; BEGIN; DROP; CREATE TABLE final; COMMIT
//
// Shapes: old = prefix ++ dropped columns, final = prefix ++ new columns (fresh names, or the name of a dropped
// column with a different kind), so that on every route the new columns are generated after the same surviving
// columns. Re-using the HEAD tags of the prefix columns is legitimate; the NEW columns (and the column added by the
// ALTER) must get the tags the fresh route gives them, and merging the fresh branch with any other route must work.

type c37routeStats struct {
	cases, refused, routes, newColsCompared, alterColsCompared, merges, skippedCollision, prefixTagDiffers int
	nonPrefixProbes, nonPrefixDisagree                                                                    int
}

func tagsOf(ddb *doltdb.DoltDB, branch, table string) (map[string]uint64, error) {
	roots, err := sqlrig.BranchRoots(ddb, branch)
	if err != nil {
		return nil, err
	}
	tbl, ok, err := roots.Head.GetTable(bg, doltdb.TableName{Name: table})
	if err != nil || !ok {
		return nil, fmt.Errorf("table %s not at HEAD of %s (%v)", table, branch, err)
	}
	sch, err := tbl.GetSchema(bg)
	if err != nil {
		return nil, err
	}
	out := map[string]uint64{}
	for _, col := range sch.GetAllCols().GetColumns() {
		out[col.Name] = col.Tag
	}
	return out, nil
}

func c37routes(c *rig.Ctx, box *srvBox, rs *c37routeStats) {
	n := c.Pick(16, 600)
	for i := 0; i < n && c.Violations() < 10; i++ {
		r := c.SubRand("c37/routes", i)
		db := fmt.Sprintf("c37c_%d", i)
		x := box.srv.MustOpen("")
		rig.Must(execAll(x, "create database "+db, "use "+db, "create table keep (id int primary key)", "call dolt_commit('-Am', 'base')"))
		// shapes
		nPrefix, nDropped, nNew := 1+r.Intn(3), 1+r.Intn(3), 1+r.Intn(3)
		var prefix, dropped, fresh []*colSpec
		for k := 0; k < nPrefix; k++ {
			prefix = append(prefix, genCol(r, fmt.Sprintf("p%d", k), k == 0))
		}
		for k := 0; k < nDropped; k++ {
			dropped = append(dropped, genCol(r, fmt.Sprintf("d%d", k), false))
		}
		for k := 0; k < nNew; k++ {
			name := fmt.Sprintf("n%d", k)
			col := genCol(r, name, false)
			if k == 0 && r.Intn(3) == 0 {
				// the name of a dropped column comes back with a different kind: a new column as far as tags go
				col = &colSpec{Name: dropped[0].Name, DDL: "datetime(3)"}
				if strings.HasPrefix(dropped[0].DDL, "datetime") || strings.HasPrefix(dropped[0].DDL, "timestamp") {
					col.DDL = "bigint"
				}
			}
			fresh = append(fresh, col)
		}
		nonPrefix := i%4 == 3 // diagnostic only: a new column placed BEFORE surviving columns (see the note below)
		mk := func(cols []*colSpec) string {
			var parts []string
			for _, col := range cols {
				parts = append(parts, qid(col.Name)+" "+col.DDL)
			}
			return "create table t (" + strings.Join(parts, ", ") + ", primary key (" + qid(prefix[0].Name) + "))"
		}
		oldSQL := mk(append(append([]*colSpec{}, prefix...), dropped...))
		finalCols := append(append([]*colSpec{}, prefix...), fresh...)
		if nonPrefix && len(prefix) > 1 {
			finalCols = append(append([]*colSpec{prefix[0]}, fresh...), prefix[1:]...)
		} else {
			nonPrefix = false
		}
		finalSQL := mk(finalCols)
		alterCol := genCol(r, "z_added", false)
		alterSQL := "alter table t add column " + qid(alterCol.Name) + " " + alterCol.DDL
		c.Case("c37/routes", map[string]any{"db": db, "old": oldSQL, "final": finalSQL, "alter": alterSQL, "non_prefix_diagnostic": nonPrefix})
		witness := func(extra map[string]any) map[string]any {
			extra["old"], extra["final"], extra["alter"] = oldSQL, finalSQL, alterSQL
			return extra
		}
		type route struct {
			name  string
			stmts []string
		}
		routes := []route{
			{"fresh", []string{finalSQL}},
			{"committed", []string{oldSQL, "call dolt_commit('-Am', 'old')", "drop table t", "call dolt_commit('-Am', 'dropped')", finalSQL}},
			{"same-ws", []string{oldSQL, "call dolt_commit('-Am', 'old')", "drop table t", finalSQL}},
			{"same-txn", []string{oldSQL, "call dolt_commit('-Am', 'old')", "set autocommit = 0", "begin", "drop table t", finalSQL, "commit", "set autocommit = 1"}},
		}
		ddb, err := box.srv.OpenDoltDB(db)
		rig.Must(err)
		tags := map[string]map[string]uint64{}
		oldTags := map[uint64]bool{}
		ok := true
		for _, rt := range routes {
			rig.Must(execAll(x, "call dolt_checkout('main')", "call dolt_checkout('-b', '"+rt.name+"')"))
			for _, q := range rt.stmts {
				if err := x.Exec(q); err != nil {
					x.Exec("set autocommit = 1")
					ok = false // a shape the server refuses is not a case
					break
				}
				if strings.Contains(q, "'old'") && rt.name == "same-ws" {
					if t, err := tagsOf(ddb, rt.name, "t"); err == nil {
						for _, v := range t {
							oldTags[v] = true
						}
					}
				}
			}
			if !ok {
				break
			}
			if err := x.Exec(alterSQL); err != nil {
				ok = false
				break
			}
			rig.Must(execAll(x, "call dolt_commit('-Am', 'final via "+rt.name+"')"))
			t, err := tagsOf(ddb, rt.name, "t")
			if err != nil {
				c.Violation("c37/routes/read-tags", err.Error(), witness(map[string]any{"route": rt.name}))
				ok = false
				break
			}
			tags[rt.name] = t
			rs.routes++
		}
		if !ok {
			rs.refused++
			x.Exec("use mysql")
			x.Exec("drop database " + db)
			x.Close()
			continue
		}
		rs.cases++
		ref := tags["fresh"]
		isNew := map[string]bool{alterCol.Name: true}
		for _, col := range fresh {
			isNew[col.Name] = true
		}
		for _, rt := range routes[1:] {
			got := tags[rt.name]
			disagree := false
			for name, want := range ref {
				if !isNew[name] {
					if got[name] != want {
						rs.prefixTagDiffers++ // surviving columns re-use HEAD tags: legitimate, only counted
					}
					continue
				}
				if oldTags[want] {
					rs.skippedCollision++ // the fresh tag is occupied by a dropped HEAD column on this route: collision avoidance may differ
					continue
				}
				if nonPrefix {
					if got[name] != want {
						disagree = true
					}
					continue
				}
				if name == alterCol.Name {
					rs.alterColsCompared++
				} else {
					rs.newColsCompared++
				}
				if got[name] != want {
					key := "c37/routes/new-column-tag/" + rt.name
					if name == alterCol.Name {
						key = "c37/routes/added-column-tag/" + rt.name
					}
					c.Violation(key, fmt.Sprintf("column %q gets tag %d when the table is created fresh and tag %d when the same CREATE TABLE follows a DROP of an earlier shape (route %s)", name, want, got[name], rt.name),
						witness(map[string]any{"route": rt.name, "column": name, "tags_fresh": ref, "tags_route": got}))
				}
			}
			if nonPrefix {
				rs.nonPrefixProbes++
				if disagree {
					rs.nonPrefixDisagree++
					c.Note(fmt.Sprintf("diagnostic (not asserted): new column placed before surviving columns gets different tags on route %s than on a fresh create: old=%q final=%q fresh=%v route=%v", rt.name, oldSQL, finalSQL, ref, got))
				}
			}
		}
		// merging the fresh branch with every other route must work without schema conflict
		if !nonPrefix {
			for _, rt := range routes[1:] {
				rig.Must(execAll(x, "call dolt_checkout('fresh')", "call dolt_checkout('-b', 'm_"+rt.name+"')"))
				res, err := x.Query("call dolt_merge('" + rt.name + "')")
				rs.merges++
				if err != nil {
					c.Violation("c37/routes/merge-error/"+rt.name, "merging two histories that ran the same final CREATE TABLE failed: "+firstLine(err.Error()), witness(map[string]any{"route": rt.name, "tags_fresh": ref, "tags_route": tags[rt.name]}))
					x.Exec("call dolt_merge('--abort')")
					continue
				}
				if len(res.Data) == 1 && len(res.Data[0]) > 2 && res.Data[0][2] != "0" {
					c.Violation("c37/routes/merge-conflict/"+rt.name, "merging two histories that ran the same final CREATE TABLE reports conflicts", witness(map[string]any{"route": rt.name}))
					x.Exec("call dolt_merge('--abort')")
				}
			}
		}
		c.Distinct("routes/" + oldSQL + "/" + finalSQL)
		if i%6 == 0 {
			c.Sample(map[string]any{"kind": "routes", "old": oldSQL, "final": finalSQL, "alter": alterSQL, "tags_fresh": ref})
		}
		x.Exec("call dolt_checkout('main')")
		x.Exec("use mysql")
		x.Exec("drop database " + db)
		if i%8 == 7 {
			x.Exec("call dolt_purge_dropped_databases()")
		}
		x.Close()
	}
	c.Count("c37.routes.cases", rs.cases)
	c.Count("c37.routes.shapes_refused", rs.refused)
	c.Count("c37.routes.histories_run", rs.routes)
	c.Count("c37.routes.new_column_tags_compared", rs.newColsCompared)
	c.Count("c37.routes.added_column_tags_compared", rs.alterColsCompared)
	c.Count("c37.routes.merges_fresh_with_route", rs.merges)
	c.Count("c37.routes.skipped_fresh_tag_taken_by_dropped_column", rs.skippedCollision)
	c.Count("c37.routes.surviving_column_tag_differs_unasserted", rs.prefixTagDiffers)
	c.Count("c37.routes.diagnostic_new_column_before_survivors", rs.nonPrefixProbes)
	c.Count("c37.routes.diagnostic_new_column_before_survivors_disagree", rs.nonPrefixDisagree)
}
