package vtables

import (
	"fmt"
	"math/rand"
	"sort"
	"strings"

	"github.com/dolthub/dolt/go/libraries/doltcore/doltdb"

	"verif/rig"
	"verif/sqlrig"
)

// ---------------------------------------------------------------------------------------------------------
// Reference matcher (brute force). A pattern's language is enumerated over a small alphabet; "A is more specific
// than B" <=> every name matching A also matches B but not vice versa (the definition in the comment of
// getMoreSpecificPatterns in doltdb/table_name_patterns.go), i.e. L(A) is a strict subset of L(B).
// ---------------------------------------------------------------------------------------------------------

// globMatch: '?' = exactly one character, '*' and '%' = any (possibly empty) sequence, everything else literal.
func globMatch(p, s string) bool {
	if p == "" {
		return s == ""
	}
	switch p[0] {
	case '*', '%':
		for i := 0; i <= len(s); i++ {
			if globMatch(p[1:], s[i:]) {
				return true
			}
		}
		return false
	case '?':
		return s != "" && globMatch(p[1:], s[1:])
	default:
		return s != "" && s[0] == p[0] && globMatch(p[1:], s[1:])
	}
}

type ignoreRef struct {
	universe []string // every string over the alphabet up to maxLen; universe[0] == ""
	langs    map[string][]uint64
}

// newIgnoreRef enumerates names over alphabet (which must contain one character that occurs in no pattern).
func newIgnoreRef(alphabet string, maxLen int) *ignoreRef {
	r := &ignoreRef{langs: map[string][]uint64{}}
	r.universe = []string{""}
	prev := []string{""}
	for l := 1; l <= maxLen; l++ {
		var next []string
		for _, p := range prev {
			for i := 0; i < len(alphabet); i++ {
				next = append(next, p+alphabet[i:i+1])
			}
		}
		r.universe = append(r.universe, next...)
		prev = next
	}
	return r
}

func (r *ignoreRef) lang(p string) []uint64 {
	if l, ok := r.langs[p]; ok {
		return l
	}
	l := make([]uint64, (len(r.universe)+63)/64)
	for i, s := range r.universe {
		if globMatch(p, s) {
			l[i/64] |= 1 << (i % 64)
		}
	}
	r.langs[p] = l
	return l
}

// strictSubset reports L(a) ⊊ L(b), once counting the empty name and once not (table names are never empty, so a
// difference between the two readings is a case the definition does not settle).
func (r *ignoreRef) strictSubset(a, b string) (withEmpty, withoutEmpty bool) {
	la, lb := r.lang(a), r.lang(b)
	rel := func(skipEmpty bool) bool {
		sub, strict := true, false
		for i := range la {
			x, y := la[i], lb[i]
			if i == 0 && skipEmpty {
				x &^= 1
				y &^= 1
			}
			if x&^y != 0 {
				sub = false
				break
			}
			if y&^x != 0 {
				strict = true
			}
		}
		return sub && strict
	}
	return rel(false), rel(true)
}

type ipat struct {
	Pattern string
	Ignore  bool
}

// decide returns "ignore" | "keep" | "conflict" for a name, and whether the answer depends on whether the empty
// string counts as a name (then nothing is asserted).
func (r *ignoreRef) decide(pats []ipat, name string) (string, bool) {
	one := func(skipEmpty bool) string {
		var T, F []string
		for _, p := range pats {
			if globMatch(p.Pattern, name) {
				if p.Ignore {
					T = append(T, p.Pattern)
				} else {
					F = append(F, p.Pattern)
				}
			}
		}
		if len(T) == 0 {
			return "keep"
		}
		if len(F) == 0 {
			return "ignore"
		}
		ss := func(a, b string) bool {
			w, wo := r.strictSubset(a, b)
			if skipEmpty {
				return wo
			}
			return w
		}
		tAlive, fAlive := 0, 0
		for _, t := range T {
			beaten := false
			for _, f := range F {
				if ss(f, t) {
					beaten = true
				}
			}
			if !beaten {
				tAlive++
			}
		}
		for _, f := range F {
			beaten := false
			for _, t := range T {
				if ss(t, f) {
					beaten = true
				}
			}
			if !beaten {
				fAlive++
			}
		}
		switch {
		case tAlive == 0:
			return "keep"
		case fAlive == 0:
			return "ignore"
		}
		return "conflict"
	}
	a, b := one(false), one(true)
	return a, a != b
}

// equalContradiction: do two matching patterns of opposite polarity have the same language (with or without the empty name)?
func (r *ignoreRef) equalContradiction(pats []ipat, name string) bool {
	for _, t := range pats {
		if !t.Ignore || !globMatch(t.Pattern, name) {
			continue
		}
		for _, f := range pats {
			if f.Ignore || !globMatch(f.Pattern, name) {
				continue
			}
			lt, lf := r.lang(t.Pattern), r.lang(f.Pattern)
			eq := true
			for i := range lt {
				x, y := lt[i], lf[i]
				if i == 0 {
					x, y = x&^1, y&^1
				}
				if x != y {
					eq = false
					break
				}
			}
			if eq {
				return true
			}
		}
	}
	return false
}

// doltDecide asks the real matcher.
func doltDecide(pats []ipat, name string) (string, error) {
	var ip doltdb.IgnorePatterns
	for _, p := range pats {
		ip = append(ip, doltdb.NewIgnorePattern(p.Pattern, p.Ignore))
	}
	res, err := ip.IsTableNameIgnored(doltdb.TableName{Name: name})
	switch res {
	case doltdb.Ignore:
		return "ignore", nil
	case doltdb.DontIgnore:
		return "keep", nil
	case doltdb.IgnorePatternConflict:
		if doltdb.AsDoltIgnoreInConflict(err) == nil {
			return "conflict", fmt.Errorf("IgnorePatternConflict without a conflict error: %v", err)
		}
		return "conflict", nil
	}
	return "error", err
}

const c46letters = "ab_1"

func genPattern(r *rand.Rand, maxLen int) string {
	n := 1 + r.Intn(maxLen)
	b := make([]byte, n)
	for i := range b {
		switch r.Intn(10) {
		case 0, 1:
			b[i] = '%'
		case 2:
			b[i] = '*'
		case 3, 4:
			b[i] = '?'
		default:
			b[i] = c46letters[r.Intn(len(c46letters))]
		}
	}
	return string(b)
}

func genPatternSet(r *rand.Rand, maxLen int) []ipat {
	n := 1 + r.Intn(5)
	seen := map[string]bool{}
	var out []ipat
	for len(out) < n {
		var p string
		if len(out) > 0 && r.Intn(3) == 0 {
			// a variation of an earlier pattern: these are the pairs whose specificity is contested
			q := []byte(out[r.Intn(len(out))].Pattern)
			i := r.Intn(len(q))
			q[i] = "%*?ab_1"[r.Intn(7)]
			p = string(q)
			if r.Intn(3) == 0 && len(p) < maxLen {
				j := r.Intn(len(p) + 1)
				p = p[:j] + string("%*?a"[r.Intn(4)]) + p[j:]
			}
		} else {
			p = genPattern(r, maxLen)
		}
		if seen[p] {
			if len(seen) > 40 {
				break
			}
			continue
		}
		seen[p] = true
		out = append(out, ipat{p, r.Intn(2) == 0})
	}
	return out
}

// nameFor instantiates a pattern into a matching name (wildcards filled from the alphabet incl. 'z').
func nameFor(r *rand.Rand, p string, maxLen int) string {
	var b []byte
	fill := "ab_1z"
	for i := 0; i < len(p); i++ {
		switch p[i] {
		case '?':
			b = append(b, fill[r.Intn(len(fill))])
		case '*', '%':
			for k, n := 0, r.Intn(3); k < n; k++ {
				b = append(b, fill[r.Intn(len(fill))])
			}
		default:
			b = append(b, p[i])
		}
	}
	if len(b) == 0 {
		b = append(b, fill[r.Intn(len(fill))])
	}
	if len(b) > maxLen {
		b = b[:maxLen]
	}
	return string(b)
}

type c46stats struct {
	decisions, conflictsRef, ignoreRef, keepRef, contested, unsure, sets int
	scenarios, adds, commits, cleans, addConflicts                       int
	newIgnored, newKept, dropIgnored, dropKept, modified, modifiedIgnoredName, renamed int
	cleanRemoved, cleanKeptIgnored, cleanX, cleanDry, cleanNamed, cleanNamedIgnored, trackedChecked int
	unspecified, earlyConflict, matcherDeviationScenarios                                         int
}

func c46matcher(c *rig.Ctx, ref *ignoreRef, st *c46stats) {
	n := c.Pick(300, 6000)
	for i := 0; i < n && c.UnlistedViolations() < 40; i++ {
		r := c.SubRand("c46/match", i)
		pats := genPatternSet(r, 4)
		names := map[string]bool{}
		for k := 0; k < 6; k++ {
			if r.Intn(4) == 0 {
				names[nameFor(r, genPattern(r, 4), 4)] = true
			} else {
				names[nameFor(r, pats[r.Intn(len(pats))].Pattern, 4)] = true
			}
		}
		st.sets++
		c.Case("c46/match", map[string]any{"patterns": pats, "names": keysOf(names)})
		for _, name := range keysOf(names) {
			checkDecision(c, ref, pats, name, st)
		}
		c.Distinct(fmt.Sprintf("match/%v", pats))
		if i%60 == 0 {
			c.Sample(map[string]any{"kind": "matcher", "patterns": pats, "names": keysOf(names)})
		}
	}
	if c.Thorough() {
		// exhaustive over all ordered pairs (ignore, keep) of patterns of length <= 3, on names instantiating both
		var all []string
		var gen func(p string)
		gen = func(p string) {
			if len(p) > 0 {
				all = append(all, p)
			}
			if len(p) == 3 {
				return
			}
			for _, ch := range "ab_1%*?" {
				gen(p + string(ch))
			}
		}
		gen("")
		r := c.SubRand("c46/pairs", 0)
		for _, a := range all {
			for _, b := range all {
				if a == b {
					continue
				}
				pats := []ipat{{a, true}, {b, false}}
				for k := 0; k < 2; k++ {
					name := nameFor(r, []string{a, b}[k], 4)
					if globMatch(a, name) && globMatch(b, name) {
						checkDecision(c, ref, pats, name, st)
					}
				}
			}
			if c.UnlistedViolations() > 200 {
				return
			}
		}
	}
}

func keysOf(m map[string]bool) []string {
	var o []string
	for k := range m {
		o = append(o, k)
	}
	sort.Strings(o)
	return o
}

func checkDecision(c *rig.Ctx, ref *ignoreRef, pats []ipat, name string, st *c46stats) {
	want, unsure := ref.decide(pats, name)
	if unsure {
		st.unsure++
		return
	}
	got, err := doltDecide(pats, name)
	if err != nil || got == "error" {
		c.Violation("c46/match/error", fmt.Sprintf("IsTableNameIgnored failed: %v", err), map[string]any{"patterns": pats, "name": name})
		return
	}
	st.decisions++
	nT, nF := 0, 0
	for _, p := range pats {
		if globMatch(p.Pattern, name) {
			if p.Ignore {
				nT++
			} else {
				nF++
			}
		}
	}
	if nT > 0 && nF > 0 {
		st.contested++
	}
	switch want {
	case "conflict":
		st.conflictsRef++
	case "ignore":
		st.ignoreRef++
	default:
		st.keepRef++
	}
	if got != want && got == "conflict" && ref.equalContradiction(pats, name) {
		// a matching pair of opposite polarity with identical languages exists, but a more specific pattern decides the
		// name: whether "equally specific contradicting patterns are reported as a conflict" applies unconditionally is
		// not settled by the statement -> accepted, counted
		st.earlyConflict++
		return
	}
	if got != want {
		var matching []ipat
		for _, p := range pats {
			if globMatch(p.Pattern, name) {
				matching = append(matching, p)
			}
		}
		// class of the input (observation only): does a matching pattern contain the single-character wildcard?
		class := "plain-patterns"
		for _, p := range matching {
			if strings.Contains(p.Pattern, "?") {
				class = "question-mark-patterns"
			}
		}
		c.Violation("c46/match/"+class+"/want-"+want+"-got-"+got,
			fmt.Sprintf("table name %q against %v: the documented rule (most specific matching pattern wins; specificity = strict inclusion of the sets of matched names; equally specific contradicting patterns conflict) gives %q, IsTableNameIgnored gives %q", name, matching, want, got),
			map[string]any{"patterns": pats, "matching": matching, "name": name})
	}
}

// ---------------------------------------------------------------------------------------------------------
// Working sets through SQL: dolt_add('.') / dolt_add('-A') / dolt_commit('-A') and dolt_clean
// ---------------------------------------------------------------------------------------------------------

type rootView map[string]string // table name -> table hash

func viewOf(root doltdb.RootValue) rootView {
	v := rootView{}
	names, err := root.GetTableNames(bg, doltdb.DefaultSchemaName, false)
	rig.Must(err)
	for _, n := range names {
		t, ok, err := root.GetTable(bg, doltdb.TableName{Name: n})
		rig.Must(err)
		if ok {
			h, err := t.HashOf()
			rig.Must(err)
			v[n] = h.String()
		}
	}
	return v
}

func c46scenario(c *rig.Ctx, box *srvBox, ref *ignoreRef, i int, st *c46stats) {
	r := c.SubRand("c46/ws", i)
	db := fmt.Sprintf("c46_%d", i)
	x := box.srv.MustOpen("")
	defer x.Close()
	var script []string
	run := func(q string) error {
		script = append(script, q)
		c.Case("c46/ws", map[string]any{"db": db, "n": len(script), "stmt": q})
		_, err := x.Query(q)
		if err != nil {
			script[len(script)-1] += "   -- ERROR: " + firstLine(err.Error())
		}
		return err
	}
	must := func(q string) {
		if err := run(q); err != nil {
			rig.Must(fmt.Errorf("c46 setup: %s: %w", q, err))
		}
	}
	must("create database " + db)
	must("use " + db)
	defer func() {
		x.Exec("use mysql")
		x.Exec("drop database " + db)
		if i%20 == 19 {
			x.Exec("call dolt_purge_dropped_databases()")
		}
	}()
	pats := genPatternSet(r, 4)
	// the name pool: instances of the patterns plus random names; valid, distinct (case-insensitively) identifiers
	pool := map[string]bool{}
	for len(pool) < 9 {
		var n string
		if r.Intn(3) == 0 {
			n = nameFor(r, genPattern(r, 3), 4)
		} else {
			n = nameFor(r, pats[r.Intn(len(pats))].Pattern, 4)
		}
		if strings.Trim(n, "1") == "" { // all-digit names are not plain identifiers
			n = "a" + n
			if len(n) > 4 {
				n = n[:4]
			}
		}
		pool[n] = true
	}
	names := keysOf(pool)
	r.Shuffle(len(names), func(a, b int) { names[a], names[b] = names[b], names[a] })
	tracked := names[:3+r.Intn(2)]
	fresh := names[len(tracked):]
	for _, n := range tracked {
		must("create table " + qid(n) + " (pk int primary key, v int)")
		must("insert into " + qid(n) + " values (1, 1)")
	}
	must("call dolt_commit('-Am', 'base')")
	var vals []string
	for _, p := range pats {
		vals = append(vals, fmt.Sprintf("(%s, %v)", lit(p.Pattern), p.Ignore))
	}
	must("insert into dolt_ignore values " + strings.Join(vals, ", "))
	ignoreCommitted := r.Intn(2) == 0
	if ignoreCommitted {
		must("call dolt_add('--force', 'dolt_ignore')")
		must("call dolt_commit('-m', 'ignore rules')")
	}
	// working-set changes
	kind := map[string]string{}
	renFrom, renTo := "", ""
	nNew := 2 + r.Intn(3)
	for _, n := range fresh[:nNew] {
		must("create table " + qid(n) + " (pk int primary key, v int)")
		kind[n] = "new"
	}
	perm := r.Perm(len(tracked))
	k := 0
	if r.Intn(3) != 0 {
		n := tracked[perm[k]]
		k++
		must("drop table " + qid(n))
		kind[n] = "dropped"
	}
	for m := 1 + r.Intn(2); m > 0 && k < len(tracked); m-- {
		n := tracked[perm[k]]
		k++
		must("insert into " + qid(n) + " values (2, 2)")
		kind[n] = "modified"
	}
	if r.Intn(3) == 0 && k < len(tracked) && nNew < len(fresh) {
		from, to := tracked[perm[k]], fresh[nNew]
		k++
		must("rename table " + qid(from) + " to " + qid(to))
		kind[from], kind[to] = "dropped", "new"
		renFrom, renTo = from, to
		st.renamed++
	}
	for ; k < len(tracked); k++ {
		kind[tracked[perm[k]]] = "unchanged"
	}
	if !ignoreCommitted {
		kind["dolt_ignore"] = "new"
	}
	ddb, err := box.srv.OpenDoltDB(db)
	rig.Must(err)
	roots, err := sqlrig.BranchRoots(ddb, "main")
	rig.Must(err)
	before := map[string]rootView{"head": viewOf(roots.Head), "staged": viewOf(roots.Staged), "working": viewOf(roots.Working)}
	decision := map[string]string{}
	unsure := false
	anyConflict, changeConflict := false, false
	var allNames []string
	for n := range kind {
		allNames = append(allNames, n)
	}
	sort.Strings(allNames)
	for _, n := range allNames {
		d, u := ref.decide(pats, n)
		decision[n] = d
		unsure = unsure || u
		if d == "conflict" {
			anyConflict = true
			if kind[n] == "new" || kind[n] == "dropped" {
				changeConflict = true
			}
		}
	}
	if renFrom != "" && (decision[renFrom] != "keep" || decision[renTo] != "keep") {
		// a rename whose old or new name is ignored is neither just "a dropped table" nor just "a new table": not asserted
		kind[renFrom], kind[renTo] = "rename-unasserted", "rename-unasserted"
		st.unspecified++
	}
	witness := func(extra map[string]any) map[string]any {
		extra["script"] = script
		extra["patterns"] = pats
		extra["kinds"] = kind
		extra["reference_decisions"] = decision
		return extra
	}
	st.scenarios++
	if unsure {
		st.unspecified++
		return
	}
	for _, n := range allNames {
		if got, err := doltDecide(pats, n); err != nil || got != decision[n] {
			// the matcher itself deviates for a table of this working set: reported under c46/match/..., and the
			// staging / cleaning expectations (which are relative to the rules) are not evaluated on top of it
			checkDecision(c, ref, pats, n, st)
			st.matcherDeviationScenarios++
			return
		}
	}
	action := []string{"call dolt_add('.')", "call dolt_add('-A')", "call dolt_commit('-A', '-m', 'all')"}[r.Intn(3)]
	isCommit := strings.Contains(action, "dolt_commit")
	err = run(action)
	roots, rerr := sqlrig.BranchRoots(ddb, "main")
	rig.Must(rerr)
	after := viewOf(roots.Staged)
	if isCommit {
		after = viewOf(roots.Head)
		st.commits++
	} else {
		st.adds++
	}
	switch {
	case err != nil && strings.Contains(err.Error(), "conflicting patterns"):
		st.addConflicts++
		if !anyConflict {
			c.Violation("c46/add/conflict-reported-without-conflict", action+" reports a dolt_ignore conflict, the reference finds none for any table: "+firstLine(err.Error()), witness(map[string]any{}))
		}
		// nothing may have been staged / committed by the failed call
		if !sameView(after, pickView(before, isCommit)) {
			c.Violation("c46/add/failed-call-changed-roots", action+" failed but changed the staged/committed tables", witness(map[string]any{}))
		}
		goto clean
	case err != nil && isCommit && strings.Contains(err.Error(), "nothing to commit"):
		// evaluated below like a successful call that changed nothing: the per-table checks name what is missing
	case err != nil:
		c.Violation("c46/add/unexpected-error", action+" failed: "+firstLine(err.Error()), witness(map[string]any{}))
		goto clean
	}
	if changeConflict {
		c.Violation("c46/add/conflict-not-reported", action+" succeeded although a new or dropped table matches equally specific contradicting patterns", witness(map[string]any{}))
		goto clean
	}
	if anyConflict {
		st.unspecified++ // a conflicting name among tracked tables only: the statement does not say
		goto clean
	}
	for _, n := range allNames {
		_, inAfter := after[n]
		w := before["working"][n]
		s, inStagedBefore := before["staged"][n]
		switch kind[n] {
		case "new":
			if decision[n] == "ignore" {
				st.newIgnored++
				if inAfter {
					c.Violation("c46/add/ignored-new-table-staged", fmt.Sprintf("%s staged/committed the new table %q whose name is ignored", action, n), witness(map[string]any{"table": n}))
				}
			} else {
				st.newKept++
				if !inAfter || after[n] != w {
					c.Violation("c46/add/new-table-not-staged", fmt.Sprintf("%s did not stage/commit the new, non-ignored table %q", action, n), witness(map[string]any{"table": n}))
				}
			}
		case "dropped":
			if decision[n] == "ignore" {
				st.dropIgnored++
				if !inAfter {
					c.Violation("c46/add/ignored-drop-staged", fmt.Sprintf("%s staged/committed the drop of table %q whose name is ignored", action, n), witness(map[string]any{"table": n}))
				}
			} else {
				st.dropKept++
				if inAfter {
					c.Violation("c46/add/drop-not-staged", fmt.Sprintf("%s did not stage/commit the drop of the non-ignored table %q", action, n), witness(map[string]any{"table": n}))
				}
			}
		case "modified":
			st.modified++
			key := "c46/add/tracked-modification-not-staged"
			if decision[n] == "ignore" {
				st.modifiedIgnoredName++
				key += "/name-matches-ignore-pattern"
			}
			if !inAfter || after[n] != w {
				c.Violation(key, fmt.Sprintf("%s did not stage/commit the modification of the tracked table %q (every change other than an ignored new or dropped table must be staged)", action, n), witness(map[string]any{"table": n}))
			}
		case "unchanged":
			if !inAfter || (inStagedBefore && after[n] != s) {
				c.Violation("c46/add/unchanged-table-touched", fmt.Sprintf("%s changed the unchanged tracked table %q", action, n), witness(map[string]any{"table": n}))
			}
		}
	}
clean:
	c46clean(c, x, ddb, ref, pats, r, &script, st)
	c.Distinct(fmt.Sprintf("ws/%v/%v/%s", pats, kind, action))
	if i%12 == 0 {
		c.Sample(map[string]any{"kind": "working-set", "script": script, "reference_decisions": decision})
	}
}

func pickView(m map[string]rootView, commit bool) rootView {
	if commit {
		return m["head"]
	}
	return m["staged"]
}

func sameView(a, b rootView) bool {
	if len(a) != len(b) {
		return false
	}
	for k, v := range a {
		if b[k] != v {
			return false
		}
	}
	return true
}

func c46clean(c *rig.Ctx, x *sqlrig.Session, ddb *doltdb.DoltDB, ref *ignoreRef, pats []ipat, r *rand.Rand, script *[]string, st *c46stats) {
	// a few more untracked tables, instances of the patterns
	for k, n := 0, 1+r.Intn(3); k < n; k++ {
		name := nameFor(r, pats[r.Intn(len(pats))].Pattern, 4)
		if strings.Trim(name, "1") == "" {
			name = "b" + name
		}
		q := "create table if not exists " + qid(name) + " (pk int primary key, v int)"
		*script = append(*script, q)
		x.Exec(q)
	}
	roots, err := sqlrig.BranchRoots(ddb, "main")
	rig.Must(err)
	staged, working := viewOf(roots.Staged), viewOf(roots.Working)
	var untracked []string
	decision := map[string]string{}
	unsure, conflict := false, false
	for n := range working {
		if _, ok := staged[n]; !ok {
			untracked = append(untracked, n)
			d, u := ref.decide(pats, n)
			decision[n] = d
			unsure = unsure || u
			conflict = conflict || d == "conflict"
		}
	}
	sort.Strings(untracked)
	for n := range working {
		d, u := ref.decide(pats, n)
		unsure = unsure || u
		conflict = conflict || d == "conflict"
		if got, err := doltDecide(pats, n); err != nil || got != d {
			checkDecision(c, ref, pats, n, st)
			st.matcherDeviationScenarios++
			return
		}
	}
	if unsure || len(untracked) == 0 {
		st.unspecified++
		return
	}
	variant := r.Intn(6)
	var args []string
	var named []string
	switch variant {
	case 0, 1:
	case 2:
		args = []string{"'-x'"}
	case 3:
		args = []string{"'--dry-run'"}
	case 4:
		args = []string{"'--dry-run'", "'-x'"}
	default:
		for _, n := range untracked {
			if r.Intn(2) == 0 {
				named = append(named, n)
			}
		}
		if len(named) == 0 {
			named = append([]string(nil), untracked[0])
		}
		if r.Intn(3) == 0 {
			for n := range staged { // also name a tracked table: it must survive
				if n != "dolt_ignore" {
					named = append(named, n)
					break
				}
			}
		}
		for _, n := range named {
			args = append(args, lit(n))
		}
	}
	q := "call dolt_clean(" + strings.Join(args, ", ") + ")"
	*script = append(*script, q)
	c.Case("c46/clean", map[string]any{"stmt": q})
	_, cerr := x.Query(q)
	roots, err = sqlrig.BranchRoots(ddb, "main")
	rig.Must(err)
	afterW, afterS := viewOf(roots.Working), viewOf(roots.Staged)
	st.cleans++
	w := func(extra map[string]any) map[string]any {
		extra["script"] = *script
		extra["patterns"] = pats
		extra["untracked"] = untracked
		extra["reference_decisions"] = decision
		return extra
	}
	// tracked tables and their data are never touched, whatever else happens
	for n, h := range staged {
		st.trackedChecked++
		if afterS[n] != h {
			c.Violation("c46/clean/staged-root-changed", fmt.Sprintf("%s changed the staged table %q", q, n), w(map[string]any{"table": n}))
		}
		if working[n] != "" && afterW[n] != working[n] {
			c.Violation("c46/clean/tracked-table-touched", fmt.Sprintf("%s removed or changed the tracked table %q", q, n), w(map[string]any{"table": n}))
		}
	}
	if cerr != nil {
		(*script)[len(*script)-1] += "   -- ERROR: " + firstLine(cerr.Error())
		if !sameView(afterW, working) {
			c.Violation("c46/clean/failed-call-removed-tables", q+" failed but changed the working set", w(map[string]any{}))
		}
		if strings.Contains(cerr.Error(), "conflicting patterns") && conflict {
			st.unspecified++
			return
		}
		if variant == 5 {
			st.unspecified++ // naming a tracked table may be refused
			return
		}
		c.Violation("c46/clean/unexpected-error", q+" failed: "+firstLine(cerr.Error()), w(map[string]any{}))
		return
	}
	dry := variant == 3 || variant == 4
	incl := variant == 2 || variant == 4
	if dry {
		st.cleanDry++
	}
	if incl {
		st.cleanX++
	}
	if conflict && !incl && variant != 5 {
		st.unspecified++ // a name in conflict is neither "ignored" nor "not ignored"
		return
	}
	for _, n := range untracked {
		_, still := afterW[n]
		isNamed := false
		for _, m := range named {
			if m == n {
				isNamed = true
			}
		}
		var wantRemoved bool
		switch {
		case dry:
			wantRemoved = false
		case variant == 5:
			if !isNamed {
				wantRemoved = false
			} else if decision[n] == "ignore" || decision[n] == "conflict" {
				st.cleanNamedIgnored++ // explicitly named but ignored: the statement does not say; observed only
				if !still {
					c.Count("c46.clean_named_ignored_table_was_removed", 1)
				}
				continue
			} else {
				wantRemoved = true
				st.cleanNamed++
			}
		default:
			wantRemoved = incl || decision[n] != "ignore"
		}
		if wantRemoved {
			st.cleanRemoved++
		} else if decision[n] == "ignore" {
			st.cleanKeptIgnored++
		}
		if wantRemoved && still {
			c.Violation("c46/clean/untracked-table-not-removed", fmt.Sprintf("%s left the untracked table %q (reference: %s)", q, n, decision[n]), w(map[string]any{"table": n}))
		}
		if !wantRemoved && !still {
			key := "c46/clean/removed-too-much"
			if dry {
				key = "c46/clean/dry-run-removed"
			} else if decision[n] == "ignore" {
				key = "c46/clean/ignored-table-removed-without-x"
			}
			c.Violation(key, fmt.Sprintf("%s removed the table %q (reference: %s)", q, n, decision[n]), w(map[string]any{"table": n}))
		}
	}
}

func c46(c *rig.Ctx) {
	c.Rule("reference matcher: a pattern's language is enumerated over {a,b,_,1,z} up to length 7 ('?' one character, '*'/'%' any " +
		"sequence), 'A more specific than B' <=> L(A) strictly inside L(B), winners = matching patterns without a strictly more " +
		"specific opponent, both polarities surviving = conflict. Stage 1: seeded sets of 1-5 patterns of length <= 4 over " +
		"{a,b,_,1,%,*,?} (with near-duplicates of each other) x 6 names instantiating them, IsTableNameIgnored vs the reference. " +
		"Stage 2: databases with 3-4 committed tables, a dolt_ignore table (committed or not), new / dropped / modified / renamed " +
		"tables, then dolt_add('.') | dolt_add('-A') | dolt_commit('-A'): the staged (committed) root read through the Go API must " +
		"contain exactly the non-ignored changes; then dolt_clean with (), -x, --dry-run, --dry-run -x or named tables: the set of " +
		"removed tables must be {untracked and (not ignored or -x)}, tracked tables untouched. Distinct = pattern set (+ change kinds + action)")
	c.Assume("pairs of patterns whose languages differ only on the empty name (e.g. '%' vs '%?') are not decided by the definition: skipped and counted")
	c.Assume("'untracked' = absent from the staged root; an explicitly named ignored table passed to dolt_clean is not asserted either way")
	ref := newIgnoreRef("ab_1z", 7)
	st := &c46stats{}
	c46matcher(c, ref, st)
	box := startBox(c, "c46")
	defer box.close()
	n := c.Pick(60, 1500)
	for i := 0; i < n && c.UnlistedViolations() < 60; i++ {
		c46scenario(c, box, ref, i, st)
	}
	c.Count("c46.pattern_sets", st.sets)
	c.Count("c46.matcher_decisions_compared", st.decisions)
	c.Count("c46.decisions_with_both_polarities_matching", st.contested)
	c.Count("c46.reference_conflict", st.conflictsRef)
	c.Count("c46.reference_ignore", st.ignoreRef)
	c.Count("c46.reference_keep", st.keepRef)
	c.Count("c46.undecided_empty_name_cases", st.unsure)
	c.Count("c46.working_sets", st.scenarios)
	c.Count("c46.add_calls", st.adds)
	c.Count("c46.commit_A_calls", st.commits)
	c.Count("c46.add_conflict_errors", st.addConflicts)
	c.Count("c46.new_tables_ignored", st.newIgnored)
	c.Count("c46.new_tables_not_ignored", st.newKept)
	c.Count("c46.drops_ignored", st.dropIgnored)
	c.Count("c46.drops_not_ignored", st.dropKept)
	c.Count("c46.modified_tracked", st.modified)
	c.Count("c46.modified_tracked_with_ignored_name", st.modifiedIgnoredName)
	c.Count("c46.renames", st.renamed)
	c.Count("c46.clean_calls", st.cleans)
	c.Count("c46.clean_expected_removals", st.cleanRemoved)
	c.Count("c46.clean_ignored_tables_expected_to_stay", st.cleanKeptIgnored)
	c.Count("c46.clean_with_x", st.cleanX)
	c.Count("c46.clean_dry_run", st.cleanDry)
	c.Count("c46.clean_named_tables", st.cleanNamed)
	c.Count("c46.clean_named_but_ignored_unasserted", st.cleanNamedIgnored)
	c.Count("c46.tracked_tables_checked_untouched", st.trackedChecked)
	c.Count("c46.scenarios_or_calls_unspecified", st.unspecified)
	c.Count("c46.conflict_accepted_for_equal_language_pair_below_a_more_specific_pattern", st.earlyConflict)
	c.Count("c46.working_sets_skipped_because_matcher_deviates", st.matcherDeviationScenarios)
	c.Require(st.contested > 0 && st.conflictsRef > 0, "no name matched patterns of both polarities / no reference conflict")
	c.Require(st.newIgnored > 0 && st.newKept > 0 && st.dropKept > 0 && st.modified > 0, "add/commit scenarios did not cover ignored and non-ignored changes")
	c.Require(st.cleanRemoved > 0 && st.cleanKeptIgnored > 0 && st.cleanX > 0 && st.cleanDry > 0, "dolt_clean variants not all exercised")
}
