package vtables

import (
	"fmt"
	"math/rand"
	"os"
	"path/filepath"
	"sort"
	"strings"

	"verif/rig"
	"verif/sqlrig"
)

type c47stats struct {
	scenarios, steps, drops, creates, undropsOK, undropRefusedLive, undropRefusedMissing, undropRefusedPurged int
	purges, restarts, restartBetween, secondDrops, backupsSeen, caseVariantUndrops, caseAmbiguous           int
	fingerprints, fpComponents, mangled, rootDB, nested, withStash, withStaged, withWorking                int
	dropMissingRefused, createRefused, strayDirs                                                         int
}

// c47content fills database db (already created, current) with a small repository: commits, branches, a tag,
// staged + unstaged working changes on two branches, an untracked table and a stash. marker makes it unique.
func c47content(x *sqlrig.Session, r *rand.Rand, marker string, st *c47stats) error {
	stmts := []string{
		"create table t1 (pk int primary key, v varchar(40))",
		fmt.Sprintf("insert into t1 values (1, %s), (2, 'two')", lit(marker)),
		"call dolt_commit('-Am', 'c1 " + marker + "')",
	}
	if r.Intn(2) == 0 {
		stmts = append(stmts, "create table kl (a int, b varchar(10), key ib (b))", "insert into kl values (1,'x'),(1,'x'),(2,null)", "call dolt_commit('-Am', 'c2')")
	}
	stmts = append(stmts, "call dolt_tag('v1', 'HEAD', '-m', 'tag "+marker+"')", "call dolt_branch('b1')")
	if r.Intn(2) == 0 {
		stmts = append(stmts, "call dolt_checkout('b1')", "insert into t1 values (10, 'on b1')", "call dolt_commit('-Am', 'b1 work')",
			"insert into t1 values (11, 'b1 uncommitted')", "call dolt_checkout('main')")
	}
	stmts = append(stmts, "insert into t1 values (3, 'three')", "call dolt_commit('-Am', 'c3')")
	if r.Intn(2) == 0 {
		stmts = append(stmts, "call dolt_branch('b2', 'HEAD~1')", "call dolt_tag('v2', 'b2')")
	}
	if r.Intn(3) != 0 { // stash
		stmts = append(stmts, "update t1 set v = 'stashed' where pk = 2", "call dolt_stash('push', 's1')")
		st.withStash++
	}
	if r.Intn(3) != 0 { // staged change
		stmts = append(stmts, "insert into t1 values (4, 'staged')", "call dolt_add('t1')")
		st.withStaged++
	}
	if r.Intn(4) != 0 { // unstaged change + untracked table
		stmts = append(stmts, "insert into t1 values (5, 'unstaged')", "create table scratch (pk int primary key, note text)", "insert into scratch values (1, "+lit(marker)+")")
		st.withWorking++
	}
	return execAll(x, stmts...)
}

type c47db struct {
	name    string // exact case
	fp      sqlrig.Fingerprint
	marker  string
	dropSeq int
}

type c47world struct {
	c       *rig.Ctx
	box     *srvBox
	st      *c47stats
	live    map[string]*c47db // lower(name) -> db
	dropped []*c47db          // in drop order; a later drop of the same exact name turns the earlier one into a backup
	backup  map[*c47db]bool
	purged  bool
	script  []string
	seq     int
	dataDir string
}

func (w *c47world) fingerprint(name string) sqlrig.Fingerprint {
	y := w.box.srv.MustOpen("")
	defer y.Close()
	w.st.fingerprints++
	fp := sqlrig.TakeFingerprint(y, name, sqlrig.FingerprintOptions{})
	w.st.fpComponents += len(fp)
	return fp
}

func (w *c47world) witness(extra map[string]any) map[string]any {
	if extra == nil {
		extra = map[string]any{}
	}
	extra["script"] = append([]string(nil), w.script...)
	return extra
}

func (w *c47world) exec(x *sqlrig.Session, q string) error {
	w.script = append(w.script, q)
	w.c.Case("c47/step", map[string]any{"n": len(w.script), "stmt": q})
	_, err := x.Query(q)
	if err != nil {
		w.script[len(w.script)-1] += "   -- ERROR: " + firstLine(err.Error())
	}
	return err
}

func (w *c47world) droppedMatches(name string) (exact *c47db, folded []*c47db) {
	for _, d := range w.dropped {
		if w.backup[d] {
			continue
		}
		if d.name == name {
			exact = d
		}
		if strings.EqualFold(d.name, name) {
			folded = append(folded, d)
		}
	}
	return
}

// checkLive verifies that exactly the model's databases exist and that each still has its fingerprint.
func (w *c47world) checkLive(x *sqlrig.Session, when string) { w.checkLiveOpt(x, when, true) }

// checkNames only compares the set of databases (used after steps that cannot alter a database's content).
func (w *c47world) checkNames(x *sqlrig.Session, when string) { w.checkLiveOpt(x, when, false) }

func (w *c47world) checkLiveOpt(x *sqlrig.Session, when string, deep bool) {
	r, err := x.Query("show databases")
	if err != nil {
		w.c.Violation("c47/read/show-databases", err.Error(), w.witness(nil))
		return
	}
	got := map[string]bool{}
	for _, row := range r.Data {
		if row[0] != "information_schema" && row[0] != "mysql" {
			got[row[0]] = true
		}
	}
	for _, d := range w.live {
		if !got[d.name] {
			w.c.Violation("c47/live/database-missing", fmt.Sprintf("database %q should exist %s", d.name, when), w.witness(map[string]any{"databases": keysOf(got)}))
			continue
		}
		delete(got, d.name)
		if !deep {
			continue
		}
		if diff := d.fp.Diff(w.fingerprint(d.name)); len(diff) > 0 {
			w.c.Violation("c47/live/database-altered", fmt.Sprintf("database %q changed %s", d.name, when), w.witness(map[string]any{"diff": head(diff, 12)}))
		}
	}
	for n := range got {
		w.c.Violation("c47/live/unexpected-database", fmt.Sprintf("database %q exists %s but should not", n, when), w.witness(nil))
	}
}

func (w *c47world) create(x *sqlrig.Session, r *rand.Rand, name string) {
	_, exists := w.live[strings.ToLower(name)]
	err := w.exec(x, "create database "+qid(name))
	if exists {
		w.st.createRefused++
		if err == nil {
			w.c.Violation("c47/create/duplicate-accepted", "CREATE DATABASE succeeded although a database of the same case-insensitive name exists", w.witness(nil))
		}
		return
	}
	if err != nil {
		var listing []string
		filepath.Walk(w.dataDir, func(p string, info os.FileInfo, err error) error {
			if rel, _ := filepath.Rel(w.dataDir, p); strings.Count(rel, string(os.PathSeparator)) <= 2 && !strings.Contains(rel, "noms") {
				listing = append(listing, rel)
			}
			return nil
		})
		w.c.Violation("c47/create/error", "CREATE DATABASE failed: "+firstLine(err.Error()), w.witness(map[string]any{"data_dir": listing}))
		return
	}
	w.seq++
	marker := fmt.Sprintf("%s#%d", name, w.seq)
	rig.Must(execAll(x, "use "+qid(name)))
	if err := c47content(x, r, marker, w.st); err != nil {
		rig.Must(fmt.Errorf("c47 content: %w", err))
	}
	rig.Must(execAll(x, "use mysql"))
	w.live[strings.ToLower(name)] = &c47db{name: name, fp: w.fingerprint(name), marker: marker}
	w.st.creates++
}

func (w *c47world) drop(x *sqlrig.Session, name string) {
	d, exists := w.live[strings.ToLower(name)]
	err := w.exec(x, "drop database "+qid(name))
	if !exists {
		w.st.dropMissingRefused++
		if err == nil {
			w.c.Violation("c47/drop/missing-accepted", "DROP DATABASE of a non-existent database succeeded", w.witness(nil))
		}
		return
	}
	if err != nil {
		w.c.Violation("c47/drop/error", "DROP DATABASE failed: "+firstLine(err.Error()), w.witness(nil))
		return
	}
	delete(w.live, strings.ToLower(name))
	for _, old := range w.dropped {
		if !w.backup[old] && old.name == d.name {
			w.backup[old] = true // the holding area already has a copy of this exact name: it must be kept aside, not lost
			w.st.secondDrops++
		}
	}
	w.seq++
	d.dropSeq = w.seq
	w.dropped = append(w.dropped, d)
	w.purged = false
	w.st.drops++
	// the first copy must still be somewhere in the holding directory (not silently lost)
	nBackups := 0
	for _, old := range w.dropped {
		if w.backup[old] {
			nBackups++
		}
	}
	if nBackups > 0 {
		ents, _ := os.ReadDir(filepath.Join(w.dataDir, ".dolt_dropped_databases"))
		found := 0
		for _, e := range ents {
			if strings.Contains(e.Name(), ".backup.") {
				if _, err := os.Stat(filepath.Join(w.dataDir, ".dolt_dropped_databases", e.Name(), ".dolt")); err == nil {
					found++
				}
			}
		}
		w.st.backupsSeen += found
		if found < nBackups {
			w.c.Violation("c47/drop/earlier-dropped-copy-lost", fmt.Sprintf("%d earlier dropped copies should be kept aside in the holding directory, %d found", nBackups, found), w.witness(map[string]any{"holding_dir": dirNames(ents)}))
		}
	}
}

func dirNames(ents []os.DirEntry) []string {
	var o []string
	for _, e := range ents {
		o = append(o, e.Name())
	}
	return o
}

func (w *c47world) undrop(x *sqlrig.Session, name string) {
	liveDB, liveExists := w.live[strings.ToLower(name)]
	exact, folded := w.droppedMatches(name)
	err := w.exec(x, "call dolt_undrop("+lit(name)+")")
	switch {
	case len(folded) == 0:
		if w.purged {
			w.st.undropRefusedPurged++
		} else {
			w.st.undropRefusedMissing++
		}
		if err == nil {
			key := "c47/undrop/nothing-to-restore-accepted"
			if w.purged {
				key = "c47/undrop/succeeded-after-purge"
			}
			w.c.Violation(key, "dolt_undrop succeeded although no dropped copy of that name is available", w.witness(nil))
		}
	case liveExists:
		w.st.undropRefusedLive++
		if err == nil {
			w.c.Violation("c47/undrop/overwrote-existing", fmt.Sprintf("dolt_undrop(%q) succeeded while database %q exists", name, liveDB.name), w.witness(nil))
		}
		// the existing database must be unaltered: verified by checkLive after the step
	default:
		if err != nil {
			key := "c47/undrop/error"
			if strings.Contains(err.Error(), "already exists") {
				key = "c47/undrop/refused-although-no-database-of-that-name-exists"
			}
			var listing []string
			filepath.Walk(w.dataDir, func(p string, info os.FileInfo, err error) error {
				if rel, _ := filepath.Rel(w.dataDir, p); strings.Count(rel, string(os.PathSeparator)) <= 2 && !strings.Contains(rel, "noms") {
					listing = append(listing, rel)
				}
				return nil
			})
			dbs, _ := x.Query("show databases")
			w.c.Violation(key, "dolt_undrop failed although a dropped copy exists and no live database has that name: "+firstLine(err.Error()), w.witness(map[string]any{"data_dir": listing, "show_databases": dbs.Strings()}))
			return
		}
		// which copy came back? identify it by its fingerprint
		var restored *c47db
		var restoredName string
		r, _ := x.Query("show databases")
		for _, cand := range folded {
			for _, row := range r.Data {
				if row[0] == cand.name {
					restoredName = cand.name
				}
			}
		}
		if restoredName == "" {
			w.c.Violation("c47/undrop/not-visible", "dolt_undrop succeeded but no database of that name is listed", w.witness(map[string]any{"databases": r.Strings()}))
			return
		}
		fp := w.fingerprint(restoredName)
		for _, cand := range folded {
			if cand.name == restoredName && len(cand.fp.Diff(fp)) == 0 {
				restored = cand
			}
		}
		if restored == nil {
			// not identical to the dropped copy of that name: report the difference against the best candidate
			var best *c47db
			for _, cand := range folded {
				if cand.name == restoredName {
					best = cand
				}
			}
			key := "c47/undrop/fingerprint-differs"
			for _, b := range w.dropped {
				if w.backup[b] && len(b.fp.Diff(fp)) == 0 {
					key = "c47/undrop/restored-an-older-dropped-copy"
				}
			}
			w.c.Violation(key, fmt.Sprintf("database %q restored by dolt_undrop(%q) is not what was dropped", restoredName, name), w.witness(map[string]any{"diff": head(best.fp.Diff(fp), 14)}))
			// adopt what is there so that the scenario can go on
			restored = &c47db{name: restoredName, fp: fp}
			for i, d := range w.dropped {
				if d == best {
					w.dropped = append(w.dropped[:i], w.dropped[i+1:]...)
					break
				}
			}
		} else {
			for i, d := range w.dropped {
				if d == restored {
					w.dropped = append(w.dropped[:i], w.dropped[i+1:]...)
					break
				}
			}
		}
		if exact != nil && restored.name != name {
			w.st.caseAmbiguous++
			w.c.Violation("c47/undrop/case-variant-restored-instead-of-named-copy",
				fmt.Sprintf("dolt_undrop(%q): a dropped database named exactly %q exists, but the differently-cased %q was restored instead", name, name, restored.name), w.witness(nil))
		}
		if restored.name != name {
			w.st.caseVariantUndrops++
		}
		w.live[strings.ToLower(restored.name)] = restored
		w.st.undropsOK++
	}
}

func (w *c47world) purge(x *sqlrig.Session) {
	if err := w.exec(x, "call dolt_purge_dropped_databases()"); err != nil {
		w.c.Violation("c47/purge/error", firstLine(err.Error()), w.witness(nil))
		return
	}
	w.dropped = nil
	w.backup = map[*c47db]bool{}
	w.purged = true
	w.st.purges++
}

var c47names = [][]string{
	{"alpha", "Alpha", "ALPHA"},
	{"beta_1", "Beta_1"},
	{"my-db", "My-Db"},
	{"with space", "With Space"},
	{"gamma"},
}

// disableStats switches the background statistics worker off for this data directory (persisted global, effective
// after a restart) so that nothing but the scenario's own statements touches the database directories.
func disableStats(box *srvBox) {
	x := box.srv.MustOpen("mysql")
	rig.Must(execAll(x, "set @@persist.dolt_stats_enabled = 0"))
	x.Close()
	box.restart()
}

func c47scenario(c *rig.Ctx, box *srvBox, i int, st *c47stats, label string) {
	r := c.SubRand("c47/"+label, i)
	x := box.srv.MustOpen("mysql")
	x.Exec("call dolt_stats_stop()")
	w := &c47world{c: c, box: box, st: st, live: map[string]*c47db{}, backup: map[*c47db]bool{}, dataDir: box.srv.Dir}
	c.Case("c47/scenario", map[string]any{"i": i, "label": label})
	st.scenarios++
	// 1-3 databases
	fams := r.Perm(len(c47names))[:1+r.Intn(3)]
	var pool []string
	first := map[int]string{}
	for _, f := range fams {
		pool = append(pool, c47names[f]...)
		first[f] = c47names[f][r.Intn(len(c47names[f]))]
		w.create(x, r, first[f])
	}
	nsteps := 3 + r.Intn(4)
	lastDropAt := map[string]int{}
	switch i % 4 { // (index-driven, so that every run contains both sequences)
	case 0:
		// the contested sequence: drop, re-create under the same (or a differently-cased) name, drop again, restore
		fam := c47names[fams[0]]
		second := fam[r.Intn(len(fam))]
		if i%8 == 0 {
			second = first[fams[0]] // exactly the same name twice
		}
		w.drop(x, first[fams[0]])
		w.checkNames(x, "after first drop")
		w.create(x, r, second)
		if r.Intn(2) == 0 {
			w.undrop(x, first[fams[0]]) // must be refused: the name is taken
			w.checkLive(x, "after refused undrop")
		}
		w.drop(x, second)
		w.checkNames(x, "after second drop")
		w.undrop(x, second)
		w.checkLive(x, "after undrop following two drops")
		st.steps += 4
		nsteps -= 2
	case 1:
		// drop, (restart,) purge, restore: must be refused
		w.drop(x, first[fams[0]])
		if i%8 == 1 {
			x.Close()
			w.script = append(w.script, "-- server restart")
			box.restart()
			w.dataDir = box.srv.Dir
			x = box.srv.MustOpen("mysql")
			st.restarts++
			st.restartBetween++
		}
		w.purge(x)
		w.undrop(x, first[fams[0]])
		w.checkLive(x, "after undrop following a purge")
		st.steps += 3
		nsteps -= 2
	}
	for s := 0; s < nsteps && c.UnlistedViolations() < 12; s++ {
		st.steps++
		name := pool[r.Intn(len(pool))]
		// bias towards meaningful steps
		_, isLive := w.live[strings.ToLower(name)]
		_, folded := w.droppedMatches(name)
		switch k := r.Intn(12); {
		case k < 4:
			if !isLive && r.Intn(4) != 0 && len(w.live) > 0 {
				var ks []string
				for k := range w.live {
					ks = append(ks, k)
				}
				sort.Strings(ks)
				name = w.live[ks[r.Intn(len(ks))]].name
			}
			w.drop(x, name)
			lastDropAt[strings.ToLower(name)] = s
		case k < 6:
			w.create(x, r, name)
		case k < 10:
			if len(folded) == 0 && len(w.dropped) > 0 && r.Intn(4) != 0 {
				name = w.dropped[r.Intn(len(w.dropped))].name
				if r.Intn(3) == 0 {
					name = strings.ToUpper(name)
				}
			}
			w.undrop(x, name)
		case k < 11:
			w.purge(x)
		default:
			x.Close()
			w.script = append(w.script, "-- server restart")
			box.restart()
			w.dataDir = box.srv.Dir
			x = box.srv.MustOpen("mysql")
			x.Exec("call dolt_stats_stop()")
			st.restarts++
			if len(w.dropped) > 0 {
				st.restartBetween++
			}
		}
		last := w.script[len(w.script)-1]
		if strings.Contains(last, "dolt_undrop") || strings.Contains(last, "restart") || s == nsteps-1 {
			w.checkLive(x, "after step "+last)
		} else {
			w.checkNames(x, "after step "+last)
		}
	}
	// final: everything still droppable / restorable once more, then clean up
	for _, d := range w.live {
		x.Exec("drop database " + qid(d.name))
	}
	x.Exec("call dolt_purge_dropped_databases()")
	x.Close()
	var names []string
	for _, f := range fams {
		names = append(names, c47names[f][0])
	}
	sort.Strings(names)
	c.Distinct(fmt.Sprintf("%s/%v/%v", label, names, stripErrors(w.script)))
	if i%8 == 0 {
		c.Sample(map[string]any{"kind": label, "script": w.script})
	}
}

func stripErrors(s []string) []string {
	var o []string
	for _, q := range s {
		if i := strings.Index(q, "   -- ERROR"); i >= 0 {
			q = q[:i]
		}
		if strings.HasPrefix(q, "drop") || strings.HasPrefix(q, "call") || strings.HasPrefix(q, "create") || strings.HasPrefix(q, "--") {
			o = append(o, q)
		}
	}
	return o
}

// c47root: the server's own directory is a database (plus a nested one); dropping it moves only its .dolt directory.
func c47root(c *rig.Ctx, i int, st *c47stats) {
	r := c.SubRand("c47/root", i)
	parent := c.TempDir("c47root")
	defer os.RemoveAll(parent)
	srv, err := sqlrig.Start(parent)
	rig.Must(err)
	x := srv.MustOpen("mysql")
	rig.Must(execAll(x, "create database `data`", "use `data`")) // <parent>/data is what srvBox.restart serves
	rig.Must(c47content(x, r, fmt.Sprintf("root#%d", i), st))
	x.Close()
	rig.Must(srv.Stop())
	os.RemoveAll(filepath.Join(filepath.Dir(parent), "home-"+filepath.Base(parent)))
	box := &srvBox{c: c, dir: parent}
	// the same process keeps the store of <parent>/data open (singleton cache), so a server started INSIDE that
	// directory shares it, exactly like a restart
	box.srv, err = sqlrig.Start(filepath.Join(parent, "data"))
	rig.Must(err)
	defer func() {
		box.srv.Stop()
		os.RemoveAll(filepath.Join(parent, "home-data"))
	}()
	disableStats(box)
	x = box.srv.MustOpen("mysql")
	w := &c47world{c: c, box: box, st: st, live: map[string]*c47db{}, backup: map[*c47db]bool{}, dataDir: box.srv.Dir}
	c.Case("c47/root", map[string]any{"i": i})
	st.scenarios++
	rd, err := x.Query("show databases")
	rig.Must(err)
	rootName := ""
	for _, row := range rd.Data {
		if row[0] != "information_schema" && row[0] != "mysql" {
			rootName = row[0]
		}
	}
	if rootName == "" {
		c.Inconclusive("root-directory database not exposed by the server")
		return
	}
	w.script = append(w.script, "-- server started inside the directory of database "+rootName)
	w.live[strings.ToLower(rootName)] = &c47db{name: rootName, fp: w.fingerprint(rootName)}
	w.create(x, r, "nested")
	st.nested++
	w.checkLive(x, "at start")
	w.drop(x, rootName)
	w.checkLive(x, "after dropping the root-directory database")
	if r.Intn(2) == 0 {
		x.Close()
		w.script = append(w.script, "-- server restart")
		box.restart()
		x = box.srv.MustOpen("mysql")
		x.Exec("call dolt_stats_stop()")
		st.restarts++
		st.restartBetween++
	}
	w.undrop(x, rootName)
	w.checkLive(x, "after restoring the root-directory database")
	st.rootDB++
	w.drop(x, "nested")
	w.undrop(x, "NESTED")
	w.checkLive(x, "after restoring the nested database")
	x.Close()
	c.Distinct(fmt.Sprintf("root/%d", i))
}

// c47withStatistics: everything above runs with the background statistics worker stopped (it writes into the
// directory of the database that hosts the statistics store at times of its own choosing). Here it runs, as in a
// default server: the database hosting the store is dropped, the monitor waits (bounded) for the worker to act,
// and the restore must still work.
func c47withStatistics(c *rig.Ctx, st *c47stats) {
	box := startBox(c, "c47stats")
	defer box.close()
	{
		// system variables are process-global: undo the switch the earlier phases persisted for their own directories
		x := box.srv.MustOpen("mysql")
		rig.Must(execAll(x, "set @@persist.dolt_stats_enabled = 1"))
		x.Close()
		box.restart()
	}
	for i, n := 0, c.Pick(2, 20); i < n; i++ {
		r := c.SubRand("c47/stats", i)
		x := box.srv.MustOpen("mysql")
		w := &c47world{c: c, box: box, st: st, live: map[string]*c47db{}, backup: map[*c47db]bool{}, dataDir: box.srv.Dir}
		w.script = append(w.script, "-- default server: background statistics running")
		host, name := fmt.Sprintf("shost_%d", i), fmt.Sprintf("sdb_%d", i)
		c.Case("c47/stats", map[string]any{"db": name})
		st.scenarios++
		w.create(x, r, host) // the first database hosts the statistics store
		w.create(x, r, name)
		x.Query("call dolt_stats_wait()")
		w.script = append(w.script, "call dolt_stats_wait()")
		if i%2 == 0 {
			w.drop(x, strings.ToUpper(name)) // database names are case-insensitive
		} else {
			w.drop(x, name)
		}
		w.drop(x, host)
		dir := filepath.Join(box.srv.Dir, name)
		appeared := false
		if _, err := os.Stat(dir); err == nil {
			appeared = true
		}
		if appeared {
			st.strayDirs++
			w.script = append(w.script, "-- directory "+name+"/ re-appeared in the data directory after the DROPs")
		}
		before := c.Violations()
		w.undrop(x, name)
		if c.Violations() > before && appeared {
			c.Note("dolt_undrop failed after the statistics worker re-created the dropped database's directory: " + strings.Join(w.script, " ;; "))
		}
		w.checkLive(x, "after restoring "+name)
		x.Exec("drop database " + qid(name))
		x.Exec("call dolt_purge_dropped_databases()")
		os.RemoveAll(dir) // whatever the worker leaves behind must not leak into the next round
		os.RemoveAll(filepath.Join(box.srv.Dir, host))
		x.Close()
		c.Distinct("stats/" + name)
	}
}

func c47(c *rig.Ctx) {
	c.Rule("scenarios of 1-3 databases (names incl. case variants, hyphens and spaces) each filled with commits, branches, tags, a stash, " +
		"staged and unstaged working changes on two branches and an untracked table; 3-6 steps drawn from DROP DATABASE / CREATE DATABASE " +
		"(same or differently-cased name, new content) / dolt_undrop (exact or differently-cased name) / dolt_purge_dropped_databases / " +
		"server restart. A model tracks live and dropped copies; after every step the set of databases must be the model's and every " +
		"live database's logical fingerprint (DESIGN A.6, via SQL: refs, commit graph + meta, rows and schemas at every commit, working " +
		"and staged roots of every branch, status, stashes) must be what it was before its DROP. Extra phases: DOLT_DBNAME_REPLACE " +
		"name mangling of pre-existing directories, and a server started inside a database directory (root database + nested one). " +
		"Distinct = (names, sequence of steps)")
	c.Assume("main phases run with the background statistics worker disabled (set @@persist.dolt_stats_enabled = 0) so that scenarios replay deterministically; a separate phase keeps it running")
	c.Assume("when several dropped copies differ only in case and none has exactly the requested case, any of them may be restored")
	c.Assume("an earlier dropped copy displaced by a second drop of the same name must still exist in the holding directory (.backup.<ts>); restoring it is not asserted")
	st := &c47stats{}
	box := startBox(c, "c47")
	disableStats(box)
	n := c.Pick(24, 600)
	for i := 0; i < n && c.UnlistedViolations() < 12; i++ {
		c47scenario(c, box, i, st, "plain")
	}
	// name mangling: directories with '-' / ' ' created while the switch is off, served under mangled names once it is on
	if c.UnlistedViolations() < 12 {
		x := box.srv.MustOpen("mysql")
		x.Exec("call dolt_stats_stop()")
		r := c.SubRand("c47/mangle", 0)
		rig.Must(execAll(x, "create database `mangle-me one`", "use `mangle-me one`"))
		rig.Must(c47content(x, r, "mangled#1", st))
		rig.Must(execAll(x, "use mysql", "create database `second-db`", "use `second-db`"))
		rig.Must(c47content(x, r, "mangled#2", st))
		x.Close()
		os.Setenv("DOLT_DBNAME_REPLACE", "1")
		box.restart()
		x = box.srv.MustOpen("mysql")
		x.Exec("call dolt_stats_stop()")
		w := &c47world{c: c, box: box, st: st, live: map[string]*c47db{}, backup: map[*c47db]bool{}, dataDir: box.srv.Dir}
		w.script = append(w.script, "-- directories 'mangle-me one' and 'second-db' served with DOLT_DBNAME_REPLACE=1")
		rd, err := x.Query("show databases")
		rig.Must(err)
		for _, row := range rd.Data {
			if row[0] != "information_schema" && row[0] != "mysql" {
				w.live[strings.ToLower(row[0])] = &c47db{name: row[0], fp: w.fingerprint(row[0])}
				if strings.Contains(row[0], "_") {
					st.mangled++
				}
			}
		}
		c.Case("c47/mangle", map[string]any{"databases": rd.Strings()})
		st.scenarios++
		for _, d := range []string{"mangle_me_one", "second_db"} {
			if _, ok := w.live[d]; !ok {
				continue
			}
			w.drop(x, d)
			w.checkLive(x, "after dropping "+d)
			if d == "second_db" {
				x.Close()
				box.restart()
				x = box.srv.MustOpen("mysql")
				x.Exec("call dolt_stats_stop()")
				st.restarts++
				st.restartBetween++
				w.script = append(w.script, "-- server restart")
			}
			w.undrop(x, d)
			w.checkLive(x, "after restoring "+d)
		}
		x.Close()
		os.Unsetenv("DOLT_DBNAME_REPLACE")
		c.Distinct("mangle")
	}
	box.close()
	for i, n := 0, c.Pick(3, 60); i < n && c.UnlistedViolations() < 12; i++ {
		c47root(c, i, st)
	}
	if c.UnlistedViolations() < 12 {
		c47withStatistics(c, st)
	}
	c.Count("c47.scenarios", st.scenarios)
	c.Count("c47.steps", st.steps)
	c.Count("c47.databases_created", st.creates)
	c.Count("c47.drops", st.drops)
	c.Count("c47.undrops_restored_and_fingerprint_compared", st.undropsOK)
	c.Count("c47.undrop_refused_database_exists", st.undropRefusedLive)
	c.Count("c47.undrop_refused_nothing_dropped", st.undropRefusedMissing)
	c.Count("c47.undrop_refused_after_purge", st.undropRefusedPurged)
	c.Count("c47.undrops_by_differently_cased_name", st.caseVariantUndrops)
	c.Count("c47.purges", st.purges)
	c.Count("c47.server_restarts", st.restarts)
	c.Count("c47.restarts_with_dropped_databases_pending", st.restartBetween)
	c.Count("c47.second_drops_of_same_name", st.secondDrops)
	c.Count("c47.backup_copies_seen_in_holding_dir", st.backupsSeen)
	c.Count("c47.fingerprints_taken", st.fingerprints)
	c.Count("c47.fingerprint_components", st.fpComponents)
	c.Count("c47.databases_with_stash", st.withStash)
	c.Count("c47.databases_with_staged_changes", st.withStaged)
	c.Count("c47.databases_with_unstaged_and_untracked", st.withWorking)
	c.Count("c47.mangled_names", st.mangled)
	c.Count("c47.root_directory_database_roundtrips", st.rootDB)
	c.Count("c47.create_refused_name_taken", st.createRefused)
	c.Count("c47.dropped_database_directory_reappeared_with_statistics_running", st.strayDirs)
	c.Count("c47.drop_refused_no_such_database", st.dropMissingRefused)
	c.Require(st.undropsOK > 0 && st.undropRefusedLive > 0 && st.undropRefusedPurged > 0, "undrop outcomes (restored / refused because a database exists / refused after purge) not all observed")
	c.Require(st.restartBetween > 0 && st.secondDrops > 0, "no restart between drop and undrop / no second drop of the same name")
	c.Require(st.withStash > 0 && st.withStaged > 0 && st.withWorking > 0, "generated repositories lack stashes / staged / working changes")
}
