package vprolly

import (
	"context"
	"fmt"
	"math/rand"
	"sort"

	"github.com/dolthub/dolt/go/store/prolly"
	"github.com/dolthub/dolt/go/store/prolly/tree"

	"verif/rig"
)

// Tail-merge cases (C12 route "merge-tail", C14 triples "tail"): maps of >= 20 000 compact entries (height >= 3)
// where one side is the base TRUNCATED at a PRNG point (tail truncation at a non-boundary key, truncation
// inside the last leaf, deletes confined to the last leaf) and the other side is the base plus a few inserts
// inside and after the truncated range. The end of a tree is not a natural chunk boundary, so a merge must not
// adopt the truncated side's last node by address when rows follow it in the merged result.

type tailWorld struct {
	w      *world
	base   dict
	bm     prolly.Map
	leaves []int        // last pool rank of every leaf of the base tree, ascending
	lvl1   map[int]bool // last pool ranks of the level-1 nodes of the base tree
	spare  int          // pool ranks >= spare are absent from base (room for inserts after base's last key)
}

func genTailWorld(r *rand.Rand) *tailWorld {
	ns := tree.NewTestNodeStore()
	k := []kind{kUint32, kInt32, kInt64, kUint64}[r.Intn(4)]
	sch := newSchema([]kind{k}, []bool{false}, []bool{false})
	kp := genKeyPool(r, ns, sch, 24000+r.Intn(3000))
	vp := genValPool(r, ns, valMedium, 8+r.Intn(8))
	w := &world{ns: ns, kp: kp, vp: vp, desc: fmt.Sprintf("tail-merge key%s val=%s pool=%d", sch, vp.desc, kp.n())}
	tw := &tailWorld{w: w, spare: kp.n() - 40 - r.Intn(200), lvl1: map[int]bool{}}
	tw.base = newDict(kp.n())
	fill := 0.88 + 0.1*r.Float64()
	for i := 0; i < tw.spare; i++ {
		if r.Float64() < fill {
			tw.base[i] = int32(r.Intn(len(vp.tups)))
		}
	}
	tw.bm = w.build(tw.base)
	rig.Must(tw.bm.WalkNodes(bg, func(_ context.Context, nd *tree.Node) error {
		if nd.Count() == 0 {
			return nil
		}
		i, ok := kp.byBytes[string(nd.GetKey(nd.Count()-1))]
		if !ok {
			return nil
		}
		switch nd.Level() {
		case 0:
			tw.leaves = append(tw.leaves, i)
		case 1:
			tw.lvl1[i] = true
		}
		return nil
	}))
	sort.Ints(tw.leaves)
	return tw
}

type tailTriple struct {
	left, right dict
	mode        string
	mirrored    bool
	// evidence
	truncHeight    int  // height of the truncated side's tree
	lastKeyNatural bool // truncated side's last key is a chunk boundary of the base tree
	rowsAfter      bool // the other side contributes rows after the truncated side's last key
	nonFirstChild  bool // the truncated side's last leaf is not the first child of its level-1 node
}

// triple derives (left, right) from the base. allowCollisions lets the inserting side also modify keys the
// truncating side deleted (C14); without it the merge is conflict free (C12).
func (tw *tailWorld) triple(r *rand.Rand, allowCollisions bool) tailTriple {
	w := tw.w
	n := w.kp.n()
	nl := len(tw.leaves)
	trunc, ins := tw.base.clone(), tw.base.clone()
	t := tailTriple{}
	present := func(lo, hi int) []int { // present base ranks in (lo, hi]
		var out []int
		for i := lo + 1; i <= hi && i < n; i++ {
			if tw.base[i] >= 0 {
				out = append(out, i)
			}
		}
		return out
	}
	pickLeaf := func(from int) int { // a leaf index >= from, preferably not the first child of its level-1 node
		for tries := 0; tries < 20; tries++ {
			j := from + r.Intn(nl-from)
			if j > 0 && !tw.lvl1[tw.leaves[j-1]] {
				return j
			}
		}
		return from + r.Intn(nl-from)
	}
	var j int // the leaf of the base tree that becomes the truncated side's last leaf
	switch r.Intn(3) {
	case 0:
		t.mode = "tail-truncation-at-non-boundary-key"
		j = pickLeaf(nl / 2)
	case 1:
		t.mode = "truncation-inside-last-leaf"
		j = nl - 1
	default:
		t.mode = "deletes-confined-to-last-leaf"
		j = nl - 1
	}
	lo := -1
	if j > 0 {
		lo = tw.leaves[j-1]
	}
	in := present(lo, tw.leaves[j])
	t.nonFirstChild = j > 0 && !tw.lvl1[tw.leaves[j-1]]
	lastKept := tw.leaves[j]
	if len(in) >= 2 {
		if t.mode == "deletes-confined-to-last-leaf" {
			// delete a few entries of the last leaf, never its last key: the tree still ends where the data ends
			for d := 1 + r.Intn(3); d > 0; d-- {
				trunc[in[r.Intn(len(in)-1)]] = -1
			}
		} else {
			c := 1 + r.Intn(len(in)-1) // keep in[:c], delete from in[c] to the end of the table
			for i := in[c]; i < n; i++ {
				trunc[i] = -1
			}
			lastKept = in[c-1]
		}
	}
	// the other side: a few inserts of keys absent from base, inside the truncated range and after the base's end;
	// mostly outside the key range of leaf j (a change inside it makes the merge split the patch anyway)
	for a := 1 + r.Intn(5); a > 0; a-- {
		var i int
		switch x := r.Intn(10); {
		case x < 5:
			i = tw.spare + r.Intn(n-tw.spare) // after the base's last key
		case x < 9 && tw.leaves[j]+1 < tw.spare:
			i = tw.leaves[j] + 1 + r.Intn(tw.spare-tw.leaves[j]-1) // inside the truncated range, beyond leaf j
		default:
			i = lastKept + 1 + r.Intn(n-lastKept-1) // anywhere after the truncated side's last key
		}
		if tw.base[i] < 0 {
			ins[i] = int32(r.Intn(len(w.vp.tups)))
		} else if allowCollisions && r.Intn(3) == 0 {
			ins[i] = int32((int(tw.base[i]) + 1) % len(w.vp.tups)) // modify a row the other side deleted/kept
		}
	}
	if r.Intn(4) == 0 { // and an unrelated edit far away from the tail
		i := r.Intn(n / 4)
		ins[i] = int32(r.Intn(len(w.vp.tups)))
	}
	for i := lastKept + 1; i < n; i++ {
		if ins[i] >= 0 && trunc[i] < 0 {
			t.rowsAfter = true
			break
		}
	}
	t.lastKeyNatural = sort.SearchInts(tw.leaves, lastKept) < nl && tw.leaves[sort.SearchInts(tw.leaves, lastKept)] == lastKept
	t.left, t.right = ins, trunc
	if r.Intn(3) == 0 {
		t.left, t.right = trunc, ins
		t.mirrored = true
	}
	return t
}

// mapFrom derives a map from the base tree by editing (shares every untouched chunk with it).
func (tw *tailWorld) mapFrom(d dict) prolly.Map {
	mut := tw.bm.Mutate()
	for i := range d {
		if d[i] == tw.base[i] {
			continue
		}
		var err error
		if d[i] < 0 {
			err = mut.Delete(bg, tw.w.kp.tups[i])
		} else {
			err = mut.Put(bg, tw.w.kp.tups[i], tw.w.vp.tups[d[i]])
		}
		rig.Must(wrapErr("Put/Delete", err))
	}
	m, err := mut.Map(bg)
	rig.Must(wrapErr("Map", err))
	return m
}

// count records the non-vacuity evidence of a tail triple under the given counter prefix.
func (t tailTriple) count(st *stats, pfx string, truncHeight int) {
	st.add(pfx+".tailmerge.cases", 1)
	st.add(pfx+".tailmerge."+t.mode, 1)
	if t.mirrored {
		st.add(pfx+".tailmerge.mirrored_roles", 1)
	}
	if truncHeight >= 3 {
		st.add(pfx+".tailmerge.truncated_side_height>=3", 1)
		if !t.lastKeyNatural && t.rowsAfter {
			st.add(pfx+".tailmerge.height>=3+non_boundary_last_key+rows_after", 1)
			if t.nonFirstChild && !t.mirrored {
				st.add(pfx+".tailmerge.right_truncated+last_leaf_not_first_child", 1)
			}
		}
	}
}
