package vprolly

import (
	"context"
	"fmt"
	"math/rand"
	"testing"

	"github.com/dolthub/dolt/go/store/hash"
	"github.com/dolthub/dolt/go/store/prolly"
	"github.com/dolthub/dolt/go/store/prolly/tree"
)

func TestReproClosure(t *testing.T) {
	ctx := context.Background()
	ns := tree.NewTestNodeStore()
	r := rand.New(rand.NewSource(1))
	var keys []prolly.CommitClosureKey
	for i := 0; i < 1500; i++ {
		var h hash.Hash
		r.Read(h[:])
		keys = append(keys, prolly.NewCommitClosureKey(ns.Pool(), uint64(i/4), h))
	}
	build := func(batches int) prolly.CommitClosure {
		cc, _ := prolly.NewEmptyCommitClosure(ns)
		for b := 0; b < batches; b++ {
			ed := cc.Editor()
			for _, k := range keys[b*len(keys)/batches : (b+1)*len(keys)/batches] {
				ed.Add(ctx, k)
			}
			cc, _ = ed.Flush(ctx)
		}
		return cc
	}
	for _, b := range []int{1, 2, 3, 7, 1500} {
		cc := build(b)
		n, _ := cc.Count()
		fmt.Printf("CLOSURE batches=%d count=%d height=%d hash=%s\n", b, n, cc.Height(), cc.HashOf())
	}
}
