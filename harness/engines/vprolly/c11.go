package vprolly

import (
	"bytes"
	"fmt"
	"math/rand"
	"strings"

	"github.com/dolthub/dolt/go/store/hash"
	"github.com/dolthub/dolt/go/store/prolly"
	"github.com/dolthub/dolt/go/store/val"

	"verif/rig"
)

// C11 — prolly maps behave as sorted dictionaries.
//
// Every history drives a real prolly.MutableMap (put / delete / checkpoint / revert / flush with a chosen
// WithMaxPending) next to the dense sorted-dictionary model. At query points the MutableMap itself (Get, Has,
// GetPrefix, HasPrefix, IterAll, IterRange, IterKeyRange) and the materialised prolly.Map (the full query
// surface) are compared with brute-force answers of the model.

type c11Hist struct {
	c    *rig.Ctx
	st   *stats
	w    *world
	r    *rand.Rand
	name string

	mut        *prolly.MutableMap
	maxPending int
	cur        dict
	cp         dict
	hasCp      bool
	si         *shapeInfo // shape of the last materialised map (for boundary-adjacent picks)

	// history features used only to label (classify) a violation; they never decide one
	cpOnEmpty, flushedSinceCp, wroteSinceRevert, stashRevertPending bool
	taintCpEmpty, taintRepeat                                       bool
	pendingDel, cpPendingDel                                        map[int]bool // keys with a Delete in the edit buffer

	ops    []string
	failed bool

	reported map[string]bool
	nviol    int
	cpfx     string

	curKey, curWhat string // the query in flight (for attributing a panic inside dolt to a stable key)
}

// pfx is the counter prefix (the probe generators are shared with C13).
func (h *c11Hist) pfx() string {
	if h.cpfx != "" {
		return h.cpfx
	}
	return "c11"
}

// q announces the query about to be issued.
func (h *c11Hist) q(key, what string) {
	h.curKey, h.curWhat = key, what
	dbg("%s: %s", key, what)
}

// guard converts a panic raised by dolt while answering a QUERY into a violation with a stable key (the
// statement requires an answer that agrees with the dictionary). Panics during mutations are left to the supervisor.
func (h *c11Hist) guard() {
	if p := recover(); p != nil {
		h.fail(h.curKey+"/panic", fmt.Sprintf("%s: panic inside dolt: %v", h.curWhat, p))
	}
}

func (h *c11Hist) op(format string, a ...any) {
	if len(h.ops) < 400 {
		h.ops = append(h.ops, fmt.Sprintf(format, a...))
	}
}

// fail records a disagreement. A disagreement of a read-only query leaves model and implementation in step, so
// the history goes on (each key is reported once per history and in detail at most a few times per run);
// a disagreement about the CONTENT (IterAll, Count, a failing mutation) or any disagreement after the model is
// known to have diverged ends the history.
func (h *c11Hist) fail(key, what string) {
	if h.failed {
		return
	}
	tainted := true
	switch {
	case h.taintCpEmpty:
		key = "c11/history/revert-after-flush/checkpoint-taken-on-empty-edit-buffer"
	case h.taintRepeat:
		key = "c11/history/repeated-revert-after-flush/writes-between-reverts"
	default:
		tainted = false
	}
	if tainted || !readOnlyQueryKey(key) {
		h.failed = true
	} else {
		if h.reported == nil {
			h.reported = map[string]bool{}
		}
		if h.reported[key] {
			return
		}
		h.reported[key] = true
	}
	h.nviol++
	if h.st.bump("viol|"+key) > 4 {
		return // same class already reported in detail by other histories of this run
	}
	tail := h.ops
	if len(tail) > 80 {
		tail = tail[len(tail)-80:]
	}
	h.c.Violation(key, what, map[string]any{
		"history": h.name, "world": h.w.desc, "max_pending": h.maxPending, "ops_tail": tail, "n_ops": len(h.ops),
	})
}

func readOnlyQueryKey(key string) bool {
	if !strings.HasPrefix(key, "c11/map/") && !strings.HasPrefix(key, "c11/mut/") {
		return false
	}
	for _, t := range []string{"/Put/", "/Delete/", "/Map/", "/VisitGCRoots/", "/Checkpoint/", "/Count"} {
		if strings.Contains(key+"/", t) {
			return false
		}
	}
	return key != "c11/map/IterAll" && key != "c11/mut/IterAll"
}

func c11(c *rig.Ctx) {
	c.Rule("PRNG histories over prolly.MutableMap: put/delete/checkpoint/revert/flush(VisitGCRoots and maxPending overflow)/" +
		"materialise/re-mutate with WithMaxPending in {1,2,7,64,default}; keys of 1-3 fields drawn from 22 encodings (ints, uints, " +
		"floats, decimal, temporal, enum/set/bit, string/bytes incl. long shared prefixes, hash128, commit addr; ~30% nullable " +
		"fields) out of a small sorted key pool (so deletes/overwrites hit); 0..~20000 entries, values from empty to 20KB. After " +
		"bursts every public query of Map/MutableMap is compared with a brute-force sorted-dictionary model ordered by the model's " +
		"own comparison. A history is distinct/non-trivial when its (schema, size class, op-kind sequence) differs and it " +
		"performed at least one flush and one query round on a non-empty map")
	c.Assume("model order = NULL first, then Go comparison of decoded values (bytewise for strings/bytes/hashes); NaN, -0 and " +
		"collations are C15's subject and are not generated")
	c.Assume("Revert is only issued after at least one Checkpoint on the same MutableMap (the statement leaves Revert without a " +
		"checkpoint undefined)")
	c.Assume("invalid ordinal ranges (stop > count, start > stop) are not probed: the API documents an error for them")
	st := newStats()
	n := c.Pick(300, 12000)
	parallel(n, workers, func(i int) { c11History(c, st, i, n) })
	st.flush(c)
	c.Require(st.get("c11.flushes.auto") > 0, "no maxPending-overflow flush happened")
	c.Require(st.get("c11.flushes.explicit") > 0, "no explicit flush happened")
	c.Require(st.get("c11.reverts") > 0, "no revert happened")
	c.Require(st.get("c11.reverts.after_flush") > 0, "no revert after a flush (stash path) happened")
	c.Require(st.get("c11.maps.height>=3") > 0, "no tree of height >= 3 was queried")
	c.Require(st.get("c11.probes.near_chunk_boundary") > 0, "no probe next to a chunk boundary")
	c.Require(st.get("c11.ranges.nonempty") > 0 && st.get("c11.ranges.empty") > 0, "range queries did not cover empty and non-empty results")
}

func c11History(c *rig.Ctx, st *stats, idx, total int) {
	r := c.SubRand("c11", idx)
	poolWant, shape := sizeClass(r, idx, total)
	w := genWorld(r, poolWant, shape, 4+r.Intn(40))
	mps := []int{1, 2, 7, 64, 0}
	h := &c11Hist{c: c, st: st, w: w, r: r, name: fmt.Sprintf("c11/h%d", idx), maxPending: mps[r.Intn(len(mps))]}
	nsteps := 30 + r.Intn(150)
	if w.kp.n() > 2000 {
		nsteps = 150 + r.Intn(300)
	}
	fill := []float64{0, 0.2, 0.6, 0.9}[r.Intn(4)]
	c.Case(h.name, map[string]any{"world": w.desc, "max_pending": h.maxPending, "steps": nsteps, "initial_fill": fill})
	if w.kp.n() == 0 {
		fill = 0
	}
	h.cur = w.randDict(r, fill)
	base := w.build(h.cur)
	h.si = w.shape(base)
	h.op("bulk-build %d entries height=%d", h.cur.count(), base.Height())
	h.remutate(base)
	var kinds strings.Builder
	flushes, rounds := 0, 0
	for s := 0; s < nsteps && !h.failed; s++ {
		x := r.Intn(100)
		switch {
		case x < 40:
			h.put()
			kinds.WriteByte('p')
		case x < 58:
			h.del()
			kinds.WriteByte('d')
		case x < 64:
			h.run()
			kinds.WriteByte('r')
		case x < 70:
			h.checkpoint()
			kinds.WriteByte('c')
		case x < 76:
			if h.hasCp {
				h.revert()
				kinds.WriteByte('v')
			}
		case x < 81:
			h.flush()
			flushes++
			kinds.WriteByte('f')
		case x < 90:
			h.checkMut(6)
			kinds.WriteByte('q')
		case x < 96:
			h.materialise(8)
			rounds++
			kinds.WriteByte('m')
		default:
			m := h.materialise(4)
			rounds++
			h.remutate(m)
			kinds.WriteByte('R')
		}
	}
	if !h.failed {
		h.checkMut(10)
	}
	if !h.failed {
		h.materialise(16)
		rounds++
	}
	st.add("c11.histories", 1)
	if h.nviol == 0 {
		st.add("c11.histories.clean", 1)
	}
	if !h.failed && flushes > 0 && rounds > 0 && h.cur.count() > 0 {
		c.Distinct(fmt.Sprintf("%s|%d|%s", w.kp.sch, w.kp.n()/100, kinds.String()))
	}
	if idx < 3 {
		c.Sample(map[string]any{"history": h.name, "world": w.desc, "max_pending": h.maxPending, "ops_head": h.ops[:min(len(h.ops), 25)]})
	}
}

func (h *c11Hist) remutate(m prolly.Map) {
	h.mut = m.Mutate()
	if h.maxPending > 0 {
		h.mut = h.mut.WithMaxPending(h.maxPending)
	}
	h.hasCp, h.cp = false, nil
	h.cpOnEmpty, h.flushedSinceCp, h.wroteSinceRevert, h.stashRevertPending = false, false, false, false
	h.pendingDel, h.cpPendingDel = map[int]bool{}, nil
	h.op("mutate(maxPending=%d)", h.maxPending)
}

func (h *c11Hist) pickKey(presentBias int) int {
	n := h.w.kp.n()
	if n == 0 {
		return -1
	}
	x := h.r.Intn(100)
	switch {
	case x < presentBias:
		if k := h.cur.randPresent(h.r); k >= 0 {
			return k
		}
	case x < presentBias+20:
		if k := h.si.pickNearBoundary(h.r, n); k >= 0 {
			h.st.add("c11.edits.near_chunk_boundary", 1)
			return k
		}
	}
	return h.r.Intn(n)
}

func (h *c11Hist) afterPut() {
	if !h.mut.HasEdits() { // a Put always leaves >= 1 pending edit unless the buffer was flushed
		h.flushedSinceCp = true
		h.pendingDel = map[int]bool{}
		h.st.add("c11.flushes.auto", 1)
		h.op("  (auto-flush)")
	}
}

func (h *c11Hist) put() {
	k := h.pickKey(30)
	if k < 0 {
		return
	}
	v := int32(h.r.Intn(len(h.w.vp.tups)))
	if h.cur[k] >= 0 && h.r.Intn(4) == 0 {
		v = h.cur[k] // overwrite with the identical value (no-op edit)
		h.st.add("c11.puts.noop", 1)
	}
	h.op("put %s=#%d", fmtVals(h.w.kp.vals[k]), v)
	if err := h.mut.Put(bg, h.w.kp.tups[k], h.w.vp.tups[v]); err != nil {
		h.fail("c11/mut/Put/error", err.Error())
		return
	}
	h.cur[k] = v
	delete(h.pendingDel, k)
	h.wroteSinceRevert = true
	h.st.add("c11.puts", 1)
	h.afterPut()
}

func (h *c11Hist) del() {
	k := h.pickKey(60)
	if k < 0 {
		return
	}
	h.op("delete %s (present=%v)", fmtVals(h.w.kp.vals[k]), h.cur[k] >= 0)
	if h.cur[k] < 0 {
		h.st.add("c11.deletes.absent", 1)
	}
	if err := h.mut.Delete(bg, h.w.kp.tups[k]); err != nil {
		h.fail("c11/mut/Delete/error", err.Error())
		return
	}
	h.cur[k] = -1
	h.pendingDel[k] = true
	h.wroteSinceRevert = true
	h.st.add("c11.deletes", 1)
}

// run inserts or deletes a run of consecutive pool keys: adds/removes whole chunks, changes tree height.
func (h *c11Hist) run() {
	n := h.w.kp.n()
	if n < 4 {
		return
	}
	ln := 1 + h.r.Intn(min(n, 400))
	start := h.r.Intn(n - ln + 1)
	del := h.r.Intn(2) == 0
	h.op("run [%d,%d) delete=%v", start, start+ln, del)
	for k := start; k < start+ln && !h.failed; k++ {
		if del {
			if err := h.mut.Delete(bg, h.w.kp.tups[k]); err != nil {
				h.fail("c11/mut/Delete/error", err.Error())
				return
			}
			h.cur[k] = -1
			h.pendingDel[k] = true
		} else {
			v := int32(h.r.Intn(len(h.w.vp.tups)))
			if err := h.mut.Put(bg, h.w.kp.tups[k], h.w.vp.tups[v]); err != nil {
				h.fail("c11/mut/Put/error", err.Error())
				return
			}
			h.cur[k] = v
			delete(h.pendingDel, k)
			h.afterPut()
		}
	}
	h.wroteSinceRevert = true
	h.st.add("c11.runs", 1)
}

func (h *c11Hist) checkpoint() {
	h.cpOnEmpty = !h.mut.HasEdits()
	h.op("checkpoint (edit buffer empty=%v)", h.cpOnEmpty)
	if err := h.mut.Checkpoint(bg); err != nil {
		h.fail("c11/mut/Checkpoint/error", err.Error())
		return
	}
	h.cp = h.cur.clone()
	h.cpPendingDel = map[int]bool{}
	for k := range h.pendingDel {
		h.cpPendingDel[k] = true
	}
	h.hasCp = true
	h.flushedSinceCp, h.stashRevertPending, h.wroteSinceRevert = false, false, false
	h.st.add("c11.checkpoints", 1)
}

func (h *c11Hist) revert() {
	h.op("revert (flushed since checkpoint=%v)", h.flushedSinceCp)
	// labels only: from here on the model may have diverged for a reason already understood (see fail)
	if h.flushedSinceCp && h.cpOnEmpty {
		h.taintCpEmpty = true
	}
	if h.stashRevertPending && h.wroteSinceRevert {
		h.taintRepeat = true
	}
	h.mut.Revert(bg)
	h.cur = h.cp.clone()
	h.pendingDel = map[int]bool{}
	for k := range h.cpPendingDel {
		h.pendingDel[k] = true
	}
	h.st.add("c11.reverts", 1)
	if h.flushedSinceCp {
		h.st.add("c11.reverts.after_flush", 1)
		h.stashRevertPending = true
	}
	h.wroteSinceRevert = false
}

// flush forces the pending edits into the tree through the only exported route (the online-GC root visit).
func (h *c11Hist) flush() {
	h.op("flush (VisitGCRoots)")
	var roots []hash.Hash
	if err := h.mut.VisitGCRoots(bg, func(x hash.Hash) bool { roots = append(roots, x); return true }); err != nil {
		h.fail("c11/mut/VisitGCRoots/error", err.Error())
		return
	}
	if h.mut.HasEdits() {
		h.fail("c11/mut/VisitGCRoots/edits-left", "edit buffer not empty after the flush")
	}
	h.flushedSinceCp = true
	h.pendingDel = map[int]bool{}
	h.st.add("c11.flushes.explicit", 1)
}

func (h *c11Hist) materialise(nprobes int) prolly.Map {
	m, err := h.mut.Map(bg)
	if err != nil {
		h.fail("c11/mut/Map/error", err.Error())
		return m
	}
	h.op("materialise -> count=%d height=%d", h.cur.count(), m.Height())
	h.si = h.w.shape(m)
	h.checkMap(m, nprobes)
	return m
}

// ---------------------------------------------------------------------------------------------
// probes and ranges

// probe is a query key: a pool key, or a synthetic key (pool key with a NULL suffix) that is usually absent.
type probe struct {
	vals  []any
	tup   val.Tuple
	pos   int  // first pool rank >= probe
	exact bool // probe equals pool key pos
}

func (h *c11Hist) poolProbe(k int) probe {
	return probe{vals: h.w.kp.vals[k], tup: h.w.kp.tups[k], pos: k, exact: true}
}

func (h *c11Hist) genProbe() probe {
	n := h.w.kp.n()
	nf := len(h.w.kp.sch.kinds)
	x := h.r.Intn(100)
	var k int
	switch {
	case x < 35:
		if k = h.cur.randPresent(h.r); k < 0 {
			k = h.r.Intn(n)
		}
	case x < 65:
		if k = h.si.pickNearBoundary(h.r, n); k < 0 {
			k = h.r.Intn(n)
		} else {
			h.st.add(h.pfx()+".probes.near_chunk_boundary", 1)
		}
	case x < 75:
		k = []int{0, n - 1}[h.r.Intn(2)]
	default:
		k = h.r.Intn(n)
	}
	// synthetic probe: keep a prefix, NULL the rest (sorts before every key sharing the prefix). Only NULLABLE
	// fields may be NULLed: descriptors read non-nullable fixed-width fields by offset, so a NULL there is not a
	// tuple of the schema.
	minKeep := nf
	for minKeep > 1 && h.w.kp.sch.nullable[minKeep-1] {
		minKeep--
	}
	if minKeep < nf && h.r.Intn(5) == 0 {
		keep := minKeep + h.r.Intn(nf-minKeep)
		vals := append([]any(nil), h.w.kp.vals[k]...)
		for i := keep; i < nf; i++ {
			vals[i] = nil
		}
		pos, exact := h.w.kp.locate(vals)
		h.st.add(h.pfx()+".probes.synthetic", 1)
		return probe{vals: vals, tup: h.w.kp.sch.encode(h.w.ns, vals), pos: pos, exact: exact}
	}
	return h.poolProbe(k)
}

// fieldRange is the model form of one RangeField.
type fbound struct {
	has  bool
	v    any
	incl bool
}
type fieldRange struct{ lo, hi fbound }

func (fr fieldRange) matches(v any) bool {
	if fr.lo.has {
		c := cmpVal(v, fr.lo.v)
		if c < 0 || (c == 0 && !fr.lo.incl) {
			return false
		}
	}
	if fr.hi.has {
		c := cmpVal(v, fr.hi.v)
		if c > 0 || (c == 0 && !fr.hi.incl) {
			return false
		}
	}
	return true
}

func (fr fieldRange) String() string {
	lb, rb := "(", ")"
	if fr.lo.incl {
		lb = "["
	}
	if fr.hi.incl {
		rb = "]"
	}
	lo, hi := "-inf", "+inf"
	if fr.lo.has {
		lo = fmtVals([]any{fr.lo.v})
	}
	if fr.hi.has {
		hi = fmtVals([]any{fr.hi.v})
	}
	return lb + lo + "," + hi + rb
}

type modelRange struct {
	fields []fieldRange
	kind   string
}

func (mr modelRange) matches(vals []any) bool {
	for i, fr := range mr.fields {
		if !fr.matches(vals[i]) {
			return false
		}
	}
	return true
}

func (mr modelRange) String() string {
	var p []string
	for _, f := range mr.fields {
		p = append(p, f.String())
	}
	return mr.kind + "{" + strings.Join(p, " & ") + "}"
}

// genRange produces all bound kinds: inclusive, exclusive, one-sided, unbounded, point, IS NULL, > NULL,
// empty (equal values with an exclusive side) and inverted.
func genRange(r *rand.Rand, w *world, contiguousOnly bool) modelRange {
	nf := len(w.kp.sch.kinds)
	n := w.kp.n()
	nfr := 1 + r.Intn(nf)
	a, b := w.kp.vals[r.Intn(n)], w.kp.vals[r.Intn(n)]
	mr := modelRange{fields: make([]fieldRange, nfr)}
	var kinds []string
	for i := 0; i < nfr; i++ {
		x := r.Intn(100)
		last := i == nfr-1
		var fr fieldRange
		var kd string
		switch {
		case (!last && (contiguousOnly || x < 60)) || (last && x < 15):
			fr = fieldRange{fbound{true, a[i], true}, fbound{true, a[i], true}}
			kd = "eq"
		case x < 20 && !contiguousOnly:
			kd = "unbounded"
		case x < 28 && w.kp.sch.nullable[i]:
			fr = fieldRange{fbound{true, nil, true}, fbound{true, nil, true}}
			kd = "isnull"
		case x < 34:
			fr = fieldRange{lo: fbound{true, nil, false}}
			kd = "notnull"
		case x < 44:
			fr = fieldRange{lo: fbound{true, a[i], r.Intn(2) == 0}}
			kd = "lower"
		case x < 54:
			fr = fieldRange{hi: fbound{true, a[i], r.Intn(2) == 0}}
			kd = "upper"
		case x < 60:
			fr = fieldRange{fbound{true, a[i], r.Intn(2) == 0}, fbound{true, a[i], false}}
			kd = "empty"
		default:
			lo, hi := a[i], b[i]
			c := cmpVal(lo, hi)
			if c > 0 {
				lo, hi = hi, lo
			}
			kd = "interval"
			if c != 0 && x >= 93 {
				lo, hi = hi, lo
				kd = "inverted"
			}
			fr = fieldRange{fbound{true, lo, r.Intn(2) == 0}, fbound{true, hi, r.Intn(2) == 0}}
			if c == 0 && (!fr.lo.incl || !fr.hi.incl) {
				kd = "empty"
			}
		}
		mr.fields[i] = fr
		kinds = append(kinds, kd)
	}
	mr.kind = strings.Join(kinds, "+")
	return mr
}

// toProlly converts the model range into a prolly.Range. indexStyle mimics what dolt's index builder sets
// (Tup, SkipRangeMatchCallback, IsContiguous; see prollyRangesFromSqlRanges); otherwise the flags are left
// zero as the exported prolly constructors do.
func (mr modelRange) toProlly(w *world, indexStyle bool) (prolly.Range, bool) {
	sch := w.kp.sch
	nf := len(sch.kinds)
	los, his := make([]any, nf), make([]any, nf)
	for i, fr := range mr.fields {
		if fr.lo.has {
			los[i] = fr.lo.v
		}
		if fr.hi.has {
			his[i] = fr.hi.v
		}
	}
	loT, hiT := sch.encode(w.ns, los), sch.encode(w.ns, his)
	rng := prolly.Range{Fields: make([]prolly.RangeField, len(mr.fields)), Desc: sch.desc}
	skip, contiguous, discontinuity := true, true, false
	for i, fr := range mr.fields {
		f := prolly.RangeField{
			Lo: prolly.Bound{Binding: fr.lo.has, Inclusive: fr.lo.has && fr.lo.incl, Value: loT.GetField(i)},
			Hi: prolly.Bound{Binding: fr.hi.has, Inclusive: fr.hi.has && fr.hi.incl, Value: hiT.GetField(i)},
		}
		valuesEqual := fr.lo.has && fr.hi.has && cmpVal(fr.lo.v, fr.hi.v) == 0
		f.BoundsAreEqual = valuesEqual && fr.lo.incl && fr.hi.incl
		if indexStyle {
			if fr.lo.has && fr.hi.has {
				c := cmpVal(fr.lo.v, fr.hi.v)
				if c > 0 || (c == 0 && !(fr.lo.incl && fr.hi.incl)) {
					return rng, false // dolt prunes empty ranges before they reach prolly
				}
			}
			if !sch.kinds[i].isInteger() {
				skip = false
			}
			nilBound := f.Lo.Value == nil && f.Hi.Value == nil
			if discontinuity || nilBound {
				contiguous = false
			}
			discontinuity = discontinuity || !f.BoundsAreEqual || nilBound
		}
		rng.Fields[i] = f
	}
	if indexStyle {
		rng.Tup = hiT
		rng.SkipRangeMatchCallback = skip
		rng.IsContiguous = contiguous
	}
	return rng, true
}

func (h *c11Hist) expectRange(mr modelRange) []int {
	var out []int
	for i, v := range h.cur {
		if v >= 0 && mr.matches(h.w.kp.vals[i]) {
			out = append(out, i)
		}
	}
	return out
}

// ---------------------------------------------------------------------------------------------
// the comparisons

func (h *c11Hist) checkGet(recv string, get func(val.Tuple, func(k, v val.Tuple) error) error, p probe) {
	var gk, gv val.Tuple
	called := 0
	h.q("c11/"+recv+"/Get", fmtVals(p.vals))
	err := get(p.tup, func(k, v val.Tuple) error { gk, gv = k, v; called++; return nil })
	if err != nil {
		h.fail("c11/"+recv+"/Get/error", err.Error())
		return
	}
	present := p.exact && h.cur[p.pos] >= 0
	switch {
	case called != 1:
		h.fail("c11/"+recv+"/Get", fmt.Sprintf("callback invoked %d times for %s", called, fmtVals(p.vals)))
	case present && (gk == nil || !bytes.Equal(gk, h.w.kp.tups[p.pos]) || !bytes.Equal(gv, h.w.vp.tups[h.cur[p.pos]])):
		h.fail("c11/"+recv+"/Get", fmt.Sprintf("key %s is in the model with value #%d; Get returned key=%v value #%d", fmtVals(p.vals), h.cur[p.pos], gk != nil, h.w.valIndex(gv)))
	case !present && gk != nil:
		h.fail("c11/"+recv+"/Get", fmt.Sprintf("key %s is absent in the model; Get returned an entry", fmtVals(p.vals)))
	}
	h.st.add("c11.q."+recv+".Get", 1)
}

func (h *c11Hist) checkHas(recv string, has func(val.Tuple) (bool, error), p probe) {
	h.q("c11/"+recv+"/Has", fmtVals(p.vals))
	ok, err := has(p.tup)
	if err != nil {
		h.fail("c11/"+recv+"/Has/error", err.Error())
		return
	}
	if present := p.exact && h.cur[p.pos] >= 0; ok != present {
		h.fail("c11/"+recv+"/Has", fmt.Sprintf("Has(%s)=%v, model says %v", fmtVals(p.vals), ok, present))
	}
	h.st.add("c11.q."+recv+".Has", 1)
}

// checkPrefix: HasPrefix / GetPrefix for the first j fields of the probe. firstOnly: the receiver documents that
// the FIRST matching entry is returned (Map); MutableMap documents nothing, so there any matching entry is accepted.
func (h *c11Hist) checkPrefix(recv string, firstOnly bool,
	getp func(val.Tuple, *val.TupleDesc, func(k, v val.Tuple) error) error,
	hasp func(val.Tuple, *val.TupleDesc) (bool, error), p probe) {
	sch := h.w.kp.sch
	nf := len(sch.kinds)
	j := 1 + h.r.Intn(nf)
	pd := sch.desc.PrefixDesc(j)
	q := p.tup
	if h.r.Intn(2) == 0 { // query built over the prefix descriptor, as dolt's lookups do
		ps := newSchema(sch.kinds[:j], sch.nullable[:j], sch.long[:j])
		q = ps.encode(h.w.ns, p.vals[:j])
	}
	first := -1
	for i, v := range h.cur {
		if v >= 0 && cmpPrefix(h.w.kp.vals[i], p.vals, j) == 0 {
			first = i
			break
		}
	}
	var gk, gv val.Tuple
	h.q("c11/"+recv+"/GetPrefix", fmt.Sprintf("prefix(%d) of %s", j, fmtVals(p.vals)))
	if err := getp(q, pd, func(k, v val.Tuple) error { gk, gv = k, v; return nil }); err != nil {
		h.fail("c11/"+recv+"/GetPrefix/error", err.Error())
		return
	}
	what := fmt.Sprintf("prefix(%d) of %s", j, fmtVals(p.vals))
	switch {
	case first < 0 && gk != nil:
		h.fail("c11/"+recv+"/GetPrefix", what+": no key with that prefix in the model, GetPrefix returned one")
	case first >= 0 && gk == nil:
		h.fail("c11/"+recv+"/GetPrefix"+h.shadowLabel(recv, p.vals, j), what+": model has "+fmtVals(h.w.kp.vals[first])+", GetPrefix returned nothing")
	case first >= 0:
		gi, known := h.w.kp.byBytes[string(gk)]
		switch {
		case !known || h.cur[gi] < 0 || cmpPrefix(h.w.kp.vals[gi], p.vals, j) != 0 || !bytes.Equal(gv, h.w.vp.tups[h.cur[gi]]):
			h.fail("c11/"+recv+"/GetPrefix", what+": returned entry is not an entry of the model with that prefix")
		case gi != first && firstOnly:
			h.fail("c11/"+recv+"/GetPrefix", what+": returned "+fmtVals(h.w.kp.vals[gi])+", first match in the model is "+fmtVals(h.w.kp.vals[first]))
		case gi != first:
			h.st.add("c11.diag.mut.GetPrefix.not_first_match", 1)
		}
	}
	h.st.add("c11.q."+recv+".GetPrefix", 1)
	if q.Count() >= j { // HasPrefix rejects queries shorter than the prefix (NULL-suffix trimmed) with an error
		h.q("c11/"+recv+"/HasPrefix", what)
		ok, err := hasp(q, pd)
		if err != nil {
			h.fail("c11/"+recv+"/HasPrefix/error", err.Error())
			return
		}
		if ok != (first >= 0) {
			lbl := ""
			if !ok {
				lbl = h.shadowLabel(recv, p.vals, j)
			}
			h.fail("c11/"+recv+"/HasPrefix"+lbl, fmt.Sprintf("%s: HasPrefix=%v, model says %v", what, ok, first >= 0))
		}
		h.st.add("c11.q."+recv+".HasPrefix", 1)
	}
}

// shadowLabel labels (never decides) a missed prefix match on a MutableMap: is there a pending Delete of another
// key with the same prefix in the edit buffer?
func (h *c11Hist) shadowLabel(recv string, vals []any, j int) string {
	if recv != "mut" {
		return ""
	}
	for k := range h.pendingDel {
		if cmpPrefix(h.w.kp.vals[k], vals, j) == 0 {
			return "/pending-delete-of-a-key-with-the-same-prefix"
		}
	}
	return ""
}

func (h *c11Hist) checkIter(key, what string, mk func() (prolly.MapIter, error), want []int) {
	if h.failed {
		return
	}
	h.q(key, what)
	it, err := mk()
	if err != nil {
		h.fail(key+"/error", what+": "+err.Error())
		return
	}
	got, err := drain(it, h.w.kp.n()+8)
	if err != nil {
		h.fail(key+"/error", what+": "+err.Error())
		return
	}
	if msg := h.w.seqMismatch(got, want, h.cur); msg != "" {
		h.fail(key, what+": "+msg)
	}
}

func (h *c11Hist) boundTuple(p *probe) val.Tuple {
	if p == nil {
		return nil
	}
	return p.tup
}

// keyRange picks start/stop probes (nil = unbounded) and returns the expected ranks in [start, stop).
func (h *c11Hist) keyRange() (start, stop *probe, want []int, what string) {
	if h.r.Intn(5) > 0 {
		p := h.genProbe()
		start = &p
	}
	if h.r.Intn(5) > 0 {
		p := h.genProbe()
		stop = &p
	}
	lo, hi := 0, h.w.kp.n()
	ls, hs := "-inf", "+inf"
	if start != nil {
		lo, ls = start.pos, fmtVals(start.vals)
	}
	if stop != nil {
		hi, hs = stop.pos, fmtVals(stop.vals)
	}
	for i := lo; i < hi; i++ {
		if h.cur[i] >= 0 {
			want = append(want, i)
		}
	}
	if lo > hi {
		h.st.add("c11.keyranges.inverted", 1)
	}
	return start, stop, want, "[" + ls + ", " + hs + ")"
}

func (h *c11Hist) countRange(want []int) {
	if len(want) == 0 {
		h.st.add("c11.ranges.empty", 1)
	} else {
		h.st.add("c11.ranges.nonempty", 1)
	}
}

// checkMut: the query surface of the MutableMap itself (pending edits + tree).
func (h *c11Hist) checkMut(nprobes int) {
	if h.failed || h.w.kp.n() == 0 {
		return
	}
	mut := h.mut
	h.op("query MutableMap")
	defer h.guard()
	keys := h.cur.keys()
	h.checkIter("c11/mut/IterAll", "IterAll", func() (prolly.MapIter, error) { return mut.IterAll(bg) }, keys)
	for i := 0; i < nprobes && !h.failed; i++ {
		p := h.genProbe()
		h.checkGet("mut", func(k val.Tuple, cb func(k, v val.Tuple) error) error { return mut.Get(bg, k, cb) }, p)
		h.checkHas("mut", func(k val.Tuple) (bool, error) { return mut.Has(bg, k) }, p)
		if !h.failed {
			h.checkPrefix("mut", false,
				func(k val.Tuple, pd *val.TupleDesc, cb func(k, v val.Tuple) error) error {
					return mut.GetPrefix(bg, k, pd, cb)
				},
				func(k val.Tuple, pd *val.TupleDesc) (bool, error) { return mut.HasPrefix(bg, k, pd) }, p)
		}
	}
	for i := 0; i < nprobes/2+1 && !h.failed; i++ {
		mr := genRange(h.r, h.w, false)
		rng, _ := mr.toProlly(h.w, false)
		want := h.expectRange(mr)
		h.countRange(want)
		h.checkIter("c11/mut/IterRange/"+classOfRange(mr), "IterRange "+mr.String(), func() (prolly.MapIter, error) { return mut.IterRange(bg, rng) }, want)
		h.st.add("c11.q.mut.IterRange", 1)
	}
	if !h.failed {
		start, stop, want, what := h.keyRange()
		key := "c11/mut/IterKeyRange"
		if mut.HasEdits() {
			key = "c11/mut/IterKeyRange/with-pending-edits"
		} else if stop == nil && start != nil && start.pos > h.cur.last() {
			key += "/start-above-last-key/open-stop"
		}
		h.checkIter(key, "MutableMap.IterKeyRange "+what, func() (prolly.MapIter, error) {
			return mut.IterKeyRange(bg, h.boundTuple(start), h.boundTuple(stop))
		}, want)
		h.st.add("c11.q.mut.IterKeyRange", 1)
	}
}

// classOfRange keeps violation keys stable and coarse: the set of bound kinds used.
func classOfRange(mr modelRange) string {
	for _, k := range []string{"inverted", "empty", "isnull", "notnull"} {
		if strings.Contains(mr.kind, k) {
			return k
		}
	}
	if len(mr.fields) > 1 {
		return "multi-field"
	}
	return "single-field"
}

// checkMap: the full query surface of the materialised Map.
func (h *c11Hist) checkMap(m prolly.Map, nprobes int) {
	if h.failed {
		return
	}
	w := h.w
	keys := h.cur.keys()
	defer h.guard()
	h.st.add("c11.maps.queried", 1)
	h.st.add(fmt.Sprintf("c11.maps.height=%d", min(m.Height(), 4)), 1)
	if m.Height() >= 3 {
		h.st.add("c11.maps.height>=3", 1)
	}
	if len(keys) >= 10000 {
		h.st.add("c11.maps.entries>=10000", 1)
	}
	// Count, LastKey
	h.q("c11/map/Count+LastKey", "")
	if n, err := m.Count(); err != nil {
		h.fail("c11/map/Count/error", err.Error())
	} else if n != len(keys) {
		h.fail("c11/map/Count", fmt.Sprintf("Count()=%d, model has %d", n, len(keys)))
	}
	lk := m.LastKey(bg)
	if l := h.cur.last(); l < 0 && lk != nil {
		h.fail("c11/map/LastKey", "LastKey non-nil on an empty map")
	} else if l >= 0 && !bytes.Equal(lk, w.kp.tups[l]) {
		h.fail("c11/map/LastKey", "LastKey differs from the model's last key "+fmtVals(w.kp.vals[l]))
	}
	// full iteration both ways
	h.checkIter("c11/map/IterAll", "IterAll", func() (prolly.MapIter, error) { return m.IterAll(bg) }, keys)
	h.checkIter("c11/map/IterAllReverse", "IterAllReverse", func() (prolly.MapIter, error) { return m.IterAllReverse(bg) }, reversed(keys))
	if w.kp.n() == 0 || h.failed {
		return
	}
	for i := 0; i < nprobes && !h.failed; i++ {
		p := h.genProbe()
		h.checkGet("map", func(k val.Tuple, cb func(k, v val.Tuple) error) error { return m.Get(bg, k, cb) }, p)
		h.checkHas("map", func(k val.Tuple) (bool, error) { return m.Has(bg, k) }, p)
		if h.failed {
			return
		}
		h.checkPrefix("map", true,
			func(k val.Tuple, pd *val.TupleDesc, cb func(k, v val.Tuple) error) error {
				return m.GetPrefix(bg, k, pd, cb)
			},
			func(k val.Tuple, pd *val.TupleDesc) (bool, error) { return m.HasPrefix(bg, k, pd) }, p)
		// ordinal of a key (present or absent)
		h.q("c11/map/GetOrdinalForKey", fmtVals(p.vals))
		ord, err := m.GetOrdinalForKey(bg, p.tup)
		if err != nil {
			h.fail("c11/map/GetOrdinalForKey/error", err.Error())
		} else if want := h.cur.rankBelow(p.pos); ord != uint64(want) {
			h.fail("c11/map/GetOrdinalForKey", fmt.Sprintf("GetOrdinalForKey(%s)=%d, model says %d (key present=%v)", fmtVals(p.vals), ord, want, p.exact && h.cur[p.pos] >= 0))
		}
		h.st.add("c11.q.map.GetOrdinalForKey", 1)
	}
	// logical ranges, both styles, both directions
	for i := 0; i < nprobes && !h.failed; i++ {
		mr := genRange(h.r, w, false)
		indexStyle := h.r.Intn(2) == 0
		rng, ok := mr.toProlly(w, indexStyle)
		if !ok {
			rng, _ = mr.toProlly(w, false)
			indexStyle = false
		}
		want := h.expectRange(mr)
		h.countRange(want)
		style := "plain"
		if indexStyle {
			style = "index-style"
			if rng.SkipRangeMatchCallback && rng.IsContiguous {
				h.st.add("c11.ranges.unfiltered_fast_path", 1)
			}
		}
		h.checkIter("c11/map/IterRange/"+classOfRange(mr), "IterRange("+style+") "+mr.String(), func() (prolly.MapIter, error) { return m.IterRange(bg, rng) }, want)
		h.checkIter("c11/map/IterRangeReverse/"+classOfRange(mr), "IterRangeReverse("+style+") "+mr.String(), func() (prolly.MapIter, error) { return m.IterRangeReverse(bg, rng) }, reversed(want))
		h.st.add("c11.q.map.IterRange+Reverse", 1)
	}
	// exported constructors: PrefixRange (any arity), and the single-field forms where their meaning is unambiguous
	if !h.failed {
		h.checkConstructors(m)
	}
	// physical key ranges + cardinality
	for i := 0; i < nprobes/2+1 && !h.failed; i++ {
		start, stop, want, what := h.keyRange()
		h.countRange(want)
		ikr := "c11/map/IterKeyRange"
		if stop == nil && start != nil && start.pos > h.cur.last() && m.Height() > 1 {
			ikr += "/start-above-last-key/open-stop/height>1"
		}
		h.q(ikr, "IterKeyRange "+what)
		h.checkIter(ikr, "IterKeyRange "+what, func() (prolly.MapIter, error) { return m.IterKeyRange(bg, h.boundTuple(start), h.boundTuple(stop)) }, want)
		h.q("c11/map/GetKeyRangeCardinality", what)
		card, err := m.GetKeyRangeCardinality(bg, h.boundTuple(start), h.boundTuple(stop))
		if err != nil {
			h.fail("c11/map/GetKeyRangeCardinality/error", err.Error())
		} else if card != uint64(len(want)) {
			h.fail("c11/map/GetKeyRangeCardinality", fmt.Sprintf("cardinality of %s = %d, model says %d", what, card, len(want)))
		}
		h.st.add("c11.q.map.IterKeyRange+Cardinality", 1)
	}
	// ordinal ranges
	for i := 0; i < nprobes/2+1 && !h.failed; i++ {
		n := len(keys)
		a := h.r.Intn(n + 1)
		b := a + h.r.Intn(n-a+1)
		if h.r.Intn(4) == 0 && n > 0 { // spans that start/stop exactly at chunk boundaries
			if bk := h.si.pickNearBoundary(h.r, w.kp.n()); bk >= 0 {
				a = min(h.cur.rankBelow(bk), n)
				b = a + h.r.Intn(n-a+1)
			}
		}
		what := fmt.Sprintf("[%d,%d) of %d", a, b, n)
		h.checkIter("c11/map/IterOrdinalRange", "IterOrdinalRange "+what, func() (prolly.MapIter, error) { return m.IterOrdinalRange(bg, uint64(a), uint64(b)) }, keys[a:b])
		h.checkIter("c11/map/FetchOrdinalRange", "FetchOrdinalRange "+what, func() (prolly.MapIter, error) { return m.FetchOrdinalRange(bg, uint64(a), uint64(b)) }, keys[a:b])
		h.st.add("c11.q.map.OrdinalRange", 1)
	}
}

func (h *c11Hist) checkConstructors(m prolly.Map) {
	w := h.w
	sch := w.kp.sch
	nf := len(sch.kinds)
	p := h.genProbe()
	j := 1 + h.r.Intn(nf)
	ps := newSchema(sch.kinds[:j], sch.nullable[:j], sch.long[:j])
	pt := ps.encode(w.ns, p.vals[:j])
	rng, err := prolly.PrefixRange(bg, pt, sch.desc.PrefixDesc(j))
	if err != nil {
		h.fail("c11/map/PrefixRange/error", err.Error())
		return
	}
	var want []int
	for i, v := range h.cur {
		if v >= 0 && cmpPrefix(w.kp.vals[i], p.vals, j) == 0 {
			want = append(want, i)
		}
	}
	h.countRange(want)
	h.checkIter("c11/map/IterRange/PrefixRange", fmt.Sprintf("IterRange(PrefixRange(%d) of %s)", j, fmtVals(p.vals)), func() (prolly.MapIter, error) { return m.IterRange(bg, rng) }, want)
	h.st.add("c11.q.map.PrefixRange", 1)
	if nf != 1 || h.failed {
		return
	}
	a, b := h.genProbe(), h.genProbe()
	type ctor struct {
		name string
		rng  prolly.Range
		ok   func(i int) bool
	}
	osr, err := prolly.OpenStopRange(bg, a.tup, b.tup, sch.desc)
	if err != nil {
		h.fail("c11/map/OpenStopRange/error", err.Error())
		return
	}
	for _, ct := range []ctor{
		{"OpenStopRange", osr, func(i int) bool { return i >= a.pos && i < b.pos }},
		{"GreaterOrEqualRange", prolly.GreaterOrEqualRange(a.tup, sch.desc), func(i int) bool { return i >= a.pos }},
		{"LesserRange", prolly.LesserRange(b.tup, sch.desc), func(i int) bool { return i < b.pos }},
	} {
		var want []int
		for i, v := range h.cur {
			if v >= 0 && ct.ok(i) {
				want = append(want, i)
			}
		}
		h.countRange(want)
		what := fmt.Sprintf("%s(a=%s,b=%s)", ct.name, fmtVals(a.vals), fmtVals(b.vals))
		h.checkIter("c11/map/IterRange/"+ct.name, "IterRange "+what, func() (prolly.MapIter, error) { return m.IterRange(bg, ct.rng) }, want)
		h.checkIter("c11/map/IterRangeReverse/"+ct.name, "IterRangeReverse "+what, func() (prolly.MapIter, error) { return m.IterRangeReverse(bg, ct.rng) }, reversed(want))
		h.st.add("c11.q.map.RangeConstructors", 1)
	}
}
