package vprolly

import (
	"bytes"
	"fmt"
	"io"
	"math/rand"

	"github.com/dolthub/go-mysql-server/sql"

	"github.com/dolthub/dolt/go/store/prolly"
	"github.com/dolthub/dolt/go/store/prolly/tree"
	"github.com/dolthub/dolt/go/store/val"

	"verif/rig"
)

// C14 — three-way tree merges follow key-wise merge semantics.
//
// Oracle (DESIGN §3.5, key-wise): for every key with states (b, l, r):
//   l == b            -> result r            (changed on the right only, or not at all)
//   r == b            -> result l            (changed on the left only)
//   l == r            -> result l            (changed identically)
//   otherwise         -> collision: handed to the handler exactly once; result = handler's value when it
//                        resolves, the left value when it reports a conflict.
// Compared with prolly.MergeMaps (tree.ThreeWayMerge: patch generator + tree patcher), with the sequence of
// tree.ThreeWayDiffer, and the merged tree must be the canonical tree of its content.

type mergePolicy int

const (
	polLeft mergePolicy = iota
	polRight
	polNew
	polConflict
)

// policy is a pure function of the three value states so that the collision handler of MergeMaps (which
// sees the key) and the resolve callback of ThreeWayDiffer (which does not) decide identically.
func policyOf(salt int, b, l, r int32) mergePolicy {
	return mergePolicy((int(b+1)*31 + int(l+1)*7 + int(r+1)*13 + salt) & 3)
}

func resolvedValue(pol mergePolicy, nvals int, l, r int32) int32 {
	switch pol {
	case polLeft, polConflict:
		return l
	case polRight:
		return r
	}
	return int32((int(l+1) + int(r+1) + 1) % nvals)
}

type c14Case struct {
	c                 *rig.Ctx
	st                *stats
	w                 *world
	r                 *rand.Rand
	name              string
	salt              int
	base, left, right dict
	bm, lm, rm        prolly.Map
	failed            bool
}

func (k *c14Case) fail(key, what string, extra map[string]any) {
	if k.failed {
		return
	}
	k.failed = true
	wit := map[string]any{"case": k.name, "world": k.w.desc, "policy_salt": k.salt,
		"base": describeTree(k.w, k.bm), "left": describeTree(k.w, k.lm), "right": describeTree(k.w, k.rm)}
	for a, b := range extra {
		wit[a] = b
	}
	k.c.Violation(key, what, wit)
}

func (k *c14Case) vidx(it []byte) int32 {
	if it == nil {
		return -1
	}
	if i := k.w.valIndex(val.Tuple(it)); i >= 0 {
		return int32(i)
	}
	return -2
}

func (k *c14Case) vt(v int32) val.Tuple {
	if v < 0 {
		return nil
	}
	return k.w.vp.tups[v]
}

func diffType(from, to int32) tree.DiffType {
	switch {
	case from < 0:
		return tree.AddedDiff
	case to < 0:
		return tree.RemovedDiff
	}
	return tree.ModifiedDiff
}

func c14(c *rig.Ctx) {
	c.Rule("triples (base,left,right) over one key pool (1-3 field keys of 22 encodings, 0..~20000 entries): left and right are " +
		"derived from base by independent scripts of point edits (random / next to chunk boundaries), whole runs inserted or " +
		"deleted (chunk-sized and larger), and deliberately overlapping edits (same value, different value, delete-vs-modify, both " +
		"delete, both add). The collision handler's outcome {resolve-left, resolve-right, resolve-new, conflict} is a pure " +
		"function of the three states. Compared with the key-wise model: merged content, the exact sequence of keys and " +
		"arguments handed to the handler, the ThreeWayDiffer sequence, the tree obtained by applying the differ's output to " +
		"left, and canonical shape of the merged tree. A triple is distinct/non-trivial when (schema, three root hashes) differ and " +
		"both sides changed something")
	c.Assume("value tuples are canonical, so byte equality of values is the model's value equality")
	c.Assume("how a resolved delete-vs-modify is applied is the caller's business: the differ check uses the handler's value for it")
	st := newStats()
	n := c.Pick(300, 15000)
	parallel(n, workers, func(i int) { c14Triple(c, st, i, n) })
	parallel(c.Pick(10, 100), workers, func(i int) { c14Tail(c, st, i) })
	st.flush(c)
	c.Require(st.get("c14.collisions.resolved") > 0, "no collision was resolved")
	c.Require(st.get("c14.collisions.conflict") > 0, "no collision ended in a conflict")
	c.Require(st.get("c14.collisions.delete_vs_modify") > 0, "no delete-vs-modify collision")
	c.Require(st.get("c14.convergent") > 0, "no convergent edit")
	c.Require(st.get("c14.merges.right_chunk_adopted") > 0, "no merge adopted a whole chunk of the right side (range patch)")
	c.Require(st.get("c14.edits.near_chunk_boundary") > 0, "no edit next to a chunk boundary")
	c.Require(st.get("c14.merges.height_differs") > 0, "no triple with different tree heights")
	c.Require(st.get("c14.tailmerge.right_truncated+last_leaf_not_first_child") > 0,
		"no merge of a height>=3 right tree truncated at a non-boundary key with rows following in the result")
}

func (k *c14Case) side(si *shapeInfo) dict {
	w, r := k.w, k.r
	n := w.kp.n()
	d := k.base.clone()
	randVal := func() int32 { return int32(r.Intn(len(w.vp.tups))) }
	point := func(i int) {
		if d[i] >= 0 && r.Intn(3) == 0 {
			d[i] = -1
		} else {
			d[i] = randVal()
		}
	}
	switch r.Intn(6) {
	case 0: // untouched side
		return d
	case 1: // runs only
	default:
		for j := 1 + r.Intn(1+n/15); j > 0; j-- {
			i := r.Intn(n)
			if b := si.pickNearBoundary(r, n); b >= 0 && r.Intn(3) == 0 {
				i = b
				k.st.add("c14.edits.near_chunk_boundary", 1)
			}
			point(i)
		}
	}
	for j := r.Intn(3); j > 0; j-- {
		ln := 1 + r.Intn(min(n, 700))
		s := r.Intn(n - ln + 1)
		mode := r.Intn(3)
		for i := s; i < s+ln; i++ {
			switch mode {
			case 0:
				d[i] = -1 // delete whole chunks
			case 1:
				d[i] = randVal() // overwrite + insert
			default:
				if d[i] < 0 {
					d[i] = randVal() // insert only
				}
			}
		}
		k.st.add("c14.edits.runs", 1)
	}
	return d
}

func (k *c14Case) mk(d dict, bulk bool) prolly.Map {
	if bulk {
		return k.w.build(d)
	}
	mut := k.bm.Mutate()
	for i := range d {
		if d[i] == k.base[i] {
			continue
		}
		var err error
		if d[i] < 0 {
			err = mut.Delete(bg, k.w.kp.tups[i])
		} else {
			err = mut.Put(bg, k.w.kp.tups[i], k.w.vp.tups[d[i]])
		}
		rig.Must(wrapErr("Put/Delete", err))
	}
	m, err := mut.Map(bg)
	rig.Must(wrapErr("Map", err))
	return m
}

func c14Triple(c *rig.Ctx, st *stats, idx, total int) {
	r := c.SubRand("c14", idx)
	poolWant, shape := sizeClass(r, idx, total)
	if shape == valEmpty && r.Intn(3) > 0 {
		shape = valSmall
	}
	w := genWorld(r, poolWant, shape, 3+r.Intn(20))
	k := &c14Case{c: c, st: st, w: w, r: r, name: fmt.Sprintf("c14/t%d", idx), salt: r.Intn(1 << 16)}
	n := w.kp.n()
	c.Case(k.name, map[string]any{"world": w.desc, "policy_salt": k.salt})
	k.base = w.randDict(r, []float64{0, 0.1, 0.5, 0.9}[r.Intn(4)])
	k.bm = w.build(k.base)
	siB := w.shape(k.bm)
	if n == 0 {
		k.left, k.right = k.base.clone(), k.base.clone()
	} else {
		k.left, k.right = k.side(siB), k.side(siB)
		// deliberately overlapping edits
		nv := len(w.vp.tups)
		for j := r.Intn(2 + n/10); j > 0; j-- {
			i := r.Intn(n)
			if b := siB.pickNearBoundary(r, n); b >= 0 && r.Intn(4) == 0 {
				i = b
			}
			switch r.Intn(6) {
			case 0: // same new value on both sides
				v := int32(r.Intn(nv))
				k.left[i], k.right[i] = v, v
			case 1: // different values
				k.left[i] = int32(r.Intn(nv))
				k.right[i] = int32((int(k.left[i]) + 1 + r.Intn(max(nv-1, 1))) % nv)
			case 2: // delete vs modify
				if k.base[i] < 0 {
					k.base[i] = int32(r.Intn(nv))
				}
				k.left[i], k.right[i] = -1, int32(r.Intn(nv))
			case 3: // modify vs delete
				if k.base[i] < 0 {
					k.base[i] = int32(r.Intn(nv))
				}
				k.left[i], k.right[i] = int32(r.Intn(nv)), -1
			case 4: // both delete
				if k.base[i] < 0 {
					k.base[i] = int32(r.Intn(nv))
				}
				k.left[i], k.right[i] = -1, -1
			default: // both add (same or different)
				k.base[i] = -1
				k.left[i] = int32(r.Intn(nv))
				k.right[i] = int32(r.Intn(nv))
			}
		}
		k.bm = w.build(k.base) // base may have been adjusted above
		siB = w.shape(k.bm)
	}
	bulk := r.Intn(4) == 0
	k.lm, k.rm = k.mk(k.left, bulk), k.mk(k.right, bulk)
	k.run(siB, idx < 3)
}

// c14Tail: triples on >= 20 000-entry maps where one side is a tail truncation of the base (tailmerge.go).
func c14Tail(c *rig.Ctx, st *stats, idx int) {
	r := c.SubRand("c14/tail", idx)
	c.Case(fmt.Sprintf("c14/tail%d", idx), nil)
	tw := genTailWorld(r)
	siB := tw.w.shape(tw.bm)
	for v := 0; v < 4; v++ {
		t := tw.triple(r, true)
		k := &c14Case{c: c, st: st, w: tw.w, r: r, name: fmt.Sprintf("c14/tail%d/v%d(%s,mirrored=%v)", idx, v, t.mode, t.mirrored), salt: r.Intn(1 << 16),
			base: tw.base, left: t.left, right: t.right, bm: tw.bm}
		k.lm, k.rm = tw.mapFrom(t.left), tw.mapFrom(t.right)
		th := k.rm.Height()
		if t.mirrored {
			th = k.lm.Height()
		}
		t.count(st, "c14", th)
		k.run(siB, false)
	}
}

// run compares one (base,left,right) triple with the key-wise model.
func (k *c14Case) run(siB *shapeInfo, sample bool) {
	c, st, w := k.c, k.st, k.w
	n := w.kp.n()

	// ---- the key-wise model
	nv := len(w.vp.tups)
	want := newDict(n)
	var wantColl []int
	for i := 0; i < n; i++ {
		b, l, rr := k.base[i], k.left[i], k.right[i]
		switch {
		case l == b:
			want[i] = rr
		case rr == b:
			want[i] = l
		case l == rr:
			want[i] = l
			st.add("c14.convergent", 1)
		default:
			pol := policyOf(k.salt, b, l, rr)
			want[i] = resolvedValue(pol, nv, l, rr)
			wantColl = append(wantColl, i)
			if pol == polConflict {
				st.add("c14.collisions.conflict", 1)
			} else {
				st.add("c14.collisions.resolved", 1)
			}
			if (l < 0) != (rr < 0) {
				st.add("c14.collisions.delete_vs_modify", 1)
			}
		}
	}

	// ---- MergeMaps
	type call struct {
		rank int
		bad  string
	}
	var calls []call
	cb := func(ld, rd tree.Diff) (tree.Diff, bool) {
		rank, ok := w.kp.byBytes[string(ld.Key)]
		cl := call{rank: rank}
		if !ok {
			cl.rank = -1
			cl.bad = "handler called with an unknown key"
			calls = append(calls, cl)
			return tree.Diff{}, false
		}
		b, l, rr := k.base[rank], k.left[rank], k.right[rank]
		switch {
		case !bytes.Equal(ld.Key, rd.Key):
			cl.bad = "left and right diff carry different keys"
		case k.vidx(ld.From) != b || k.vidx(rd.From) != b:
			cl.bad = fmt.Sprintf("From values are #%d/#%d, base value is #%d", k.vidx(ld.From), k.vidx(rd.From), b)
		case k.vidx(ld.To) != l || k.vidx(rd.To) != rr:
			cl.bad = fmt.Sprintf("To values are #%d/#%d, left/right values are #%d/#%d", k.vidx(ld.To), k.vidx(rd.To), l, rr)
		case ld.Type != diffType(b, l) || rd.Type != diffType(b, rr):
			cl.bad = fmt.Sprintf("diff types %s/%s, model says %s/%s", ld.Type.DiffTypeString(), rd.Type.DiffTypeString(), diffType(b, l).DiffTypeString(), diffType(b, rr).DiffTypeString())
		}
		calls = append(calls, cl)
		pol := policyOf(k.salt, b, l, rr)
		if pol == polConflict {
			return tree.Diff{}, false
		}
		v := resolvedValue(pol, nv, l, rr)
		return tree.Diff{Key: ld.Key, From: ld.From, To: tree.Item(k.vt(v)), Type: tree.ModifiedDiff}, true
	}
	merged, _, err := prolly.MergeMaps(bg, k.lm, k.rm, k.bm, cb)
	st.add("c14.merges", 1)
	if err != nil {
		k.fail("c14/merge/error", "MergeMaps returned an error: "+firstLine(err.Error()), map[string]any{"error": err.Error()})
		return
	}
	// collision handler invocations: exactly the model's collisions, ascending, once each, right arguments
	for i := 0; i < len(calls) && i < len(wantColl); i++ {
		if calls[i].rank != wantColl[i] {
			gs := "unknown key"
			if calls[i].rank >= 0 {
				gs = k.states(calls[i].rank)
			}
			k.fail("c14/merge/collision-set", fmt.Sprintf("handler call %d is for %s; the model's collision %d is %s (calls %d, model %d)", i, gs, i, k.states(wantColl[i]), len(calls), len(wantColl)), nil)
			break
		}
		if calls[i].bad != "" {
			k.fail("c14/merge/collision-args", "handler call for "+k.states(calls[i].rank)+": "+calls[i].bad, nil)
			break
		}
	}
	if !k.failed && len(calls) != len(wantColl) {
		var ex string
		if len(calls) > len(wantColl) {
			ex = "first extra call: " + k.states(calls[len(wantColl)].rank)
		} else {
			ex = "first collision never handed over: " + k.states(wantColl[len(calls)])
		}
		k.fail("c14/merge/collision-set", fmt.Sprintf("handler called %d times, the model has %d collisions; %s", len(calls), len(wantColl), ex), nil)
	}
	// merged content
	got, msg := w.content(merged)
	if msg != "" {
		k.fail("c14/merge/result", "merged map is not a well-formed dictionary over the written keys: "+msg, nil)
	} else if !got.equal(want) {
		for i := range want {
			if got[i] != want[i] {
				k.fail("c14/merge/result", fmt.Sprintf("merged value #%d, model value #%d at %s", got[i], want[i], k.states(i)), nil)
				break
			}
		}
	}
	if cnt, err := merged.Count(); err == nil && !k.failed && cnt != want.count() {
		k.fail("c14/merge/result", fmt.Sprintf("merged map Count()=%d but it iterates %d entries", cnt, want.count()), nil)
	}
	// canonical shape
	canon := w.build(want)
	if !k.failed && canon.HashOf() != merged.HashOf() {
		k.fail("c14/merge/non-canonical", fmt.Sprintf("merged map has the model's content (%d entries) but hash %s; canonical tree of that content is %s",
			want.count(), merged.HashOf(), canon.HashOf()), map[string]any{"merged": describeTree(w, merged), "canonical": describeTree(w, canon)})
	}
	// evidence: did the patcher adopt whole chunks of the right side?
	siL, siR, siM := w.shape(k.lm), w.shape(k.rm), w.shape(merged)
	for h := range siM.allHashes {
		if _, inR := siR.allHashes[h]; inR {
			if _, inL := siL.allHashes[h]; !inL {
				st.add("c14.merges.right_chunk_adopted", 1)
				break
			}
		}
	}
	if siL.height != siR.height || siL.height != siB.height {
		st.add("c14.merges.height_differs", 1)
	}
	if !k.failed {
		k.checkDiffer(merged)
	}
	if !k.failed && !k.left.equal(k.base) && !k.right.equal(k.base) {
		c.Distinct(fmt.Sprintf("%s|%s|%s|%s", w.kp.sch, k.bm.HashOf(), k.lm.HashOf(), k.rm.HashOf()))
	}
	if sample {
		c.Sample(map[string]any{"case": k.name, "world": w.desc, "collisions": len(wantColl), "merged": describeTree(w, merged)})
	}
}

func firstLine(s string) string {
	for i := range s {
		if s[i] == '\n' {
			return s[:i]
		}
	}
	return s
}

func (k *c14Case) states(i int) string {
	return fmt.Sprintf("key %s (base #%d, left #%d, right #%d)", fmtVals(k.w.kp.vals[i]), k.base[i], k.left[i], k.right[i])
}

// checkDiffer compares the ThreeWayDiffer sequence with the model classification, then applies the differ's
// output to left and requires the same tree as the patch-based merge.
func (k *c14Case) checkDiffer(merged prolly.Map) {
	w := k.w
	nv := len(w.vp.tups)
	sctx := sql.NewEmptyContext()
	resolve := func(_ *sql.Context, l, r, b val.Tuple) (val.Tuple, bool, error) {
		bi, li, ri := k.vidx(b), k.vidx(l), k.vidx(r)
		pol := policyOf(k.salt, bi, li, ri)
		if pol == polConflict {
			return nil, false, nil
		}
		return k.vt(resolvedValue(pol, nv, li, ri)), true, nil
	}
	d, err := tree.NewThreeWayDiffer(bg, w.ns, k.lm.Tuples(), k.rm.Tuples(), k.bm.Tuples(), resolve, false, tree.ThreeWayDiffInfo{}, w.kd())
	if err != nil {
		k.fail("c14/differ/error", err.Error(), nil)
		return
	}
	mut := k.lm.Mutate()
	i := -1
	next := func() int { // next rank with any change
		for i++; i < len(k.base); i++ {
			if k.left[i] != k.base[i] || k.right[i] != k.base[i] {
				return i
			}
		}
		return -1
	}
	steps := 0
	for {
		td, err := d.Next(sctx)
		if err == io.EOF {
			if e := next(); e >= 0 {
				k.fail("c14/differ/sequence", "ThreeWayDiffer ended early; the model's next changed key is "+k.states(e), nil)
			}
			break
		}
		if err != nil {
			k.fail("c14/differ/error", err.Error(), nil)
			return
		}
		steps++
		e := next()
		if e < 0 {
			k.fail("c14/differ/sequence", fmt.Sprintf("ThreeWayDiffer reports %s for an extra key after the model's changes are exhausted", td.Op), nil)
			return
		}
		if !bytes.Equal(td.Key, w.kp.tups[e]) {
			gs := "unknown key"
			if g, ok := w.kp.byBytes[string(td.Key)]; ok {
				gs = k.states(g)
			}
			k.fail("c14/differ/sequence", fmt.Sprintf("ThreeWayDiffer step %d is %s for %s; the model's next changed key is %s", steps, td.Op, gs, k.states(e)), nil)
			return
		}
		b, l, r := k.base[e], k.left[e], k.right[e]
		var op tree.DiffOp
		apply := int32(-9) // -9: keep left
		okVals := true
		switch {
		case r == b: // left only
			op = [...]tree.DiffOp{tree.AddedDiff: tree.DiffOpLeftAdd, tree.ModifiedDiff: tree.DiffOpLeftModify, tree.RemovedDiff: tree.DiffOpLeftDelete}[diffType(b, l)]
			okVals = k.vidx(td.Left) == l
		case l == b: // right only
			op = [...]tree.DiffOp{tree.AddedDiff: tree.DiffOpRightAdd, tree.ModifiedDiff: tree.DiffOpRightModify, tree.RemovedDiff: tree.DiffOpRightDelete}[diffType(b, r)]
			okVals = k.vidx(td.Right) == r && k.vidx(td.Base) == b
			apply = r
		case l == r:
			op = [...]tree.DiffOp{tree.AddedDiff: tree.DiffOpConvergentAdd, tree.ModifiedDiff: tree.DiffOpConvergentModify, tree.RemovedDiff: tree.DiffOpConvergentDelete}[diffType(b, l)]
			okVals = k.vidx(td.Left) == l
		default:
			pol := policyOf(k.salt, b, l, r)
			del := l < 0 || r < 0
			switch {
			case del && pol == polConflict:
				op = tree.DiffOpDivergentDeleteConflict
			case del:
				op = tree.DiffOpDivergentDeleteResolved
				apply = resolvedValue(pol, nv, l, r)
			case pol == polConflict:
				op = tree.DiffOpDivergentModifyConflict
			default:
				op = tree.DiffOpDivergentModifyResolved
				apply = resolvedValue(pol, nv, l, r)
				okVals = k.vidx(td.Merged) == apply
			}
			okVals = okVals && k.vidx(td.Left) == l && k.vidx(td.Right) == r
			if op != tree.DiffOpDivergentModifyResolved {
				okVals = okVals && k.vidx(td.Base) == b
			}
		}
		if td.Op != op {
			k.fail("c14/differ/classification", fmt.Sprintf("ThreeWayDiffer classifies %s as %s, the key-wise model as %s", k.states(e), td.Op, op), nil)
			return
		}
		if !okVals {
			k.fail("c14/differ/values", fmt.Sprintf("ThreeWayDiffer %s for %s carries base/left/right/merged = #%d/#%d/#%d/#%d", td.Op, k.states(e),
				k.vidx(td.Base), k.vidx(td.Left), k.vidx(td.Right), k.vidx(td.Merged)), nil)
			return
		}
		k.st.add("c14.differ.steps", 1)
		if apply != -9 {
			var err error
			if apply < 0 {
				err = mut.Delete(bg, w.kp.tups[e])
			} else {
				err = mut.Put(bg, w.kp.tups[e], w.vp.tups[apply])
			}
			rig.Must(wrapErr("Put/Delete", err))
		}
	}
	if k.failed {
		return
	}
	viaDiffer, err := mut.Map(bg)
	rig.Must(wrapErr("Map", err))
	k.st.add("c14.differ.compared_with_patch_merge", 1)
	if viaDiffer.HashOf() != merged.HashOf() {
		k.fail("c14/differ-vs-patch-merge", fmt.Sprintf("applying the ThreeWayDiffer output to left gives %s, the patch-based merge gives %s", viaDiffer.HashOf(), merged.HashOf()),
			map[string]any{"via_differ": describeTree(w, viaDiffer), "patch_merge": describeTree(w, merged)})
	}
}
