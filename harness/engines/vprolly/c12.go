package vprolly

import (
	"bytes"
	"context"
	"encoding/binary"
	"encoding/json"
	"fmt"
	"io"
	"math/rand"
	"sort"
	"strings"

	gmstypes "github.com/dolthub/go-mysql-server/sql/types"

	"github.com/dolthub/dolt/go/store/hash"
	"github.com/dolthub/dolt/go/store/prolly"
	"github.com/dolthub/dolt/go/store/prolly/message"
	"github.com/dolthub/dolt/go/store/prolly/tree"
	"github.com/dolthub/dolt/go/store/val"

	"verif/rig"
)

// C12 — tree shape and root hash depend only on content.
//
// Oracle: the canonical tree of a content set is the bulk build from the content sorted by the model. Every
// other construction route that ends in the same content must produce the same root hash (a Merkle root: equal
// hash <=> identical chunk set).

func c12(c *rig.Ctx) {
	c.Rule("content sets = random subsets of a model-sorted key pool with values (0..~20000 entries, 1-3 field keys of 22 " +
		"encodings, values from empty to 20KB so that size-forced boundaries occur). Canonical tree = bulk build from sorted " +
		"content. Routes compared with it: random insertion order in batches of 1..n (explicit Map() per batch and WithMaxPending), " +
		"grow-then-shrink through a superset, shrink-to-empty-and-regrow, edits from a different ancestor with redundant noise " +
		"edits, MutateMapWithTupleIter, and the result of a conflict-free three-way merge. Same for address maps, commit closures " +
		"(canonical = chunker over sorted content), blobs (BlobBuilder fresh / pooled-reused / WriteBytes) and JSON documents " +
		"(SerializeJsonToAddr of the resulting bytes vs IndexedJsonDocument edits). A content set is distinct/non-trivial when " +
		"its (schema, size, content hash) differs and it has >= 2 chunks")
	c.Assume("a reader that returns short reads is not a construction route dolt uses for blobs (all callers pass bytes.Reader); " +
		"it is run as a diagnostic only")
	st := newStats()
	n := c.Pick(200, 6000)
	parallel(n, workers, func(i int) { c12Maps(c, st, i, n) })
	parallel(c.Pick(10, 100), workers, func(i int) { c12TailMerges(c, st, i) })
	na := c.Pick(40, 600)
	parallel(na, workers, func(i int) { c12AddressMap(c, st, i) })
	parallel(na, workers, func(i int) { c12CommitClosure(c, st, i) })
	parallel(c.Pick(60, 800), workers, func(i int) { c12Blob(c, st, i) })
	parallel(c.Pick(400, 8000), workers, func(i int) { c12JSON(c, st, i) })
	st.flush(c)
	c.Require(st.get("c12.edits.at_chunk_boundary") > 0, "no edit at a chunk boundary")
	c.Require(st.get("c12.routes.height_changed") > 0, "no route changed the tree height")
	c.Require(st.get("c12.routes.merge") > 0, "no merge route")
	c.Require(st.get("c12.canon.height>=3") > 0, "no canonical tree of height >= 3")
	c.Require(st.get("c12.canon.size_forced_boundary") > 0, "no content with giant values (size-forced boundaries)")
	c.Require(st.get("c12.json.multi_chunk_compared") > 0 && st.get("c12.json.edits_changed") > 0, "no effective JSON edit on a multi-chunk document took the indexed path with comparable bytes")
	c.Require(st.get("c12.blob.multi_level") > 0, "no multi-level blob")
	c.Require(st.get("c12.tailmerge.right_truncated+last_leaf_not_first_child") > 0,
		"no merge of a height>=3 right tree truncated at a non-boundary key with rows following in the result")
}

type c12Case struct {
	c      *rig.Ctx
	st     *stats
	w      *world
	r      *rand.Rand
	name   string
	target dict
	canon  prolly.Map
	failed bool
}

func (k *c12Case) compare(route string, m prolly.Map, extra map[string]any) {
	k.st.add("c12.routes.compared", 1)
	k.st.add("c12.routes."+route, 1)
	if m.HashOf() == k.canon.HashOf() {
		return
	}
	k.failed = true
	wit := map[string]any{"case": k.name, "world": k.w.desc, "route": route, "entries": k.target.count(),
		"canonical": describeTree(k.w, k.canon), "route_tree": describeTree(k.w, m)}
	for a, b := range extra {
		wit[a] = b
	}
	got, msg := k.w.content(m)
	if msg != "" || !got.equal(k.target) {
		if msg == "" {
			msg = "content reached by the route differs from the intended content"
		}
		k.c.Violation("c12/map/"+route+"/content", "route did not even produce the intended content: "+msg, wit)
		return
	}
	k.c.Violation("c12/map/"+route+"/hash", fmt.Sprintf("same %d entries, root hash %s via route %q vs canonical %s",
		k.target.count(), m.HashOf(), route, k.canon.HashOf()), wit)
}

func describeTree(w *world, m prolly.Map) map[string]any {
	si := w.shape(m)
	cnt, _ := m.Count()
	b := si.boundaries
	if len(b) > 40 {
		b = b[:40]
	}
	return map[string]any{"hash": m.HashOf().String(), "height": si.height, "nodes": si.nodes, "leaves": si.leaves, "count": cnt, "first_leaf_boundaries(pool ranks)": b}
}

// transform edits map m (holding `from`) until it holds `to`, in nb batches. Early batches apply a random part
// of the necessary edits plus, optionally, redundant noise edits; the last batch fixes every remaining
// difference. style: 0 = Mutate/Put/Delete/Map per batch, 1 = one MutableMap with WithMaxPending, 2 =
// MutateMapWithTupleIter with a sorted mutation stream per batch.
func (k *c12Case) transform(m prolly.Map, from, to dict, nb int, noise bool, style int, anc *shapeInfo) (prolly.Map, int) {
	w, r := k.w, k.r
	cur := from.clone()
	maxH := m.Height()
	var mut *prolly.MutableMap
	if style == 1 {
		var need int
		for i := range cur {
			if cur[i] != to[i] {
				need++
			}
		}
		mut = m.Mutate().WithMaxPending(max(1, need/max(nb, 1)))
	}
	apply := func(edits map[int]int32) {
		if len(edits) == 0 {
			return
		}
		ranks := make([]int, 0, len(edits))
		for i := range edits {
			ranks = append(ranks, i)
			if anc != nil && anc.nearBoundary(i) {
				k.st.add("c12.edits.at_chunk_boundary", 1)
			}
		}
		k.st.add("c12.edits", len(edits))
		var err error
		switch style {
		case 2:
			sort.Ints(ranks) // the mutation stream must be sorted; rank order IS model order
			tups := make([]val.Tuple, 0, 2*len(ranks))
			for _, i := range ranks {
				var v val.Tuple
				if edits[i] >= 0 {
					v = w.vp.tups[edits[i]]
				}
				tups = append(tups, w.kp.tups[i], v)
			}
			m, err = prolly.MutateMapWithTupleIter(bg, m, &sliceTupleIter{tups: tups})
			rig.Must(wrapErr("MutateMapWithTupleIter", err))
		default:
			mm := mut
			if style == 0 {
				mm = m.Mutate()
			}
			r.Shuffle(len(ranks), func(a, b int) { ranks[a], ranks[b] = ranks[b], ranks[a] })
			for _, i := range ranks {
				if edits[i] >= 0 {
					err = mm.Put(bg, w.kp.tups[i], w.vp.tups[edits[i]])
				} else {
					err = mm.Delete(bg, w.kp.tups[i])
				}
				rig.Must(wrapErr("Put/Delete", err))
			}
			if style == 0 {
				m, err = mm.Map(bg)
				rig.Must(wrapErr("Map", err))
			}
		}
		for i, v := range edits {
			cur[i] = v
		}
		if style != 1 {
			maxH = max(maxH, m.Height())
		}
	}
	for b := 0; b < nb-1; b++ {
		edits := map[int]int32{}
		for i := range cur {
			if cur[i] != to[i] && r.Intn(nb-b) == 0 {
				edits[i] = to[i]
			}
		}
		if noise && len(cur) > 0 {
			for j := r.Intn(1 + len(cur)/10); j > 0; j-- {
				i := r.Intn(len(cur))
				if r.Intn(3) == 0 {
					edits[i] = -1
				} else {
					edits[i] = int32(r.Intn(len(w.vp.tups)))
				}
			}
		}
		apply(edits)
	}
	edits := map[int]int32{}
	for i := range cur {
		if cur[i] != to[i] {
			edits[i] = to[i]
		}
	}
	apply(edits)
	if style == 1 {
		var err error
		m, err = mut.Map(bg)
		rig.Must(wrapErr("Map", err))
		maxH = max(maxH, m.Height())
	}
	return m, maxH
}

type sliceTupleIter struct{ tups []val.Tuple }

func (s *sliceTupleIter) Next(context.Context) (k, v val.Tuple) {
	if len(s.tups) > 0 {
		k, v = s.tups[0], s.tups[1]
		s.tups = s.tups[2:]
	}
	return
}

func wrapErr(what string, err error) error {
	if err == nil {
		return nil
	}
	return fmt.Errorf("dolt returned an error from %s while building a route: %w", what, err)
}

func (k *c12Case) batches(n int) int {
	// batch size 1 (n batches) only for small sets; large sets use up to ~12 batches
	switch x := k.r.Intn(4); {
	case x == 0:
		return 1
	case x == 1 && n <= 300:
		return max(n, 1)
	case x == 2:
		return 2 + k.r.Intn(3)
	}
	return 2 + k.r.Intn(11)
}

func c12Maps(c *rig.Ctx, st *stats, idx, total int) {
	r := c.SubRand("c12/map", idx)
	poolWant, shape := sizeClass(r, idx, total)
	if idx%5 == 2 {
		shape = valGiant
	}
	w := genWorld(r, poolWant, shape, 4+r.Intn(24))
	k := &c12Case{c: c, st: st, w: w, r: r, name: fmt.Sprintf("c12/map%d", idx)}
	fill := []float64{0.05, 0.3, 0.5, 0.8, 1}[r.Intn(5)]
	c.Case(k.name, map[string]any{"world": w.desc, "fill": fill})
	k.target = w.randDict(r, fill)
	if w.kp.n() > 0 && r.Intn(12) == 0 {
		k.target = newDict(w.kp.n()) // the empty content set
	}
	k.canon = w.build(k.target)
	n := k.target.count()
	siC := w.shape(k.canon)
	st.add("c12.canon", 1)
	st.add(fmt.Sprintf("c12.canon.height=%d", min(siC.height, 4)), 1)
	if siC.height >= 3 {
		st.add("c12.canon.height>=3", 1)
	}
	if shape == valGiant && n > 10 {
		st.add("c12.canon.size_forced_boundary", 1)
	}
	if w.kp.n() == 0 {
		return
	}
	empty := newDict(w.kp.n())
	emptyMap := w.build(empty)

	// route 1: random insertion order from the empty map, batches of 1..n
	heavy := w.kp.n() > 8000 // the 20 000-entry class runs a sample of the routes to keep the quick tier short
	styles := []int{0, 1, 2}
	if heavy {
		styles = []int{r.Intn(3)}
	}
	for _, style := range styles {
		m, _ := k.transform(emptyMap, empty, k.target, k.batches(n), false, style, nil)
		k.compare(fmt.Sprintf("insert-from-empty/style%d", style), m, nil)
	}
	// route 2: grow to a superset, then shrink back
	sup := k.target.clone()
	for i := range sup {
		if sup[i] < 0 && r.Intn(3) > 0 {
			sup[i] = int32(r.Intn(len(w.vp.tups)))
		}
	}
	{
		style := r.Intn(3)
		grown, h1 := k.transform(k.canon, k.target, sup, k.batches(sup.count()-n), false, style, siC)
		siG := w.shape(grown)
		back, h2 := k.transform(grown, sup, k.target, k.batches(sup.count()-n), false, r.Intn(3), siG)
		if max(h1, h2) != siC.height {
			st.add("c12.routes.height_changed", 1)
		}
		k.compare("grow-then-shrink", back, map[string]any{"superset_entries": sup.count(), "max_height": max(h1, h2)})
		// the superset reached by growth must itself be canonical
		k2 := *k
		k2.target, k2.canon = sup, w.build(sup)
		k2.compare("grow", grown, nil)
		k.failed = k.failed || k2.failed
	}
	// route 3: shrink to empty, regrow
	if n <= 4000 {
		gone, _ := k.transform(k.canon, k.target, empty, k.batches(n), false, r.Intn(3), siC)
		k3 := *k
		k3.target, k3.canon = empty, emptyMap
		k3.compare("shrink-to-empty", gone, nil)
		k.failed = k.failed || k3.failed
		if siC.height > 1 {
			st.add("c12.routes.height_changed", 1)
		}
		again, _ := k.transform(gone, empty, k.target, k.batches(n), true, r.Intn(3), nil)
		k.compare("shrink-to-empty-and-regrow", again, nil)
	}
	// route 4: a different ancestor, with noise edits on the way
	for rep := 0; rep < 2; rep++ {
		if heavy && rep == 0 && r.Intn(2) == 0 {
			continue
		}
		other := w.randDict(r, []float64{0.1, 0.5, 0.9}[r.Intn(3)])
		if rep == 1 { // a near ancestor: few differences, mostly shared chunks
			other = k.target.clone()
			for j := 1 + r.Intn(6); j > 0; j-- {
				i := r.Intn(len(other))
				if bk := siC.pickNearBoundary(r, len(other)); bk >= 0 && r.Intn(2) == 0 {
					i = bk
				}
				if other[i] >= 0 && r.Intn(2) == 0 {
					other[i] = -1
				} else {
					other[i] = int32(r.Intn(len(w.vp.tups)))
				}
			}
		}
		anc := w.build(other)
		siA := w.shape(anc)
		style := r.Intn(3)
		m, mh := k.transform(anc, other, k.target, k.batches(n), rep == 0, style, siA)
		if siA.height != siC.height || mh != siC.height {
			st.add("c12.routes.height_changed", 1)
		}
		k.compare(fmt.Sprintf("from-other-ancestor/%s/style%d", []string{"far", "near"}[rep], style), m,
			map[string]any{"ancestor": describeTree(w, anc)})
	}
	// route 5: conflict-free three-way merge whose result is the target
	k.mergeRoute(siC)
	// route 6: cut off a whole suffix / prefix of the key space, preferably exactly at a chunk boundary
	k.truncateRoutes(siC)

	st.add("c12.content_sets", 1)
	if !k.failed && siC.nodes >= 2 {
		c.Distinct(fmt.Sprintf("%s|%d|%s", w.kp.sch, n, k.canon.HashOf()))
	}
	if idx < 3 {
		c.Sample(map[string]any{"case": k.name, "world": w.desc, "canonical": describeTree(w, k.canon)})
	}
}

// truncateRoutes deletes every key from a cut rank upwards (or downwards) from the canonical tree: whole subtrees
// disappear and the root may have to be re-canonicalised. The result is compared with the canonical tree of the
// remaining content.
func (k *c12Case) truncateRoutes(siC *shapeInfo) {
	w, r := k.w, k.r
	n := w.kp.n()
	if k.target.count() < 2 {
		return
	}
	for _, suffix := range []bool{true, false} {
		cut := r.Intn(n)
		atBoundary := false
		if len(siC.boundaries) > 0 && r.Intn(3) > 0 {
			cut = siC.boundaries[r.Intn(len(siC.boundaries))] + 1 // first key of the next chunk
			atBoundary = true
			if len(siC.upper) > 0 && r.Intn(2) == 0 { // ... of the next level-1 (or higher) subtree
				cut = siC.upper[r.Intn(len(siC.upper))] + 1
				k.st.add("c12.truncations.at_subtree_boundary", 1)
			}
		}
		rest := k.target.clone()
		for i := range rest {
			if (suffix && i >= cut) || (!suffix && i < cut) {
				rest[i] = -1
			}
		}
		if atBoundary {
			k.st.add("c12.edits.at_chunk_boundary", 1)
			k.st.add("c12.truncations.at_chunk_boundary", 1)
		}
		style := r.Intn(3)
		m, _ := k.transform(k.canon, k.target, rest, 1+r.Intn(2), false, style, nil)
		k2 := *k
		k2.target, k2.canon = rest, w.build(rest)
		if k2.canon.Height() != siC.height {
			k.st.add("c12.routes.height_changed", 1)
		}
		name := "truncate-prefix"
		if suffix {
			name = "truncate-suffix"
		}
		k2.compare(name, m, map[string]any{"cut_rank": cut, "cut_at_chunk_boundary": atBoundary, "style": style})
		k.failed = k.failed || k2.failed
	}
}

// c12TailMerges: conflict-free merges on >= 20 000-entry maps where one side is a tail truncation (tailmerge.go).
func c12TailMerges(c *rig.Ctx, st *stats, idx int) {
	r := c.SubRand("c12/tailmerge", idx)
	name := fmt.Sprintf("c12/tailmerge%d", idx)
	c.Case(name, nil)
	tw := genTailWorld(r)
	w := tw.w
	for v := 0; v < 4; v++ {
		t := tw.triple(r, false)
		lm, rm := tw.mapFrom(t.left), tw.mapFrom(t.right)
		th := rm.Height()
		if t.mirrored {
			th = lm.Height()
		}
		t.count(st, "c12", th)
		target := newDict(w.kp.n())
		for i := range target {
			switch {
			case t.left[i] == tw.base[i]:
				target[i] = t.right[i]
			default:
				target[i] = t.left[i]
			}
		}
		k := &c12Case{c: c, st: st, w: w, r: r, name: fmt.Sprintf("%s/v%d", name, v), target: target, canon: w.build(target)}
		collisions := 0
		merged, _, err := prolly.MergeMaps(bg, lm, rm, tw.bm, func(l, rr tree.Diff) (tree.Diff, bool) {
			collisions++
			return tree.Diff{}, false
		})
		if err != nil {
			c.Violation("c12/map/merge-tail/error", "MergeMaps failed: "+err.Error(), map[string]any{"case": k.name, "world": w.desc, "mode": t.mode})
			continue
		}
		k.compare("merge-tail", merged, map[string]any{"mode": t.mode, "mirrored_roles": t.mirrored, "collisions": collisions,
			"truncated_side_height": th, "truncated_last_key_is_chunk_boundary": t.lastKeyNatural, "rows_after_truncated_last_key": t.rowsAfter,
			"base": describeTree(w, tw.bm), "left": describeTree(w, lm), "right": describeTree(w, rm)})
		if !k.failed && th >= 3 {
			c.Distinct("tailmerge|" + merged.HashOf().String())
		}
	}
}

// mergeRoute builds (base, left, right) such that left and right edit disjoint key sets and the key-wise merge
// is exactly the target content.
func (k *c12Case) mergeRoute(siC *shapeInfo) {
	w, r := k.w, k.r
	n := w.kp.n()
	base, left, right := k.target.clone(), k.target.clone(), k.target.clone()
	other := func(v int32) int32 { // a state different from v
		for {
			x := int32(r.Intn(len(w.vp.tups)+1)) - 1
			if x != v {
				return x
			}
		}
	}
	edit := func(i int, side int) {
		if base[i] != k.target[i] {
			return // already edited by one side
		}
		b := other(k.target[i])
		base[i] = b
		if side == 0 {
			right[i] = b // left changed it to target, right kept base
		} else {
			left[i] = b
		}
	}
	// sparse point edits on both sides + whole runs (chunk-sized adds/deletes) on either side
	pts := 1 + r.Intn(1+n/20)
	for j := 0; j < pts; j++ {
		i := r.Intn(n)
		if bk := siC.pickNearBoundary(r, n); bk >= 0 && r.Intn(3) == 0 {
			i = bk
			k.st.add("c12.edits.at_chunk_boundary", 1)
		}
		edit(i, r.Intn(2))
	}
	for j := r.Intn(3); j > 0 && n > 8; j-- {
		ln := 1 + r.Intn(min(n/2, 600))
		s := r.Intn(n - ln)
		side := r.Intn(2)
		for i := s; i < s+ln; i++ {
			edit(i, side)
		}
	}
	bm := w.build(base)
	siB := w.shape(bm)
	lm, _ := k.transform(bm, base, left, 1, false, 0, siB)
	rm, _ := k.transform(bm, base, right, 1, false, 0, siB)
	collisions := 0
	merged, _, err := prolly.MergeMaps(bg, lm, rm, bm, func(l, rr tree.Diff) (tree.Diff, bool) {
		collisions++
		return tree.Diff{}, false
	})
	if err != nil {
		k.failed = true
		k.c.Violation("c12/map/merge/error", "MergeMaps failed on disjoint edits: "+err.Error(), map[string]any{"case": k.name, "world": w.desc})
		return
	}
	if collisions > 0 {
		k.st.add("c12.merge.unexpected_collisions(see C14)", collisions)
	}
	if siB.height != siC.height {
		k.st.add("c12.routes.height_changed", 1)
	}
	k.compare("merge", merged, map[string]any{"base": describeTree(w, bm), "left": describeTree(w, lm), "right": describeTree(w, rm), "collisions": collisions})
}

// ---------------------------------------------------------------------------------------------
// generic byte-keyed ordered maps: address maps and commit closures

type bkv struct{ k, v []byte }

func chunkerBuild(ns tree.NodeStore, ser message.Serializer, items []bkv) *tree.Node {
	var ch tree.Chunker
	var err error
	switch s := ser.(type) {
	case message.AddressMapSerializer:
		ch, err = tree.NewEmptyChunker(bg, ns, s)
	case message.CommitClosureSerializer:
		ch, err = tree.NewEmptyChunker(bg, ns, s)
	default:
		panic("serializer")
	}
	rig.Must(err)
	for _, it := range items {
		rig.Must(ch.AddPair(bg, tree.Item(it.k), tree.Item(it.v)))
	}
	nd, err := ch.Done(bg)
	rig.Must(err)
	return nd
}

func c12AddressMap(c *rig.Ctx, st *stats, idx int) {
	r := c.SubRand("c12/addr", idx)
	ns := tree.NewTestNodeStore()
	name := fmt.Sprintf("c12/addrmap%d", idx)
	n := []int{0, 1, 3, 40, 400, 3000}[r.Intn(6)]
	prefix := []string{"", "refs/heads/", strings.Repeat("a-very-long-common-namespace/", 12)}[r.Intn(3)]
	c.Case(name, map[string]any{"entries": n, "prefix_len": len(prefix)})
	content := map[string]hash.Hash{}
	universe := make([]string, 0, 2*n+4)
	for i := 0; i < 2*n+4; i++ {
		universe = append(universe, fmt.Sprintf("%s%x/%d", prefix, (i*2654435761)%9973, i))
	}
	mkHash := func() hash.Hash {
		var h hash.Hash
		r.Read(h[:])
		return h
	}
	for len(content) < n {
		content[universe[r.Intn(len(universe))]] = mkHash()
	}
	// canonical: chunker over content sorted by the model (bytewise names)
	names := make([]string, 0, len(content))
	for k := range content {
		names = append(names, k)
	}
	sort.Strings(names)
	items := make([]bkv, len(names))
	for i, nm := range names {
		h := content[nm]
		items[i] = bkv{[]byte(nm), append([]byte(nil), h[:]...)}
	}
	canon := chunkerBuild(ns, message.NewAddressMapSerializer(ns.Pool()), items)
	// route: editor, random order, batches, with junk entries added and removed again, updates to final address
	am, err := prolly.NewEmptyAddressMap(ns)
	rig.Must(err)
	order := append([]string(nil), names...)
	r.Shuffle(len(order), func(a, b int) { order[a], order[b] = order[b], order[a] })
	junk := map[string]bool{}
	nb := 1 + r.Intn(8)
	maxH := 1
	for b := 0; b < nb; b++ {
		ed := am.Editor()
		lo, hi := b*len(order)/nb, (b+1)*len(order)/nb
		for _, nm := range order[lo:hi] {
			if r.Intn(4) == 0 { // first a wrong address, corrected in the same or a later batch
				rig.Must(ed.Add(bg, nm, mkHash()))
			}
			rig.Must(ed.Update(bg, nm, content[nm]))
		}
		for j := r.Intn(1 + n/3); j > 0; j-- {
			nm := universe[r.Intn(len(universe))]
			if _, ok := content[nm]; !ok {
				junk[nm] = true
				rig.Must(ed.Add(bg, nm, mkHash()))
			}
		}
		am, err = ed.Flush(bg)
		rig.Must(wrapErr("AddressMapEditor.Flush", err))
		maxH = max(maxH, am.Height())
	}
	ed := am.Editor()
	for nm := range junk {
		rig.Must(ed.Delete(bg, nm))
	}
	rig.Must(ed.Delete(bg, "never-existed"))
	am, err = ed.Flush(bg)
	rig.Must(wrapErr("AddressMapEditor.Flush", err))
	st.add("c12.addrmap.compared", 1)
	if maxH != am.Height() {
		st.add("c12.routes.height_changed", 1)
	}
	if am.Height() >= 3 {
		st.add("c12.addrmap.height>=3", 1)
	}
	cnt, _ := am.Count()
	if am.HashOf() != canon.HashOf() {
		c.Violation("c12/addrmap/editor-route/hash", fmt.Sprintf("address map with %d entries: editor route hash %s (count %d, height %d) vs canonical %s (height %d)",
			n, am.HashOf(), cnt, am.Height(), canon.HashOf(), canon.Level()+1), map[string]any{"case": name, "batches": nb, "junk": len(junk)})
	} else if n >= 40 {
		c.Distinct("addrmap|" + canon.HashOf().String())
	}
	// route: delete everything -> must equal the empty address map
	ed = am.Editor()
	for _, nm := range names {
		rig.Must(ed.Delete(bg, nm))
	}
	gone, err := ed.Flush(bg)
	rig.Must(wrapErr("AddressMapEditor.Flush", err))
	emptyAM, _ := prolly.NewEmptyAddressMap(ns)
	if gone.HashOf() != emptyAM.HashOf() {
		c.Violation("c12/addrmap/delete-all/hash", fmt.Sprintf("address map emptied by deletes hashes to %s, the empty address map to %s", gone.HashOf(), emptyAM.HashOf()),
			map[string]any{"case": name, "entries_before": n})
	}
}

func c12CommitClosure(c *rig.Ctx, st *stats, idx int) {
	r := c.SubRand("c12/closure", idx)
	ns := tree.NewTestNodeStore()
	name := fmt.Sprintf("c12/closure%d", idx)
	n := []int{0, 1, 5, 100, 1500, 8000}[r.Intn(6)]
	c.Case(name, map[string]any{"entries": n})
	type ck struct {
		height uint64
		addr   string
	}
	set := map[ck]bool{}
	gen := func() ck {
		var a [hash.ByteLen]byte
		r.Read(a[:])
		if r.Intn(3) == 0 {
			a = [hash.ByteLen]byte{} // many equal-height, near-equal addresses
			a[19] = byte(r.Intn(256))
		}
		return ck{uint64(r.Intn(1 + n/4)), string(a[:])}
	}
	for len(set) < n {
		set[gen()] = true
	}
	keys := make([]ck, 0, n)
	for k := range set {
		keys = append(keys, k)
	}
	// the model's own order: height, then address bytes
	sort.Slice(keys, func(i, j int) bool {
		if keys[i].height != keys[j].height {
			return keys[i].height < keys[j].height
		}
		return keys[i].addr < keys[j].addr
	})
	enc := func(k ck) prolly.CommitClosureKey {
		b := make([]byte, 8+hash.ByteLen)
		binary.LittleEndian.PutUint64(b, k.height)
		copy(b[8:], k.addr)
		return prolly.CommitClosureKey(b)
	}
	items := make([]bkv, len(keys))
	for i, k := range keys {
		items[i] = bkv{enc(k), []byte{0}}
	}
	canon := chunkerBuild(ns, message.NewCommitClosureSerializer(ns.Pool()), items)
	cc, err := prolly.NewEmptyCommitClosure(ns)
	rig.Must(err)
	order := append([]ck(nil), keys...)
	r.Shuffle(len(order), func(a, b int) { order[a], order[b] = order[b], order[a] })
	// Commit closures only ever grow in dolt (CommitClosureEditor.Delete has no caller; on a leaf it is a silent
	// no-op because closure leaves store no values), so the routes are: random order, 1..8 batches, repeated adds.
	nb := 1 + r.Intn(8)
	for b := 0; b < nb; b++ {
		ed := cc.Editor()
		for _, k := range order[b*len(order)/nb : (b+1)*len(order)/nb] {
			rig.Must(ed.Add(bg, enc(k)))
		}
		for j := r.Intn(1 + n/5); j > 0 && b > 0; j-- { // re-add keys of earlier batches (no-op edits)
			rig.Must(ed.Add(bg, enc(order[r.Intn(b*len(order)/nb+1)%max(len(order), 1)])))
		}
		cc, err = ed.Flush(bg)
		rig.Must(wrapErr("CommitClosureEditor.Flush", err))
	}
	st.add("c12.closure.compared", 1)
	if cc.Height() >= 2 {
		st.add("c12.closure.height>=2", 1)
	}
	if cc.HashOf() != canon.HashOf() {
		cnt, _ := cc.Count()
		c.Violation("c12/closure/editor-route/hash", fmt.Sprintf("commit closure with %d entries: editor route hash %s (count %d) vs canonical %s", n, cc.HashOf(), cnt, canon.HashOf()),
			map[string]any{"case": name, "batches": nb})
	} else if n >= 100 {
		c.Distinct("closure|" + canon.HashOf().String())
	}
}

// ---------------------------------------------------------------------------------------------
// blobs

type shortReader struct {
	r   io.Reader
	rnd *rand.Rand
}

func (s *shortReader) Read(p []byte) (int, error) {
	if len(p) > 1 {
		p = p[:1+s.rnd.Intn(len(p))]
	}
	return s.r.Read(p)
}

func c12Blob(c *rig.Ctx, st *stats, idx int) {
	r := c.SubRand("c12/blob", idx)
	ns := tree.NewTestNodeStore()
	name := fmt.Sprintf("c12/blob%d", idx)
	cl := tree.DefaultFixedChunkLength
	sizes := []int{0, 1, 19, cl - 1, cl, cl + 1, 2 * cl, 3*cl + 7, 50 * cl, 200*cl - 1, 200 * cl, 200*cl + 1, 201 * cl, 333*cl + 100}
	size := sizes[r.Intn(len(sizes))]
	if r.Intn(3) == 0 {
		size = r.Intn(c.Pick(1<<20, 3<<20))
	}
	c.Case(name, map[string]any{"size": size})
	data := make([]byte, size)
	r.Read(data)
	if r.Intn(4) == 0 { // highly repetitive content: equal leaves
		for i := range data {
			data[i] = byte(i % 3)
		}
	}
	type route struct {
		name string
		h    hash.Hash
	}
	var routes []route
	// fresh builder
	bb, err := tree.NewBlobBuilder(cl)
	rig.Must(err)
	bb.SetNodeStore(ns)
	bb.Init(size)
	_, h, err := bb.Chunk(bg, bytes.NewReader(data))
	rig.Must(wrapErr("BlobBuilder.Chunk", err))
	routes = append(routes, route{"fresh-builder", h})
	// the same builder re-used (after Reset) for a blob of another size first
	other := make([]byte, []int{1, cl + 5, 250 * cl}[r.Intn(3)])
	bb.Reset()
	bb.Init(len(other))
	_, _, err = bb.Chunk(bg, bytes.NewReader(other))
	rig.Must(wrapErr("BlobBuilder.Chunk", err))
	bb.Reset()
	bb.Init(size)
	_, h, err = bb.Chunk(bg, bytes.NewReader(data))
	rig.Must(wrapErr("BlobBuilder.Chunk", err))
	routes = append(routes, route{"reused-builder", h})
	// pooled builder of the node store
	pb := ns.BlobBuilder()
	pb.Init(size)
	_, h, err = pb.Chunk(bg, bytes.NewReader(data))
	rig.Must(wrapErr("BlobBuilder.Chunk", err))
	ns.PutBlobBuilder(pb)
	routes = append(routes, route{"pooled-builder", h})
	// exported helpers
	_, h, err = tree.SerializeBytesToAddr(bg, ns, strings.NewReader(string(data)), size)
	rig.Must(wrapErr("SerializeBytesToAddr", err))
	routes = append(routes, route{"SerializeBytesToAddr", h})
	h, err = ns.WriteBytes(bg, data)
	rig.Must(wrapErr("WriteBytes", err))
	routes = append(routes, route{"NodeStore.WriteBytes", h})
	st.add("c12.blob.compared", 1)
	if size > 200*cl {
		st.add("c12.blob.multi_level", 1)
	}
	for _, rt := range routes[1:] {
		if rt.h != routes[0].h {
			c.Violation("c12/blob/"+rt.name+"/hash", fmt.Sprintf("blob of %d bytes: %s gives %s, fresh builder gives %s", size, rt.name, rt.h, routes[0].h),
				map[string]any{"case": name, "size": size})
		}
	}
	if size > cl {
		c.Distinct("blob|" + routes[0].h.String())
	}
	// diagnostic only: a reader that returns short reads (see Assume)
	if size > 1 {
		_, h, err = tree.SerializeBytesToAddr(bg, ns, &shortReader{bytes.NewReader(data), r}, size)
		switch {
		case err != nil:
			st.add("c12.diag.blob.short_read_reader.error", 1)
		case h != routes[0].h:
			st.add("c12.diag.blob.short_read_reader.different_tree", 1)
		default:
			st.add("c12.diag.blob.short_read_reader.same_tree", 1)
		}
	}
}

// ---------------------------------------------------------------------------------------------
// JSON documents

func genJSONValue(r *rand.Rand, depth int) any {
	switch x := r.Intn(10); {
	case x < 3 || depth > 3:
		return float64(r.Intn(100000))
	case x < 6:
		return strings.Repeat(string(rune('a'+r.Intn(26))), 1+r.Intn(60))
	case x < 7:
		return r.Intn(2) == 0
	case x < 8:
		n := r.Intn(6)
		arr := make([]any, n)
		for i := range arr {
			arr[i] = genJSONValue(r, depth+1)
		}
		return arr
	default:
		n := r.Intn(6)
		obj := map[string]any{}
		for i := 0; i < n; i++ {
			obj[fmt.Sprintf("f%d", r.Intn(20))] = genJSONValue(r, depth+1)
		}
		return obj
	}
}

func c12JSON(c *rig.Ctx, st *stats, idx int) {
	r := c.SubRand("c12/json", idx)
	ns := tree.NewTestNodeStore()
	name := fmt.Sprintf("c12/json%d", idx)
	nkeys := []int{3, 40, 400, 3000}[r.Intn(4)]
	c.Case(name, map[string]any{"top_level_keys": nkeys})
	doc := map[string]any{}
	for i := 0; i < nkeys; i++ {
		doc[fmt.Sprintf("k%05d", r.Intn(nkeys*3))] = genJSONValue(r, 0)
	}
	existing := make([]string, 0, len(doc))
	for k := range doc {
		existing = append(existing, k)
	}
	sort.Strings(existing)
	root, err := tree.SerializeJsonToAddr(bg, ns, gmstypes.JSONDocument{Val: doc})
	rig.Must(wrapErr("SerializeJsonToAddr", err))
	var cur gmstypes.MutableJSON = tree.NewIndexedJsonDocument(root, ns)
	nedits := 1 + r.Intn(12)
	var trace []string
	var lastCanon *tree.Node
	for e := 0; e < nedits; e++ {
		idoc, ok := cur.(tree.IndexedJsonDocument)
		if !ok {
			st.add("c12.json.fell_back_to_in_memory", 1)
			return
		}
		key := fmt.Sprintf("k%05d", r.Intn(nkeys*3))
		if r.Intn(10) < 7 { // mostly keys that exist, so that set/replace/remove really edit
			key = existing[r.Intn(len(existing))]
		}
		path := "$." + key
		if r.Intn(3) == 0 {
			path += fmt.Sprintf(".f%d", r.Intn(20))
		}
		nv := gmstypes.JSONDocument{Val: genJSONValue(r, 1)}
		var changed bool
		op := r.Intn(4)
		switch op {
		case 0:
			cur, changed, err = idoc.Set(bg, path, nv)
		case 1:
			cur, changed, err = idoc.Insert(bg, path, nv)
		case 2:
			cur, changed, err = idoc.Replace(bg, path, nv)
		default:
			cur, changed, err = idoc.Remove(bg, path)
		}
		trace = append(trace, fmt.Sprintf("%s %s changed=%v", []string{"set", "insert", "replace", "remove"}[op], path, changed))
		if err != nil {
			st.add("c12.json.edit_errors(ignored: C17)", 1)
			return
		}
		if !changed {
			continue
		}
		st.add("c12.json.edits_changed", 1)
		// after every effective edit: the tree must be the bulk serialisation of the bytes it now holds
		idoc, ok = cur.(tree.IndexedJsonDocument)
		if !ok {
			st.add("c12.json.fell_back_to_in_memory", 1)
			return
		}
		editedRoot, err := tree.SerializeJsonToAddr(bg, ns, idoc) // returns the document's own root
		rig.Must(err)
		got, err := idoc.GetBytes(bg)
		if err != nil {
			st.add("c12.json.getbytes_errors(ignored: C17)", 1)
			return
		}
		var v any
		if err := json.Unmarshal(got, &v); err != nil {
			c.Violation("c12/json/edited-bytes-invalid", "bytes of an edited IndexedJsonDocument are not valid JSON: "+err.Error(), map[string]any{"case": name, "edits": trace})
			return
		}
		canonDoc := gmstypes.JSONDocument{Val: v}
		canonBytes, err := gmstypes.MarshallJson(bg, canonDoc)
		rig.Must(err)
		if !bytes.Equal(canonBytes, got) {
			// the edited document is a different byte string than the bulk serialisation of the same value
			// (formatting/key order): not the same content at the chunk level, nothing to compare
			st.add("c12.json.bytes_not_comparable", 1)
			return
		}
		canonRoot, err := tree.SerializeJsonToAddr(bg, ns, canonDoc)
		rig.Must(wrapErr("SerializeJsonToAddr", err))
		st.add("c12.json.indexed_edits_compared", 1)
		if canonRoot.Level() >= 1 {
			st.add("c12.json.multi_chunk_compared", 1)
		}
		if canonRoot.HashOf() != editedRoot.HashOf() {
			c.Violation("c12/json/incremental-edit/hash", fmt.Sprintf("JSON document of %d bytes: tree after IndexedJsonDocument edits hashes to %s, bulk serialisation of the same bytes to %s",
				len(got), editedRoot.HashOf(), canonRoot.HashOf()), map[string]any{"case": name, "edits": trace, "levels": []int{editedRoot.Level(), canonRoot.Level()},
				"first_differing_chunk": jsonChunkDiff(ns, editedRoot, canonRoot)})
			return
		}
		lastCanon = canonRoot
	}
	if lastCanon != nil && lastCanon.Level() >= 1 {
		c.Distinct("json|" + lastCanon.HashOf().String())
	}
}

// jsonChunkDiff describes where the leaf sequences of two JSON trees holding the same bytes first differ.
func jsonChunkDiff(ns tree.NodeStore, a, b *tree.Node) map[string]any {
	leaves := func(root *tree.Node) (out [][]byte) {
		_ = tree.WalkNodes(bg, root, ns, func(_ context.Context, nd *tree.Node) error {
			if nd.IsLeaf() {
				out = append(out, append([]byte(nil), nd.GetValue(0)...))
			}
			return nil
		})
		return
	}
	la, lb := leaves(a), leaves(b)
	tail := func(x []byte) string { return string(x[max(0, len(x)-60):]) }
	off := 0
	for i := 0; i < len(la) && i < len(lb); i++ {
		if !bytes.Equal(la[i], lb[i]) {
			return map[string]any{"leaf": i, "offset": off, "edited_len": len(la[i]), "bulk_len": len(lb[i]), "edited_leaf_ends": tail(la[i]), "bulk_leaf_ends": tail(lb[i])}
		}
		off += len(la[i])
	}
	return map[string]any{"leaves_edited": len(la), "leaves_bulk": len(lb)}
}
