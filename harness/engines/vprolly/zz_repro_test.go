package vprolly

import (
	"context"
	"fmt"
	"io"
	"testing"

	"github.com/dolthub/dolt/go/store/hash"
	"github.com/dolthub/dolt/go/store/prolly"
	"github.com/dolthub/dolt/go/store/prolly/tree"
	"github.com/dolthub/dolt/go/store/val"
)

func u32(ns tree.NodeStore, d *val.TupleDesc, vs ...uint32) val.Tuple {
	tb := val.NewTupleBuilder(d, ns)
	for i, v := range vs {
		tb.PutUint32(i, v)
	}
	t, _ := tb.Build(context.Background(), ns.Pool())
	return t
}

func keysOf(t *testing.T, it prolly.MapIter, d *val.TupleDesc) (out []string) {
	ctx := context.Background()
	for {
		k, _, err := it.Next(ctx)
		if err == io.EOF {
			return
		}
		if err != nil {
			t.Fatal(err)
		}
		out = append(out, d.Format(ctx, k))
	}
}

func TestReproFindings(t *testing.T) {
	ctx := context.Background()
	ns := tree.NewTestNodeStore()
	kd1 := val.NewTupleDescriptor(val.Type{Enc: val.Uint32Enc})
	kd2 := val.NewTupleDescriptor(val.Type{Enc: val.Uint32Enc}, val.Type{Enc: val.Uint32Enc})
	vd := val.NewTupleDescriptor(val.Type{Enc: val.Uint32Enc})
	v := u32(ns, vd, 7)

	// F1: MutableMap.IterKeyRange ignores pending edits
	{
		m, _ := prolly.NewMapFromTuples(ctx, ns, kd1, vd, u32(ns, kd1, 1), v)
		mut := m.Mutate()
		mut.Put(ctx, u32(ns, kd1, 2), v)
		mut.Delete(ctx, u32(ns, kd1, 1))
		it, _ := mut.IterKeyRange(ctx, nil, nil)
		all, _ := mut.IterAll(ctx)
		fmt.Println("F1 IterKeyRange(nil,nil):", keysOf(t, it, kd1), " IterAll:", keysOf(t, all, kd1))
	}
	// F2: pending delete hides other keys with the same prefix
	{
		m, _ := prolly.NewMapFromTuples(ctx, ns, kd2, vd, u32(ns, kd2, 5, 1), v, u32(ns, kd2, 5, 2), v)
		mut := m.Mutate()
		mut.Delete(ctx, u32(ns, kd2, 5, 1))
		pd := kd2.PrefixDesc(1)
		ok, err := mut.HasPrefix(ctx, u32(ns, kd2, 5, 0), pd)
		var got val.Tuple
		mut.GetPrefix(ctx, u32(ns, kd2, 5, 0), pd, func(k, _ val.Tuple) error { got = k; return nil })
		has, _ := mut.Has(ctx, u32(ns, kd2, 5, 2))
		fmt.Println("F2 HasPrefix(5)=", ok, err, " GetPrefix(5) found=", got != nil, " but Has((5,2))=", has)
	}
	// F3: Map.IterKeyRange(start > last key, nil) on a tree of height >= 2
	{
		var tups []val.Tuple
		for i := uint32(0); i < 2000; i++ {
			tups = append(tups, u32(ns, kd1, i), v)
		}
		m, _ := prolly.NewMapFromTuples(ctx, ns, kd1, vd, tups...)
		func() {
			defer func() { fmt.Println("F3 height", m.Height(), "IterKeyRange(5000,nil): recovered:", recover()) }()
			it, err := m.IterKeyRange(ctx, u32(ns, kd1, 5000), nil)
			fmt.Println("F3 iterator err:", err)
			k, _, err := it.Next(ctx)
			fmt.Println("F3 first Next:", k != nil, err)
		}()
	}
	// F4: checkpoint on an empty edit buffer, flush, revert
	{
		m, _ := prolly.NewMapFromTuples(ctx, ns, kd1, vd)
		mut := m.Mutate().WithMaxPending(2)
		mut.Checkpoint(ctx)
		for i := uint32(0); i < 5; i++ {
			mut.Put(ctx, u32(ns, kd1, i), v)
		}
		mut.Revert(ctx)
		all, _ := mut.IterAll(ctx)
		fmt.Println("F4 after Checkpoint; 5 puts (maxPending 2); Revert:", keysOf(t, all, kd1))
	}
	// F5: revert twice after a flush
	{
		m, _ := prolly.NewMapFromTuples(ctx, ns, kd1, vd)
		mut := m.Mutate()
		mut.Put(ctx, u32(ns, kd1, 1), v)
		mut.Checkpoint(ctx)
		mut.Put(ctx, u32(ns, kd1, 2), v)
		mut.VisitGCRoots(ctx, func(hash.Hash) bool { return true }) // flush
		mut.Revert(ctx)
		a1, _ := mut.IterAll(ctx)
		s1 := keysOf(t, a1, kd1)
		mut.Put(ctx, u32(ns, kd1, 3), v)
		mut.Revert(ctx)
		a2, _ := mut.IterAll(ctx)
		fmt.Println("F5 after first revert:", s1, " after put 3; second revert:", keysOf(t, a2, kd1))
	}
	// F5b: same with a maxPending flush instead of the GC flush
	{
		m, _ := prolly.NewMapFromTuples(ctx, ns, kd1, vd)
		mut := m.Mutate().WithMaxPending(2)
		mut.Put(ctx, u32(ns, kd1, 1), v)
		mut.Checkpoint(ctx)
		for i := uint32(10); i < 14; i++ {
			mut.Put(ctx, u32(ns, kd1, i), v)
		}
		mut.Revert(ctx)
		a1, _ := mut.IterAll(ctx)
		s1 := keysOf(t, a1, kd1)
		mut.Put(ctx, u32(ns, kd1, 3), v)
		mut.Revert(ctx)
		a2, _ := mut.IterAll(ctx)
		fmt.Println("F5b after first revert:", s1, " after put 3; second revert:", keysOf(t, a2, kd1))
	}
}
