package vprolly

import (
	"fmt"
	"os"
	"strconv"
	"testing"

	"verif/rig"
)

func TestDebugC11(t *testing.T) {
	os.Setenv("VERIF_EVENTS", "/var/tmp/vprolly-debug-events.jsonl")
	os.Setenv("VERIF_SCRATCH", "/var/tmp/vprolly-debug-scratch")
	c, err := rig.NewWorkerCtx("C11", "quick", 1)
	if err != nil {
		t.Fatal(err)
	}
	idx, _ := strconv.Atoi(os.Getenv("IDX"))
	st := newStats()
	debugHook = func(s string) { fmt.Println(s) }
	c11History(c, st, idx, 300)
}
