package vprolly

import (
	"bytes"
	"context"
	"fmt"
	"io"
	"math/rand"

	"github.com/dolthub/dolt/go/store/prolly"
	"github.com/dolthub/dolt/go/store/prolly/tree"
	"github.com/dolthub/dolt/go/store/val"

	"verif/rig"
)

// C13 — diffs report exactly the changed keys.
//
// Oracle: brute-force diff of the two dictionaries (rank order = key order): for every pool rank whose state
// differs, exactly one callback with the right type and from/to values, ascending, nothing else. Compared with
// the callback sequences of DiffMaps, RangeDiffMaps and DiffMapsKeyRange.

type expDiff struct {
	rank     int
	typ      tree.DiffType
	from, to int32
}

func modelDiff(from, to dict, in func(rank int) bool) []expDiff {
	var out []expDiff
	for i := range from {
		if from[i] == to[i] || (in != nil && !in(i)) {
			continue
		}
		e := expDiff{rank: i, from: from[i], to: to[i]}
		switch {
		case from[i] < 0:
			e.typ = tree.AddedDiff
		case to[i] < 0:
			e.typ = tree.RemovedDiff
		default:
			e.typ = tree.ModifiedDiff
		}
		out = append(out, e)
	}
	return out
}

type c13Case struct {
	c      *rig.Ctx
	st     *stats
	w      *world
	r      *rand.Rand
	name   string
	from   dict
	to     dict
	fm, tm prolly.Map
	how    string
	failed bool
}

func (k *c13Case) fail(key, what string, extra map[string]any) {
	if k.failed {
		return
	}
	k.failed = true
	wit := map[string]any{"case": k.name, "world": k.w.desc, "relation": k.how,
		"from": describeTree(k.w, k.fm), "to": describeTree(k.w, k.tm)}
	for a, b := range extra {
		wit[a] = b
	}
	k.c.Violation(key, what, wit)
}

// compare the observed callback sequence with the model's.
func (k *c13Case) compare(key, what string, got []tree.Diff, err error, want []expDiff) {
	if err != nil && err != io.EOF {
		k.fail(key+"/error", what+": "+err.Error(), nil)
		return
	}
	w := k.w
	str := func(d tree.Diff) string {
		ks := "unknown key"
		if i, ok := w.kp.byBytes[string(d.Key)]; ok {
			ks = fmtVals(w.kp.vals[i])
		}
		return fmt.Sprintf("%s %s from=#%d to=#%d", d.Type.DiffTypeString(), ks, k.vidx(d.From), k.vidx(d.To))
	}
	estr := func(e expDiff) string {
		return fmt.Sprintf("%s %s from=#%d to=#%d", e.typ.DiffTypeString(), fmtVals(w.kp.vals[e.rank]), e.from, e.to)
	}
	for i := 0; i < len(got) && i < len(want); i++ {
		g, e := got[i], want[i]
		ok := bytes.Equal(g.Key, w.kp.tups[e.rank]) && g.Type == e.typ && k.vidx(g.From) == e.from && k.vidx(g.To) == e.to
		if !ok {
			k.fail(key, fmt.Sprintf("%s: callback %d is [%s], model diff has [%s] (callbacks %d, model %d)", what, i, str(g), estr(e), len(got), len(want)), nil)
			return
		}
	}
	switch {
	case len(got) > len(want):
		k.fail(key, fmt.Sprintf("%s: %d callbacks, model diff has %d; first extra: [%s]", what, len(got), len(want), str(got[len(want)])), nil)
	case len(got) < len(want):
		k.fail(key, fmt.Sprintf("%s: %d callbacks, model diff has %d; first missing: [%s]", what, len(got), len(want), estr(want[len(got)])), nil)
	}
}

// vidx maps a value item to its pool index; nil -> -1 (absent); unknown bytes -> -2.
func (k *c13Case) vidx(it tree.Item) int32 {
	if it == nil {
		return -1
	}
	if i := k.w.valIndex(val.Tuple(it)); i >= 0 {
		return int32(i)
	}
	return -2
}

func gather(run func(cb tree.DiffFn) error, limit int) ([]tree.Diff, error) {
	var got []tree.Diff
	err := run(func(_ context.Context, d tree.Diff) error {
		// the items alias node buffers owned by the tree; copy what is compared later
		got = append(got, tree.Diff{Key: append(tree.Item(nil), d.Key...), From: cp(d.From), To: cp(d.To), Type: d.Type})
		if len(got) > limit {
			return fmt.Errorf("more than %d diff callbacks (runaway)", limit)
		}
		return nil
	})
	return got, err
}

func cp(b tree.Item) tree.Item {
	if b == nil {
		return nil
	}
	return append(tree.Item{}, b...)
}

func c13(c *rig.Ctx) {
	c.Rule("pairs (from,to) of maps over one key pool (1-3 field keys of 22 encodings, 0..~20000 entries): related by sparse / " +
		"dense / prefix-only / suffix-only / run edit scripts applied through MutableMap (shared chunks), or built independently " +
		"(unrelated content, different heights), or equal, or one empty. For each pair: DiffMaps, and 8 ranges each for " +
		"DiffMapsKeyRange (start/stop = present, absent, boundary-adjacent, synthetic NULL-suffixed, nil; incl. inverted) and " +
		"RangeDiffMaps (contiguous logical ranges: equality prefix + one interval of any bound kind). The full callback sequence " +
		"(key, type, from, to) is compared with the brute-force diff of the two dictionaries. A pair is distinct/non-trivial " +
		"when (schema, relation, both root hashes) differ and the diff is non-empty on multi-chunk trees")
	c.Assume("RangeDiffMaps is documented to report diffs of the range's physical partition; only ranges whose partition equals " +
		"their logical match set (contiguous ranges) are used, so both readings coincide")
	c.Assume("value tuples are canonical (builder-made), so byte-different values never compare equal under the value descriptor")
	st := newStats()
	n := c.Pick(400, 20000)
	parallel(n, workers, func(i int) { c13Pair(c, st, i, n) })
	st.flush(c)
	c.Require(st.get("c13.pairs.different_heights") > 0, "no pair with different tree heights")
	c.Require(st.get("c13.pairs.sharing_chunks") > 0, "no pair sharing chunks")
	c.Require(st.get("c13.pairs.unrelated") > 0, "no unrelated pair")
	c.Require(st.get("c13.ranges.bound_inside_shared_leaf") > 0, "no range bound inside a shared subtree")
	c.Require(st.get("c13.ranges.nonempty_diff") > 0 && st.get("c13.ranges.empty_diff") > 0, "range diffs did not cover empty and non-empty results")
	c.Require(st.get("c13.diffs.added") > 0 && st.get("c13.diffs.removed") > 0 && st.get("c13.diffs.modified") > 0, "not all diff types observed")
}

func c13Pair(c *rig.Ctx, st *stats, idx, total int) {
	r := c.SubRand("c13", idx)
	poolWant, shape := sizeClass(r, idx, total)
	if shape == valEmpty && r.Intn(2) == 0 {
		shape = valSmall // with a single possible value there are no modifications
	}
	w := genWorld(r, poolWant, shape, 3+r.Intn(30))
	k := &c13Case{c: c, st: st, w: w, r: r, name: fmt.Sprintf("c13/p%d", idx)}
	n := w.kp.n()
	relations := []string{"sparse", "dense", "prefix-only", "suffix-only", "runs", "unrelated", "different-heights", "equal", "from-empty", "to-empty", "boundary-edits"}
	k.how = relations[r.Intn(len(relations))]
	c.Case(k.name, map[string]any{"world": w.desc, "relation": k.how})
	if n == 0 {
		k.how = "equal"
	}
	fill := []float64{0.3, 0.6, 0.95}[r.Intn(3)]
	k.from = w.randDict(r, fill)
	k.fm = w.build(k.from)
	siF := w.shape(k.fm)
	k.to = k.from.clone()
	randVal := func() int32 { return int32(r.Intn(len(w.vp.tups))) }
	mutate := func(i int) {
		switch x := r.Intn(3); {
		case x == 0 && k.to[i] >= 0:
			k.to[i] = -1
		default:
			k.to[i] = randVal()
		}
	}
	independent := false
	switch k.how {
	case "sparse":
		for j := 1 + r.Intn(5); j > 0; j-- {
			mutate(r.Intn(n))
		}
	case "dense":
		for i := range k.to {
			if r.Intn(3) == 0 {
				mutate(i)
			}
		}
	case "prefix-only":
		for i := 0; i < 1+r.Intn(1+n/4); i++ {
			if r.Intn(2) == 0 {
				mutate(i)
			}
		}
	case "suffix-only":
		for i := n - 1 - r.Intn(1+n/4); i < n; i++ {
			if r.Intn(2) == 0 {
				mutate(i)
			}
		}
	case "runs":
		for j := 1 + r.Intn(3); j > 0; j-- {
			ln := 1 + r.Intn(min(n, 500))
			s := r.Intn(n - ln + 1)
			del := r.Intn(2) == 0
			for i := s; i < s+ln; i++ {
				if del {
					k.to[i] = -1
				} else {
					k.to[i] = randVal()
				}
			}
		}
	case "boundary-edits":
		for j := 1 + r.Intn(6); j > 0; j-- {
			if b := siF.pickNearBoundary(r, n); b >= 0 {
				mutate(b)
				st.add("c13.edits.at_chunk_boundary", 1)
			}
		}
	case "unrelated":
		k.to = w.randDict(r, []float64{0.2, 0.7}[r.Intn(2)])
		independent = true
		st.add("c13.pairs.unrelated", 1)
	case "different-heights":
		k.to = w.randDict(r, 0.02)
		if r.Intn(2) == 0 { // swap: small -> big
			k.from, k.to = k.to, k.from
			k.fm = w.build(k.from)
			siF = w.shape(k.fm)
		}
		independent = true
	case "from-empty":
		k.from = newDict(n)
		k.fm = w.build(k.from)
		siF = w.shape(k.fm)
		independent = true
	case "to-empty":
		k.to = newDict(n)
		independent = true
	}
	if independent || r.Intn(4) == 0 {
		k.tm = w.build(k.to)
	} else {
		// derive `to` from `from` through the mutable map: the two trees share every untouched chunk
		mut := k.fm.Mutate()
		for i := range k.to {
			if k.to[i] == k.from[i] {
				continue
			}
			var err error
			if k.to[i] < 0 {
				err = mut.Delete(bg, w.kp.tups[i])
			} else {
				err = mut.Put(bg, w.kp.tups[i], w.vp.tups[k.to[i]])
			}
			rig.Must(wrapErr("Put/Delete", err))
		}
		var err error
		k.tm, err = mut.Map(bg)
		rig.Must(wrapErr("Map", err))
	}
	siT := w.shape(k.tm)
	shared := 0
	for h := range siF.leafHashes {
		if _, ok := siT.leafHashes[h]; ok {
			shared++
		}
	}
	st.add("c13.pairs", 1)
	if siF.height != siT.height {
		st.add("c13.pairs.different_heights", 1)
	}
	if shared > 0 && k.fm.HashOf() != k.tm.HashOf() {
		st.add("c13.pairs.sharing_chunks", 1)
	}
	limit := 2*n + 8

	// 1. whole key space
	want := modelDiff(k.from, k.to, nil)
	for _, e := range want {
		switch e.typ {
		case tree.AddedDiff:
			st.add("c13.diffs.added", 1)
		case tree.RemovedDiff:
			st.add("c13.diffs.removed", 1)
		default:
			st.add("c13.diffs.modified", 1)
		}
	}
	got, err := gather(func(cb tree.DiffFn) error { return prolly.DiffMaps(bg, k.fm, k.tm, false, cb) }, limit)
	k.compare("c13/DiffMaps", "DiffMaps", got, err, want)
	if !k.failed && r.Intn(3) == 0 { // and the reverse direction
		k2 := *k
		k2.from, k2.to, k2.fm, k2.tm = k.to, k.from, k.tm, k.fm
		got, err = gather(func(cb tree.DiffFn) error { return prolly.DiffMaps(bg, k2.fm, k2.tm, false, cb) }, limit)
		k2.compare("c13/DiffMaps", "DiffMaps(reversed pair)", got, err, modelDiff(k2.from, k2.to, nil))
		k.failed = k.failed || k2.failed
	}
	if n == 0 || k.failed {
		return
	}
	h := &c11Hist{c: c, st: st, w: w, r: r, cur: k.to, si: siT, cpfx: "c13"} // reuse the probe/range generators
	sharedLeafBound := func(rank int) {
		// is the bound inside (not at the edge of) a leaf present in both trees?
		for _, si := range []*shapeInfo{siF, siT} {
			for j, b := range si.boundaries {
				if rank <= b {
					if j < len(si.firsts) && rank > si.firsts[j] && rank < b && shared > 0 {
						st.add("c13.ranges.bound_inside_shared_leaf", 1)
					}
					return
				}
			}
		}
	}
	// 2. physical key ranges
	for q := 0; q < 8 && !k.failed; q++ {
		if r.Intn(2) == 0 {
			h.si = siF
		} else {
			h.si = siT
		}
		var start, stop *probe
		if r.Intn(6) > 0 {
			p := h.genProbe()
			start = &p
			sharedLeafBound(p.pos)
		}
		if r.Intn(6) > 0 {
			p := h.genProbe()
			stop = &p
			sharedLeafBound(p.pos)
		}
		lo, hi := 0, n
		ls, hs := "-inf", "+inf"
		if start != nil {
			lo, ls = start.pos, fmtVals(start.vals)
		}
		if stop != nil {
			hi, hs = stop.pos, fmtVals(stop.vals)
		}
		want := modelDiff(k.from, k.to, func(i int) bool { return i >= lo && i < hi })
		if len(want) == 0 {
			st.add("c13.ranges.empty_diff", 1)
		} else {
			st.add("c13.ranges.nonempty_diff", 1)
		}
		if lo > hi {
			st.add("c13.ranges.inverted", 1)
		}
		got, err := gather(func(cb tree.DiffFn) error {
			return prolly.DiffMapsKeyRange(bg, k.fm, k.tm, h.boundTuple(start), h.boundTuple(stop), cb)
		}, limit)
		k.compare("c13/DiffMapsKeyRange", fmt.Sprintf("DiffMapsKeyRange [%s, %s)", ls, hs), got, err, want)
		st.add("c13.q.DiffMapsKeyRange", 1)
	}
	// 3. logical (contiguous) ranges
	for q := 0; q < 8 && !k.failed; q++ {
		mr := genRange(r, w, true)
		rng, _ := mr.toProlly(w, false)
		want := modelDiff(k.from, k.to, func(i int) bool { return mr.matches(w.kp.vals[i]) })
		if len(want) == 0 {
			st.add("c13.ranges.empty_diff", 1)
		} else {
			st.add("c13.ranges.nonempty_diff", 1)
		}
		got, err := gather(func(cb tree.DiffFn) error { return prolly.RangeDiffMaps(bg, k.fm, k.tm, rng, cb) }, limit)
		k.compare("c13/RangeDiffMaps/"+classOfRange(mr), "RangeDiffMaps "+mr.String(), got, err, want)
		st.add("c13.q.RangeDiffMaps", 1)
	}
	if !k.failed && len(want) > 0 && siF.nodes+siT.nodes > 2 {
		c.Distinct(fmt.Sprintf("%s|%s|%s|%s", w.kp.sch, k.how, k.fm.HashOf(), k.tm.HashOf()))
	}
	if idx < 3 {
		c.Sample(map[string]any{"case": k.name, "world": w.desc, "relation": k.how, "diffs": len(want), "from": describeTree(w, k.fm), "to": describeTree(w, k.tm)})
	}
}
