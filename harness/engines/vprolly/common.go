// Package vprolly holds the prolly-tree level monitors (C11 sorted-dictionary behaviour, C12 history
// independence, C13 diffs, C14 three-way merges).
//
// Shared pieces (DESIGN §3.4): a schema/tuple generator over many encoding families, a *key pool* that is
// sorted and de-duplicated by the model's OWN comparison of decoded field values (never TupleDesc.Compare),
// and a dense sorted-dictionary model (pool rank -> value index) with brute-force implementations of
// every query.
package vprolly

import (
	"bytes"
	"context"
	"encoding/binary"
	"fmt"
	"io"
	"math/rand"
	"sort"
	"strings"
	"sync"
	"time"

	"github.com/cockroachdb/apd/v3"

	"github.com/dolthub/dolt/go/store/hash"
	"github.com/dolthub/dolt/go/store/prolly"
	"github.com/dolthub/dolt/go/store/prolly/tree"
	"github.com/dolthub/dolt/go/store/val"

	"verif/rig"
)

var bg = context.Background()

// ---------------------------------------------------------------------------------------------
// field kinds

type kind int

const (
	kInt8 kind = iota
	kInt16
	kInt32
	kInt64
	kUint8
	kUint16
	kUint32
	kUint64
	kFloat32
	kFloat64
	kDecimal
	kYear
	kDate
	kTime
	kDatetime
	kEnum
	kSet
	kBit64
	kString
	kBytes
	kHash128
	kCommitAddr
	numKinds
)

var kindNames = [...]string{"int8", "int16", "int32", "int64", "uint8", "uint16", "uint32", "uint64", "float32", "float64",
	"decimal", "year", "date", "time", "datetime", "enum", "set", "bit64", "string", "bytes", "hash128", "commitaddr"}

func (k kind) String() string { return kindNames[k] }

func (k kind) enc() val.Encoding {
	switch k {
	case kInt8:
		return val.Int8Enc
	case kInt16:
		return val.Int16Enc
	case kInt32:
		return val.Int32Enc
	case kInt64:
		return val.Int64Enc
	case kUint8:
		return val.Uint8Enc
	case kUint16:
		return val.Uint16Enc
	case kUint32:
		return val.Uint32Enc
	case kUint64:
		return val.Uint64Enc
	case kFloat32:
		return val.Float32Enc
	case kFloat64:
		return val.Float64Enc
	case kDecimal:
		return val.DecimalEnc
	case kYear:
		return val.YearEnc
	case kDate:
		return val.DateEnc
	case kTime:
		return val.TimeEnc
	case kDatetime:
		return val.DatetimeEnc
	case kEnum:
		return val.EnumEnc
	case kSet:
		return val.SetEnc
	case kBit64:
		return val.Bit64Enc
	case kString:
		return val.StringEnc
	case kBytes:
		return val.ByteStringEnc
	case kHash128:
		return val.Hash128Enc
	case kCommitAddr:
		return val.CommitAddrEnc
	}
	panic("kind")
}

// isInteger mirrors what dolt's index builder treats as "precise" types (SkipRangeMatchCallback).
func (k kind) isInteger() bool { return k <= kUint64 }

// maxDomain is the number of distinct values the generator can produce for a kind.
func (k kind) maxDomain() int64 {
	switch k {
	case kInt8, kUint8:
		return 200
	case kYear:
		return 250
	case kInt16, kUint16, kEnum:
		return 60000
	}
	return 1 << 40
}

// Model values are one of: nil (SQL NULL), int64, uint64, float64, string (compared bytewise).
// fromOrdinal maps a domain ordinal n in [0,d) injectively to a model value of the kind. The mapping is
// deliberately NOT monotone for every kind (strings, hashes) so that pool order is decided by the model
// comparison alone.
func (k kind) fromOrdinal(n, d int64, long bool) any {
	switch k {
	case kInt8, kInt16, kInt32, kInt64, kTime, kDatetime, kDate, kDecimal:
		return n - d/2
	case kUint8, kUint16, kUint32, kUint64, kEnum, kSet, kBit64:
		return uint64(n)
	case kYear:
		return int64(1901 + n)
	case kFloat32, kFloat64:
		return float64(n-d/2) / 4
	case kString, kBytes:
		// little-endian base-4 digits: shared prefixes, variable length, not monotone in n
		alpha := "abc\xc3"
		if k == kBytes {
			alpha = "\x00\x01z\xff"
		}
		var sb strings.Builder
		if long {
			sb.WriteString(strings.Repeat("shared-prefix/", 40)) // 560 bytes of common prefix
		}
		m := n
		for {
			sb.WriteByte(alpha[m%4])
			m /= 4
			if m == 0 {
				break
			}
			m--
		}
		return sb.String()
	case kHash128:
		b := make([]byte, 16)
		binary.LittleEndian.PutUint64(b[3:], uint64(n)*0x9E3779B97F4A7C15) // scrambled
		binary.BigEndian.PutUint32(b[12:], uint32(n))
		return string(b)
	case kCommitAddr:
		b := make([]byte, 20)
		binary.LittleEndian.PutUint64(b[0:], uint64(n)*0xD6E8FEB86659FD93)
		binary.BigEndian.PutUint64(b[12:], uint64(n))
		return string(b)
	}
	panic("kind")
}

// extremes are appended to every pool so that sign/width handling at the ends of a domain is exercised.
func (k kind) extremes() []any {
	switch k {
	case kInt8:
		return []any{int64(-128), int64(127)}
	case kInt16:
		return []any{int64(-32768), int64(32767)}
	case kInt32:
		return []any{int64(-1 << 31), int64(1<<31 - 1)}
	case kInt64, kTime:
		return []any{int64(-1 << 63), int64(1<<63 - 1)}
	case kUint8:
		return []any{uint64(255)}
	case kUint16, kEnum:
		return []any{uint64(65535)}
	case kUint32:
		return []any{uint64(1<<32 - 1)}
	case kUint64, kSet, kBit64:
		return []any{uint64(1<<64 - 1), uint64(1 << 63)}
	case kFloat32:
		return []any{float64(-3.0e38), float64(3.0e38)}
	case kFloat64:
		return []any{-1.0e300, 1.0e300}
	case kString, kBytes:
		return []any{""}
	}
	return nil
}

// cmpVal is the model's own comparison: NULL first, then by Go value.
func cmpVal(a, b any) int {
	if a == nil || b == nil {
		switch {
		case a == nil && b == nil:
			return 0
		case a == nil:
			return -1
		default:
			return 1
		}
	}
	switch x := a.(type) {
	case int64:
		y := b.(int64)
		switch {
		case x < y:
			return -1
		case x > y:
			return 1
		}
		return 0
	case uint64:
		y := b.(uint64)
		switch {
		case x < y:
			return -1
		case x > y:
			return 1
		}
		return 0
	case float64:
		y := b.(float64)
		switch {
		case x < y:
			return -1
		case x > y:
			return 1
		}
		return 0
	case string:
		return strings.Compare(x, b.(string))
	}
	panic(fmt.Sprintf("cmpVal %T", a))
}

func cmpVals(a, b []any) int {
	for i := range a {
		if c := cmpVal(a[i], b[i]); c != 0 {
			return c
		}
	}
	return 0
}

func cmpPrefix(a, b []any, n int) int {
	for i := 0; i < n; i++ {
		if c := cmpVal(a[i], b[i]); c != 0 {
			return c
		}
	}
	return 0
}

// ---------------------------------------------------------------------------------------------
// schema + tuple encoding

type schema struct {
	kinds    []kind
	nullable []bool
	long     []bool // string/bytes fields with a long shared prefix
	huge     []bool // string/bytes fields whose every value carries a ~5 KB prefix: one key alone can cross a chunk boundary
	desc     *val.TupleDesc
}

var hugePrefix = strings.Repeat("0123456789abcdefghijklmnopqrstuvwxyz/HUGE-KEY/", 110) // 5060 bytes

func newSchema(kinds []kind, nullable, long []bool) *schema {
	types := make([]val.Type, len(kinds))
	for i, k := range kinds {
		types[i] = val.Type{Enc: k.enc(), Nullable: nullable[i]}
	}
	return &schema{kinds: kinds, nullable: nullable, long: long, huge: make([]bool, len(kinds)), desc: val.NewTupleDescriptor(types...)}
}

func (s *schema) String() string {
	var parts []string
	for i, k := range s.kinds {
		p := k.String()
		if s.long[i] {
			p += "(long)"
		}
		if s.huge[i] {
			p += "(huge)"
		}
		if s.nullable[i] {
			p += "?"
		}
		parts = append(parts, p)
	}
	return "(" + strings.Join(parts, ",") + ")"
}

var epoch = time.Date(2000, 1, 1, 0, 0, 0, 0, time.UTC)

// put writes model value v into field i of the builder (NULL = leave unset).
func (s *schema) put(tb *val.TupleBuilder, i int, v any) {
	if v == nil {
		return
	}
	switch s.kinds[i] {
	case kInt8:
		tb.PutInt8(i, int8(v.(int64)))
	case kInt16:
		tb.PutInt16(i, int16(v.(int64)))
	case kInt32:
		tb.PutInt32(i, int32(v.(int64)))
	case kInt64:
		tb.PutInt64(i, v.(int64))
	case kUint8:
		tb.PutUint8(i, uint8(v.(uint64)))
	case kUint16:
		tb.PutUint16(i, uint16(v.(uint64)))
	case kUint32:
		tb.PutUint32(i, uint32(v.(uint64)))
	case kUint64:
		tb.PutUint64(i, v.(uint64))
	case kFloat32:
		tb.PutFloat32(i, float32(v.(float64)))
	case kFloat64:
		tb.PutFloat64(i, v.(float64))
	case kDecimal:
		tb.PutDecimal(i, apd.New(v.(int64), -2))
	case kYear:
		tb.PutYear(i, int16(v.(int64)))
	case kDate:
		tb.PutDate(i, epoch.AddDate(0, 0, int(v.(int64))))
	case kTime:
		tb.PutSqlTime(i, v.(int64))
	case kDatetime:
		tb.PutDatetime(i, epoch.Add(time.Duration(v.(int64))*1003*time.Microsecond))
	case kEnum:
		tb.PutEnum(i, uint16(v.(uint64)))
	case kSet:
		tb.PutSet(i, v.(uint64))
	case kBit64:
		tb.PutBit(i, v.(uint64))
	case kString:
		rig.Must(tb.PutString(i, v.(string)))
	case kBytes:
		tb.PutByteString(i, []byte(v.(string)))
	case kHash128:
		tb.PutHash128(i, []byte(v.(string)))
	case kCommitAddr:
		tb.PutCommitAddr(i, hash.New([]byte(v.(string))))
	default:
		panic("kind")
	}
}

// encode builds a tuple from model values. BuildPermissive is used so that probe tuples may carry NULL in
// non-nullable positions (dolt's index builder does the same for range bounds).
func (s *schema) encode(ns tree.NodeStore, vals []any) val.Tuple {
	tb := val.NewTupleBuilder(s.desc, ns)
	for i, v := range vals {
		s.put(tb, i, v)
	}
	t, err := tb.BuildPermissive(bg, ns.Pool())
	rig.Must(err)
	return t
}

func fmtVals(vals []any) string {
	var parts []string
	for _, v := range vals {
		switch x := v.(type) {
		case nil:
			parts = append(parts, "NULL")
		case string:
			if len(x) > 24 {
				parts = append(parts, fmt.Sprintf("%q..(%d)..%q", x[:8], len(x), x[len(x)-8:]))
			} else {
				parts = append(parts, fmt.Sprintf("%q", x))
			}
		default:
			parts = append(parts, fmt.Sprint(x))
		}
	}
	return "(" + strings.Join(parts, ",") + ")"
}

// ---------------------------------------------------------------------------------------------
// generators

var keyKindFamilies = [][]kind{
	{kInt8, kInt16, kInt32, kInt64},
	{kUint8, kUint16, kUint32, kUint64},
	{kFloat32, kFloat64, kDecimal},
	{kYear, kDate, kTime, kDatetime},
	{kEnum, kSet, kBit64},
	{kString, kBytes},
	{kHash128, kCommitAddr},
}

func pickKind(r *rand.Rand) kind {
	fam := keyKindFamilies[r.Intn(len(keyKindFamilies))]
	return fam[r.Intn(len(fam))]
}

// genKeySchema: 1..3 fields from every encoding family; ~30 % of fields nullable.
func genKeySchema(r *rand.Rand, poolWant int) *schema {
	wantLarge := poolWant > 3000
	nf := 1 + r.Intn(3)
	kinds := make([]kind, nf)
	nullable := make([]bool, nf)
	long := make([]bool, nf)
	for i := range kinds {
		kinds[i] = pickKind(r)
		nullable[i] = r.Intn(10) < 3
		if (kinds[i] == kString || kinds[i] == kBytes) && r.Intn(6) == 0 {
			long[i] = true
		}
	}
	if wantLarge {
		// a large map needs a large key domain: make sure one field is wide
		wide := false
		for _, k := range kinds {
			if k.maxDomain() > 60000 {
				wide = true
			}
		}
		if !wide {
			kinds[nf-1] = []kind{kInt32, kInt64, kUint32, kString, kDatetime, kDecimal}[r.Intn(6)]
		}
	}
	sch := newSchema(kinds, nullable, long)
	if poolWant >= 4 && poolWant <= 80 && r.Intn(4) == 0 {
		// giant keys (size-forced boundaries at every level, the degenerate-internal-node rule): small pools only
		i := r.Intn(nf)
		kinds[i] = []kind{kString, kBytes}[r.Intn(2)]
		long[i] = false
		sch = newSchema(kinds, nullable, long)
		sch.huge[i] = true
	}
	return sch
}

// keyPool is a set of distinct keys sorted by the MODEL comparison. The rank of a key in the pool is its
// identity in the model: dictionaries are arrays indexed by rank.
type keyPool struct {
	sch     *schema
	vals    [][]any
	tups    []val.Tuple
	byBytes map[string]int
}

func (p *keyPool) n() int { return len(p.vals) }

// genKeyPool produces about `want` distinct keys. Per-field domains are small (product ~4x want) so that
// multi-field keys share prefixes and random picks hit existing keys.
func genKeyPool(r *rand.Rand, ns tree.NodeStore, sch *schema, want int) *keyPool {
	nf := len(sch.kinds)
	doms := make([]int64, nf)
	// split the domain between the fields: the field with the widest kind gets the wide domain (ties: last
	// field), every other field a narrow one so that multi-field keys share prefixes
	wideIdx := nf - 1
	for i := nf - 1; i >= 0; i-- {
		if sch.kinds[i].maxDomain() > sch.kinds[wideIdx].maxDomain() {
			wideIdx = i
		}
	}
	target := float64(want)*3 + 8
	for i := 0; i < nf; i++ {
		if i == wideIdx {
			continue
		}
		d := int64(2 + r.Intn(6))
		target = target/float64(d) + 1
		doms[i] = d
	}
	doms[wideIdx] = int64(target) + 2
	if m := sch.kinds[wideIdx].maxDomain(); doms[wideIdx] > m {
		doms[wideIdx] = m
	}
	seen := map[string]struct{}{}
	var all [][]any
	add := func(v []any) {
		k := fmt.Sprint(v...)
		for i, x := range v { // type-tagged identity
			k += fmt.Sprintf("|%d:%T", i, x)
		}
		if _, ok := seen[k]; ok {
			return
		}
		seen[k] = struct{}{}
		all = append(all, v)
	}
	genField := func(i int) any {
		if sch.nullable[i] && r.Intn(10) == 0 {
			return nil
		}
		if ex := sch.kinds[i].extremes(); len(ex) > 0 && r.Intn(40) == 0 && !sch.huge[i] {
			return ex[r.Intn(len(ex))]
		}
		v := sch.kinds[i].fromOrdinal(r.Int63n(doms[i]), doms[i], sch.long[i])
		if sch.huge[i] {
			v = hugePrefix + v.(string)
		}
		return v
	}
	for tries := 0; len(all) < want && tries < want*6+50; tries++ {
		v := make([]any, nf)
		for i := range v {
			v[i] = genField(i)
		}
		add(v)
	}
	sort.SliceStable(all, func(i, j int) bool { return cmpVals(all[i], all[j]) < 0 })
	// de-duplicate under the model comparison (type-tagged identity above already did, this is a guard)
	out := all[:0]
	for i, v := range all {
		if i > 0 && cmpVals(all[i-1], v) == 0 {
			continue
		}
		out = append(out, v)
	}
	p := &keyPool{sch: sch, vals: out, byBytes: make(map[string]int, len(out))}
	p.tups = make([]val.Tuple, len(out))
	for i, v := range out {
		p.tups[i] = sch.encode(ns, v)
		p.byBytes[string(p.tups[i])] = i
	}
	rig.Must(p.selfCheck())
	return p
}

// selfCheck: distinct model keys must have distinct encodings (otherwise the generator, not dolt, is wrong).
func (p *keyPool) selfCheck() error {
	if len(p.byBytes) != len(p.vals) {
		return fmt.Errorf("vprolly generator: %d model keys but %d distinct encodings for schema %s", len(p.vals), len(p.byBytes), p.sch)
	}
	return nil
}

// valPool is a small set of distinct value tuples; index -1 means "absent".
type valPool struct {
	sch     *schema
	tups    []val.Tuple
	desc    string
	byBytes map[string]int
}

func (vp *valPool) index() *valPool {
	vp.byBytes = make(map[string]int, len(vp.tups))
	for i, t := range vp.tups {
		vp.byBytes[string(t)] = i
	}
	return vp
}

type valShape int

const (
	valEmpty    valShape = iota // zero-field value (secondary-index style)
	valSmall                    // one int64
	valMedium                   // int64 + ~80..200 byte string
	valWide                     // int64 + 400..1200 byte payload: few entries per leaf => deep trees
	valGiant                    // a few values of 5..20 KB force size-based chunk boundaries
	valNullable                 // (int64?, string?, int64?) with NULL suffixes (tuple canonicalisation)
)

func genValPool(r *rand.Rand, ns tree.NodeStore, shape valShape, n int) *valPool {
	var sch *schema
	switch shape {
	case valEmpty:
		sch = newSchema(nil, nil, nil)
		return (&valPool{sch: sch, tups: []val.Tuple{sch.encode(ns, nil)}, desc: "empty"}).index()
	case valSmall:
		sch = newSchema([]kind{kInt64}, []bool{false}, []bool{false})
	case valNullable:
		sch = newSchema([]kind{kInt64, kString, kInt64}, []bool{true, true, true}, []bool{false, false, false})
	default:
		sch = newSchema([]kind{kInt64, kBytes}, []bool{false, true}, []bool{false, false})
	}
	vp := &valPool{sch: sch, desc: fmt.Sprintf("shape%d%s", shape, sch)}
	seen := map[string]bool{}
	for i := 0; len(vp.tups) < n && i < n*4+8; i++ {
		var vals []any
		switch shape {
		case valSmall:
			vals = []any{int64(i)}
		case valNullable:
			vals = []any{int64(i), fmt.Sprintf("v%d", i), int64(i * 7)}
			for j := range vals {
				if r.Intn(3) == 0 {
					vals[j] = nil
				}
			}
		case valMedium:
			vals = []any{int64(i), randPayload(r, 80+r.Intn(120))}
		case valWide:
			vals = []any{int64(i), randPayload(r, 400+r.Intn(800))}
		case valGiant:
			sz := 60 + r.Intn(200)
			if i%5 == 0 {
				sz = 5000 + r.Intn(15000)
			}
			vals = []any{int64(i), randPayload(r, sz)}
		}
		t := sch.encode(ns, vals)
		if seen[string(t)] {
			continue
		}
		seen[string(t)] = true
		vp.tups = append(vp.tups, t)
	}
	return vp.index()
}

func randPayload(r *rand.Rand, n int) string {
	b := make([]byte, n)
	r.Read(b)
	return string(b)
}

// ---------------------------------------------------------------------------------------------
// the sorted-dictionary model

// dict[rank] = value index, or -1 when the key is absent. Iteration order == rank order == model order.
type dict []int32

func newDict(n int) dict {
	d := make(dict, n)
	for i := range d {
		d[i] = -1
	}
	return d
}

func (d dict) clone() dict { return append(dict(nil), d...) }

func (d dict) count() int {
	n := 0
	for _, v := range d {
		if v >= 0 {
			n++
		}
	}
	return n
}

func (d dict) keys() []int {
	out := make([]int, 0, 64)
	for i, v := range d {
		if v >= 0 {
			out = append(out, i)
		}
	}
	return out
}

// rankBelow = number of present keys with pool rank < i.
func (d dict) rankBelow(i int) int {
	n := 0
	for j := 0; j < i && j < len(d); j++ {
		if d[j] >= 0 {
			n++
		}
	}
	return n
}

func (d dict) last() int {
	for i := len(d) - 1; i >= 0; i-- {
		if d[i] >= 0 {
			return i
		}
	}
	return -1
}

func (d dict) equal(o dict) bool {
	for i := range d {
		if d[i] != o[i] {
			return false
		}
	}
	return true
}

func (d dict) randPresent(r *rand.Rand) int {
	ks := d.keys()
	if len(ks) == 0 {
		return -1
	}
	return ks[r.Intn(len(ks))]
}

// ---------------------------------------------------------------------------------------------
// world: node store + pools, shared by all four monitors

type world struct {
	ns   tree.NodeStore
	kp   *keyPool
	vp   *valPool
	desc string
}

func (w *world) kd() *val.TupleDesc { return w.kp.sch.desc }
func (w *world) vd() *val.TupleDesc { return w.vp.sch.desc }

// genWorld makes a key pool of about poolWant keys and a value pool of the given shape.
func genWorld(r *rand.Rand, poolWant int, shape valShape, nvals int) *world {
	ns := tree.NewTestNodeStore()
	sch := genKeySchema(r, poolWant)
	kp := genKeyPool(r, ns, sch, poolWant)
	vp := genValPool(r, ns, shape, nvals)
	return &world{ns: ns, kp: kp, vp: vp, desc: fmt.Sprintf("key%s val=%s pool=%d", sch, vp.desc, kp.n())}
}

// build is the CANONICAL construction: bulk load from the content sorted by the model.
func (w *world) build(d dict) prolly.Map {
	tups := make([]val.Tuple, 0, 2*64)
	for i, v := range d {
		if v >= 0 {
			tups = append(tups, w.kp.tups[i], w.vp.tups[v])
		}
	}
	m, err := prolly.NewMapFromTuples(bg, w.ns, w.kd(), w.vd(), tups...)
	rig.Must(err)
	return m
}

// randDict picks each pool key with probability fill and a random value.
func (w *world) randDict(r *rand.Rand, fill float64) dict {
	d := newDict(w.kp.n())
	for i := range d {
		if r.Float64() < fill {
			d[i] = int32(r.Intn(len(w.vp.tups)))
		}
	}
	return d
}

// content reads a map back through IterAll into a dict; ok=false if an unknown key/value or disorder is seen.
func (w *world) content(m prolly.Map) (dict, string) {
	d := newDict(w.kp.n())
	it, err := m.IterAll(bg)
	if err != nil {
		return nil, "IterAll: " + err.Error()
	}
	prev := -1
	for {
		k, v, err := it.Next(bg)
		if err == io.EOF {
			break
		}
		if err != nil {
			return nil, "IterAll.Next: " + err.Error()
		}
		i, ok := w.kp.byBytes[string(k)]
		if !ok {
			return nil, fmt.Sprintf("map holds a key that was never written: %x", []byte(k))
		}
		if i <= prev {
			return nil, fmt.Sprintf("IterAll out of order / duplicate at %s", fmtVals(w.kp.vals[i]))
		}
		prev = i
		vi := w.valIndex(v)
		if vi < 0 {
			return nil, fmt.Sprintf("map holds a value that was never written under key %s", fmtVals(w.kp.vals[i]))
		}
		d[i] = int32(vi)
	}
	return d, ""
}

func (w *world) valIndex(v val.Tuple) int {
	if i, ok := w.vp.byBytes[string(v)]; ok {
		return i
	}
	return -1
}

// ---------------------------------------------------------------------------------------------
// tree inspection

type shapeInfo struct {
	height     int
	leaves     int
	nodes      int
	boundaries []int // pool ranks of the LAST key of every leaf (chunk boundaries)
	upper      []int // pool ranks of the last key of every internal non-root node (boundaries of whole subtrees)
	firsts     []int // pool ranks of the FIRST key of every leaf
	leafHashes map[hash.Hash]struct{}
	allHashes  map[hash.Hash]struct{}
}

func (w *world) shape(m prolly.Map) *shapeInfo {
	si := &shapeInfo{height: m.Height(), leafHashes: map[hash.Hash]struct{}{}, allHashes: map[hash.Hash]struct{}{}}
	err := m.WalkNodes(bg, func(_ context.Context, nd *tree.Node) error {
		si.nodes++
		si.allHashes[nd.HashOf()] = struct{}{}
		if !nd.IsLeaf() && nd.HashOf() != m.HashOf() && nd.Count() > 0 {
			if i, ok := w.kp.byBytes[string(nd.GetKey(nd.Count()-1))]; ok {
				si.upper = append(si.upper, i)
			}
		}
		if nd.IsLeaf() {
			si.leaves++
			si.leafHashes[nd.HashOf()] = struct{}{}
			if nd.Count() > 0 {
				if i, ok := w.kp.byBytes[string(nd.GetKey(nd.Count()-1))]; ok {
					si.boundaries = append(si.boundaries, i)
				}
				if i, ok := w.kp.byBytes[string(nd.GetKey(0))]; ok {
					si.firsts = append(si.firsts, i)
				}
			}
		}
		return nil
	})
	rig.Must(err)
	return si
}

// nearBoundary reports whether pool rank i is a chunk boundary key or adjacent (in the pool) to one.
func (si *shapeInfo) nearBoundary(i int) bool {
	for _, b := range si.boundaries {
		if i >= b-1 && i <= b+1 {
			return true
		}
	}
	return false
}

// pickNearBoundary returns a pool rank at/next to a chunk boundary (or -1).
func (si *shapeInfo) pickNearBoundary(r *rand.Rand, n int) int {
	if len(si.boundaries) == 0 {
		return -1
	}
	b := si.boundaries[r.Intn(len(si.boundaries))] + r.Intn(3) - 1
	if b < 0 || b >= n {
		return -1
	}
	return b
}

// ---------------------------------------------------------------------------------------------
// iteration helpers

type kv struct{ k, v val.Tuple }

func drain(it prolly.MapIter, limit int) ([]kv, error) {
	var out []kv
	for {
		k, v, err := it.Next(bg)
		if err == io.EOF {
			return out, nil
		}
		if err != nil {
			return out, err
		}
		out = append(out, kv{k, v})
		if len(out) > limit {
			return out, fmt.Errorf("iterator yielded more than %d entries (runaway)", limit)
		}
	}
}

// seqMismatch compares an iterator result with the expected rank sequence under dictionary d.
func (w *world) seqMismatch(got []kv, want []int, d dict) string {
	for i := 0; i < len(got) && i < len(want); i++ {
		wi := want[i]
		if !bytes.Equal(got[i].k, w.kp.tups[wi]) {
			gs := "unknown key"
			if gi, ok := w.kp.byBytes[string(got[i].k)]; ok {
				gs = fmtVals(w.kp.vals[gi])
			}
			return fmt.Sprintf("position %d: got key %s, model has %s (got %d entries, model %d)", i, gs, fmtVals(w.kp.vals[wi]), len(got), len(want))
		}
		if !bytes.Equal(got[i].v, w.vp.tups[d[wi]]) {
			return fmt.Sprintf("position %d key %s: value differs from the model (got value #%d, model #%d)", i, fmtVals(w.kp.vals[wi]), w.valIndex(got[i].v), d[wi])
		}
	}
	if len(got) != len(want) {
		return fmt.Sprintf("got %d entries, model has %d", len(got), len(want))
	}
	return ""
}

func reversed(a []int) []int {
	out := make([]int, len(a))
	for i, x := range a {
		out[len(a)-1-i] = x
	}
	return out
}

// ---------------------------------------------------------------------------------------------
// bounded parallel case runner: cases are independent and seeded individually (SubRand), so the outcome
// does not depend on scheduling; only the interleaving of log lines does.

func parallel(n, workers int, fn func(i int)) {
	if workers < 1 {
		workers = 1
	}
	var wg sync.WaitGroup
	ch := make(chan int)
	for w := 0; w < workers; w++ {
		wg.Add(1)
		go func() {
			defer wg.Done()
			for i := range ch {
				fn(i)
			}
		}()
	}
	for i := 0; i < n; i++ {
		ch <- i
	}
	close(ch)
	wg.Wait()
}

const workers = 6

// sizeClass draws the pool size of a case: mostly small/medium, a few large multi-level ones.
// idx is the case index so that every tier contains the large classes deterministically.
func sizeClass(r *rand.Rand, idx, n int) (poolWant int, shape valShape) {
	shapes := []valShape{valEmpty, valSmall, valMedium, valWide, valGiant, valNullable}
	shape = shapes[r.Intn(len(shapes))]
	switch {
	case idx%97 == 5: // the 20 000-entry class
		return 26000, []valShape{valSmall, valEmpty, valNullable}[r.Intn(3)]
	case idx%23 == 3: // 3-level trees: wide values, a few thousand entries
		return 3000 + r.Intn(3000), valWide
	case idx%7 == 1:
		return 600 + r.Intn(1500), shape
	case idx%11 == 0:
		return r.Intn(4), shape // 0..3 keys
	default:
		return 8 + r.Intn(300), shape
	}
}

// ---------------------------------------------------------------------------------------------
// counters aggregated across worker goroutines and emitted once at the end of a stage

type stats struct {
	mu     sync.Mutex
	m      map[string]int
	hidden map[string]int
}

func newStats() *stats { return &stats{m: map[string]int{}} }

func (s *stats) add(name string, n int) {
	if n == 0 {
		return
	}
	s.mu.Lock()
	s.m[name] += n
	s.mu.Unlock()
}

// bump increments an internal (not emitted) tally and returns the new value.
func (s *stats) bump(name string) int {
	s.mu.Lock()
	defer s.mu.Unlock()
	if s.hidden == nil {
		s.hidden = map[string]int{}
	}
	s.hidden[name]++
	return s.hidden[name]
}

func (s *stats) get(name string) int {
	s.mu.Lock()
	defer s.mu.Unlock()
	return s.m[name]
}

func (s *stats) flush(c *rig.Ctx) {
	s.mu.Lock()
	defer s.mu.Unlock()
	names := make([]string, 0, len(s.m))
	for k := range s.m {
		names = append(names, k)
	}
	sort.Strings(names)
	for _, k := range names {
		c.Count(k, s.m[k])
	}
}

// locate returns the first pool rank whose key is >= probe under the model comparison, and whether it is equal.
func (p *keyPool) locate(probe []any) (pos int, exact bool) {
	pos = sort.Search(len(p.vals), func(i int) bool { return cmpVals(p.vals[i], probe) >= 0 })
	exact = pos < len(p.vals) && cmpVals(p.vals[pos], probe) == 0
	return
}

// debugHook, when set (tests only), receives a line before every query.
var debugHook func(string)

func dbg(format string, a ...any) {
	if debugHook != nil {
		debugHook(fmt.Sprintf(format, a...))
	}
}
