package vprolly

import (
	"time"

	"verif/rig"
)

// Register adds the prolly-tree level checks.
func Register() {
	rig.Register(&rig.Spec{Prop: "C11", Level: "exploration", Stages: []rig.Stage{
		{Name: "histories", Fn: c11, TimeoutQuick: 8 * time.Minute, TimeoutThorough: 4 * time.Hour}}})
	rig.Register(&rig.Spec{Prop: "C12", Level: "exploration", Stages: []rig.Stage{
		{Name: "routes", Fn: c12, TimeoutQuick: 8 * time.Minute, TimeoutThorough: 4 * time.Hour}}})
	rig.Register(&rig.Spec{Prop: "C13", Level: "exploration", Stages: []rig.Stage{
		{Name: "pairs", Fn: c13, TimeoutQuick: 8 * time.Minute, TimeoutThorough: 4 * time.Hour}}})
	rig.Register(&rig.Spec{Prop: "C14", Level: "exploration", Stages: []rig.Stage{
		{Name: "triples", Fn: c14, TimeoutQuick: 8 * time.Minute, TimeoutThorough: 4 * time.Hour}}})
}
