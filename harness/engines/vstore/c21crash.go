package vstore

import (
	"bufio"
	"encoding/json"
	"fmt"
	"math/rand"
	"os"
	"strconv"
	"time"

	"golang.org/x/sys/unix"

	"github.com/dolthub/dolt/go/gen/fb/serial"
	"github.com/dolthub/dolt/go/store/chunks"
	"github.com/dolthub/dolt/go/store/datas"
	"github.com/dolthub/dolt/go/store/hash"
	"github.com/dolthub/dolt/go/store/prolly/tree"
	"github.com/dolthub/dolt/go/store/types"

	"verif/oracle"
	"verif/rig"
)

// C21 (crash-point part) — a commit and its working-set update land together for every crash point.
//
// A traced writer process runs datas.Database histories on a journaling store: CommitWithWorkingSet (moves the branch
// head and the working set in one update), UpdateWorkingSet alone and Commit alone. Every acknowledged operation
// defines the pair (head description, working-set description) the store is in afterwards. The C03 enumerator then
// synthesises the crash images of every event boundary and the real recovery code reopens each; the recovered pair,
// read from ONE Datasets() map, must be the last acknowledged pair or the pair of the in-flight operation — never the
// new head with the old working set or vice versa.

const (
	c21Branch = "refs/heads/main"
	c21WS     = "workingSets/heads/main"
)

type c21DB struct {
	cs chunks.ChunkStore
	vs *types.ValueStore
	ns tree.NodeStore
	db datas.Database
}

func newC21DB(cs chunks.ChunkStore) *c21DB {
	vs := types.NewValueStore(cs)
	ns := tree.NewNodeStore(cs)
	return &c21DB{cs: cs, vs: vs, ns: ns, db: datas.NewTypesDatabase(vs, ns)}
}

var c21Epoch = datas.CommitDateAt(time.UnixMilli(0))

// c21Pair reads (head description, working-set description) from one Datasets() map.
func c21Pair(d *c21DB) (string, error) {
	dss, err := d.db.Datasets(bg)
	if err != nil {
		return "", err
	}
	head, ws := "none", "none"
	err = dss.IterAll(bg, func(id string, addr hash.Hash) error {
		if id != c21Branch && id != c21WS {
			return nil
		}
		v, err := d.vs.ReadValue(bg, addr)
		if err != nil {
			return err
		}
		if v == nil {
			return fmt.Errorf("dataset %s points at unreadable address %s", id, addr)
		}
		sm, ok := v.(types.SerialMessage)
		if !ok {
			return fmt.Errorf("dataset %s is not a serial message", id)
		}
		switch serial.GetFileID(sm) {
		case serial.CommitFileID:
			cm, err := serial.TryGetRootAsCommit(sm, serial.MessagePrefixSz)
			if err != nil {
				return err
			}
			head = string(cm.Description())
			// the commit's root value must be readable
			rv, err := d.vs.ReadValue(bg, hash.New(cm.RootBytes()))
			if err != nil || rv == nil {
				return fmt.Errorf("head commit %s references an unreadable root value", head)
			}
		case serial.WorkingSetFileID:
			w, err := serial.TryGetRootAsWorkingSet(sm, serial.MessagePrefixSz)
			if err != nil {
				return err
			}
			ws = string(w.Desc())
			for _, a := range []hash.Hash{hash.New(w.WorkingRootAddrBytes()), hash.New(w.StagedRootAddrBytes())} {
				rv, err := d.vs.ReadValue(bg, a)
				if err != nil || rv == nil {
					return fmt.Errorf("working set %s references an unreadable root value", ws)
				}
			}
		}
		return nil
	})
	if err != nil {
		return "", err
	}
	return head + "|" + ws, nil
}

// c21-writer <dir> <seed> <markerfile> <steps> <shape>
func c21Writer(args []string) int {
	dir, marker := args[0], args[2]
	seed, _ := strconv.ParseInt(args[1], 10, 64)
	steps, _ := strconv.Atoi(args[3])
	r := rand.New(rand.NewSource(seed))
	mfd, err := unix.Open(marker, unix.O_WRONLY|unix.O_APPEND|unix.O_CREAT, 0o644)
	if err != nil {
		return 3
	}
	mark := func(s string) { unix.Write(mfd, []byte(s+"\n")) }
	st, err := oracle.OpenJournal(dir)
	if err != nil {
		fmt.Fprintln(os.Stderr, "open:", err)
		return 1
	}
	d := newC21DB(st)
	cur, err := c21Pair(d)
	if err != nil {
		fmt.Fprintln(os.Stderr, "pair:", err)
		return 1
	}
	mark("OPEN 0 " + cur)
	head, ws := "none", "none"
	n := 0
	fail := func(what string, err error) int {
		mark(fmt.Sprintf("ERR %d %s", n, what))
		fmt.Fprintln(os.Stderr, what+":", err)
		return 1
	}
	mkRef := func(desc string) (types.Value, types.Ref, error) {
		v := types.String(desc)
		ref, err := d.vs.WriteValue(bg, v)
		return v, ref, err
	}
	for s := 0; s < steps; s++ {
		n++
		bds, err := d.db.GetDataset(bg, c21Branch)
		if err != nil {
			return fail("getdataset", err)
		}
		wds, err := d.db.GetDataset(bg, c21WS)
		if err != nil {
			return fail("getdataset", err)
		}
		var prevWS hash.Hash
		if wds.HasHead() {
			prevWS, _ = wds.MaybeHeadAddr()
		}
		op := r.Intn(10)
		switch {
		case op < 6 || !bds.HasHead(): // commit + working set in one update
			cdesc, wdesc := fmt.Sprintf("c-%d-%d", seed%1000, n), fmt.Sprintf("w-%d-%d", seed%1000, n)
			v, ref, err := mkRef("root-" + cdesc)
			if err != nil {
				return fail("writevalue", err)
			}
			spec := datas.WorkingSetSpec{Meta: &datas.WorkingSetMeta{Name: "verif", Email: "v@example.com", Description: wdesc, Timestamp: 1}, WorkingRoot: ref, StagedRoot: ref}
			opts := datas.CommitOptions{Meta: &datas.CommitMeta{Author: datas.CommitIdent{Name: "verif", Email: "v@example.com", Date: c21Epoch}, Committer: datas.CommitIdent{Name: "verif", Email: "v@example.com", Date: c21Epoch}, Description: cdesc}}
			mark(fmt.Sprintf("BEGIN %d %s|%s", n, cdesc, wdesc))
			if _, _, err := d.db.CommitWithWorkingSet(bg, bds, wds, v, spec, prevWS, opts); err != nil {
				return fail("commitwithworkingset", err)
			}
			head, ws = cdesc, wdesc
			mark(fmt.Sprintf("ACK %d %s|%s", n, head, ws))
		case op < 8: // working set alone (dirty working root)
			wdesc := fmt.Sprintf("w-%d-%d", seed%1000, n)
			_, ref, err := mkRef("dirty-" + wdesc)
			if err != nil {
				return fail("writevalue", err)
			}
			hc, _ := bds.MaybeHead()
			var staged types.Ref
			if hc != nil {
				_, staged, err = mkRef("staged-" + wdesc)
				if err != nil {
					return fail("writevalue", err)
				}
			} else {
				staged = ref
			}
			spec := datas.WorkingSetSpec{Meta: &datas.WorkingSetMeta{Name: "verif", Email: "v@example.com", Description: wdesc, Timestamp: 1}, WorkingRoot: ref, StagedRoot: staged}
			mark(fmt.Sprintf("BEGIN %d %s|%s", n, head, wdesc))
			if _, err := d.db.UpdateWorkingSet(bg, wds, spec, prevWS); err != nil {
				return fail("updateworkingset", err)
			}
			ws = wdesc
			mark(fmt.Sprintf("ACK %d %s|%s", n, head, ws))
		default: // commit alone
			cdesc := fmt.Sprintf("c-%d-%d", seed%1000, n)
			v, _, err := mkRef("root-" + cdesc)
			if err != nil {
				return fail("writevalue", err)
			}
			opts := datas.CommitOptions{Meta: &datas.CommitMeta{Author: datas.CommitIdent{Name: "verif", Email: "v@example.com", Date: c21Epoch}, Committer: datas.CommitIdent{Name: "verif", Email: "v@example.com", Date: c21Epoch}, Description: cdesc}}
			mark(fmt.Sprintf("BEGIN %d %s|%s", n, cdesc, ws))
			if _, err := d.db.Commit(bg, bds, v, opts); err != nil {
				return fail("commit", err)
			}
			head = cdesc
			mark(fmt.Sprintf("ACK %d %s|%s", n, head, ws))
		}
	}
	mark("CLOSE 0 " + head + "|" + ws)
	st.Close()
	return 0
}

// c21-reopen <listfile>: reopen every image with the real recovery code and report the (head, working set) pair.
func c21Reopen(args []string) int {
	f, err := os.Open(args[0])
	if err != nil {
		return 3
	}
	defer f.Close()
	sc := bufio.NewScanner(f)
	w := bufio.NewWriter(os.Stdout)
	defer w.Flush()
	once := func(dir string) (pair string, errs string, pan string) {
		defer func() {
			if r := recover(); r != nil {
				pan = fmt.Sprint(r)
			}
		}()
		st, err := oracle.OpenJournal(dir)
		if err != nil {
			return "", err.Error(), ""
		}
		defer st.Close()
		p, err := c21Pair(newC21DB(st))
		if err != nil {
			return "", err.Error(), ""
		}
		return p, "", ""
	}
	for sc.Scan() {
		dir := sc.Text()
		fmt.Fprintln(os.Stderr, "OPENING", dir)
		var res reopenResult
		res.Dir = dir
		res.Root, res.Err, res.Panic = once(dir)
		res.JournalLen = fileLen(dir + "/" + journalName)
		if res.Err == "" && res.Panic == "" {
			var p2 string
			res.Root2, res.Err2, p2 = once(dir)
			if p2 != "" {
				res.Err2 = "panic: " + p2
			}
			res.JournalLn2 = fileLen(dir + "/" + journalName)
		}
		b, _ := json.Marshal(res)
		w.Write(b)
		w.WriteByte('\n')
		w.Flush()
	}
	return 0
}

func init() {
	rig.SubCommands["c21-writer"] = c21Writer
	rig.SubCommands["c21-reopen"] = c21Reopen
}

// C21Crash is the crash-point stage of C21 (registered by the vdatas engine).
func C21Crash(c *rig.Ctx) {
	c.Rule("stage crash: histories of CommitWithWorkingSet / UpdateWorkingSet / Commit by a traced datas.Database writer on a " +
		"journaling store; the C03 crash-image enumerator (every syscall event boundary x {process crash, durable-only, torn, hole, " +
		"garbage}) is applied and every image is reopened by the real code; the (branch head, working set) pair read from one " +
		"Datasets() map must be the last acknowledged pair or the pair of the in-flight operation, with readable root values")
	crashEnumerate(c, crashCfg{prefix: "c21", writer: "c21-writer", reopen: "c21-reopen", quick: 10, thorough: 200, what: "(head|working set) pair", empty: "none|none"})
}
