package vstore

import (
	"crypto/sha256"
	"encoding/hex"
	"encoding/json"
	"errors"
	"fmt"
	"os"
	"os/exec"
	"path/filepath"
	"sort"
	"strconv"
	"strings"
	"sync"
	"time"

	"github.com/dolthub/fslock"

	"github.com/dolthub/dolt/go/store/chunks"
	"github.com/dolthub/dolt/go/store/constants"
	"github.com/dolthub/dolt/go/store/hash"
	"github.com/dolthub/dolt/go/store/nbs"

	"verif/oracle"
	"verif/rig"
	"verif/vtrace"
)

// C41 — only one process can write a database directory (DESIGN C41).
//
// Refuting events: two processes simultaneously holding a writable journaling store; a fail-fast opener that does not get
// ErrDatabaseLocked while a writer holds the directory; a read-only opener that can write, that issues any mutating
// syscall on a path under the directory (strace audit), or after whose session any file's (bytes, size, mtime) changed.

type c41Report struct {
	Pid        int    `json:"pid"`
	Mode       string `json:"mode"` // exclusive | readonly | error
	Err        string `json:"err,omitempty"`
	Locked     bool   `json:"locked_error,omitempty"`
	OpenedAt   int64  `json:"opened_at"`
	ClosingAt  int64  `json:"closing_at"`
	WriteOK    bool   `json:"write_ok"`
	WriteErr   string `json:"write_err,omitempty"`
	Root       string `json:"root"`
	ReadChunks int    `json:"read_chunks"`
	ReadErr    string `json:"read_err,omitempty"`
}

// c41-open <dir> <default|failfast|skip> <holdMs|-1> <tryWrite 0|1> <outfile> [readyfile [releasefile]]
func c41Open(args []string) int {
	dir, mode := args[0], args[1]
	hold, _ := strconv.Atoi(args[2])
	tryWrite := args[3] == "1"
	var rep c41Report
	rep.Pid = os.Getpid()
	defer func() {
		b, _ := json.Marshal(rep)
		os.WriteFile(args[4], b, 0o644)
	}()
	opts := nbs.JournalingStoreOptions{}
	switch mode {
	case "failfast":
		opts.FailOnLockTimeout = true
	case "skip":
		opts.SkipLockFileTimeout = true
	case "failfast-skip":
		opts.FailOnLockTimeout, opts.SkipLockFileTimeout = true, true
	}
	st, err := nbs.NewLocalJournalingStoreWithOptions(bg, constants.FormatDoltString, dir, oracle.Quota(), false, func(error) {}, opts)
	if err != nil {
		rep.Mode, rep.Err, rep.Locked = "error", err.Error(), errors.Is(err, nbs.ErrDatabaseLocked)
		return 0
	}
	// force the lazy load so that the journal is actually bootstrapped
	rt, err := st.Root(bg)
	rep.OpenedAt = rig.Mono()
	if err != nil {
		rep.Mode, rep.Err = "error", err.Error()
		st.Close()
		return 0
	}
	rep.Root = rt.String()
	switch st.AccessMode() {
	case chunks.ExclusiveAccessMode_Exclusive:
		rep.Mode = "exclusive"
	case chunks.ExclusiveAccessMode_ReadOnly:
		rep.Mode = "readonly"
	default:
		rep.Mode = "shared"
	}
	if len(args) > 5 {
		os.WriteFile(args[5], []byte(rep.Mode), 0o644)
	}
	// read the closure of the root (a reader must be able to read)
	if !rt.IsEmpty() {
		n, missing, bad := walkClosure(st, rt)
		rep.ReadChunks = n
		if missing != "" || bad != "" {
			rep.ReadErr = "missing=" + missing + " bad=" + bad
		}
	}
	if tryWrite {
		ch := chunks.NewChunk(oracle.EncodeChunkData(nil, []byte(fmt.Sprintf("c41-%d-%d", os.Getpid(), rig.Mono()))))
		err := st.Put(bg, ch, oracle.GetAddrsCurry)
		if err == nil {
			var ok bool
			ok, err = st.Commit(bg, ch.Hash(), rt)
			if err == nil && !ok {
				err = fmt.Errorf("commit refused (optimistic lock)")
			}
		}
		if err != nil {
			rep.WriteErr = firstLine(err.Error())
		} else {
			rep.WriteOK = true
		}
	}
	if hold < 0 && len(args) > 6 {
		// hold until the monitor releases us (logical barrier, no wall-clock assumption); generous upper bound
		for i := 0; i < 12000 && !fileExists(args[6]); i++ {
			time.Sleep(10 * time.Millisecond)
		}
	} else {
		time.Sleep(time.Duration(hold) * time.Millisecond)
	}
	rep.ClosingAt = rig.Mono()
	st.Close()
	return 0
}

func init() { rig.SubCommands["c41-open"] = c41Open }

func dirDigest(dir string) map[string]string {
	out := map[string]string{}
	ents, _ := os.ReadDir(dir)
	for _, e := range ents {
		if e.IsDir() {
			continue
		}
		p := filepath.Join(dir, e.Name())
		b, err := os.ReadFile(p)
		fi, err2 := os.Stat(p)
		if err != nil || err2 != nil {
			continue
		}
		s := sha256.Sum256(b)
		out[e.Name()] = fmt.Sprintf("%d:%s:%d", len(b), hex.EncodeToString(s[:8]), fi.ModTime().UnixNano())
	}
	return out
}

func digestDiff(a, b map[string]string) []string {
	var out []string
	for k, v := range a {
		if w, ok := b[k]; !ok {
			out = append(out, k+" removed")
		} else if w != v {
			out = append(out, fmt.Sprintf("%s %s -> %s", k, v, w))
		}
	}
	for k := range b {
		if _, ok := a[k]; !ok {
			out = append(out, k+" created")
		}
	}
	sort.Strings(out)
	return out
}

// mutatingSyscalls audits a strace log for calls that modify anything under dir (the LOCK file may be opened for
// locking, which does not change its content).
func mutatingSyscalls(tlog, dir string) []string {
	evs, err := vtrace.Parse(tlog)
	rig.Must(err)
	var out []string
	for _, e := range evs {
		under := e.Path == dir || strings.HasPrefix(e.Path, dir+"/") || strings.HasPrefix(e.Path2, dir+"/")
		if !under {
			continue
		}
		base := filepath.Base(e.Path)
		switch e.Call {
		case "openat":
			if e.Ret < 0 {
				continue
			}
			// opening a file read-write modifies nothing by itself; truncation and exclusive creation do
			w := strings.Contains(e.Flags, "O_TRUNC") || (strings.Contains(e.Flags, "O_CREAT") && strings.Contains(e.Flags, "O_EXCL"))
			if w && base != "LOCK" {
				out = append(out, "truncating/creating open: "+e.String()+" flags="+e.Flags)
			}
			if base == "LOCK" && strings.Contains(e.Flags, "O_TRUNC") {
				out = append(out, "LOCK truncated: "+e.String())
			}
		case "write", "pwrite64", "ftruncate", "rename", "unlink":
			out = append(out, e.String())
		}
	}
	return out
}

func c41(c *rig.Ctx) {
	c.Rule("scenarios over one journaling database directory produced by a PRNG writer history (optionally damaged: torn journal tail, " +
		"stale / corrupt / missing index): (a) a holder process keeps the store open for writing while 1-3 other processes open it in each " +
		"mode {default, fail-fast, skip-timeout, fail-fast+skip} and try to read and to write; (b) 2-4 processes race to open for writing; " +
		"(c) read-only openers run under strace; before/after directory digests (bytes,size,mtime) around every read-only session. " +
		"Distinct = (damage kind, open-mode multiset, outcome multiset); non-trivial = at least one opener was refused or read-only")
	c.Assume("exclusive intervals are compared with CLOCK_MONOTONIC timestamps taken inside the child processes right after open returned and right before Close")
	n := c.Pick(14, 200)
	var roSessions, failfast, exclusiveRaces, tracedRO, damaged, holderNotReady int
	for s := 0; s < n; s++ {
		r := c.SubRand("c41", s)
		work := c.TempDir("c41")
		db := filepath.Join(work, "db")
		rig.Must(os.MkdirAll(db, 0o755))
		seed := r.Int63()
		damage := []string{"none", "none", "torn-tail", "stale-index", "corrupt-index", "missing-index", "garbage-tail"}[r.Intn(7)]
		if s < 3 {
			damage = "none" // non-vacuity must not depend on the PRNG
		}
		c.Case(fmt.Sprintf("c41/%d", s), map[string]any{"writer_seed": seed, "damage": damage})
		if out, err := exec.Command(rig.Self(), "c03-writer", db, fmt.Sprint(seed), filepath.Join(work, "markers"), fmt.Sprint(6+r.Intn(8)), "small").CombinedOutput(); err != nil {
			c.Violation("c41/writer-failed", fmt.Sprintf("%v %s", err, tail(out, 300)), nil)
			continue
		}
		jp, ip := filepath.Join(db, journalName), filepath.Join(db, "journal.idx")
		jb, _ := os.ReadFile(jp)
		switch damage {
		case "torn-tail":
			recs := journalRecords(jb)
			if len(recs) > 2 {
				last := recs[len(recs)-1]
				os.WriteFile(jp, jb[:last.off+last.n/2], 0o644)
			}
			damaged++
		case "garbage-tail":
			g := make([]byte, 1+r.Intn(300))
			r.Read(g)
			os.WriteFile(jp, append(jb, g...), 0o644)
			damaged++
		case "stale-index":
			ib, _ := os.ReadFile(ip)
			if len(ib) > 60 {
				os.WriteFile(ip, ib[:len(ib)/2], 0o644)
			}
			damaged++
		case "corrupt-index":
			ib, _ := os.ReadFile(ip)
			if len(ib) > 0 {
				ib[r.Intn(len(ib))] ^= 0x40
				os.WriteFile(ip, ib, 0o644)
			}
			damaged++
		case "missing-index":
			os.Remove(ip)
			damaged++
		}
		scenario := r.Intn(3)
		if damage != "none" {
			scenario = 0 // damaged directories are for the read-only clause
		}
		if s < 3 {
			scenario = s // the first three sessions are undamaged (see above): every scenario occurs at every seed
		}
		if s%5 == 4 {
			scenario = 3
		}
		var outcomes []string
		run := func(mode string, hold int, write bool, traced bool, ready string) *c41Report {
			out := filepath.Join(work, fmt.Sprintf("rep-%d.json", r.Int63()))
			w := "0"
			if write {
				w = "1"
			}
			args := []string{"c41-open", db, mode, fmt.Sprint(hold), w, out}
			if ready != "" {
				args = append(args, ready, ready+".release")
			}
			var cmd *exec.Cmd
			var tlog string
			if traced {
				tlog = out + ".trace"
				cmd = exec.Command("strace", append(append(vtrace.StraceArgs(tlog, 32), rig.Self()), args...)...)
			} else {
				cmd = exec.Command(rig.Self(), args...)
			}
			ob, err := cmd.CombinedOutput()
			var rep c41Report
			if json.Unmarshal(readFileOr(out), &rep) != nil {
				c.Violation("c41/opener-crashed/"+mode, fmt.Sprintf("opener process died: %v %s", err, tail(ob, 600)), nil)
				return nil
			}
			if traced && rep.Mode == "readonly" {
				tracedRO++
				if m := mutatingSyscalls(tlog, db); len(m) > 0 {
					c.Violation("c41/readonly-opener-mutating-syscall/"+damage, fmt.Sprintf("read-only opener issued %d mutating syscalls under the database directory, e.g. %s", len(m), m[0]),
						map[string]any{"writer_seed": seed, "damage": damage, "syscalls": m[:min(len(m), 8)]})
				}
			}
			return &rep
		}
		switch scenario {
		case 0, 1: // holder + other openers
			ready := filepath.Join(work, "ready")
			var hw sync.WaitGroup
			var holder *c41Report
			hw.Add(1)
			go func() {
				defer hw.Done()
				holder = run("default", -1, damage == "none", false, ready)
			}()
			for i := 0; i < 6000 && !fileExists(ready); i++ { // generous watchdog (60 s): a loaded machine starts processes slowly
				time.Sleep(10 * time.Millisecond)
			}
			if !fileExists(ready) {
				os.WriteFile(ready+".release", nil, 0o644)
				hw.Wait()
				holderNotReady++ // this session decides nothing; the run is inconclusive only if that happens often (below)
				continue
			}
			before := dirDigest(db)
			modes := []string{"default", "failfast", "skip", "failfast-skip"}
			nOpen := 1 + r.Intn(3)
			for i := 0; i < nOpen; i++ {
				mode := modes[r.Intn(len(modes))]
				if s < 2 && i == 0 {
					mode = modes[s] // session 0: a (traced) read-only session, session 1: a fail-fast open, at every seed
				}
				rep := run(mode, 0, true, i == 0, "")
				if rep == nil {
					continue
				}
				outcomes = append(outcomes, mode+"="+rep.Mode)
				wit := map[string]any{"writer_seed": seed, "damage": damage, "open_mode": mode, "report": rep}
				switch {
				case strings.HasPrefix(mode, "failfast"):
					failfast++
					if rep.Mode != "error" || !rep.Locked {
						c.Violation("c41/failfast-not-refused", "a fail-fast open of a directory held by a writer did not return ErrDatabaseLocked", wit)
					}
				case rep.Mode == "exclusive" || rep.WriteOK:
					c.Violation("c41/second-writer", "a second process obtained write access while another process holds the directory open for writing", wit)
				case rep.Mode == "readonly":
					roSessions++
					if rep.ReadErr != "" {
						c.Violation("c41/readonly-cannot-read/"+damage, "read-only opener cannot read the committed state: "+rep.ReadErr, wit)
					}
				case rep.Mode == "error":
					c.Violation("c41/readonly-open-error/"+damage, "opening read-only failed: "+firstLine(rep.Err), wit)
				}
			}
			mid := dirDigest(db)
			os.WriteFile(ready+".release", nil, 0o644)
			hw.Wait()
			if holder != nil && holder.Mode != "exclusive" {
				c.Violation("c41/holder-not-exclusive", fmt.Sprintf("the first opener of an unlocked directory got %s (%s)", holder.Mode, holder.Err), nil)
			}
			// the holder does not write after signalling readiness when the directory is damaged; when it does write
			// (damage == none) the digests legitimately differ, so the file-modification clause is checked only for damaged dirs
			if damage != "none" {
				if d := digestDiff(before, mid); len(d) > 0 {
					c.Violation("c41/readonly-session-modified-files/"+damage, strings.Join(d, "; "), map[string]any{"writer_seed": seed, "damage": damage})
				}
			}
		case 3:
			// A directory in the state a writer leaves between creating its journal file and committing the first
			// root record: a table-file store with a committed root (manifest + table files) plus a journal file that
			// holds no (valid) root record. The LOCK is held by the monitor itself, so nothing else touches the
			// directory; every opener must come up read-only (or be refused), read the committed closure from the
			// table files, and leave every file untouched.
			os.RemoveAll(db)
			rig.Must(os.MkdirAll(db, 0o755))
			lst, err := oracle.OpenLocal(db, 1<<12)
			rig.Must(err)
			lm := oracle.NewModel()
			var lroot hash.Hash
			for k := 0; k < 2+r.Intn(3); k++ {
				last, err := putSome(r, lst, lm, 2+r.Intn(6), "c41rootless")
				rig.Must(err)
				cur, _ := lst.Root(bg)
				if ok, err := lst.Commit(bg, last, cur); err != nil || !ok {
					rig.Must(fmt.Errorf("setup commit: %v %v", ok, err))
				}
				lroot = last
			}
			lst.Close()
			variant := []string{"empty-journal", "torn-first-record", "garbage-journal"}[r.Intn(3)]
			var jbytes []byte
			switch variant {
			case "torn-first-record":
				jbytes = []byte{0, 0, 0, 40, 1, 1, 2} // length prefix + a few bytes of a root record
			case "garbage-journal":
				jbytes = make([]byte, 64+r.Intn(200))
				r.Read(jbytes)
				jbytes[0], jbytes[1] = 0x7f, 0xff // implausible record length: parsed as garbage
			}
			rig.Must(os.WriteFile(jp, jbytes, 0o644))
			damage = "rootless-journal/" + variant
			damaged++
			lk, lerr := fslock.New(filepath.Join(db, "LOCK"))
			rig.Must(lerr)
			if err := lk.TryLock(); err != nil {
				rig.Must(fmt.Errorf("monitor cannot take LOCK: %w", err))
			}
			before := dirDigest(db)
			for i, mode := range []string{"default", "skip", "failfast"} {
				rep := run(mode, 0, true, i < 2, "")
				if rep == nil {
					continue
				}
				outcomes = append(outcomes, mode+"="+rep.Mode)
				wit := map[string]any{"damage": damage, "open_mode": mode, "report": rep}
				switch {
				case mode == "failfast":
					failfast++
					if rep.Mode != "error" || !rep.Locked {
						c.Violation("c41/failfast-not-refused", "a fail-fast open of a locked directory did not return ErrDatabaseLocked", wit)
					}
				case rep.Mode == "exclusive" || rep.WriteOK:
					c.Violation("c41/second-writer", "an opener obtained write access while the LOCK is held", wit)
				case rep.Mode == "readonly":
					roSessions++
					if rep.ReadErr != "" || rep.Root != lroot.String() {
						c.Violation("c41/readonly-cannot-read/"+damage, fmt.Sprintf("read-only opener shows root %s (committed %s) %s", rep.Root, lroot, rep.ReadErr), wit)
					}
				case rep.Mode == "error":
					c.Violation("c41/readonly-open-error/"+damage, "opening read-only failed: "+firstLine(rep.Err), wit)
				}
			}
			after := dirDigest(db)
			lk.Unlock()
			if d := digestDiff(before, after); len(d) > 0 {
				c.Violation("c41/readonly-session-modified-files/"+damage, strings.Join(d, "; "), map[string]any{"damage": damage})
			}
		case 2: // race for write access
			k := 2 + r.Intn(3)
			reps := make([]*c41Report, k)
			var wg sync.WaitGroup
			for i := 0; i < k; i++ {
				wg.Add(1)
				go func(i int) {
					defer wg.Done()
					reps[i] = run([]string{"default", "skip"}[i%2], 150+r.Intn(1), true, false, "")
				}(i)
			}
			wg.Wait()
			exclusiveRaces++
			var ex []*c41Report
			for _, rp := range reps {
				if rp == nil {
					continue
				}
				outcomes = append(outcomes, rp.Mode)
				if rp.Mode == "exclusive" {
					ex = append(ex, rp)
				} else if rp.WriteOK {
					c.Violation("c41/write-without-exclusive-access", "a process without exclusive access committed", map[string]any{"report": rp})
				}
			}
			for i := range ex {
				for j := i + 1; j < len(ex); j++ {
					if ex[i].OpenedAt < ex[j].ClosingAt && ex[j].OpenedAt < ex[i].ClosingAt {
						c.Violation("c41/two-exclusive-holders", "two processes held the directory open for writing at the same time", map[string]any{"a": ex[i], "b": ex[j]})
					}
				}
			}
			if len(ex) == 0 {
				c.Violation("c41/nobody-exclusive", "no process obtained write access to an unlocked directory", map[string]any{"reports": reps})
			}
		}
		sort.Strings(outcomes)
		c.Distinct(damage + "|" + strings.Join(outcomes, ","))
		if s < 4 {
			c.Sample(map[string]any{"scenario": scenario, "damage": damage, "outcomes": outcomes})
		}
		os.RemoveAll(work)
	}
	c.Count("c41.readonly_sessions", roSessions)
	c.Count("c41.failfast_opens_against_holder", failfast)
	c.Count("c41.write_access_races", exclusiveRaces)
	c.Count("c41.readonly_sessions_audited_with_strace", tracedRO)
	c.Count("c41.damaged_directories", damaged)
	c.Count("c41.sessions_skipped_holder_not_ready_within_60s", holderNotReady)
	c.Require(holderNotReady*10 <= n, "the holder process did not become ready within 60 s in more than a tenth of the sessions (machine overloaded)")
	c.Require(roSessions > 0 && failfast > 0 && exclusiveRaces > 0 && tracedRO > 0, "one of: read-only session, fail-fast open, write race, traced read-only session was never exercised")
}
