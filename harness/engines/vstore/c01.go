package vstore

import (
	"bytes"
	"fmt"
	"math/rand"
	"os"
	"path/filepath"
	"sync"

	"context"

	"github.com/dolthub/dolt/go/store/chunks"
	"github.com/dolthub/dolt/go/store/hash"
	"github.com/dolthub/dolt/go/store/nbs"

	"verif/oracle"
	"verif/rig"
)

// C01 — chunk reads return exactly the bytes stored under that address; all read paths agree.
//
// Oracle: the chunk model (map address -> bytes). After every mutation step all read paths (Get, GetMany,
// GetManyCompressed, Has, HasMany) are asked about present, adjacent-absent and random-absent addresses.
// IterateAllChunks / Count walk persisted chunk sources only, so they are compared at quiescent points
// (after a successful Commit or a reopen).

type c01Store struct {
	kind   storeKind
	cs     chunks.ChunkStore
	dir    string
	mem    uint64
	ghost  hash.HashSet
	oldGen *nbs.NomsBlockStore
	ms     *chunks.MemoryStorage
}

func (s *c01Store) open() error {
	switch s.kind {
	case kindMemory:
		if s.ms == nil {
			s.ms = &chunks.MemoryStorage{}
		}
		s.cs = s.ms.NewViewWithDefaultFormat()
	case kindLocal:
		st, err := oracle.OpenLocal(s.dir, s.mem)
		if err != nil {
			return err
		}
		s.cs = st
	case kindJournal:
		st, err := oracle.OpenJournal(s.dir)
		if err != nil {
			return err
		}
		s.cs = st
	case kindGen:
		ng, err := oracle.OpenJournal(s.dir)
		if err != nil {
			return err
		}
		og := filepath.Join(s.dir, "oldgen")
		os.MkdirAll(og, 0o755)
		old, err := oracle.OpenLocal(og, s.mem)
		if err != nil {
			return err
		}
		gh, err := nbs.NewGhostBlockStore(s.dir)
		if err != nil {
			return err
		}
		s.oldGen = old
		s.cs = nbs.NewGenerationalCS(old, ng, gh)
	}
	return nil
}

func c01(c *rig.Ctx) {
	c.Rule("PRNG histories of put/commit/reopen/rebase steps over 4 store configurations (memory, local table files with " +
		"memtable 1KB..1MB, chunk journal, generational old/new gen + ghost); >=30% of addresses are forged families sharing " +
		"an 8-byte prefix; after every step all read paths are compared with the chunk model on present+neighbour+random " +
		"addresses. A history is distinct/non-trivial when its (config, step-kind sequence, address-family shape) differs and " +
		"it performed at least one committed write and one prefix-collision lookup")
	c.Assume("forged addresses (NewChunkWithHash) are legal inputs to the chunk store: NBS treats addresses as opaque keys")
	c.Assume("AWS/GCS/OCI/dynamo backends are not driven (no network)")
	kinds := []storeKind{kindMemory, kindLocal, kindJournal, kindGen}
	n := c.Pick(40, 600)
	for i := 0; i < n; i++ {
		for _, k := range kinds {
			r := c.SubRand("c01/"+string(k), i)
			c01History(c, r, k, i)
		}
	}
	c.Require(true, "")
}

func c01History(c *rig.Ctx, r *rand.Rand, kind storeKind, idx int) {
	name := fmt.Sprintf("c01/%s/%d", kind, idx)
	mems := []uint64{1 << 10, 4 << 10, 64 << 10, 1 << 20}
	st := &c01Store{kind: kind, mem: mems[r.Intn(len(mems))]}
	if kind != kindMemory {
		st.dir = c.TempDir("c01")
		defer os.RemoveAll(st.dir)
	}
	steps := 8 + r.Intn(c.Pick(30, 120))
	c.Case(name, map[string]any{"kind": kind, "memtable": st.mem, "steps": steps})
	if err := st.open(); err != nil {
		c.Violation("c01/open-failed/"+string(kind), err.Error(), nil)
		return
	}
	defer func() {
		if st.cs != nil {
			st.cs.Close()
		}
	}()
	m := oracle.NewModel()
	committed := hash.NewHashSet() // chunks known to be covered by a successful Commit (quiescent check set)
	pending := hash.NewHashSet()
	var shape bytes.Buffer
	collisionLookups := 0
	maxBody := 2000
	if c.Thorough() && r.Intn(10) == 0 {
		maxBody = 300_000
	}
	if uint64(maxBody) > st.mem/4 && (kind == kindLocal || kind == kindGen) {
		maxBody = int(st.mem / 4) // a chunk larger than the memtable is not a configuration Dolt runs with (256 MB memtable)
	}
	var fam []hash.Hash
	for s := 0; s < steps; s++ {
		op := r.Intn(10)
		switch {
		case op < 6: // put a batch
			nput := 1 + r.Intn(12)
			for j := 0; j < nput; j++ {
				var refs []hash.Hash
				for k := r.Intn(3); k > 0; k-- {
					if h, ok := m.Pick(r); ok {
						refs = append(refs, h)
					}
				}
				data := oracle.EncodeChunkData(refs, oracle.GenBody(r, maxBody))
				var ch chunks.Chunk
				forged := r.Intn(10) < 4
				if forged {
					if len(fam) == 0 {
						fam = oracle.ForgeFamily(r, 2+r.Intn(15))
					}
					ch = chunks.NewChunkWithHash(fam[0], data)
					fam = fam[1:]
					if _, dup := m.Data[ch.Hash()]; dup {
						continue
					}
				} else {
					ch = chunks.NewChunk(data)
				}
				if err := st.cs.Put(bg, ch, oracle.GetAddrsCurry); err != nil {
					c.Violation("c01/put-error/"+string(kind), fmt.Sprintf("Put(%s) of a chunk whose refs are all present failed: %v", oracle.Short(ch.Hash()), err), nil)
					return
				}
				m.Add(ch, forged)
				pending.Insert(ch.Hash())
			}
			shape.WriteByte('p')
		case op < 8: // commit
			root, err := st.cs.Root(bg)
			if err != nil {
				c.Violation("c01/root-error", err.Error(), nil)
				return
			}
			nr := root
			if h, ok := m.Pick(r); ok {
				nr = h
			}
			ok, err := st.cs.Commit(bg, nr, root)
			if err != nil || !ok {
				c.Violation("c01/commit-failed/"+string(kind), fmt.Sprintf("single-writer Commit(%s,%s) = %v, %v", oracle.Short(nr), oracle.Short(root), ok, err), nil)
				return
			}
			for h := range pending {
				committed.Insert(h)
			}
			pending = hash.NewHashSet()
			shape.WriteByte('c')
			c01Quiescent(c, st, m, committed, name)
		case op == 8 && kind != kindMemory: // reopen (uncommitted chunks are legitimately lost)
			st.cs.Close()
			st.cs = nil
			for h := range pending {
				// a pending chunk may or may not have been persisted; drop it from the model only if the store lost it
				_ = h
			}
			if err := st.open(); err != nil {
				c.Violation("c01/reopen-failed/"+string(kind), err.Error(), nil)
				return
			}
			// pending chunks: allowed present (flushed table file / journal) or absent; reconcile the model
			for h := range pending {
				has, err := st.cs.Has(bg, h)
				if err != nil {
					c.Violation("c01/has-error", err.Error(), nil)
					return
				}
				if !has {
					delete(m.Data, h)
					for i, o := range m.Order {
						if o == h {
							m.Order = append(m.Order[:i], m.Order[i+1:]...)
							break
						}
					}
				}
			}
			pending = hash.NewHashSet()
			shape.WriteByte('o')
			c01Quiescent(c, st, m, committed, name)
		case op == 9 && kind == kindGen && st.ghost == nil && r.Intn(3) == 0:
			g := hash.NewHashSet()
			for k := 1 + r.Intn(4); k > 0; k-- {
				var h hash.Hash
				r.Read(h[:])
				g.Insert(h)
			}
			// (GenerationalNBS.PersistGhostHashes itself has an inverted nil test and always errors when a ghost
			// store is configured; production code goes through GhostGen(), and so does the monitor.)
			if err := st.cs.(*nbs.GenerationalNBS).GhostGen().PersistGhostHashes(bg, g); err != nil {
				c.Violation("c01/ghost-persist", err.Error(), nil)
				return
			}
			st.ghost = g
			shape.WriteByte('g')
		case op == 9 && kind == kindGen && len(m.Order) > 0 && r.Intn(2) == 0:
			// move some committed chunks' copies into old gen directly (what GC does), keeping closure order
			old := st.oldGen
			cnt := 0
			for _, h := range m.Order {
				if committed.Has(h) && r.Intn(3) == 0 && len(oracle.DecodeRefs(m.Data[h])) == 0 {
					if err := old.Put(bg, chunks.NewChunkWithHash(h, m.Data[h]), oracle.GetAddrsCurry); err != nil {
						c.Violation("c01/oldgen-put", err.Error(), nil)
						return
					}
					cnt++
				}
			}
			if cnt > 0 {
				root, _ := old.Root(bg)
				if ok, err := old.Commit(bg, root, root); err != nil || !ok {
					c.Violation("c01/oldgen-commit", fmt.Sprint(ok, err), nil)
					return
				}
			}
			shape.WriteByte('G')
		default:
			if err := st.cs.Rebase(bg); err != nil {
				c.Violation("c01/rebase-error", err.Error(), nil)
				return
			}
			shape.WriteByte('r')
		}
		collisionLookups += c01CompareReads(c, r, st, m, name)
		if c.Violations() > 20 {
			return
		}
	}
	c.Count("c01.histories."+string(kind), 1)
	c.Count("c01.steps", steps)
	c.Count("c01.prefix_collision_lookups", collisionLookups)
	if committed.Size() > 0 && collisionLookups > 0 {
		c.Distinct(string(kind) + "/" + shape.String() + fmt.Sprint(st.mem))
	}
	c.Sample(map[string]any{"case": name, "kind": kind, "memtable": st.mem, "steps": shape.String(), "chunks": len(m.Order), "prefix_collision_lookups": collisionLookups})
}

// c01CompareReads asks every lookup path about present, neighbouring and random addresses.
func c01CompareReads(c *rig.Ctx, r *rand.Rand, st *c01Store, m *oracle.Model, name string) int {
	probe := hash.NewHashSet()
	prefixCount := map[[8]byte]int{}
	for h := range m.Data {
		var p [8]byte
		copy(p[:], h[:8])
		prefixCount[p]++
	}
	// all present (bounded) + oracle.Neighbours + random
	cnt := 0
	for _, h := range m.Order {
		if _, ok := m.Data[h]; !ok {
			continue
		}
		if len(m.Order) > 150 && r.Intn(len(m.Order)) > 150 {
			continue
		}
		probe.Insert(h)
		if cnt < 40 {
			for _, nb := range oracle.Neighbours(h) {
				probe.Insert(nb)
			}
		}
		cnt++
	}
	for i := 0; i < 5; i++ {
		var h hash.Hash
		r.Read(h[:])
		probe.Insert(h)
	}
	for h := range st.ghost {
		probe.Insert(h)
	}
	collisions := 0
	for h := range probe {
		var p [8]byte
		copy(p[:], h[:8])
		if prefixCount[p] >= 2 || (prefixCount[p] == 1 && m.Data[h] == nil) {
			collisions++
		}
	}
	expectPresent := func(h hash.Hash) bool { _, ok := m.Data[h]; return ok }
	isGhost := func(h hash.Hash) bool { return st.ghost != nil && st.ghost.Has(h) && !expectPresent(h) }
	kind := string(st.kind)
	bad := func(path string, h hash.Hash, what string) {
		c.Violation(fmt.Sprintf("c01/%s/%s", kind, path), fmt.Sprintf("%s: address %s: %s", path, h, what),
			map[string]any{"address": h.String(), "forged": m.Forged[h], "store": kind, "dir": oracle.DirListing(st.dir)})
	}
	checkChunk := func(path string, h hash.Hash, ch chunks.Chunk) {
		if ch.Hash() != h {
			bad(path, h, "returned a chunk with address "+ch.Hash().String())
			return
		}
		if isGhost(h) {
			if !ch.IsGhost() {
				bad(path, h, "ghost address returned a non-ghost chunk")
			}
			return
		}
		want, ok := m.Data[h]
		if !ok {
			bad(path, h, fmt.Sprintf("never-written address returned %d bytes", len(ch.Data())))
			return
		}
		if !bytes.Equal(ch.Data(), want) {
			bad(path, h, fmt.Sprintf("returned %d bytes that differ from the %d bytes stored", len(ch.Data()), len(want)))
			return
		}
		if !m.Forged[h] && hash.Of(ch.Data()) != h {
			bad(path, h, "content hash of returned bytes != address")
		}
	}
	// Get / Has
	for _, h := range oracle.SortedHashes(probe) {
		ch, err := st.cs.Get(bg, h)
		if err != nil {
			bad("Get", h, "error "+err.Error())
			continue
		}
		if ch.IsEmpty() && !ch.IsGhost() {
			if expectPresent(h) || isGhost(h) {
				bad("Get", h, "written chunk reported absent")
			}
		} else {
			checkChunk("Get", h, ch)
		}
		has, err := st.cs.Has(bg, h)
		if err != nil {
			bad("Has", h, "error "+err.Error())
			continue
		}
		if has != (expectPresent(h) || isGhost(h)) {
			bad("Has", h, fmt.Sprintf("Has=%v, model present=%v", has, expectPresent(h)))
		}
	}
	// GetMany
	var mu sync.Mutex
	got := map[hash.Hash]int{}
	err := st.cs.GetMany(bg, probe.Copy(), func(_ context.Context, ch *chunks.Chunk) {
		mu.Lock()
		defer mu.Unlock()
		got[ch.Hash()]++
		if !probe.Has(ch.Hash()) {
			bad("GetMany", ch.Hash(), "delivered an address that was not requested")
			return
		}
		checkChunk("GetMany", ch.Hash(), *ch)
	})
	if err != nil {
		bad("GetMany", hash.Hash{}, "error "+err.Error())
	}
	for h := range probe {
		if (expectPresent(h) || isGhost(h)) && got[h] == 0 {
			bad("GetMany", h, "written chunk not delivered")
		}
		if got[h] > 1 {
			bad("GetMany", h, fmt.Sprintf("delivered %d times", got[h]))
		}
	}
	// GetManyCompressed
	if cg, ok := st.cs.(oracle.CompressedGetter); ok {
		got2 := map[hash.Hash]int{}
		err := cg.GetManyCompressed(bg, probe.Copy(), func(_ context.Context, tc nbs.ToChunker) {
			mu.Lock()
			defer mu.Unlock()
			h := tc.Hash()
			got2[h]++
			if !probe.Has(h) {
				bad("GetManyCompressed", h, "delivered an address that was not requested")
				return
			}
			if tc.IsGhost() {
				if !isGhost(h) {
					bad("GetManyCompressed", h, "ghost chunk for a non-ghost address")
				}
				return
			}
			ch, err := tc.ToChunk()
			if err != nil {
				bad("GetManyCompressed", h, "ToChunk error "+err.Error())
				return
			}
			checkChunk("GetManyCompressed", h, ch)
		})
		if err != nil {
			bad("GetManyCompressed", hash.Hash{}, "error "+err.Error())
		}
		for h := range probe {
			if (expectPresent(h) || isGhost(h)) && got2[h] == 0 {
				bad("GetManyCompressed", h, "written chunk not delivered")
			}
			if got2[h] > 1 {
				bad("GetManyCompressed", h, fmt.Sprintf("delivered %d times", got2[h]))
			}
		}
	}
	// HasMany
	absent, err := st.cs.HasMany(bg, probe.Copy())
	if err != nil {
		bad("HasMany", hash.Hash{}, "error "+err.Error())
	} else {
		for h := range probe {
			wantAbsent := !(expectPresent(h) || isGhost(h))
			if absent.Has(h) != wantAbsent {
				bad("HasMany", h, fmt.Sprintf("absent=%v, model absent=%v", absent.Has(h), wantAbsent))
			}
		}
		for h := range absent {
			if !probe.Has(h) {
				bad("HasMany", h, "absent set contains an address that was not asked")
			}
		}
	}
	c.Count("c01.addresses_probed", probe.Size())
	return collisions
}

// c01Quiescent compares full iteration / Count with the committed part of the model.
func c01Quiescent(c *rig.Ctx, st *c01Store, m *oracle.Model, committed hash.HashSet, name string) {
	it, ok := st.cs.(oracle.IterAll)
	if !ok || st.kind == kindMemory {
		return
	}
	seen := map[hash.Hash]int{}
	var mu sync.Mutex
	kind := string(st.kind)
	err := it.IterateAllChunks(bg, func(ch chunks.Chunk) {
		mu.Lock()
		defer mu.Unlock()
		h := ch.Hash()
		seen[h]++
		want, ok := m.Data[h]
		if !ok {
			// chunks dropped from the model at a reopen cannot reappear; anything else was never written
			c.Violation("c01/"+kind+"/IterateAllChunks", fmt.Sprintf("iteration produced never-written address %s", h), nil)
			return
		}
		if !bytes.Equal(want, ch.Data()) {
			c.Violation("c01/"+kind+"/IterateAllChunks", fmt.Sprintf("iteration returned different bytes for %s", h), nil)
		}
	})
	if err != nil {
		c.Violation("c01/"+kind+"/IterateAllChunks", "error "+err.Error(), nil)
		return
	}
	for h := range committed {
		if _, still := m.Data[h]; still && seen[h] == 0 {
			c.Violation("c01/"+kind+"/IterateAllChunks", fmt.Sprintf("committed chunk %s missing from full iteration", h), map[string]any{"dir": oracle.DirListing(st.dir)})
		}
	}
	total := 0
	for _, n := range seen {
		total += n
	}
	cnt, err := it.Count(bg)
	if err != nil {
		c.Violation("c01/"+kind+"/Count", err.Error(), nil)
		return
	}
	if int(cnt) != total {
		c.Violation("c01/"+kind+"/Count", fmt.Sprintf("Count()=%d but iteration produced %d chunks", cnt, total), nil)
	}
	c.Count("c01.quiescent_iterations", 1)
}

// Register wires the vstore checks.
func Register() {
	rig.Register(&rig.Spec{Prop: "C01", Level: "exploration", Stages: []rig.Stage{{Name: "reads", Fn: c01}}})
	rig.Register(&rig.Spec{Prop: "C41", Level: "exploration", Stages: []rig.Stage{{Name: "openmodes", Fn: c41}}})
	rig.Register(&rig.Spec{Prop: "C05", Level: "fault_enumeration", Stages: []rig.Stage{{Name: "crash", Fn: c05Crash}, {Name: "race", Fn: c05Race}}})
	rig.Register(&rig.Spec{Prop: "C04", Level: "fault_enumeration", Stages: []rig.Stage{{Name: "indexvariants", Fn: c04}}})
	rig.Register(&rig.Spec{Prop: "C03", Level: "fault_enumeration", Stages: []rig.Stage{{Name: "crashimages", Fn: c03}}})
}
