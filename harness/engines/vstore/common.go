// Package vstore holds the chunk-store level monitors (C01, C02, C03, C04, C05, C07, C10, C41, C42).
package vstore

import (
	"bytes"
	"context"
	"encoding/binary"
	"fmt"
	"math/rand"
	"os"
	"path/filepath"
	"sort"

	"github.com/dolthub/dolt/go/store/chunks"
	"github.com/dolthub/dolt/go/store/constants"
	"github.com/dolthub/dolt/go/store/hash"
	"github.com/dolthub/dolt/go/store/nbs"
)

var bg = context.Background()

// ---- self-describing chunks (DESIGN §3.2) -------------------------------------------------------
// payload = "VR" | n(uint16) | n*20 address bytes | body. The getAddrs curry handed to Put decodes exactly
// this, so the monitor can compute reachability closures independently of Dolt's own walkers.

func encodeChunkData(refs []hash.Hash, body []byte) []byte {
	b := make([]byte, 0, 4+20*len(refs)+len(body))
	b = append(b, 'V', 'R')
	b = binary.BigEndian.AppendUint16(b, uint16(len(refs)))
	for _, r := range refs {
		b = append(b, r[:]...)
	}
	return append(b, body...)
}

func decodeRefs(data []byte) []hash.Hash {
	if len(data) < 4 || data[0] != 'V' || data[1] != 'R' {
		return nil
	}
	n := int(binary.BigEndian.Uint16(data[2:4]))
	if len(data) < 4+20*n {
		return nil
	}
	out := make([]hash.Hash, n)
	for i := 0; i < n; i++ {
		copy(out[i][:], data[4+20*i:])
	}
	return out
}

func getAddrsCurry(c chunks.Chunk) chunks.InsertAddrsCb {
	return func(ctx context.Context, addrs hash.HashSet, _ chunks.PendingRefExists) error {
		for _, r := range decodeRefs(c.Data()) {
			addrs.Insert(r)
		}
		return nil
	}
}

func getAddrs(c chunks.Chunk, cb func(hash.Hash) error) error {
	for _, r := range decodeRefs(c.Data()) {
		if err := cb(r); err != nil {
			return err
		}
	}
	return nil
}

// body generators: empty, tiny, compressible, incompressible
func genBody(r *rand.Rand, maxLen int) []byte {
	switch r.Intn(6) {
	case 0:
		return nil
	case 1:
		return []byte{byte(r.Intn(256))}
	case 2:
		n := 1 + r.Intn(maxLen)
		return bytes.Repeat([]byte{byte('a' + r.Intn(3))}, n)
	default:
		n := 1 + r.Intn(maxLen)
		if r.Intn(4) == 0 {
			n = 1 + r.Intn(64)
		}
		b := make([]byte, n)
		r.Read(b)
		return b
	}
}

// ---- chunk model (DESIGN §3.1) ------------------------------------------------------------------

type model struct {
	data   map[hash.Hash][]byte
	forged map[hash.Hash]bool
	order  []hash.Hash
}

func newModel() *model { return &model{data: map[hash.Hash][]byte{}, forged: map[hash.Hash]bool{}} }

func (m *model) add(c chunks.Chunk, forged bool) {
	h := c.Hash()
	if _, ok := m.data[h]; !ok {
		m.order = append(m.order, h)
	}
	m.data[h] = append([]byte(nil), c.Data()...)
	m.forged[h] = forged
}

func (m *model) pick(r *rand.Rand) (hash.Hash, bool) {
	if len(m.order) == 0 {
		return hash.Hash{}, false
	}
	return m.order[r.Intn(len(m.order))], true
}

// closure computes the set reachable from root through the self-describing encoding.
func (m *model) closure(root hash.Hash) (hash.HashSet, []hash.Hash) {
	seen := hash.NewHashSet()
	var missing []hash.Hash
	stack := []hash.Hash{root}
	for len(stack) > 0 {
		h := stack[len(stack)-1]
		stack = stack[:len(stack)-1]
		if seen.Has(h) {
			continue
		}
		seen.Insert(h)
		d, ok := m.data[h]
		if !ok {
			missing = append(missing, h)
			continue
		}
		stack = append(stack, decodeRefs(d)...)
	}
	return seen, missing
}

// ---- address forging ----------------------------------------------------------------------------

// neighbours returns addresses adjacent to h in every sense the index structures care about: same
// 8-byte prefix / different suffix, prefix +-1, last byte +-1.
func neighbours(h hash.Hash) []hash.Hash {
	var out []hash.Hash
	a := h
	a[19] ^= 1
	out = append(out, a)
	b := h
	b[8] ^= 0x80
	out = append(out, b)
	c := h
	c[12]++
	out = append(out, c)
	p := binary.BigEndian.Uint64(h[:8])
	d := h
	binary.BigEndian.PutUint64(d[:8], p+1)
	out = append(out, d)
	e := h
	binary.BigEndian.PutUint64(e[:8], p-1)
	out = append(out, e)
	return out
}

// forgeFamily returns n distinct addresses sharing one 8-byte prefix.
func forgeFamily(r *rand.Rand, n int) []hash.Hash {
	var base hash.Hash
	r.Read(base[:])
	switch r.Intn(6) {
	case 0:
		for i := 0; i < 8; i++ {
			base[i] = 0
		}
	case 1:
		for i := 0; i < 8; i++ {
			base[i] = 0xff
		}
	}
	out := make([]hash.Hash, 0, n)
	seen := map[hash.Hash]bool{}
	for len(out) < n {
		h := base
		switch r.Intn(3) {
		case 0:
			h[19] = byte(len(out))
		case 1:
			h[8] = byte(r.Intn(256))
		default:
			r.Read(h[8:])
		}
		if !seen[h] {
			seen[h] = true
			out = append(out, h)
		}
	}
	return out
}

// ---- stores -------------------------------------------------------------------------------------

type storeKind string

const (
	kindMemory  storeKind = "memory"
	kindLocal   storeKind = "local"
	kindJournal storeKind = "journal"
	kindGen     storeKind = "generational"
)

type compressedGetter interface {
	GetManyCompressed(ctx context.Context, hashes hash.HashSet, found func(context.Context, nbs.ToChunker)) error
}

type iterAll interface {
	IterateAllChunks(ctx context.Context, cb func(chunk chunks.Chunk)) error
	Count(ctx context.Context) (uint32, error)
}

func quota() nbs.MemoryQuotaProvider { return nbs.NewUnlimitedMemQuotaProvider() }

func openLocal(dir string, memTable uint64) (*nbs.NomsBlockStore, error) {
	return nbs.NewLocalStore(bg, constants.FormatDoltString, dir, memTable, quota(), false)
}

func openJournal(dir string) (*nbs.NomsBlockStore, error) {
	return nbs.NewLocalJournalingStore(bg, constants.FormatDoltString, dir, quota(), false, func(error) {})
}

// sortedHashes gives deterministic iteration order.
func sortedHashes(s hash.HashSet) []hash.Hash {
	out := make([]hash.Hash, 0, len(s))
	for h := range s {
		out = append(out, h)
	}
	sort.Slice(out, func(i, j int) bool { return bytes.Compare(out[i][:], out[j][:]) < 0 })
	return out
}

func short(h hash.Hash) string { return h.String()[:10] }

func dirListing(dir string) []string {
	var out []string
	filepath.Walk(dir, func(p string, info os.FileInfo, err error) error {
		if err == nil && !info.IsDir() {
			rel, _ := filepath.Rel(dir, p)
			out = append(out, fmt.Sprintf("%s:%d", rel, info.Size()))
		}
		return nil
	})
	return out
}
