// Package vstore holds the chunk-store level monitors (C01, C03, C04, C05, C41).
package vstore

import "context"

var bg = context.Background()

type storeKind string

const (
	kindMemory  storeKind = "memory"
	kindLocal   storeKind = "local"
	kindJournal storeKind = "journal"
	kindGen     storeKind = "generational"
)
