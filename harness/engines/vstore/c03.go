package vstore

import (
	"bufio"
	"bytes"
	"crypto/sha256"
	"encoding/binary"
	"encoding/hex"
	"encoding/json"
	"errors"
	"fmt"
	"math/rand"
	"os"
	"os/exec"
	"path/filepath"
	"sort"
	"strings"
	"sync"

	"github.com/dolthub/dolt/go/store/hash"
	"github.com/dolthub/dolt/go/store/nbs"

	"verif/oracle"
	"verif/rig"
	"verif/vtrace"
)

// C03 — crash at any point recovers the last acknowledged state (DESIGN C03, Appendix A.4).
//
// A writer process runs a PRNG history against a journaling store under strace. From the recorded syscalls the
// monitor synthesises, for EVERY event boundary, the directory images a crash at that instant could leave
// (process crash: everything written survives; power loss: only fsynced data surely survives, later writes may be
// absent / torn / replaced by zeros or garbage; a rename survives only once the directory was fsynced), and the REAL
// recovery code reopens each image in a fresh child process. Oracle: open succeeds, Root is the last acknowledged
// root or an in-flight one, its closure is readable with content hash == address, a second open is a fixpoint.

const journalName = "vvvvvvvvvvvvvvvvvvvvvvvvvvvvvvvv"

type jwrite struct {
	off, n int64
	synced bool
}

type manifestVer struct {
	content   []byte
	tmpSynced bool
	dirSynced bool
}

// fsState is the logical state of the database directory after a prefix of the trace.
type fsState struct {
	journalCreated   bool
	journalDirSynced bool
	jw               []jwrite
	idxLen           int64
	versions         []manifestVer
	tmp              map[string]*manifestVer // temp manifests by path
	lastAck          string
	acks             int
	inflight         map[string]bool
	begun            int
	lastStorage      string         // name of the last storage event (phase descriptor)
	allRoots         map[string]int // every root ever begun -> ordinal
	initial          string         // token announced by the OPEN marker
	pfx              string
}

func newFsState() *fsState {
	return &fsState{tmp: map[string]*manifestVer{}, inflight: map[string]bool{}, allRoots: map[string]int{}}
}

func (s *fsState) apply(dir, marker string, e vtrace.Event, viol func(key, what string)) {
	base := filepath.Base(e.Path)
	inDir := filepath.Dir(e.Path) == dir
	switch {
	case e.Path == marker && e.Call == "write":
		f := strings.Fields(string(e.Data))
		if len(f) < 3 {
			return
		}
		switch f[0] {
		case "OPEN":
			s.initial = f[2]
		case "BEGIN":
			s.inflight[f[2]] = true
			s.begun++
			s.allRoots[f[2]] = s.begun
			s.lastStorage = "marker:BEGIN"
		case "ACK":
			// trace rule R1: the journal must have been fsynced after its last write
			if n := len(s.jw); n > 0 && !s.jw[n-1].synced {
				viol(s.pfx+"/trace/ack-before-journal-fsync", "commit acknowledged while the last journal write was not yet followed by fsync")
			}
			if len(s.jw) == 0 {
				viol(s.pfx+"/trace/ack-without-journal-write", "commit acknowledged without any journal write")
			}
			delete(s.inflight, f[2])
			s.lastAck = f[2]
			s.acks++
			s.lastStorage = "marker:ACK"
		case "NACK":
			s.lastStorage = "marker:NACK"
		}
	case e.Path == dir && e.Call == "fsync":
		if s.journalCreated {
			s.journalDirSynced = true
		}
		for i := range s.versions {
			s.versions[i].dirSynced = true
		}
		s.lastStorage = "fsync:dir"
	case !inDir:
	case base == journalName:
		switch e.Call {
		case "openat":
			if strings.Contains(e.Flags, "O_CREAT") && e.Ret >= 0 && !s.journalCreated {
				s.journalCreated = true
				s.lastStorage = "create:journal"
			}
		case "pwrite64":
			end := int64(0)
			if n := len(s.jw); n > 0 {
				end = s.jw[n-1].off + s.jw[n-1].n
			}
			if e.Off != end {
				viol(s.pfx+"/trace/journal-not-append-only", fmt.Sprintf("journal write at offset %d, expected %d", e.Off, end))
			}
			s.jw = append(s.jw, jwrite{off: e.Off, n: e.Len})
			s.lastStorage = "pwrite:journal"
		case "fsync":
			for i := range s.jw {
				s.jw[i].synced = true
			}
			s.lastStorage = "fsync:journal"
		case "ftruncate":
			if e.Off == 0 {
				s.jw = nil
			}
		}
	case base == "journal.idx":
		if e.Call == "write" {
			s.idxLen += e.Len
		}
	case strings.HasPrefix(base, "nbs_manifest_"):
		switch e.Call {
		case "write":
			v := s.tmp[e.Path]
			if v == nil {
				v = &manifestVer{}
				s.tmp[e.Path] = v
			}
			v.content = append(v.content, e.Data...)
			if int64(len(e.Data)) != e.Len {
				viol(s.pfx+"/infra/manifest-capture-truncated", "strace -s too small for manifest")
			}
			v.tmpSynced = false
		case "fsync":
			if v := s.tmp[e.Path]; v != nil {
				v.tmpSynced = true
			}
		case "rename":
			if filepath.Base(e.Path2) == "manifest" {
				v := s.tmp[e.Path]
				if v == nil {
					v = &manifestVer{}
				}
				if !v.tmpSynced {
					viol(s.pfx+"/trace/manifest-rename-before-temp-fsync", "manifest temp file renamed into place before it was fsynced")
				}
				s.versions = append(s.versions, *v)
				delete(s.tmp, e.Path)
				s.lastStorage = "rename:manifest"
			}
		}
	}
}

// image is one synthesised crash image.
type image struct {
	ID        string
	Variant   string // process-crash | durable-only | torn | hole | garbage
	Journal   []byte // nil = no journal file
	Manifest  []byte // nil = no manifest
	Idx       []byte // nil = no index
	Allowed   []string
	MayReport bool   // ErrJournalDataLoss is an acceptable outcome (unsynced damage followed by valid records)
	Phase     string // last storage event before the crash point
	Commit    string // first-commit | later-commit
	Point     int
}

func (im *image) digest() string {
	h := sha256.New()
	h.Write([]byte(im.Variant))
	h.Write([]byte{0})
	if im.Journal == nil {
		h.Write([]byte("nojournal"))
	}
	h.Write(im.Journal)
	h.Write([]byte{1})
	h.Write(im.Manifest)
	h.Write([]byte{2})
	h.Write(im.Idx)
	h.Write([]byte(strings.Join(im.Allowed, ",")))
	return hex.EncodeToString(h.Sum(nil)[:12])
}

// imagesAt synthesises the crash images for the state after a trace prefix.
func imagesAt(s *fsState, finalJournal, finalIdx []byte, r *rand.Rand, point int, lean bool) []*image {
	allowed := []string{}
	if s.lastAck != "" {
		allowed = append(allowed, s.lastAck)
	} else if s.initial != "" {
		allowed = append(allowed, s.initial)
	} else {
		allowed = append(allowed, hash.Hash{}.String())
	}
	for h := range s.inflight {
		allowed = append(allowed, h)
	}
	sort.Strings(allowed)
	commit := "later-commit"
	if s.acks == 0 {
		commit = "first-commit"
	}
	mk := func(variant string, j, m, idx []byte, may bool) *image {
		return &image{Variant: variant, Journal: j, Manifest: m, Idx: idx, Allowed: allowed, MayReport: may, Phase: s.lastStorage, Commit: commit, Point: point}
	}
	slice := func(n int64) []byte {
		if n > int64(len(finalJournal)) {
			n = int64(len(finalJournal))
		}
		return append([]byte{}, finalJournal[:n]...)
	}
	var written, durable int64
	var unsynced []jwrite
	for _, w := range s.jw {
		written = w.off + w.n
		if w.synced {
			durable = w.off + w.n
		} else {
			unsynced = append(unsynced, w)
		}
	}
	var curM, prevM []byte
	haveUnsyncedRename := false
	if n := len(s.versions); n > 0 {
		curM = s.versions[n-1].content
		if !s.versions[n-1].dirSynced {
			haveUnsyncedRename = true
			for i := n - 2; i >= 0; i-- {
				if s.versions[i].dirSynced {
					prevM = s.versions[i].content
					break
				}
			}
		}
	}
	var idx []byte
	if s.idxLen > 0 && s.idxLen <= int64(len(finalIdx)) {
		idx = finalIdx[:s.idxLen]
	}
	var out []*image
	var jAll []byte
	if s.journalCreated {
		jAll = slice(written)
	}
	// process crash: page cache survives, every completed syscall is visible
	out = append(out, mk("process-crash", jAll, curM, idx, false))
	// power loss variants
	manifests := [][]byte{curM}
	if haveUnsyncedRename {
		manifests = append(manifests, prevM)
	}
	for mi, m := range manifests {
		var jDur []byte
		journalMayBeMissing := s.journalCreated && !s.journalDirSynced
		if s.journalCreated {
			jDur = slice(durable)
		}
		out = append(out, mk("durable-only", jDur, m, nil, false))
		if journalMayBeMissing {
			out = append(out, mk("durable-only", nil, m, nil, false))
		}
		if len(unsynced) == 0 || !s.journalCreated || lean {
			continue
		}
		if mi > 0 && r.Intn(2) == 0 {
			continue // sample the cross product with the older manifest
		}
		// all unsynced writes made it
		out = append(out, mk("torn", slice(written), m, nil, false))
		// torn prefixes of the unsynced region: inside each unsynced write at {1, n/2, n-1, 512-aligned}
		for _, w := range unsynced {
			cuts := []int64{1, w.n / 2, w.n - 1}
			if w.n > 1024 {
				cuts = append(cuts, 512*(1+r.Int63n(w.n/512)))
			}
			for _, c := range cuts {
				if c <= 0 || c >= w.n {
					continue
				}
				out = append(out, mk("torn", slice(w.off+c), m, nil, false))
			}
		}
		// hole: an earlier unsynced region lost (zeros), later data present
		if written-durable > 64 {
			j := slice(written)
			holeEnd := durable + 1 + r.Int63n(written-durable-1)
			for i := durable; i < holeEnd; i++ {
				j[i] = 0
			}
			out = append(out, mk("hole", j, m, nil, true))
			j2 := slice(written)
			r.Read(j2[durable:holeEnd])
			out = append(out, mk("garbage", j2, m, nil, true))
		}
	}
	return out
}

// reopenResult is what the c03-reopen child reports for one image directory.
type reopenResult struct {
	Dir        string `json:"dir"`
	Err        string `json:"err,omitempty"`
	DataLoss   bool   `json:"dataloss,omitempty"`
	Panic      string `json:"panic,omitempty"`
	Root       string `json:"root"`
	Chunks     int    `json:"chunks"`
	Missing    string `json:"missing,omitempty"`
	BadHash    string `json:"badhash,omitempty"`
	Root2      string `json:"root2"`
	Err2       string `json:"err2,omitempty"`
	Missing2   string `json:"missing2,omitempty"`
	JournalLen int64  `json:"jlen"`
	JournalLn2 int64  `json:"jlen2"`
}

func walkClosure(st *nbs.NomsBlockStore, root hash.Hash) (n int, missing, bad string) {
	if root.IsEmpty() {
		return 0, "", ""
	}
	seen := hash.NewHashSet()
	stack := []hash.Hash{root}
	for len(stack) > 0 {
		h := stack[len(stack)-1]
		stack = stack[:len(stack)-1]
		if seen.Has(h) {
			continue
		}
		seen.Insert(h)
		ch, err := st.Get(bg, h)
		if err != nil {
			return n, h.String() + ": " + err.Error(), ""
		}
		if ch.IsEmpty() {
			return n, h.String(), ""
		}
		if hash.Of(ch.Data()) != h {
			return n, "", h.String()
		}
		n++
		stack = append(stack, oracle.DecodeRefs(ch.Data())...)
	}
	return n, "", ""
}

func reopenOnce(dir string) (root string, n int, missing, bad, errs string, dataloss bool, pan string) {
	defer func() {
		if r := recover(); r != nil {
			pan = fmt.Sprint(r)
		}
	}()
	st, err := oracle.OpenJournal(dir)
	if err != nil {
		return "", 0, "", "", err.Error(), errors.Is(err, nbs.ErrJournalDataLoss), ""
	}
	defer st.Close()
	rt, err := st.Root(bg)
	if err != nil {
		return "", 0, "", "", err.Error(), errors.Is(err, nbs.ErrJournalDataLoss), ""
	}
	n, missing, bad = walkClosure(st, rt)
	return rt.String(), n, missing, bad, "", false, ""
}

func fileLen(p string) int64 {
	fi, err := os.Stat(p)
	if err != nil {
		return -1
	}
	return fi.Size()
}

// c03-reopen <listfile>: reopen every image directory listed with the real recovery code; one JSON line each.
func c03Reopen(args []string) int {
	f, err := os.Open(args[0])
	if err != nil {
		return 3
	}
	defer f.Close()
	sc := bufio.NewScanner(f)
	w := bufio.NewWriter(os.Stdout)
	defer w.Flush()
	for sc.Scan() {
		dir := sc.Text()
		fmt.Fprintln(os.Stderr, "OPENING", dir)
		var res reopenResult
		res.Dir = dir
		var bad string
		res.Root, res.Chunks, res.Missing, bad, res.Err, res.DataLoss, res.Panic = reopenOnce(dir)
		res.BadHash = bad
		res.JournalLen = fileLen(filepath.Join(dir, journalName))
		if res.Err == "" && res.Panic == "" {
			var p2 string
			res.Root2, _, res.Missing2, _, res.Err2, _, p2 = reopenOnce(dir)
			if p2 != "" {
				res.Err2 = "panic: " + p2
			}
			res.JournalLn2 = fileLen(filepath.Join(dir, journalName))
		}
		b, _ := json.Marshal(res)
		w.Write(b)
		w.WriteByte('\n')
		w.Flush()
	}
	return 0
}

func init() {
	rig.SubCommands["c03-reopen"] = c03Reopen
}

func writeImage(dir string, im *image) {
	rig.Must(os.MkdirAll(dir, 0o755))
	if im.Journal != nil {
		rig.Must(os.WriteFile(filepath.Join(dir, journalName), im.Journal, 0o644))
	}
	if im.Manifest != nil {
		rig.Must(os.WriteFile(filepath.Join(dir, "manifest"), im.Manifest, 0o644))
	}
	if im.Idx != nil {
		rig.Must(os.WriteFile(filepath.Join(dir, "journal.idx"), im.Idx, 0o644))
	}
}

// reopenCmd is the sub-command runReopenBatch spawns (set by crashEnumerate; one enumerator per worker process).
var reopenCmd = "c03-reopen"

// runReopenBatch materialises the images, reopens them in parallel child processes and returns results by image.
func runReopenBatch(c *rig.Ctx, images []*image, label string) map[*image]*reopenResult {
	base := c.TempDir("img")
	defer os.RemoveAll(base)
	const procs = 12
	lists := make([][]string, procs)
	byDir := map[string]*image{}
	for i, im := range images {
		d := filepath.Join(base, fmt.Sprintf("i%d", i))
		writeImage(d, im)
		byDir[d] = im
		lists[i%procs] = append(lists[i%procs], d)
	}
	out := map[*image]*reopenResult{}
	var mu sync.Mutex
	var wg sync.WaitGroup
	for p := 0; p < procs; p++ {
		if len(lists[p]) == 0 {
			continue
		}
		wg.Add(1)
		go func(p int) {
			defer wg.Done()
			lf := filepath.Join(base, fmt.Sprintf("list%d", p))
			rig.Must(os.WriteFile(lf, []byte(strings.Join(lists[p], "\n")+"\n"), 0o644))
			cmd := exec.Command(rig.Self(), reopenCmd, lf)
			var stderr bytes.Buffer
			cmd.Stderr = &stderr
			stdout, err := cmd.Output()
			sc := bufio.NewScanner(bytes.NewReader(stdout))
			sc.Buffer(make([]byte, 1<<20), 1<<24)
			seen := map[string]bool{}
			mu.Lock()
			defer mu.Unlock()
			for sc.Scan() {
				var r reopenResult
				if json.Unmarshal(sc.Bytes(), &r) == nil {
					out[byDir[r.Dir]] = &r
					seen[r.Dir] = true
				}
			}
			if err != nil {
				// the child died: attribute to the last OPENING line
				lines := strings.Split(strings.TrimSpace(stderr.String()), "\n")
				last := ""
				for _, l := range lines {
					if strings.HasPrefix(l, "OPENING ") {
						last = strings.TrimPrefix(l, "OPENING ")
					}
				}
				if im := byDir[last]; im != nil && !seen[last] {
					tail := stderr.String()
					if len(tail) > 1500 {
						tail = tail[len(tail)-1500:]
					}
					out[im] = &reopenResult{Dir: last, Panic: "recovery process died: " + err.Error() + "\n" + tail}
				}
			}
		}(p)
	}
	wg.Wait()
	return out
}

// bigPhase reports whether the journal already holds more than 48 MB (the large uncommitted write of the "huge" shape).
func bigPhase(s *fsState) bool {
	if n := len(s.jw); n > 0 {
		return s.jw[n-1].off+s.jw[n-1].n > 48<<20
	}
	return false
}

type recInfo struct {
	off, n int64
	root   bool
}

// journalRecords walks the length-prefixed records of a journal image.
func journalRecords(j []byte) []recInfo {
	var out []recInfo
	off := int64(0)
	for off+4 <= int64(len(j)) {
		l := int64(binary.BigEndian.Uint32(j[off:]))
		if l < 10 || off+l > int64(len(j)) {
			break
		}
		out = append(out, recInfo{off: off, n: l, root: j[off+5] == 1})
		off += l
	}
	return out
}

// crashCfg parametrises the crash-image enumerator: C03 drives raw chunk-store histories, C21 drives
// datas.Database histories whose "root" token is the (branch head, working set) pair.
type crashCfg struct {
	prefix    string // key / counter prefix: c03 | c21
	writer    string // writer sub-command
	reopen    string // reopen sub-command
	dataLoss  bool   // run the synced-damage (data-loss clause) sub-stage
	hugeShape bool   // include the 70 MB "huge" shape
	quick     int
	thorough  int
	what      string // what the recovered token is, for messages
	empty     string // token of the empty store (before anything was committed); "" = the zero hash
}

func c03(c *rig.Ctx) {
	crashEnumerate(c, crashCfg{prefix: "c03", writer: "c03-writer", reopen: "c03-reopen", dataLoss: true, hugeShape: true, quick: 12, thorough: 300, what: "root"})
}

func crashEnumerate(c *rig.Ctx, cfg crashCfg) {
	reopenCmd = cfg.reopen
	pfx := cfg.prefix
	c.Rule("each history = a PRNG sequence of puts/commits/refused commits by a traced writer process on a fresh journaling " +
		"store; every event boundary of its syscall trace is a crash point; per crash point the images {process-crash, " +
		"durable-only (x old/new manifest when the rename is not yet dir-synced, x journal file missing when its creation is not " +
		"yet dir-synced), all-unsynced-present, torn at {1,n/2,n-1,512k} inside every unsynced write, zero hole, garbage} are " +
		"reopened by the real recovery code in child processes; images are de-duplicated by content+expectation; an image is " +
		"distinct by content hash and non-trivial when the store contains at least one journal write")
	c.Assume("power-loss model at syscall granularity: fsynced data survives; un-fsynced writes may be absent, torn at byte granularity, zeroed or garbage; a rename/creat survives once the directory was fsynced; no sector reordering inside one write")
	c.Assume("strace (ptrace) totally orders the completed syscalls of the writer, including its BEGIN/ACK marker writes")
	nh := c.Pick(cfg.quick, cfg.thorough)
	shapes := []string{"small", "small", "small", "big"}
	var allImages, unsyncedPoints, tornRoot, inflightPts, dataLossReported, hugeRuns int
	for h := 0; h < nh; h++ {
		r := c.SubRand(pfx, h)
		shape := shapes[r.Intn(len(shapes))]
		if c.Thorough() && h%40 == 7 {
			shape = "many"
		}
		if cfg.hugeShape && (h == nh-1 || c.Thorough() && h%25 == 3) {
			shape = "huge"
		}
		steps := 6 + r.Intn(14)
		if shape == "big" {
			steps = 5 + r.Intn(6)
		}
		seed := r.Int63()
		work := c.TempDir(pfx + "h")
		dbdir := filepath.Join(work, "db")
		rig.Must(os.MkdirAll(dbdir, 0o755))
		marker := filepath.Join(work, "markers")
		tlog := filepath.Join(work, "trace.log")
		c.Case(fmt.Sprintf(pfx+"/history/%d", h), map[string]any{"writer_seed": seed, "steps": steps, "shape": shape})
		args := append(vtrace.StraceArgs(tlog, 4096), rig.Self(), cfg.writer, dbdir, fmt.Sprint(seed), marker, fmt.Sprint(steps), shape)
		cmd := exec.Command("strace", args...)
		outb, err := cmd.CombinedOutput()
		if err != nil {
			c.Violation(pfx+"/writer-failed", fmt.Sprintf("the traced writer failed on a healthy store: %v: %s", err, tail(outb, 600)), nil)
			os.RemoveAll(work)
			continue
		}
		evs, err := vtrace.Parse(tlog)
		rig.Must(err)
		finalJournal, _ := os.ReadFile(filepath.Join(dbdir, journalName))
		finalIdx, _ := os.ReadFile(filepath.Join(dbdir, "journal.idx"))
		st := newFsState()
		st.pfx = pfx
		st.initial = cfg.empty
		seen := map[string]bool{}
		var images []*image
		traceViol := map[string]string{}
		points := 0
		for i, e := range evs {
			relevant := e.Path == marker || e.Path == dbdir || filepath.Dir(e.Path) == dbdir
			if !relevant {
				continue
			}
			st.apply(dbdir, marker, e, func(k, w string) { traceViol[k] = fmt.Sprintf("%s (trace event #%d %s)", w, e.Seq, e.Call) })
			if e.Call == "openat" && !strings.Contains(e.Flags, "O_CREAT") {
				continue // opens for reading do not change the image
			}
			points++
			hasUnsynced := false
			for _, w := range st.jw {
				if !w.synced {
					hasUnsynced = true
				}
			}
			if hasUnsynced {
				unsyncedPoints++
			}
			if len(st.inflight) > 0 {
				inflightPts++
			}
			if shape == "huge" && (!bigPhase(st) || e.Call == "pwrite64" && r.Intn(3) != 0) {
				continue // 70 MB images: only crash points in or after the large uncommitted write, sampled
			}
			for _, im := range imagesAt(st, finalJournal, finalIdx, r, i, shape == "huge") {
				d := im.digest()
				if seen[d] {
					continue
				}
				seen[d] = true
				im.ID = fmt.Sprintf("h%d/p%d/%s/%s", h, i, im.Variant, d[:8])
				images = append(images, im)
				if len(st.jw) > 0 {
					c.Distinct(d)
				}
			}
		}
		for k, w := range traceViol {
			c.Violation(k, w, map[string]any{"history": h, "writer_seed": seed})
		}
		// data-loss clause: damage inside record i of the fully synced final journal
		recs := journalRecords(finalJournal)
		var dlImages []*image
		var dlMust []bool
		finalManifest, _ := os.ReadFile(filepath.Join(dbdir, "manifest"))
		for k := 0; k < 6 && len(recs) > 2 && shape != "huge" && cfg.dataLoss; k++ {
			i := r.Intn(len(recs))
			j := append([]byte{}, finalJournal...)
			rec := recs[i]
			switch r.Intn(3) {
			case 0:
				j[rec.off+rec.n-1] ^= 0x5a // checksum
			case 1:
				for x := rec.off; x < rec.off+rec.n; x++ {
					j[x] = 0
				}
			default:
				j[rec.off+4+r.Int63n(rec.n-4)] ^= 0x01
			}
			must := false
			for a := i + 1; a < len(recs); a++ {
				if recs[a].root && a+1 < len(recs) {
					must = true
				}
			}
			im := &image{Variant: "synced-damage", Journal: j, Manifest: finalManifest, Phase: "final", Commit: "later-commit", MayReport: true}
			im.ID = fmt.Sprintf("h%d/damage/rec%d", h, i)
			dlImages = append(dlImages, im)
			dlMust = append(dlMust, must)
		}
		if shape == "huge" {
			hugeRuns++
		}
		res := runReopenBatch(c, append(images, dlImages...), fmt.Sprint(h))
		allImages += len(images) + len(dlImages)
		c.Count(pfx+".crash_points", points)
		for _, im := range images {
			rr := res[im]
			if rr == nil {
				c.Inconclusive("no reopen result for image " + im.ID)
				continue
			}
			class := fmt.Sprintf("%s/%s/after-%s", im.Variant, im.Commit, im.Phase)
			wit := map[string]any{"image": im.ID, "history": h, "writer_seed": seed, "steps": steps, "shape": shape, "allowed_roots": im.Allowed, "result": rr,
				"journal_len": len(im.Journal), "manifest": string(im.Manifest)}
			switch {
			case rr.Panic != "":
				c.Violation(pfx+"/recovery-crashed/"+class, "recovery panicked / died: "+firstLine(rr.Panic), wit)
			case rr.Err != "":
				if rr.DataLoss && im.MayReport {
					dataLossReported++
					continue
				}
				c.Violation(pfx+"/reopen-error/"+class, "reopening a crash image failed: "+firstLine(rr.Err), wit)
			default:
				if !contains(im.Allowed, rr.Root) {
					kind := "unknown-root"
					if _, ok := st.allRoots[rr.Root]; ok || rr.Root == (hash.Hash{}).String() || rr.Root == st.initial {
						kind = "lost-acknowledged-commit"
					}
					c.Violation(pfx+"/root-not-allowed/"+kind+"/"+class, fmt.Sprintf("recovered %s %s is neither the last acknowledged state nor an in-flight one", cfg.what, rr.Root), wit)
				} else if rr.Missing != "" {
					c.Violation(pfx+"/closure-unreadable/"+class, "recovered root references a chunk that cannot be read: "+rr.Missing, wit)
				} else if rr.BadHash != "" {
					c.Violation(pfx+"/content-hash-mismatch/"+class, "recovered chunk content does not hash to its address: "+rr.BadHash, wit)
				} else if rr.Err2 != "" || rr.Root2 != rr.Root || rr.Missing2 != "" || rr.JournalLn2 < rr.JournalLen {
					c.Violation(pfx+"/recovery-not-fixpoint/"+class, fmt.Sprintf("second open of the recovered directory differs (root %s -> %s, err=%s, journal %d -> %d bytes: it must not shrink again)", rr.Root, rr.Root2, rr.Err2, rr.JournalLen, rr.JournalLn2), wit)
				}
				if rr.Root != im.Allowed[0] || len(im.Allowed) > 1 {
					tornRoot++
				}
			}
		}
		for k, im := range dlImages {
			rr := res[im]
			if rr == nil {
				continue
			}
			wit := map[string]any{"image": im.ID, "history": h, "writer_seed": seed, "result": rr, "must_report": dlMust[k]}
			switch {
			case rr.Panic != "":
				c.Violation(pfx+"/recovery-crashed/synced-damage", firstLine(rr.Panic), wit)
			case rr.DataLoss:
				dataLossReported++
				c.Count(pfx+".dataloss_reported_for_synced_damage", 1)
			case dlMust[k]:
				c.Violation(pfx+"/dataloss-not-reported", "damage inside a synced journal followed by a valid root record and a further valid record was silently accepted/truncated", wit)
			}
			// (No closure assertion here: a fully synced journal damaged after a clean shutdown is bit rot, not a crash
			// image — the manifest may legitimately name a root whose records were destroyed. That is C10's subject.
			// The crash-consistent form of "damage before valid records" is covered by the hole/garbage variants above.)
		}
		if h < 3 {
			c.Sample(map[string]any{"history": h, "shape": shape, "steps": steps, "crash_points": points, "images": len(images), "acks": st.acks})
		}
		os.RemoveAll(work)
		if c.Violations() > 40 {
			break
		}
	}
	c.Count(pfx+".images_reopened", allImages)
	c.Count(pfx+".crash_points_with_unsynced_journal_writes", unsyncedPoints)
	c.Count(pfx+".crash_points_with_inflight_commit", inflightPts)
	c.Count(pfx+".images_recovering_inflight_or_contested_root", tornRoot)
	c.Count(pfx+".dataloss_reports_accepted", dataLossReported)
	c.Count(pfx+".huge_histories_with_index_flush_and_intermediate_sync", hugeRuns)
	c.Require(allImages > 0 && inflightPts > 0, "no crash point with an in-flight commit")
}

func contains(l []string, s string) bool {
	for _, x := range l {
		if x == s {
			return true
		}
	}
	return false
}

func firstLine(s string) string {
	if i := strings.IndexByte(s, '\n'); i >= 0 {
		s = s[:i]
	}
	if len(s) > 200 {
		s = s[:200]
	}
	return s
}

func tail(b []byte, n int) string {
	if len(b) > n {
		b = b[len(b)-n:]
	}
	return string(b)
}

// c03-debug <trace.log> <dbdir> <marker>: print the state machine's view of a trace (harness debugging aid).
func c03Debug(args []string) int {
	evs, err := vtrace.Parse(args[0])
	if err != nil {
		fmt.Println(err)
		return 1
	}
	st := newFsState()
	for _, e := range evs {
		if !(e.Path == args[2] || e.Path == args[1] || filepath.Dir(e.Path) == args[1]) {
			continue
		}
		st.apply(args[1], args[2], e, func(k, w string) { fmt.Println("   VIOL", k, w) })
		fmt.Printf("%s | jw=%v versions=%d acks=%d last=%s\n", e, st.jw, len(st.versions), st.acks, st.lastStorage)
	}
	return 0
}

func init() { rig.SubCommands["c03-debug"] = c03Debug }
