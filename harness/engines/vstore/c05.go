package vstore

import (
	"bytes"
	"encoding/json"
	"errors"
	"fmt"
	"io"
	"math/rand"
	"os"
	"os/exec"
	"path/filepath"
	"sort"
	"strconv"
	"strings"
	"sync"
	"time"

	"github.com/dolthub/dolt/go/store/chunks"
	"github.com/dolthub/dolt/go/store/hash"
	"github.com/dolthub/dolt/go/store/nbs"

	"verif/oracle"
	"verif/rig"
	"verif/vtrace"
)

// C05 — the manifest is replaced atomically and never names a missing table file (DESIGN C05, Appendix A.5).
//
// Inv(dir): `manifest` is absent, or it parses (v5) and every table spec it names exists as <name> or <name>.darc.
//
// Stage "crash": a traced single process mixes commits (each landing a table file), push-style table-file additions,
// conjoins and prunes on a file-manifest store; for every event boundary of its syscall trace the possible directory
// states after a crash are simulated and Inv is evaluated on each.
// Stage "race": writers, adders, a conjoiner and a grace pruner run as separate processes on one directory, stretched
// at the protocol steps by hooks, while an observer process evaluates Inv in a tight loop.

// parseManifestNames parses a v5 manifest and returns the table file names it references.
func parseManifestNames(b []byte) (root string, names []string, err error) {
	mi, err := nbs.ParseManifest(bytes.NewReader(b))
	if err != nil {
		return "", nil, err
	}
	f := strings.Split(string(b), ":")
	if len(f) < 5 || f[0] != "5" {
		return "", nil, fmt.Errorf("not a v5 manifest")
	}
	if (len(f)-5)%2 != 0 {
		return "", nil, fmt.Errorf("odd number of spec fields")
	}
	for i := 5; i+1 < len(f); i += 2 {
		if _, ok := hash.MaybeParse(f[i]); !ok {
			return "", nil, fmt.Errorf("bad table name %q", f[i])
		}
		if _, err := strconv.ParseUint(f[i+1], 10, 32); err != nil {
			return "", nil, fmt.Errorf("bad chunk count %q", f[i+1])
		}
		names = append(names, f[i])
	}
	if mi.NumTableSpecs()+mi.NumAppendixSpecs() != len(names) && mi.NumTableSpecs() != len(names) {
		return "", nil, fmt.Errorf("spec count mismatch between ParseManifest (%d) and field scan (%d)", mi.NumTableSpecs(), len(names))
	}
	return f[3], names, nil
}

// ---- actors -------------------------------------------------------------------------------------

type actorLog struct {
	f *os.File
}

func (l *actorLog) log(kind string, kv map[string]any) {
	if kv == nil {
		kv = map[string]any{}
	}
	kv["k"] = kind
	kv["t"] = rig.Mono()
	b, _ := json.Marshal(kv)
	l.f.Write(append(b, '\n'))
}

func putSome(r *rand.Rand, st chunks.ChunkStore, m *oracle.Model, n int, salt string) (hash.Hash, error) {
	var last hash.Hash
	for i := 0; i < n; i++ {
		var refs []hash.Hash
		if h, ok := m.Pick(r); ok && r.Intn(2) == 0 {
			refs = append(refs, h)
		}
		body := append(oracle.GenBody(r, 300), []byte(salt+strconv.Itoa(r.Int()))...)
		ch := chunks.NewChunk(oracle.EncodeChunkData(refs, body))
		if err := st.Put(bg, ch, oracle.GetAddrsCurry); err != nil {
			return last, err
		}
		m.Add(ch, false)
		last = ch.Hash()
	}
	return last, nil
}

// makeTableFile builds a table file in a scratch store and returns its id, chunk count and bytes.
func makeTableFile(r *rand.Rand, scratch string, salt string) (string, int, []byte, error) {
	os.RemoveAll(scratch)
	if err := os.MkdirAll(scratch, 0o755); err != nil {
		return "", 0, nil, err
	}
	st, err := oracle.OpenLocal(scratch, 1<<20)
	if err != nil {
		return "", 0, nil, err
	}
	defer st.Close()
	m := oracle.NewModel()
	last, err := putSome(r, st, m, 2+r.Intn(5), salt)
	if err != nil {
		return "", 0, nil, err
	}
	root, _ := st.Root(bg)
	if ok, err := st.Commit(bg, last, root); err != nil || !ok {
		return "", 0, nil, fmt.Errorf("scratch commit: %v %v", ok, err)
	}
	tfs, err := st.Sources(bg)
	if err != nil || len(tfs.TableFiles) == 0 {
		return "", 0, nil, fmt.Errorf("scratch sources: %v", err)
	}
	tf := tfs.TableFiles[0]
	rd, _, err := tf.Open(bg)
	if err != nil {
		return "", 0, nil, err
	}
	defer rd.Close()
	b, err := io.ReadAll(rd)
	return tf.FileID(), tf.NumChunks(), b, err
}

// c05-actor <dir> <role> <seed> <steps> <logfile>
// roles: writer | adder | conjoiner | pruner | mix (all of them sequentially, used under strace)
func c05Actor(args []string) int {
	dir, role := args[0], args[1]
	seed, _ := strconv.ParseInt(args[2], 10, 64)
	steps, _ := strconv.Atoi(args[3])
	lf, err := os.OpenFile(args[4], os.O_APPEND|os.O_CREATE|os.O_WRONLY, 0o644)
	if err != nil {
		return 3
	}
	lg := &actorLog{f: lf}
	r := rand.New(rand.NewSource(seed))
	st, err := oracle.OpenLocal(dir, 2<<10)
	if err != nil {
		lg.log("open-error", map[string]any{"err": err.Error()})
		return 1
	}
	defer st.Close()
	m := oracle.NewModel()
	salt := fmt.Sprintf("%s%d-", role, seed)
	scratch := filepath.Join(filepath.Dir(args[4]), fmt.Sprintf("scratch-%s-%d", role, seed))
	defer os.RemoveAll(scratch)
	for s := 0; s < steps; s++ {
		act := role
		if role == "mix" {
			act = []string{"writer", "writer", "writer", "adder", "conjoiner", "pruner-inproc"}[r.Intn(6)]
		}
		switch act {
		case "writer":
			if err := st.Rebase(bg); err != nil {
				lg.log("error", map[string]any{"op": "rebase", "err": err.Error()})
				continue
			}
			root, _ := st.Root(bg)
			last, err := putSome(r, st, m, 1+r.Intn(8), salt)
			if err != nil {
				lg.log("lost", map[string]any{"op": "put", "err": err.Error()})
				m = oracle.NewModel()
				continue
			}
			ok, err := st.Commit(bg, last, root)
			switch {
			case err != nil:
				lg.log("lost", map[string]any{"op": "commit", "err": err.Error()})
				m = oracle.NewModel() // chunks of the failed batch may be gone; do not reference them again
			case !ok:
				lg.log("lost", map[string]any{"op": "commit", "err": "optimistic lock"})
				m = oracle.NewModel()
			default:
				lg.log("commit", map[string]any{"root": last.String()})
			}
		case "adder":
			id, n, data, err := makeTableFile(r, scratch, salt)
			if err != nil {
				lg.log("error", map[string]any{"op": "maketable", "err": err.Error()})
				continue
			}
			wr, err := st.WriteTableFile(bg, id, 0, n, nil, func() (io.ReadCloser, uint64, error) {
				return io.NopCloser(bytes.NewReader(data)), uint64(len(data)), nil
			})
			if err != nil {
				lg.log("lost", map[string]any{"op": "writetablefile", "err": err.Error()})
				continue
			}
			err = st.AddTableFilesToManifest(bg, map[string]int{id: n}, oracle.GetAddrsCurry)
			if wr != nil {
				wr.Close()
			}
			if err != nil {
				lg.log("lost", map[string]any{"op": "addtablefiles", "err": err.Error(), "missing_spec_refused": errors.Is(err, nbs.ErrManifestSpecMissingTableFile) || strings.Contains(err.Error(), "missing")})
			} else {
				lg.log("added", map[string]any{"file": id})
			}
		case "conjoiner":
			if err := st.Rebase(bg); err != nil {
				continue
			}
			tfs, err := st.Sources(bg)
			if err != nil || len(tfs.TableFiles) < 2 {
				continue
			}
			var ids []hash.Hash
			for _, tf := range tfs.TableFiles {
				if h, ok := hash.MaybeParse(tf.FileID()); ok && (len(ids) < 2 || r.Intn(2) == 0) {
					ids = append(ids, h)
				}
			}
			if len(ids) < 2 {
				continue
			}
			if _, err := st.ConjoinTableFiles(bg, ids); err != nil {
				lg.log("lost", map[string]any{"op": "conjoin", "err": err.Error()})
			} else {
				lg.log("conjoined", map[string]any{"n": len(ids)})
			}
		case "pruner":
			ps, err := st.PruneUnreferencedWithGrace(bg, 40*time.Millisecond)
			if err != nil {
				lg.log("lost", map[string]any{"op": "prune", "err": err.Error()})
			} else {
				lg.log("pruned", map[string]any{"deleted": ps.FilesDeleted, "skipped": len(ps.Skipped)})
			}
			time.Sleep(time.Duration(5+r.Intn(30)) * time.Millisecond)
		case "pruner-inproc":
			if err := st.PruneTableFiles(bg); err != nil {
				lg.log("lost", map[string]any{"op": "prune-inproc", "err": err.Error()})
			} else {
				lg.log("pruned", map[string]any{"deleted": -1})
			}
		}
	}
	return 0
}

// c05-observer <dir> <stopfile> <outfile>: evaluate Inv in a tight loop until <stopfile> appears.
func c05Observer(args []string) int {
	dir, stop, outp := args[0], args[1], args[2]
	type obs struct {
		Observations int      `json:"observations"`
		Manifests    int      `json:"distinct_manifests"`
		MaxSpecs     int      `json:"max_specs"`
		Violations   []string `json:"violations"`
	}
	var o obs
	seen := map[string]bool{}
	mp := filepath.Join(dir, "manifest")
	for {
		if _, err := os.Stat(stop); err == nil {
			break
		}
		b, err := os.ReadFile(mp)
		if err != nil {
			continue
		}
		o.Observations++
		_, names, perr := parseManifestNames(b)
		if perr != nil {
			if len(o.Violations) < 20 {
				o.Violations = append(o.Violations, fmt.Sprintf("unparsable\x1fmanifest does not parse: %v: %q", perr, string(b[:min(len(b), 200)])))
			}
			continue
		}
		if !seen[string(b)] {
			seen[string(b)] = true
			o.Manifests++
		}
		if len(names) > o.MaxSpecs {
			o.MaxSpecs = len(names)
		}
		for _, n := range names {
			if fileExists(filepath.Join(dir, n)) || fileExists(filepath.Join(dir, n+".darc")) {
				continue
			}
			// the file is missing: it is a violation only if this very manifest is still current (a later manifest
			// may legitimately have stopped naming the file before it was unlinked)
			b2, err := os.ReadFile(mp)
			if err == nil && bytes.Equal(b, b2) && !fileExists(filepath.Join(dir, n)) && !fileExists(filepath.Join(dir, n+".darc")) {
				if len(o.Violations) < 20 {
					o.Violations = append(o.Violations, fmt.Sprintf("names-missing-file\x1fcurrent manifest names table file %s which does not exist; manifest=%s", n, string(b)))
				}
			}
		}
	}
	b, _ := json.Marshal(o)
	os.WriteFile(outp, b, 0o644)
	return 0
}

func fileExists(p string) bool {
	_, err := os.Stat(p)
	return err == nil
}

func init() {
	rig.SubCommands["c05-actor"] = c05Actor
	rig.SubCommands["c05-observer"] = c05Observer
}

// ---- stage 1: crash simulation from a syscall trace ----------------------------------------------

type dirOp struct {
	kind     string // create | rename | unlink
	name     string
	to       string
	synced   bool // covered by a later fsync of the directory
	seq      int
	tmpReady bool // rename: source content was fsynced before the rename
	content  []byte
}

func c05Crash(c *rig.Ctx) {
	c.Rule("stage crash: per history a traced process mixes commits, push-style table-file additions, conjoins and prunes on a " +
		"file-manifest store (2 KB memtable); for every event boundary e of the trace and every prefix length k between the " +
		"directory operations already covered by a directory fsync and those issued (ordered-metadata crash model), the directory " +
		"state is simulated and Inv evaluated; a manifest temp file renamed before its fsync is additionally evaluated as torn/empty. " +
		"Distinct = (manifest content, set of existing table files); non-trivial = manifest names >= 1 table file")
	c.Assume("crash model: directory operations of one directory persist as a prefix of their issue order (ordered metadata journaling); fsynced file contents survive; contents of a file renamed without fsync may be empty or torn")
	nh := c.Pick(10, 150)
	var states, points, withSpecs, unsyncedRenameStates int
	for h := 0; h < nh; h++ {
		r := c.SubRand("c05crash", h)
		work := c.TempDir("c05c")
		db := filepath.Join(work, "db")
		rig.Must(os.MkdirAll(db, 0o755))
		seed := r.Int63()
		steps := 8 + r.Intn(12)
		tlog := filepath.Join(work, "trace.log")
		c.Case(fmt.Sprintf("c05/crash/%d", h), map[string]any{"actor_seed": seed, "steps": steps})
		args := append(vtrace.StraceArgs(tlog, 16384), rig.Self(), "c05-actor", db, "mix", fmt.Sprint(seed), fmt.Sprint(steps), filepath.Join(work, "actor.log"))
		if out, err := exec.Command("strace", args...).CombinedOutput(); err != nil {
			c.Violation("c05/crash/actor-failed", fmt.Sprintf("%v: %s", err, tail(out, 400)), nil)
			os.RemoveAll(work)
			continue
		}
		evs, err := vtrace.Parse(tlog)
		rig.Must(err)
		var ops []dirOp
		tmpContent := map[string][]byte{}
		tmpSynced := map[string]bool{}
		seenState := map[string]bool{}
		check := func(e vtrace.Event, exists map[string]bool, manifest []byte, label string) {
			if manifest == nil {
				return
			}
			states++
			_, names, perr := parseManifestNames(manifest)
			wit := map[string]any{"history": h, "actor_seed": seed, "steps": steps, "event": e.String(), "variant": label, "manifest": string(manifest[:min(len(manifest), 600)])}
			if perr != nil {
				c.Violation("c05/crash/manifest-unparsable/"+label, "manifest does not parse in a crash image: "+perr.Error(), wit)
				return
			}
			if len(names) > 0 {
				withSpecs++
			}
			var have []string
			for n := range exists {
				have = append(have, n)
			}
			sort.Strings(have)
			key := string(manifest) + "|" + strings.Join(have, ",")
			if !seenState[key] && len(names) > 0 {
				seenState[key] = true
				c.Distinct(key)
			}
			for _, n := range names {
				if !exists[n] && !exists[n+".darc"] {
					wit["missing"] = n
					wit["files"] = have
					c.Violation("c05/crash/names-missing-file/"+label, "manifest in a crash image names table file "+n+" which does not exist", wit)
					return
				}
			}
		}
		for _, e := range evs {
			inDir := filepath.Dir(e.Path) == db
			base := filepath.Base(e.Path)
			switch {
			case e.Call == "fsync" && e.Path == db:
				for i := range ops {
					ops[i].synced = true
				}
			case !inDir:
				continue
			case e.Call == "write" && (strings.HasPrefix(base, "nbs_manifest_")):
				tmpContent[e.Path] = append(tmpContent[e.Path], e.Data...)
				tmpSynced[e.Path] = false
				if int64(len(e.Data)) != e.Len {
					rig.Must(fmt.Errorf("strace -s too small for a manifest of %d bytes", e.Len))
				}
			case e.Call == "fsync":
				tmpSynced[e.Path] = true
				continue
			case e.Call == "openat" && strings.Contains(e.Flags, "O_CREAT") && e.Ret >= 0:
				ops = append(ops, dirOp{kind: "create", name: base, seq: e.Seq})
			case e.Call == "rename" && filepath.Dir(e.Path2) == db:
				op := dirOp{kind: "rename", name: base, to: filepath.Base(e.Path2), seq: e.Seq, tmpReady: true}
				if op.to == "manifest" {
					op.content = tmpContent[e.Path]
					op.tmpReady = tmpSynced[e.Path]
					if !op.tmpReady {
						c.Violation("c05/trace/manifest-rename-before-temp-fsync", "manifest temp file renamed into place before it was fsynced", map[string]any{"history": h, "actor_seed": seed, "event": e.String()})
					}
				}
				ops = append(ops, op)
			case e.Call == "unlink":
				ops = append(ops, dirOp{kind: "unlink", name: base, seq: e.Seq})
			default:
				continue
			}
			points++
			// enumerate persisted prefixes of the directory operations
			nsynced := 0
			for i, op := range ops {
				if op.synced {
					nsynced = i + 1
				}
			}
			for k := nsynced; k <= len(ops); k++ {
				exists := map[string]bool{}
				var manifest []byte
				torn := false
				for _, op := range ops[:k] {
					switch op.kind {
					case "create":
						exists[op.name] = true
					case "unlink":
						delete(exists, op.name)
					case "rename":
						delete(exists, op.name)
						exists[op.to] = true
						if op.to == "manifest" {
							manifest = op.content
							torn = !op.tmpReady
						}
					}
				}
				label := "process-crash"
				if k < len(ops) {
					label = "power-loss"
					unsyncedRenameStates++
				}
				check(e, exists, manifest, label)
				if torn && k < len(ops)+1 {
					check(e, exists, manifest[:len(manifest)/2], "power-loss-unsynced-manifest-content")
					check(e, exists, []byte{}, "power-loss-unsynced-manifest-content")
				}
			}
		}
		if h < 3 {
			c.Sample(map[string]any{"history": h, "steps": steps, "dir_ops": len(ops), "actor_log": tail(readFileOr(filepath.Join(work, "actor.log")), 400)})
		}
		os.RemoveAll(work)
		if c.Violations() > 30 {
			break
		}
	}
	c.Count("c05.crash.points", points)
	c.Count("c05.crash.states_evaluated", states)
	c.Count("c05.crash.states_with_named_table_files", withSpecs)
	c.Count("c05.crash.power_loss_states", unsyncedRenameStates)
	c.Require(withSpecs > 0, "no crash state had a manifest naming a table file")
}

func readFileOr(p string) []byte {
	b, _ := os.ReadFile(p)
	return b
}

// ---- stage 2: multi-process race with an observer ------------------------------------------------

func c05Race(c *rig.Ctx) {
	c.Rule("stage race: per scenario 2 writers, 1 push-style adder, 1 conjoiner and 1 grace pruner (40 ms grace) run as separate " +
		"processes on one file-manifest directory, stretched by hook sleeps after a table file lands (persist.afterRename), before the " +
		"manifest CAS (nbs.commit.beforeManifestUpdate), before the manifest rename and before the conjoin manifest update, while an " +
		"observer process evaluates Inv continuously; distinct = scenario with a distinct multiset of actor outcomes")
	c.Assume("the observer re-reads the manifest after a failed stat and reports only when the same manifest is still current")
	n := c.Pick(6, 60)
	var obsTotal, manifests, lost, pruned, refused, commits, conjoins int
	for s := 0; s < n; s++ {
		r := c.SubRand("c05race", s)
		work := c.TempDir("c05r")
		db := filepath.Join(work, "db")
		rig.Must(os.MkdirAll(db, 0o755))
		c.Case(fmt.Sprintf("c05/race/%d", s), map[string]any{"seed": r.Int63()})
		hooks := []string{
			fmt.Sprintf("persist.afterRename=sleep(%d)", 20+r.Intn(120)),
			fmt.Sprintf("nbs.commit.beforeManifestUpdate=sleep(%d)", r.Intn(40)),
			fmt.Sprintf("manifest.beforeRename=sleep(%d)", r.Intn(15)),
			fmt.Sprintf("conjoin.beforeManifest=sleep(%d)", r.Intn(60)),
		}
		stop := filepath.Join(work, "stop")
		obsOut := filepath.Join(work, "observer.json")
		obs := exec.Command(rig.Self(), "c05-observer", db, stop, obsOut)
		rig.Must(obs.Start())
		roles := []string{"writer", "writer", "adder", "conjoiner", "pruner"}
		var wg sync.WaitGroup
		for i, role := range roles {
			wg.Add(1)
			go func(i int, role string) {
				defer wg.Done()
				steps := 10 + r.Intn(1) + 6
				if role == "pruner" {
					steps = 40
				}
				cmd := exec.Command(rig.Self(), "c05-actor", db, role, fmt.Sprint(1000*s+i), fmt.Sprint(steps), filepath.Join(work, fmt.Sprintf("actor-%d.log", i)))
				cmd.Env = append(os.Environ(), "VERIF_HOOKS="+strings.Join(hooks, ";"))
				out, err := cmd.CombinedOutput()
				if err != nil {
					if sig := crashOf(out); sig != "" {
						c.Violation("c05/race/actor-crashed/"+role, sig, map[string]any{"scenario": s, "output": tail(out, 1500)})
					}
				}
			}(i, role)
		}
		wg.Wait()
		os.WriteFile(stop, nil, 0o644)
		obs.Wait()
		var o struct {
			Observations int      `json:"observations"`
			Manifests    int      `json:"distinct_manifests"`
			MaxSpecs     int      `json:"max_specs"`
			Violations   []string `json:"violations"`
		}
		json.Unmarshal(readFileOr(obsOut), &o)
		obsTotal += o.Observations
		manifests += o.Manifests
		for _, v := range o.Violations {
			parts := strings.SplitN(v, "\x1f", 2)
			c.Violation("c05/race/"+parts[0], parts[len(parts)-1], map[string]any{"scenario": s, "hooks": hooks})
		}
		// final state must satisfy Inv too
		if b, err := os.ReadFile(filepath.Join(db, "manifest")); err == nil {
			_, names, perr := parseManifestNames(b)
			if perr != nil {
				c.Violation("c05/race/unparsable", "final manifest does not parse: "+perr.Error(), nil)
			}
			for _, nm := range names {
				if !fileExists(filepath.Join(db, nm)) && !fileExists(filepath.Join(db, nm+".darc")) {
					c.Violation("c05/race/names-missing-file", "final manifest names missing table file "+nm, map[string]any{"scenario": s, "manifest": string(b)})
				}
			}
		}
		var outcome []string
		for i := range roles {
			for _, line := range strings.Split(string(readFileOr(filepath.Join(work, fmt.Sprintf("actor-%d.log", i)))), "\n") {
				var ev map[string]any
				if json.Unmarshal([]byte(line), &ev) != nil {
					continue
				}
				switch ev["k"] {
				case "lost":
					lost++
					if ev["missing_spec_refused"] == true {
						refused++
					}
				case "pruned":
					if d, ok := ev["deleted"].(float64); ok && d > 0 {
						pruned += int(d)
					}
				case "commit", "added":
					commits++
				case "conjoined":
					conjoins++
				}
				outcome = append(outcome, fmt.Sprint(ev["k"], ev["op"]))
			}
		}
		sort.Strings(outcome)
		if o.Manifests > 1 {
			c.Distinct(strings.Join(outcome, ","))
		}
		if s < 3 {
			c.Sample(map[string]any{"scenario": s, "hooks": hooks, "observations": o.Observations, "distinct_manifests": o.Manifests, "max_specs": o.MaxSpecs})
		}
		os.RemoveAll(work)
	}
	c.Count("c05.race.observations", obsTotal)
	c.Count("c05.race.distinct_manifests_observed", manifests)
	c.Count("c05.race.actor_operations_lost_cleanly", lost)
	c.Count("c05.race.manifest_updates_refused_for_missing_spec", refused)
	c.Count("c05.race.files_deleted_by_grace_prune", pruned)
	c.Count("c05.race.successful_commits_and_adds", commits)
	c.Count("c05.race.successful_conjoins", conjoins)
	c.Require(obsTotal > 0 && manifests > n, "observer saw too few distinct manifests")
	c.Require(commits > 0, "no actor ever committed")
}

func crashOf(out []byte) string {
	for _, l := range strings.Split(string(out), "\n") {
		if strings.HasPrefix(l, "panic: ") || strings.HasPrefix(l, "fatal error: ") {
			if len(l) > 160 {
				l = l[:160]
			}
			return l
		}
	}
	return ""
}
