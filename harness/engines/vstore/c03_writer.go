package vstore

import (
	"fmt"
	"math/rand"
	"os"
	"strconv"

	"golang.org/x/sys/unix"

	"github.com/dolthub/dolt/go/store/chunks"
	"github.com/dolthub/dolt/go/store/hash"

	"verif/oracle"
	"verif/rig"
)

// c03-writer <dir> <seed> <markerfile> <steps> <shape>
//
// Runs a PRNG history of puts (honest, self-describing chunks with child refs), commits and failing commits
// against a journaling store in <dir>. It is meant to be run under strace: before every Commit it write()s
// "BEGIN n root" to <markerfile>, after an acknowledged commit "ACK n root", after a refused one "NACK n root",
// so markers and storage syscalls are totally ordered in one ptrace stream. shape: "small" | "big" (1-2 MB
// incompressible chunks that force journal buffer flushes between syncs) | "many" (> 16384 chunks: index batch).
func c03Writer(args []string) int {
	if len(args) < 5 {
		fmt.Fprintln(os.Stderr, "usage: c03-writer dir seed marker steps shape")
		return 2
	}
	dir, marker, shape := args[0], args[2], args[4]
	seed, _ := strconv.ParseInt(args[1], 10, 64)
	steps, _ := strconv.Atoi(args[3])
	r := rand.New(rand.NewSource(seed))
	mfd, err := unix.Open(marker, unix.O_WRONLY|unix.O_APPEND|unix.O_CREAT, 0o644)
	if err != nil {
		fmt.Fprintln(os.Stderr, "VERIF-INFRA:", err)
		return 3
	}
	mark := func(s string) { unix.Write(mfd, []byte(s+"\n")) }
	st, err := oracle.OpenJournal(dir)
	if err != nil {
		fmt.Fprintln(os.Stderr, "open:", err)
		return 1
	}
	m := oracle.NewModel()
	root, err := st.Root(bg)
	if err != nil {
		fmt.Fprintln(os.Stderr, "root:", err)
		return 1
	}
	mark("OPEN 0 " + root.String())
	n := 0
	var lastPut hash.Hash
	havePut := false
	if shape == "batches" {
		// |steps| commits of > 16384 novel chunks each: every commit flushes one complete (checksummed) index batch
		var last hash.Hash
		for b := 0; b < steps; b++ {
			for j := 0; j < 16500+r.Intn(600); j++ {
				body := make([]byte, 6+r.Intn(20))
				r.Read(body)
				var refs []hash.Hash
				if j%211 == 0 && !last.IsEmpty() {
					refs = append(refs, last)
				}
				ch := chunks.NewChunk(oracle.EncodeChunkData(refs, append(body, byte(b), byte(j), byte(j>>8), byte(seed))))
				if err := st.Put(bg, ch, oracle.GetAddrsCurry); err != nil {
					fmt.Fprintln(os.Stderr, "put:", err)
					return 1
				}
				last = ch.Hash()
			}
			n++
			mark(fmt.Sprintf("BEGIN %d %s", n, last))
			ok, err := st.Commit(bg, last, root)
			if err != nil || !ok {
				fmt.Fprintln(os.Stderr, "commit:", ok, err)
				return 1
			}
			root = last
			mark(fmt.Sprintf("ACK %d %s", n, last))
			if r.Intn(2) == 0 { // a small ordinary commit in between
				ch := chunks.NewChunk(oracle.EncodeChunkData([]hash.Hash{last}, []byte(fmt.Sprintf("small-%d-%d", seed, b))))
				if err := st.Put(bg, ch, oracle.GetAddrsCurry); err != nil {
					return 1
				}
				if ok, err := st.Commit(bg, ch.Hash(), root); err != nil || !ok {
					return 1
				}
				root = ch.Hash()
			}
		}
		mark("CLOSE 0 " + root.String())
		st.Close()
		return 0
	}
	if shape == "huge" {
		// (1) a commit with > 16384 novel chunks (flushes a journal index record), (2) a second ordinary commit or not,
		// (3) > 64 MB of chunk records without a commit (forces the intermediate sync that re-commits the current
		// root), (4) optionally a final commit. Crash points after (3) must still show the last acknowledged root.
		commit := func(nr hash.Hash) bool {
			n++
			mark(fmt.Sprintf("BEGIN %d %s", n, nr))
			ok, err := st.Commit(bg, nr, root)
			if err != nil || !ok {
				mark(fmt.Sprintf("ERR %d %s", n, nr))
				fmt.Fprintln(os.Stderr, "commit:", ok, err)
				return false
			}
			root = nr
			mark(fmt.Sprintf("ACK %d %s", n, nr))
			return true
		}
		put := func(body []byte, refs []hash.Hash) hash.Hash {
			ch := chunks.NewChunk(oracle.EncodeChunkData(refs, body))
			if err := st.Put(bg, ch, oracle.GetAddrsCurry); err != nil {
				fmt.Fprintln(os.Stderr, "put:", err)
				os.Exit(1)
			}
			return ch.Hash()
		}
		// an ordinary small commit first, so that the store has a non-empty root before the index-flushing commit
		commit(put([]byte(fmt.Sprintf("pre-%d", seed)), nil))
		var last hash.Hash
		for j := 0; j < 16600+r.Intn(800); j++ {
			b := make([]byte, 8+r.Intn(24))
			r.Read(b)
			var refs []hash.Hash
			if j > 0 && j%97 == 0 {
				refs = append(refs, last)
			}
			last = put(append(b, byte(j), byte(j>>8), byte(j>>16)), refs)
		}
		if !commit(last) {
			return 1
		}
		if r.Intn(6) == 0 { // rarely a further ordinary commit, which refreshes every in-memory notion of the root
			commit(put([]byte(fmt.Sprintf("mid-%d", seed)), []hash.Hash{last}))
		}
		big := make([]byte, 2<<20)
		for j := 0; j < 34+r.Intn(4); j++ {
			r.Read(big)
			last = put(big, nil)
		}
		mark("BIGDONE 0 " + root.String())
		if r.Intn(2) == 0 {
			commit(last)
		}
		mark("CLOSE 0 " + root.String())
		st.Close()
		return 0
	}
	for s := 0; s < steps; s++ {
		op := r.Intn(10)
		switch {
		case op < 6 || !havePut:
			nput := 1 + r.Intn(6)
			if shape == "many" {
				nput = 3000 + r.Intn(3000)
			}
			for j := 0; j < nput; j++ {
				var refs []hash.Hash
				for k := r.Intn(3); k > 0; k-- {
					if h, ok := m.Pick(r); ok {
						refs = append(refs, h)
					}
				}
				var body []byte
				if shape == "big" && r.Intn(3) == 0 {
					body = make([]byte, (1<<20)+r.Intn(1<<20))
					r.Read(body)
				} else if shape == "many" {
					body = oracle.GenBody(r, 40)
					body = append(body, byte(s), byte(j), byte(j>>8), byte(seed))
				} else {
					body = oracle.GenBody(r, 600)
					body = append(body, byte(s), byte(j), byte(j>>8), byte(seed)) // keep chunks distinct
				}
				ch := chunks.NewChunk(oracle.EncodeChunkData(refs, body))
				if err := st.Put(bg, ch, oracle.GetAddrsCurry); err != nil {
					fmt.Fprintln(os.Stderr, "put:", err)
					return 1
				}
				m.Add(ch, false)
				lastPut, havePut = ch.Hash(), true
			}
		case op < 9:
			n++
			nr := lastPut
			if h, ok := m.Pick(r); ok && r.Intn(3) == 0 {
				nr = h
			}
			mark(fmt.Sprintf("BEGIN %d %s", n, nr))
			ok, err := st.Commit(bg, nr, root)
			if err != nil {
				mark(fmt.Sprintf("ERR %d %s", n, nr))
				fmt.Fprintln(os.Stderr, "commit:", err)
				return 1
			}
			if !ok {
				mark(fmt.Sprintf("NACK %d %s", n, nr))
				fmt.Fprintln(os.Stderr, "single-writer commit refused")
				return 1
			}
			root = nr
			mark(fmt.Sprintf("ACK %d %s", n, nr))
		default: // a commit that must be refused: stale expected root
			n++
			var bogus hash.Hash
			r.Read(bogus[:])
			mark(fmt.Sprintf("BEGINFAIL %d %s", n, lastPut))
			ok, err := st.Commit(bg, lastPut, bogus)
			if err != nil || ok {
				mark(fmt.Sprintf("BADFAIL %d ok=%v err=%v", n, ok, err))
			} else {
				mark(fmt.Sprintf("NACK %d %s", n, lastPut))
			}
			// a refused commit rebases the handle; carry on from the persisted root
			root, _ = st.Root(bg)
		}
	}
	mark("CLOSE 0 " + root.String())
	st.Close()
	return 0
}

func init() {
	rig.SubCommands["c03-writer"] = c03Writer
}
