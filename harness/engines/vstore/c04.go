package vstore

import (
	"bytes"
	"crypto/sha256"
	"encoding/binary"
	"encoding/hex"
	"encoding/json"
	"fmt"
	"hash/crc32"
	"math/rand"
	"os"
	"os/exec"
	"path/filepath"
	"sort"
	"strings"
	"sync"

	"github.com/dolthub/fslock"

	"github.com/dolthub/dolt/go/store/chunks"
	"github.com/dolthub/dolt/go/store/hash"

	"verif/oracle"
	"verif/rig"
)

// C04 — the journal index file never changes what the database contains (DESIGN C04, Appendix A.4 last item).
//
// For one journal, the observable triple (Root, set of readable chunk addresses, bytes of each chunk) obtained with
// every index variant must equal the triple obtained from the SAME journal with the index file removed; a read-only
// open must not modify the journal or the index.

type c04Probe struct {
	Dir      string            `json:"dir"`
	ReadSum  string            `json:"readsum"`
	Root     string            `json:"root"`
	Err      string            `json:"err,omitempty"`
	Panic    string            `json:"panic,omitempty"`
	Mode     string            `json:"mode"`
	Chunks   map[string]string `json:"chunks"` // non-present addresses -> "ABSENT" | "ERR: ..." (present ones are folded into ReadSum)
	Count    int               `json:"count"`
	IterSum  string            `json:"itersum"`
	Modified []string          `json:"modified,omitempty"`
}

// journalChunkAddrs extracts the addresses of the chunk records of a journal image.
func journalChunkAddrs(j []byte) []hash.Hash {
	var out []hash.Hash
	for _, r := range journalRecords(j) {
		if !r.root && r.n >= 4+2+1+20 {
			var h hash.Hash
			copy(h[:], j[r.off+7:r.off+27])
			out = append(out, h)
		}
	}
	return out
}

func fileSig(p string) string {
	b, err := os.ReadFile(p)
	if err != nil {
		return "absent"
	}
	fi, _ := os.Stat(p)
	s := sha256.Sum256(b)
	return fmt.Sprintf("%d:%s:%d", len(b), hex.EncodeToString(s[:8]), fi.ModTime().UnixNano())
}

// c04-probe <listfile> <addrfile>: for every directory listed, open the journaling store (read-write, or read-only
// when the LOCK is held by the caller), report root and per-address read results as one JSON line on stdout.
func c04ProbeMain(args []string) int {
	lb, err := os.ReadFile(args[0])
	if err != nil {
		return 3
	}
	ab, err := os.ReadFile(args[1])
	if err != nil {
		return 3
	}
	addrs := strings.Fields(string(ab))
	for _, dir := range strings.Fields(string(lb)) {
		fmt.Fprintln(os.Stderr, "OPENING", dir)
		res := c04ProbeOne(dir, addrs)
		res.Dir = dir
		b, _ := json.Marshal(res)
		os.Stdout.Write(append(b, '\n'))
	}
	return 0
}

func c04ProbeOne(dir string, addrs []string) (res c04Probe) {
	res.Chunks = map[string]string{}
	defer func() {
		if r := recover(); r != nil {
			res.Panic = fmt.Sprint(r)
		}
	}()
	before := map[string]string{}
	for _, f := range []string{journalName, "journal.idx", "manifest"} {
		before[f] = fileSig(filepath.Join(dir, f))
	}
	st, err := oracle.OpenJournal(dir)
	if err != nil {
		res.Err = err.Error()
		return
	}
	defer st.Close()
	switch st.AccessMode() {
	case chunks.ExclusiveAccessMode_ReadOnly:
		res.Mode = "ro"
	default:
		res.Mode = "rw"
	}
	rt, err := st.Root(bg)
	if err != nil {
		res.Err = err.Error()
		return
	}
	res.Root = rt.String()
	bad := 0
	h256 := sha256.New()
	for _, a := range addrs {
		h := hash.Parse(a)
		ch, err := st.Get(bg, h)
		var v string
		switch {
		case err != nil:
			v = "ERR: " + firstLine(err.Error())
		case ch.IsEmpty():
			v = "ABSENT"
		default:
			s := sha256.Sum256(ch.Data())
			v = hex.EncodeToString(s[:10])
		}
		// only a digest of all answers plus the non-present ones are reported (journals can hold 50k chunks)
		h256.Write([]byte(a + "=" + v + ";"))
		if (v == "ABSENT" || strings.HasPrefix(v, "ERR")) && bad < 200 {
			res.Chunks[a] = v
			bad++
		}
	}
	res.ReadSum = hex.EncodeToString(h256.Sum(nil)[:12])
	cnt, err := st.Count(bg)
	if err == nil {
		res.Count = int(cnt)
	}
	var mu sync.Mutex
	var all []string
	if err := st.IterateAllChunks(bg, func(c chunks.Chunk) {
		mu.Lock()
		// identity = content hash of the bytes (all chunks here are honest): the journal chunk source reports
		// 16-byte-truncated addresses for index-flattened ranges, which is not the subject of this property
		all = append(all, hash.Of(c.Data()).String())
		mu.Unlock()
	}); err != nil {
		res.IterSum = "ERR: " + firstLine(err.Error())
	} else {
		sort.Strings(all)
		if dump := os.Getenv("VERIF_C04_DUMP"); dump != "" {
			os.WriteFile(dump, []byte(strings.Join(all, "\n")), 0o644)
		}
		s := sha256.Sum256([]byte(strings.Join(all, ",")))
		res.IterSum = fmt.Sprintf("%d:%s", len(all), hex.EncodeToString(s[:8]))
	}
	st.Close()
	if res.Mode == "ro" {
		for _, f := range []string{journalName, "journal.idx", "manifest"} {
			if after := fileSig(filepath.Join(dir, f)); after != before[f] {
				res.Modified = append(res.Modified, fmt.Sprintf("%s: %s -> %s", f, before[f], after))
			}
		}
	}
	return
}

func init() { rig.SubCommands["c04-probe"] = c04ProbeMain }

func copyDir(src, dst string) {
	rig.Must(os.MkdirAll(dst, 0o755))
	ents, err := os.ReadDir(src)
	rig.Must(err)
	for _, e := range ents {
		if e.IsDir() {
			continue
		}
		b, err := os.ReadFile(filepath.Join(src, e.Name()))
		rig.Must(err)
		rig.Must(os.WriteFile(filepath.Join(dst, e.Name()), b, 0o644))
	}
}

type idxVariant struct {
	name  string // class of the variant (used in violation keys)
	data  []byte // nil = file absent
	descr string
}

var castagnoli = crc32.MakeTable(crc32.Castagnoli)

// parseIdx splits an index file into records: (offset, length, isMeta).
type idxRec struct {
	off, n int
	meta   bool
}

func parseIdx(b []byte) []idxRec {
	var out []idxRec
	off := 0
	for off < len(b) {
		switch b[off] {
		case 0:
			if off+1+28 > len(b) {
				return out
			}
			out = append(out, idxRec{off, 29, false})
			off += 29
		case 1:
			if off+1+40 > len(b) {
				return out
			}
			out = append(out, idxRec{off, 41, true})
			off += 41
		default:
			return out
		}
	}
	return out
}

// recomputeCrcs rewrites the checksum of every meta record so that it matches the (possibly modified) lookups
// of its batch: the variant is then "checksummed but wrong" and only semantic validation can reject it.
func recomputeCrcs(b []byte) {
	var crc uint32
	for _, r := range parseIdx(b) {
		if !r.meta {
			crc = crc32.Update(crc, castagnoli, b[r.off+1:r.off+17])
		} else {
			binary.BigEndian.PutUint32(b[r.off+17:], crc)
			crc = 0
		}
	}
}

func idxVariants(r *rand.Rand, good, stale, other []byte, thorough bool) []idxVariant {
	vs := []idxVariant{{"missing", nil, ""}, {"empty", []byte{}, ""}, {"intact", good, ""}}
	recs := parseIdx(good)
	bound := map[int]bool{}
	for _, rc := range recs {
		bound[rc.off] = true
		bound[rc.off+rc.n] = true
	}
	cut := map[int]bool{}
	for _, rc := range recs {
		if rc.meta {
			for _, d := range []int{-1, 0, 1, 20, 41, 42, 40} {
				cut[rc.off+d] = true
			}
		}
	}
	if len(good) < 3000 || thorough && len(good) < 40000 {
		for n := 1; n < len(good); n++ {
			if n%7 == 0 || bound[n] || bound[n+1] || bound[n-1] {
				cut[n] = true
			}
		}
	}
	nrand := 10
	if thorough {
		nrand = 60
	}
	for k := 0; k < nrand; k++ {
		cut[1+r.Intn(len(good)+1)] = true
	}
	var cuts []int
	for n := range cut {
		if n > 0 && n < len(good) {
			cuts = append(cuts, n)
		}
	}
	sort.Ints(cuts)
	for _, n := range cuts {
		vs = append(vs, idxVariant{"truncated", append([]byte{}, good[:n]...), fmt.Sprint("len=", n)})
	}
	if stale != nil {
		vs = append(vs, idxVariant{"stale-earlier-prefix", stale, ""})
	}
	if other != nil {
		vs = append(vs, idxVariant{"stale-other-journal", other, ""})
	}
	// per-field corruption
	mut := func(name string, f func(b []byte) bool, fix bool) {
		b := append([]byte{}, good...)
		if f(b) {
			if fix {
				recomputeCrcs(b)
			}
			vs = append(vs, idxVariant{name, b, ""})
		}
	}
	var metas, lookups []idxRec
	for _, rc := range recs {
		if rc.meta {
			metas = append(metas, rc)
		} else {
			lookups = append(lookups, rc)
		}
	}
	for k := 0; k < 3 && len(metas) > 0; k++ {
		m := metas[r.Intn(len(metas))]
		mut("meta-batchStart", func(b []byte) bool { b[m.off+1+r.Intn(8)] ^= byte(1 << r.Intn(8)); return true }, false)
		mut("meta-batchEnd", func(b []byte) bool { b[m.off+9+r.Intn(8)] ^= byte(1 << r.Intn(8)); return true }, false)
		mut("meta-checksum", func(b []byte) bool { b[m.off+17+r.Intn(4)] ^= byte(1 << r.Intn(8)); return true }, false)
		mut("meta-latestHash", func(b []byte) bool { b[m.off+21+r.Intn(20)] ^= byte(1 << r.Intn(8)); return true }, false)
	}
	for k := 0; k < 4 && len(lookups) > 0; k++ {
		l := lookups[r.Intn(len(lookups))]
		mut("lookup-address/crc-stale", func(b []byte) bool { b[l.off+1+r.Intn(16)] ^= byte(1 << r.Intn(8)); return true }, false)
		mut("lookup-address/crc-recomputed", func(b []byte) bool { b[l.off+1+r.Intn(16)] ^= byte(1 << r.Intn(8)); return true }, true)
		mut("lookup-offset", func(b []byte) bool { b[l.off+17+r.Intn(8)] ^= byte(1 << r.Intn(8)); return true }, false)
		mut("lookup-length", func(b []byte) bool { b[l.off+25+r.Intn(4)] ^= byte(1 << r.Intn(8)); return true }, false)
	}
	if len(lookups) > 1 {
		// two lookups swapped with checksum recomputed; a lookup dropped with checksum recomputed
		a, bq := lookups[0], lookups[len(lookups)-1]
		mut("lookups-swapped/crc-recomputed", func(b []byte) bool {
			tmp := append([]byte{}, b[a.off:a.off+29]...)
			copy(b[a.off:a.off+29], b[bq.off:bq.off+29])
			copy(b[bq.off:bq.off+29], tmp)
			return true
		}, true)
		b := append(append([]byte{}, good[:a.off]...), good[a.off+29:]...)
		recomputeCrcs(b)
		vs = append(vs, idxVariant{"lookup-dropped/crc-recomputed", b, ""})
	}
	// whole batches removed / duplicated / reordered on batch boundaries: every remaining batch is intact and correctly
	// checksummed, only the contiguity of the journal regions they index is broken
	if len(metas) >= 2 {
		type span struct{ a, b int }
		var batches []span
		start := 0
		for _, m := range metas {
			batches = append(batches, span{start, m.off + m.n})
			start = m.off + m.n
		}
		tailBytes := good[start:]
		build := func(order []int) []byte {
			var b []byte
			for _, i := range order {
				b = append(b, good[batches[i].a:batches[i].b]...)
			}
			return append(b, tailBytes...)
		}
		all := func() []int {
			o := make([]int, len(batches))
			for i := range o {
				o[i] = i
			}
			return o
		}
		without := func(i int) []int { o := all(); return append(o[:i], o[i+1:]...) }
		vs = append(vs, idxVariant{"batch-dropped/first", build(without(0)), ""})
		if len(batches) >= 3 {
			mid := 1 + r.Intn(len(batches)-2)
			vs = append(vs, idxVariant{"batch-dropped/middle", build(without(mid)), fmt.Sprint("batch=", mid)})
		}
		vs = append(vs, idxVariant{"batch-dropped/last", build(without(len(batches) - 1)), ""})
		dup := all()
		dup = append(dup[:1], dup...)
		vs = append(vs, idxVariant{"batch-duplicated", build(dup), ""})
		sw := all()
		sw[0], sw[len(sw)-1] = sw[len(sw)-1], sw[0]
		vs = append(vs, idxVariant{"batches-reordered", build(sw), ""})
	}
	for k := 0; k < 3; k++ {
		b := make([]byte, 1+r.Intn(len(good)+40))
		r.Read(b)
		vs = append(vs, idxVariant{"random-bytes", b, ""})
		b2 := append([]byte{}, good...)
		b2 = append(b2, b[:1+r.Intn(len(b))]...)
		vs = append(vs, idxVariant{"garbage-appended", b2, ""})
	}
	return vs
}

// runProbes reopens the listed directories in one child process; results by directory.
func runProbes(work string, dirs []string, addrFile string, tag string) (map[string]*c04Probe, error) {
	lf := filepath.Join(work, "list-"+tag)
	rig.Must(os.WriteFile(lf, []byte(strings.Join(dirs, "\n")+"\n"), 0o644))
	cmd := exec.Command(rig.Self(), "c04-probe", lf, addrFile)
	var stderr bytes.Buffer
	cmd.Stderr = &stderr
	out, err := cmd.Output()
	res := map[string]*c04Probe{}
	for _, line := range bytes.Split(out, []byte{'\n'}) {
		var p c04Probe
		if len(line) > 0 && json.Unmarshal(line, &p) == nil {
			pp := p
			res[p.Dir] = &pp
		}
	}
	if err != nil {
		last := ""
		for _, l := range strings.Split(stderr.String(), "\n") {
			if strings.HasPrefix(l, "OPENING ") {
				last = strings.TrimPrefix(l, "OPENING ")
			}
		}
		if last != "" && res[last] == nil {
			res[last] = &c04Probe{Dir: last, Panic: "probe process died: " + err.Error() + " " + tail(stderr.Bytes(), 600)}
		}
	}
	return res, nil
}

func c04(c *rig.Ctx) {
	c.Rule("journals produced by two-phase PRNG writer histories, most of them with > 16384 chunks per phase so that the index " +
		"holds complete checksummed batches (the small ones only hold an unterminated batch); for each journal the index variants " +
		"{missing, empty, intact, truncated around every meta-record boundary and at sampled offsets (every 7th byte for small indexes), " +
		"stale (index of an earlier prefix / of another journal), single-bit corruption of every meta field and lookup field (with and " +
		"without recomputed checksums), swapped/dropped lookups with recomputed checksum, random bytes, appended garbage} x {read-write, " +
		"read-only open}; the observable triple is compared with the index-free open of the same journal. Distinct = (journal, variant " +
		"bytes, mode); non-trivial = index bytes differ from intact or mode is read-only")
	c.Assume("the reference is the same journal opened with the index file removed (differential oracle); read-only mode is obtained by holding the LOCK file from the monitor process")
	nj := c.Pick(2, 30)
	var otherIdx []byte
	variantsRun, roRuns, nonIntact, metaBatches := 0, 0, 0, 0
	for j := 0; j < nj; j++ {
		r := c.SubRand("c04", j)
		work := c.TempDir("c04j")
		db := filepath.Join(work, "db")
		rig.Must(os.MkdirAll(db, 0o755))
		seed := r.Int63()
		shape := "batches"
		if j%2 == 1 {
			shape = "small"
		}
		c.Case(fmt.Sprintf("c04/journal/%d", j), map[string]any{"writer_seed": seed, "shape": shape})
		run := func(s int64, steps int) bool {
			out, err := exec.Command(rig.Self(), "c03-writer", db, fmt.Sprint(s), filepath.Join(work, "markers"), fmt.Sprint(steps), shape).CombinedOutput()
			if err != nil {
				c.Violation("c04/writer-failed", fmt.Sprintf("writer failed on a healthy store: %v %s", err, tail(out, 500)), nil)
				return false
			}
			return true
		}
		steps := 8 + r.Intn(6)
		if shape == "batches" {
			steps = 2 // two index-flushing commits per phase: >= 4 complete batches in the final index
		}
		if !run(seed, steps) {
			continue
		}
		stale, _ := os.ReadFile(filepath.Join(db, "journal.idx"))
		if !run(seed+1, steps) {
			continue
		}
		good, _ := os.ReadFile(filepath.Join(db, "journal.idx"))
		journal, _ := os.ReadFile(filepath.Join(db, journalName))
		for _, rc := range parseIdx(good) {
			if rc.meta {
				metaBatches++
			}
		}
		addrs := journalChunkAddrs(journal)
		var sb strings.Builder
		for _, a := range addrs {
			sb.WriteString(a.String() + "\n")
		}
		for k := 0; k < 5; k++ { // a few absent addresses
			var h hash.Hash
			r.Read(h[:])
			sb.WriteString(h.String() + "\n")
		}
		addrFile := filepath.Join(work, "addrs")
		rig.Must(os.WriteFile(addrFile, []byte(sb.String()), 0o644))
		// reference: index removed
		refDir := filepath.Join(work, "ref")
		copyDir(db, refDir)
		os.Remove(filepath.Join(refDir, "journal.idx"))
		refs, _ := runProbes(work, []string{refDir}, addrFile, "ref")
		ref := refs[refDir]
		if ref == nil || ref.Err != "" || ref.Panic != "" {
			c.Violation("c04/reference-open-failed", fmt.Sprintf("index-free open of a healthy journal failed: %+v", ref), nil)
			continue
		}
		nAbsent := 0
		for _, v := range ref.Chunks {
			if v != "ABSENT" {
				nAbsent = -1000000
			}
			nAbsent++
		}
		if nAbsent != 5 {
			c.Violation("c04/reference-misreads", fmt.Sprintf("index-free open of a healthy journal cannot read all of its chunks: %v", ref.Chunks), nil)
			continue
		}
		variants := idxVariants(r, good, stale, otherIdx, c.Thorough())
		otherIdx = good
		type job struct {
			v   idxVariant
			ro  bool
			dir string
		}
		var jobs []*job
		for _, v := range variants {
			jobs = append(jobs, &job{v: v})
			if v.name != "truncated" || r.Intn(4) == 0 {
				jobs = append(jobs, &job{v: v, ro: true})
			}
		}
		// run in batches: the variants are materialised, probed by one child per slice, then deleted
		const batch, procs = 48, 8
		for b0 := 0; b0 < len(jobs); b0 += batch {
			bj := jobs[b0:min(len(jobs), b0+batch)]
			var locks []*fslock.Lock
			lists := make([][]string, procs)
			for i, jb := range bj {
				jb.dir = filepath.Join(work, fmt.Sprintf("v%d", b0+i))
				copyDir(db, jb.dir)
				ip := filepath.Join(jb.dir, "journal.idx")
				if jb.v.data == nil {
					os.Remove(ip)
				} else {
					rig.Must(os.WriteFile(ip, jb.v.data, 0o644))
				}
				if jb.ro {
					lk, lerr := fslock.New(filepath.Join(jb.dir, "LOCK"))
					rig.Must(lerr)
					if err := lk.TryLock(); err != nil {
						rig.Must(fmt.Errorf("cannot take LOCK for read-only probe: %w", err))
					}
					locks = append(locks, lk)
				}
				lists[i%procs] = append(lists[i%procs], jb.dir)
			}
			results := map[string]*c04Probe{}
			var mu sync.Mutex
			var wg sync.WaitGroup
			for pi := range lists {
				if len(lists[pi]) == 0 {
					continue
				}
				wg.Add(1)
				go func(pi int) {
					defer wg.Done()
					res, _ := runProbes(work, lists[pi], addrFile, fmt.Sprintf("%d-%d", b0, pi))
					mu.Lock()
					for k, v := range res {
						results[k] = v
					}
					mu.Unlock()
				}(pi)
			}
			wg.Wait()
			for _, lk := range locks {
				lk.Unlock()
			}
			for _, jb := range bj {
				p := results[jb.dir]
				os.RemoveAll(jb.dir)
				variantsRun++
				mode := "rw"
				if jb.ro {
					mode = "ro"
					roRuns++
				}
				key := func(clause string) string { return fmt.Sprintf("c04/%s/%s/%s", jb.v.name, clause, mode) }
				wit := map[string]any{"journal": j, "writer_seed": seed, "shape": shape, "steps": steps, "variant": jb.v.name, "descr": jb.v.descr, "mode": mode, "index_len": len(jb.v.data)}
				if p == nil {
					c.Inconclusive("no probe result for a variant of journal " + fmt.Sprint(j))
					continue
				}
				if jb.ro && p.Mode != "ro" && p.Err == "" && p.Panic == "" {
					rig.Must(fmt.Errorf("probe was expected to open read-only but got %q", p.Mode))
				}
				idh := sha256.Sum256(jb.v.data)
				if !bytes.Equal(jb.v.data, good) || jb.ro {
					c.Distinct(fmt.Sprintf("%d/%x/%s", j, idh[:8], mode))
				}
				if jb.v.name != "intact" {
					nonIntact++
				}
				switch {
				case p.Panic != "":
					c.Violation(key("panic"), firstLine(p.Panic), wit)
				case p.Err != "":
					c.Violation(key("open-error"), "open failed because of the index file: "+firstLine(p.Err), wit)
				case p.Root != ref.Root:
					wit["root"], wit["ref_root"] = p.Root, ref.Root
					c.Violation(key("root-differs"), "root differs from the index-free open", wit)
				case p.ReadSum != ref.ReadSum:
					var diffs []string
					for a, got := range p.Chunks {
						if ref.Chunks[a] != got {
							diffs = append(diffs, fmt.Sprintf("%s: %s (index-free open: present)", a, got))
						}
					}
					sort.Strings(diffs)
					wit["diffs"] = diffs[:min(len(diffs), 5)]
					c.Violation(key("chunks-differ"), fmt.Sprintf("addresses read differently than with no index (%d became unreadable/absent)", len(diffs)), wit)
				case p.IterSum != ref.IterSum || p.Count != ref.Count:
					wit["iter"], wit["ref_iter"] = fmt.Sprint(p.Count, " ", p.IterSum), fmt.Sprint(ref.Count, " ", ref.IterSum)
					c.Violation(key("iteration-differs"), "Count/IterateAllChunks differ from the index-free open", wit)
				}
				if len(p.Modified) > 0 {
					wit["modified"] = p.Modified
					c.Violation(key("readonly-open-modified-files"), strings.Join(p.Modified, "; "), wit)
				}
			}
		}
		c.Sample(map[string]any{"journal": j, "shape": shape, "journal_bytes": len(journal), "index_bytes": len(good), "stale_index_bytes": len(stale), "chunks": len(addrs), "variants": len(jobs)})
		os.RemoveAll(work)
		if c.UnlistedViolations() > 60 {
			break
		}
	}
	c.Count("c04.index_variants_opened", variantsRun)
	c.Count("c04.readonly_opens", roRuns)
	c.Count("c04.non_intact_variants", nonIntact)
	c.Count("c04.complete_index_batches_in_intact_indexes", metaBatches)
	c.Require(variantsRun > 0 && roRuns > 0, "no variant / no read-only open was exercised")
	c.Require(metaBatches > 0, "no journal produced an index with a complete (checksummed) batch: lookup/meta corruption variants would be vacuous")
}
