// Package engines wires every monitor into the registry.
package engines

import (
	"verif/engines/vstore"
)

// RegisterAll registers all checks.
func RegisterAll() {
	vstore.Register()
}
