// Package vnbsfiles holds the monitors of the NBS storage file formats: C06 (table files / archives / conjoin
// round-trip, in-package twin) and C10 (corrupted storage files are reported, never misread).
package vnbsfiles

import (
	"time"

	"verif/rig"
)

// Register wires the checks of this engine.
func Register() {
	rig.Register(&rig.Spec{Prop: "C06", Level: "exploration", Stages: []rig.Stage{{
		Name: "twin", Twin: &rig.Twin{Pkg: "store/nbs", Files: []string{"c06_test.go"}, Run: "^TestVerifC06$"},
		TimeoutQuick: 20 * time.Minute, TimeoutThorough: 3 * time.Hour,
	}}})
	rig.Register(&rig.Spec{Prop: "C10", Level: "fault_enumeration", Stages: []rig.Stage{{
		Name: "faults", Fn: c10, TimeoutQuick: 40 * time.Minute, TimeoutThorough: 6 * time.Hour,
	}}})
}
