package vnbsfiles

// Region classification of storage files, computed by the harness from the DOCUMENTED layouts only
// (go/store/nbs/table.go, archive.go, journal_record.go, journal_index_record.go, file_manifest.go) — an
// independent re-implementation, so that the key of a finding names the format region of the mutated byte.

import (
	"bytes"
	"encoding/binary"
	"fmt"
	"sort"
	"strings"

	"github.com/dolthub/dolt/go/store/hash"
)

// c10Region is a contiguous byte range of a file with a format meaning.
type c10Region struct {
	Name string `json:"name"`
	Off  int    `json:"off"`
	Len  int    `json:"len"`
	// Field is set for fixed-width numeric fields (candidates for boundary-value mutation).
	Field bool `json:"field,omitempty"`
}

type c10Layout struct {
	Kind    string      `json:"kind"` // tablefile | archive | journal | journalidx | manifest
	Size    int         `json:"size"`
	Regions []c10Region `json:"regions"`
	// Addrs are the chunk addresses the file's index names (sanity check against the model).
	Addrs []hash.Hash `json:"-"`
	// journal only: record boundaries, kind ("chunk"|"root") and address, in file order
	Records []c10JournalRec `json:"records,omitempty"`
}

type c10JournalRec struct {
	Off, Len int
	Kind     string // chunk | root
	Addr     hash.Hash
}

func (l *c10Layout) add(name string, off, n int, field bool) {
	if n > 0 {
		l.Regions = append(l.Regions, c10Region{Name: name, Off: off, Len: n, Field: field})
	}
}

// finish sorts the regions, merges adjacent ones of equal name (non-field) and checks that they tile the file.
func (l *c10Layout) finish() error {
	sort.Slice(l.Regions, func(i, j int) bool { return l.Regions[i].Off < l.Regions[j].Off })
	pos := 0
	for _, r := range l.Regions {
		if r.Off != pos {
			return fmt.Errorf("%s layout: region %s starts at %d, expected %d", l.Kind, r.Name, r.Off, pos)
		}
		pos += r.Len
	}
	if pos != l.Size {
		return fmt.Errorf("%s layout: regions cover %d bytes of %d", l.Kind, pos, l.Size)
	}
	return nil
}

// regionAt returns the region containing byte offset off (the last region for off == Size).
func (l *c10Layout) regionAt(off int) c10Region {
	i := sort.Search(len(l.Regions), func(i int) bool { return l.Regions[i].Off+l.Regions[i].Len > off })
	if i >= len(l.Regions) {
		i = len(l.Regions) - 1
	}
	return l.Regions[i]
}

// names returns the distinct region names in file order.
func (l *c10Layout) names() []string {
	var out []string
	seen := map[string]bool{}
	for _, r := range l.Regions {
		if !seen[r.Name] {
			seen[r.Name] = true
			out = append(out, r.Name)
		}
	}
	return out
}

const (
	c10TableFooter = 20
	c10TableMagic  = "\xff\xb5\xd8\xc2\x24\x63\xee\x50"
)

// Table file: chunk records | prefix tuples (8 prefix + 4 ordinal) | lengths (4) | suffixes (12) | footer (4 count, 8 uncompressed, 8 magic).
func c10TableLayout(b []byte) (*c10Layout, error) {
	l := &c10Layout{Kind: "tablefile", Size: len(b)}
	if len(b) < c10TableFooter || string(b[len(b)-8:]) != c10TableMagic {
		return nil, fmt.Errorf("not a table file")
	}
	fo := len(b) - c10TableFooter
	n := int(binary.BigEndian.Uint32(b[fo:]))
	idx := fo - n*28
	if idx < 0 {
		return nil, fmt.Errorf("table file too short for %d chunks", n)
	}
	tuples, lengths, suffixes := idx, idx+n*12, idx+n*16
	pos := 0
	for i := 0; i < n; i++ {
		ln := int(binary.BigEndian.Uint32(b[lengths+4*i:]))
		if ln < 4 || pos+ln > idx {
			return nil, fmt.Errorf("table file: bad record length")
		}
		l.add("chunk-data", pos, ln-4, false)
		l.add("chunk-crc", pos+ln-4, 4, false)
		pos += ln
	}
	if pos != idx {
		return nil, fmt.Errorf("table file: chunk records end at %d, index starts at %d", pos, idx)
	}
	for i := 0; i < n; i++ {
		l.add("index-prefix", tuples+12*i, 8, false)
		l.add("index-ordinal", tuples+12*i+8, 4, true)
		ord := int(binary.BigEndian.Uint32(b[tuples+12*i+8:]))
		var h hash.Hash
		copy(h[:8], b[tuples+12*i:])
		copy(h[8:], b[suffixes+12*ord:suffixes+12*ord+12])
		l.Addrs = append(l.Addrs, h)
	}
	for i := 0; i < n; i++ {
		l.add("index-length", lengths+4*i, 4, true)
	}
	l.add("index-suffix", suffixes, n*12, false)
	l.add("footer-count", fo, 4, true)
	l.add("footer-uncompressed", fo+4, 8, true)
	l.add("footer-magic", fo+12, 8, false)
	return l, l.finish()
}

const c10ArchiveFooter = 8 + 4 + 4 + 4 + 192 + 1 + 7

// Archive: byte spans | index (span end offsets 8 | prefixes 8 | chunk refs 4+4 | suffixes 12) | metadata | footer.
func c10ArchiveLayout(b []byte) (*c10Layout, error) {
	l := &c10Layout{Kind: "archive", Size: len(b)}
	if len(b) < c10ArchiveFooter || string(b[len(b)-7:]) != "DOLTARC" {
		return nil, fmt.Errorf("not an archive")
	}
	fo := len(b) - c10ArchiveFooter
	if b[fo+212] != 3 {
		return nil, fmt.Errorf("archive format version %d not handled by the harness layout", b[fo+212])
	}
	idxLen := int(binary.BigEndian.Uint64(b[fo:]))
	spans := int(binary.BigEndian.Uint32(b[fo+8:]))
	chunks := int(binary.BigEndian.Uint32(b[fo+12:]))
	metaLen := int(binary.BigEndian.Uint32(b[fo+16:]))
	meta := fo - metaLen
	idx := meta - idxLen
	if idx < 0 || idxLen != spans*8+chunks*28 {
		return nil, fmt.Errorf("archive: inconsistent footer")
	}
	spanOffs, prefixes, refs, suffixes := idx, idx+spans*8, idx+spans*8+chunks*8, idx+spans*8+chunks*16
	isDict := map[int]bool{}
	for i := 0; i < chunks; i++ {
		d := int(binary.BigEndian.Uint32(b[refs+8*i:]))
		if d != 0 {
			isDict[d] = true
		}
		var h hash.Hash
		copy(h[:8], b[prefixes+8*i:])
		copy(h[8:], b[suffixes+12*i:suffixes+12*i+12])
		l.Addrs = append(l.Addrs, h)
	}
	prev := 0
	for i := 1; i <= spans; i++ {
		end := int(binary.BigEndian.Uint64(b[spanOffs+8*(i-1):]))
		if end < prev || end > idx {
			return nil, fmt.Errorf("archive: bad span offsets")
		}
		if isDict[i] {
			l.add("dict-span", prev, end-prev, false)
		} else {
			l.add("chunk-span", prev, end-prev, false)
		}
		prev = end
	}
	if prev != idx {
		return nil, fmt.Errorf("archive: spans end at %d, index starts at %d", prev, idx)
	}
	for i := 0; i < spans; i++ {
		l.add("index-spanoffsets", spanOffs+8*i, 8, true)
	}
	l.add("index-prefix", prefixes, chunks*8, false)
	for i := 0; i < chunks; i++ {
		l.add("index-chunkref", refs+8*i, 4, true)
		l.add("index-chunkref", refs+8*i+4, 4, true)
	}
	l.add("index-suffix", suffixes, chunks*12, false)
	l.add("metadata", meta, metaLen, false)
	l.add("footer-indexlen", fo, 8, true)
	l.add("footer-spancount", fo+8, 4, true)
	l.add("footer-chunkcount", fo+12, 4, true)
	l.add("footer-metalen", fo+16, 4, true)
	l.add("footer-checksums", fo+20, 192, false)
	l.add("footer-version", fo+212, 1, true)
	l.add("footer-signature", fo+213, 7, false)
	return l, l.finish()
}

// Journal: records | length(4) | tag kind | [tag timestamp(8)] | tag addr(20) | [tag payload] | crc(4).
func c10JournalLayout(b []byte) (*c10Layout, error) {
	l := &c10Layout{Kind: "journal", Size: len(b)}
	pos := 0
	for pos < len(b) {
		if pos+4 > len(b) {
			return nil, fmt.Errorf("journal: trailing bytes")
		}
		n := int(binary.BigEndian.Uint32(b[pos:]))
		if n < 8 || pos+n > len(b) {
			return nil, fmt.Errorf("journal: bad record length %d at %d", n, pos)
		}
		rec := b[pos : pos+n]
		kind := ""
		// first pass: find the kind
		for p := 4; p < n-4; {
			switch rec[p] {
			case 1:
				if rec[p+1] == 1 {
					kind = "root"
				} else {
					kind = "chunk"
				}
				p += 2
			case 2:
				p += 21
			case 4:
				p += 9
			case 3:
				p = n - 4
			default:
				return nil, fmt.Errorf("journal: unknown tag %d", rec[p])
			}
		}
		if kind == "" {
			return nil, fmt.Errorf("journal: record without kind at %d", pos)
		}
		jr := c10JournalRec{Off: pos, Len: n, Kind: kind}
		l.add(kind+"-length", pos, 4, true)
		for p := 4; p < n-4; {
			switch rec[p] {
			case 1:
				l.add(kind+"-tag", pos+p, 1, false)
				l.add(kind+"-kind", pos+p+1, 1, false)
				p += 2
			case 2:
				l.add(kind+"-tag", pos+p, 1, false)
				l.add(kind+"-address", pos+p+1, 20, false)
				copy(jr.Addr[:], rec[p+1:p+21])
				p += 21
			case 4:
				l.add(kind+"-tag", pos+p, 1, false)
				l.add(kind+"-timestamp", pos+p+1, 8, false)
				p += 9
			case 3:
				l.add(kind+"-tag", pos+p, 1, false)
				l.add(kind+"-payload", pos+p+1, n-4-(p+1), false)
				p = n - 4
			}
		}
		l.add(kind+"-crc", pos+n-4, 4, false)
		l.Records = append(l.Records, jr)
		if kind == "chunk" {
			l.Addrs = append(l.Addrs, jr.Addr)
		}
		pos += n
	}
	return l, l.finish()
}

// Journal index: lookup = tag 0 | addr16 | offset(8) | length(4); meta = tag 1 | start(8) | end(8) | checksum(4) | root(20).
func c10JournalIdxLayout(b []byte) (*c10Layout, error) {
	l := &c10Layout{Kind: "journalidx", Size: len(b)}
	pos := 0
	for pos < len(b) {
		switch b[pos] {
		case 0:
			if pos+29 > len(b) {
				return nil, fmt.Errorf("journal index: short lookup")
			}
			l.add("lookup-tag", pos, 1, false)
			l.add("lookup-addr", pos+1, 16, false)
			l.add("lookup-offset", pos+17, 8, true)
			l.add("lookup-length", pos+25, 4, true)
			pos += 29
		case 1:
			if pos+41 > len(b) {
				return nil, fmt.Errorf("journal index: short meta")
			}
			l.add("meta-tag", pos, 1, false)
			l.add("meta-start", pos+1, 8, true)
			l.add("meta-end", pos+9, 8, true)
			l.add("meta-checksum", pos+17, 4, false)
			l.add("meta-root", pos+21, 20, false)
			pos += 41
		default:
			return nil, fmt.Errorf("journal index: unknown tag %d at %d", b[pos], pos)
		}
	}
	return l, l.finish()
}

// Manifest: version:nbf:lock:root:gcgen[:name:count]*
func c10ManifestLayout(b []byte) (*c10Layout, error) {
	l := &c10Layout{Kind: "manifest", Size: len(b)}
	fields := strings.Split(string(b), ":")
	if len(fields) < 5 || fields[0] != "5" {
		return nil, fmt.Errorf("manifest: unexpected shape %q", string(b))
	}
	names := []string{"version", "nbf", "lock", "root", "gcgen"}
	pos := 0
	for i, f := range fields {
		name := ""
		if i < len(names) {
			name = names[i]
		} else if (i-5)%2 == 0 {
			name = "spec-name"
		} else {
			name = "spec-count"
		}
		l.add(name, pos, len(f), false)
		pos += len(f)
		if i < len(fields)-1 {
			l.add("separator", pos, 1, false)
			pos++
		}
	}
	return l, l.finish()
}

func c10LayoutFor(kind string, b []byte) (*c10Layout, error) {
	switch kind {
	case "tablefile":
		return c10TableLayout(b)
	case "archive":
		return c10ArchiveLayout(b)
	case "journal":
		return c10JournalLayout(b)
	case "journalidx":
		return c10JournalIdxLayout(b)
	case "manifest":
		return c10ManifestLayout(b)
	}
	return nil, fmt.Errorf("unknown file kind %q", kind)
}

func c10SortHashes(hs []hash.Hash) {
	sort.Slice(hs, func(i, j int) bool { return bytes.Compare(hs[i][:], hs[j][:]) < 0 })
}
