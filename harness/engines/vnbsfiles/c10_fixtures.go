package vnbsfiles

// Fixtures of C10: small valid stores of each kind, produced by the real writers through the exported API from a
// PRNG chunk model, plus the layout (region table) of every file that will be mutated.

import (
	"context"
	"encoding/json"
	"fmt"
	"math/rand"
	"os"
	"path/filepath"
	"strings"

	"github.com/dolthub/gozstd"

	"github.com/dolthub/dolt/go/store/chunks"
	"github.com/dolthub/dolt/go/store/constants"
	"github.com/dolthub/dolt/go/store/hash"
	"github.com/dolthub/dolt/go/store/nbs"

	"verif/oracle"
)

var bg = context.Background()

type c10Chunk struct {
	Addr   string `json:"addr"`
	Data   []byte `json:"data"`
	Forged bool   `json:"forged,omitempty"`
	h      hash.Hash
}

// c10State: at root Root the first N chunks of the fixture are committed.
type c10State struct {
	Root string `json:"root"`
	N    int    `json:"n"`
	root hash.Hash
}

type c10Target struct {
	File   string     `json:"file"`
	Kind   string     `json:"kind"`
	Layout *c10Layout `json:"layout"`
}

type c10Fixture struct {
	ID      string      `json:"id"`
	Store   string      `json:"store"` // local | journal
	Mmap    bool        `json:"mmap"`
	Dir     string      `json:"dir"`
	Chunks  []c10Chunk  `json:"chunks"`
	States  []c10State  `json:"states"`
	Targets []c10Target `json:"targets"`
	Files   []string    `json:"files"` // every file of the store directory (copied for each case)
	// Addr16 is set when a reopen of the pristine journal fixture serves chunks from the journal index: iteration then
	// reports addresses cut to 16 bytes (documented in journalChunkSource.iterateAllChunks).
	Addr16 bool `json:"addr16,omitempty"`
}

func (f *c10Fixture) resolve() {
	for i := range f.Chunks {
		f.Chunks[i].h = hash.Parse(f.Chunks[i].Addr)
	}
	for i := range f.States {
		f.States[i].root = hash.Parse(f.States[i].Root)
	}
}

func (f *c10Fixture) target(file string) *c10Target {
	for i := range f.Targets {
		if f.Targets[i].File == file {
			return &f.Targets[i]
		}
	}
	return nil
}

func c10OpenStore(store, dir string, mmap bool) (*nbs.NomsBlockStore, error) {
	if store == "journal" {
		return nbs.NewLocalJournalingStore(bg, constants.FormatDoltString, dir, oracle.Quota(), mmap, func(error) {})
	}
	return nbs.NewLocalStore(bg, constants.FormatDoltString, dir, 1<<20, oracle.Quota(), mmap)
}

// c10GenChunks: honest chunks with small bodies plus forged families sharing an 8-byte prefix and a pair of
// consecutive prefixes, so that index mutations have neighbours to collide with.
func c10GenChunks(r *rand.Rand, honest, families, maxBody int) []c10Chunk {
	var out []c10Chunk
	seen := map[hash.Hash]bool{}
	add := func(c chunks.Chunk, forged bool) {
		if seen[c.Hash()] {
			return
		}
		seen[c.Hash()] = true
		out = append(out, c10Chunk{Addr: c.Hash().String(), Data: append([]byte(nil), c.Data()...), Forged: forged, h: c.Hash()})
	}
	body := func() []byte {
		var b []byte
		switch r.Intn(4) {
		case 0:
			b = []byte{byte(r.Intn(256))}
		case 1:
			b = []byte(strings.Repeat(string(rune('a'+r.Intn(5))), 1+r.Intn(maxBody)))
		default:
			b = make([]byte, 1+r.Intn(maxBody))
			r.Read(b)
		}
		return oracle.EncodeChunkData(nil, b)
	}
	for i := 0; i < honest; i++ {
		add(chunks.NewChunk(append(body(), byte(i), byte(i>>8))), false)
	}
	for f := 0; f < families; f++ {
		for _, h := range oracle.ForgeFamily(r, 2+r.Intn(2)) {
			add(chunks.NewChunkWithHash(h, append(body(), byte(f))), true)
		}
	}
	return out
}

func c10Put(st *nbs.NomsBlockStore, cs []c10Chunk) error {
	for _, c := range cs {
		if err := st.Put(bg, chunks.NewChunkWithHash(c.h, c.Data), oracle.GetAddrsCurry); err != nil {
			return err
		}
	}
	return nil
}

func c10Commit(st *nbs.NomsBlockStore, root hash.Hash) error {
	cur, err := st.Root(bg)
	if err != nil {
		return err
	}
	ok, err := st.Commit(bg, root, cur)
	if err != nil {
		return err
	}
	if !ok {
		return fmt.Errorf("commit refused")
	}
	return nil
}

func c10ListFiles(dir string) []string {
	var out []string
	ents, _ := os.ReadDir(dir)
	for _, e := range ents {
		if !e.IsDir() && e.Name() != "LOCK" && e.Name() != "fixture.json" {
			out = append(out, e.Name())
		}
	}
	return out
}

// firstHonest returns the address of the first non-forged chunk of cs (used as a root value).
func firstHonest(cs []c10Chunk) hash.Hash {
	for _, c := range cs {
		if !c.Forged {
			return c.h
		}
	}
	return cs[0].h
}

// c10FinishFixture computes layouts of the target files and sanity-checks them against the model.
func c10FinishFixture(f *c10Fixture, kinds map[string]string) error {
	f.Files = c10ListFiles(f.Dir)
	named := map[hash.Hash]bool{}
	for _, name := range f.Files {
		kind := kinds[name]
		if kind == "" {
			switch {
			case name == "manifest":
				kind = "manifest"
			case name == chunks.JournalFileID:
				kind = "journal"
			case name == "journal.idx":
				kind = "journalidx"
			case strings.HasSuffix(name, nbs.ArchiveFileSuffix):
				kind = "archive"
			default:
				kind = "tablefile"
			}
		}
		if kind == "skip" {
			continue
		}
		b, err := os.ReadFile(filepath.Join(f.Dir, name))
		if err != nil {
			return err
		}
		if len(b) == 0 {
			continue
		}
		lay, err := c10LayoutFor(kind, b)
		if err != nil {
			return fmt.Errorf("fixture %s file %s: %w", f.ID, name, err)
		}
		for _, h := range lay.Addrs {
			named[h] = true
		}
		f.Targets = append(f.Targets, c10Target{File: name, Kind: kind, Layout: lay})
	}
	// every model chunk is named by exactly the indexes the harness parsed, and nothing else is
	for _, c := range f.Chunks {
		if !named[c.h] {
			return fmt.Errorf("fixture %s: model chunk %s is not named by any parsed index (harness layout disagrees with the writer)", f.ID, c.Addr)
		}
		delete(named, c.h)
	}
	if len(named) != 0 {
		return fmt.Errorf("fixture %s: %d addresses named by the files are not in the model", f.ID, len(named))
	}
	b, _ := json.Marshal(f)
	return os.WriteFile(filepath.Join(f.Dir, "fixture.json"), b, 0o644)
}

// ---- table-file store: two commits -> two table files + manifest -----------------------------------------------
func c10FixtureTables(id, dir string, r *rand.Rand, n1, n2, maxBody int) (*c10Fixture, error) {
	f := &c10Fixture{ID: id, Store: "local", Dir: dir}
	st, err := c10OpenStore("local", dir, false)
	if err != nil {
		return nil, err
	}
	a := c10GenChunks(r, n1, 1, maxBody)
	b := c10GenChunks(r, n2, 2, maxBody)
	if err := c10Put(st, a); err != nil {
		return nil, err
	}
	if err := c10Commit(st, firstHonest(a)); err != nil {
		return nil, err
	}
	f.Chunks = append(f.Chunks, a...)
	if len(b) > 0 {
		if err := c10Put(st, b); err != nil {
			return nil, err
		}
		if err := c10Commit(st, firstHonest(b)); err != nil {
			return nil, err
		}
		f.Chunks = append(f.Chunks, b...)
		f.States = []c10State{{Root: firstHonest(b).String(), N: len(f.Chunks)}}
	} else {
		f.States = []c10State{{Root: firstHonest(a).String(), N: len(f.Chunks)}}
	}
	if err := st.Close(); err != nil {
		return nil, err
	}
	f.resolve()
	return f, c10FinishFixture(f, nil)
}

// ---- archive store: an archive written by ArchiveStreamWriter, added with AddTableFilesToManifest ----------------
// dict=false: snappy chunks as GC writes them below the dictionary threshold; dict=true: zstd chunks that carry a
// dictionary span (NewArchiveToChunker route, the shape ArchiveStreamWriter emits once it has trained a dictionary).
func c10FixtureArchive(id, dir string, r *rand.Rand, n int, dict, mmap bool, maxBody int) (*c10Fixture, error) {
	f := &c10Fixture{ID: id, Store: "local", Dir: dir, Mmap: mmap}
	tmp := filepath.Join(dir, "tmp")
	if err := os.MkdirAll(tmp, 0o755); err != nil {
		return nil, err
	}
	cs := c10GenChunks(r, n, 2, maxBody)
	w, err := nbs.NewArchiveStreamWriter(tmp)
	if err != nil {
		return nil, err
	}
	var bundle *nbs.DecompBundle
	var cdict *gozstd.CDict
	if dict {
		var samples [][]byte
		for len(samples) < 64 {
			for _, c := range cs {
				samples = append(samples, c.Data)
			}
		}
		raw := gozstd.BuildDict(samples, 256)
		if len(raw) == 0 {
			return nil, fmt.Errorf("could not train a zstd dictionary for the fixture")
		}
		if cdict, err = gozstd.NewCDict(raw); err != nil {
			return nil, err
		}
		if bundle, err = nbs.NewDecompBundle(gozstd.Compress(nil, raw)); err != nil {
			return nil, err
		}
	}
	for i, c := range cs {
		ch := chunks.NewChunkWithHash(c.h, c.Data)
		var tc nbs.ToChunker = nbs.ChunkToCompressedChunk(ch)
		if dict && i%5 != 4 {
			tc = nbs.NewArchiveToChunker(c.h, bundle, gozstd.CompressDict(nil, c.Data, cdict))
		}
		if _, err := w.AddChunk(tc); err != nil {
			return nil, err
		}
	}
	_, name, err := w.Finish()
	if err != nil {
		return nil, err
	}
	if err := w.FlushToFile(filepath.Join(dir, name)); err != nil {
		return nil, err
	}
	os.RemoveAll(tmp)
	st, err := c10OpenStore("local", dir, mmap)
	if err != nil {
		return nil, err
	}
	if err := st.AddTableFilesToManifest(bg, map[string]int{strings.TrimSuffix(name, nbs.ArchiveFileSuffix): len(cs)}, oracle.GetAddrsCurry); err != nil {
		return nil, err
	}
	if err := c10Commit(st, firstHonest(cs)); err != nil {
		return nil, err
	}
	if err := st.Close(); err != nil {
		return nil, err
	}
	f.Chunks = cs
	f.States = []c10State{{Root: firstHonest(cs).String(), N: len(cs)}}
	f.resolve()
	return f, c10FinishFixture(f, nil)
}

// ---- journal store: several commits into the chunk journal -------------------------------------------------------
func c10FixtureJournal(id, dir string, r *rand.Rand, commits []int, maxBody int) (*c10Fixture, error) {
	f := &c10Fixture{ID: id, Store: "journal", Dir: dir}
	st, err := c10OpenStore("journal", dir, false)
	if err != nil {
		return nil, err
	}
	seen := map[hash.Hash]bool{}
	seen16 := map[[16]byte]bool{}
	for ci, n := range commits {
		fam := 0
		if n < 100 {
			fam = 1
		}
		var batch []c10Chunk
		for _, c := range c10GenChunks(r, n, fam, maxBody) {
			// the journal index keys chunks by their first 16 address bytes ("assumed to be globally unique"): forged family
			// members that differ only in the last 4 bytes are not inputs the journal can meet
			var k [16]byte
			copy(k[:], c.h[:16])
			if !seen[c.h] && !seen16[k] {
				seen[c.h] = true
				seen16[k] = true
				batch = append(batch, c)
			}
		}
		if err := c10Put(st, batch); err != nil {
			return nil, err
		}
		root := firstHonest(batch)
		if err := c10Commit(st, root); err != nil {
			return nil, fmt.Errorf("commit %d: %w", ci, err)
		}
		f.Chunks = append(f.Chunks, batch...)
		f.States = append(f.States, c10State{Root: root.String(), N: len(f.Chunks)})
	}
	if err := st.Close(); err != nil {
		return nil, err
	}
	f.resolve()
	if err := c10FinishFixture(f, nil); err != nil {
		return nil, err
	}
	// cross-check the state list against the journal the writer produced: the root records, in order, must be the
	// commit roots (an initial record for the empty root is allowed), each preceded by the chunk records of its commit.
	jt := f.target(chunks.JournalFileID)
	if jt == nil {
		return nil, fmt.Errorf("journal fixture without journal file")
	}
	var roots []hash.Hash
	nChunks := 0
	var counts []int
	for _, rec := range jt.Layout.Records {
		if rec.Kind == "root" {
			roots = append(roots, rec.Addr)
			counts = append(counts, nChunks)
		} else {
			nChunks++
		}
	}
	si := 0
	for i, rt := range roots {
		if si < len(f.States) && rt == f.States[si].root && counts[i] == f.States[si].N {
			si++
		}
	}
	if si != len(f.States) {
		return nil, fmt.Errorf("journal fixture %s: root records %v do not match the %d committed states", id, roots, len(f.States))
	}
	return f, nil
}
