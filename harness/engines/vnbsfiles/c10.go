package vnbsfiles

// C10 — corrupted storage files are reported, never misread (fault enumeration).
//
// For small valid stores of each kind (table files, archives with and without dictionary, chunk journal + index,
// manifests) produced by the real writers from a chunk model: every single-byte mutation (3 bit patterns) and every
// truncation point of files <= 4 KB, sampled single-byte / multi-byte / truncation faults of larger files, and
// boundary values in every length / count / offset field. Each mutated store is opened through the exported
// constructors in a child process and read completely; the outcome must be an error or model-equal data.
// Violation keys: c10/<file kind>/<format region of the mutated byte>/<outcome>.

import (
	"bytes"
	"encoding/binary"
	"encoding/json"
	"fmt"
	"math/rand"
	"os"
	"os/exec"
	"path/filepath"
	"regexp"
	"runtime"
	"sort"
	"strings"
	"sync"
	"syscall"
	"time"

	"github.com/dolthub/dolt/go/store/chunks"

	"verif/rig"
)

func init() { rig.SubCommands["c10-batch"] = c10BatchMain }

type c10Plan struct {
	exhaustive bool // every byte x 3 patterns + every truncation point
	singles    int  // sampled single-byte faults per region name (non-exhaustive files)
	bursts     int  // sampled multi-byte faults per region name
	truncs     int  // sampled truncation points (plus all region boundaries)
	fieldInst  int  // boundary values for at most this many instances per field region name (0 = all)
	skip       func(region string) bool
}

const c10SmallFile = 4096

func c10Width(max uint64, n int) []byte {
	b := make([]byte, 8)
	binary.BigEndian.PutUint64(b, max)
	return b[8-n:]
}

// c10GenCases enumerates the faults of one target file.
func c10GenCases(r *rand.Rand, fx *c10Fixture, t *c10Target, base []byte, plan c10Plan, nextID *int) []c10Case {
	var out []c10Case
	lay := t.Layout
	add := func(cs c10Case) {
		cs.ID = *nextID
		*nextID++
		cs.Fixture, cs.File, cs.Kind = fx.ID, t.File, t.Kind
		cs.JStateBefore = len(fx.States) - 1
		out = append(out, cs)
	}
	single := func(off int, op string) {
		old := base[off]
		var nb byte
		switch op {
		case "xor01":
			nb = old ^ 0x01
		case "xor80":
			nb = old ^ 0x80
		default:
			op = "fill"
			nb = 0x00
			if old == 0x00 {
				nb = 0xFF
			}
		}
		reg := lay.regionAt(off).Name
		if plan.skip != nil && plan.skip(reg) {
			return
		}
		add(c10Case{Region: reg, Op: op, Off: off, Val: []byte{nb}})
	}
	trunc := func(off int) {
		if off >= len(base) {
			return
		}
		reg := lay.regionAt(off).Name
		if plan.skip != nil && plan.skip(reg) {
			return
		}
		add(c10Case{Region: "truncate-" + reg, Op: "trunc", Off: off})
	}
	if plan.exhaustive {
		for off := range base {
			single(off, "xor01")
			single(off, "xor80")
			single(off, "fill")
		}
		for off := 0; off < len(base); off++ {
			trunc(off)
		}
	} else {
		byName := map[string][]c10Region{}
		for _, rg := range lay.Regions {
			byName[rg.Name] = append(byName[rg.Name], rg)
		}
		for _, name := range lay.names() {
			rs := byName[name]
			for i := 0; i < plan.singles; i++ {
				rg := rs[r.Intn(len(rs))]
				single(rg.Off+r.Intn(rg.Len), []string{"xor01", "xor80", "fill"}[r.Intn(3)])
			}
			for i := 0; i < plan.bursts; i++ {
				rg := rs[r.Intn(len(rs))]
				if plan.skip != nil && plan.skip(name) {
					continue
				}
				off := rg.Off + r.Intn(rg.Len)
				n := 2 + r.Intn(7)
				if off+n > rg.Off+rg.Len {
					n = rg.Off + rg.Len - off
				}
				val := make([]byte, n)
				r.Read(val)
				if bytes.Equal(val, base[off:off+n]) {
					val[0] ^= 0x55
				}
				add(c10Case{Region: name, Op: "burst", Off: off, Val: val})
			}
		}
		seenT := map[int]bool{}
		for _, rg := range lay.Regions {
			for _, o := range []int{rg.Off, rg.Off + 1, rg.Off + rg.Len - 1} {
				if o >= 0 && o < len(base) && !seenT[o] && len(seenT) < 4*plan.truncs {
					seenT[o] = true
				}
			}
		}
		var bounds []int
		for o := range seenT {
			bounds = append(bounds, o)
		}
		sort.Ints(bounds)
		r.Shuffle(len(bounds), func(i, j int) { bounds[i], bounds[j] = bounds[j], bounds[i] })
		if len(bounds) > plan.truncs {
			bounds = bounds[:plan.truncs]
		}
		sort.Ints(bounds)
		for _, o := range bounds {
			trunc(o)
		}
		for i := 0; i < plan.truncs; i++ {
			trunc(r.Intn(len(base)))
		}
	}
	// boundary values in fixed-width numeric fields
	inst := map[string]int{}
	var fields []c10Region
	for _, rg := range lay.Regions {
		if rg.Field {
			fields = append(fields, rg)
		}
	}
	if plan.fieldInst > 0 {
		r.Shuffle(len(fields), func(i, j int) { fields[i], fields[j] = fields[j], fields[i] })
	}
	for _, rg := range fields {
		if plan.skip != nil && plan.skip(rg.Name) {
			continue
		}
		if plan.fieldInst > 0 && inst[rg.Name] >= plan.fieldInst {
			continue
		}
		inst[rg.Name]++
		old := base[rg.Off : rg.Off+rg.Len]
		var cur uint64
		for _, b := range old {
			cur = cur<<8 | uint64(b)
		}
		max := uint64(1)<<(8*uint(rg.Len)) - 1
		if rg.Len == 8 {
			max = ^uint64(0)
		}
		vals := []struct {
			v    uint64
			name string
		}{{0, "0"}, {1, "1"}, {max - 1, "max-1"}, {max, "max"}, {cur + 1, "orig+1"}, {cur - 1, "orig-1"}, {max >> 1, "signed-max"}, {max>>1 + 1, "signed-min"}}
		for _, v := range vals {
			nb := c10Width(v.v&max, rg.Len)
			if bytes.Equal(nb, old) {
				continue
			}
			add(c10Case{Region: rg.Name, Op: "set", Off: rg.Off, Val: nb, Note: rg.Name + "=" + v.name})
		}
	}
	// the manifest's numeric fields are decimal text
	if t.Kind == "manifest" {
		for _, rg := range lay.Regions {
			if rg.Name != "spec-count" {
				continue
			}
			for _, s := range []string{"0", "1", "4294967295", "4294967296", "-1", "99999999999999999999", ""} {
				if s == string(base[rg.Off:rg.Off+rg.Len]) {
					continue
				}
				add(c10Case{Region: rg.Name, Op: "splice", Off: rg.Off, Del: rg.Len, Val: []byte(s), Note: "spec-count=" + s})
			}
		}
	}
	// the addresses named by the damaged journal record / index entry
	if t.Kind == "journalidx" {
		full := map[[16]byte]string{}
		for _, ch := range fx.Chunks {
			var k [16]byte
			copy(k[:], ch.h[:16])
			full[k] = ch.Addr
		}
		for i := range out {
			rg := lay.regionAt(out[i].Off)
			if strings.HasPrefix(rg.Name, "lookup-") {
				start := rg.Off
				switch rg.Name {
				case "lookup-addr":
					start = rg.Off - 1
				case "lookup-offset":
					start = rg.Off - 17
				case "lookup-length":
					start = rg.Off - 25
				}
				var k [16]byte
				copy(k[:], base[start+1:start+17])
				if a, ok := full[k]; ok {
					out[i].Focus = append(out[i].Focus, a)
				}
			}
		}
	}
	if t.Kind == "journal" {
		for i := range out {
			for _, rec := range lay.Records {
				if out[i].Off >= rec.Off && out[i].Off < rec.Off+rec.Len && rec.Kind == "chunk" {
					out[i].Focus = append(out[i].Focus, rec.Addr.String())
				}
			}
		}
	}
	// journal files: what the documented recovery rules allow for this damage
	if t.Kind == "journal" {
		stateRec := c10StateRecords(fx, lay)
		for i := range out {
			cs := &out[i]
			d := len(lay.Records)
			for k, rec := range lay.Records {
				if cs.Off < rec.Off+rec.Len {
					d = k
					break
				}
			}
			cs.JDamaged = d
			cs.JStateBefore = -1
			for s, ri := range stateRec {
				if ri < d {
					cs.JStateBefore = s
				}
			}
			if cs.Op != "trunc" {
				for j := d + 1; j < len(lay.Records); j++ {
					if lay.Records[j].Kind == "root" {
						cs.JMustDetect = j+1 < len(lay.Records)
						break
					}
				}
			}
		}
	}
	return out
}

// c10StateRecords maps each committed state to the index of its root record in the journal.
func c10StateRecords(fx *c10Fixture, lay *c10Layout) []int {
	var out []int
	si, nChunks := 0, 0
	for k, rec := range lay.Records {
		if rec.Kind == "chunk" {
			nChunks++
			continue
		}
		if si < len(fx.States) && rec.Addr == fx.States[si].root && nChunks == fx.States[si].N {
			out = append(out, k)
			si++
		}
	}
	return out
}

// ---- running batches in child processes ------------------------------------------------------------------------

type c10Runner struct {
	c           *rig.Ctx
	fixturesDir string
	scratch     string
	timeoutMs   int
	allocLimit  int64
	mu          sync.Mutex
	results     map[int]c10Result
	deaths      map[int]string // case id -> stderr signature of a child that died during it (reproduced)
	hangs       map[int]bool
	flaky       []string
	flakyDeath  map[int]string // case id -> first line of the death that did not reproduce for it
	pristine    map[string]c10Case
	slowOnce    int
	childRuns   int
}

var c10CrashRe = regexp.MustCompile(`(?m)^(panic: .*|fatal error: .*|runtime: out of memory.*|SIGSEGV.*|SIGBUS.*|unexpected fault address.*)$`)

func c10Signature(stderr []byte) string {
	m := c10CrashRe.Find(stderr)
	if m == nil {
		return ""
	}
	s := regexp.MustCompile(`0x[0-9a-f]+`).ReplaceAllString(string(m), "0x?")
	if len(s) > 200 {
		s = s[:200]
	}
	return s
}

// runChild runs the given cases in one child; returns the id of the case the child died / timed out in (or -1).
func (rn *c10Runner) runChild(cases []c10Case, tag string) (inflight int, timedOut bool, sig string, stderrTail string) {
	rn.mu.Lock()
	rn.childRuns++
	n := rn.childRuns
	rn.mu.Unlock()
	bdir := filepath.Join(rn.scratch, fmt.Sprintf("b%s-%d", tag, n))
	rig.Must(os.MkdirAll(bdir, 0o755))
	defer os.RemoveAll(bdir)
	const lingerID = -7
	sent := append(append([]c10Case(nil), cases...), c10Case{ID: lingerID, Op: "linger"})
	batch := c10Batch{FixturesDir: rn.fixturesDir, Scratch: bdir, TimeoutMs: rn.timeoutMs, AllocLimit: rn.allocLimit, Cases: sent}
	bj, _ := json.Marshal(batch)
	bpath := filepath.Join(bdir, "batch.json")
	rpath := filepath.Join(bdir, "results.jsonl")
	rig.Must(os.WriteFile(bpath, bj, 0o644))
	cmd := exec.Command(rig.Self(), "c10-batch", bpath, rpath)
	var errBuf bytes.Buffer
	cmd.Stderr = &limitedWriter{w: &errBuf, n: 16 << 20}
	cmd.Stdout = nil
	cmd.Env = append(os.Environ(), "GOTRACEBACK=all", "GOMAXPROCS=2")
	cmd.SysProcAttr = &syscall.SysProcAttr{Setpgid: true}
	rig.Must(cmd.Start())
	doneCh := make(chan error, 1)
	go func() { doneCh <- cmd.Wait() }()
	budget := time.Duration(len(cases))*time.Duration(rn.timeoutMs)*time.Millisecond/4 + 2*time.Minute
	for _, cs := range cases {
		budget += time.Duration(cs.TimeoutMs) * time.Millisecond
	}
	var werr error
	select {
	case werr = <-doneCh:
	case <-time.After(budget):
		syscall.Kill(-cmd.Process.Pid, syscall.SIGKILL)
		werr = <-doneCh
		timedOut = true
	}
	done, started, tmo := c10ReadResults(rpath)
	if dbg := os.Getenv("VERIF_C10_DEBUGLOG"); dbg != "" { // cost diagnosis of the harness itself
		if rb, err := os.ReadFile(rpath); err == nil {
			rn.mu.Lock()
			if f, err := os.OpenFile(dbg, os.O_APPEND|os.O_CREATE|os.O_WRONLY, 0o644); err == nil {
				f.Write(rb)
				f.Close()
			}
			rn.mu.Unlock()
		}
	}
	_, lingered := done[lingerID]
	delete(done, lingerID)
	rn.mu.Lock()
	for id, r := range done {
		rn.results[id] = r
	}
	rn.mu.Unlock()
	if werr == nil && lingered && len(done) == len(cases) {
		return -1, false, "", ""
	}
	inflight = -1
	for _, id := range started {
		if _, ok := done[id]; !ok && id != lingerID {
			inflight = id
		}
	}
	if inflight < 0 && werr != nil && len(done) > 0 {
		// The process died after its last started case had delivered a result: the death belongs to that case (a panicking
		// goroutine of the code under test lets its caller return first, see the linger pseudo-case).
		last := -1
		for _, cs := range cases {
			if _, ok := done[cs.ID]; ok {
				last = cs.ID
			}
		}
		inflight = last
		rn.mu.Lock()
		delete(rn.results, last)
		rn.mu.Unlock()
	}
	if inflight >= 0 && tmo[inflight] {
		timedOut = true
	}
	eb := errBuf.Bytes()
	sig = c10Signature(eb)
	if sig == "" && werr != nil && !timedOut {
		sig = "child exit: " + werr.Error()
	}
	if loc := c10CrashRe.FindIndex(eb); loc != nil {
		eb = eb[loc[0]:]
	}
	if len(eb) > 3000 {
		// keep the panic message + first frames
		eb = eb[:3000]
	}
	if inflight < 0 && werr != nil {
		// died outside any case: infrastructure
		rig.Must(fmt.Errorf("c10 child failed outside any case: %v\n%s", werr, string(eb)))
	}
	return inflight, timedOut, sig, string(eb)
}

type limitedWriter struct {
	w *bytes.Buffer
	n int
}

func (l *limitedWriter) Write(p []byte) (int, error) {
	if l.w.Len() < l.n {
		l.w.Write(p)
	}
	return len(p), nil
}

// runBatch runs a batch to completion, restarting the child after a death / hang; the in-flight case is re-run
// alone: only a reproduced death / hang is attributed to it.
func (rn *c10Runner) runBatch(cases []c10Case, tag string) {
	rest := cases
	for len(rest) > 0 {
		inflight, timedOut, sig, tail := rn.runChild(rest, tag)
		if inflight < 0 {
			return
		}
		var idx int
		for idx = range rest {
			if rest[idx].ID == inflight {
				break
			}
		}
		if !timedOut && (strings.Contains(sig, "out of memory") || strings.Contains(tail, "cannot allocate")) {
			// address-space exhaustion is a deterministic function of the input: attributed without a second attempt
			rn.mu.Lock()
			rn.deaths[inflight] = sig + "\n" + tail
			rn.mu.Unlock()
			rest = rest[idx+1:]
			continue
		}
		one := []c10Case{rest[idx]}
		if timedOut {
			// Calibrate before calling it a hang: time the UNMUTATED fixture in a fresh child under the current machine load and give
			// the suspect 40x that (at least the normal limit).
			if pc, ok := rn.pristine[rest[idx].Fixture]; ok {
				t0 := time.Now()
				rn.runChild([]c10Case{pc}, tag+"c")
				cal := int(time.Since(t0).Milliseconds()) * 40
				if cal > rn.timeoutMs {
					one[0].TimeoutMs = cal
				}
			}
		}
		in2, to2, sig2, tail2 := rn.runChild(one, tag+"r")
		rn.mu.Lock()
		switch {
		case in2 < 0 && timedOut:
			// the isolated attempt finished within the time limit and delivered a verdict: the first timeout was machine load
			rn.slowOnce++
		case in2 < 0 && idx > 0 && func() bool {
			// The isolated attempt finished. A goroutine of the PREVIOUS case may have been the one that panicked: try it alone.
			rn.mu.Unlock()
			defer rn.mu.Lock()
			prev := rest[idx-1]
			rn.mu.Lock()
			keep, had := rn.results[prev.ID]
			rn.mu.Unlock()
			inP, toP, sigP, tailP := rn.runChild([]c10Case{prev}, tag+"p")
			if inP >= 0 && !toP {
				rn.mu.Lock()
				if sigP == "" {
					sigP = sig
				}
				rn.deaths[prev.ID] = sigP + "\n" + tailP
				delete(rn.results, prev.ID)
				rn.mu.Unlock()
				return true
			}
			if had {
				rn.mu.Lock()
				rn.results[prev.ID] = keep
				rn.mu.Unlock()
			}
			return false
		}():
		case in2 < 0:
			r2, _ := json.Marshal(rn.results[inflight])
			if len(tail) > 900 {
				tail = tail[:900]
			}
			rn.flakyDeath[inflight] = strings.SplitN(sig, "\n", 2)[0]
			rn.flaky = append(rn.flaky, fmt.Sprintf("case %d (%s %s@%d %s %x): first attempt died (%s | %s), second attempt completed with %s", inflight, rest[idx].Kind, rest[idx].Region, rest[idx].Off,
				rest[idx].Op, rest[idx].Val, sig, strings.ReplaceAll(tail, "\n", " | "), string(r2)))
		case to2 && timedOut:
			rn.hangs[inflight] = true
		case !to2 && !timedOut:
			if sig2 == "" {
				sig2 = sig
			}
			rn.deaths[inflight] = sig2 + "\n" + tail2
		case strings.Contains(sig+tail+sig2+tail2, "out of memory") || strings.Contains(sig+tail+sig2+tail2, "cannot allocate"):
			// one attempt ran out of address space, the other was still page-faulting its way there when the timeout fired
			rn.deaths[inflight] = "fatal error: out of memory\n" + tail + tail2
		default:
			rn.flaky = append(rn.flaky, fmt.Sprintf("case %d: attempts disagree (timeout=%v/%v, %q / %q)", inflight, timedOut, to2, sig, sig2))
		}
		rn.mu.Unlock()
		rest = rest[idx+1:]
	}
}

// ---- the monitor -----------------------------------------------------------------------------------------------

func c10(c *rig.Ctx) {
	c.Rule("fixtures: table-file store (2 table files + manifest), larger table file, snappy archive (in-memory and mmap index readers), " +
		"archive with a zstd dictionary span, chunk journal with 4 commits (+ its index and manifest), journal large enough to be served from " +
		"journal.idx; all written by the real writers from a PRNG chunk model with forged 8-byte-prefix families. Faults: files <= 4 KB: every " +
		"byte x {^0x01, ^0x80, =0x00/0xFF} and every truncation point; larger files: per format region sampled single-byte faults, 2-8 byte " +
		"bursts confined to one region, truncations at region boundaries and random points; every fixed-width length/count/offset/ordinal field " +
		"set to 0, 1, max-1, max, signed max/min, orig+-1. Each faulted store is opened with NewLocalStore / NewLocalJournalingStore in a child " +
		"process and Root, Has/Get of every model address and its neighbours, HasMany, GetMany, GetManyCompressed, IterateAllChunks and Count are " +
		"compared with the model. A case is distinct/non-trivial per (file kind, format region, fault kind, outcome class)")
	c.Assume("outcome classes: error anywhere on the open/read path = reported (fine); data equal to the model = fine; violations: panic (recovered or " +
		"process death), fatal, huge-alloc (> 512 MB allocated while opening+reading one small store, or address-space exhaustion), hang (per-case " +
		"timeout reproduced in a fresh child), wrong-bytes (a chunk returned under an address whose model bytes differ / that was never written / " +
		"whose content hash differs in honest mode), wrong-root, phantom-present, count-mismatch, and — kept as separate classes — silently-absent " +
		"(a committed chunk reported absent without an error), lost-committed-state, data-loss-undetected")
	c.Assume("journal recovery rules (C03): damage after which only a lone trailing root record survives may be dropped silently (roll back to the " +
		"previous committed root); damage followed by a valid root record and at least one more valid record must be reported")
	c.Assume("IterateAllChunks on a journal served from journal.idx reports addresses cut to 16 bytes (documented in journalChunkSource); they are matched on 16 bytes")
	c.Assume("forged addresses are legal inputs (NBS never re-hashes on write); the honest-mode content-hash check applies to honest chunks only")

	fxDir := c.TempDir("c10fx")
	r := c.SubRand("c10/fixtures", 0)
	type tgtPlan struct {
		fx   *c10Fixture
		file func(t c10Target) bool
		plan c10Plan
	}
	var fixtures []*c10Fixture
	var plans []tgtPlan
	mk := func(id string) string {
		d := filepath.Join(fxDir, id)
		rig.Must(os.MkdirAll(d, 0o755))
		return d
	}
	must := func(f *c10Fixture, err error) *c10Fixture {
		rig.Must(err)
		fixtures = append(fixtures, f)
		return f
	}
	anyFile := func(c10Target) bool { return true }
	kindIs := func(k string) func(c10Target) bool { return func(t c10Target) bool { return t.Kind == k } }
	S := func(q, t int) int { return c.Pick(q, t) }

	// 1. table-file store: both table files and the manifest exhaustively
	f1 := must(c10FixtureTables("tables-small", mk("tables-small"), r, 7, 3, 20))
	plans = append(plans, tgtPlan{f1, anyFile, c10Plan{exhaustive: true, fieldInst: 3}})
	// 2. larger table file (sampled)
	f2 := must(c10FixtureTables("tables-large", mk("tables-large"), r, 130, 0, 70))
	plans = append(plans, tgtPlan{f2, kindIs("tablefile"), c10Plan{singles: S(60, 4000), bursts: S(30, 3000), truncs: S(40, 2000), fieldInst: S(6, 200)}})
	// 3. snappy archive, in-memory index reader: exhaustive
	f3 := must(c10FixtureArchive("archive-snappy", mk("archive-snappy"), r, 6, false, false, 18))
	plans = append(plans, tgtPlan{f3, kindIs("archive"), c10Plan{exhaustive: true, fieldInst: 3}})
	// 4. the same shape through the mmap index reader: index / metadata / footer exhaustively, data spans not again
	f4 := must(c10FixtureArchive("archive-snappy-mmap", mk("archive-snappy-mmap"), r, 6, false, true, 18))
	plans = append(plans, tgtPlan{f4, kindIs("archive"), c10Plan{exhaustive: true, fieldInst: 3, skip: func(rg string) bool {
		return strings.Contains(rg, "chunk-span") || strings.Contains(rg, "footer-checksums")
	}}})
	// 5. archive with a dictionary span and zstd chunks
	f5 := must(c10FixtureArchive("archive-dict", mk("archive-dict"), r, 5, true, false, 28))
	sz5 := 0
	for _, t := range f5.Targets {
		if t.Kind == "archive" {
			sz5 = t.Layout.Size
		}
	}
	if sz5 <= c10SmallFile {
		plans = append(plans, tgtPlan{f5, kindIs("archive"), c10Plan{exhaustive: true, fieldInst: 3, skip: func(rg string) bool { return strings.Contains(rg, "footer-checksums") }}})
	} else {
		plans = append(plans, tgtPlan{f5, kindIs("archive"), c10Plan{singles: S(150, 3000), bursts: S(80, 2000), truncs: S(80, 1000), fieldInst: 0}})
	}
	// 6. chunk journal: 4 commits; journal file, manifest and index file
	f6 := must(c10FixtureJournal("journal-small", mk("journal-small"), r, []int{2, 2, 3, 2}, 12))
	plans = append(plans, tgtPlan{f6, func(t c10Target) bool { return t.Kind == "journal" || t.Kind == "manifest" }, c10Plan{exhaustive: true, fieldInst: 3}})
	plans = append(plans, tgtPlan{f6, kindIs("journalidx"), c10Plan{singles: S(25, 200), bursts: S(10, 100), truncs: S(20, 200), fieldInst: S(4, 30)}})
	// 7. journal large enough for the writer to flush index metadata: reopen is served from journal.idx
	f7 := must(c10FixtureJournal("journal-indexed", mk("journal-indexed"), r, []int{16500, 6, 5}, 3))
	plans = append(plans, tgtPlan{f7, kindIs("journal"), c10Plan{singles: S(4, 400), bursts: S(2, 150), truncs: S(5, 300), fieldInst: S(2, 60)}})
	plans = append(plans, tgtPlan{f7, kindIs("journalidx"), c10Plan{singles: S(6, 500), bursts: S(2, 200), truncs: S(5, 300), fieldInst: S(2, 60)}})

	// cases: first the unmutated stores (the oracle must call them model-equal), then the faults
	nextID := 0
	var cases []c10Case
	pristine := map[int]string{}
	for _, fx := range fixtures {
		t := fx.Targets[0]
		pristine[nextID] = fx.ID
		cases = append(cases, c10Case{ID: nextID, Fixture: fx.ID, File: t.File, Kind: t.Kind, Region: "none", Op: "identity", JStateBefore: len(fx.States) - 1})
		nextID++
	}
	heavy := map[string]bool{"journal-indexed": true}
	for pi, p := range plans {
		for ti := range p.fx.Targets {
			t := &p.fx.Targets[ti]
			if !p.file(*t) {
				continue
			}
			base, err := os.ReadFile(filepath.Join(p.fx.Dir, t.File))
			rig.Must(err)
			plan := p.plan
			if plan.exhaustive && len(base) > c10SmallFile {
				plan = c10Plan{singles: S(150, 3000), bursts: S(80, 2000), truncs: S(80, 1000), skip: plan.skip}
				c.Note(fmt.Sprintf("%s/%s is %d bytes (> %d): sampled instead of exhaustive", p.fx.ID, t.Kind, len(base), c10SmallFile))
			}
			rr := c.SubRand(fmt.Sprintf("c10/cases/%s/%s", p.fx.ID, t.Kind), pi*100+ti)
			got := c10GenCases(rr, p.fx, t, base, plan, &nextID)
			cases = append(cases, got...)
			c.Count("c10.cases."+t.Kind, len(got))
			if plan.exhaustive {
				c.Count("c10.files_enumerated_exhaustively", 1)
				c.Count("c10.bytes_enumerated_exhaustively", len(base))
			}
		}
	}
	byID := map[int]*c10Case{}
	for i := range cases {
		byID[cases[i].ID] = &cases[i]
		cs := &cases[i]
		c.Case(fmt.Sprintf("c10/%s/%s/%s@%d", cs.Fixture, cs.Kind, cs.Op, cs.Off), map[string]any{"id": cs.ID, "file": cs.File, "region": cs.Region, "val": fmt.Sprintf("%x", cs.Val), "note": cs.Note})
	}

	// batches: consecutive cases; the journal-indexed fixture is heavy per case
	type batchT struct {
		cases []c10Case
		tag   string
	}
	var batches []batchT
	for i := 0; i < len(cases); {
		size := 600
		if heavy[cases[i].Fixture] {
			size = 25
		}
		j := i
		for j < len(cases) && j-i < size && cases[j].Fixture == cases[i].Fixture {
			j++
		}
		batches = append(batches, batchT{cases[i:j], fmt.Sprint(len(batches))})
		i = j
	}
	rn := &c10Runner{c: c, fixturesDir: fxDir, scratch: c.TempDir("c10run"), timeoutMs: 15000, allocLimit: 512,
		results: map[int]c10Result{}, deaths: map[int]string{}, hangs: map[int]bool{}, pristine: map[string]c10Case{}, flakyDeath: map[int]string{}}
	for id, fxid := range pristine {
		rn.pristine[fxid] = *byID[id]
	}
	workers := runtime.NumCPU() - 4
	if workers > 12 {
		workers = 12
	}
	if workers < 2 {
		workers = 2
	}
	// heavy batches first so that they do not form the tail
	sort.SliceStable(batches, func(i, j int) bool {
		return heavy[batches[i].cases[0].Fixture] && !heavy[batches[j].cases[0].Fixture]
	})
	ch := make(chan batchT)
	var wg sync.WaitGroup
	for w := 0; w < workers; w++ {
		wg.Add(1)
		go func() {
			defer wg.Done()
			for b := range ch {
				rn.runBatch(b.cases, b.tag)
			}
		}()
	}
	for _, b := range batches {
		ch <- b
	}
	close(ch)
	wg.Wait()
	// cases left without a verdict (a child that failed between cases) get one more, isolated, attempt
	for i := range cases {
		id := cases[i].ID
		if _, ok := rn.results[id]; !ok && !rn.hangs[id] && rn.deaths[id] == "" {
			rn.runBatch(cases[i:i+1], "m")
		}
	}

	// ---- verdicts, in case order ----
	for id, fxid := range pristine {
		res, ok := rn.results[id]
		if !ok || res.Class != "equal" {
			b, _ := json.Marshal(res)
			c.Inconclusive(fmt.Sprintf("the unmutated fixture %s is not read back model-equal by the oracle (harness problem): %s %s", fxid, string(b), rn.deaths[id]))
		}
		if fxid == "journal-indexed" {
			c.Count("c10.journal_iteration_addr16_matches_pristine", res.Addr16)
			c.Require(res.Addr16 > 0, "the journal-indexed fixture was not served from journal.idx (no 16-byte addresses seen in iteration)")
		}
	}
	type agg struct {
		n       int
		witness map[string]any
		what    string
	}
	viols := map[string]*agg{}
	var order []string
	lastCounted := map[string]int{}
	report := func(cs *c10Case, outcome, path, detail string, extra map[string]any) {
		key := fmt.Sprintf("c10/%s/%s/%s", cs.Kind, cs.Region, outcome)
		if id, ok := lastCounted[key]; ok && id == cs.ID {
			return // count cases, not read paths
		}
		lastCounted[key] = cs.ID
		a := viols[key]
		if a == nil {
			a = &agg{}
			viols[key] = a
			order = append(order, key)
			w := map[string]any{"fixture": cs.Fixture, "file_kind": cs.Kind, "file": cs.File, "region": cs.Region, "op": cs.Op, "offset": cs.Off,
				"bytes_written": fmt.Sprintf("%x", cs.Val), "note": cs.Note, "read_path": path, "case_id": cs.ID}
			for k, v := range extra {
				w[k] = v
			}
			a.witness = w
			a.what = fmt.Sprintf("%s, %s at offset %d (%s %x) of a %s: %s", cs.Region, cs.Op, cs.Off, cs.Note, cs.Val, cs.Kind, detail)
		}
		a.n++
	}
	outcomes := map[string]int{}
	regionOutcome := map[string]map[string]int{}
	missing := 0
	rollbacks := 0
	var maxAlloc int64
	msByFixture := map[string]int64{}
	for i := range cases {
		cs := &cases[i]
		if _, isP := pristine[cs.ID]; isP {
			continue
		}
		ro := func(o string) {
			k := cs.Kind + "/" + cs.Region
			if regionOutcome[k] == nil {
				regionOutcome[k] = map[string]int{}
			}
			regionOutcome[k][o]++
			outcomes[cs.Kind+"."+o]++
			opc := cs.Op
			if opc == "xor01" || opc == "xor80" || opc == "fill" {
				opc = "byte"
			}
			c.Distinct(cs.Kind + "/" + cs.Region + "/" + opc + "/" + o)
		}
		if sig, dead := rn.deaths[cs.ID]; dead {
			first := strings.SplitN(sig, "\n", 2)[0]
			outcome := "fatal"
			switch {
			case strings.Contains(sig, "out of memory") || strings.Contains(sig, "cannot allocate memory"):
				outcome = "huge-alloc"
			case strings.HasPrefix(first, "panic:"):
				outcome = "panic"
			}
			report(cs, outcome, "process", "the reading process died (reproduced in a fresh process): "+first, map[string]any{"stderr": sig})
			ro(outcome)
			continue
		}
		if rn.hangs[cs.ID] {
			report(cs, "hang", "process", fmt.Sprintf("open+read did not finish within %d ms, in two separate processes", rn.timeoutMs), nil)
			ro("hang")
			continue
		}
		res, ok := rn.results[cs.ID]
		if !ok {
			missing++
			continue
		}
		if res.AllocMB > maxAlloc {
			maxAlloc = res.AllocMB
		}
		msByFixture[cs.Fixture] += res.Millis
		last := -1
		for _, fx := range fixtures {
			if fx.ID == cs.Fixture {
				last = len(fx.States) - 1
			}
		}
		for _, v := range res.Viols {
			report(cs, v.Outcome, v.Path, v.Detail, map[string]any{"root_seen": res.RootSeen, "first_error": res.Err})
		}
		// committed-state rules (journal recovery): silent only
		if res.Class != "error" && res.State > -2 && res.Err == "" {
			if res.State < cs.JStateBefore {
				report(cs, "lost-committed-state", "Root", fmt.Sprintf("the store silently presents committed state %d (root %s); the damage lies after the root record of state %d",
					res.State, res.RootSeen, cs.JStateBefore), nil)
				res.Class = "violation"
			} else if res.State < last && cs.JMustDetect {
				report(cs, "data-loss-undetected", "Root", fmt.Sprintf("record %d is damaged and a valid root record followed by further valid records survives after it, "+
					"yet the store opens without error at committed state %d of %d", cs.JDamaged, res.State, last), nil)
				res.Class = "violation"
			} else if res.State < last {
				rollbacks++
			}
		}
		if len(res.Viols) > 0 || res.Class == "violation" {
			ro("violation")
		} else {
			ro(res.Class)
		}
	}
	for k, n := range outcomes {
		c.Count("c10.outcome."+k, n)
	}
	c.Count("c10.journal_silent_rollback_to_previous_root_allowed", rollbacks)
	c.Count("c10.child_processes", rn.childRuns)
	c.Count("c10.timeouts_not_reproduced_in_isolation", rn.slowOnce)
	for k, v := range msByFixture {
		c.Count("c10.cpu_ms."+k, int(v))
	}
	c.Count("c10.max_alloc_mb_single_case", int(maxAlloc))
	for _, key := range order {
		a := viols[key]
		a.witness["occurrences"] = a.n
		c.Violation(key, fmt.Sprintf("[%d cases] %s", a.n, a.what), a.witness)
		c.Count("c10.violations."+strings.TrimPrefix(key, "c10/"), a.n)
	}
	// region table as a sample
	var rows []string
	for k, m := range regionOutcome {
		rows = append(rows, fmt.Sprintf("%s: %v", k, m))
	}
	sort.Strings(rows)
	c.Sample(map[string]any{"outcomes_per_region": rows})
	for _, fx := range fixtures {
		var files []string
		for _, t := range fx.Targets {
			files = append(files, fmt.Sprintf("%s(%s,%dB,regions=%v)", t.File, t.Kind, t.Layout.Size, t.Layout.names()))
		}
		c.Sample(map[string]any{"fixture": fx.ID, "store": fx.Store, "chunks": len(fx.Chunks), "states": len(fx.States), "files": files})
	}
	// A death that did not reproduce for the case it was first charged to, but is reproduced — same panic message, which carries the
	// input-specific numbers — by an adjacent case of the same batch, was that neighbour's: nothing is left unexplained.
	explained := 0
	for _, f := range rn.flaky {
		var id int
		fmt.Sscanf(f, "case %d", &id)
		ok := false
		if first := rn.flakyDeath[id]; first != "" {
			for d := -2; d <= 2; d++ {
				if d != 0 && strings.HasPrefix(rn.deaths[id+d], first) {
					ok = true
				}
			}
		}
		if ok {
			explained++
			continue
		}
		c.Inconclusive("not reproducible on a second attempt: " + f)
	}
	c.Count("c10.deaths_charged_to_adjacent_case_first", explained)
	if missing > 0 {
		c.Inconclusive(fmt.Sprintf("%d cases produced no result", missing))
	}
	// non-vacuity: each file kind saw reported errors and harmless faults
	for _, k := range []string{"tablefile", "archive", "journal", "manifest"} {
		c.Require(outcomes[k+".error"] > 0, "no fault of a "+k+" was reported as an error")
	}
	c.Require(outcomes["archive.equal"] > 0, "no harmless fault observed (the archive footer has 192 dead bytes)")
	_ = chunks.JournalFileID
	_ = rand.Int
}
