package vnbsfiles

// The C10 batch child: applies one mutation at a time to a private copy of a fixture directory, opens it with the
// exported constructors (what users hit) and reads everything. A panic inside the read path is recovered and
// reported; a death of the process is detected by the parent and attributed to the case logged last.

import (
	"bufio"
	"bytes"
	"context"
	"encoding/json"
	"fmt"
	"os"
	"path/filepath"
	"runtime/debug"
	"runtime/metrics"
	"runtime/pprof"
	"sort"
	"strings"
	"sync"
	"syscall"
	"time"

	"github.com/dolthub/dolt/go/store/chunks"
	"github.com/dolthub/dolt/go/store/hash"
	"github.com/dolthub/dolt/go/store/nbs"

	"verif/oracle"
)

// c10Case is one mutated file. Everything needed to re-create it is in here (it is written to disk before the attempt).
type c10Case struct {
	ID      int    `json:"id"`
	Fixture string `json:"fixture"`
	File    string `json:"file"`
	Kind    string `json:"kind"`   // tablefile | archive | journal | journalidx | manifest
	Region  string `json:"region"` // format region of the first mutated byte ("truncate-<region>" for truncations)
	Op      string `json:"op"`     // xor01 | xor80 | fill | set | burst | trunc
	Off     int    `json:"off"`
	Val     []byte `json:"val,omitempty"`  // bytes written at Off (set/burst/fill/xor: the resulting bytes)
	Del     int    `json:"del,omitempty"`  // splice: number of bytes replaced by Val
	Note    string `json:"note,omitempty"` // e.g. "footer-count=max"
	// TimeoutMs overrides the batch's per-case limit (calibrated second attempt after a timeout)
	TimeoutMs int `json:"timeout_ms,omitempty"`
	// Focus: addresses named by the damaged record / index entry (large fixtures probe these plus a fixed sample)
	Focus []string `json:"focus,omitempty"`
	// journal-file cases: what the recovery rules allow (computed by the parent from the record layout)
	JDamaged     int  `json:"jdamaged,omitempty"`    // index of the first damaged record
	JStateBefore int  `json:"jstate_before"`         // last committed state wholly before the damage (-1: none)
	JMustDetect  bool `json:"jmust_detect,omitempty"` // a root record followed by >=1 record survives after the damage
}

type c10Viol struct {
	Outcome string `json:"outcome"` // panic | wrong-bytes | silently-absent | wrong-root | phantom-present | huge-alloc | ...
	Path    string `json:"path"`    // Get | Has | GetMany | ...
	Detail  string `json:"detail"`
}

type c10Result struct {
	T        string    `json:"t"` // start | done | timeout
	ID       int       `json:"id"`
	Class    string    `json:"class,omitempty"` // error | equal | violation
	Err      string    `json:"err,omitempty"`   // first error observed (open or read)
	ErrAt    string    `json:"err_at,omitempty"`
	Viols    []c10Viol `json:"viols,omitempty"`
	State    int       `json:"state"` // index of the committed state the store presented (-1: empty root, -2: unknown root)
	AllocMB  int64     `json:"alloc_mb,omitempty"`
	Errors   int       `json:"errors,omitempty"`
	Addr16   int       `json:"addr16,omitempty"`
	Millis   int64     `json:"ms,omitempty"`
	OptAbs   int       `json:"opt_absent,omitempty"`
	RootSeen string    `json:"root_seen,omitempty"`
	ByContent int      `json:"by_content,omitempty"`
}

type c10Batch struct {
	FixturesDir string    `json:"fixtures_dir"`
	Scratch     string    `json:"scratch"`
	TimeoutMs   int       `json:"timeout_ms"`
	AllocLimit  int64     `json:"alloc_limit_mb"`
	Cases       []c10Case `json:"cases"`
}

const c10ExitTimeout = 7

func c10AllocBytes() uint64 {
	s := []metrics.Sample{{Name: "/gc/heap/allocs:bytes"}}
	metrics.Read(s)
	if s[0].Value.Kind() == metrics.KindUint64 {
		return s[0].Value.Uint64()
	}
	return 0
}

// c10BatchMain is the entry point of the helper process: c10-batch <batch.json> <results.jsonl>
func c10BatchMain(args []string) int {
	if len(args) != 2 {
		fmt.Fprintln(os.Stderr, "usage: c10-batch <batch.json> <results.jsonl>")
		return 2
	}
	// Address-space backstop: a length field turned into gigabytes must fail inside this child, not take the host down.
	lim := syscall.Rlimit{Cur: 2 << 30, Max: 2 << 30} // the Go runtime itself needs > 1 GB of address space
	syscall.Setrlimit(syscall.RLIMIT_AS, &lim)
	// Opening a store allocates tens of MB of buffers (journal: 5+5+10 MB; iteration: 4 MB per table file). Collect rarely and
	// keep the heap mapped, otherwise every case pays page faults for freshly scavenged memory.
	switch os.Getenv("VERIF_C10_GC") {
	case "50":
		debug.SetGCPercent(50)
	case "100":
	default:
		lim := int64(256)
		if v := os.Getenv("VERIF_C10_MEMLIMIT_MB"); v != "" {
			fmt.Sscan(v, &lim)
		}
		debug.SetGCPercent(-1)
		debug.SetMemoryLimit(lim << 20)
	}
	if pf := os.Getenv("VERIF_C10_PROF"); pf != "" { // cost diagnosis of the harness itself
		if f, err := os.Create(pf); err == nil {
			pprof.StartCPUProfile(f)
			defer pprof.StopCPUProfile()
		}
	}
	nbs.TableIndexGCFinalizerWithStackTrace = false
	b, err := os.ReadFile(args[0])
	if err != nil {
		fmt.Fprintln(os.Stderr, "VERIF-INFRA:", err)
		return 3
	}
	var batch c10Batch
	if err := json.Unmarshal(b, &batch); err != nil {
		fmt.Fprintln(os.Stderr, "VERIF-INFRA:", err)
		return 3
	}
	rf, err := os.OpenFile(args[1], os.O_APPEND|os.O_CREATE|os.O_WRONLY, 0o644)
	if err != nil {
		fmt.Fprintln(os.Stderr, "VERIF-INFRA:", err)
		return 3
	}
	defer rf.Close()
	emit := func(r c10Result) {
		line, _ := json.Marshal(r)
		rf.Write(append(line, '\n'))
	}
	fixtures := map[string]*c10Fixture{}
	baseBytes := map[string][]byte{}
	timeout := time.Duration(batch.TimeoutMs) * time.Millisecond
	for _, cs := range batch.Cases {
		if cs.Op == "linger" {
			// Keeps the process alive after the previous case: a panic in a goroutine of the code under test (errgroup runs its
			// deferred done() while unwinding, which lets the caller return before the runtime has killed the process) must
			// land in THIS process, where the parent can see and attribute it.
			emit(c10Result{T: "start", ID: cs.ID})
			time.Sleep(250 * time.Millisecond)
			emit(c10Result{T: "done", ID: cs.ID, Class: "linger"})
			continue
		}
		fx := fixtures[cs.Fixture]
		if fx == nil {
			fb, err := os.ReadFile(filepath.Join(batch.FixturesDir, cs.Fixture, "fixture.json"))
			if err != nil {
				fmt.Fprintln(os.Stderr, "VERIF-INFRA:", err)
				return 3
			}
			fx = &c10Fixture{}
			if err := json.Unmarshal(fb, fx); err != nil {
				fmt.Fprintln(os.Stderr, "VERIF-INFRA:", err)
				return 3
			}
			fx.resolve()
			fx.Dir = filepath.Join(batch.FixturesDir, cs.Fixture)
			fixtures[cs.Fixture] = fx
			for _, name := range fx.Files {
				fbb, err := os.ReadFile(filepath.Join(fx.Dir, name))
				if err != nil {
					fmt.Fprintln(os.Stderr, "VERIF-INFRA:", err)
					return 3
				}
				baseBytes[cs.Fixture+"/"+name] = fbb
			}
		}
		emit(c10Result{T: "start", ID: cs.ID}) // the input description is on disk (batch file) before the attempt
		dir := filepath.Join(batch.Scratch, fmt.Sprintf("case-%d", cs.ID))
		os.RemoveAll(dir)
		if err := os.MkdirAll(dir, 0o755); err != nil {
			fmt.Fprintln(os.Stderr, "VERIF-INFRA:", err)
			return 3
		}
		for _, name := range fx.Files {
			data := baseBytes[cs.Fixture+"/"+name]
			if name == cs.File {
				data = c10Apply(data, cs)
			}
			if err := os.WriteFile(filepath.Join(dir, name), data, 0o644); err != nil {
				fmt.Fprintln(os.Stderr, "VERIF-INFRA:", err)
				return 3
			}
		}
		t0 := time.Now()
		a0 := c10AllocBytes()
		done := make(chan c10Result, 1)
		go func() {
			res := c10Result{T: "done", ID: cs.ID}
			defer func() {
				if r := recover(); r != nil {
					st := string(debug.Stack())
					res.Viols = append(res.Viols, c10Viol{Outcome: "panic", Path: c10PanicSite(st), Detail: fmt.Sprintf("%v\n%s", r, c10TrimStack(st))})
					res.Class = "violation"
				}
				done <- res
			}()
			c10ReadAll(fx, dir, cs.Focus, batch.AllocLimit, &res)
		}()
		var res c10Result
		select {
		case res = <-done:
		case <-time.After(func() time.Duration {
			if cs.TimeoutMs > 0 {
				return time.Duration(cs.TimeoutMs) * time.Millisecond
			}
			return timeout
		}()):
			emit(c10Result{T: "timeout", ID: cs.ID})
			rf.Close()
			return c10ExitTimeout
		}
		res.Millis = time.Since(t0).Milliseconds()
		res.AllocMB = int64((c10AllocBytes() - a0) >> 20)
		if batch.AllocLimit > 0 && res.AllocMB > batch.AllocLimit {
			res.Viols = append(res.Viols, c10Viol{Outcome: "huge-alloc", Path: "process",
				Detail: fmt.Sprintf("opening and reading a %d-byte file allocated %d MB (limit %d MB)", len(baseBytes[cs.Fixture+"/"+cs.File]), res.AllocMB, batch.AllocLimit)})
		}
		if len(res.Viols) > 0 {
			res.Class = "violation"
		} else if res.Errors > 0 {
			res.Class = "error"
		} else {
			res.Class = "equal"
		}
		emit(res)
		os.RemoveAll(dir)
	}
	return 0
}

func c10TrimStack(st string) string {
	lines := strings.Split(st, "\n")
	var keep []string
	for i := 0; i < len(lines) && len(keep) < 16; i++ {
		if strings.Contains(lines[i], "dolt/go/store") || strings.Contains(lines[i], "runtime/panic") || strings.Contains(lines[i], "runtime.") && i < 8 {
			keep = append(keep, strings.TrimSpace(lines[i]))
		}
	}
	return strings.Join(keep, "\n")
}

// c10PanicSite names the innermost dolt function on the panicking stack.
func c10PanicSite(st string) string {
	for _, ln := range strings.Split(st, "\n") {
		if strings.HasPrefix(ln, "github.com/dolthub/dolt/go/store/") {
			s := strings.TrimPrefix(ln, "github.com/dolthub/dolt/go/store/")
			if i := strings.Index(s, "("); i > 0 && !strings.HasPrefix(s, "nbs.(") && !strings.HasPrefix(s, "hash.(") {
				s = s[:i]
			} else if j := strings.LastIndex(s, "("); j > 0 {
				s = s[:j]
			}
			return s
		}
	}
	return "?"
}

// c10Apply returns the mutated file content.
func c10Apply(data []byte, cs c10Case) []byte {
	out := append([]byte(nil), data...)
	if cs.Op == "trunc" {
		return out[:cs.Off]
	}
	if cs.Op == "identity" {
		return out
	}
	if cs.Op == "splice" {
		res := append([]byte(nil), data[:cs.Off]...)
		res = append(res, cs.Val...)
		return append(res, data[cs.Off+cs.Del:]...)
	}
	copy(out[cs.Off:], cs.Val)
	return out
}

// c10ReadAll opens the store in dir and reads everything, comparing with the fixture's model.
func c10ReadAll(fx *c10Fixture, dir string, focus []string, allocLimitMB int64, res *c10Result) {
	ctx := context.Background()
	a0 := c10AllocBytes()
	// tooMuch: once the allocation budget of a case is blown the verdict (huge-alloc) is fixed; the remaining read paths
	// would repeat the same multi-GB allocations
	tooMuch := func() bool { return allocLimitMB > 0 && int64((c10AllocBytes()-a0)>>20) > allocLimitMB }
	noteErr := func(at string, err error) {
		res.Errors++
		if res.Err == "" {
			res.Err, res.ErrAt = err.Error(), at
			if len(res.Err) > 300 {
				res.Err = res.Err[:300]
			}
		}
	}
	var vmu sync.Mutex
	viol := func(outcome, path, detail string) {
		vmu.Lock()
		defer vmu.Unlock()
		for _, v := range res.Viols {
			if v.Outcome == outcome && v.Path == path {
				return // one witness per (outcome, path) and case
			}
		}
		res.Viols = append(res.Viols, c10Viol{Outcome: outcome, Path: path, Detail: detail})
	}
	hasViol := func(outcome, path string) bool {
		vmu.Lock()
		defer vmu.Unlock()
		for _, v := range res.Viols {
			if v.Outcome == outcome && v.Path == path {
				return true
			}
		}
		return false
	}
	res.State = -2
	st, err := c10OpenStore(fx.Store, dir, fx.Mmap)
	if err != nil {
		noteErr("open", err)
		return
	}
	defer st.Close()
	root, err := st.Root(ctx)
	if err != nil {
		noteErr("Root", err)
		return
	}
	res.RootSeen = root.String()
	// which committed state is this?
	state := -2
	if root.IsEmpty() {
		state = -1
	}
	for i := len(fx.States) - 1; i >= 0; i-- {
		if fx.States[i].root == root {
			state = i
			break
		}
	}
	res.State = state
	if state == -2 {
		viol("wrong-root", "Root", fmt.Sprintf("Root() = %s, which no commit of the model ever set (committed roots end with %s)", root, fx.States[len(fx.States)-1].Root))
	}
	// required: chunks committed at that state; optional: later chunks (a journal keeps chunk records that follow its last
	// surviving root record); the table-file/archive fixtures have a single state, so everything is required there.
	nReq := 0
	if state >= 0 {
		nReq = fx.States[state].N
	}
	if state == -2 {
		nReq = 0 // judged by wrong-root already; still verify that whatever is returned is correct
	}
	model := map[hash.Hash][]byte{}
	forged := map[hash.Hash]bool{}
	required := map[hash.Hash]bool{}
	by16 := map[[16]byte]hash.Hash{}
	for i, c := range fx.Chunks {
		model[c.h] = c.Data
		forged[c.h] = c.Forged
		if i < nReq {
			required[c.h] = true
		}
		var k [16]byte
		copy(k[:], c.h[:16])
		by16[k] = c.h
	}
	// Small fixtures: every model address and its neighbours. Large fixtures (journal served from its index): HasMany,
	// IterateAllChunks and Count still cover every chunk; the per-address paths probe the addresses named by the damaged
	// record / index entry, a fixed sample of the rest and all chunks of the later commits.
	probes := hash.NewHashSet()
	large := len(fx.Chunks) > 2000
	step := 1
	if large {
		step = len(fx.Chunks) / 150
	}
	firstN := 0
	if len(fx.States) > 0 {
		firstN = fx.States[0].N
	}
	for i, c := range fx.Chunks {
		if large && i%step != 0 && i < firstN-8 {
			continue
		}
		probes.Insert(c.h)
		if !large || i%(step*4) == 0 || i >= firstN-8 {
			for _, nb := range oracle.Neighbours(c.h) {
				probes.Insert(nb)
			}
		}
	}
	// Guard-rails for forged addresses (a device of this harness, not inputs Dolt can meet):
	//  * the journal index keys chunks by the first 16 address bytes ("assumed to be globally unique"): probes that share
	//    16 bytes with a written chunk without being one are not asked;
	//  * archiveChunkSource.getMany labels its deliveries with the content hash (chunks.NewChunk): a forged chunk delivered
	//    under the hash of its bytes is matched by content.
	forgedByContent := map[hash.Hash][]hash.Hash{}
	for _, c := range fx.Chunks {
		if c.Forged {
			ch := hash.Of(c.Data)
			forgedByContent[ch] = append(forgedByContent[ch], c.h)
		}
	}
	for _, f := range focus {
		if h, ok := hash.MaybeParse(f); ok {
			probes.Insert(h)
			for _, nb := range oracle.Neighbours(h) {
				probes.Insert(nb)
			}
		}
	}
	if fx.Store == "journal" {
		for h := range probes {
			var k [16]byte
			copy(k[:], h[:16])
			if _, isModel := model[h]; !isModel {
				if _, clash := by16[k]; clash {
					delete(probes, h)
				}
			}
		}
	}
	sorted := oracle.SortedHashes(probes)
	allAddrs := probes
	if large {
		allAddrs = probes.Copy()
		for _, c := range fx.Chunks {
			allAddrs.Insert(c.h)
		}
	}

	// checkChunk: a chunk returned under address h.
	checkChunk := func(path string, h hash.Hash, data []byte, allow16 bool) (hash.Hash, bool) {
		want, ok := model[h]
		if !ok && allow16 && h[16] == 0 && h[17] == 0 && h[18] == 0 && h[19] == 0 {
			var k [16]byte
			copy(k[:], h[:16])
			if full, ok16 := by16[k]; ok16 {
				res.Addr16++
				h, want, ok = full, model[full], true
			}
		}
		if !ok {
			viol("wrong-bytes", path, fmt.Sprintf("%s returned %d bytes under address %s, which was never written (content hash of the bytes: %s)", path, len(data), h, hash.Of(data)))
			return h, false
		}
		if !bytes.Equal(want, data) {
			viol("wrong-bytes", path, fmt.Sprintf("%s returned %d bytes under address %s that differ from the %d bytes written (content hash of the returned bytes: %s)", path, len(data), h, len(want), hash.Of(data)))
			return h, false
		}
		if !forged[h] && hash.Of(data) != h {
			viol("wrong-bytes", path, fmt.Sprintf("%s: content hash of the bytes returned under %s is %s", path, h, hash.Of(data)))
			return h, false
		}
		return h, true
	}
	absent := func(path string, h hash.Hash) {
		if required[h] {
			viol("silently-absent", path, fmt.Sprintf("%s reports committed chunk %s absent, without any error", path, h))
		} else if _, ok := model[h]; ok {
			res.OptAbs++
		}
	}

	for _, h := range sorted {
		if tooMuch() {
			return
		}
		has, err := st.Has(ctx, h)
		if err != nil {
			noteErr("Has", err)
		} else if has {
			if _, ok := model[h]; !ok {
				viol("phantom-present", "Has", fmt.Sprintf("Has(%s) = true for an address that was never written", h))
			}
		} else {
			absent("Has", h)
		}
		ch, err := st.Get(ctx, h)
		if err != nil {
			noteErr("Get", err)
		} else if ch.IsEmpty() {
			absent("Get", h)
		} else {
			if ch.Hash() != h {
				viol("wrong-bytes", "Get", fmt.Sprintf("Get(%s) returned a chunk labelled %s", h, ch.Hash()))
			} else {
				checkChunk("Get", h, ch.Data(), false)
			}
		}
	}
	if tooMuch() {
		return
	}
	// HasMany
	if abs, err := st.HasMany(ctx, allAddrs.Copy()); err != nil {
		noteErr("HasMany", err)
	} else {
		for _, h := range oracle.SortedHashes(allAddrs) {
			_, inModel := model[h]
			if abs.Has(h) {
				absent("HasMany", h)
			} else if !inModel {
				viol("phantom-present", "HasMany", fmt.Sprintf("HasMany does not list never-written address %s as absent", h))
			}
		}
	}
	// GetMany / GetManyCompressed
	var mu sync.Mutex
	got := map[hash.Hash]int{}
	err = st.GetMany(ctx, probes.Copy(), func(_ context.Context, ch *chunks.Chunk) {
		mu.Lock()
		defer mu.Unlock()
		if !probes.Has(ch.Hash()) {
			if fs := forgedByContent[ch.Hash()]; len(fs) > 0 && hash.Of(ch.Data()) == ch.Hash() {
				for _, f := range fs {
					if got[f] == 0 {
						got[f]++
						res.ByContent++
						return
					}
				}
			}
			viol("wrong-bytes", "GetMany", fmt.Sprintf("GetMany delivered a chunk labelled %s, which was not requested (content hash %s)", ch.Hash(), hash.Of(ch.Data())))
			return
		}
		if h, ok := checkChunk("GetMany", ch.Hash(), ch.Data(), false); ok {
			got[h]++
		}
	})
	if err != nil {
		noteErr("GetMany", err)
	} else if !hasViol("wrong-bytes", "GetMany") { // a chunk delivered under a wrong label is one defect, not two
		for _, h := range sorted {
			if _, ok := model[h]; ok && got[h] == 0 {
				absent("GetMany", h)
			}
		}
	}
	if tooMuch() {
		return
	}
	got2 := map[hash.Hash]int{}
	err = st.GetManyCompressed(ctx, probes.Copy(), func(_ context.Context, tc nbs.ToChunker) {
		mu.Lock()
		defer mu.Unlock()
		if !probes.Has(tc.Hash()) {
			viol("wrong-bytes", "GetManyCompressed", fmt.Sprintf("GetManyCompressed delivered a chunk labelled %s, which was not requested", tc.Hash()))
			return
		}
		ch, err := tc.ToChunk()
		if err != nil {
			noteErr("GetManyCompressed.ToChunk", err)
			got2[tc.Hash()]++ // reported, not absent
			return
		}
		if h, ok := checkChunk("GetManyCompressed", tc.Hash(), ch.Data(), false); ok {
			got2[h]++
		} else {
			got2[tc.Hash()]++
		}
	})
	if err != nil {
		noteErr("GetManyCompressed", err)
	} else {
		for _, h := range sorted {
			if _, ok := model[h]; ok && got2[h] == 0 {
				absent("GetManyCompressed", h)
			}
		}
	}
	if tooMuch() {
		return
	}
	// full iteration and count
	seen := map[hash.Hash]int{}
	total := 0
	err = st.IterateAllChunks(ctx, func(ch chunks.Chunk) {
		mu.Lock()
		defer mu.Unlock()
		total++
		h, _ := checkChunk("IterateAllChunks", ch.Hash(), ch.Data(), fx.Store == "journal")
		seen[h]++ // delivered (a delivery with wrong bytes is already one defect: wrong-bytes)
	})
	if err != nil {
		noteErr("IterateAllChunks", err)
	} else {
		for h := range required {
			if seen[h] == 0 {
				absent("IterateAllChunks", h)
			}
		}
		if cnt, err := st.Count(ctx); err != nil {
			noteErr("Count", err)
		} else if int(cnt) != total {
			viol("count-mismatch", "Count", fmt.Sprintf("Count() = %d but a complete iteration (no error) produced %d chunks", cnt, total))
		}
	}
}

// c10ReadResults parses a results file.
func c10ReadResults(path string) (done map[int]c10Result, started []int, timedOut map[int]bool) {
	done, timedOut = map[int]c10Result{}, map[int]bool{}
	f, err := os.Open(path)
	if err != nil {
		return
	}
	defer f.Close()
	sc := bufio.NewScanner(f)
	sc.Buffer(make([]byte, 1<<20), 1<<26)
	for sc.Scan() {
		var r c10Result
		if json.Unmarshal(sc.Bytes(), &r) != nil {
			continue
		}
		switch r.T {
		case "start":
			started = append(started, r.ID)
		case "done":
			done[r.ID] = r
		case "timeout":
			timedOut[r.ID] = true
		}
	}
	sort.Ints(started)
	return
}
