package vnbsfiles

import (
	"encoding/json"
	"fmt"
	"os"

	"verif/rig"
)

// c10-debug-batch <batch.json>: runs one batch through the parent-side runner (death / hang attribution) and prints
// what it concluded. Diagnostic aid for the harness itself; not used by the check.
func init() {
	rig.SubCommands["c10-debug-batch"] = func(args []string) int {
		b, err := os.ReadFile(args[0])
		rig.Must(err)
		var batch c10Batch
		rig.Must(json.Unmarshal(b, &batch))
		rn := &c10Runner{fixturesDir: batch.FixturesDir, scratch: batch.Scratch, timeoutMs: batch.TimeoutMs, allocLimit: batch.AllocLimit,
			results: map[int]c10Result{}, deaths: map[int]string{}, hangs: map[int]bool{}, pristine: map[string]c10Case{}, flakyDeath: map[int]string{}}
		rn.runBatch(batch.Cases, "dbg")
		for id, r := range rn.results {
			fmt.Printf("result %d: %s viols=%d err=%q\n", id, r.Class, len(r.Viols), r.Err)
		}
		for id, d := range rn.deaths {
			if len(d) > 120 {
				d = d[:120]
			}
			fmt.Printf("death %d: %q\n", id, d)
		}
		fmt.Println("hangs:", rn.hangs, "flaky:", rn.flaky, "child runs:", rn.childRuns)
		return 0
	}
}
